import NiftyVerif.Model.ResponseProto
open NiftyVerif.Proto

/-!
  C35 model driver: the handler lives in NiftyVerif/Model/ResponseProto.lean (protocol documented there).
-/

def main : IO Unit := run NiftyVerif.ResponseProto.handle35
