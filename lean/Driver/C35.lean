import NiftyVerif.Model.LinOpsProto
import NiftyVerif.Model.Response
open Lean NiftyVerif NiftyVerif.Proto NiftyVerif.Coo NiftyVerif.LinOps NiftyVerif.LinOpsProto NiftyVerif.Response

/-!
  C35 model driver.  "cls" = LinearInterpolator / LOSResponse are handled here (Model/Response.lean, exact rationals);
  every other "cls" (FieldZeroPadder, RegriddingOperator, MaskOperator, …) goes to the shared LinOps handler.
    {"cls":"LinearInterpolator","shape":[..],"dist":["p/q",..],"points":[[x_0,..,x_{d-1}],…], "x":…, "y":…}
    {"cls":"LOSResponse","shape":[..],"dist":[..],"starts":[[..],…],"ends":[[..],…]}   weights in line-parameter units
-/

def ratLists? (j : Json) (k : String) : Option (List (List Rat)) := (field? j k).bind (listOf? ratList?)

def toCQ (M : Coo Rat) : Coo CQ := ⟨M.rows, M.cols, M.ent.map fun e => (e.1, e.2.1, CQ.ofRat e.2.2)⟩

def handle35 (j : Json) : Json :=
  match fStr? j "cls" with
  | some "LinearInterpolator" =>
    match fNatList? j "shape", fRatList? j "dist", ratLists? j "points" with
    | some shape, some dist, some pts =>
      if dist.length != shape.length || pts.any (fun p => p.length != shape.length) then jErr "TypeError" else
      if dist.any (· == 0) then jErr "bad-args" else
      render j (twoModes (toCQ (interpCoo shape dist pts)))
    | _, _, _ => jErr "bad-args"
  | some "LOSResponse" =>
    match fNatList? j "shape", fRatList? j "dist", ratLists? j "starts", ratLists? j "ends" with
    | some shape, some dist, some st, some en =>
      if st.length != en.length || st.any (fun p => p.length != shape.length) || en.any (fun p => p.length != shape.length)
      then jErr "TypeError" else
      render j (twoModes (toCQ (losCoo shape dist st en)))
    | _, _, _, _ => jErr "bad-args"
  | _ => LinOpsProto.handle j

def main : IO Unit := run handle35
