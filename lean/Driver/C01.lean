import NiftyVerif.Model.OpAlgebraDriver
/-! C01 line-protocol driver; the handler (request format documented there) is compiled in
    NiftyVerif/Model/OpAlgebraDriver.lean so that `lean --run` starts fast. -/
def main : IO Unit := NiftyVerif.Proto.run handleC01
