import NiftyVerif.Core.Proto
import NiftyVerif.Model.GaussMarkov
import NiftyVerif.Model.RatApprox
open Lean NiftyVerif.Proto NiftyVerif.GaussMarkov NiftyVerif.RatApprox

/-! Model driver for C29.  `W = K = Rat`.  `sqrt` is exact on squares of rationals and otherwise the floor
    of the root on the 2^-128 grid; `exp` is a Taylor sum with argument halving on the 2^-160 grid
    (both only ever compared in class T; class-E cases use perfect squares and no `exp`). -/

instance : SMul Rat Rat := ⟨fun a b => a * b⟩

def seqOf (l : List Rat) : Nat → Rat := fun k => l.getD k 0

def ratMat? (j : Json) : Option (List (List Rat)) := listOf? ratList? j
def fRatMat? (j : Json) (k : String) : Option (List (List Rat)) := (field? j k).bind ratMat?

def jMat (m : List (List Rat)) : Json := jList jRats m

def handle (j : Json) : Json :=
  match fStr? j "op" with
  | some "wiener" =>
    match fRatList? j "xi", fRat? j "x0", fRatList? j "sigma", fRatList? j "dt" with
    | some xi, some x0, some sg, some dt =>
      if sg.length != xi.length || dt.length != xi.length then jErr "shape" else
      if dt.any (· < 0) then jErr "nan" else
      let f := wiener (tabulate sqrtRat dt) (seqOf xi) x0 (seqOf sg) (seqOf dt)
      jObj [("x", jRats ((List.range (xi.length + 1)).map f))]
    | _, _, _, _ => jErr "bad-args"
  | some "iwp" =>
    match fRatList? j "xi0", fRatList? j "xi1", fRatList? j "x0", fRatList? j "sigma", fRatList? j "dt",
          fRatList? j "asp" with
    | some xi0, some xi1, some [x0x, x0v], some sg, some dt, some asp =>
      let n := xi0.length
      if xi1.length != n || sg.length != n || dt.length != n || asp.length != n then jErr "shape" else
      if dt.any (· < 0) || (List.range n).any (fun k => seqOf dt k * seqOf dt k / 12 + seqOf asp k < 0) then jErr "nan" else
      let sq := tabulate sqrtRat (dt ++ (List.range n).map (fun k => seqOf dt k * seqOf dt k / 12 + seqOf asp k))
      let fx := iwpX sq (seqOf sg) (seqOf dt) (seqOf asp) (seqOf xi0) (seqOf xi1) x0x x0v
      let fv := iwpV sq (seqOf sg) (seqOf dt) (seqOf xi1) x0v
      jObj [("X", jRats ((List.range (n + 1)).map fx)), ("V", jRats ((List.range (n + 1)).map fv))]
    | _, _, _, _, _, _ => jErr "bad-args"
  | some "ou" =>
    match fRatList? j "xi", fRat? j "x0", fRatList? j "sigma", fRatList? j "gamma", fRatList? j "dt" with
    | some xi, some x0, some sg, some ga, some dt =>
      let n := xi.length
      if sg.length != n || dt.length != n || ga.length != n then jErr "shape" else
      if (List.range n).any (fun k => seqOf ga k * seqOf dt k < 0) then jErr "nan" else
      let ex := tabulate expRat ((List.range n).map (fun k => -(seqOf ga k) * seqOf dt k))
      let sq := tabulate sqrtRat ((List.range n).map (fun k =>
        1 - ouDrift ex (seqOf ga) (seqOf dt) k * ouDrift ex (seqOf ga) (seqOf dt) k))
      let f := ou sq ex (seqOf xi) x0 (seqOf sg) (seqOf ga) (seqOf dt)
      jObj [("x", jRats ((List.range (n + 1)).map f))]
    | _, _, _, _, _ => jErr "bad-args"
  | some "gm" =>
    -- generic generator: xi : N×d, x0 : d, drift/diffamp : N matrices d×d
    match fRatMat? j "xi", fRatList? j "x0", (field? j "drift").bind (listOf? ratMat?),
          (field? j "diffamp").bind (listOf? ratMat?) with
    | some xi, some x0, some dr, some da =>
      let n := xi.length
      if dr.length != n || da.length != n then jErr "shape" else
      let f := discreteGM (fun k => xi.getD k []) x0 (fun k => dr.getD k []) (fun k => da.getD k [])
      jObj [("x", jMat ((List.range (n + 1)).map f))]
    | _, _, _, _ => jErr "bad-args"
  | some "iwpmats" =>
    -- the matrices `generic_eq_iwp` is about, for the generic-vs-special tie
    match fRatList? j "sigma", fRatList? j "dt", fRatList? j "asp" with
    | some sg, some dt, some asp =>
      let n := dt.length
      jObj [("drift", jList jMat ((List.range n).map (iwpDrift (seqOf dt)))),
            ("diffamp", jList jMat ((List.range n).map (iwpDiffamp (tabulate sqrtRat (dt ++ (List.range n).map (fun k => seqOf dt k * seqOf dt k / 12 + seqOf asp k))) (seqOf sg) (seqOf dt) (seqOf asp))))]
    | _, _, _ => jErr "bad-args"
  | some "sqrt" =>
    match fRat? j "x" with
    | some x => jObj [("y", jRat (sqrtRat x))]
    | _ => jErr "bad-args"
  | some "exp" =>
    match fRat? j "x" with
    | some x => jObj [("y", jRat (expRat x))]
    | _ => jErr "bad-args"
  | _ => jErr "bad-op"

def main : IO Unit := run handle
