import NiftyVerif.Core.Proto
import NiftyVerif.Model.ExprIO
import NiftyVerif.Model.Cplx
open Lean NiftyVerif NiftyVerif.Proto NiftyVerif.Expr NiftyVerif.Gen.Ptw NiftyVerif.ExprIO

/-!
  Line protocol for C03 (and C04's behavioural part).  Every float travels exactly, as the unsigned integer of its IEEE-754 binary64
  bit pattern (JSON number); sizes and indices are plain JSON numbers.
  ops:
   {"op":"ptw","f":name,"p":[..],"v":[..]}                       -> {"val":[..],"hval":[..],"der":[..]}     (T2 validation)
   {"op":"lin","in":[[key,size]..],"x":{key:[..]},"wm":bool,"expr":tree}
        -> {"dom":[[key,size]..],"pval":[..],"val":[..],"jac":[[..]..],"adj":[[..]..],"metric":null|[[..]..]}
      `jac[j]` = Jacobian applied to the j-th input unit vector, `adj[i]` = adjoint applied to the i-th output unit vector,
      `metric[j]` = metric applied to the j-th input unit vector (flattened in key order as given / as in "dom").
-/

/-- exact mode (class E): rationals as "p/q" strings.  The transcendental vocabulary is not available over `Rat`:
    the harness sends only trees whose point-wise functions are piecewise linear (abs, sign, unitstep, clip). -/
instance : Transc Rat where
  sqrt := fun _ => 0
  exp := fun _ => 0
  log := fun _ => 0
  sin := fun _ => 0
  cos := fun _ => 0
  tan := fun _ => 0
  sinh := fun _ => 0
  cosh := fun _ => 0
  tanh := fun _ => 0
  arctan := fun _ => 0
  pow := fun _ _ => 0
  pi := 0
  nan := 0

instance : Conj Rat := ⟨fun x => x⟩

def rationalFn (f : Fn) : Bool :=
  match f with
  | .abs | .absolute | .sign | .unitstep | .clip => true
  | _ => false

def rationalTree : Ex Rat → Bool
  | .var _ _ => true
  | .add a b => rationalTree a && rationalTree b
  | .sub a b => rationalTree a && rationalTree b
  | .mul a b => rationalTree a && rationalTree b
  | .vdot a b => rationalTree a && rationalTree b
  | .bil _ _ _ _ a b => rationalTree a && rationalTree b
  | .chain f g => rationalTree f && rationalTree g
  | .scale _ a => rationalTree a
  | .addc _ _ a => rationalTree a
  | .mulc _ a => rationalTree a
  | .ptw f _ a => rationalFn f && rationalTree a
  | .lin _ _ _ a => rationalTree a
  | .sum a => rationalTree a
  | .getKey _ a => rationalTree a
  | .putKey _ a => rationalTree a
  | .sqnorm a => rationalTree a
  | .quad _ a => rationalTree a
  | .gauss _ _ a => rationalTree a
  | .varcov _ _ _ => false
  | .const _ _ _ => true

def jRatMat (m : List (List Rat)) : Json := Json.arr (m.map jRats).toArray

def handleLinQ (j : Json) : Json :=
  match (field? j "in").bind getDom?, (field? j "expr").bind (getExG getRat? (0 : Rat)), fBool? j "wm" with
  | some din, some e, some wm =>
    match (field? j "x").bind (envOfG getRat? (0 : Rat) din) with
    | none => jErr "bad-env"
    | some ρ =>
      if !check e din then jErr "ill-formed" else
      if !rationalTree e then jErr "not-rational" else
      let dout := sortDom e.dom
      let l := lin e ρ wm
      let met := match l.metric with
        | none => Json.null
        | some M => jRatMat ((unitsG (0 : Rat) 1 din).map (fun h => flatG din (M h)))
      jObj [("dom", jDom dout),
            ("pval", jRats (flatG dout (eval e ρ))),
            ("val", jRats (flatG dout l.val)),
            ("jac", jRatMat ((unitsG (0 : Rat) 1 din).map (fun h => flatG dout (l.jac h)))),
            ("adj", jRatMat ((unitsG (0 : Rat) 1 dout).map (fun y => flatG din (l.adj y)))),
            ("metric", met)]
  | _, _, _ => jErr "bad-args"

/-! complex mode (class T): numbers as `[re_bits, im_bits]`; holomorphic nodes only -/

def getCplx? (j : Json) : Option Cplx :=
  match j with
  | Json.arr a =>
    match a.toList with
    | [x, y] => do some ⟨← getFloat? x, ← getFloat? y⟩
    | _ => none
  | _ => none

def jCplx (z : Cplx) : Json := Json.arr #[jFloat z.re, jFloat z.im]
def jCplxs (l : List Cplx) : Json := Json.arr (l.map jCplx).toArray
def jCplxMat (m : List (List Cplx)) : Json := Json.arr (m.map jCplxs).toArray

def holoFn (f : Fn) : Bool :=
  match f with
  | .sin | .cos | .exp | .expm1 | .sinh | .cosh | .tanh | .sigmoid | .reciprocal | .sqrt | .log | .log10 | .log1p
  | .power | .exponentiate | .tan | .arctan => true
  | _ => false

def holoTree : Ex Cplx → Bool
  | .var _ _ => true
  | .add a b => holoTree a && holoTree b
  | .sub a b => holoTree a && holoTree b
  | .mul a b => holoTree a && holoTree b
  | .bil _ _ _ _ a b => holoTree a && holoTree b
  | .chain f g => holoTree f && holoTree g
  | .scale _ a => holoTree a
  | .addc _ _ a => holoTree a
  | .mulc _ a => holoTree a
  | .ptw f _ a => holoFn f && holoTree a
  | .lin _ _ _ a => holoTree a
  | .sum a => holoTree a
  | .getKey _ a => holoTree a
  | .putKey _ a => holoTree a
  | _ => false

def handleLinC (j : Json) : Json :=
  let z : Cplx := ⟨0.0, 0.0⟩
  let o : Cplx := ⟨1.0, 0.0⟩
  match (field? j "in").bind getDom?, (field? j "expr").bind (getExG getCplx? z) with
  | some din, some e =>
    match (field? j "x").bind (envOfG getCplx? z din) with
    | none => jErr "bad-env"
    | some ρ =>
      if !check e din then jErr "ill-formed" else
      if !holoTree e then jErr "not-holomorphic" else
      let dout := sortDom e.dom
      let l := lin e ρ false
      jObj [("dom", jDom dout),
            ("pval", jCplxs (flatG dout (eval e ρ))),
            ("val", jCplxs (flatG dout l.val)),
            ("jac", jCplxMat ((unitsG z o din).map (fun h => flatG dout (l.jac h)))),
            ("adj", jCplxMat ((unitsG z o dout).map (fun y => flatG din (l.adj y))))]
  | _, _ => jErr "bad-args"

def handle (j : Json) : Json :=
  match fStr? j "op" with
  | some "ptw" =>
    match (fStr? j "f").bind Fn.ofString, fFloatList? j "p", fFloatList? j "v" with
    | some f, some p, some v =>
      if p.length != f.arity then jErr "arity" else
      jObj [("val", jFloats (v.map (f.val p))), ("hval", jFloats (v.map (f.hval p))), ("der", jFloats (v.map (f.der p)))]
    | _, _, _ => jErr "bad-args"
  | some "ptwc" =>
    match (fStr? j "f").bind Fn.ofString, (field? j "p").bind (listOf? getCplx?), (field? j "v").bind (listOf? getCplx?) with
    | some f, some p, some v =>
      if p.length != f.arity then jErr "arity" else
      if !holoFn f then jErr "not-holomorphic" else
      jObj [("val", jCplxs (v.map (f.val p))), ("hval", jCplxs (v.map (f.hval p))), ("der", jCplxs (v.map (f.der p)))]
    | _, _, _ => jErr "bad-args"
  | some "linq" => handleLinQ j
  | some "linc" => handleLinC j
  | some "lin" =>
    match (field? j "in").bind getDom?, (field? j "expr").bind getEx?, fBool? j "wm" with
    | some din, some e, some wm =>
      match (field? j "x").bind (envOf din) with
      | none => jErr "bad-env"
      | some ρ =>
        if !check e din then jErr "ill-formed" else
        let dout := sortDom e.dom
        let l := lin e ρ wm
        let jac := (units din).map (fun h => flat dout (l.jac h))
        let adj := (units dout).map (fun y => flat din (l.adj y))
        let met := match l.metric with
          | none => Json.null
          | some M => Json.arr ((units din).map (fun h => jFloats (flat din (M h)))).toArray
        jObj [("dom", Json.arr (dout.map (fun kn => Json.arr #[Json.str kn.1, jNat kn.2])).toArray),
              ("pval", jFloats (flat dout (eval e ρ))),
              ("val", jFloats (flat dout l.val)),
              ("jac", Json.arr (jac.map jFloats).toArray),
              ("adj", Json.arr (adj.map jFloats).toArray),
              ("metric", met)]
    | _, _, _ => jErr "bad-args"
  | _ => jErr "bad-op"

def main : IO Unit := run handle
