import NiftyVerif.Core.Proto
import NiftyVerif.Model.ExprIO
open Lean NiftyVerif NiftyVerif.Proto NiftyVerif.Expr NiftyVerif.Gen.Ptw NiftyVerif.ExprIO

/-!
  Line protocol for C03 (and C04's behavioural part).  Every float travels exactly, as the unsigned integer of its IEEE-754 binary64
  bit pattern (JSON number); sizes and indices are plain JSON numbers.
  ops:
   {"op":"ptw","f":name,"p":[..],"v":[..]}                       -> {"val":[..],"hval":[..],"der":[..]}     (T2 validation)
   {"op":"lin","in":[[key,size]..],"x":{key:[..]},"wm":bool,"expr":tree}
        -> {"dom":[[key,size]..],"pval":[..],"val":[..],"jac":[[..]..],"adj":[[..]..],"metric":null|[[..]..]}
      `jac[j]` = Jacobian applied to the j-th input unit vector, `adj[i]` = adjoint applied to the i-th output unit vector,
      `metric[j]` = metric applied to the j-th input unit vector (flattened in key order as given / as in "dom").
-/

def handle (j : Json) : Json :=
  match fStr? j "op" with
  | some "ptw" =>
    match (fStr? j "f").bind Fn.ofString, fFloatList? j "p", fFloatList? j "v" with
    | some f, some p, some v =>
      if p.length != f.arity then jErr "arity" else
      jObj [("val", jFloats (v.map (f.val p))), ("hval", jFloats (v.map (f.hval p))), ("der", jFloats (v.map (f.der p)))]
    | _, _, _ => jErr "bad-args"
  | some "lin" =>
    match (field? j "in").bind getDom?, (field? j "expr").bind getEx?, fBool? j "wm" with
    | some din, some e, some wm =>
      match (field? j "x").bind (envOf din) with
      | none => jErr "bad-env"
      | some ρ =>
        if !check e din then jErr "ill-formed" else
        let dout := sortDom e.dom
        let l := lin e ρ wm
        let jac := (units din).map (fun h => flat dout (l.jac h))
        let adj := (units dout).map (fun y => flat din (l.adj y))
        let met := match l.metric with
          | none => Json.null
          | some M => Json.arr ((units din).map (fun h => jFloats (flat din (M h)))).toArray
        jObj [("dom", Json.arr (dout.map (fun kn => Json.arr #[Json.str kn.1, jNat kn.2])).toArray),
              ("pval", jFloats (flat dout (eval e ρ))),
              ("val", jFloats (flat dout l.val)),
              ("jac", Json.arr (jac.map jFloats).toArray),
              ("adj", Json.arr (adj.map jFloats).toArray),
              ("metric", met)]
    | _, _, _ => jErr "bad-args"
  | _ => jErr "bad-op"

def main : IO Unit := run handle
