import NiftyVerif.Core.Proto
import NiftyVerif.Model.SampleFiles
import NiftyVerif.Model.Welford
open Lean NiftyVerif.Proto NiftyVerif.SampleFiles NiftyVerif.Welford

def errName : Err → String
  | .fileExists => "RuntimeError"
  | .noFiles => "RuntimeError"
  | .noZero => "ValueError"
  | .notFound => "RuntimeError"
  | .meanMissing => "FileNotFoundError"

def jDir (d : Dir) : Json :=
  jObj [("idx", jNats (listing d)), ("mean", Json.bool d.mean.isSome)]

/-- one operation of a history on the directory of one base; returns (new dir, result json) -/
def stepOp (d : Dir) (j : Json) : Dir × Json :=
  match fStr? j "k" with
  | some "save" =>
    match fNatList? j "xs", fNatList? j "counts", fBool? j "ow" with
    | some xs, some counts, some ow =>
      let mean := fNat? j "mean"
      let r := save d xs counts ow mean
      match r.2 with
      | .ok _ => (r.1, jObj [("res", Json.str "ok"), ("dir", jDir r.1)])
      | .error e => (r.1, jObj [("error", Json.str (errName e)), ("dir", jDir r.1)])
    | _, _, _ => (d, jErr "bad-args")
  | some "load" =>
    match fNat? j "q", fBool? j "residual" with
    | some q, some residual =>
      match load d q residual with
      | .ok per => (d, jObj [("per", jList jNats per), ("dir", jDir d)])
      | .error e => (d, jObj [("error", Json.str (errName e)), ("dir", jDir d)])
    | _, _ => (d, jErr "bad-args")
  | _ => (d, jErr "bad-op")

/-- a history addresses several bases (field "b"); the model keeps one directory per base -/
def runHistory (ops : List Json) : List Json :=
  let rec go (dirs : List (Nat × Dir)) : List Json → List Json
    | [] => []
    | j :: rest =>
      let b := (fNat? j "b").getD 0
      let d := (dirs.lookup b).getD ⟨fun _ => none, 0, none⟩
      let r := stepOp d j
      r.2 :: go ((b, r.1) :: dirs.filter (fun p => p.1 != b)) rest
  go [] ops

def statJson (xs : List Rat) : Json :=
  let s := wRun xs
  jObj [("count", jNat s.count),
        ("mean", match wMean s with | some m => jRat m | none => Json.str "RuntimeError"),
        ("var", match wVar s with | some v => jRat v | none => Json.str "RuntimeError"),
        ("sample_stat", match sampleStat xs with
          | some (m, v) => Json.arr #[jRat m, jRat v]
          | none => Json.str "RuntimeError")]

/-- ops:
  {"op":"history","ops":[{"k":"save","b":base,"xs":[..],"counts":[..],"ow":b,"mean":t?} | {"k":"load","b":base,"q":n,"residual":b}]}
  {"op":"conslen","lst":[..]}
  {"op":"stat","xs":["p/q",..]} -/
def handle (j : Json) : Json :=
  match fStr? j "op" with
  | some "history" =>
    match (field? j "ops").bind getArr? with
    | some ops => Json.arr (runHistory ops).toArray
    | none => jErr "bad-args"
  | some "conslen" =>
    match fNatList? j "lst" with
    | some l => match consecutiveLength l with
      | .ok n => jObj [("n", jNat n)]
      | .error e => jErr (errName e)
    | none => jErr "bad-args"
  | some "stat" =>
    match fRatList? j "xs" with
    | some xs => statJson xs
    | none => jErr "bad-args"
  | _ => jErr "bad-op"

def main : IO Unit := run handle
