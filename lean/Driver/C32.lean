import NiftyVerif.Core.Proto
import NiftyVerif.Model.Hmc
import NiftyVerif.Model.RatApprox
open Lean NiftyVerif.Proto NiftyVerif.Hmc NiftyVerif.RatApprox

/-! Model driver for C32: leapfrog in exact rationals on `V = List Rat` for polynomial potentials
    `U(q) = ½ qᵀA q + Σ b_i q_i⁴/4 + Σ c_i q_i` (`∇U = A q + b∘q³ + c`), diagonal inverse mass matrix;
    Metropolis decision from recorded energies; NUTS slot bookkeeping. -/

structure Vec where
  v : List Rat
deriving BEq

instance : Add Vec := ⟨fun a b => ⟨List.zipWith (· + ·) a.v b.v⟩⟩
instance : Sub Vec := ⟨fun a b => ⟨List.zipWith (· - ·) a.v b.v⟩⟩
instance : Neg Vec := ⟨fun a => ⟨a.v.map (fun x => -x)⟩⟩
instance : SMul Rat Vec := ⟨fun c a => ⟨a.v.map (fun x => c * x)⟩⟩

def dot (a b : List Rat) : Rat := (List.zipWith (· * ·) a b).foldl (· + ·) 0

def gradU (A : List (List Rat)) (b c : List Rat) (q : Vec) : Vec :=
  let lin := A.map (fun row => dot row q.v)
  let cub := List.zipWith (fun bi qi => bi * qi * qi * qi) b q.v
  ⟨List.zipWith (· + ·) (List.zipWith (· + ·) lin cub) c⟩

def gradK (minv : List Rat) (p : Vec) : Vec := ⟨List.zipWith (· * ·) minv p.v⟩

def potential (A : List (List Rat)) (b c : List Rat) (q : List Rat) : Rat :=
  dot q (A.map (fun row => dot row q)) / 2
    + (List.zipWith (fun bi qi => bi * qi * qi * qi * qi / 4) b q).foldl (· + ·) 0 + dot c q

def kinetic (minv p : List Rat) : Rat := dot minv (p.map (fun x => x * x / 2))

def ratMat? (j : Json) : Option (List (List Rat)) := listOf? ratList? j

def jOptNat : Option Nat → Json
  | some n => jNat n
  | none => Json.null

def handle (j : Json) : Json :=
  match fStr? j "op" with
  | some "leapfrog" =>
    match fRatList? j "q", fRatList? j "p", fRat? j "eps", fNat? j "n", (field? j "A").bind ratMat?,
          fRatList? j "b", fRatList? j "c", fRatList? j "minv" with
    | some q, some p, some eps, some n, some A, some b, some c, some minv =>
      let d := q.length
      if p.length != d || A.length != d || A.any (·.length != d) || b.length != d || c.length != d || minv.length != d
      then jErr "shape" else
      let z := leapfrogN (gradU A b c) (gradK minv) eps n ⟨⟨q⟩, ⟨p⟩⟩
      -- exact round trip (instance of leapfrog_n_reversible); skipped for quartic terms (rational blow-up)
      let quad := b.all (· == 0)
      let back := if quad then flip (leapfrogN (gradU A b c) (gradK minv) eps n (flip z)) else ⟨⟨q⟩, ⟨p⟩⟩
      jObj [("q", jRats z.q.v), ("p", jRats z.p.v),
            ("energy0", jRat (potential A b c q + kinetic minv p)),
            ("energy1", jRat (potential A b c z.q.v + kinetic minv z.p.v)),
            ("roundtrip_exact", Json.bool (back.q == ⟨q⟩ && back.p == ⟨p⟩))]
    | _, _, _, _, _, _, _, _ => jErr "bad-args"
  | some "accept" =>
    -- u = the uniform draw, energies as recorded from the real run
    match fRat? j "u", fRat? j "e_init", fRat? j "e_prop" with
    | some u, some e0, some e1 =>
      let p := transitionProbability expRat e0 e1
      let acc := accept u p
      jObj [("p", jRat p), ("accept", Json.bool acc)]
    | _, _, _ => jErr "bad-args"
  | some "keep" =>
    -- add_single_qp_to_tree: u, tree.logweight, neg_energy of the new leaf
    match fRat? j "u", fRat? j "w_old", fRat? j "neg_energy" with
    | some u, some w, some e =>
      let p := keepProb expRat w e
      jObj [("p", jRat p), ("remain", Json.bool (accept u p))]
    | _, _, _ => jErr "bad-args"
  | some "merge" =>
    match fRat? j "u", fRat? j "w_new", fRat? j "w_cur", fBool? j "bias" with
    | some u, some wn, some wc, some b =>
      let p := mergeProb expRat b wn wc
      jObj [("p", jRat p), ("take_new", Json.bool (accept u p))]
    | _, _, _, _ => jErr "bad-args"
  | some "accrun" =>
    match fRatList? j "values" with
    | some xs => jObj [("acceptance", jRat (accRun xs 0 0))]
    | _ => jErr "bad-args"
  | some "slots" =>
    match fNat? j "n" with
    | some n =>
      jObj [("cto", jNat (countTrailingOnes n)), ("pop", jNat (popCount n)),
            ("slots", jNats (checkedSlots n)),
            ("checked", jList jOptNat (checkedLeaves n)),
            ("expected", jList jOptNat (subtreeLeftLeaves n))]
    | _ => jErr "bad-args"
  | _ => jErr "bad-op"

def main : IO Unit := run handle
