import NiftyVerif.Core.Proto
import NiftyVerif.Model.Grid
import NiftyVerif.Gen.GridWeights
open Lean NiftyVerif.Proto NiftyVerif.Grid

def parseAxis (j : Json) : Option Axis := do
  some { n := ← fNat? j "n", s := ← fNat? j "s", ps := ← fNat? j "ps", pad := ← fNat? j "pad",
         ppad := ← fNat? j "ppad", sh := ← fNat? j "sh" }

/-- optional physical coordinates of a `SimpleOpenGridAtLevel` axis: real-valued shift and pixel distance -/
def parsePhys (j : Json) : Option (Rat × Rat) :=
  match fRat? j "csh", fRat? j "cdist" with
  | some a, some b => some (a, b)
  | _, _ => none

/-- `SimpleOpenGridAtLevel.index2coord`: `(i + shifts + 1/2) / (n + 2 shifts) * ((n + 2 shifts) * distances)` -/
def simpleCoord (n : Nat) (csh cdist : Rat) (i : Nat) : Rat :=
  ((i : Rat) + csh + 1 / 2) / ((n : Rat) + 2 * csh) * (((n : Rat) + 2 * csh) * cdist)

def natLists? (j : Json) : Option (List (List Nat)) := listOf? natList? j

def jNatss (l : List (List Nat)) : Json := jList jNats l

def parseOrd (s : String) : Option FlatOrd :=
  if s == "serial" then some .serial else if s == "nest" then some .nest else none

/-- everything the code computes for every index of one level of a (product) grid -/
def levelDump (ax : List Axis) (phys : List (Option (Rat × Rat))) (hasChildren hasParent : Bool) (win : List Nat) : Json :=
  let shape := ax.map (·.n)
  let items := (mgrid shape).map fun idx =>
    jObj [("i", jNats idx),
          ("children", if hasChildren then jNatss (children ax idx) else Json.null),
          ("parent", if hasParent then jNats (parentVec ax idx) else Json.null),
          ("refined", Json.bool (hasChildren && isRefinedVec ax idx)),
          ("nbh", jNatss (neighborhood ax win idx)),
          ("coord", jRats (List.zipWith (fun (ap : Axis × Option (Rat × Rat)) (i : Nat) =>
              match ap.2 with
              | some (csh, cdist) => simpleCoord ap.1.n csh cdist i
              | none => index2coord (K := Rat) ap.1.n ap.1.sh (i : Rat)) (List.zip ax phys) idx)),
          ("rt", jInts (List.zipWith (fun (a : Axis) (i : Nat) =>
              coord2index a.n a.sh (index2coord (K := Rat) a.n a.sh (i : Rat))) ax idx))]
  jObj [("items", Json.arr items.toArray),
        ("refinedIndices", if hasChildren then jNatss (refinedIndices ax) else Json.null),
        ("volume", jRat (if phys.all Option.isSome && !phys.isEmpty then (phys.map fun p => (p.getD (0, 1)).2).foldl (· * ·) 1
                         else volume (K := Rat) ax))]

def flatDump (g : FlatLevel) (hasChildren hasParent : Bool) (win : List Nat) : Json :=
  let shape := g.shape
  let size := shape.prod
  let flats := (mgrid shape).map fun idx => jNat (ravel g.o shape g.bases idx)
  let items := (List.range size).map fun f =>
    jObj [("f", jNat f),
          ("index", jNats (unravel g.o shape g.bases f)),
          ("children", if hasChildren then jNats (flatChildren g f) else Json.null),
          ("parent", if hasParent then jNat (flatParent g f) else Json.null),
          ("nbh", jNats (flatNeighborhood g win f))]
  jObj [("flat", Json.arr flats.toArray), ("items", Json.arr items.toArray)]

def handle (j : Json) : Json :=
  match fStr? j "op" with
  | some "at" =>
    -- per axis: shape0, list of (split, padding) up to the level
    match fNatList? j "shape0", (field? j "splits").bind natLists?, (field? j "padding").bind natLists? with
    | some shape0, some splits, some padding =>
      let per := shape0.mapIdx fun k n0 =>
        openShapeShift n0 0 (List.zip (splits.map (·.getD k 0)) (padding.map (·.getD k 0)))
      jObj [("shape", jNats (per.map (·.1))), ("shifts", jNats (per.map (·.2)))]
    | _, _, _ => jErr "bad-args"
  | some "level" =>
    match (field? j "axes").bind (listOf? parseAxis), fBool? j "hasChildren", fBool? j "hasParent", fNatList? j "win" with
    | some ax, some hc, some hp, some win =>
      let phys := ((field? j "axes").bind getArr?).getD [] |>.map parsePhys
      levelDump ax phys hc hp win
    | _, _, _, _ => jErr "bad-args"
  | some "flat" =>
    match (fStr? j "o").bind parseOrd, (field? j "axes").bind (listOf? parseAxis), (field? j "bases").bind natLists?,
          fNatList? j "childShape", fNatList? j "parentShape", fBool? j "hasChildren", fBool? j "hasParent",
          fNatList? j "win" with
    | some o, some ax, some bases, some cs, some ps, some hc, some hp, some win =>
      flatDump { o := o, ax := ax, bases := bases, childShape := cs, parentShape := ps } hc hp win
    | _, _, _, _, _, _, _, _ => jErr "bad-args"
  | some "weightsSerialGen" =>
    match fNatList? j "shape" with
    | some sh => jNats (NiftyVerif.Gen.weightsSerialGen sh)
    | none => jErr "bad-args"
  | some "parseIndex" =>
    match fNat? j "n", fIntList? j "is" with
    | some n, some is_ => if n == 0 then jErr "ZeroDivisionError" else jNats (is_.map (parseIndex n))
    | _, _ => jErr "bad-args"
  | some "coord2index" =>
    match fNat? j "n", fNat? j "sh", fRatList? j "xs" with
    | some n, some sh, some xs => jInts (xs.map (coord2index n sh))
    | _, _, _ => jErr "bad-args"
  | _ => jErr "bad-op"

def main : IO Unit := run handle
