import NiftyVerif.Core.Proto
import NiftyVerif.Model.RVec
import NiftyVerif.Model.CgRe
import NiftyVerif.Model.NewtonRe
open Lean NiftyVerif NiftyVerif.Proto

/-! Driver for C17: objectives are polynomials with rational coefficients (list of monomials); gradient and
    Hessian-vector product are computed symbolically here (driver-side helper, not part of the verified model). -/

structure Mono where
  c : Rat
  e : List Nat

def ratPow (x : Rat) : Nat → Rat
  | 0 => 1
  | n + 1 => x * ratPow x n

def Mono.eval (m : Mono) (x : List Rat) : Rat :=
  (List.zip m.e x).foldl (fun acc (p : Nat × Rat) => acc * ratPow p.2 p.1) m.c

def polyEval (p : List Mono) (x : List Rat) : Rat := p.foldl (fun acc m => acc + m.eval x) 0

/-- ∂/∂x_i of a monomial -/
def Mono.diff (m : Mono) (i : Nat) : Option Mono :=
  match m.e[i]? with
  | some (k + 1) => some { c := m.c * ((k + 1 : Nat) : Rat), e := m.e.set i k }
  | _ => none

def polyDiff (p : List Mono) (i : Nat) : List Mono := p.filterMap (·.diff i)

def parseMono (j : Json) : Option Mono := do
  let c ← fRat? j "c"
  let e ← fNatList? j "e"
  some { c, e }

def optField {α} (j : Json) (k : String) (f : Json → Option α) : Option (Option α) :=
  match field? j k with
  | none => some none
  | some Json.null => some none
  | some v => (f v).map some

/-- decimal rendering `"<m>e<k>"` with about 30 significant digits (outputs are compared in class T only) -/
def ratApprox (r : Rat) : Json :=
  if r.num == 0 then Json.str "0e0" else
  let s : Int := (Nat.log2 r.num.natAbs : Int) - (Nat.log2 r.den : Int)
  let e10 : Int := (s * 30103) / 100000 - 30
  let m : Int := if e10 ≥ 0 then r.num / ((r.den : Int) * (10 ^ e10.toNat : Nat))
                 else (r.num * (10 ^ (-e10).toNat : Nat)) / (r.den : Int)
  Json.str s!"{m}e{e10}"

def jApprox (l : List Rat) : Json := Json.arr (l.map ratApprox).toArray

def l1 {n : Nat} (v : RVec n) : Rat := v.toList.foldl (fun a x => a + (if x < 0 then -x else x)) 0

def runNcg (j : Json) : Option Json := do
  let x0l ← fRatList? j "x0"
  let n := x0l.length
  let x0 ← RVec.ofList? n x0l
  let poly ← (field? j "poly").bind (listOf? parseMono)
  if poly.any (fun m => m.e.length != n) then none else
  let grads : List (List Mono) := (List.range n).map (polyDiff poly)
  let hess : List (List (List Mono)) := grads.map fun gi => (List.range n).map (polyDiff gi)
  let f : RVec n → Rat × RVec n := fun x =>
    let xl := x.toList
    (polyEval poly xl, RVec.ofFn fun i => polyEval (grads.getD i.val []) xl)
  let hessp : RVec n → RVec n → RVec n := fun x v =>
    let xl := x.toList
    let vl := v.toList
    RVec.ofFn fun i =>
      let row := hess.getD i.val []
      (List.zip row vl).foldl (fun acc (p : List Mono × Rat) => acc + polyEval p.1 xl * p.2) 0
  -- Newton configuration
  let miniter ← fNat? j "miniter"
  let maxiter ← fNat? j "maxiter"
  let absdelta ← optField j "absdelta" getRat?
  let xtol ← fRat? j "xtol"
  let erf ← optField j "erf" getRat?
  let oldFval ← optField j "old_fval" getRat?
  let c : NewtonRe.Cfg Rat := { miniter, maxiter, absdelta, xtol, erf, oldFval }
  -- CG configuration: what cg_kwargs pins (norm_ord, resnorm, absdelta, miniter, maxiter) on top of the minimiser's defaults
  let cgj ← field? j "cg"
  let cres ← optField cgj "resnorm" getRat?
  let cabs ← optField cgj "absdelta" getRat?
  let pinRes := (fBool? cgj "pin_res").getD false
  let pinAbs := (fBool? cgj "pin_abs").getD false
  let cmin ← optField cgj "miniter" getNat?
  let cmax ← optField cgj "maxiter" getNat?
  let tiny ← fRat? cgj "tiny"
  let eps ← fRat? cgj "eps"
  let ctol ← fRat? cgj "tol"
  let cord := (fStr? cgj "norm_ord").getD "1"
  if cord != "2" && cord != "1" && cord != "inf" then none else
  let cgnrm : RVec n → Rat := if cord == "inf" then RVec.normInf else RVec.norm1
  -- `mag_g = norm(g, ord=cg_kwargs.get("norm_ord", 1))`
  let magnorm : RVec n → Rat := fun g => if cord == "2" then 0 else cgnrm g
  let base : CgRe.Cfg Rat := { absdelta := cabs, resnorm := cres, tol := ctol, atol := 0, miniter := cmin, maxiter := cmax,
                               raiseNPD := false, normTwo := cord == "2", resnormSqrt := none, tiny, eps, nreset := 20,
                               size := n }
  if cord == "2" && !pinRes then none else      -- √-scaled default resnorm with the Euclidean magnitude is irrational
  let fake : Option (Rat × Int) := do
    let fj ← field? j "cgfake"
    let sc ← fRat? fj "scale"
    let inf ← fInt? fj "info"
    some (sc, inf)
  -- robustness probe of the harness: scale the derived CG thresholds by `pert` (default 1)
  let pert : Rat := (fRat? j "pert").getD 1
  let pa (a : NewtonRe.CgArgs Rat) : NewtonRe.CgArgs Rat := ⟨a.absdelta.map (· * pert), a.mag * pert⟩
  let cgE : NewtonRe.CgArgs Rat → RVec n → RVec n → RVec n × Int := fun a0 pos g =>
    let a := pa a0
    if let some (sc, inf) := fake then (sc • g, inf) else
      NewtonRe.cgOracle base pinAbs pinRes RVec.dot cgnrm hessp a pos g
  let cgS : NewtonRe.CgArgs Rat → RVec n → RVec n → RVec n × Int := fun a0 pos g =>
    let a := pa a0
    if let some (sc, inf) := fake then (sc • g, inf) else
      NewtonRe.cgOracleStatic base pinAbs pinRes RVec.dot cgnrm hessp a pos g
  let resJ (r : NewtonRe.NRes Rat (RVec n)) : Json :=
    jObj [("x", jApprox r.x.toList), ("status", jInt r.status), ("fun", ratApprox r.fn), ("nit", jNat r.nit)]
  let eager := NewtonRe.ncgEager c f hessp RVec.dot l1 magnorm cgE x0
  let ej : Json := match eager with
    | .ok r => resJ r
    | .error _ => jObj [("error", Json.str "ValueError")]
  let sj : Json := match NewtonRe.ncgStatic c f hessp RVec.dot l1 magnorm cgS x0 with
    | some r => resJ r
    | none => jObj [("error", Json.str "ValueError")]
  -- trace of the eager run for margin decisions: the model's own step function is driven from here
  let item (st : NewtonRe.NSt Rat (RVec n)) : Json :=
    let (natg, info) := cgE (NewtonRe.eagerCgArgs c magnorm st) st.pos st.g
    let ls := NewtonRe.lineSearchEager f hessp RVec.dot st.pos st.energy st.g natg
    let rd := NewtonRe.resetDir RVec.dot hessp st.pos st.g
    let ntr := if ls.found then ls.trials else 9
    let tes : List Rat := (List.range ntr).map fun t =>
      let gs : Rat := if t ≤ 5 then 1 / ratPow 2 t else 1 / ratPow 2 (t - 6)
      let dd := if t ≤ 5 then natg else rd
      (f (st.pos - gs • dd)).1
    jObj [("e", ratApprox st.energy), ("trials", jApprox tes), ("found", Json.bool ls.found),
          ("dn", ratApprox (ls.gs * l1 ls.dd)), ("ediff", ratApprox (st.energy - ls.newEnergy)),
          ("gg", ratApprox (RVec.dot st.g st.g)), ("curv", ratApprox (RVec.dot st.g (hessp st.pos st.g))),
          ("cginfo", jInt info), ("natg", jApprox natg.toList)]
  let rec tr (fuel i : Nat) (st : NewtonRe.NSt Rat (RVec n)) (acc : List Json) : List Json :=
    match fuel with
    | 0 => acc.reverse
    | fuel + 1 =>
      let acc := item st :: acc
      match NewtonRe.ncgEagerStep c f hessp RVec.dot l1 magnorm cgE i st with
      | .next st' => tr fuel (i + 1) st' acc
      | .stop _ => acc.reverse
  let fe0 := f x0
  let trace := tr maxiter 1 ⟨x0, fe0.1, fe0.2, oldFval⟩ []
  some (jObj [("eager", ej), ("static", sj), ("trace", Json.arr trace.toArray)])

/-- trust-region replay: the sub-problem solver's recorded answers are the oracle (one per iteration) -/
def runTrust (j : Json) : Option Json := do
  let x0l ← fRatList? j "x0"
  let n := x0l.length
  let x0 ← RVec.ofList? n x0l
  let poly ← (field? j "poly").bind (listOf? parseMono)
  if poly.any (fun m => m.e.length != n) then none else
  let grads : List (List Mono) := (List.range n).map (polyDiff poly)
  let f : RVec n → Rat × RVec n := fun x =>
    let xl := x.toList
    (polyEval poly xl, RVec.ofFn fun i => polyEval (grads.getD i.val []) xl)
  let maxiter ← fNat? j "maxiter"
  let absdelta ← optField j "absdelta" getRat?
  let gtol ← fRat? j "gtol"
  let maxTr ← fRat? j "maxTr"
  let initTr ← fRat? j "initTr"
  let eta ← fRat? j "eta"
  let eps ← fRat? j "eps"
  let tc : NewtonRe.TCfg Rat := { maxiter, absdelta, gtol, maxTr, initTr, eta, eps }
  let subsJ ← (field? j "subs").bind getArr?
  let subs ← subsJ.mapM fun sj => do
    let st ← (fRatList? sj "step").bind (RVec.ofList? n)
    let h ← fBool? sj "hits"
    let pf ← fRat? sj "predF"
    some ({ step := st, hits := h, predF := pf } : NewtonRe.SubRes Rat (RVec n))
  let rec go (fuel : Nat) (subs : List (NewtonRe.SubRes Rat (RVec n))) (p : NewtonRe.TSt Rat (RVec n)) (acc : List Json) :
      NewtonRe.TSt Rat (RVec n) × List Json × Bool :=
    match fuel with
    | 0 => (p, acc.reverse, false)
    | fuel + 1 =>
      if p.converged = false ∧ p.status = 0 then
        match subs with
        | [] => (p, acc.reverse, true)           -- the real run made fewer sub-problem calls than the model needs
        | s :: rest =>
          let fe := f (p.x + s.step)
          let item := jObj [("actual", ratApprox (p.fn - fe.1)), ("pred", ratApprox (p.fn - s.predF)),
                            ("f", ratApprox p.fn), ("gmag", ratApprox (l1 fe.2))]
          go fuel rest (NewtonRe.trustStep tc f l1 (fun _ _ _ _ => s) p) (item :: acc)
      else (p, acc.reverse, false)
  let (p, tr, short) := go (maxiter + 1) subs (NewtonRe.trustInit tc f l1 x0) []
  some (jObj [("x", jApprox p.x.toList), ("fun", ratApprox p.fn), ("status", jInt p.status), ("nit", jNat p.nit),
              ("tr", ratApprox p.tr), ("converged", Json.bool p.converged), ("short", Json.bool short),
              ("trace", Json.arr tr.toArray)])

def handle (j : Json) : Json :=
  match fStr? j "op" with
  | some "trust" => (runTrust j).getD (jErr "bad-args")
  | some "ncg" => (runNcg j).getD (jErr "bad-args")
  | _ => jErr "bad-op"

def main : IO Unit := run handle
