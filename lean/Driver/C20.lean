import NiftyVerif.Core.Proto
import NiftyVerif.Model.Vi
open Lean NiftyVerif.Proto NiftyVerif.LinAlg NiftyVerif.Vi

/-! Model driver for C20: exact rational Wiener filter in signal and data space. -/

def ratMat? (j : Json) : Option (List (List Rat)) := listOf? ratList? j
def fRatMat? (j : Json) (k : String) : Option (List (List Rat)) := (field? j k).bind ratMat?
def jMat (m : List (List Rat)) : Json := jList jRats m

def handle (j : Json) : Json :=
  match fStr? j "op" with
  | some "wiener" =>
    match fRatMat? j "R", fRatMat? j "N", fRatList? j "d", fNat? j "n" with
    | some R, some N, some d, some n =>
      let m := R.length
      if R.any (·.length != n) || N.length != m || N.any (·.length != m) || d.length != m then jErr "shape" else
      match inverse N with
      | none => jErr "singular-N"
      | some Ninv =>
        let D := metricD R Ninv n
        match meanSignal R Ninv d n, meanData R N d n, inverse D with
        | some ms, some md, some Dinv =>
          -- verified-result checks (exact): D m = j ; D D⁻¹ = 1 ; both means equal
          let okSolve := matVec D ms == infoSource R Ninv d n
          let okInv := matMul D Dinv n == ident n
          jObj [("mean_signal", jRats ms), ("mean_data", jRats md), ("means_equal", Json.bool (ms == md)),
                ("D", jMat D), ("Dinv", jMat Dinv), ("checked", Json.bool (okSolve && okInv))]
        | _, _, _ => jErr "singular"
    | _, _, _, _ => jErr "bad-args"
  | _ => jErr "bad-op"

def main : IO Unit := run handle
