import NiftyVerif.Core.Proto
import NiftyVerif.Model.Rng
open Lean NiftyVerif.Proto NiftyVerif.Rng

def specOf? (j : Json) : Option SeedSpec :=
  match fNat? j "seed" with
  | some n => some (.seed n)
  | none => (fNat? j "last").map SeedSpec.last

/-- command lists (continuation = rest of the list):
    ["draw",r] ["spawn",n] ["push",spec] ["pop"] ["raise",t] ["ctx",spec,[body…]] -/
partial def progOf? : List Json → Option Prog
  | [] => some .done
  | c :: rest =>
    match getArr? c with
    | some (Json.str "draw" :: r :: _) => do let k ← progOf? rest; let n ← getNat? r; pure (.draw n k)
    | some (Json.str "spawn" :: r :: _) => do let k ← progOf? rest; let n ← getNat? r; pure (.spawn n k)
    | some (Json.str "push" :: sp :: _) => do let k ← progOf? rest; let s ← specOf? sp; pure (.push s k)
    | some (Json.str "pop" :: _) => do let k ← progOf? rest; pure (.pop k)
    | some (Json.str "raise" :: t :: _) => do let n ← getNat? t; pure (.raise n)
    | some (Json.str "ctx" :: sp :: body :: _) => do
        let k ← progOf? rest; let s ← specOf? sp; let b ← (getArr? body).bind progOf?; pure (.ctx s b k)
    | _ => none

def jGen (g : Gen) : Json := Json.arr #[jNat g.entropy, jNats g.key, jNats g.hist]

def jOutcome : Outcome → Json
  | .ok => Json.str "ok"
  | .exc .indexError => Json.str "IndexError"
  | .exc .runtimeError => Json.str "RuntimeError"
  | .exc (.user t) => Json.arr #[Json.str "user", jNat t]

/-- {"op":"prog","prog":[…]} -> outcome, stack bottom→top as [ref, entropy, spawn_key, n_children_spawned], draw tokens -/
def handle (j : Json) : Json :=
  match fStr? j "op" with
  | some "prog" =>
    match (field? j "prog").bind getArr? |>.bind progOf? with
    | some p =>
      let r := exec p initSt
      let frames := r.st.stack.reverse.map (fun f =>
        let o := r.st.heap.getD f.ref ⟨0, [], 0⟩
        Json.arr #[jNat f.ref, jNat o.entropy, jNats o.key, jNat o.nSpawned, jNat f.gen.hist.length])
      jObj [("outcome", jOutcome r.out), ("stack", Json.arr frames.toArray), ("tokens", jList jGen r.st.out),
            ("low", jNat r.low)]
    | none => jErr "bad-args"
  | _ => jErr "bad-op"

def main : IO Unit := run handle
