import NiftyVerif.Core.Proto
import NiftyVerif.Model.Allreduce
import NiftyVerif.Model.AllreduceReplay
open Lean NiftyVerif.Proto NiftyVerif.Allreduce

partial def tyOf? (j : Json) : Option Ty :=
  match j with
  | Json.str "plain" => some .plain
  | Json.str "ndarray" => some .ndarray
  | _ =>
    match field? j "field" with
    | some t => (tyOf? t).map Ty.field
    | none => (fNat? j "multifield").map Ty.multifield

def jMsg (lower upper : String) : Msg → String
  | .obj => lower
  | .buf => upper

def jCall : Call → Json
  | .allgather => Json.arr #[Json.str "allgather", Json.null]
  | .allreduce => Json.arr #[Json.str "allreduce", Json.null]
  | .send p k => Json.arr #[Json.str (jMsg "send" "Send" k), jNat p]
  | .recv p k => Json.arr #[Json.str (jMsg "recv" "Recv" k), jNat p]
  | .bcast p k => Json.arr #[Json.str (jMsg "bcast" "Bcast" k), jNat p]

def jAct : Act → Json
  | .loc e => Json.arr #[Json.str "loc", Json.null, jNat e.dst, jNat e.src]
  | .recv b e => Json.arr #[Json.str "recv", jNat b, jNat e.dst, jNat e.src]
  | .send a e => Json.arr #[Json.str "send", jNat a, jNat e.dst, jNat e.src]

def jTree : T → Json
  | .leaf i => jNat i
  | .add l r => Json.arr #[jTree l, jTree r]

/-- ops:
  {"op":"program","counts":[..],"ty":T}  -> who, per-rank action lists, per-rank communicator call sequences, tree
       (errors as the real code: no summand at all -> AssertionError)
  {"op":"serial","n":k} -> tree / IndexError for n = 0
  {"op":"events","n":k} -> the loop order -/
def handle (j : Json) : Json :=
  match fStr? j "op" with
  | some "program" =>
    match fNatList? j "counts", (field? j "ty").bind tyOf? with
    | some counts, some ty =>
      let bty := ((field? j "bty").bind tyOf?).getD ty
      let n := counts.foldl (· + ·) 0
      if counts.isEmpty then jErr "bad-args" else
      if n == 0 then jErr "AssertionError" else
      let who := whoOf counts
      let ranks := List.range counts.length
      jObj [("n", jNat n), ("who", jNats (whoList counts)),
            ("progs", jList (fun r => jList jAct (proj who r (events n))) ranks),
            ("calls", jList (fun r => jList jCall (calls who ty bty n r)) ranks),
            ("tree", jTree (pairwiseTree n)),
            -- `execAll` on closure stores re-evaluates summands on every lookup (exponential in the interpreter):
            -- the executable cross-check of theorem `tree_value` is only run for small n
            ("final", if n ≤ 10 then (match execAll (events n) (initStore n) 0 with | some t => jTree t | none => Json.null)
                      else jTree (pairwiseTree n))]
    | _, _ => jErr "bad-args"
  | some "serial" =>
    match fNat? j "n" with
    | some n => if n == 0 then jErr "IndexError" else
      jObj [("tree", jTree (pairwiseTree n)),
            ("final", if n ≤ 10 then (match execAll (events n) (initStore n) 0 with | some t => jTree t | none => Json.null)
                      else jTree (pairwiseTree n))]
    | none => jErr "bad-args"
  | some "replay" =>
    -- {"op":"replay","counts":[..],"m":sub-messages per transfer,"npost":number of bcast collectives,
    --  "obs":[["p2p",sender,receiver] | ["coll"], ...]}: is the observed global order a run of the model?
    match fNatList? j "counts", fNat? j "m", fNat? j "npost", (field? j "obs").bind getArr? with
    | some counts, some m, some npost, some obs =>
      let n := counts.foldl (· + ·) 0
      if counts.isEmpty || n == 0 || m == 0 then jErr "bad-args" else
      let p := counts.length
      let who := whoOf counts
      let E := expand who m (events n)
      let pre := [0, 1]
      let post := (List.range npost).map (· + 2)
      -- collectives are numbered in the order they are observed
      let rec conv (k : Nat) : List Json → Option (List Obs)
        | [] => some []
        | o :: rest =>
          match getArr? o with
          | some (Json.str "coll" :: _) => (conv (k + 1) rest).map (fun l => Obs.coll k :: l)
          | some (Json.str "p2p" :: a :: b :: _) => do
              let s ← getNat? a; let r ← getNat? b; let l ← conv k rest; pure (Obs.p2p s r :: l)
          | _ => none
      match conv 0 obs with
      | none => jErr "bad-args"
      | some os =>
        match replay p (E.length + 1) (xInit p who pre post E (initStore n)) os with
        | none => jObj [("accepted", Json.bool false)]
        | some x =>
          jObj [("accepted", Json.bool true), ("finished", Json.bool (x.progs.all (·.isEmpty))),
                ("slot0", match x.store 0 with | some t => jTree t | none => Json.null)]
    | _, _, _, _ => jErr "bad-args"
  | some "events" =>
    match fNat? j "n" with
    | some n => jList (fun e => jNats [e.dst, e.src]) (events n)
    | none => jErr "bad-args"
  | _ => jErr "bad-op"

def main : IO Unit := run handle
