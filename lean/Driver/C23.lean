import NiftyVerif.Core.Proto
import NiftyVerif.Model.Allreduce
open Lean NiftyVerif.Proto NiftyVerif.Allreduce

partial def tyOf? (j : Json) : Option Ty :=
  match j with
  | Json.str "plain" => some .plain
  | Json.str "ndarray" => some .ndarray
  | _ =>
    match field? j "field" with
    | some t => (tyOf? t).map Ty.field
    | none => (fNat? j "multifield").map Ty.multifield

def jMsg (lower upper : String) : Msg → String
  | .obj => lower
  | .buf => upper

def jCall : Call → Json
  | .allgather => Json.arr #[Json.str "allgather", Json.null]
  | .allreduce => Json.arr #[Json.str "allreduce", Json.null]
  | .send p k => Json.arr #[Json.str (jMsg "send" "Send" k), jNat p]
  | .recv p k => Json.arr #[Json.str (jMsg "recv" "Recv" k), jNat p]
  | .bcast p k => Json.arr #[Json.str (jMsg "bcast" "Bcast" k), jNat p]

def jAct : Act → Json
  | .loc e => Json.arr #[Json.str "loc", Json.null, jNat e.dst, jNat e.src]
  | .recv b e => Json.arr #[Json.str "recv", jNat b, jNat e.dst, jNat e.src]
  | .send a e => Json.arr #[Json.str "send", jNat a, jNat e.dst, jNat e.src]

def jTree : T → Json
  | .leaf i => jNat i
  | .add l r => Json.arr #[jTree l, jTree r]

/-- ops:
  {"op":"program","counts":[..],"ty":T}  -> who, per-rank action lists, per-rank communicator call sequences, tree
       (errors as the real code: no summand at all -> AssertionError)
  {"op":"serial","n":k} -> tree / IndexError for n = 0
  {"op":"events","n":k} -> the loop order -/
def handle (j : Json) : Json :=
  match fStr? j "op" with
  | some "program" =>
    match fNatList? j "counts", (field? j "ty").bind tyOf? with
    | some counts, some ty =>
      let bty := ((field? j "bty").bind tyOf?).getD ty
      let n := counts.foldl (· + ·) 0
      if counts.isEmpty then jErr "bad-args" else
      if n == 0 then jErr "AssertionError" else
      let who := whoOf counts
      let ranks := List.range counts.length
      jObj [("n", jNat n), ("who", jNats (whoList counts)),
            ("progs", jList (fun r => jList jAct (proj who r (events n))) ranks),
            ("calls", jList (fun r => jList jCall (calls who ty bty n r)) ranks),
            ("tree", jTree (pairwiseTree n)),
            -- `execAll` on closure stores re-evaluates summands on every lookup (exponential in the interpreter):
            -- the executable cross-check of theorem `tree_value` is only run for small n
            ("final", if n ≤ 10 then (match execAll (events n) (initStore n) 0 with | some t => jTree t | none => Json.null)
                      else jTree (pairwiseTree n))]
    | _, _ => jErr "bad-args"
  | some "serial" =>
    match fNat? j "n" with
    | some n => if n == 0 then jErr "IndexError" else
      jObj [("tree", jTree (pairwiseTree n)),
            ("final", if n ≤ 10 then (match execAll (events n) (initStore n) 0 with | some t => jTree t | none => Json.null)
                      else jTree (pairwiseTree n))]
    | none => jErr "bad-args"
  | some "events" =>
    match fNat? j "n" with
    | some n => jList (fun e => jNats [e.dst, e.src]) (events n)
    | none => jErr "bad-args"
  | _ => jErr "bad-op"

def main : IO Unit := run handle
