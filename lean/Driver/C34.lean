import NiftyVerif.Core.Proto
import NiftyVerif.Model.Lanczos
import NiftyVerif.Model.LinAlg
import NiftyVerif.Model.Vi
import NiftyVerif.Model.RatApprox
open Lean NiftyVerif.Proto NiftyVerif.Lanczos NiftyVerif.LinAlg NiftyVerif.Vi NiftyVerif.RatApprox

/-! Model driver for C34: Lanczos recurrence in ℚ (sqrt approximated to 2^-99), Welford merge, resume batches,
    exact determinants in signal and data space, closed-form ELBO and log-evidence of a linear Gaussian model. -/

/-- round to the 2^-200 grid: keeps the rationals of the (inherently approximate, because of `sqrt`) Lanczos run small -/
def rnd (r : Rat) : Rat := mkRat (r * ((2 ^ 200 : Nat) : Rat)).floor (2 ^ 200)

structure Vec where
  v : List Rat
instance : Add Vec := ⟨fun a b => ⟨List.zipWith (· + ·) a.v b.v⟩⟩
instance : Sub Vec := ⟨fun a b => ⟨List.zipWith (· - ·) a.v b.v⟩⟩
instance : SMul Rat Vec := ⟨fun c a => ⟨a.v.map (fun x => rnd (c * x))⟩⟩

def ratMat? (j : Json) : Option (List (List Rat)) := listOf? ratList? j
def fRatMat? (j : Json) (k : String) : Option (List (List Rat)) := (field? j k).bind ratMat?
def jMat (m : List (List Rat)) : Json := jList jRats m

def ipV (a b : Vec) : Rat := rnd (dot a.v b.v)

def summary (xs : List Rat) : WState Rat :=
  welfordOfSums (xs.foldl (· + ·) 0) ((xs.map (fun x => x * x)).foldl (· + ·) 0) ((xs.length : Nat) : Rat)

def jW (w : WState Rat) : Json := jObj [("mean", jRat w.mean), ("m2", jRat w.m2), ("n", jRat w.n)]

/-- Hamiltonian of the linear Gaussian model at `s` -/
def hamiltonian (R Ninv : Mat Rat) (d s : List Rat) : Rat :=
  let r := vecSub d (matVec R s)
  dot r (matVec Ninv r) / 2 + dot s s / 2

def handle (j : Json) : Json :=
  match fStr? j "op" with
  | some "lanczos" =>
    match fRatMat? j "A", fRatList? j "v", fNat? j "order" with
    | some A, some v, some order =>
      if order == 0 then jErr "ValueError" else
      let nrm := sqrtRat (dot v v)
      if nrm == 0 then jErr "zero-vector" else
      let v1 : Vec := ⟨v.map (fun x => rnd (x / nrm))⟩
      let mv : Vec → Vec := fun x => ⟨(matVec A x.v).map rnd⟩
      let st := (List.range order).map (fun i => run mv ipV sqrtRat v1 i)
      jObj [("alpha", jRats (st.map (·.alpha))), ("beta", jRats (st.map (·.beta))),
            ("basis", jMat ((List.range order).map (fun i => (basis mv ipV sqrtRat v1 i).v)))]
    | _, _, _ => jErr "bad-args"
  | some "welford" =>
    match fRatList? j "a", fRatList? j "b" with
    | some a, some b =>
      if a.isEmpty || b.isEmpty then jErr "empty" else
      jObj [("merged", jW (welfordMerge (summary a) (summary b))), ("direct", jW (summary (a ++ b)))]
    | _, _ => jErr "bad-args"
  | some "batches" =>
    match fNat? j "n_eig", fNat? j "n_batches", fNat? j "skip" with
    | some ne, some nb, some sk =>
      if nb == 0 then jErr "ZeroDivisionError" else
      let fb := fullBatches ne nb
      jObj [("full", jNats fb), ("resumed", jNats (resumeBatches fb sk))]
    | _, _, _ => jErr "bad-args"
  | some "elbo" =>
    -- linear Gaussian model R (m×n), diagonal N with rational square roots S = N^(-1/2), data d
    match fRatMat? j "R", fRatList? j "Ndiag", fRatList? j "Sdiag", fRatList? j "d", fNat? j "n" with
    | some R, some Nd, some Sd, some d, some n =>
      let m := R.length
      if (List.zipWith (fun s v => s * s * v) Sd Nd).any (· != 1) then jErr "bad-sqrt" else
      let Ninv : Mat Rat := diag (Nd.map (fun x => 1 / x))
      let S : Mat Rat := diag Sd
      let D := metricD R Ninv n
      let SR := matMul S R n
      let Dd := matAdd (matMul SR (transpose SR n) m) (ident m)
      match meanSignal R Ninv d n with
      | some mean =>
        let detS := det D
        let detD := det Dd
        let hm := hamiltonian R Ninv d mean
        jObj [("det_signal", jRat detS), ("det_data", jRat detD), ("dets_equal", Json.bool (detS == detD)),
              ("logdet", jRat (logRat detS)), ("H_mean", jRat hm), ("mean", jRats mean),
              ("log_evidence", jRat (-hm - logRat detS / 2))]
      | none => jErr "singular"
    | _, _, _, _, _ => jErr "bad-args"
  | _ => jErr "bad-op"

def main : IO Unit := run handle
