import NiftyVerif.Core.Proto
import NiftyVerif.Model.Minisanity
open Lean NiftyVerif.Proto NiftyVerif.Minisanity

/-!
ops (exact rationals as "p/q" strings; an entry is [re, im] or null = NaN):
 {"op":"cl","samples":[[entry,…],…]} -> {"redchisq","meanRe","meanIm","ndof","nigndof"}      classic minisanity, one key
 {"op":"re","cplx":bool,"samples":[[[re,im],…],…]} -> {"rchisq","meanRe","meanIm","ndof"}     JAX reduced_residual_stats, one leaf
 errors: {"error":"empty"} for no samples / empty arrays (the real code divides by zero there)
-/

def entry? (j : Json) : Option (Option (Entry Rat)) :=
  match j with
  | Json.null => some none
  | _ =>
    match getArr? j with
    | some [a, b] => do
        let x ← getRat? a
        let y ← getRat? b
        pure (some ⟨x, y⟩)
    | _ => none

def res? (j : Json) : Option (Res Rat) := listOf? entry? j
def samples? (j : Json) : Option (List (Res Rat)) := (field? j "samples").bind (listOf? res?)

def handle (j : Json) : Json :=
  match fStr? j "op", samples? j with
  | some "cl", some ss =>
    if ss.isEmpty then jErr "empty" else
    let r := clReport ss
    jObj [("redchisq", jRat r.redchisq), ("meanRe", jRat r.meanRe), ("meanIm", jRat r.meanIm),
          ("ndof", jNat r.ndof), ("nigndof", jNat r.nigndof),
          ("redchisqVar", match r.redchisqVar with | some v => jRat v | none => Json.null),
          ("meanReVar", match r.meanReVar with | some v => jRat v | none => Json.null)]
  | some "re", some ss =>
    match fBool? j "cplx", ss.mapM (fun r => r.mapM id) with
    | some c, some clean =>
      if clean.isEmpty || clean.any List.isEmpty then jErr "empty" else
      let r := reReport c clean
      jObj [("rchisq", jRat r.rchisq), ("meanRe", jRat r.meanRe), ("meanIm", jRat r.meanIm), ("ndof", jNat r.ndof),
            ("rchisqVar", jRat r.rchisqVar), ("meanReVar", jRat r.meanReVar)]
    | _, _ => jErr "nan"
  | _, _ => jErr "bad-op"

def main : IO Unit := run handle
