import NiftyVerif.Core.Proto
import NiftyVerif.Model.Domains
import NiftyVerif.Model.Intern
import NiftyVerif.Model.Grid
open Lean NiftyVerif.Proto NiftyVerif.Domains NiftyVerif.Intern

/-- history of interning operations over two caches (DomainTuple, MultiDomain) -/
structure IState where
  tup : List String := []
  mul : List String := []
  objs : List (Bool × Nat) := []      -- every object handed out so far: (isMulti, id)

def istep (s : IState) (j : Json) : IState × Json :=
  match fStr? j "make", (field? j "makemulti").bind getArr?, fNat? j "pickle" with
  | some d, _, _ =>
    let (t, i) := make s.tup d
    ({ s with tup := t, objs := s.objs ++ [(false, i)] }, Json.arr #[Json.str "t", jNat i])
  | _, some items, _ =>
    -- MultiDomain.make: every value goes through DomainTuple.make first, then the frozendict is looked up
    let kvs : List (String × String) := items.filterMap fun it =>
      match getArr? it with
      | some [k, v] => match getStr? k, getStr? v with
        | some ks, some vs => some (ks, vs)
        | _, _ => none
      | _ => none
    let (tup, ids) := kvs.foldl (fun (acc : List String × List (String × Nat)) kv =>
      let (t, i) := make acc.1 kv.2
      (t, acc.2 ++ [(kv.1, i)])) (s.tup, [])
    let canon := canonKV ids
    let d := String.intercalate ";" (canon.map fun p => p.1 ++ "=" ++ toString p.2)
    let (m, i) := make s.mul d
    ({ s with tup := tup, mul := m, objs := s.objs ++ [(true, i)] }, Json.arr #[Json.str "m", jNat i])
  | _, _, some k =>
    match s.objs[k]? with
    | some (isM, i) =>
      -- pickle round trip: make(desc(obj))
      let r := if isM then pickleRoundTrip s.mul i else pickleRoundTrip s.tup i
      match r with
      | some (t, i') =>
        let s' := if isM then { s with mul := t } else { s with tup := t }
        ({ s' with objs := s'.objs ++ [(isM, i')] }, Json.arr #[Json.str (if isM then "m" else "t"), jNat i'])
      | none => (s, jErr "bad-handle")
    | none => (s, jErr "bad-handle")
  | _, _, _ => (s, jErr "bad-args")

def handle (j : Json) : Json :=
  match fStr? j "op" with
  | some "rg" =>
    match fNatList? j "shape", fRatList? j "rdist" with
    | some shape, some rd =>
      let hd := List.zipWith (fun n r => hdist (K := Rat) n r) shape rd
      let size := shape.foldl (· * ·) 1
      jObj [("hdist", jRats hd), ("size", jNat size),
            ("dvol_r", jRat (prodK rd)), ("dvol_h", jRat (prodK hd)),
            ("total_r", jRat (totalVolumeScalar size (prodK rd))), ("total_h", jRat (totalVolumeScalar size (prodK hd))),
            ("dual", jRats (List.zipWith (fun (nr : Nat × Rat) h => h * nr.2 * (nr.1 : Rat)) (List.zip shape rd) hd))]
    | _, _ => jErr "bad-args"
  | some "ksq" =>
    match fNatList? j "shape", fRatList? j "h" with
    | some shape, some h => jRats ((NiftyVerif.Grid.mgrid shape).map fun idx => ksq (K := Rat) shape h idx)
    | _, _ => jErr "bad-args"
  | some "lm" =>
    match fNat? j "lmax", fNat? j "mmax" with
    | some l, some m => jObj [("k", jNats (lmK l m)), ("size", jNat (lmSize l m)), ("spec", jNats (lmSpec l m))]
    | _, _ => jErr "bad-args"
  | some "linspace" =>
    match fNat? j "nbin", fRat? j "first", fRat? j "last" with
    | some nb, some a, some b =>
      jRats ((List.range (nb - 1)).map fun (i : Nat) => a + ((i : Nat) : Rat) * ((b - a) / ((nb - 2 : Nat) : Rat)))
    | _, _, _ => jErr "bad-args"
  | some "midpoints" =>
    match fRatList? j "u" with
    | some u => jRats (midpoints u)
    | none => jErr "bad-args"
  | some "power" =>
    match fRatList? j "bounds", fRatList? j "k", fRat? j "pdvol" with
    | some b, some k, some pd =>
      match powerSpace b k pd with
      | some p => jObj [("pindex", jNats p.pindex), ("rho", jNats p.rho), ("dvol", jRats p.dvol), ("klen", jRats p.klen)]
      | none => jErr "ValueError"
    | _, _, _ => jErr "bad-args"
  | some "intern" =>
    match (field? j "hist").bind getArr? with
    | some hist =>
      let (_, outs) := hist.foldl (fun (acc : IState × List Json) h =>
        let (s', o) := istep acc.1 h
        (s', acc.2 ++ [o])) (({} : IState), [])
      Json.arr outs.toArray
    | none => jErr "bad-args"
  | _ => jErr "bad-op"

def main : IO Unit := run handle
