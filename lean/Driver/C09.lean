import NiftyVerif.Core.Proto
import NiftyVerif.Model.Harmonic
import NiftyVerif.Model.HarmonicSHT
open Lean NiftyVerif.Proto NiftyVerif.Harmonic

/-!
  Line-protocol driver for C09.  Scalars: K = ℚ[X]/(X^N - 1)[I]  (X plays e^{-2πi/N}, N = lcm of the axis lengths),
  exact.  Output entries are pairs of sparse polynomials in X (real part, imaginary part), or — when N ∣ 4, where
  X ∈ {1, -1, -i} — exact Gaussian rationals.
-/

/-- sparse element of ℚ[X]/(X^N - 1): (exponent, coefficient), sorted by exponent, no zero coefficients -/
structure CP (N : Nat) where
  t : List (Nat × Rat)

namespace CP
variable {N : Nat}

def insertTerm (e : Nat) (c : Rat) : List (Nat × Rat) → List (Nat × Rat)
  | [] => if c == 0 then [] else [(e, c)]
  | (e', c') :: r =>
    if e < e' then (if c == 0 then (e', c') :: r else (e, c) :: (e', c') :: r)
    else if e == e' then (let s := c + c'; if s == 0 then r else (e', s) :: r)
    else (e', c') :: insertTerm e c r

def add (a b : CP N) : CP N := ⟨b.t.foldl (fun acc ec => insertTerm ec.1 ec.2 acc) a.t⟩
def neg (a : CP N) : CP N := ⟨a.t.map fun ec => (ec.1, -ec.2)⟩
def mul (a b : CP N) : CP N :=
  ⟨a.t.foldl (fun acc ec1 => b.t.foldl (fun acc ec2 => insertTerm ((ec1.1 + ec2.1) % N) (ec1.2 * ec2.2) acc) acc) []⟩
/-- X ↦ X⁻¹ -/
def conj (a : CP N) : CP N := ⟨a.t.foldl (fun acc ec => insertTerm ((N - ec.1) % N) ec.2 acc) []⟩
def const (r : Rat) : CP N := ⟨if r == 0 then [] else [(0, r)]⟩
def mono (e : Nat) : CP N := ⟨[(e % N, 1)]⟩

instance : Add (CP N) := ⟨add⟩
instance : Neg (CP N) := ⟨neg⟩
instance : Sub (CP N) := ⟨fun a b => add a (neg b)⟩
instance : Mul (CP N) := ⟨mul⟩
instance : OfNat (CP N) 0 := ⟨⟨[]⟩⟩
instance : OfNat (CP N) 1 := ⟨const 1⟩
end CP

/-- R[I]/(I² + 1) -/
structure Cx (R : Type) where
  re : R
  im : R

namespace Cx
variable {R : Type} [Add R] [Sub R] [Neg R] [Mul R] [OfNat R 0] [OfNat R 1]
instance : Add (Cx R) := ⟨fun a b => ⟨a.re + b.re, a.im + b.im⟩⟩
instance : Sub (Cx R) := ⟨fun a b => ⟨a.re - b.re, a.im - b.im⟩⟩
instance : Neg (Cx R) := ⟨fun a => ⟨-a.re, -a.im⟩⟩
instance : Mul (Cx R) := ⟨fun a b => ⟨a.re * b.re - a.im * b.im, a.re * b.im + a.im * b.re⟩⟩
instance : OfNat (Cx R) 0 := ⟨⟨0, 0⟩⟩
instance : OfNat (Cx R) 1 := ⟨⟨1, 0⟩⟩
end Cx

abbrev KK (N : Nat) := Cx (CP N)

def kConst {N : Nat} (re im : Rat) : KK N := ⟨CP.const re, CP.const im⟩
def kMono {N : Nat} (e : Nat) : KK N := ⟨CP.mono e, 0⟩
def kConj {N : Nat} (z : KK N) : KK N := ⟨z.re.conj, -(z.im.conj)⟩
def scal (N : Nat) : Scal (KK N) := { I := kConst 0 1, half := kConst (1/2) 0, conj := kConj }

def mkGrid (N n1 n2 n3 : Nat) : Grid (KK N) :=
  { n1 := n1, n2 := n2, n3 := n3,
    w1 := kMono (N / n1), w2 := kMono (N / n2), w3 := kMono (N / n3),
    wb1 := kMono (N - N / n1), wb2 := kMono (N - N / n2), wb3 := kMono (N - N / n3),
    nInv := kConst (1 / ((n1 * n2 * n3 : Nat) : Rat)) 0 }

/-- exact value at X = e^{-2πi/N} when N ∣ 4: (-i)^(e·4/N) -/
def evalGaussCP {N : Nat} (a : CP N) : Rat × Rat :=
  a.t.foldl (fun (acc : Rat × Rat) ec =>
    match (ec.1 * (4 / N)) % 4 with
    | 0 => (acc.1 + ec.2, acc.2)
    | 1 => (acc.1, acc.2 - ec.2)
    | 2 => (acc.1 - ec.2, acc.2)
    | _ => (acc.1, acc.2 + ec.2)) (0, 0)

def evalGauss {N : Nat} (z : KK N) : Rat × Rat :=
  let a := evalGaussCP z.re
  let b := evalGaussCP z.im
  (a.1 - b.2, a.2 + b.1)

def jPoly {N : Nat} (a : CP N) : Json := Json.arr (a.t.map fun ec => Json.arr #[jNat ec.1, jRat ec.2]).toArray

def jEntry {N : Nat} (z : KK N) : Json :=
  if 4 % N == 0 then
    let v := evalGauss z
    Json.arr #[jRat v.1, jRat v.2]
  else Json.arr #[jPoly z.re, jPoly z.im]

/-- row-major flat index of (p, j1, j2, j3, q) -/
def flat (n1 n2 n3 Q : Nat) (i : Idx) : Nat := (((i.p * n1 + i.j1) * n2 + i.j2) * n3 + i.j3) * Q + i.q

def allIdx (P n1 n2 n3 Q : Nat) : List Idx := Id.run do
  let mut out : Array Idx := #[]
  for p in [0:P] do
    for j1 in [0:n1] do
      for j2 in [0:n2] do
        for j3 in [0:n3] do
          for q in [0:Q] do
            out := out.push ⟨p, j1, j2, j3, q⟩
  return out.toList

def toTensor {N : Nat} (n1 n2 n3 Q : Nat) (a : Array (KK N)) : Tensor (KK N) :=
  fun i => a.getD (flat n1 n2 n3 Q i) 0

/-- evaluate a tensor on the whole box into an array (memoisation between stages; semantics unchanged) -/
def materialise {N : Nat} (P n1 n2 n3 Q : Nat) (t : Tensor (KK N)) : Array (KK N) :=
  ((allIdx P n1 n2 n3 Q).map t).toArray

def getPair? (j : Json) : Option (Rat × Rat) :=
  match j with
  | Json.arr a => if a.size == 2 then do
      let r ← getRat? a[0]!
      let i ← getRat? a[1]!
      pure (r, i) else none
  | _ => (getRat? j).map fun r => (r, 0)

def lcm3 (a b c : Nat) : Nat := Nat.lcm (Nat.lcm a b) c

def ratAbs (r : Rat) : Rat := if r < 0 then -r else r

/-- constructor-level checks of FFTOperator/HartleyOperator (`check_codomain` both ways), as error kinds -/
def checkTarget (n : List Nat) (rdist : List Rat) (dh : Bool) (j : Json) : Option String :=
  match field? j "tgt" with
  | none => none
  | some Json.null => none
  | some t =>
    match fStr? t "kind", fNatList? t "n", fRatList? t "rdist", fBool? t "harmonic" with
    | some "rg", some tn, some trd, some th =>
      if tn != n then some "AttributeError"
      else if th == dh then some "AttributeError"
      else
        -- |shape * distances(domain) * distances(codomain) - 1| < 1e-7 per axis
        let ok := (List.zip n (List.zip rdist trd)).all fun (k, (d, td)) =>
          let dd := rgDistance dh k d
          let dt := rgDistance th k td
          ratAbs ((k : Rat) * dd * dt - 1) < (1 : Rat) / 10000000
        if ok then none else some "AttributeError"
    | some _, _, _, _ => some "TypeError"
    | _, _, _, _ => some "bad-args"

def handleApply (j : Json) : Json :=
  match fStr? j "kind", fNat? j "pre", fNatList? j "n", fNat? j "post", fRatList? j "rdist", fBool? j "dh",
        fNat? j "mode", fBool? j "nc", (field? j "x").bind (listOf? getPair?) with
  | some kind, some P, some [n1, n2, n3], some Q, some [d1, d2, d3], some dh, some mode, some nc, some xs =>
    if fStr? j "spacekind" != some "rg" then jErr "TypeError" else
    if n1 == 0 || n2 == 0 || n3 == 0 then jErr "bad-args" else
    match checkTarget [n1, n2, n3] [d1, d2, d3] dh j with
    | some e => jErr e
    | none =>
    -- HarmonicTransformOperator: domain must be harmonic, only TIMES / ADJOINT_TIMES
    if kind == "htop" && !dh then jErr "TypeError" else
    if !(mode == 1 || mode == 2 || mode == 4 || mode == 8) then jErr "NotImplementedError" else
    if kind == "htop" && !(mode == 1 || mode == 2) then jErr "NotImplementedError" else
    if xs.length != P * n1 * n2 * n3 * Q then jErr "ValueError" else
    let N := lcm3 n1 n2 n3
    let g := mkGrid N n1 n2 n3
    let dims := [(n1, d1), (n2, d2), (n3, d3)]
    -- explicit target: its own distances give dvol(target)
    let tdims : List (Nat × Rat) :=
      match (field? j "tgt").bind (fun t => fRatList? t "rdist") with
      | some [t1, t2, t3] => [(n1, t1), (n2, t2), (n3, t3)]
      | _ => dims
    let dvolD : KK N := kConst (rgDvol dh dims) 0
    let dvolT : KK N := kConst (rgDvol (!dh) tdims) 0
    let xr : Tensor (KK N) := toTensor n1 n2 n3 Q (xs.map fun p => kConst p.1 0).toArray
    let xi : Tensor (KK N) := toTensor n1 n2 n3 Q (xs.map fun p => kConst p.2 0).toArray
    let xc : Tensor (KK N) := toTensor n1 n2 n3 Q (xs.map fun p => kConst p.1 p.2).toArray
    let y : Tensor (KK N) :=
      if kind == "fft" then fftApply g dh dvolD dvolT mode xc
      else hartleyApplyComplex (scal N) g nc dvolD dvolT mode xr xi
    jObj [("N", jNat N), ("y", jList jEntry ((allIdx P n1 n2 n3 Q).map y))]
  | _, _, _, _, _, _, _, _, _ => jErr "bad-args"

/-- ducc_dispatch.fftn / ifftn / hartley (and the SciPy / JAX variants) on an array, axes = the middle block -/
def handleBackend (j : Json) : Json :=
  match fStr? j "fn", fNat? j "pre", fNatList? j "n", fNat? j "post", fBool? j "nc",
        (field? j "x").bind (listOf? getPair?) with
  | some fn, some P, some [n1, n2, n3], some Q, some nc, some xs =>
    if n1 == 0 || n2 == 0 || n3 == 0 then jErr "bad-args" else
    if xs.length != P * n1 * n2 * n3 * Q then jErr "ValueError" else
    let N := lcm3 n1 n2 n3
    let g := mkGrid N n1 n2 n3
    let xc : Tensor (KK N) := toTensor n1 n2 n3 Q (xs.map fun p => kConst p.1 p.2).toArray
    let isReal := xs.all fun p => p.2 == 0
    if fn == "fftn" then jObj [("N", jNat N), ("y", jList jEntry ((allIdx P n1 n2 n3 Q).map (fftn3 g xc)))]
    else if fn == "ifftn" then jObj [("N", jNat N), ("y", jList jEntry ((allIdx P n1 n2 n3 Q).map (ifftn3 g xc)))]
    else if fn == "hartley" then
      -- the Hartley backends take real arrays only
      if !isReal then jErr "TypeError" else
      jObj [("N", jNat N), ("y", jList jEntry ((allIdx P n1 n2 n3 Q).map (hartley3 (scal N) g nc xc)))]
    else jErr "bad-op"
  | _, _, _, _, _, _ => jErr "bad-args"

/-- HarmonicSmoothingOperator with the kernel values supplied as exact rationals (class F):
    `kern` has one entry per (j1,j2,j3) -/
def handleSmooth (j : Json) : Json :=
  match fNat? j "pre", fNatList? j "n", fNat? j "post", fRatList? j "rdist", fBool? j "dh", fBool? j "nc",
        fStr? j "sigma", fRatList? j "kern", fRatList? j "x" with
  | some P, some [n1, n2, n3], some Q, some [d1, d2, d3], some dh, some nc, some sg, some kern, some xs =>
    if sg == "neg" then jErr "ValueError" else
    if sg == "zero" then
      -- ScalingOperator(domain, 1.) for every domain
      jObj [("N", jNat 1), ("y", jList (fun (r : Rat) => Json.arr #[jRat r, jRat 0]) xs)]
    else
    -- `domain[space].harmonic` does not exist on an UnstructuredDomain
    if fStr? j "spacekind" != some "rg" then jErr "AttributeError" else
    if dh then jErr "TypeError" else
    if n1 == 0 || n2 == 0 || n3 == 0 then jErr "bad-args" else
    if xs.length != P * n1 * n2 * n3 * Q || kern.length != n1 * n2 * n3 then jErr "ValueError" else
    let N := lcm3 n1 n2 n3
    let g := mkGrid N n1 n2 n3
    let dims := [(n1, d1), (n2, d2), (n3, d3)]
    let dvolD : KK N := kConst (rgDvol false dims) 0
    let dvolT : KK N := kConst (rgDvol true dims) 0
    let x : Tensor (KK N) := toTensor n1 n2 n3 Q (xs.map fun r => kConst r 0).toArray
    let ka : Array (KK N) := (kern.map fun r => kConst r 0).toArray
    let kt : Tensor (KK N) := fun i => ka.getD ((i.j1 * n2 + i.j2) * n3 + i.j3) 0
    let y := smoothApply (scal N) g nc dvolD dvolT false kt x
    jObj [("N", jNat N), ("y", jList jEntry ((allIdx P n1 n2 n3 Q).map y))]
  | _, _, _, _, _, _, _, _, _ => jErr "bad-args"

/-- RGSpace volume / k-length logic: dvol of the space and of its partner, squared k-lengths of the harmonic partner -/
def handleGeom (j : Json) : Json :=
  match fNatList? j "n", fRatList? j "rdist" with
  | some [n1, n2, n3], some [d1, d2, d3] =>
    if n1 == 0 || n2 == 0 || n3 == 0 then jErr "bad-args" else
    let dims := [(n1, d1), (n2, d2), (n3, d3)]
    let h1 := rgDistance true n1 d1
    let h2 := rgDistance true n2 d2
    let h3 := rgDistance true n3 d3
    let ks : List Rat := (allIdx 1 n1 n2 n3 1).map (kSq n1 n2 n3 h1 h2 h3)
    jObj [("dvol_pos", jRat (rgDvol false dims)), ("dvol_harm", jRat (rgDvol true dims)), ("ksq", jRats ks)]
  | _, _ => jErr "bad-args"

/-- SHTOperator re-packing (`_slice_h2p` / `_slice_p2h`) over exact rationals; the spherical-harmonic values at the
    pixel centres and the constants √2, √½, 1/√(4π) are shipped by the harness as the floats it computed (class F/T) -/
def handleSht (j : Json) : Json :=
  match fStr? j "dir", fNat? j "L", fNat? j "M", fNat? j "npix", (field? j "yre").bind (listOf? ratList?),
        (field? j "yim").bind (listOf? ratList?), fRat? j "r2", fRat? j "rh", fRat? j "c", fRatList? j "x" with
  | some dir, some L, some M, some npix, some yre, some yim, some r2, some rh, some c, some xs =>
    if yre.length != L + M || yim.length != L + M then jErr "ValueError" else
    let yreA := (yre.map List.toArray).toArray
    let yimA := (yim.map List.toArray).toArray
    let cfg : ShtCfg Rat :=
      { L := L, M := M, npix := npix,
        yre := fun k p => (yreA.getD k #[]).getD p 0, yim := fun k p => (yimA.getD k #[]).getD p 0,
        r2 := r2, rh := rh, c := c }
    let xa := xs.toArray
    let x : Nat → Rat := fun i => xa.getD i 0
    if dir == "h2p" then
      if xs.length != L + 2 * M then jErr "ValueError" else
      jObj [("y", jRats ((List.range npix).map (sliceH2P cfg x)))]
    else if dir == "p2h" then
      if xs.length != npix then jErr "ValueError" else
      jObj [("y", jRats ((List.range (L + 2 * M)).map (sliceP2H cfg x)))]
    else jErr "bad-op"
  | _, _, _, _, _, _, _, _, _, _ => jErr "bad-args"

def handle (j : Json) : Json :=
  match fStr? j "op" with
  | some "apply" => handleApply j
  | some "backend" => handleBackend j
  | some "smooth" => handleSmooth j
  | some "geom" => handleGeom j
  | some "sht" => handleSht j
  | _ => jErr "bad-op"

def main : IO Unit := run handle
