import NiftyVerif.Core.Proto
import NiftyVerif.Model.CrashCl
open Lean NiftyVerif.Proto NiftyVerif.CrashFS NiftyVerif.CrashCl

/-!
ops:
 {"op":"ops","proto":"repaired"|"atomicOnly"|"asFound","strategy":"all"|"latest","total":3,"nsamp":2,"resume":false}
     -> {"coarse":[…],"fine":N}      file operations of an uninterrupted run from an empty directory
 {"op":"sim","proto":…,"strategy":…,"total":3,"nsamp":2,"r0":false,"kills":[k1,…]}
     -> {"stages":[{"nops","pos","files","coarse","outcome"}…],"final":{"outcome":"ok:<state>"|"error:<kind>","coarse","files"}}
 State = natSys (counter; a state ≥ 1000 means "an iteration was applied to the wrong state / a mixed file set was loaded").
-/

def bname : Base → String
  | .iter i => s!"iteration_{i}"
  | .latest => "latest"

def pname : Path → String
  | .odir => "." | .pickleDir => "pickle"
  | .marker => "last_finished_iteration" | .markerTmp => "last_finished_iteration.tmp"
  | .rstate => "pickle/nifty_random_state"
  | .sample b k => s!"pickle/{bname b}.{k}.pickle" | .sampleTmp b k => s!"pickle/.{bname b}.{k}.pickle.tmp"
  | .mean b => s!"pickle/{bname b}.mean.pickle" | .meanTmp b => s!"pickle/.{bname b}.mean.pickle.tmp"
  | .ehist b => s!"pickle/energy_history_{bname b}" | .ehistTmp b => s!"pickle/energy_history_{bname b}.tmp"
  | .mhist b => s!"pickle/minisanity_history_{bname b}" | .mhistTmp b => s!"pickle/minisanity_history_{bname b}.tmp"
  | .sanity => "minisanity.txt" | .counting => "counting_report.txt"

def protoOf? (j : Json) : Option Proto :=
  match fStr? j "proto" with
  | some "repaired" => some .repaired | some "atomicOnly" => some .atomicOnly | some "asFound" => some .asFound
  | _ => none

def stratOf? (j : Json) : Option Strategy :=
  match fStr? j "strategy" with
  | some "all" => some .all | some "latest" => some .latest | _ => none

/-- coarse view with the file system threaded through: `os.remove` of `_save_to_disk` (as found) happens only if the file
    exists; `Path.unlink(missing_ok=True)` of the next sample always (shown as remove-missing when absent) -/
def coarseFS (proto : Proto) (nsamp : Nat) : FS Path → List (Op Path) → List String
  | _, [] => []
  | fs, o :: rest =>
    let fs' := exec fs o
    let r := coarseFS proto nsamp fs' rest
    match o with
    | .append p _ =>
        let s := "flush " ++ pname p
        match rest with
        | .append q _ :: _ => if q = p then r else s :: r
        | _ => s :: r
    | .wbuf p => ("write " ++ pname p) :: r
    | .mkdir p => ("mkdir " ++ pname p) :: r
    | .openW p => ("openw " ++ pname p) :: r
    | .openA p => ("opena " ++ pname p) :: r
    | .close p => ("close " ++ pname p) :: r
    | .replace s d => ("replace " ++ pname s ++ " -> " ++ pname d) :: r
    | .opaque p => ("opaque " ++ pname p) :: r
    | .remove p =>
        let cond : Bool := match p with
          | .sample _ k => proto == .asFound && decide (k < nsamp)     -- _save_to_disk as found: `if isfile: os.remove`
          | .mean _ => proto == .asFound                               -- (repaired MAP: Path.unlink(missing_ok=True), always)
          | .marker => true          -- _invalidate_last_finished_iteration: `if isfile(...): remove(...)`
          | _ => false
        if (fs p).isSome then ("remove " ++ pname p) :: r
        else if cond then r else ("remove-missing " ++ pname p) :: r

def clsIter (i : Nat) : String := if i ≥ 1000 then "garbage" else s!"complete:{i}"

/-- status class of a file (same vocabulary as harness/props/c25.py `_classify`) -/
def fileClass (nsamp : Nat) (p : Path) (b : Bytes) : String :=
  match p with
  | .marker | .markerTmp => if b.isEmpty then "empty" else
      match (natSys nsamp).parse b with
      | some i => s!"value:{i}"
      | none => "garbage"
  | .sanity | .counting => "present"
  | .rstate => if b.isEmpty then "empty" else if (natSys nsamp).okR b then "complete" else "partial"
  | .sample _ _ | .sampleTmp _ _ =>
      match b with
      | [] => "empty"
      | [s, _, 255] => clsIter (s - 1)
      | _ => "partial"
  | .mean _ | .meanTmp _ =>
      match b with
      | [] => "empty"
      | [s, 254] => clsIter (s - 1)
      | _ => "partial"
  | .ehist _ | .ehistTmp _ =>
      match b with
      | [] => "empty"
      | [i, 253] => clsIter i
      | _ => "partial"
  | .mhist _ | .mhistTmp _ =>
      match b with
      | [] => "empty"
      | [i, 252] => clsIter i
      | _ => "partial"
  | _ => "dir"

def allPaths (total nsamp : Nat) : List Path :=
  let bases := Base.latest :: (List.range total).map Base.iter
  [.marker, .markerTmp, .rstate, .sanity, .counting] ++
    bases.flatMap (fun b =>
      (List.range (nsamp + 1)).flatMap (fun k => [Path.sample b k, Path.sampleTmp b k]) ++
        [.mean b, .meanTmp b, .ehist b, .ehistTmp b, .mhist b, .mhistTmp b])

def filesJson (total nsamp : Nat) (fs : FS Path) : Json :=
  jObj ((allPaths total nsamp).filterMap fun p =>
    match fs p with
    | none => none
    | some b => some (pname p, Json.str (fileClass nsamp p b)))

def groupInfo (ops : List (Op Path)) : List (Nat × Nat) :=
  let step := fun (acc : List (Nat × Nat) × Nat × Option Path × Nat) (o : Op Path) =>
    let (out, cidx, prev, off) := acc
    match o with
    | .append p _ =>
        if prev = some p then ((cidx - 1, off + 1) :: out, cidx, some p, off + 1)
        else ((cidx, 0) :: out, cidx + 1, some p, 0)
    | _ => ((cidx, 0) :: out, cidx + 1, none, 0)
  (ops.foldl step ([], 0, none, 0)).1.reverse

/-- position of fine index k: the coarse index counts every op (also conditional removes that the real code skips — the
    harness maps by the coarse *label* list, see `posJson.label`) -/
def posJson (proto : Proto) (nsamp : Nat) (fs : FS Path) (ops : List (Op Path)) (k : Nat) : Json :=
  if k ≥ ops.length then Json.str "end" else
  let pre := ops.take k
  let done := (coarseFS proto nsamp fs pre).length
  match ops[k]? with
  | some (.append p _) =>
      -- offset inside the run of appends
      let before := (pre.reverse.takeWhile (fun o => match o with | .append q _ => q = p | _ => false)).length
      let after := ((ops.drop k).takeWhile (fun o => match o with | .append q _ => q = p | _ => false)).length
      if before = 0 then jObj [("coarse", jNat done), ("off", jNat 0), ("len", jNat after)]
      else jObj [("coarse", jNat (done - 1)), ("off", jNat before), ("len", jNat (before + after))]
  | _ => jObj [("coarse", jNat done), ("off", jNat 0), ("len", jNat 1)]

def outcomeStr (r : Except Err Nat) : String :=
  match r with
  | .ok s => s!"ok:{s}"
  | .error .markerParse => "error:markerParse"
  | .error .noMean => "error:noMean"
  | .error .noSamples => "error:noSamples"
  | .error .unpickle => "error:unpickle"
  | .error .missing => "error:missing"

partial def simStages (proto : Proto) (strat : Strategy) (total nsamp : Nat) (vi : Bool) (resume : Bool) (fs : FS Path)
    (kills : List Nat) (acc : List Json) : List Json × Json :=
  let r := run (natSys nsamp vi) proto strat resume total 0 fs
  match kills with
  | [] =>
    let r := run (natSys nsamp vi) proto strat true total 0 fs
    (acc, jObj [("outcome", Json.str (outcomeStr r.2)), ("coarse", jList Json.str (coarseFS proto nsamp fs r.1)),
                ("files", filesJson total nsamp (execs fs r.1))])
  | k :: rest =>
    let fs' := crash fs r.1 k
    let finished := k ≥ r.1.length
    let st := jObj [("nops", jNat r.1.length), ("pos", posJson proto nsamp fs r.1 k), ("files", filesJson total nsamp fs'),
                    ("coarse", jList Json.str (coarseFS proto nsamp fs (r.1.take k))),
                    ("outcome", Json.str (if finished then outcomeStr r.2 else "killed"))]
    simStages proto strat total nsamp vi true fs' rest (acc ++ [st])

def handle (j : Json) : Json :=
  let vi := (fBool? j "vi").getD true
  match fStr? j "op", protoOf? j, stratOf? j, fNat? j "total", fNat? j "nsamp" with
  | some "ops", some proto, some strat, some total, some nsamp =>
    match fBool? j "resume" with
    | some r =>
      let rr := run (natSys nsamp vi) proto strat r total 0 FS.empty
      jObj [("coarse", jList Json.str (coarseFS proto nsamp FS.empty rr.1)), ("fine", jNat rr.1.length),
            ("outcome", Json.str (outcomeStr rr.2))]
    | none => jErr "bad-args"
  | some "sim", some proto, some strat, some total, some nsamp =>
    match fBool? j "r0", fNatList? j "kills" with
    | some r0, some kills =>
      let (stages, fin) := simStages proto strat total nsamp vi r0 FS.empty kills []
      jObj [("stages", Json.arr stages.toArray), ("final", fin)]
    | _, _ => jErr "bad-args"
  | _, _, _, _, _ => jErr "bad-op"

def main : IO Unit := run handle
