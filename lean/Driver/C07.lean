import NiftyVerif.Core.Proto
import NiftyVerif.Model.Heap
open Lean NiftyVerif.Proto NiftyVerif.Heap

/-- one operation: {"op":"writeArr","a":0,"i":1,"v":5} … field names as in `Heap.Op` -/
def parseOp (j : Json) : Option Op := do
  let k ← fStr? j "op"
  match k with
  | "newArr" =>      -- "how" >= 2: an owning instance of an ndarray subclass
    let vals ← fIntList? j "vals"
    match fNat? j "how" with
    | some h => if h ≥ 2 then some (.newSub vals) else some (.newArr vals)
    | none => some (.newArr vals)
  | "asArray" => some (.asArray (← fNat? j "a"))
  | "sliceArr" => some (.sliceArr (← fNat? j "a") (← fNat? j "lo") (← fNat? j "hi"))
  | "writeArr" => some (.writeArr (← fNat? j "a") (← fNat? j "i") (← fInt? j "v"))
  | "setFlag" => some (.setFlag (← fNat? j "a") (← fBool? j "b"))
  | "wrap" => some (.wrap (← fNat? j "a"))
  | "wrapLock" => some (.wrapLock (← fNat? j "w"))
  | "wrapVal" => some (.wrapVal (← fNat? j "w"))
  | "wrapAsnumpy" => some (.wrapAsnumpy (← fNat? j "w"))
  | "wrapGetitem" => some (.wrapGetitem (← fNat? j "w") (← fNat? j "lo") (← fNat? j "hi"))
  | "wrapSame" => some (.wrapSame (← fNat? j "w"))
  | "wrapSetitem" => some (.wrapSetitem (← fNat? j "w") (← fNat? j "i") (← fInt? j "v"))
  | "wrapIadd" => some (.wrapIadd (← fNat? j "w") (← fNat? j "w2"))
  | "ufuncOut" => some (.ufuncOut (← fNat? j "wx") (← fNat? j "wy") (← fNat? j "wout"))
  | "wrapCopy" => some (.wrapCopy (← fNat? j "w"))
  | "fieldFromArr" => some (.fieldFromArr (← fNat? j "a") (← fNat? j "n"))
  | "fieldFromWrap" => some (.fieldFromWrap (← fNat? j "w") (← fNat? j "n"))
  | "fieldFull" => some (.fieldFull (← fNat? j "n") (← fInt? j "v"))
  | "fieldCast" => some (.fieldCast (← fNat? j "f"))
  | "fieldVal" => some (.fieldVal (← fNat? j "f"))
  | "fieldRaw" => some (.fieldRaw (← fNat? j "f"))
  | "fieldAsnumpy" => some (.fieldAsnumpy (← fNat? j "f"))
  | "fieldValRw" => some (.fieldValRw (← fNat? j "f"))
  | "fieldAsnumpyRw" => some (.fieldAsnumpyRw (← fNat? j "f"))
  | "fieldAdd" => some (.fieldAdd (← fNat? j "f") (← fNat? j "g"))
  | "fieldScale" => some (.fieldScale (← fNat? j "f") (← fInt? j "c"))
  | "mkDiag" => some (.mkDiag (← fNat? j "f"))
  | "mkAdder" => some (.mkAdder (← fNat? j "f"))
  | "applyOp" => some (.applyOp (← fNat? j "o") (← fNat? j "x"))
  | "arrBase" => some (.arrBase (← fNat? j "a"))
  | _ => none

def errName : Err → String
  | .valueError => "ValueError" | .typeError => "TypeError" | .indexError => "IndexError" | .badHandle => "bad-handle"

def refJson : Ref → Json
  | .none => Json.null
  | .arr i => Json.arr #[Json.str "arr", jNat i]
  | .wrap i => Json.arr #[Json.str "wrap", jNat i]
  | .field i => Json.arr #[Json.str "field", jNat i]
  | .op i => Json.arr #[Json.str "op", jNat i]

def snapshot (s : State) : List (String × Json) :=
  [("fields", jList (fun f => jInts (fieldVals s f)) (List.range s.fields.length)),
   ("arrs", jList (fun (a : Arr) => jInts (window s a)) s.arrs),
   ("aflags", jList (fun (a : Arr) => Json.bool a.writeable) s.arrs),
   ("wflags", jList (fun (w : Wrap) => Json.bool w.writeable) s.wraps),
   ("warr", jNats (s.wraps.map (·.arr))),
   ("fwrap", jNats s.fields),
   ("ops", jList (fun o => jInts (opVals s o)) (List.range s.ops.length))]

def runTrace (cfg : Cfg) : State → List Op → List Json → List Json
  | _, [], acc => acc.reverse
  | s, op :: rest, acc =>
    let e := eff cfg s op
    let s' := apply s e
    let out := match e.raised with | some er => errName er | none => "ok"
    -- class tag of the returned ndarray object, for the operations that create or pass on source arrays
    let rex : Json := match op, e.ret with
      | .newArr _, Ref.arr i | .newSub _, Ref.arr i | .sliceArr _ _ _, Ref.arr i | .asArray _, Ref.arr i =>
        match s'.arrs[i]? with | some ao => Json.bool ao.exact | none => Json.null
      | _, _ => Json.null
    let rec_ := jObj ([("out", Json.str out), ("ret", refJson e.ret), ("rexact", rex), ("guard", Json.bool (guard s op))] ++ snapshot s')
    runTrace cfg s' rest (rec_ :: acc)

/-- {"cfg":"fixed"|"asFound","ops":[…]} -> {"steps":[{out,ret,guard,fields,arrs,aflags,wflags,warr,fwrap,ops}…]} -/
def handle (j : Json) : Json :=
  match fStr? j "cfg", (field? j "ops").bind (listOf? parseOp) with
  | some c, some ops =>
    let cfg := if c == "asFound" then asFound else fixed
    jObj [("steps", Json.arr (runTrace cfg {} ops []).toArray)]
  | _, _ => jErr "bad-args"

def main : IO Unit := run handle
