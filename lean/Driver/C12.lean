import NiftyVerif.Core.Proto
import NiftyVerif.Model.LikelihoodRe
open Lean NiftyVerif.Proto NiftyVerif.LikelihoodRe

/-!
  Line-protocol driver for C12 (comparison class T, `Float`).
  Floats travel as their IEEE-754 bit patterns (JSON naturals) in both directions: exact, no decimal round trip.

  {"op":"lh","n":<latent real dim>,"terms":[TERM…],"liquid":[indices < n]}  ->  {"M":[[..]],"L":[[..]],"R":[[..]],"T":[..]}
  TERM = {"kind":…, "y":[…] (real coordinates of the likelihood's own parameters), "J": null | [[…]] (k×n, Jacobian
          of the forward model at the point; null = no forward model, then k = n), + per kind:
    gaussian   : "cov": null|[k], "std": null|[k]          (per real coordinate)
    studentt   : + "dof":[k]
    poisson    : —
    vcgauss    : "sidx":[per mean coordinate: index of its inverse-std element], "cx":[per inverse-std element: bool]
    vcstudt    : "dof":[per element]
    categorical: "grp":[k]
    ndvc       : "d", "cov": bool, "B" blocks; y = B*d means then B*d*d matrices; d ≤ 2 closed forms, d = 3, 4 Gauss–Jordan + Denman–Beavers
  Errors: {"error": kind}.
-/

abbrev F := Float

def getF? (j : Json) : Option F := (getNat? j).map fun n => Float.ofBits n.toUInt64
def fArr? (j : Json) (k : String) : Option (Array F) := do
  let a ← (field? j k).bind getArr?
  (a.mapM getF?).map List.toArray
def fArrOpt? (j : Json) (k : String) : Option (Option (Array F)) :=
  match field? j k with
  | none => some none
  | some Json.null => some none
  | some _ => (fArr? j k).map some
def fMat? (j : Json) (k : String) : Option (Array (Array F)) := do
  let a ← (field? j k).bind getArr?
  let rows ← a.mapM fun r => do
    let l ← getArr? r
    (l.mapM getF?).map List.toArray
  pure rows.toArray
def boolList? (j : Json) (k : String) : Option (Array Bool) := do
  let a ← (field? j k).bind getArr?
  (a.mapM getBool?).map List.toArray

def jF (x : F) : Json := jNat x.toBits.toNat
def jVec {n : Nat} (v : Fin n → F) : Json := Json.arr ((List.ofFn v).map jF).toArray
def jMat {r c : Nat} (A : Fin r → Fin c → F) : Json :=
  Json.arr ((List.ofFn fun i => jVec (A i))).toArray

def vecOf (a : Array F) (n : Nat) : Fin n → F := fun i => a[i.val]!
def matOf (a : Array (Array F)) (r c : Nat) : Fin r → Fin c → F := fun i j => (a[i.val]!)[j.val]!

/-- one base likelihood: dense record over its own `k` real parameters and the transformation values (if any) -/
structure Base (k : Nat) where
  lr : LR F k
  T : Option (List F)

def optAt (o : Option (Array F)) (i : Nat) : Option F := o.map fun a => a[i]!

/-- 2×2 (or 1×1) inverse and principal square root of a symmetric positive definite block, closed form -/
def inv2 (d : Nat) (A : Fin d → Fin d → F) : Fin d → Fin d → F :=
  if h : d = 1 then fun _ _ => 1.0 / A ⟨0, by omega⟩ ⟨0, by omega⟩
  else if h : d = 2 then
    let a := A ⟨0, by omega⟩ ⟨0, by omega⟩; let b := A ⟨0, by omega⟩ ⟨1, by omega⟩
    let c := A ⟨1, by omega⟩ ⟨0, by omega⟩; let e := A ⟨1, by omega⟩ ⟨1, by omega⟩
    let det := a * e - b * c
    fun i j => (if i.val = 0 ∧ j.val = 0 then e else if i.val = 0 then -b else if j.val = 0 then -c else a) / det
  else fun _ _ => 0.0 / 0.0
def sqrt2 (d : Nat) (A : Fin d → Fin d → F) : Fin d → Fin d → F :=
  if h : d = 1 then fun _ _ => Float.sqrt (A ⟨0, by omega⟩ ⟨0, by omega⟩)
  else if h : d = 2 then
    let a := A ⟨0, by omega⟩ ⟨0, by omega⟩; let b := A ⟨0, by omega⟩ ⟨1, by omega⟩
    let c := A ⟨1, by omega⟩ ⟨0, by omega⟩; let e := A ⟨1, by omega⟩ ⟨1, by omega⟩
    let s := Float.sqrt (a * e - b * c)
    let t := Float.sqrt (a + e + 2.0 * s)
    fun i j => ((if i.val = 0 ∧ j.val = 0 then a else if i.val = 0 then b else if j.val = 0 then c else e)
                + (if i.val = j.val then s else 0.0)) / t
  else fun _ _ => 0.0 / 0.0

/-! general `d` (used for `d ≥ 3`): the library computes `solve` / `sqrtm` through `eigh`; the driver — which only has
    to reproduce the VALUES of `A⁻¹` and `A^{1/2}` to 1e-9 — uses Gauss–Jordan elimination and the Denman–Beavers
    iteration (`Y ← (Y + Z⁻¹)/2`, `Z ← (Z + Y⁻¹)/2`, `Y → A^{1/2}`, quadratically convergent and stable for SPD `A`).
    In the theorems both stay abstract (hypotheses `S S = A`, `Si S = 1`, `Ai A = 1` of `L_Lh_eq_M_ndvc`). -/
abbrev Mat := Array (Array F)

def arrOfMat (d : Nat) (A : Fin d → Fin d → F) : Mat := Array.ofFn (n := d) fun i => Array.ofFn (n := d) fun j => A i j
def matOfArr (d : Nat) (M : Mat) : Fin d → Fin d → F := fun i j => (M[i.val]!)[j.val]!

/-- Gauss–Jordan inverse with partial pivoting -/
def invArr (d : Nat) (A : Mat) : Mat := Id.run do
  let w := 2 * d
  let mut M : Mat := Array.ofFn (n := d) fun i => Array.ofFn (n := w) fun j =>
    if j.val < d then (A[i.val]!)[j.val]! else if j.val - d = i.val then 1.0 else 0.0
  for c in [0:d] do
    let mut p := c
    for r in [c+1:d] do
      if Float.abs ((M[r]!)[c]!) > Float.abs ((M[p]!)[c]!) then p := r
    let rowp := M[p]!
    let rowc0 := M[c]!
    M := (M.set! p rowc0).set! c rowp
    let piv := (M[c]!)[c]!
    let rowc := (M[c]!).map fun x => x / piv
    M := M.set! c rowc
    for r in [0:d] do
      if r != c then
        let rowr := M[r]!
        let f := rowr[c]!
        M := M.set! r (Array.ofFn (n := w) fun j => rowr[j.val]! - f * rowc[j.val]!)
  return Array.ofFn (n := d) fun i => Array.ofFn (n := d) fun j => (M[i.val]!)[d + j.val]!

def sqrtArr (d : Nat) (A : Mat) : Mat := Id.run do
  let avg (X Y : Mat) : Mat := Array.ofFn (n := d) fun i => Array.ofFn (n := d) fun j =>
    ((X[i.val]!)[j.val]! + (Y[i.val]!)[j.val]!) / 2.0
  let mut Y := A
  let mut Z : Mat := Array.ofFn (n := d) fun i => Array.ofFn (n := d) fun j => if i.val = j.val then 1.0 else 0.0
  for _ in [0:30] do
    let Yi := invArr d Y
    let Zi := invArr d Z
    Y := avg Y Zi
    Z := avg Z Yi
  return Y

/-- inverse / principal square root for every `d`, evaluated ONCE (strict arrays) -/
def invD (d : Nat) (A : Fin d → Fin d → F) : Fin d → Fin d → F :=
  if d ≤ 2 then matOfArr d (arrOfMat d (inv2 d A)) else matOfArr d (invArr d (arrOfMat d A))
def sqrtD (d : Nat) (A : Fin d → Fin d → F) : Fin d → Fin d → F :=
  if d ≤ 2 then matOfArr d (arrOfMat d (sqrt2 d A)) else matOfArr d (sqrtArr d (arrOfMat d A))

def buildBase (j : Json) (k : Nat) (y : Array F) : Option (Base k) := do
  let kind ← fStr? j "kind"
  let yv := vecOf y k
  match kind with
  | "gaussian" =>
    let cov ← fArrOpt? j "cov"
    let std ← fArrOpt? j "std"
    let cs : Fin k → F × F := fun i => covStd (optAt cov i.val) (optAt std i.val)
    pure ⟨LR.ofML (toMat (gaussianM cs)) (toMat (gaussianL cs)), some (List.ofFn (gaussianT cs yv))⟩
  | "studentt" =>
    let cov ← fArrOpt? j "cov"
    let std ← fArrOpt? j "std"
    let dof ← fArr? j "dof"
    let cs : Fin k → F × F := fun i => covStd (optAt cov i.val) (optAt std i.val)
    let dv := vecOf dof k
    pure ⟨LR.ofML (toMat (studentTM cs dv)) (toMat (studentTL cs dv)), some (List.ofFn (studentTT cs dv yv))⟩
  | "poisson" =>
    pure ⟨LR.ofML (toMat (poissonM yv)) (toMat (poissonL yv)), some (List.ofFn (poissonT yv))⟩
  | "vcgauss" =>
    let sidx ← fNatList? j "sidx"
    let cx ← boolList? j "cx"
    let data ← fArr? j "data"
    let nm := sidx.length
    let sI := sidx.toArray
    -- coordinate i < nm: a mean coordinate with inverse std y[nm + sidx[i]]; else the inverse-std element i - nm
    let sOf : Fin k → F := fun i => if i.val < nm then y[nm + sI[i.val]!]! else y[i.val]!
    let cxOf : Fin k → Bool := fun i => if i.val < nm then cx[sI[i.val]!]! else cx[i.val - nm]!
    let dOf : Fin k → F := fun i => if i.val < nm then data[i.val]! else 0.0
    pure ⟨LR.ofML (toMat (vcgaussM nm sOf cxOf)) (toMat (vcgaussL nm sOf cxOf)),
          some (List.ofFn (vcgaussT nm sOf cxOf dOf yv))⟩
  | "vcstudt" =>
    let dof ← fArr? j "dof"
    let ne := k / 2
    let sg : Fin k → F := fun i => if i.val < ne then y[ne + i.val]! else y[i.val]!
    let th : Fin k → F := fun i => if i.val < ne then dof[i.val]! else dof[i.val - ne]!
    pure ⟨LR.ofML (toMat (vcstudtM ne th sg)) (toMat (vcstudtL ne th sg)), none⟩
  | "categorical" =>
    let grp ← fNatList? j "grp"
    let gA := grp.toArray
    let g : Fin k → Nat := fun i => gA[i.val]!
    pure ⟨LR.ofML (toMat (categoricalM g yv)) (toMat (categoricalL g yv)), none⟩
  | "ndvc" =>
    let d ← fNat? j "d"
    let B ← fNat? j "B"
    let cov ← fBool? j "cov"
    if d = 0 ∨ d > 4 then none else
    let nm := B * d
    -- block b: matrix entries y[nm + b*d*d + r*d + c]
    let A (b : Nat) : Fin d → Fin d → F := fun r c => y[nm + b * d * d + r.val * d + c.val]!
    -- per block, computed once: A⁻¹, S = A^{1/2}, S⁻¹ (strict arrays behind the functions)
    let AiA : Array Mat := Array.ofFn (n := B) fun b => arrOfMat d (invD d (A b.val))
    let SA : Array Mat := Array.ofFn (n := B) fun b => arrOfMat d (sqrtD d (A b.val))
    let SiA : Array Mat := Array.ofFn (n := B) fun b => arrOfMat d (invD d (matOfArr d (SA[b.val]!)))
    let Ai (b : Nat) : Fin d → Fin d → F := matOfArr d (AiA[b]!)
    let S (b : Nat) : Fin d → Fin d → F := matOfArr d (SA[b]!)
    let Si (b : Nat) : Fin d → Fin d → F := matOfArr d (SiA[b]!)
    let M : (Fin k → F) → (Fin k → F) := fun t i =>
      if i.val < nm then
        let b := i.val / d
        if h : i.val % d < d then
          ndMmean cov (A b) (Ai b) (fun c => t' t (b * d + c.val)) ⟨i.val % d, h⟩ else 0.0
      else
        let q := i.val - nm; let b := q / (d * d); let r := (q % (d * d)) / d; let c := q % d
        if h : r < d ∧ c < d then
          ndMmat (Ai b) (fun r' c' => t' t (nm + b * d * d + r'.val * d + c'.val)) ⟨r, h.1⟩ ⟨c, h.2⟩ else 0.0
    let L : (Fin k → F) → (Fin k → F) := fun t i =>
      if i.val < nm then
        let b := i.val / d
        if h : i.val % d < d then
          ndLmean cov (S b) (Si b) (fun c => t' t (b * d + c.val)) ⟨i.val % d, h⟩ else 0.0
      else
        let q := i.val - nm; let b := q / (d * d); let r := (q % (d * d)) / d; let c := q % d
        if h : r < d ∧ c < d then
          ndLmat (Si b) (fun r' c' => t' t (nm + b * d * d + r'.val * d + c'.val)) ⟨r, h.1⟩ ⟨c, h.2⟩ else 0.0
    pure ⟨LR.ofML (toMat M) (toMat L), none⟩
  | _ => none
where
  t' {k : Nat} (t : Fin k → F) (i : Nat) : F := if h : i < k then t ⟨i, h⟩ else 0.0

/-- `"defaults": true` — the object only defines the transformation; `Likelihood`'s defaults apply:
    `L` = pull-back of the transformation (= the class's own `L` by the `L_is_pullback_*` theorems), `R = Lᵀ`, `M = L∘R` -/
def applyDefaults {k : Nat} (dflt : Bool) (b : Base k) : Base k :=
  if dflt then ⟨LR.ofL b.lr.L, b.T⟩ else b

/-- a term lifted to the latent space of dimension `n` -/
def buildTerm (j : Json) (n : Nat) : Except String (LR F n × Option (List F)) := do
  let some y := fArr? j "y" | throw "bad-args"
  let k := y.size
  let dflt := (fBool? j "defaults").getD false
  match field? j "J" with
  | none | some Json.null =>
    if h : k = n then
      let some b0 := buildBase j k y | throw "bad-term"
      let b := applyDefaults dflt b0
      pure (h ▸ b.lr, b.T)
    else throw "dim-mismatch"
  | some _ =>
    let some Jm := fMat? j "J" | throw "bad-args"
    if Jm.size != k ∨ Jm.any (fun r => r.size != n) then throw "dim-mismatch" else
    let some b0 := buildBase j k y | throw "bad-term"
    let b := applyDefaults dflt b0
    pure (LR.withModel (matOf Jm k n) b.lr, b.T)

def selOf (liquid : Array Nat) (n : Nat) : Option (Fin liquid.size → Fin n) :=
  if h : ∀ i : Fin liquid.size, liquid[i] < n then some (fun i => ⟨liquid[i], h i⟩) else none

def handleLh (j : Json) : Json :=
  match fNat? j "n", (field? j "terms").bind getArr?, fNatList? j "liquid" with
  | some n, some (t0 :: ts), some liquid =>
    let r : Except String Json := do
      let (lr0, T0) ← buildTerm t0 n
      let mut lr := lr0
      let mut T : Option (List F) := T0
      for t in ts do
        let (lrk, Tk) ← buildTerm t n
        lr := LR.add lr lrk
        T := match T, Tk with
          | some a, some b => some (a ++ b)
          | _, _ => none
      let lq := liquid.toArray
      let some sel := selOf lq n | throw "bad-liquid"
      let p := LR.partial sel lr
      pure (jObj [("M", jMat p.M), ("L", jMat p.L), ("R", jMat p.R),
                  ("T", match T with | some l => Json.arr (l.map jF).toArray | none => Json.null)])
    match r with
    | .ok v => v
    | .error e => jErr e
  | _, _, _ => jErr "bad-args"

def handle (j : Json) : Json :=
  match fStr? j "op" with
  | some "lh" => handleLh j
  | _ => jErr "bad-op"

def main : IO Unit := run handle
