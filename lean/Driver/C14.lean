import NiftyVerif.Model.CgClassicDriver
/-! C14 model driver: the handler lives in NiftyVerif/Model/CgClassicDriver.lean (ops documented there). -/
def main : IO Unit := NiftyVerif.Proto.run NiftyVerif.C14Driver.handle
