import NiftyVerif.Core.Proto
import NiftyVerif.Model.Power
open Lean NiftyVerif.Proto NiftyVerif.Domains NiftyVerif.Power

def ratLists? (j : Json) : Option (List (List Rat)) := listOf? ratList? j

def errName : PErr → String
  | .valueError => "ValueError" | .attributeError => "AttributeError"

def handle (j : Json) : Json :=
  match fStr? j "op" with
  | some "distribute" =>
    -- fibres of the spectrum along the power axis -> fibres over the harmonic partner
    match fNatList? j "pindex", (field? j "fibres").bind ratLists? with
    | some pi, some fs => jList jRats (fs.map (distribute pi))
    | _, _ => jErr "bad-args"
  | some "adjoint" =>
    match fNat? j "nbin", fNatList? j "pindex", (field? j "fibres").bind ratLists? with
    | some nb, some pi, some fs => jList jRats (fs.map (distributeAdj nb pi))
    | _, _, _ => jErr "bad-args"
  | some "powerop" =>
    match fNatList? j "pindex", fRatList? j "s", (field? j "fibres").bind ratLists? with
    | some pi, some s, some fs => jList jRats (fs.map (powerOperator pi s))
    | _, _, _ => jErr "bad-args"
  | some "analyze" =>
    -- one harmonic sub-space; fibres of the real and (optionally) imaginary parts
    match fStr? j "cfg", fNat? j "nbin", fNatList? j "pindex", fRat? j "dvol", (field? j "re").bind ratLists?, fBool? j "keep" with
    | some c, some nb, some pi, some dv, some re, some keep =>
      let cfg := if c == "asFound" then asFound else fixed
      let im : Option (List (List Rat)) := (field? j "im").bind ratLists?
      let rho := bincount nb pi
      let rs := (List.range re.length).map fun k =>
        powerAnalyze cfg pi rho dv ⟨re.getD k [], im.map fun l => l.getD k []⟩ keep
      match rs.find? (fun r => match r with | .error _ => true | .ok _ => false) with
      | some (.error e) => jErr (errName e)
      | _ =>
        jObj [("re", jList (fun r => match r with
                  | .ok (.real s) => jRats s | .ok (.phase s _) => jRats s | _ => Json.null) rs),
              ("im", if keep then jList (fun r => match r with
                  | .ok (.phase _ s) => jRats s | _ => Json.null) rs else Json.null)]
    | _, _, _, _, _, _ => jErr "bad-args"
  | _ => jErr "bad-op"

def main : IO Unit := run handle
