import NiftyVerif.Model.TreeShareDriver
/-! C05 line-protocol driver; the handler is compiled in NiftyVerif/Model/TreeShareDriver.lean. -/
def main : IO Unit := NiftyVerif.Proto.run handleC05
