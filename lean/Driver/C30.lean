import NiftyVerif.Core.Proto
import NiftyVerif.Model.Priors
open Lean NiftyVerif NiftyVerif.Proto NiftyVerif.Priors

/-!
  Line-protocol driver for C30 (model: NiftyVerif/Model/Priors.lean).

  Numbers travel as exact rationals `"p/q"`; every float64 of the implementation is a dyadic rational.
  * elementary transforms are evaluated at `K := Float` (comparison class T); the special-function values the model takes
    as parameters (`Φ x`, `φ x`, `log Φ(±x)`, spline value/derivative) are shipped by the harness as numbers
    (fields `Phi`, `phi`, `logPhi`, `logPhiNeg`, `s`, `ds`) and enter the model as constant functions;
  * interpolation (`interp`, `interpInv`, `xs*`) is evaluated at `K := Rat`, exactly (classes E/F).
  Results are exact rationals again (a finite Float is a dyadic rational); NaN/±inf are the strings "nan"/"inf"/"-inf".
-/

def floatToJson (f : Float) : Json :=
  if f.isNaN then Json.str "nan" else
  if f.isInf then Json.str (if f > 0 then "inf" else "-inf") else
  let (m, e) := f.frExp
  let i : Int := (m.scaleB 53).toInt64.toInt
  let e' : Int := e - 53
  jRat (if e' ≥ 0 then ((i * (2 : Int) ^ e'.toNat : Int) : Rat) else mkRat i ((2 : Nat) ^ (-e').toNat))

def ratToFloat (r : Rat) : Float :=
  let k := r.den.log2
  if r.den == 2 ^ k then (Float.ofInt r.num).scaleB (-(k : Int)) else Float.ofInt r.num / Float.ofNat r.den

def fF? (j : Json) (k : String) : Option Float := (fRat? j k).map ratToFloat

def pairsOf (xs ys : List Rat) : List (Rat × Rat) := List.zip xs ys

def jF (k : String) (v : Float) : Json := jObj [(k, floatToJson v)]

def optPair (r : Option (Float × Float)) (k1 k2 : String) : Json :=
  match r with
  | none => jErr "ValueError"
  | some (a, b) => jObj [(k1, floatToJson a), (k2, floatToJson b)]

def optVal (r : Option Float) : Json :=
  match r with
  | none => jErr "ValueError"
  | some a => jF "y" a

/-- the node list of an interpolation request: `xs`, `ys` of equal length ≥ 1 (what `jnp.interp` accepts) -/
def nodes? (j : Json) : Option ((Rat × Rat) × List (Rat × Rat)) := do
  let xs ← fRatList? j "xs"
  let ys ← fRatList? j "ys"
  if xs.length != ys.length then none else
  match pairsOf xs ys with
  | [] => none
  | n0 :: rest => some (n0, rest)

def op_normal (j : Json) : Json :=
  let f := fF? j
  match f "mean", f "std", f "x" with
  | some m, some s, some x => jF "y" (normal m s x)
  | _, _, _ => jErr "bad-args"

def op_normalInv (j : Json) : Json :=
  let f := fF? j
  match f "mean", f "std", f "y" with
  | some m, some s, some y => jF "x" (normalInv m s y)
  | _, _, _ => jErr "bad-args"

def op_lognormalMomentsRe (j : Json) : Json :=
  let f := fF? j
  match f "mean", f "std" with
  | some m, some s => optPair (lognormalMomentsRe m s) "logmean" "logstd"
  | _, _ => jErr "bad-args"

def op_lognormalMomentsCl (j : Json) : Json :=
  let f := fF? j
  match f "mean", f "std" with
  | some m, some s => optPair (lognormalMomentsCl m s) "logmean" "logstd"
  | _, _ => jErr "bad-args"

/-- the same transcription with the Kahan-stable `log1p` (over ℝ the same function: `C30.lognormal_moments_stable`);
    used for the extreme stream, where `log(1+v)` evaluated in Float has lost the digits `np.log1p` keeps -/
def op_lognormalMomentsStable (cl : Bool) (j : Json) : Json :=
  let f := fF? j
  match f "mean", f "std" with
  | some m, some s => optPair (if cl then lognormalMomentsClWith log1pStable m s else lognormalMomentsReWith log1pStable m s)
      "logmean" "logstd"
  | _, _ => jErr "bad-args"

def op_lognormalPriorRe (j : Json) : Json :=
  let f := fF? j
  match f "mean", f "std", f "x" with
  | some m, some s, some x => optVal (lognormalPriorRe m s x)
  | _, _, _ => jErr "bad-args"

def op_lognormalInvPriorRe (j : Json) : Json :=
  let f := fF? j
  match f "mean", f "std", f "y" with
  | some m, some s, some y => optVal (lognormalInvPriorRe m s y)
  | _, _, _ => jErr "bad-args"

def op_lognormalTransformCl (j : Json) : Json :=
  let f := fF? j
  match f "mean", f "std", f "x" with
  | some m, some s, some x => optVal (lognormalTransformCl m s x)
  | _, _, _ => jErr "bad-args"

def op_uniformPriorRe (j : Json) : Json :=
  let f := fF? j
  match f "a", f "b", f "Phi" with
  | some a, some b, some p => jF "y" (uniformPriorRe (fun _ => p) a b 0.0)
  | _, _, _ => jErr "bad-args"

def op_uniformPriorDefault (j : Json) : Json :=
  let f := fF? j
  match f "Phi" with
  | some p => jF "y" (uniformPriorDefault (fun _ => p) 0.0)
  | _ => jErr "bad-args"

def op_uniformCl (j : Json) : Json :=
  let f := fF? j
  match f "loc", f "scale", f "Phi", f "phi" with
  | some l, some s, some p, some d =>
    jObj [("y", floatToJson (uniformCl (fun _ => p) l s 0.0)), ("jac", floatToJson (uniformClJac (fun _ => d) s 0.0))]
  | _, _, _, _ => jErr "bad-args"

def op_uniformClInvArg (j : Json) : Json :=
  let f := fF? j
  match f "loc", f "scale", f "y" with
  | some l, some s, some y => jF "arg" (uniformClInvArg l s y)
  | _, _, _ => jErr "bad-args"

def op_laplaceRe (j : Json) : Json :=
  let f := fF? j
  match f "alpha", f "x", f "logPhi", f "logPhiNeg" with
  | some a, some x, some lp, some lm =>
    -- `logΦ` is called at `x` and at `-x` only
    jF "y" (laplaceRe (fun t => if t == x then lp else lm) a x)
  | _, _, _, _ => jErr "bad-args"

def op_laplaceCl (j : Json) : Json :=
  let f := fF? j
  match f "loc", f "scale", f "Phi", f "phi" with
  | some l, some s, some p, some d =>
    jObj [("y", floatToJson (laplaceCl (fun _ => p) l s 0.0)),
          ("jac", floatToJson (laplaceClJac (fun _ => p) (fun _ => d) s 0.0))]
  | _, _, _, _ => jErr "bad-args"

def op_laplaceClInvArg (j : Json) : Json :=
  let f := fF? j
  match f "loc", f "scale", f "y" with
  | some l, some s, some y => jF "arg" (laplaceClInvArg l s y)
  | _, _, _ => jErr "bad-args"

def op_invGammaFromModeMean (j : Json) : Json :=
  let f := fF? j
  match f "mode", f "mean" with
  | some mo, some me => optPair (invGammaFromModeMean mo me) "alpha" "q"
  | _, _ => jErr "bad-args"

def op_gammaFromMeanVar (j : Json) : Json :=
  let f := fF? j
  match f "mean", f "var" with
  | some me, some v => optPair (some (gammaFromMeanVar me v)) "alpha" "theta"
  | _, _ => jErr "bad-args"

def op_gammaThetaFromBeta (j : Json) : Json :=
  let f := fF? j
  match f "beta" with
  | some b => jF "theta" (gammaThetaFromBeta b)
  | _ => jErr "bad-args"

def op_invGammaCl (j : Json) : Json :=
  let f := fF? j
  match f "q", f "s", f "ds" with
  | some q, some s, some ds =>
    jObj [("y", floatToJson (invGammaCl (fun _ => s) q 0.0)),
          ("jac", floatToJson (invGammaClJac (fun _ => s) (fun _ => ds) q 0.0))]
  | _, _, _ => jErr "bad-args"

def op_gammaCl (j : Json) : Json :=
  let f := fF? j
  match f "theta", f "s" with
  | some t, some s => jF "y" (gammaCl (fun _ => s) t 0.0)
  | _, _ => jErr "bad-args"

def op_logInvGammaCl (j : Json) : Json :=
  let f := fF? j
  match f "q", f "s" with
  | some q, some s => jF "y" (logInvGammaCl (fun _ => s) q 0.0)
  | _, _ => jErr "bad-args"

def op_interp (j : Json) : Json :=
  match nodes? j, fRatList? j "x" with
  | some (n0, rest), some xq => jObj [("y", jRats (xq.map fun x => interp x n0 rest))]
  | _, _ => jErr "ValueError"

def op_interpInv (j : Json) : Json :=
  -- `interpolatorInverse` with `table_func = id`
  match nodes? j, fRatList? j "y" with
  | some (n0, rest), some yq => jObj [("x", jRats (yq.map fun y => interpolatorInverse (fun t => t) y n0 rest))]
  | _, _ => jErr "ValueError"

def op_xsStep (j : Json) : Json :=
  match fRat? j "xmin", fRat? j "xmax", fRat? j "step" with
  | some a, some b, some s =>
    if s == 0 then jErr "ZeroDivisionError" else
    let xs := interpolatorXsStep a b s
    jObj [("n", jNat xs.length), ("xs", jRats xs)]
  | _, _, _ => jErr "bad-args"

def op_xsNum (j : Json) : Json :=
  match fRat? j "xmin", fRat? j "xmax", fNat? j "num" with
  | some a, some b, some n => let xs := interpolatorXsNum a b n; jObj [("n", jNat xs.length), ("xs", jRats xs)]
  | _, _, _ => jErr "bad-args"

def op_xsOp (j : Json) : Json :=
  match fRat? j "xmin", fRat? j "xmax", fRat? j "step" with
  | some a, some b, some s =>
    if s == 0 then jErr "ZeroDivisionError" else
    let xs := interpolationOperatorXs a b s
    jObj [("n", jNat xs.length), ("first", jRats (xs.take 2)), ("last", jRats (xs.drop (xs.length - 1)))]
  | _, _, _ => jErr "bad-args"

def op_invgammaRe (j : Json) : Json :=
  let f := fF? j
  match nodes? j, fRatList? j "x", f "scale", fBool? j "locIsZero" with
  | some (n0, rest), some xq, some sc, some lz =>
    let fl (p : Rat × Rat) : Float × Float := (ratToFloat p.1, ratToFloat p.2)
    let n0f := fl n0
    let restf := rest.map fl
    jObj [("y", Json.arr ((xq.map fun x => floatToJson (invgammaRe lz sc (ratToFloat x) n0f restf)).toArray))]
  | _, _, _, _ => jErr "bad-args"

def op_invgammaInvRe (j : Json) : Json :=
  match nodes? j, fRatList? j "y" with
  | some (n0, rest), some yq =>
    let fl (p : Rat × Rat) : Float × Float := (ratToFloat p.1, ratToFloat p.2)
    let n0f := fl n0
    let restf := rest.map fl
    jObj [("x", Json.arr ((yq.map fun y => floatToJson (invgammaInvRe (ratToFloat y) n0f restf)).toArray))]
  | _, _ => jErr "bad-args"

def handle (j : Json) : Json :=
  match fStr? j "op" with
  | some "normal" => op_normal j
  | some "normalInv" => op_normalInv j
  | some "lognormalMomentsRe" => op_lognormalMomentsRe j
  | some "lognormalMomentsCl" => op_lognormalMomentsCl j
  | some "lognormalMomentsReStable" => op_lognormalMomentsStable false j
  | some "lognormalMomentsClStable" => op_lognormalMomentsStable true j
  | some "lognormalPriorRe" => op_lognormalPriorRe j
  | some "lognormalInvPriorRe" => op_lognormalInvPriorRe j
  | some "lognormalTransformCl" => op_lognormalTransformCl j
  | some "uniformPriorRe" => op_uniformPriorRe j
  | some "uniformPriorDefault" => op_uniformPriorDefault j
  | some "uniformCl" => op_uniformCl j
  | some "uniformClInvArg" => op_uniformClInvArg j
  | some "laplaceRe" => op_laplaceRe j
  | some "laplaceCl" => op_laplaceCl j
  | some "laplaceClInvArg" => op_laplaceClInvArg j
  | some "invGammaFromModeMean" => op_invGammaFromModeMean j
  | some "gammaFromMeanVar" => op_gammaFromMeanVar j
  | some "gammaThetaFromBeta" => op_gammaThetaFromBeta j
  | some "invGammaCl" => op_invGammaCl j
  | some "gammaCl" => op_gammaCl j
  | some "logInvGammaCl" => op_logInvGammaCl j
  | some "interp" => op_interp j
  | some "interpInv" => op_interpInv j
  | some "xsStep" => op_xsStep j
  | some "xsNum" => op_xsNum j
  | some "xsOp" => op_xsOp j
  | some "invgammaRe" => op_invgammaRe j
  | some "invgammaInvRe" => op_invgammaInvRe j
  | _ => jErr "bad-op"

def main : IO Unit := run handle
