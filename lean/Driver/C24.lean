import NiftyVerif.Core.Proto
import NiftyVerif.Model.CrashRe
open Lean NiftyVerif.Proto NiftyVerif.CrashFS NiftyVerif.CrashRe

/-!
ops:
 {"op":"ops","proto":"atomic"|"inplace","n":3,"resume":false}
     -> {"coarse":[…strings…],"fine":N}            the driver's file operations of an uninterrupted run from an empty odir
 {"op":"sim","proto":…,"n":3,"r0":false,"kills":[k1,k2,…]}
     -> {"stages":[{"nops":N,"from":i,"pos":{"coarse":c,"off":j,"len":L}|"end","files":{…}}…],
         "final":{"ok":true,"from":i,"updates":n-i,"state":n,"coarse":[…],"files":{…}} | {"ok":false,"error":"unpickle"}}
     run 1 (resume=r0) from the empty odir is killed after k1 fine operations, run 2 (resume=true) after k2, …; then a
     run with resume=true that is not killed.  {"op":"sweep","proto":…,"n":3,"r0":false,"multi":[[a,k2,…],…]} -> {"coarse","fine","singles":[sim for every k],"multi":[…]}
 State = iteration counter (natSys).
-/

def protoOf? (j : Json) : Option Proto :=
  match fStr? j "proto" with
  | some "atomic" => some .atomic
  | some "inplace" => some .inplace
  | _ => none

def fileStatus (b : Option Bytes) : String :=
  match b with
  | none => "absent"
  | some [] => "empty"
  | some (x :: r) =>
    match natSys.dec (x :: r) with
    | some i => s!"complete:{i}"
    | none => s!"partial:{x}"

/-- the message of state `i` is `[i, 10]`; a byte not followed by 10 is the partial message of a killed write -/
def sanityTokens : Bytes → List String
  | [] => []
  | i :: 10 :: r => toString i :: sanityTokens r
  | _ :: r => "~" :: sanityTokens r

def filesJson (fs : FS Path) : Json :=
  jObj [("last.pkl", Json.str (fileStatus (fs .last))), ("last.pkl.tmp", Json.str (fileStatus (fs .tmp))),
        ("minisanity.txt", match fs .sanity with
                           | none => Json.str "absent"
                           | some b => jList Json.str (sanityTokens b))]

/-- per fine op: (index of its coarse op, offset inside a run of appends to one path) -/
def groupInfo (ops : List (Op Path)) : List (Nat × Nat) :=
  let step := fun (acc : List (Nat × Nat) × Nat × Option Path × Nat) (o : Op Path) =>
    let (out, cidx, prev, off) := acc
    match o with
    | .append p _ =>
        if prev = some p then (out ++ [(cidx - 1, off + 1)], cidx, some p, off + 1)
        else (out ++ [(cidx, 0)], cidx + 1, some p, 0)
    | _ => (out ++ [(cidx, 0)], cidx + 1, none, 0)
  (ops.foldl step ([], 0, none, 0)).1

def posJson (ops : List (Op Path)) (k : Nat) : Json :=
  let gi := groupInfo ops
  match gi[k]? with
  | none => Json.str "end"
  | some (c, off) =>
      let len := (gi.filter (fun x => x.1 == c)).length
      jObj [("coarse", jNat c), ("off", jNat off), ("len", jNat len)]

def loadedFrom (resume : Bool) (fs : FS Path) : Except Err Nat := load natSys resume 0 fs

partial def simStages (proto : Proto) (n : Nat) (resume : Bool) (fs : FS Path) (kills : List Nat) (acc : List Json) :
    List Json × Json :=
  match kills with
  | [] =>
    match run natSys proto true 0 n fs, loadedFrom true fs with
    | .ok (ops, sf), .ok i =>
        (acc, jObj [("ok", Json.bool true), ("from", jNat i), ("updates", jNat (n - i)), ("state", jNat sf),
                    ("coarse", jList Json.str (coarse Path.name ops)), ("files", filesJson (execs fs ops))])
    | _, _ => (acc, jObj [("ok", Json.bool false), ("error", Json.str "unpickle")])
  | k :: rest =>
    match run natSys proto resume 0 n fs, loadedFrom resume fs with
    | .ok (ops, _), .ok i =>
        let fs' := crash fs ops k
        let st := jObj [("nops", jNat ops.length), ("from", jNat i), ("pos", posJson ops k), ("files", filesJson fs'),
                        ("coarse", jList Json.str (coarse Path.name (ops.take k)))]
        simStages proto n true fs' rest (acc ++ [st])
    | _, _ => (acc ++ [jObj [("error", Json.str "unpickle")]], jObj [("ok", Json.bool false), ("error", Json.str "unpickle")])

def handle (j : Json) : Json :=
  match fStr? j "op", protoOf? j, fNat? j "n" with
  | some "ops", some proto, some n =>
    match fBool? j "resume" with
    | some r =>
      match run natSys proto r 0 n FS.empty with
      | .ok (ops, _) => jObj [("coarse", jList Json.str (coarse Path.name ops)), ("fine", jNat ops.length)]
      | .error _ => jErr "unpickle"
    | none => jErr "bad-args"
  | some "sim", some proto, some n =>
    match fBool? j "r0", fNatList? j "kills" with
    | some r0, some kills =>
      let (stages, fin) := simStages proto n r0 FS.empty kills []
      jObj [("stages", Json.arr stages.toArray), ("final", fin)]
    | _, _ => jErr "bad-args"
  | some "sweep", some proto, some n =>
    -- everything for one configuration in one call: op sequence, ALL single kills, and multi-kills whose first kill point
    -- is given modulo the number of fine operations
    match fBool? j "r0", (field? j "multi").bind (listOf? natList?) with
    | some r0, some multi =>
      match run natSys proto r0 0 n FS.empty with
      | .ok (ops, _) =>
        let nf := ops.length
        let simJ := fun (kills : List Nat) =>
          let (stages, fin) := simStages proto n r0 FS.empty kills []
          jObj [("kills", jNats kills), ("stages", Json.arr stages.toArray), ("final", fin)]
        let singles := (List.range (nf + 1)).map (fun k => simJ [k])
        let multis := multi.map (fun ks => match ks with
          | a :: rest => simJ ((1 + a % (nf - 1)) :: rest)
          | [] => simJ [])
        jObj [("coarse", jList Json.str (coarse Path.name ops)), ("fine", jNat nf),
              ("singles", Json.arr singles.toArray), ("multi", Json.arr multis.toArray)]
      | .error _ => jErr "unpickle"
    | _, _ => jErr "bad-args"
  | _, _, _ => jErr "bad-op"

def main : IO Unit := run handle
