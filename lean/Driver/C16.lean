import NiftyVerif.Core.Proto
import NiftyVerif.Model.RVec
import NiftyVerif.Model.Descent
import NiftyVerif.Model.LineSearch
import NiftyVerif.Model.Lbfgs
open Lean NiftyVerif NiftyVerif.Proto

/-!
  C16 model driver. Ops (one JSON object per line):
  * `{"op":"ls", c1,c2,max_step_size,longest|null,max_iter,max_zoom,preferred|null,old_phi|null,inv_norm,phi0,dphi0,
      trace:[[α, φ|"nan"|"fpe", φ'|null],...]}`
      -> `{"ret":{"success":b,"alpha":"p/q"}}` | `{"raised":kind}` | `{"reject":reason}`
  * `{"op":"descent", start:status, e0:[value,gradzero], searches:[[value,gradzero,success],...], checks:[status,...]}`
      -> `{"status":n,"value":..,"accepted":[..],"resets":n,"fprevs":[..],"nsearch":n,"nchecks":n}` | `{"error":"exhausted"}`
  * `{"op":"lbfgs", n, maxhist, points:[{"x":[..],"g":[..],"reset":b},...]}`
      -> `{"l":[[..],..],"vl":[[..],..]}`  directions of both variants after every point
-/

namespace C16Driver

/-! ### line search -/

def consts : LineSearch.Consts Rat :=
  { one := 1, half := 1/2, c099 := 99/100, c202 := 101/50, quadDelta := 1/10, cubicDelta := 1/5,
    huge := (10 : Rat) ^ 100, tol := 1 / 1000000000, eps := 1 / (2 : Rat) ^ 42 }

def optRat? (j : Json) (k : String) : Option (Option Rat) :=
  match field? j k with
  | none => some none
  | some Json.null => some none
  | some v => (getRat? v).map some

def ev? (j : Json) : Option (LineSearch.Ev Rat) := do
  let a ← getArr? j
  match a with
  | [ja, jf, jd] =>
    let α ← getRat? ja
    let φ ← (match jf with
      | Json.str "nan" => some LineSearch.Val.nan
      | Json.str "fpe" => some LineSearch.Val.fpe
      | v => (getRat? v).map LineSearch.Val.num)
    let dφ ← (match jd with
      | Json.null => some none
      | v => (getRat? v).map some)
    some ⟨α, φ, dφ⟩
  | _ => none

def handleLS (j : Json) : Json :=
  let p? : Option (LineSearch.Params Rat × List (LineSearch.Ev Rat)) := do
    let c1 ← fRat? j "c1"
    let c2 ← fRat? j "c2"
    let mss ← fRat? j "max_step_size"
    let longest ← optRat? j "longest"
    let maxIter ← fNat? j "max_iter"
    let maxZoom ← fNat? j "max_zoom"
    let preferred ← optRat? j "preferred"
    let oldPhi ← optRat? j "old_phi"
    let invNorm ← fRat? j "inv_norm"
    let phi0 ← fRat? j "phi0"
    let dphi0 ← fRat? j "dphi0"
    let tr ← (field? j "trace").bind (listOf? ev?)
    some (⟨c1, c2, mss, longest, maxIter, maxZoom, preferred, oldPhi, invNorm, phi0, dphi0⟩, tr)
  match p? with
  | none => jErr "bad-args"
  | some (p, tr) =>
    match LineSearch.runLS consts p tr with
    | .ok (.ret s a) => jObj [("ret", jObj [("success", Json.bool s), ("alpha", jRat a)])]
    | .ok (.raised k) => jObj [("raised", Json.str k)]
    | .error e => jObj [("reject", Json.str e)]

/-! ### descent acceptance loop on scripted oracles -/

structure DE where
  v : Rat
  gz : Bool

structure DS where
  searches : List (Rat × Bool × Bool)
  checks : List Descent.Status
  resets : Nat := 0
  fprevs : List (Option Rat) := []
  nsearch : Nat := 0
  nchecks : Nat := 0
  exhausted : Bool := false

def dOracles (startStatus : Descent.Status) : Descent.Oracles Rat DE DS :=
  { value := fun e => e.v
    gradZero := fun e => e.gz
    start := fun s _ => (s, startStatus)
    check := fun s _ =>
      match s.checks with
      | [] => ({ s with exhausted := true }, .error)
      | c :: r => ({ s with checks := r, nchecks := s.nchecks + 1 }, c)
    search := fun s e fp =>
      match s.searches with
      | [] => ({ s with exhausted := true }, e, true)
      | (v, gz, ok) :: r => ({ s with searches := r, nsearch := s.nsearch + 1, fprevs := s.fprevs ++ [fp] }, ⟨v, gz⟩, ok)
    reset := fun s => { s with resets := s.resets + 1 } }

def status? (j : Json) : Option Descent.Status := (getNat? j).bind Descent.Status.ofNat?

def handleDescent (j : Json) : Json :=
  let a? : Option (Descent.Status × DE × List (Rat × Bool × Bool) × List Descent.Status) := do
    let st ← (field? j "start").bind status?
    let e0 ← (field? j "e0").bind getArr?
    let e0 ← (match e0 with
      | [v, g] => do some (⟨← getRat? v, ← getBool? g⟩ : DE)
      | _ => none)
    let ss ← (field? j "searches").bind (listOf? fun x => do
      match ← getArr? x with
      | [v, g, s] => some (← getRat? v, ← getBool? g, ← getBool? s)
      | _ => none)
    let cs ← (field? j "checks").bind (listOf? status?)
    some (st, e0, ss, cs)
  match a? with
  | none => jErr "bad-args"
  | some (st, e0, ss, cs) =>
    match Descent.minimize (dOracles st) (ss.length + 2) { searches := ss, checks := cs } e0 with
    | none => jErr "exhausted"
    | some r =>
      if r.state.exhausted then jErr "exhausted" else
      jObj [("status", jNat r.status.toNat), ("value", jRat r.energy.v),
            ("accepted", jRats (r.accepted.map (·.v))), ("resets", jNat r.state.resets),
            ("fprevs", jList (fun o => match o with | none => Json.null | some x => jRat x) r.state.fprevs),
            ("nsearch", jNat r.state.nsearch), ("nchecks", jNat r.state.nchecks)]

/-! ### L-BFGS twins -/

def pt? (n : Nat) (j : Json) : Option (Lbfgs.Point (RVec n)) := do
  let x ← (fRatList? j "x").bind (RVec.ofList? n)
  let g ← (fRatList? j "g").bind (RVec.ofList? n)
  let r := (fBool? j "reset").getD false
  some ⟨x, g, r⟩

def freshL (n : Nat) : Lbfgs.LState (RVec n) := ⟨0, fun _ => 0, fun _ => 0, 0, 0⟩

def handleLbfgs (j : Json) : Json :=
  match fNat? j "n", fNat? j "maxhist" with
  | some n, some m =>
    match (field? j "points").bind (listOf? (pt? n)) with
    | none => jErr "bad-args"
    | some pts =>
      if m = 0 then jErr "ZeroDivisionError" else
      let dl := Lbfgs.runL (K := Rat) RVec.dot m (fun _ => 0) (fun _ => 0) (fun _ => 0) pts (freshL n)
      let dv := Lbfgs.runVL (K := Rat) RVec.dot (fun g => RVec.dot g g) m (fun _ => 0) (fun _ => 0) (fun _ => 0)
        (fun _ _ => 0) pts none
      jObj [("l", jList jRats (dl.map (·.toList))), ("vl", jList jRats (dv.map (·.toList)))]
  | _, _ => jErr "bad-args"

end C16Driver

def handle (j : Json) : Json :=
  match fStr? j "op" with
  | some "ls" => C16Driver.handleLS j
  | some "descent" => C16Driver.handleDescent j
  | some "lbfgs" => C16Driver.handleLbfgs j
  | _ => jErr "bad-op"

def main : IO Unit := run handle
