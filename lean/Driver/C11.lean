import NiftyVerif.Core.Proto
import NiftyVerif.Model.Likelihood
open Lean NiftyVerif.Proto NiftyVerif NiftyVerif.Likelihood

/-!
  C11 line-protocol driver (comparison class T: the model is evaluated in Lean `Float`).
  in : {"op":"eval","x":[..],"e":node}     numbers are exact dyadic rationals "p/q" (the implementation's float64)
  out: {"n":..,"val":b,"grad":[b..],"met":[[b..]..],"t":..,"tval":[b..],"tjac":[[b..]..],"hasT":bool}
       every float as the integer of its IEEE-754 bit pattern (exact transport)
  node: {"k":"leaf","l":leaf} | {"k":"lin","rows":r,"A":[[..]],"e":node} | {"k":"ptw","fs":[pf..],"e":node}
      | {"k":"scale","c":..,"e":node} | {"k":"add","a":node,"b":node} | {"k":"ham","e":node}
  leaf: {"k":"gaussNone","d":[..]} {"k":"gaussDiag","w":[..],"d":[..]} {"k":"gaussSand","A":[[..]],"D":[..],"d":[..]}
        {"k":"poisson","d"} {"k":"bernoulli","d"} {"k":"categorical","d"} {"k":"student","theta":[..]}
        {"k":"invGamma","alpha":[..],"beta":[..]} {"k":"varcov","n":n,"cplx":b,"full":b} {"k":"sgamma","re":[..],"im":[..],"cplx":b}
  pf:   {"f":"id"} {"f":"scal","c":..} {"f":"exp"} {"f":"sigmoid"} {"f":"sqr"} {"f":"expscal","c":..}
  also: {"op":"scalar","f":name,"args":[..]} -> {"v":b}   (single scalar formulas, used for the grid tie)
-/

def ratToFloat (r : Rat) : Float := Float.ofInt r.num / Float.ofNat r.den
def getF? (j : Json) : Option Float := (getRat? j).map ratToFloat
def fF? (j : Json) (k : String) : Option Float := (field? j k).bind getF?
def fVec? (j : Json) (k : String) : Option (List Float) := (field? j k).bind (listOf? getF?)
def fMat? (j : Json) (k : String) : Option (List (List Float)) := (field? j k).bind (listOf? (listOf? getF?))
def jF (x : Float) : Json := jNat x.toBits.toNat
def jVec (v : List Float) : Json := jList jF v
def jMat (m : List (List Float)) : Json := jList jVec m

def parsePF (j : Json) : Option (PF Float) :=
  match fStr? j "f" with
  | some "id" => some .id
  | some "scal" => (fF? j "c").map .scal
  | some "exp" => some .exp
  | some "sigmoid" => some .sigmoid
  | some "sqr" => some .sqr
  | some "expscal" => (fF? j "c").map .expscal
  | _ => none

def parseLeaf (j : Json) : Option (Leaf Float) :=
  match fStr? j "k" with
  | some "gaussNone" => (fVec? j "d").map .gaussNone
  | some "gaussDiag" => do some (.gaussDiag (← fVec? j "w") (← fVec? j "d"))
  | some "gaussSand" => do some (.gaussSand (← fMat? j "A") (← fVec? j "D") (← fVec? j "d"))
  | some "poisson" => (fVec? j "d").map .poisson
  | some "bernoulli" => (fVec? j "d").map .bernoulli
  | some "categorical" => (fVec? j "d").map .categorical
  | some "student" => (fVec? j "theta").map .student
  | some "invGamma" => do some (.invGamma (← fVec? j "alpha") (← fVec? j "beta"))
  | some "varcov" => do some (.varcov (← fNat? j "n") (← fBool? j "cplx") (← fBool? j "full"))
  | some "sgamma" => do some (.sgamma (← fVec? j "re") (← fVec? j "im") (← fBool? j "cplx"))
  | _ => none

partial def parseNode (j : Json) : Option (Node Float) :=
  match fStr? j "k" with
  | some "leaf" => do some (.leaf (← parseLeaf (← field? j "l")))
  | some "lin" => do some (.lin (← fNat? j "rows") (← fMat? j "A") (← parseNode (← field? j "e")))
  | some "ptw" => do
      let fs ← (field? j "fs").bind (listOf? parsePF)
      some (.ptw fs (← parseNode (← field? j "e")))
  | some "scale" => do some (.scale (← fF? j "c") (← parseNode (← field? j "e")))
  | some "add" => do some (.add (← parseNode (← field? j "a")) (← parseNode (← field? j "b")))
  | some "ham" => do some (.ham (← parseNode (← field? j "e")))
  | _ => none

def outJson (o : Out Float) : Json :=
  jObj [("n", jNat o.n), ("val", jF o.val), ("grad", jVec o.grad), ("met", jMat o.met),
        ("t", jNat o.t), ("tval", jVec o.tval), ("tjac", jMat o.tjac), ("hasT", Json.bool o.hasT)]

def scalar (f : String) (a : List Float) : Option Float :=
  match f, a with
  | "poissonE", [x, d] => some (poissonE x d)
  | "poissonGrad", [x, d] => some (poissonGrad x d)
  | "poissonMet", [x] => some (poissonMet x)
  | "bernoulliE", [x, d] => some (bernoulliE x d)
  | "bernoulliGrad", [x, d] => some (bernoulliGrad x d)
  | "bernoulliMet", [x] => some (bernoulliMet x)
  | "bernoulliT", [x] => some (bernoulliT x)
  | "studentE", [θ, x] => some (studentE θ x)
  | "studentGrad", [θ, x] => some (studentGrad θ x)
  | "studentMet", [θ] => some (studentMet θ)
  | "invGammaE", [α, β, x] => some (invGammaE α β x)
  | "invGammaGrad", [α, β, x] => some (invGammaGrad α β x)
  | "invGammaMet", [α, x] => some (invGammaMet α x)
  | _, _ => none

def handle (j : Json) : Json :=
  match fStr? j "op" with
  | some "eval" =>
    match fVec? j "x", (field? j "e").bind parseNode with
    | some x, some e => outJson (e.eval x)
    | _, _ => jErr "bad-args"
  | some "scalar" =>
    match fStr? j "f", fVec? j "args" with
    | some f, some a => match scalar f a with
      | some v => jObj [("v", jF v)]
      | none => jErr "bad-scalar"
    | _, _ => jErr "bad-args"
  | _ => jErr "bad-op"

def main : IO Unit := run handle
