import NiftyVerif.Core.Proto
import NiftyVerif.Model.Field
open Lean NiftyVerif.Proto NiftyVerif.FieldM

/-!
 Line protocol for C06.  One case per line:
 {"fields":[{"dom":n,"subs":[{"shape":[..],"dv":"n"|"s"|"v","v":"p/q"|[..],"tv":"p/q"|null}],"dt":0..3,"re":[..],"im":[..]}..],
  "mfields":[{"dom":n,"leaves":[["key",fieldIndex]..]}..],
  "ops":[{"op":..., ...}..]}            ->   {"res":[ result .. ]}
 result: {"error":Kind} | {"k":"f","shape":[[..]..],"dt":d,"re":[..],"im":[..],"sq":bool}
       | {"k":"s","dt":d,"re":"p/q","im":"p/q","sq":bool} | {"k":"none"} | {"k":"irr"} | {"k":"same"}
       | {"k":"mf","leaves":[["key",result]..]}
 "sq": true means the listed numbers are the SQUARES of the answer (|z|, norms, std are not rational in general).
-/

abbrev C := CRat

def crat (re im : Rat) : C := ⟨re, im⟩

/-- exact rational square root, if there is one -/
def ratSqrt? (r : Rat) : Option Rat :=
  if r < 0 then none else
  let n := r.num.toNat
  let d := r.den
  let sn := Nat.sqrt n
  let sd := Nat.sqrt d
  if sn * sn == n && sd * sd == d then some (mkRat sn sd) else none

def parseSub (j : Json) : Option (SubDom C) := do
  let shape ← fNatList? j "shape"
  let dv ← fStr? j "dv"
  let tv : Option C := (fRat? j "tv").map CRat.ofRat
  match dv with
  | "n" => some ⟨shape, .none, tv⟩
  | "s" => do
    let v ← fRat? j "v"
    some ⟨shape, .scalar (CRat.ofRat v), tv⟩
  | "v" => do
    let v ← fRatList? j "v"
    some ⟨shape, .vector (v.map CRat.ofRat).toArray, tv⟩
  | _ => none

def parseFld (j : Json) : Option (Fld C) := do
  let dom ← fNat? j "dom"
  let subsJ ← (field? j "subs").bind getArr?
  let subs ← subsJ.mapM parseSub
  let dt ← fNat? j "dt"
  let re ← fRatList? j "re"
  let im ← fRatList? j "im"
  let arr : Array C := (List.zipWith crat re im).toArray
  let sizes := subs.map SubDom.size
  if arr.size != prodNat sizes then none else
  some { dom := dom, subs := subs, dt := dt, val := fun idx => arr.getD (ravel sizes idx) 0 }

def parseSpacesJ (j : Json) (k : String) : Option Spaces :=
  match field? j k with
  | none => some .none
  | some Json.null => some .none
  | some (Json.arr a) => (a.toList.mapM getInt?).map Spaces.list
  | some x => (getInt? x).map Spaces.scalar

inductive Res where
  | err (e : String)
  | fld (f : Fld C) (sq : Bool)
  | sc (dt : Nat) (v : C) (sq : Bool)
  | none
  | irr
  | same
  | mf (l : List (String × Res))

def jFld (f : Fld C) (sq : Bool) : Json :=
  let vals := (allIdx f.sizes).map f.val
  jObj [("k", Json.str "f"), ("shape", jList jNats (f.subs.map (·.shape))), ("dt", jNat f.dt),
        ("re", jRats (vals.map (·.re))), ("im", jRats (vals.map (·.im))), ("sq", Json.bool sq)]

partial def Res.toJson : Res → Json
  | .err e => jErr e
  | .fld f sq => jFld f sq
  | .sc dt v sq => jObj [("k", Json.str "s"), ("dt", jNat dt), ("re", jRat v.re), ("im", jRat v.im), ("sq", Json.bool sq)]
  | .none => jObj [("k", Json.str "none")]
  | .irr => jObj [("k", Json.str "irr")]
  | .same => jObj [("k", Json.str "same")]
  | .mf l => jObj [("k", Json.str "mf"), ("leaves", jList (fun kv => Json.arr #[Json.str kv.1, kv.2.toJson]) l)]

def ofExF (r : Except String (Fld C)) : Res := match r with | .ok f => .fld f false | .error e => .err e

def b2c (b : Bool) : C := if b then 1 else 0
def isTrue (z : C) : Bool := z != 0

/-- |z| when it is rational -/
def absExact? (z : C) : Option Rat := ratSqrt? z.normSq

def binOfName (name : String) : Option BinOp :=
  match name with
  | "add" => some .add | "sub" => some .sub | "mul" => some .mul | "truediv" => some .truediv
  | "floordiv" => some .floordiv | "pow" => some .pow | "lt" => some .lt | "le" => some .le
  | "gt" => some .gt | "ge" => some .ge | "eq" => some .eq | "ne" => some .ne
  | _ => none

/-- Field._binary_op with a Field operand: Model.fieldBin on exact complex rationals -/
def fieldBinN (name : String) (rev : Bool) (f g : Fld C) : Except String (Fld C) :=
  match binOfName name with
  | none => .error "bad-op"
  | some o => fieldBin CRat.elemOps o rev f g

def fieldBinScalarN (name : String) (rev : Bool) (f : Fld C) (c : C) (cdt : DT) : Except String (Fld C) :=
  match binOfName name with
  | none => .error "bad-op"
  | some o => fieldBinScalar CRat.elemOps o rev f c cdt

def unOfName (name : String) : Option UnOp :=
  match name with
  | "neg" => some .neg | "pos" => some .pos | "conjugate" => some .conjugate | "real" => some .real
  | "imag" => some .imag | _ => none

def fieldUnN (name : String) (f : Fld C) : Res :=
  match name with
  | "abs" =>
    let vals := (allIdx f.sizes).map f.val
    if vals.all (fun z => (absExact? z).isSome) then
      .fld (fieldAbs (fun z => CRat.ofRat ((absExact? z).getD 0)) f) false
    else .fld (fieldAbs CRat.nsq f) true
  | _ =>
    match unOfName name with
    | none => .err "bad-op"
    | some o =>
      if unSame o f.dt then .same else
      match fieldUn CRat.elemOps o f with
      | .ok r => .fld r false
      | .error e => .err e

def absLike (dt : Nat) (sqv : Rat) : Res :=
  match ratSqrt? sqv with
  | some r => .sc dt (CRat.ofRat r) false
  | none => .sc dt (CRat.ofRat sqv) true

def ratMax (a b : C) : C := if a.re < b.re then b else a

/-- `|z|` if rational for every entry, used for norm(1) -/
def abC (z : C) : C := CRat.ofRat ((absExact? z).getD 0)

def allAbsExact (f : Fld C) : Bool := ((allIdx f.sizes).map f.val).all fun z => (absExact? z).isSome

def fieldNorm (f : Fld C) (ord : String) : Res :=
  match ord with
  | "1" => if allAbsExact f then .sc DT.float (norm1 abC f) false else .irr
  | "2" => absLike DT.float (norm2Sq CRat.nsq f).re
  | "inf" => absLike DT.float (normInf ratMax CRat.nsq f).re
  | _ => .err "bad-op"

/-- result type of ducc0.misc.vdot: a Python float when the imaginary part vanishes, else complex -/
def duccDt (v : C) : DT := if v.im == 0 then DT.float else DT.complex


def sqrtFld (r : Except String (Fld C)) : Res :=
  match r with
  | .error e => .err e
  | .ok f => .fld f true

/-- calls whose `spaces` tuple parse_spaces lets through although it has negative / too large entries -/
def runDirty (flds : Array (Fld C)) (j : Json) (op : String) (f : Fld C) (li : List Int) : Option Res :=
  match op with
  | "weight" => do some (ofExF (dirtyWeight f (← fInt? j "power") li))
  | "sum" => some (ofExF (dirtySum f li))
  | "prod" => some (ofExF (dirtyContract f li (max f.dt DT.int) (sProd f)))
  | "all" => some (ofExF (dirtyContract f li DT.bool (b2c (sAll f))))
  | "any" => some (ofExF (dirtyContract f li DT.bool (b2c (sAny f))))
  | "integrate" => some (ofExF (dirtyIntegrate f li))
  | "mean" => some (ofExF (dirtyMean f li))
  | "var" => some (ofExF (dirtyVar CRat.nsq f li))
  | "std" => some (sqrtFld (dirtyVar CRat.nsq f li))
  | "vdot" => do
    let g ← flds[(← fNat? j "g")]?
    some (ofExF ((dirtyVdot CRat.conj f g li).map fun r =>
      if li.length == f.subs.length then { r with dt := duccDt (r.val []) } else r))
  | _ => none

def runFieldOp (flds : Array (Fld C)) (j : Json) : Option Res := do
  let op ← fStr? j "op"
  let fi ← fNat? j "f"
  let f ← flds[fi]?
  let dirty : Option (List Int) :=
    if ["weight", "sum", "prod", "all", "any", "integrate", "mean", "var", "std", "vdot"].contains op
    then (parseSpacesJ j "spaces").bind (fun sp => dirtySpaces sp f.subs.length) else none
  if let some li := dirty then runDirty flds j op f li else
  match op with
  | "weight" => do
    let p ← fInt? j "power"
    let sp ← parseSpacesJ j "spaces"
    some (ofExF (weight f p sp))
  | "scalar_weight" => do
    let sp ← parseSpacesJ j "spaces"
    some (match scalarWeight f.subs sp with | .error e => .err e | .ok none => .none | .ok (some v) => .sc DT.float v false)
  | "total_volume" => do
    let sp ← parseSpacesJ j "spaces"
    some (match totalVolume f.subs sp with | .error e => .err e | .ok v => .sc DT.float v false)
  | "sum" => do some (ofExF (fsum f (← parseSpacesJ j "spaces")))
  | "prod" => do some (ofExF (fprod f (← parseSpacesJ j "spaces")))
  | "all" => do some (ofExF (fall f (← parseSpacesJ j "spaces")))
  | "any" => do some (ofExF (fany f (← parseSpacesJ j "spaces")))
  | "integrate" => do some (ofExF (integrate f (← parseSpacesJ j "spaces")))
  | "mean" => do some (ofExF (mean f (← parseSpacesJ j "spaces")))
  | "var" => do some (ofExF (var CRat.nsq f (← parseSpacesJ j "spaces")))
  | "std" => do some (sqrtFld (var CRat.nsq f (← parseSpacesJ j "spaces")))
  | "vdot" => do
    let g ← flds[(← fNat? j "g")]?
    -- ducc0.misc.vdot returns a Python float whenever the imaginary part of the result is zero (value dependent)
    some (ofExF ((vdot CRat.conj f g (← parseSpacesJ j "spaces")).map fun r =>
      if r.subs.isEmpty && f.subs.length == (match parseSpaces ((parseSpacesJ j "spaces").getD .none) f.subs.length with | .ok l => l.length | _ => 0)
      then { r with dt := duccDt (r.val []) } else r))
  | "s_vdot" => do
    let g ← flds[(← fNat? j "g")]?
    some (match sVdot CRat.conj f g with | .error e => .err e | .ok v => .sc (duccDt v) v false)
  | "s_sum" => some (.sc (max f.dt DT.int) (sSum f) false)
  | "s_prod" => some (.sc (max f.dt DT.int) (sProd f) false)
  | "s_all" => some (.sc DT.bool (b2c (sAll f)) false)
  | "s_any" => some (.sc DT.bool (b2c (sAny f)) false)
  | "clip" => do
    let lo : Option C := (fRat? j "lo").map CRat.ofRat
    let hi : Option C := (fRat? j "hi").map CRat.ofRat
    some (.fld (fieldClip CRat.elemOps f lo hi ((fNat? j "ldt").getD 0) ((fNat? j "hdt").getD 0)) false)
  | "s_integrate" => some (match sIntegrate f with | .error e => .err e | .ok v => .sc (max f.dt DT.float) v false)
  | "s_mean" => some (match sMean f with | .error e => .err e | .ok v => .sc (max f.dt DT.float) v false)
  | "s_var" => some (match sVar CRat.nsq f with | .error e => .err e | .ok v => .sc DT.float v false)
  | "s_std" => some (match sVar CRat.nsq f with | .error e => .err e | .ok v => .sc DT.float v true)
  | "norm" => do some (fieldNorm f (← fStr? j "ord"))
  | "un" => do some (fieldUnN (← fStr? j "name") f)
  | "bin" => do
    let g ← flds[(← fNat? j "g")]?
    some (ofExF (fieldBinN (← fStr? j "name") ((fBool? j "rev").getD false) f g))
  | "bins" => do
    let c := crat (← fRat? j "cre") (← fRat? j "cim")
    some (ofExF (fieldBinScalarN (← fStr? j "name") ((fBool? j "rev").getD false) f c (← fNat? j "cdt")))
  | "unite" => do
    let g ← flds[(← fNat? j "g")]?
    some (ofExF (funite CRat.elemOps f g))
  | "flexible_addsub" => do
    let g ← flds[(← fNat? j "g")]?
    some (ofExF (fflex CRat.elemOps f g ((fBool? j "neg").getD false)))
  | "scale" => do
    let c := crat (← fRat? j "cre") (← fRat? j "cim")
    if c == 1 then some .same else
    some (ofExF (fieldBinScalarN "mul" true f c (← fNat? j "cdt")))
  | _ => none

def resOfMF (r : Except String (MFld C)) : Res :=
  match r with
  | .error e => .err e
  | .ok m => .mf (m.leaves.map fun kv => (kv.1, .fld kv.2 false))

def mapLeavesRes (m : MFld C) (g : Fld C → Res) : Res :=
  -- the first failing leaf aborts the whole operation, as the generator expression in `_transform` does
  let rs := m.leaves.map fun kv => (kv.1, match g kv.2 with | .same => .fld kv.2 false | r => r)
  match rs.find? (fun kv => match kv.2 with | .err _ => true | _ => false) with
  | some (_, e) => e
  | none => .mf rs

def runMFieldOp (mfs : Array (MFld C)) (j : Json) : Option Res := do
  let op ← fStr? j "op"
  let a ← mfs[(← fNat? j "a")]?
  match op with
  | "mbin" => do
    let b ← mfs[(← fNat? j "b")]?
    let name ← fStr? j "name"
    let rev := (fBool? j "rev").getD false
    some (resOfMF (mbinop (fieldBinN name rev) a b))
  | "mbins" => do
    let c := crat (← fRat? j "cre") (← fRat? j "cim")
    let name ← fStr? j "name"
    let rev := (fBool? j "rev").getD false
    let cdt ← fNat? j "cdt"
    some (mapLeavesRes a fun f => ofExF (fieldBinScalarN name rev f c cdt))
  | "mun" => do
    let name ← fStr? j "name"
    some (mapLeavesRes a (fieldUnN name))
  | "ms_vdot" => do
    let b ← mfs[(← fNat? j "b")]?
    let dt := (List.zip a.leaves b.leaves).foldl
      (fun d kv => max d (match sVdot CRat.conj kv.1.2 kv.2.2 with | .ok v => duccDt v | _ => DT.float)) DT.float
    some (match msVdot CRat.conj a b with | .error e => .err e | .ok v => .sc dt v false)
  | "mvdot" => do
    let b ← mfs[(← fNat? j "b")]?
    let dt := (List.zip a.leaves b.leaves).foldl
      (fun d kv => max d (match sVdot CRat.conj kv.1.2 kv.2.2 with | .ok v => duccDt v | _ => DT.float)) DT.float
    some (match msVdot CRat.conj a b with
      | .error e => .err e
      | .ok v => .fld { dom := 0, subs := [], dt := dt, val := fun _ => v } false)
  | "ms_all" => some (.sc DT.bool (b2c (msAll a)) false)
  | "ms_any" => some (.sc DT.bool (b2c (msAny a)) false)
  | "msize" => some (.sc DT.int (CRat.ofRat ((msize a : Nat) : Int)) false)
  | "mclip" => do
    let lo : Option C := (fRat? j "lo").map CRat.ofRat
    let hi : Option C := (fRat? j "hi").map CRat.ofRat
    some (mapLeavesRes a fun f => .fld (fieldClip CRat.elemOps f lo hi ((fNat? j "ldt").getD 0) ((fNat? j "hdt").getD 0)) false)
  | "mflex" => do
    let b ← mfs[(← fNat? j "b")]?
    let neg := (fBool? j "neg").getD false
    some (resOfMF (mflex (fieldBinN "add" false) (fieldBinN "sub" false) (unop (fun x => -x) id) a b neg))
  | "ms_sum" => some (.sc (a.leaves.foldl (fun d kv => max d kv.2.dt) DT.int) (msSum a) false)
  | "mnorm" => do
    match (← fStr? j "ord") with
    | "1" => if a.leaves.all (fun kv => allAbsExact kv.2) then some (.sc DT.float (mnorm1 abC a) false) else some .irr
    | "2" => some (absLike DT.float (mnorm2Sq CRat.nsq a).re)
    | "inf" => some (absLike DT.float (mnormInf ratMax CRat.nsq a).re)
    | _ => none
  | _ => none

def handle (j : Json) : Json :=
  match (field? j "setorder").bind intList? with
  | some l => jObj [("order", jInts (pySetOrder l))]
  | none =>
  let r : Option Json := do
    let fj ← (field? j "fields").bind getArr?
    let flds ← fj.mapM parseFld
    let flds := flds.toArray
    let mj := ((field? j "mfields").bind getArr?).getD []
    let mfs ← mj.mapM fun m => do
      let dom ← fNat? m "dom"
      let lj ← (field? m "leaves").bind getArr?
      let leaves ← lj.mapM fun kv => do
        let a ← getArr? kv
        let k ← a[0]? >>= getStr?
        let i ← a[1]? >>= getNat?
        let f ← flds[i]?
        some (k, f)
      some ({ dom := dom, leaves := leaves } : MFld C)
    let mfs := mfs.toArray
    let ops ← (field? j "ops").bind getArr?
    let res := ops.map fun o =>
      match fStr? o "op" with
      | some name =>
        let r := if name.startsWith "m" && name != "mean" then runMFieldOp mfs o else runFieldOp flds o
        match r with
        | some r => r.toJson
        | none => jErr "bad-args"
      | none => jErr "bad-op"
    some (jObj [("res", Json.arr res.toArray)])
  r.getD (jErr "bad-case")

def main : IO Unit := run handle
