import NiftyVerif.Model.ExprIO
import NiftyVerif.Model.PartialEval
open Lean NiftyVerif NiftyVerif.Proto NiftyVerif.Expr NiftyVerif.Gen.Ptw NiftyVerif.ExprIO

/-!
  Line protocol for C04.
   {"op":"pe","in":[[key,size]..],"x":{key:[..]},"ck":[const keys],"wm":bool,"expr":tree}
     -> simplified operator `pe ck x expr` linearised at the variable part of x:
        {"dom", "keys" (keys it still reads), "val", "jac", "adj", "metric" (w.r.t. the variable keys of "in", in order),
         "consts": [[is_energy, [[key,[values]]..]]..]   constant leaves of the simplified tree (structure),
         "pval","pjac","padj","pmetric": `make_partial_var` linearisation of the ORIGINAL w.r.t. all keys of "in"}
-/

/-- constant leaves of a tree -/
def consts : Ex Float → List (Bool × Dom × MVal Float)
  | .const en d v => [(en, d, v)]
  | .var _ _ => []
  | .add a b => consts a ++ consts b
  | .sub a b => consts a ++ consts b
  | .mul a b => consts a ++ consts b
  | .vdot a b => consts a ++ consts b
  | .bil _ _ _ _ a b => consts a ++ consts b
  | .varcov _ a b => consts a ++ consts b
  | .chain f g => consts f ++ consts g
  | .scale _ a => consts a
  | .addc _ _ a => consts a
  | .mulc _ a => consts a
  | .ptw _ _ a => consts a
  | .lin _ _ _ a => consts a
  | .sum a => consts a
  | .getKey _ a => consts a
  | .putKey _ a => consts a
  | .sqnorm a => consts a
  | .quad _ a => consts a
  | .gauss _ _ a => consts a

def dedupKeys (d : Dom) : List String := (d.map (·.1)).eraseDups

def handle (j : Json) : Json :=
  match fStr? j "op" with
  | some "pe" =>
    match (field? j "in").bind getDom?, (field? j "expr").bind getEx?, fBool? j "wm",
          (field? j "ck").bind (listOf? getStr?) with
    | some din, some e, some wm, some ck =>
      match (field? j "x").bind (envOf din) with
      | none => jErr "bad-env"
      | some ρ =>
        if !check e din then jErr "ill-formed" else
        if !(ck.all (fun k => din.any (·.1 == k))) then jErr "ValueError" else
        let dvar := din.filter (fun kn => !ck.contains kn.1)
        let e' := pe ck ρ e
        let dout := sortDom e'.dom
        let l := lin e' ρ wm
        let met := match l.metric with
          | none => Json.null
          | some M => jMat ((units dvar).map (fun h => flat dvar (M h)))
        let lp := linPartial e ρ ck wm
        let pmet := match lp.metric with
          | none => Json.null
          | some M => jMat ((units din).map (fun h => flat din (M h)))
        jObj [("dom", jDom dout),
              ("keys", Json.arr ((dedupKeys e'.inDom).toArray.qsort (· < ·) |>.map Json.str)),
              ("val", jFloats (flat dout l.val)),
              ("jac", jMat ((units dvar).map (fun h => flat dout (l.jac h)))),
              ("adj", jMat ((units dout).map (fun y => flat dvar (l.adj y)))),
              ("metric", met),
              ("consts", Json.arr ((consts e').map (fun c =>
                  Json.arr #[Json.bool c.1, Json.arr ((sortDom c.2.1).map (fun kn =>
                    Json.arr #[Json.str kn.1, jFloats ((List.range kn.2).map (c.2.2 kn.1))])).toArray])).toArray),
              ("pval", jFloats (flat dout lp.val)),
              ("pjac", jMat ((units din).map (fun h => flat dout (lp.jac h)))),
              ("padj", jMat ((units dout).map (fun y => flat din (lp.adj y)))),
              ("pmetric", pmet)]
    | _, _, _, _ => jErr "bad-args"
  | _ => jErr "bad-op"

def main : IO Unit := run handle
