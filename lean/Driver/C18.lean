import NiftyVerif.Core.Proto
import NiftyVerif.Model.Vi
import NiftyVerif.Model.Kl
open Lean NiftyVerif.Proto NiftyVerif.LinAlg NiftyVerif.Vi

/-! Model driver for C18: exact MGVI sampler matrix, mirroring, point-estimate insertion. -/

def ratMat? (j : Json) : Option (List (List Rat)) := listOf? ratList? j
def fRatMat? (j : Json) (k : String) : Option (List (List Rat)) := (field? j k).bind ratMat?
def jMat (m : List (List Rat)) : Json := jList jRats m
def boolList? (j : Json) : Option (List Bool) := listOf? getBool? j

def handle (j : Json) : Json :=
  match fStr? j "op" with
  | some "sampler" =>
    -- J : m×n Jacobian, Ninv : m×m, S : m×m with S Sᵀ = Ninv (checked)
    match fRatMat? j "J", fRatMat? j "Ninv", fRatMat? j "S", fNat? j "n" with
    | some J, some Ninv, some S, some n =>
      let m := J.length
      if J.any (·.length != n) || Ninv.length != m || S.length != m then jErr "shape" else
      if matMul S (transpose S m) m != Ninv then jErr "bad-sqrt" else
      match samplerMatrix J Ninv S n, inverse (metricD J Ninv n) with
      | some A, some Dinv =>
        let AAt := matMul A (transpose A (m + n)) n
        jObj [("A", jMat A), ("cov", jMat Dinv), ("checked", Json.bool (AAt == Dinv))]
      | _, _ => jErr "singular"
    | _, _, _, _ => jErr "bad-args"
  | some "mirror" =>
    match fRatMat? j "samples", fRatList? j "pos" with
    | some rs, some pos =>
      let ms := mirror (fun r => r.map (fun x => -x)) rs
      let mean := sampleMean pos ms ((ms.length : Nat) : Rat)
      jObj [("mirrored", jMat ms), ("mean", jRats mean)]
    | _, _ => jErr "bad-args"
  | some "insert" =>
    match (field? j "mask").bind boolList?, fRatMat? j "x", fRatMat? j "fill" with
    | some mask, some x, some fill =>
      match NiftyVerif.Kl.insert mask x fill with
      | some y => jObj [("y", jMat y), ("removed", jMat (NiftyVerif.Kl.remove mask y)),
                        ("selected", jMat (NiftyVerif.Kl.select mask y))]
      | none => jErr "IndexError"
    | _, _, _ => jErr "bad-args"
  | _ => jErr "bad-op"

def main : IO Unit := run handle
