import NiftyVerif.Core.Proto
import NiftyVerif.Model.RVec
import NiftyVerif.Model.CgRe
open Lean NiftyVerif NiftyVerif.Proto NiftyVerif.CgRe

/-- optional field: absent or null -> none; present but unparsable -> error -/
def optField {α} (j : Json) (k : String) (f : Json → Option α) : Option (Option α) :=
  match field? j k with
  | none => some none
  | some Json.null => some none
  | some v => (f v).map some

def whyStr : Why → String
  | .startZero => "startZero" | .zeroCurv => "zeroCurv" | .negCurvLater => "negCurvLater"
  | .negCurvFirst => "negCurvFirst" | .gammaTiny => "gammaTiny" | .resnorm => "resnorm"
  | .energyIncreased => "energyIncreased" | .absdelta => "absdelta" | .maxiter => "maxiter"

def errStr : Err → String
  | .zeroCurvature => "zero curvature" | .negativeCurvature => "negative curvature"
  | .energyIncreased => "energy increased"

def parseCfg (j : Json) (n : Nat) : Option (Cfg Rat) := do
  let absdelta ← optField j "absdelta" getRat?
  let resnorm ← optField j "resnorm" getRat?
  let miniter ← optField j "miniter" getNat?
  let maxiter ← optField j "maxiter" getNat?
  let tol ← fRat? j "tol"
  let atol ← fRat? j "atol"
  let rz ← fBool? j "raise"
  let tiny ← fRat? j "tiny"
  let eps ← fRat? j "eps"
  let nreset ← fNat? j "nreset"
  let ord := (fStr? j "norm_ord").getD "2"
  if ord != "2" && ord != "1" && ord != "inf" then none else
  some { absdelta, resnorm, tol, atol, miniter, maxiter, raiseNPD := rz, normTwo := ord == "2", resnormSqrt := none,
         tiny, eps, nreset, size := n }

def runCg (j : Json) : Option Json := do
  let jl ← fRatList? j "j"
  let n := jl.length
  let jv ← RVec.ofList? n jl
  let rows ← (field? j "mat").bind (listOf? ratList?)
  let m ← RVec.matOfLists? n n rows
  let x0l ← optField j "x0" ratList?
  let x0 ← match x0l with
    | none => some none
    | some l => (RVec.ofList? n l).map some
  let sz := (fNat? j "size").getD n      -- `size(j)`: number of (possibly complex) entries
  let c ← parseCfg j sz
  if c.nreset == 0 then none else
  let mat := RVec.matVec m
  let nrm : RVec n → Rat := if (fStr? j "norm_ord").getD "2" == "inf" then RVec.normInf else RVec.norm1
  let e : Json := match cgEager c RVec.dot nrm mat jv x0 with
    | .ok r => jObj [("x", jRats r.x.toList), ("info", jInt r.info), ("nit", jNat r.nit),
                     ("why", Json.str (whyStr r.why)), ("gamma", jRat r.gamma), ("ediff", jRat r.ediff)]
    | .error k => jObj [("error", Json.str "ValueError"), ("kind", Json.str (errStr k))]
  let s := cgStatic c RVec.dot nrm mat jv x0
  let sj := jObj [("x", jRats s.pos.toList), ("info", jInt s.info), ("nit", jNat s.it)]
  some (jObj [("eager", e), ("static", sj)])

def handle (j : Json) : Json :=
  match fStr? j "op" with
  | some "cg" => (runCg j).getD (jErr "bad-args")
  | _ => jErr "bad-op"

def main : IO Unit := run handle
