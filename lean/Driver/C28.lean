import NiftyVerif.Model.CorrFieldDriver
/-! C28 line-protocol driver; the handler is compiled in NiftyVerif/Model/CorrFieldDriver.lean. -/
def main : IO Unit := NiftyVerif.Proto.run handleC28
