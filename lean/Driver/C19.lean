import NiftyVerif.Core.Proto
import NiftyVerif.Model.Kl
import NiftyVerif.Model.LinAlg
open Lean NiftyVerif.Proto NiftyVerif.Kl

/-! Model driver for C19: exact averaging of per-sample values / gradients, classic local items, insert/remove. -/

instance : HDiv Rat Rat Rat := ⟨fun a b => a / b⟩

structure RVec where
  v : List Rat
instance : Add RVec := ⟨fun a b => ⟨List.zipWith (· + ·) a.v b.v⟩⟩
instance : Sub RVec := ⟨fun a b => ⟨List.zipWith (· - ·) a.v b.v⟩⟩

def ratMat? (j : Json) : Option (List (List Rat)) := listOf? ratList? j
def fRatMat? (j : Json) (k : String) : Option (List (List Rat)) := (field? j k).bind ratMat?
def jMat (m : List (List Rat)) : Json := jList jRats m
def boolList? (j : Json) : Option (List Bool) := listOf? getBool? j

/-- average of vectors: fold from the first element (no zero vector of unknown length needed) -/
def avgVec (xs : List (List Rat)) (n : Rat) : List Rat :=
  match xs with
  | [] => []
  | x :: rest => (rest.foldl (fun acc y => List.zipWith (· + ·) acc y) x).map (fun a => a / n)

def handle (j : Json) : Json :=
  match fStr? j "op" with
  | some "average" =>
    match fRatList? j "values", fNat? j "n" with
    | some vs, some n => if n == 0 then jErr "ZeroDivisionError" else
        jObj [("avg", jRat (average (V := Rat) (K := Rat) vs ((n : Nat) : Rat)))]
    | _, _ => jErr "bad-args"
  | some "avgvec" =>
    match fRatMat? j "values", fNat? j "n" with
    | some vs, some n => if n == 0 then jErr "ZeroDivisionError" else jObj [("avg", jRats (avgVec vs ((n : Nat) : Rat)))]
    | _, _ => jErr "bad-args"
  | some "items" =>
    -- classic ResidualSampleList: mean, residuals, neg flags -> local items
    match fRatList? j "mean", fRatMat? j "residuals", (field? j "neg").bind boolList? with
    | some mean, some rs, some neg =>
      if rs.length != neg.length then jErr "ValueError" else
      jObj [("items", jMat ((List.zip rs neg).map (fun (r, b) => (localItem (⟨mean⟩ : RVec) ⟨r⟩ b).v)))]
    | _, _, _ => jErr "bad-args"
  | some "insert" =>
    match (field? j "mask").bind boolList?, fRatMat? j "x", fRatMat? j "fill" with
    | some mask, some x, some fill =>
      match insert mask x fill with
      | some y => jObj [("y", jMat y), ("removed", jMat (remove mask y)), ("selected", jMat (select mask y))]
      | none => jErr "IndexError"
    | _, _, _ => jErr "bad-args"
  | _ => jErr "bad-op"

def main : IO Unit := run handle
