import NiftyVerif.Core.Proto
import NiftyVerif.Model.Pytree
import NiftyVerif.Model.Smap
open Lean NiftyVerif.Proto NiftyVerif.Pytree NiftyVerif.Smap

/-! JSON: tree = {"leaf":[shape, vals]} | {"node":[tag, [children]]}; operand = {"scalar": n} | {"tree": T} -/

partial def parseTree (j : Json) : Option (PTree Int) :=
  match field? j "leaf", field? j "node" with
  | some l, _ => do
      let a ← getArr? l
      match a with
      | [sh, vs] => some (PTree.leaf (← natList? sh) (← intList? vs))
      | _ => none
  | _, some n => do
      let a ← getArr? n
      match a with
      | [tag, cs] => some (PTree.node (← getStr? tag) (← (← getArr? cs).mapM parseTree))
      | _ => none
  | _, _ => none

partial def treeJson : PTree Int → Json
  | .leaf sh vs => jObj [("leaf", Json.arr #[jNats sh, jInts vs])]
  | .node tag cs => jObj [("node", Json.arr #[Json.str tag, Json.arr (cs.map treeJson).toArray])]

/-- complex trees: leaves carry [re, im] pairs -/
partial def parseCTree (j : Json) : Option (PTree GInt) :=
  match field? j "leaf", field? j "node" with
  | some l, _ => do
      let a ← getArr? l
      match a with
      | [sh, vs] =>
        let ps ← (← getArr? vs).mapM fun p => do
          match ← getArr? p with
          | [r, i] => some (⟨← getInt? r, ← getInt? i⟩ : GInt)
          | _ => none
        some (PTree.leaf (← natList? sh) ps)
      | _ => none
  | _, some n => do
      let a ← getArr? n
      match a with
      | [tag, cs] => some (PTree.node (← getStr? tag) (← (← getArr? cs).mapM parseCTree))
      | _ => none
  | _, _ => none

def gJson (g : GInt) : Json := Json.arr #[jInt g.re, jInt g.im]

partial def ctreeJson : PTree GInt → Json
  | .leaf sh vs => jObj [("leaf", Json.arr #[jNats sh, jList gJson vs])]
  | .node tag cs => jObj [("node", Json.arr #[Json.str tag, Json.arr (cs.map ctreeJson).toArray])]

def parseCOperand (j : Json) : Option (Operand GInt) :=
  match field? j "scalar", field? j "tree" with
  | some s, _ => match getArr? s with
    | some [r, i] => match getInt? r, getInt? i with
      | some a, some b => some (Operand.scalar ⟨a, b⟩)
      | _, _ => none
    | _ => none
  | _, some t => (parseCTree t).map Operand.tree
  | _, _ => none

def cbinFun (name : String) : Option (GInt → GInt → GInt) :=
  match name with
  | "add" => some (· + ·) | "sub" => some (· - ·) | "mul" => some (· * ·)
  | _ => none

def cunFun (name : String) : Option (GInt → GInt) :=
  match name with
  | "neg" => some fun a => -a | "pos" => some id | "conj" => some GInt.conj
  | "real" => some fun a => ⟨a.re, 0⟩ | "imag" => some fun a => ⟨a.im, 0⟩
  | _ => none

def parseOperand (j : Json) : Option (Operand Int) :=
  match field? j "scalar", field? j "tree" with
  | some s, _ => (getInt? s).map Operand.scalar
  | _, some t => (parseTree t).map Operand.tree
  | _, _ => none

def b2i (b : Bool) : Int := if b then 1 else 0

/-- Python integer semantics of the operators in vector.py -/
def binFun (name : String) : Option (Int → Int → Int) :=
  match name with
  | "add" => some (· + ·) | "sub" => some (· - ·) | "mul" => some (· * ·)
  | "floordiv" => some Int.fdiv | "mod" => some Int.fmod
  | "pow" => some fun a b => a ^ b.toNat
  | "lt" => some fun a b => b2i (a < b) | "le" => some fun a b => b2i (a ≤ b)
  | "eq" => some fun a b => b2i (a == b) | "ne" => some fun a b => b2i (a != b)
  | "ge" => some fun a b => b2i (a ≥ b) | "gt" => some fun a b => b2i (a > b)
  | "lshift" => some fun a b => a * 2 ^ b.toNat
  | "rshift" => some fun a b => Int.fdiv a (2 ^ b.toNat)
  | "and" => some fun a b => b2i (a != 0 && b != 0) | "or" => some fun a b => b2i (a != 0 || b != 0)
  | "xor" => some fun a b => b2i ((a != 0) != (b != 0))   -- boolean leaves only
  | _ => none

def unFun (name : String) : Option (Int → Int) :=
  match name with
  | "neg" => some fun a => -a | "pos" => some id | "abs" => some fun a => (a.natAbs : Int)
  | "invert" => some fun a => -a - 1 | "conj" => some id | "real" => some id | "imag" => some fun _ => 0
  | _ => none

def resTree : Except OpErr (PTree Int) → Json
  | .ok t => jObj [("tree", treeJson t)]
  | .error _ => jErr "ValueError"

def optInt : Option Int → Json
  | some v => jInt v
  | none => jErr "ValueError"

/-! smap: arrays as shape + row-major values -/

def strides : List Nat → List Nat
  | [] => []
  | _ :: rest => rest.prod :: strides rest

def ravelIdx (shape idx : List Nat) : Nat := (List.zipWith (· * ·) (strides shape) idx).sum

def arrOf (shape : List Nat) (vals : List Int) : Arr Int :=
  { shape := shape, get := fun idx => vals.getD (ravelIdx shape idx) 0 }

def allIdx : List Nat → List (List Nat)
  | [] => [[]]
  | n :: rest => (List.range n).flatMap fun i => (allIdx rest).map (i :: ·)

def arrJson (a : Arr Int) : Json :=
  jObj [("shape", jNats a.shape), ("vals", jInts ((allIdx a.shape).map a.get))]

/-- output expressions of the generated functions -/
inductive Expr where
  | arg (j : Nat) | const (c : Int) | add (a b : Expr) | mul (a b : Expr) | sumall (a : Expr)
  deriving Inhabited

partial def parseExpr (j : Json) : Option Expr := do
  let a ← getArr? j
  match a with
  | [k, x] =>
    match ← getStr? k with
    | "arg" => some (.arg (← getNat? x))
    | "const" => some (.const (← getInt? x))
    | "sumall" => some (.sumall (← parseExpr x))
    | _ => none
  | [k, x, y] =>
    match ← getStr? k with
    | "add" => some (.add (← parseExpr x) (← parseExpr y))
    | "mul" => some (.mul (← parseExpr x) (← parseExpr y))
    | _ => none
  | _ => none

/-- broadcasting of a 0-d operand only (the generator keeps other shapes equal) -/
def zipArr (op : Int → Int → Int) (a b : Arr Int) : Arr Int :=
  if a.shape.isEmpty then { shape := b.shape, get := fun idx => op (a.get []) (b.get idx) }
  else if b.shape.isEmpty then { shape := a.shape, get := fun idx => op (a.get idx) (b.get []) }
  else { shape := a.shape, get := fun idx => op (a.get idx) (b.get idx) }

def evalExpr (args : List (Arr Int)) : Expr → Arr Int
  | .arg j => args.getD j default
  | .const c => { shape := [], get := fun _ => c }
  | .add a b => zipArr (· + ·) (evalExpr args a) (evalExpr args b)
  | .mul a b => zipArr (· * ·) (evalExpr args a) (evalExpr args b)
  | .sumall a => let v := evalExpr args a; { shape := [], get := fun _ => ((allIdx v.shape).map v.get).foldl (· + ·) 0 }

def optAxis (ndim : Nat) (j : Json) : Option (Option Nat) :=
  match j with
  | Json.null => some none
  | _ => (getInt? j).map fun i => some (normAxis ndim i)

def handle (j : Json) : Json :=
  match fStr? j "op" with
  | some "binop" =>
    match (fStr? j "f").bind binFun, (field? j "lhs").bind parseOperand, (field? j "rhs").bind parseOperand with
    | some f, some l, some r => resTree (binaryOp f l r)
    | _, _, _ => jErr "bad-args"
  | some "cbinop" =>
    match (fStr? j "f").bind cbinFun, (field? j "lhs").bind parseCOperand, (field? j "rhs").bind parseCOperand with
    | some f, some l, some r =>
      match binaryOp f l r with
      | .ok t => jObj [("tree", ctreeJson t)]
      | .error _ => jErr "ValueError"
    | _, _, _ => jErr "bad-args"
  | some "cunary" =>
    match (fStr? j "f").bind cunFun, (field? j "x").bind parseCTree with
    | some f, some t => jObj [("tree", ctreeJson (PTree.map f t))]
    | _, _ => jErr "bad-args"
  | some "cvdot" =>
    match (field? j "a").bind parseCTree, (field? j "b").bind parseCTree with
    | some a, some b =>
      jObj [("vdot", match vdotTree GInt.conj a b with | some v => gJson v | none => jErr "ValueError"),
            ("sum", match sumTree a with | some v => gJson v | none => jErr "ValueError"),
            ("norm2sq", jInt ((a.flatten.map fun z => z.re * z.re + z.im * z.im).foldl (· + ·) 0))]
    | _, _ => jErr "bad-args"
  | some "mean" =>
    -- forest of integer trees -> rational mean (exact)
    match (field? j "trees").bind getArr? with
    | some ts =>
      match ts.mapM parseTree with
      | some (t :: rest) =>
        let toR := PTree.map (fun (i : Int) => (i : Rat))
        match meanTrees (1 / ((rest.length + 1 : Nat) : Rat)) (toR t :: rest.map toR) with
        | some r => jObj [("flat", jRats r.flatten)]
        | none => jErr "ValueError"
      | _ => jErr "bad-args"
    | none => jErr "bad-args"
  | some "unary" =>
    match (fStr? j "f").bind unFun, (field? j "x").bind parseTree with
    | some f, some t => jObj [("tree", treeJson (PTree.map f t))]
    | _, _ => jErr "bad-args"
  | some "reduce" =>
    match (field? j "x").bind parseTree with
    | some t =>
      let abs := fun (a : Int) => (a.natAbs : Int)
      jObj [("size", jNat t.size), ("sum", optInt (sumTree t)), ("max", optInt (redTree max t)),
            ("min", optInt (redTree min t)), ("norm1", jInt (norm1 abs t)),
            ("normInf", jInt (normInf abs max 0 t)),
            ("norm2sq", jInt ((t.flatten.map fun x => x * x).foldl (· + ·) 0)),
            ("flat", jInts t.flatten), ("numNodes", jNat t.numNodes), ("numLeaves", jNat t.numLeaves)]
    | none => jErr "bad-args"
  | some "vdot" =>
    match (field? j "a").bind parseTree, (field? j "b").bind parseTree with
    | some a, some b => optInt (vdotTree id a b)
    | _, _ => jErr "bad-args"
  | some "where" =>
    let cond : Option (Operand Bool) := match field? j "c" with
      | some c => match field? c "scalar", field? c "tree" with
        | some s, _ => (getInt? s).map fun i => Operand.scalar (i != 0)
        | _, some t => (parseTree t).map fun tt => Operand.tree (PTree.map (fun i => i != 0) tt)
        | _, _ => none
      | none => none
    match cond, (field? j "x").bind parseOperand, (field? j "y").bind parseOperand with
    | some c, some x, some y => resTree (whereOp c x y)
    | _, _, _ => jErr "bad-args"
  | some "smap" =>
    match fStr? j "cfg", (field? j "args").bind getArr?, (field? j "outs").bind getArr?, fNat? j "len" with
    | some cfgs, some argsJ, some outsJ, some len =>
      let cfg := if cfgs == "asFound" then asFound else fixed
      let args? := argsJ.mapM fun a => do
        let sh ← fNatList? a "shape"
        let vs ← fIntList? a "vals"
        let ax ← (field? a "axis").bind (optAxis sh.length)
        some (arrOf sh vs, ax)
      let outs? := outsJ.mapM fun o => do
        let e ← (field? o "expr").bind parseExpr
        let nd ← fNat? o "ndim"            -- ndim of the stacked output
        let ax ← (field? o "axis").bind (optAxis nd)
        some (e, ax)
      match args?, outs? with
      | some args, some outs =>
        let xs := args.map (·.1)
        let inAxes := args.map (·.2)
        let outAxes := outs.map (·.2)
        let f := fun (as : List (Arr Int)) => outs.map fun o => evalExpr as o.1
        let rs := smap cfg f outs.length inAxes outAxes xs len
        let rv := vmapSpec f outs.length inAxes outAxes xs len
        jObj [("smap", if rs.length == outs.length then jList arrJson rs else jErr "IndexError"),
              ("vmap", jList arrJson rv)]
      | _, _ => jErr "bad-args"
    | _, _, _, _ => jErr "bad-args"
  | _ => jErr "bad-op"

def main : IO Unit := run handle
