import NiftyVerif.Core.Proto
import NiftyVerif.Gen.ShareRange
import NiftyVerif.Model.Distributed
open Lean NiftyVerif.Proto NiftyVerif.Gen NiftyVerif.Distributed

/-- ops:
  {"op":"shareRange","n":..,"p":..,"r":..} -> {"lo":..,"hi":..}; p = 0 is what Python rejects
  {"op":"localSamples","n":nSamples,"mirror":b,"p":p} -> per task: global indices, neg flags, seed index of the `y`
       actually used (draw := identity on seed indices), and `_compute_local_indices` from the local counts -/
def handle (j : Json) : Json :=
  match fStr? j "op" with
  | some "shareRange" =>
    match fNat? j "n", fNat? j "p", fNat? j "r" with
    | some n, some p, some r =>
      if p == 0 then jErr "ZeroDivisionError" else
      let (lo, hi) := shareRange n p r
      jObj [("lo", jNat lo), ("hi", jNat hi)]
    | _, _, _ => jErr "bad-args"
  | some "localSamples" =>
    match fNat? j "n", fBool? j "mirror", fNat? j "p" with
    | some n, some mirror, some p =>
      if p == 0 then jErr "ZeroDivisionError" else
      let ranks := List.range p
      let loc := fun r => localSamples (fun s => s) mirror n p r
      let counts := ranks.map (fun r => (loc r).length)
      jObj [("indices", jList (fun r => jNats (localIndices (nWork mirror n) p r)) ranks),
            ("neg", jList (fun r => Json.arr ((loc r).map (fun x => Json.bool x.2)).toArray) ranks),
            ("seed", jList (fun r => jNats ((loc r).map (·.1))) ranks),
            ("computed", jList (fun r => jNats (computeLocalIndices counts r)) ranks)]
    | _, _, _ => jErr "bad-args"
  | some "sync" =>
    -- {"op":"sync","modes":[0|1,..] (0 = MAP, 1 = sampled),"p":tasks,"rootkeeps":bool} -> do all sync checks pass?
    match fNatList? j "modes", fNat? j "p", fBool? j "rootkeeps" with
    | some modes, some p, some rk =>
      if p == 0 then jErr "bad-args" else
      let ms := modes.map (fun m => if m == 0 then Mode.map else Mode.sampled)
      let st : RankSt Nat Nat := ⟨⟨5, .fresh⟩, 0⟩
      let w : World Nat Nat := ⟨st, List.replicate (p - 1) st⟩
      let ok := if rk then checksPass bcastRootKeeps (· + 1) (· * 2) (· + 1) ms w
                else checksPass bcastCopy (· + 1) (· * 2) (· + 1) ms w
      jObj [("pass", Json.bool ok)]
    | _, _, _ => jErr "bad-args"
  | _ => jErr "bad-op"

def main : IO Unit := run handle
