import NiftyVerif.Core.Proto
import NiftyVerif.Gen.ShareRange
open Lean NiftyVerif.Proto NiftyVerif.Gen

/-- ops: {"op":"shareRange","n":..,"p":..,"r":..} -> {"lo":..,"hi":..}; p = 0 is what Python rejects -/
def handle (j : Json) : Json :=
  match fStr? j "op" with
  | some "shareRange" =>
    match fNat? j "n", fNat? j "p", fNat? j "r" with
    | some n, some p, some r =>
      if p == 0 then jErr "ZeroDivisionError" else
      let (lo, hi) := shareRange n p r
      jObj [("lo", jNat lo), ("hi", jNat hi)]
    | _, _, _ => jErr "bad-args"
  | _ => jErr "bad-op"

def main : IO Unit := run handle
