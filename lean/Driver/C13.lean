import NiftyVerif.Model.SamplingDriver
/-! C13 line-protocol driver; the handler (request format documented there) is compiled in
    NiftyVerif/Model/SamplingDriver.lean so that `lean --run` starts fast. -/
def main : IO Unit := NiftyVerif.Proto.run handleC13
