import NiftyVerif.Core.Proto
import NiftyVerif.Model.DriverCfg
open Lean NiftyVerif.Proto NiftyVerif.DriverCfg

/-!
 {"op":"accepts","version":"repaired"|"asFound", <Config fields, all optional except total/initialIndex>}
   -> {"error":"TypeError"|"ValueError"|"AssertionError"|"UnboundLocalError"}
    | {"iterations","nResult","arity","writesFiles","stackDelta","valid"}
-/

def b (j : Json) (k : String) (d : Bool) : Bool := (fBool? j k).getD d
def n (j : Json) (k : String) (d : Nat) : Nat := (fNat? j k).getD d

def config? (j : Json) : Option Config := do
  let total ← fNat? j "total"
  let ii ← fNat? j "initialIndex"
  pure { total := total, initialIndex := ii
         exportIsDict := b j "exportIsDict" true, exportHasPickle := b j "exportHasPickle" false
         initialIndexIsInt := b j "initialIndexIsInt" true, strategyValid := b j "strategyValid" true
         outDir := b j "outDir" false, resume := b j "resume" false
         transitionsArity := n j "transitionsArity" 1, inspectArity := n j "inspectArity" 1
         terminateArity := n j "terminateArity" 1, targetScalar := b j "targetScalar" true
         sanity := b j "sanity" true, typesOk := b j "typesOk" true
         ctrlNoneAt := ((field? j "ctrlNoneAt").bind (listOf? getBool?)).getD []
         nSamplesAt := (fNatList? j "nSamplesAt").getD []
         freshAt := ((field? j "freshAt").bind (listOf? getBool?)).getD []
         hasTransitions := b j "hasTransitions" false, hasInspect := b j "hasInspect" false
         hasTerminate := b j "hasTerminate" false, dryRun := b j "dryRun" false
         terminateAt := fNat? j "terminateAt", returnFinal := b j "returnFinal" false
         prevOutDir := b j "prevOutDir" false }

def errName : ErrKind → String
  | .typeError => "TypeError" | .valueError => "ValueError" | .assertionError => "AssertionError"
  | .unboundLocalError => "UnboundLocalError"

def handle (j : Json) : Json :=
  match fStr? j "op", fStr? j "version", config? j with
  | some "accepts", some ver, some c =>
    let v := if ver == "asFound" then Version.asFound else Version.repaired
    match accepts v c with
    | .error e => jObj [("error", Json.str (errName e)), ("valid", Json.bool (valid c))]
    | .ok s => jObj [("iterations", jNat s.iterations), ("nResult", jNat s.nResult), ("arity", jNat s.arity),
                     ("writesFiles", Json.bool s.writesFiles), ("stackDelta", jInt s.stackDelta),
                     ("seedsRepeat", jList Json.bool s.seedsRepeat), ("transitionCalls", jNats s.transitionCalls),
                     ("inspectCalls", jNats s.inspectCalls), ("terminateCalls", jNats s.terminateCalls),
                     ("valid", Json.bool (valid c))]
  | _, _, _ => jErr "bad-op"

def main : IO Unit := run handle
