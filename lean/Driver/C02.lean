import NiftyVerif.Model.LinOpsProto
/-! C02 model driver: see NiftyVerif/Model/LinOpsProto.lean for the protocol. -/
def main : IO Unit := NiftyVerif.Proto.run NiftyVerif.LinOpsProto.handle
