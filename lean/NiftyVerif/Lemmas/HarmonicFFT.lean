/-
  Lemmas/HarmonicFFT.lean — the model's fftn3/ifftn3/hartley3 in terms of `tr3`; F·F̄ = N, F·F = N·reflection.
-/
import NiftyVerif.Lemmas.HarmonicGrid

namespace NiftyVerif.Harmonic
open Finset

variable {K : Type} [CommRing K]

/-- forward / conjugate unnormalised three-axis DFT -/
def F3 (g : Grid K) (x : Tensor K) : Tensor K :=
  tr3 g.n1 g.n2 g.n3 (dftMat g.w1) (dftMat g.w2) (dftMat g.w3) x
def Fb3 (g : Grid K) (x : Tensor K) : Tensor K :=
  tr3 g.n1 g.n2 g.n3 (dftMat g.wb1) (dftMat g.wb2) (dftMat g.wb3) x

theorem fftn3_eq (g : Grid K) (x : Tensor K) : fftn3 g x = F3 g x := by
  unfold fftn3 F3 tr3; rw [ax3_eq, ax2_eq, ax1_eq]

theorem ifftn3_eq (g : Grid K) (x : Tensor K) : ifftn3 g x = fun i => g.nInv * Fb3 g x i := by
  unfold ifftn3 Fb3 tr3; rw [ax3_eq, ax2_eq, ax1_eq]

/-- index reflection j ↦ (n - j) mod n on the three axes -/
def negIdx (g : Grid K) (i : Idx) : Idx :=
  ⟨i.p, (g.n1 - i.j1) % g.n1, (g.n2 - i.j2) % g.n2, (g.n3 - i.j3) % g.n3, i.q⟩

theorem refl_iff (n k l : Nat) (hk : k < n) (hl : l < n) : n ∣ k + l ↔ l = (n - k) % n := by
  constructor
  · rintro ⟨m, hm⟩
    rcases Nat.eq_zero_or_pos k with h0 | hpos
    · subst h0
      have : l = 0 := by
        rcases Nat.eq_zero_or_pos m with hm0 | hmpos
        · subst hm0; omega
        · have : n * 1 ≤ n * m := Nat.mul_le_mul_left n hmpos
          omega
      subst this; simp
    · rw [Nat.mod_eq_of_lt (by omega)]
      rcases Nat.lt_or_ge m 1 with h | h
      · have : m = 0 := by omega
        subst this; omega
      · rcases Nat.lt_or_ge m 2 with h2 | h2
        · have : m = 1 := by omega
          subst this; omega
        · have : n * 2 ≤ n * m := Nat.mul_le_mul_left n h2
          omega
  · intro h
    rcases Nat.eq_zero_or_pos k with h0 | hpos
    · subst h0; simp at h; subst h; simp
    · rw [Nat.mod_eq_of_lt (by omega)] at h
      have : k + l = n := by omega
      rw [this]

theorem refl_lt (n : Nat) (hn : 0 < n) (k : Nat) : (n - k) % n < n := Nat.mod_lt _ hn

theorem prim_bar [IsDomain K] (w wb : K) (n : Nat) (h : IsPrimitiveRoot w n) (hb : w * wb = 1) :
    IsPrimitiveRoot wb n := by
  have key : ∀ m, wb ^ m = 1 ↔ w ^ m = 1 := by
    intro m
    have e : w ^ m * wb ^ m = 1 := by rw [← mul_pow, hb, one_pow]
    constructor
    · intro h1; rw [h1, mul_one] at e; exact e
    · intro h1; rw [h1, one_mul] at e; exact e
  rw [IsPrimitiveRoot.iff_def]
  exact ⟨(key n).mpr h.pow_eq_one, fun l hl => h.dvd_of_pow_eq_one l ((key l).mp hl)⟩

section domain
variable [IsDomain K]

theorem orth_id (w wb : K) (n : Nat) (h : IsPrimitiveRoot w n) (hb : w * wb = 1) (k l : Nat) (hk : k < n)
    (hl : l < n) : ∑ j ∈ range n, dftMat w k j * dftMat wb j l = if l = id k then (n : K) else 0 := by
  rw [dft_orth w wb n h hb k l hk hl]
  simp only [id, eq_comm]

theorem sq_refl (w : K) (n : Nat) (h : IsPrimitiveRoot w n) (k l : Nat) (hk : k < n) (hl : l < n) :
    ∑ j ∈ range n, dftMat w k j * dftMat w j l = if l = (n - k) % n then (n : K) else 0 := by
  rw [dft_sq w n h k l]
  simp only [refl_iff n k l hk hl]

omit [IsDomain K] in
theorem ncells_cast (g : Grid K) : (g.ncells : K) = (g.n3 : K) * ((g.n2 : K) * (g.n1 : K)) := by
  unfold Grid.ncells; push_cast; ring

theorem Fb3_F3 (g : Grid K) (hg : GridOK g) (x : Tensor K) (i : Idx) (hi : InBox g i) :
    Fb3 g (F3 g x) i = (g.ncells : K) * x i := by
  unfold Fb3 F3
  have b1 : g.wb1 * g.w1 = 1 := by rw [mul_comm]; exact hg.bar1
  have b2 : g.wb2 * g.w2 = 1 := by rw [mul_comm]; exact hg.bar2
  have b3 : g.wb3 * g.w3 = 1 := by rw [mul_comm]; exact hg.bar3
  rw [tr3_comp g.n1 g.n2 g.n3 _ _ _ _ _ _ (g.n1 : K) (g.n2 : K) (g.n3 : K) id id id
    (fun k hk => hk) (fun k hk => hk) (fun k hk => hk)
    (orth_id _ _ _ (prim_bar _ _ _ hg.prim1 hg.bar1) b1)
    (orth_id _ _ _ (prim_bar _ _ _ hg.prim2 hg.bar2) b2)
    (orth_id _ _ _ (prim_bar _ _ _ hg.prim3 hg.bar3) b3) x i hi.1 hi.2.1 hi.2.2]
  rw [ncells_cast]; simp only [id]; ring

theorem F3_Fb3 (g : Grid K) (hg : GridOK g) (x : Tensor K) (i : Idx) (hi : InBox g i) :
    F3 g (Fb3 g x) i = (g.ncells : K) * x i := by
  unfold Fb3 F3
  rw [tr3_comp g.n1 g.n2 g.n3 _ _ _ _ _ _ (g.n1 : K) (g.n2 : K) (g.n3 : K) id id id
    (fun k hk => hk) (fun k hk => hk) (fun k hk => hk)
    (orth_id _ _ _ hg.prim1 hg.bar1) (orth_id _ _ _ hg.prim2 hg.bar2) (orth_id _ _ _ hg.prim3 hg.bar3)
    x i hi.1 hi.2.1 hi.2.2]
  rw [ncells_cast]; simp only [id]; ring

theorem F3_F3 (g : Grid K) (hg : GridOK g) (x : Tensor K) (i : Idx) (hi : InBox g i) :
    F3 g (F3 g x) i = (g.ncells : K) * x (negIdx g i) := by
  unfold F3
  rw [tr3_comp g.n1 g.n2 g.n3 _ _ _ _ _ _ (g.n1 : K) (g.n2 : K) (g.n3 : K)
    (fun k => (g.n1 - k) % g.n1) (fun k => (g.n2 - k) % g.n2) (fun k => (g.n3 - k) % g.n3)
    (fun k _ => refl_lt _ hg.pos1 k) (fun k _ => refl_lt _ hg.pos2 k) (fun k _ => refl_lt _ hg.pos3 k)
    (sq_refl _ _ hg.prim1) (sq_refl _ _ hg.prim2) (sq_refl _ _ hg.prim3) x i hi.1 hi.2.1 hi.2.2]
  rw [ncells_cast]; unfold negIdx; ring

theorem Fb3_Fb3 (g : Grid K) (hg : GridOK g) (x : Tensor K) (i : Idx) (hi : InBox g i) :
    Fb3 g (Fb3 g x) i = (g.ncells : K) * x (negIdx g i) := by
  unfold Fb3
  rw [tr3_comp g.n1 g.n2 g.n3 _ _ _ _ _ _ (g.n1 : K) (g.n2 : K) (g.n3 : K)
    (fun k => (g.n1 - k) % g.n1) (fun k => (g.n2 - k) % g.n2) (fun k => (g.n3 - k) % g.n3)
    (fun k _ => refl_lt _ hg.pos1 k) (fun k _ => refl_lt _ hg.pos2 k) (fun k _ => refl_lt _ hg.pos3 k)
    (sq_refl _ _ (prim_bar _ _ _ hg.prim1 hg.bar1)) (sq_refl _ _ (prim_bar _ _ _ hg.prim2 hg.bar2))
    (sq_refl _ _ (prim_bar _ _ _ hg.prim3 hg.bar3)) x i hi.1 hi.2.1 hi.2.2]
  rw [ncells_cast]; unfold negIdx; ring

end domain

theorem F3_smul (g : Grid K) (c : K) (x : Tensor K) : F3 g (fun i => c * x i) = fun i => c * F3 g x i := by
  unfold F3; rw [tr3_smul]
theorem Fb3_smul (g : Grid K) (c : K) (x : Tensor K) : Fb3 g (fun i => c * x i) = fun i => c * Fb3 g x i := by
  unfold Fb3; rw [tr3_smul]
theorem F3_add (g : Grid K) (x y : Tensor K) : F3 g (fun i => x i + y i) = fun i => F3 g x i + F3 g y i := by
  unfold F3; rw [tr3_add]
theorem Fb3_add (g : Grid K) (x y : Tensor K) : Fb3 g (fun i => x i + y i) = fun i => Fb3 g x i + Fb3 g y i := by
  unfold Fb3; rw [tr3_add]

theorem conj_dftMat (σ : K →+* K) (w wb : K) (h : σ w = wb) (k j : Nat) : σ (dftMat w k j) = dftMat wb k j := by
  rw [dftMat_eq, dftMat_eq, map_pow, h]

theorem ConjOK.wb1 {σ : K →+* K} {g : Grid K} (h : ConjOK σ g) : σ g.wb1 = g.w1 := by rw [← h.w1, h.invol]
theorem ConjOK.wb2 {σ : K →+* K} {g : Grid K} (h : ConjOK σ g) : σ g.wb2 = g.w2 := by rw [← h.w2, h.invol]
theorem ConjOK.wb3 {σ : K →+* K} {g : Grid K} (h : ConjOK σ g) : σ g.wb3 = g.w3 := by rw [← h.w3, h.invol]

theorem conj_F3 (σ : K →+* K) (g : Grid K) (hσ : ConjOK σ g) (x : Tensor K) (i : Idx) :
    σ (F3 g x i) = Fb3 g (fun i => σ (x i)) i := by
  unfold F3 Fb3
  rw [tr3_map]
  simp only [conj_dftMat σ _ _ hσ.w1, conj_dftMat σ _ _ hσ.w2, conj_dftMat σ _ _ hσ.w3]

theorem conj_Fb3 (σ : K →+* K) (g : Grid K) (hσ : ConjOK σ g) (x : Tensor K) (i : Idx) :
    σ (Fb3 g x i) = F3 g (fun i => σ (x i)) i := by
  unfold F3 Fb3
  rw [tr3_map]
  simp only [conj_dftMat σ _ _ hσ.wb1, conj_dftMat σ _ _ hσ.wb2, conj_dftMat σ _ _ hσ.wb3]

/-- sesquilinear adjoint of F3 is Fb3 (and vice versa) -/
theorem F3_adjoint (P Q : Nat) (σ : K →+* K) (g : Grid K) (hσ : ConjOK σ g) (x y : Tensor K) :
    ∑ i ∈ boxF P g.n1 g.n2 g.n3 Q, σ (y i) * F3 g x i
      = ∑ i ∈ boxF P g.n1 g.n2 g.n3 Q, σ (Fb3 g y i) * x i := by
  unfold F3 Fb3
  rw [tr3_adjoint P Q g.n1 g.n2 g.n3 σ hσ.invol]
  simp only [conj_dftMat σ _ _ hσ.w1, conj_dftMat σ _ _ hσ.w2, conj_dftMat σ _ _ hσ.w3, dftMat_symm]

theorem Fb3_adjoint (P Q : Nat) (σ : K →+* K) (g : Grid K) (hσ : ConjOK σ g) (x y : Tensor K) :
    ∑ i ∈ boxF P g.n1 g.n2 g.n3 Q, σ (y i) * Fb3 g x i
      = ∑ i ∈ boxF P g.n1 g.n2 g.n3 Q, σ (F3 g y i) * x i := by
  unfold F3 Fb3
  rw [tr3_adjoint P Q g.n1 g.n2 g.n3 σ hσ.invol]
  simp only [conj_dftMat σ _ _ hσ.wb1, conj_dftMat σ _ _ hσ.wb2, conj_dftMat σ _ _ hσ.wb3, dftMat_symm]

/-- bilinear transpose: F3 and Fb3 are symmetric -/
theorem F3_transpose (P Q : Nat) (g : Grid K) (x y : Tensor K) :
    ∑ i ∈ boxF P g.n1 g.n2 g.n3 Q, y i * F3 g x i = ∑ i ∈ boxF P g.n1 g.n2 g.n3 Q, F3 g y i * x i := by
  have := tr3_adjoint P Q g.n1 g.n2 g.n3 (RingHom.id K) (fun _ => rfl)
    (dftMat g.w1) (dftMat g.w2) (dftMat g.w3) x y
  simp only [RingHom.id_apply] at this
  unfold F3
  rw [this]
  simp only [dftMat_symm]

theorem Fb3_transpose (P Q : Nat) (g : Grid K) (x y : Tensor K) :
    ∑ i ∈ boxF P g.n1 g.n2 g.n3 Q, y i * Fb3 g x i = ∑ i ∈ boxF P g.n1 g.n2 g.n3 Q, Fb3 g y i * x i := by
  have := tr3_adjoint P Q g.n1 g.n2 g.n3 (RingHom.id K) (fun _ => rfl)
    (dftMat g.wb1) (dftMat g.wb2) (dftMat g.wb3) x y
  simp only [RingHom.id_apply] at this
  unfold Fb3
  rw [this]
  simp only [dftMat_symm]

end NiftyVerif.Harmonic
