import NiftyVerif.Model.Domains
import NiftyVerif.Model.Intern
import Mathlib.Tactic.Ring
import Mathlib.Tactic.Linarith
import Mathlib.Tactic.FieldSimp
import Mathlib.Algebra.Order.Field.Basic
import Mathlib.Algebra.BigOperators.Group.List.Basic
namespace NiftyVerif.Domains

section field
variable {K : Type} [Field K] [LinearOrder K] [IsStrictOrderedRing K]

/-- **rg_dual_distances**: `hdistance * rdistance * shape = 1` on every axis -/
theorem rg_dual (n : Nat) (r : K) (hn : 0 < n) (hr : 0 < r) : hdist n r * r * (n : K) = 1 := by
  unfold hdist
  have : (n : K) ≠ 0 := by exact_mod_cast (by omega : n ≠ 0)
  have hr' : r ≠ 0 := ne_of_gt hr
  field_simp

theorem foldl_mul (l : List K) (a : K) : l.foldl (· * ·) a = a * l.prod := by
  induction l generalizing a with
  | nil => simp
  | cons x xs ih => simp [ih, mul_assoc]

theorem prodK_eq (l : List K) : prodK l = l.prod := by
  unfold prodK; rw [foldl_mul, one_mul]

/-- **rg_volume**: `total_volume = size * dvol` is the product of the axis extents `shape_d * distance_d`
    (and, the volume element being uniform, the sum of the `size` pixel volumes) -/
theorem rg_volume (shape : List Nat) (dist : List K) (h : shape.length = dist.length) :
    totalVolumeScalar (shape.foldl (· * ·) 1) (prodK dist) = (List.zipWith (fun (n : Nat) d => (n : K) * d) shape dist).prod := by
  unfold totalVolumeScalar
  rw [prodK_eq]
  have hs : shape.foldl (· * ·) 1 = shape.prod := by
    have : ∀ (l : List Nat) (a : Nat), l.foldl (· * ·) a = a * l.prod := by
      intro l
      induction l with
      | nil => simp
      | cons x xs ih => intro a; simp [ih, Nat.mul_assoc]
    rw [this, Nat.one_mul]
  rw [hs]
  clear hs
  induction shape generalizing dist with
  | nil => cases dist <;> simp_all
  | cons n ns ih =>
    cases dist with
    | nil => simp at h
    | cons d ds =>
      simp only [List.prod_cons, List.zipWith_cons_cons, Nat.cast_mul]
      rw [← ih ds (by simpa using h)]
      ring

theorem sum_replicate_dvol (size : Nat) (dvol : K) : (List.replicate size dvol).sum = totalVolumeScalar size dvol := by
  simp [totalVolumeScalar, List.sum_replicate]

end field

/-! ### 1-D k-lengths: the values of `min(i, n-i)` are exactly `0 .. n/2` -/

theorem rg_klen_1d_unique (n : Nat) (hn : 0 < n) :
    (∀ i, i < n → foldIdx n i ≤ n / 2) ∧ (∀ j, j ≤ n / 2 → ∃ i, i < n ∧ foldIdx n i = j) := by
  constructor
  · intro i hi; unfold foldIdx; omega
  · intro j hj
    refine ⟨j, by omega, ?_⟩
    unfold foldIdx; omega

/-! ### LMSpace -/

theorem lmTmp_drop (lmax m : Nat) (hm : m ≤ lmax + 1) :
    (lmTmp lmax).drop (2 * m) = (List.range (lmax + 1 - m)).flatMap fun j => [j + m, j + m] := by
  unfold lmTmp
  induction m with
  | zero => simp
  | succ k ih =>
    have hk : k ≤ lmax + 1 := by omega
    have := ih hk
    have e : 2 * (k + 1) = 2 * k + 2 := by ring
    rw [e, ← List.drop_drop, this]
    have hpos : lmax + 1 - k = (lmax + 1 - (k + 1)) + 1 := by omega
    rw [hpos, List.range_succ_eq_map]
    simp only [List.flatMap_cons, List.flatMap_map]
    simp only [List.cons_append, List.nil_append, List.drop_succ_cons, List.drop_zero, Nat.zero_add]
    apply List.flatMap_congr
    intro j _
    simp [Nat.add_assoc, Nat.add_comm 1 k]

/-- **lm_l_of_index**: the k-length array built by the code's loop is the documented (l, m) layout -/
theorem lm_layout (lmax mmax : Nat) (h : mmax ≤ lmax) : lmK lmax mmax = lmSpec lmax mmax := by
  unfold lmK lmSpec
  congr 1
  apply List.flatMap_congr
  intro m' hm'
  rw [List.mem_range] at hm'
  exact lmTmp_drop lmax (m' + 1) (by omega)

theorem lm_sum_closed (lmax mmax : Nat) (h : mmax ≤ lmax) :
    lmax + 1 + ((List.range mmax).map fun m' => 2 * (lmax + 1 - (m' + 1))).sum = lmSize lmax mmax := by
  unfold lmSize
  induction mmax with
  | zero =>
    simp
    have h2 : (lmax + 1) ^ 2 = lmax * (lmax + 1) + (lmax + 1) := by ring
    omega
  | succ k ih =>
    have ihk := ih (by omega)
    rw [List.range_succ, List.map_append, List.sum_append]
    simp only [List.map_cons, List.map_nil, List.sum_cons, List.sum_nil, Nat.add_zero]
    obtain ⟨q, rfl⟩ : ∃ q, lmax = q + (k + 1) := ⟨lmax - (k + 1), by omega⟩
    have e1 : q + (k + 1) - k = q + 1 := by omega
    have e2 : q + (k + 1) - (k + 1) = q := by omega
    have e3 : q + (k + 1) + 1 - (k + 1) = q + 1 := by omega
    rw [e1] at ihk
    rw [e2, e3]
    have hsq : (q + (k + 1) + 1) ^ 2 ≥ (q + 1) * (q + 1 + 1) := by nlinarith
    have hexp : (q + 1) * (q + 1 + 1) = q * (q + 1) + 2 * (q + 1) := by ring
    omega

/-- **lm_size**: the number of entries of the layout is `LMSpace.size = (lmax+1)^2 - (lmax-mmax)(lmax-mmax+1)` -/
theorem lmSpec_length (lmax mmax : Nat) (h : mmax ≤ lmax) : (lmSpec lmax mmax).length = lmSize lmax mmax := by
  rw [← lm_sum_closed lmax mmax h]
  unfold lmSpec
  simp only [List.length_append, List.length_range, List.length_flatMap, List.length_cons, List.length_nil]
  congr 1
  congr 1
  apply List.map_congr_left
  intro m' _
  simp [List.sum_replicate]
  ring


section power
variable {K : Type} [Field K] [LinearOrder K] [IsStrictOrderedRing K]

theorem searchsorted_le (bounds : List K) (v : K) : searchsortedLeft bounds v ≤ bounds.length := by
  unfold searchsortedLeft; exact List.countP_le_length

/-- bins are ordered by k: a larger k-length never lands in an earlier bin -/
theorem searchsorted_mono (bounds : List K) (v w : K) (h : v ≤ w) :
    searchsortedLeft bounds v ≤ searchsortedLeft bounds w := by
  unfold searchsortedLeft
  apply List.countP_mono_left
  intro b _ hb
  simp only [decide_eq_true_eq] at hb ⊢
  exact lt_of_lt_of_le hb h

theorem sum_indicator (n x : Nat) : ((List.range n).map fun b => if x = b then 1 else 0).sum = if x < n then 1 else 0 := by
  induction n with
  | zero => simp
  | succ k ih =>
    rw [List.range_succ, List.map_append, List.sum_append, ih]
    simp only [List.map_cons, List.map_nil, List.sum_cons, List.sum_nil, Nat.add_zero]
    by_cases h1 : x < k
    · have : x ≠ k := by omega
      simp [h1, this]; omega
    · by_cases h2 : x = k
      · simp [h2]
      · have : ¬ x < k + 1 := by omega
        simp [h1, h2, this]

/-- **pindex_partition** (counting part): the bin counts add up to the number of pixels -/
theorem sum_bincount (nbin : Nat) (idx : List Nat) (h : ∀ i ∈ idx, i < nbin) : (bincount nbin idx).sum = idx.length := by
  unfold bincount
  induction idx with
  | nil => simp
  | cons x xs ih =>
    have hx := h x List.mem_cons_self
    have ih' := ih (fun i hi => h i (List.mem_cons_of_mem _ hi))
    have : ((List.range nbin).map fun b => (x :: xs).count b) =
        List.zipWith (· + ·) ((List.range nbin).map fun b => xs.count b) ((List.range nbin).map fun b => if x = b then 1 else 0) := by
      rw [List.zipWith_map_left, List.zipWith_map_right]
      simp [List.zipWith_self, List.count_cons, beq_iff_eq]
    rw [this]
    have hz : ∀ (l1 l2 : List Nat), l1.length = l2.length → (List.zipWith (· + ·) l1 l2).sum = l1.sum + l2.sum := by
      intro l1
      induction l1 with
      | nil => intro l2 h; cases l2 <;> simp_all
      | cons a as iha =>
        intro l2 h
        cases l2 with
        | nil => simp at h
        | cons b bs => simp [iha bs (by simpa using h)]; omega
    rw [hz _ _ (by simp), ih', sum_indicator, if_pos hx]
    simp

theorem pindex_lt (bounds k : List K) : ∀ i ∈ k.map (searchsortedLeft bounds), i < bounds.length + 1 := by
  intro i hi
  rw [List.mem_map] at hi
  obtain ⟨v, _, rfl⟩ := hi
  have := searchsorted_le bounds v
  omega

/-- every pixel is in exactly one bin (pindex is a function into `range nbin`), and `Σ_b ρ_b = size` -/
theorem pindex_partition (bounds k : List K) :
    (bincount (bounds.length + 1) (k.map (searchsortedLeft bounds))).sum = k.length := by
  rw [sum_bincount _ _ (pindex_lt bounds k), List.length_map]

/-- **power_dvol_sum**: the bin volumes `ρ_b * dvol` add up to the total volume of the harmonic partner -/
theorem power_dvol_sum (bounds k : List K) (pdvol : K) :
    ((bincount (bounds.length + 1) (k.map (searchsortedLeft bounds))).map fun (r : Nat) => (r : K) * pdvol).sum =
      totalVolumeScalar k.length pdvol := by
  have : ∀ l : List Nat, (l.map fun (r : Nat) => (r : K) * pdvol).sum = ((l.sum : Nat) : K) * pdvol := by
    intro l
    induction l with
    | nil => simp
    | cons a as ih => simp [ih]; ring
  rw [this, pindex_partition]
  rfl

/-- **power_klen_mean**: `k_b * ρ_b` is the sum of the member k-lengths (needs `ρ_b > 0`) -/
theorem power_klen_mean (s : K) (r : Nat) (hr : 0 < r) : s / (r : K) * (r : K) = s := by
  have : (r : K) ≠ 0 := by exact_mod_cast (by omega : r ≠ 0)
  field_simp

/-- every midpoint of a strictly increasing list is at least its first element -/
theorem midpoints_ge (l : List K) (c : K) (hc : (c :: l).Pairwise (· < ·)) : ∀ x ∈ midpoints (c :: l), c ≤ x := by
  induction l generalizing c with
  | nil => intro x hx; simp [midpoints] at hx
  | cons d l' ihl =>
    intro x hx
    have hcd : c < d := (List.pairwise_cons.mp hc).1 d List.mem_cons_self
    simp only [midpoints, List.mem_cons] at hx
    rcases hx with rfl | hx
    · linarith
    · exact le_trans (le_of_lt hcd) (ihl d (List.pairwise_cons.mp hc).2 x hx)

/-- midpoints of a strictly increasing list: the `j`-th unique value lands in bin `j` -/
theorem midpoints_count (u : List K) (hs : u.Pairwise (· < ·)) (j : Nat) (hj : j < u.length) :
    searchsortedLeft (midpoints u) u[j] = j := by
  induction u generalizing j with
  | nil => simp at hj
  | cons a rest ih =>
    cases rest with
    | nil =>
      have : j = 0 := by simp at hj; omega
      subst this
      simp [midpoints, searchsortedLeft]
    | cons b rest' =>
      have hab : a < b := (List.pairwise_cons.mp hs).1 b List.mem_cons_self
      have hs' : (b :: rest').Pairwise (· < ·) := (List.pairwise_cons.mp hs).2
      cases j with
      | zero =>
        simp only [List.getElem_cons_zero, midpoints, searchsortedLeft, List.countP_cons]
        have h1 : ¬ ((a + b) / 2 < a) := by
          intro h; linarith
        have h2 : List.countP (fun x => decide (x < a)) (midpoints (b :: rest')) = 0 := by
          rw [List.countP_eq_zero]
          intro x hx
          simp only [decide_eq_true_eq, not_lt]
          exact le_trans (le_of_lt hab) (midpoints_ge rest' b hs' x hx)
        simp [h1, h2]
      | succ j' =>
        have hj' : j' < (b :: rest').length := by simpa using hj
        have ih' := ih hs' j' hj'
        have hbu : b ≤ (b :: rest')[j'] := by
          cases j' with
          | zero => simp
          | succ j'' =>
            have hlt : j'' < rest'.length := by simpa using hj'
            have hmem : rest'[j''] ∈ rest' := List.getElem_mem hlt
            simpa using le_of_lt ((List.pairwise_cons.mp hs').1 _ hmem)
        have hlt : (a + b) / 2 < (b :: rest')[j'] := by linarith
        have e : (a :: b :: rest')[j' + 1] = (b :: rest')[j'] := rfl
        rw [e]
        unfold searchsortedLeft at ih' ⊢
        simp only [midpoints, List.countP_cons, ih', hlt, decide_true, if_true]

end power


section bounds
variable {K : Type} [Field K] [LinearOrder K] [IsStrictOrderedRing K]

/-- `PowerSpace.linear_binbounds(nbin, first, last) = np.linspace(first, last, nbin - 1)` in exact arithmetic -/
def linearBounds (nbin : Nat) (first last : K) : List K :=
  (List.range (nbin - 1)).map fun (i : Nat) => first + ((i : Nat) : K) * ((last - first) / ((nbin - 2 : Nat) : K))

/-- linear bin bounds are strictly increasing (so `searchsorted` is a binning) whenever `first < last`, `nbin ≥ 3` -/
theorem linear_bounds_sorted (nbin : Nat) (first last : K) (hn : 3 ≤ nbin) (h : first < last) :
    (linearBounds nbin first last).Pairwise (· < ·) := by
  unfold linearBounds
  rw [List.pairwise_map]
  have hstep : 0 < (last - first) / ((nbin - 2 : Nat) : K) := by
    apply div_pos (sub_pos.mpr h)
    exact_mod_cast (by omega : 0 < nbin - 2)
  refine List.Pairwise.imp ?_ (List.pairwise_lt_range (n := nbin - 1))
  intro i j hij
  have : (i : K) < (j : K) := by exact_mod_cast hij
  nlinarith

/-- … and end exactly at `first` and `last` -/
theorem linear_bounds_ends (nbin : Nat) (first last : K) (hn : 3 ≤ nbin) :
    (linearBounds nbin first last).head? = some first ∧ (linearBounds nbin first last).getLast? = some last := by
  unfold linearBounds
  obtain ⟨m, rfl⟩ : ∃ m, nbin = m + 3 := ⟨nbin - 3, by omega⟩
  have e1 : m + 3 - 1 = (m + 1) + 1 := by omega
  have e2 : m + 3 - 2 = m + 1 := by omega
  constructor
  · rw [e1, List.range_succ_eq_map]; simp
  · rw [e1, List.range_succ, List.map_append, e2]
    simp only [List.map_cons, List.map_nil, List.getLast?_append, List.getLast?_singleton, Option.some_or]
    have : ((m + 1 : Nat) : K) ≠ 0 := by exact_mod_cast (by omega : m + 1 ≠ 0)
    congr 1
    field_simp
    ring

/-- logarithmic bounds are the image of linear bounds under a strictly increasing map (`exp`): still strictly increasing -/
theorem mapped_bounds_sorted (f : K → K) (hf : StrictMono f) (b : List K) (hb : b.Pairwise (· < ·)) :
    (b.map f).Pairwise (· < ·) := by
  rw [List.pairwise_map]
  exact hb.imp (fun h => hf h)


end bounds

end NiftyVerif.Domains
