/-
  Helper lemmas for C12, categorical likelihood: entries of the dense metric and of `L Lᵀ` for an arbitrary grouping
  of the coordinates and an arbitrary common value `c` of the group sums `Σ_{j ∈ group} s_j²`.
  `c = 1` (normalisation per category axis) gives `M = L Lᵀ`; one tree-wide group with `c = B` gives the defect term.
-/
import NiftyVerif.Lemmas.LikelihoodRe

namespace NiftyVerif.LikelihoodRe
open Matrix

variable {K : Type} [CommRing K] {n : Nat}

theorem gsum_unit (grp : Fin n → Nat) (p : Fin n → K) (i k : Fin n) :
    gsum grp (fun j => p j * unit k j) i = if grp k = grp i then p k else 0 := by
  simp only [gsum, vsum_eq_sum, unit]
  rw [Finset.sum_eq_single k]
  · simp
  · intro j _ hjk; simp [hjk]
  · intro h; exact absurd (Finset.mem_univ k) h

theorem toMat_catMp (grp : Fin n → Nat) (p : Fin n → K) (i k : Fin n) :
    toMat (catMp grp p) i k = p i * (if i = k then 1 else 0) - p i * (if grp k = grp i then p k else 0) := by
  simp only [toMat, catMp, gsum_unit]
  simp only [unit]

theorem toMat_catLs (grp : Fin n → Nat) (s : Fin n → K) (i j : Fin n) :
    toMat (catLs grp s) i j = s i * ((if i = j then 1 else 0) - s i * (if grp j = grp i then s j else 0)) := by
  simp only [toMat, catLs, gsum_unit]
  simp only [unit]

theorem sum_delta_mul (i : Fin n) (f : Fin n → K) : ∑ j, (if i = j then (1 : K) else 0) * f j = f i := by
  simp [ite_mul]

theorem sum_mul_delta (k : Fin n) (f : Fin n → K) : ∑ j, f j * (if k = j then (1 : K) else 0) = f k := by
  simp [mul_ite]

theorem sum_group_group (grp : Fin n → Nat) (s : Fin n → K) (c : K)
    (hc : ∀ i, gsum grp (fun j => s j * s j) i = c) (i k : Fin n) :
    ∑ j, (if grp j = grp i then s j else 0) * (if grp j = grp k then s j else 0)
      = if grp k = grp i then c else 0 := by
  by_cases h : grp k = grp i
  · rw [if_pos h, ← hc i]
    simp only [gsum, vsum_eq_sum]
    apply Finset.sum_congr rfl
    intro j _
    by_cases hj : grp j = grp i
    · simp [hj, h]
    · simp [hj]
  · rw [if_neg h]
    apply Finset.sum_eq_zero
    intro j _
    by_cases hj : grp j = grp i
    · have : ¬ grp j = grp k := fun hk => h (hk ▸ hj ▸ rfl)
      simp [this]
    · simp [hj]

/-- entries of `L Lᵀ` for the categorical left square root, any grouping, group sums of `s²` all equal to `c` -/
theorem cat_LLt (grp : Fin n → Nat) (s : Fin n → K) (c : K)
    (hc : ∀ i, gsum grp (fun j => s j * s j) i = c) (i k : Fin n) :
    (Matrix.of (toMat (catLs grp s)) * (Matrix.of (toMat (catLs grp s)))ᵀ) i k
      = s i * s k * (if i = k then 1 else 0)
        + (c - 2) * ((s i * s i) * (s k * s k)) * (if grp k = grp i then 1 else 0) := by
  simp only [Matrix.mul_apply, Matrix.transpose_apply, Matrix.of_apply, toMat_catLs]
  have hterm : ∀ j : Fin n,
      s i * ((if i = j then 1 else 0) - s i * (if grp j = grp i then s j else 0))
        * (s k * ((if k = j then 1 else 0) - s k * (if grp j = grp k then s j else 0)))
      = (s i * s k) * ((if i = j then (1 : K) else 0) * (if k = j then 1 else 0))
        - (s i * s k * s k) * ((if i = j then (1 : K) else 0) * (if grp j = grp k then s j else 0))
        - (s i * s i * s k) * ((if grp j = grp i then s j else 0) * (if k = j then (1 : K) else 0))
        + (s i * s i * s k * s k) * ((if grp j = grp i then s j else 0) * (if grp j = grp k then s j else 0)) := by
    intro j; ring
  simp only [hterm, Finset.sum_add_distrib, Finset.sum_sub_distrib, ← Finset.mul_sum,
    sum_delta_mul, sum_mul_delta, sum_group_group grp s c hc]
  have e1 : (if k = i then (1 : K) else 0) = if i = k then 1 else 0 := by
    by_cases h : i = k
    · subst h; simp
    · have : ¬ k = i := fun e => h e.symm
      rw [if_neg h, if_neg this]
  have e2 : (if grp i = grp k then s i else 0) = (if grp k = grp i then s i else 0) := by
    by_cases h : grp k = grp i
    · rw [if_pos h, if_pos h.symm]
    · rw [if_neg h, if_neg (fun e => h e.symm)]
  rw [e1, e2]
  by_cases h : grp k = grp i
  · simp only [if_pos h]
    by_cases hik : i = k
    · subst hik; simp only [if_true]; ring
    · simp only [if_neg hik]; ring
  · have hik : ¬ i = k := fun e => h (e ▸ rfl)
    simp only [if_neg h, if_neg hik]; ring

end NiftyVerif.LikelihoodRe
