/-
  C16 — soundness of the line-search trace checker `LineSearch.runLS` (helper lemmas for Props/C16.lean).
-/
import NiftyVerif.Model.LineSearch
import Mathlib.Algebra.Order.Field.Basic
import Mathlib.Algebra.Order.Group.Abs
import Mathlib.Tactic.Linarith

set_option linter.unusedSectionVars false
set_option linter.unusedVariables false

namespace NiftyVerif.LineSearch

variable {K : Type} [Field K] [LinearOrder K] [IsStrictOrderedRing K]

theorem absK_eq_abs (x : K) : absK x = |x| := by
  unfold absK
  split
  · rename_i h; rw [abs_of_neg h]
  · rename_i h; rw [abs_of_nonneg (not_lt.mp h)]

/-- the recorded evaluation `ev` is at `α`, has value and derivative, passes the Armijo and the curvature test -/
def Good (p : Params K) (ev : Ev K) (α : K) : Prop :=
  ev.α = α ∧ ∃ f d, ev.φ = .num f ∧ ev.dφ = some d ∧ ¬ armijoFails p α f ∧ curvatureOk p d

theorem finish_ok {t : List (Ev K)} {o o' : Outcome K} (h : finish t o = .ok o') : t = [] ∧ o = o' := by
  cases t with
  | nil => simp [finish] at h; exact ⟨rfl, h⟩
  | cons a b => simp [finish] at h

/-- `_zoom`'s loop: a successful return is a `Good` evaluation; any returned point satisfies `Q` if `last` and all
    evaluations do -/
theorem zoomLoop_ret (c : Consts K) (p : Params K) (Q : K → Prop) :
    ∀ (n i : Nat) (z : ZState K) (last : Option K) (t : List (Ev K)) (s : Bool) (α : K),
      zoomLoop c p n i z last t = .ok (.ret s α) →
      (∀ a, last = some a → Q a) →
      (∀ ev ∈ t, (∃ f, ev.φ = .num f) → Q ev.α) →
      (s = true → ∃ ev ∈ t, Good p ev α) ∧ (s = false → Q α) := by
  intro n
  induction n with
  | zero =>
    intro i z last t s α h hl _
    simp only [zoomLoop] at h
    split at h
    · obtain ⟨_, h2⟩ := finish_ok h
      cases h2
      exact ⟨by simp, fun _ => hl _ rfl⟩
    · obtain ⟨_, h2⟩ := finish_ok h
      cases h2
  | succ n ih =>
    intro i z last t s α h hl ht
    simp only [zoomLoop] at h
    split at h
    · cases h
    · rename_i ev rest
      have hrest : ∀ e ∈ rest, (∃ f, e.φ = .num f) → Q e.α :=
        fun e he => ht e (List.mem_cons_of_mem _ he)
      split at h
      · cases h
      · split at h
        · cases h
        · cases h
        · rename_i f hf
          have hQ : ∀ a, some ev.α = some a → Q a := by
            intro a ha; cases ha; exact ht ev List.mem_cons_self ⟨f, hf⟩
          split at h
          · split at h
            · cases h
            · obtain ⟨h1, h2⟩ := ih _ _ _ _ _ _ h hQ hrest
              exact ⟨fun hs => by
                obtain ⟨e, he, hg⟩ := h1 hs
                exact ⟨e, List.mem_cons_of_mem _ he, hg⟩, h2⟩
          · rename_i harm
            split at h
            · cases h
            · rename_i d hd
              split at h
              · rename_i hcurv
                obtain ⟨_, h2⟩ := finish_ok h
                cases h2
                refine ⟨fun _ => ⟨ev, List.mem_cons_self, rfl, f, d, hf, hd, ?_, hcurv⟩, by simp⟩
                exact fun hc => harm (Or.inl hc)
              · obtain ⟨h1, h2⟩ := ih _ _ _ _ _ _ h hQ hrest
                exact ⟨fun hs => by
                  obtain ⟨e, he, hg⟩ := h1 hs
                  exact ⟨e, List.mem_cons_of_mem _ he, hg⟩, h2⟩

theorem zoom_ret (c : Consts K) (p : Params K) (Q : K → Prop) (z : ZState K) (t : List (Ev K)) (s : Bool) (α : K)
    (h : zoom c p z t = .ok (.ret s α)) (ht : ∀ ev ∈ t, (∃ f, ev.φ = .num f) → Q ev.α) :
    (s = true → ∃ ev ∈ t, Good p ev α) ∧ (s = false → Q α) := by
  unfold zoom at h
  split at h
  · obtain ⟨_, h2⟩ := finish_ok h; cases h2
  · split at h
    · obtain ⟨_, h2⟩ := finish_ok h; cases h2
    · exact zoomLoop_ret c p Q _ _ _ _ _ _ _ h (by simp) ht

/-- the main loop: same statement; `fpe` evaluations never become `le_alpha1` -/
theorem mainLoop_ret (c : Consts K) (p : Params K) (ms : K) (Q : K → Prop) (h0 : Q 0) :
    ∀ (n : Nat) (st : MState K) (t : List (Ev K)) (s : Bool) (α : K),
      mainLoop c p ms n st t = .ok (.ret s α) →
      (∀ a, st.last = some a → Q a) →
      (∀ ev ∈ t, ev.φ ≠ .fpe → Q ev.α) →
      (s = true → ∃ ev ∈ t, Good p ev α) ∧ (s = false → Q α) := by
  intro n
  induction n with
  | zero =>
    intro st t s α h hl _
    simp only [mainLoop] at h
    split at h
    · obtain ⟨_, h2⟩ := finish_ok h
      cases h2
      exact ⟨by simp, fun _ => hl _ ‹_›⟩
    · obtain ⟨_, h2⟩ := finish_ok h
      cases h2
  | succ n ih =>
    intro st t s α h hl ht
    simp only [mainLoop] at h
    split at h
    · split at h
      · cases h; exact ⟨by simp, fun _ => h0⟩
      · cases h
    · rename_i ev rest
      have hrest : ∀ e ∈ rest, e.φ ≠ .fpe → Q e.α :=
        fun e he => ht e (List.mem_cons_of_mem _ he)
      have hrest' : ∀ e ∈ rest, (∃ f, e.φ = .num f) → Q e.α := by
        intro e he ⟨f, hf⟩
        exact hrest e he (by intro h; rw [hf] at h; cases h)
      have lift : ∀ {s : Bool} {α : K}, ((s = true → ∃ e ∈ rest, Good p e α) ∧ (s = false → Q α)) →
          ((s = true → ∃ e ∈ ev :: rest, Good p e α) ∧ (s = false → Q α)) := by
        intro s α ⟨h1, h2⟩
        exact ⟨fun hs => by
          obtain ⟨e, he, hg⟩ := h1 hs
          exact ⟨e, List.mem_cons_of_mem _ he, hg⟩, h2⟩
      split at h
      · cases h
      split at h
      · cases h
      split at h
      · cases h
      split at h
      · -- fpe: backtrack, le_alpha1 unchanged
        split at h
        · cases h
        · exact lift (ih _ _ _ _ h hl hrest)
      · -- nan: backtrack, le_alpha1 := this evaluation
        rename_i hnan
        have hQ : ∀ a, some ev.α = some a → Q a := by
          intro a ha; cases ha
          exact ht ev List.mem_cons_self (by intro h; rw [hnan] at h; cases h)
        split at h
        · cases h
        · exact lift (ih _ _ _ _ h hQ hrest)
      · rename_i f hf
        have hQ : ∀ a, some ev.α = some a → Q a := by
          intro a ha; cases ha
          exact ht ev List.mem_cons_self (by intro h; rw [hf] at h; cases h)
        split at h
        · -- |phi| > 1e100: backtrack
          split at h
          · cases h
          · exact lift (ih _ _ _ _ h hQ hrest)
        split at h
        · -- zoom(alpha0, alpha1)
          split at h
          · cases h
          · exact lift (zoom_ret c p Q _ _ _ _ h hrest')
        · rename_i harm
          split at h
          · cases h
          · rename_i d hd
            split at h
            · rename_i hcurv
              obtain ⟨_, h2⟩ := finish_ok h
              cases h2
              refine ⟨fun _ => ⟨ev, List.mem_cons_self, rfl, f, d, hf, hd, ?_, hcurv⟩, by simp⟩
              exact fun hc => harm (Or.inl hc)
            split at h
            · exact lift (zoom_ret c p Q _ _ _ _ h hrest')
            split at h
            · obtain ⟨_, h2⟩ := finish_ok h
              cases h2
              exact ⟨by simp, fun _ => hQ _ rfl⟩
            · exact lift (ih _ _ _ _ h hQ hrest)

/-- `perform_line_search` -/
theorem runLS_ret (c : Consts K) (p : Params K) (t : List (Ev K)) (s : Bool) (α : K)
    (h : runLS c p t = .ok (.ret s α)) :
    (s = true → p.dphi0 < 0 ∧ ∃ ev ∈ t, Good p ev α) ∧
    (α = 0 ∨ ∃ ev ∈ t, ev.α = α ∧ ev.φ ≠ .fpe) := by
  let Q : K → Prop := fun a => a = 0 ∨ ∃ ev ∈ t, ev.α = a ∧ ev.φ ≠ .fpe
  unfold runLS at h
  split at h
  · obtain ⟨_, h2⟩ := finish_ok h; cases h2; exact ⟨by simp, Or.inl rfl⟩
  split at h
  · obtain ⟨_, h2⟩ := finish_ok h; cases h2; exact ⟨by simp, Or.inl rfl⟩
  rename_i hne hnpos
  have hneg : p.dphi0 < 0 := lt_of_le_of_ne (not_lt.mp hnpos) hne
  obtain ⟨h1, h2⟩ := mainLoop_ret c p _ Q (Or.inl rfl) _ _ _ _ _ h (by simp)
    (fun ev he hf => Or.inr ⟨ev, he, rfl, hf⟩)
  refine ⟨fun hs => ⟨hneg, h1 hs⟩, ?_⟩
  cases s with
  | false => exact h2 rfl
  | true =>
    obtain ⟨ev, he, hg⟩ := h1 rfl
    obtain ⟨ha, f, d, hf, _⟩ := hg
    exact Or.inr ⟨ev, he, ha, by intro h; rw [hf] at h; cases h⟩

end NiftyVerif.LineSearch
