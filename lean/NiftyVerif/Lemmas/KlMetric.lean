/-
  The sampled KL metric (C19): the average over samples of the Hamiltonian metrics `L_i + 1` (likelihood metric positive
  semidefinite, prior metric the identity) is positive definite — a valid Newton-CG curvature for every sample list.
-/
import Mathlib.LinearAlgebra.Matrix.PosDef
import Mathlib.Algebra.Order.Star.Real

namespace NiftyVerif.Kl
open Matrix

variable {n : Type} [Fintype n] [DecidableEq n]

omit [Fintype n] in
theorem avg_metric_posDef (Ls : List (Matrix n n ℝ)) (hL : ∀ L ∈ Ls, L.PosSemidef) (hne : Ls ≠ []) :
    (((Ls.length : ℝ)⁻¹) • (Ls.map (fun L => L + 1)).sum).PosDef := by
  have hlen : (0 : ℝ) < Ls.length := by
    have : 0 < Ls.length := List.length_pos_iff.mpr hne
    exact_mod_cast this
  have hsum : ∀ (l : List (Matrix n n ℝ)), (∀ L ∈ l, L.PosSemidef) → l ≠ [] → ((l.map (fun L => L + 1)).sum).PosDef := by
    intro l
    induction l with
    | nil => intro _ h; exact absurd rfl h
    | cons L l ih =>
      intro hl _
      have hL1 : (L + 1).PosDef := PosDef.posSemidef_add (hl L (List.mem_cons_self)) PosDef.one
      by_cases hnil : l = []
      · subst hnil; simpa using hL1
      · have := ih (fun M hM => hl M (List.mem_cons_of_mem _ hM)) hnil
        simp only [List.map_cons, List.sum_cons]
        exact hL1.add this
  exact (hsum Ls hL hne).smul (inv_pos.mpr hlen)

end NiftyVerif.Kl
