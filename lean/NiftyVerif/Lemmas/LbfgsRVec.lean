/-
  C16 — the L-BFGS theorems apply to what the driver runs: `RVec n` with `RVec.dot` is a lawful instance
  (module structure and `SymmBilin` from the shared Lemmas/RVec.lean).
-/
import NiftyVerif.Lemmas.LbfgsRun
import NiftyVerif.Lemmas.RVec

namespace NiftyVerif.Lbfgs
open NiftyVerif

/-- the driver's inner product is a lawful `ip` -/
theorem isIP_dot (n : Nat) : IsIP (K := ℚ) (V := RVec n) (RVec.dot (n := n)) :=
  ⟨(RVec.dot_symmBilin (n := n)).symm, (RVec.dot_symmBilin (n := n)).add_left,
   (RVec.dot_symmBilin (n := n)).smul_left⟩

end NiftyVerif.Lbfgs
