/-
  Well-formedness (all entries inside the declared shape) of the operator models of Model/LinOps.lean, for every
  configuration.  With `coo_adjoint` this gives the adjoint identity for each modelled operator class.
-/
import NiftyVerif.Lemmas.LinOps

namespace NiftyVerif
open Coo LinOps

section
variable {K : Type} [CommRing K]

theorem diag_wf (n : Nat) (d : Nat → K) : (diag n d).wf = true := by
  unfold diag; apply ofRows_wf; intro r hr cw hcw
  simp only [List.mem_singleton] at hcw; subst hcw; exact hr

theorem ident_wf (n : Nat) : (ident n : Coo K).wf = true := by
  rw [wf_iff]; intro e he
  simp only [ident, List.mem_map, List.mem_range] at he
  obtain ⟨i, hi, rfl⟩ := he; exact ⟨hi, hi⟩

/-- composition of well-formed operators is well-formed -/
theorem comp_wf (M N : Coo K) (hM : M.wf = true) (hN : N.wf = true) : (comp M N).wf = true := by
  have hm := (wf_iff M).mp hM
  have hn := (wf_iff N).mp hN
  rw [wf_iff]; intro e he
  simp only [comp, List.mem_flatMap, List.mem_filterMap] at he
  obtain ⟨e1, he1, e2, he2, h⟩ := he
  by_cases hh : e1.2.1 = e2.1
  · simp only [hh, if_true, Option.some.injEq] at h
    subst h; exact ⟨(hm e1 he1).1, (hn e2 he2).2⟩
  · simp [hh] at h

theorem mask_wf (flags : List Bool) : (mask flags : Coo K).wf = true := by
  unfold mask; apply gather_wf; intro r hr; exact unflagged_lt flags r hr

theorem pad1_wf (n N : Nat) (hnN : n ≤ N) (central : Bool) : (pad1 n N central : Coo K).wf = true := by
  unfold pad1
  cases central with
  | true =>
    simp only [if_true]
    apply ofCols_wf; intro c hc rw hrw
    simp only [List.mem_append] at hrw
    rcases hrw with h | h
    · by_cases h1 : c ≤ n / 2
      · simp only [h1, if_true, List.mem_singleton] at h; subst h; simp only; omega
      · simp [h1] at h
    · by_cases h1 : n - n / 2 ≤ c
      · simp only [h1, if_true, List.mem_singleton] at h; subst h; simp only; omega
      · simp [h1] at h
  | false =>
    simp only [Bool.false_eq_true, if_false]
    apply ofCols_wf; intro c hc rw hrw
    simp only [List.mem_singleton] at hrw; subst hrw; simp only; omega

theorem shift1_wf (n : Nat) (inverse : Bool) : (shift1 n inverse : Coo K).wf = true := by
  unfold shift1; apply gather_wf; intro r hr
  have hn : 0 < n := by omega
  split <;> exact Nat.mod_lt _ hn

theorem outerProduct_wf (n : Nat) (f : List K) : (outerProduct n f).wf = true := by
  unfold outerProduct; apply ofRows_wf; intro r hr cw hcw
  simp only [List.mem_singleton] at hcw; subst hcw; simp only
  rcases Nat.eq_zero_or_pos n with h | h
  · subst h; simp at hr
  · exact Nat.mod_lt _ h

theorem vdot_wf (cj : K → K) (f : List K) : (vdot cj f).wf = true := by
  unfold vdot; apply ofRows_wf; intro r _ cw hcw
  simp only [List.mem_map, List.mem_range] at hcw
  obtain ⟨c, hc, rfl⟩ := hcw; exact hc

theorem matrixProduct_wf (pre n post : Nat) (m : List K) : (matrixProduct pre n post m).wf = true := by
  unfold matrixProduct; apply onAxis_wf; apply ofRows_wf; intro r _ cw hcw
  simp only [List.mem_map, List.mem_range] at hcw
  obtain ⟨c, hc, rfl⟩ := hcw; exact hc

theorem distributor_wf (pre post nbin : Nat) (dofdex : List Nat) (h : ∀ p, p < dofdex.length → dofdex.getD p 0 < nbin) :
    (distributor pre post nbin dofdex : Coo K).wf = true := by
  unfold distributor; exact onAxis_wf _ _ _ (gather_wf _ _ _ h)

theorem extractAt_wf (pre n post : Nat) (idx : List Nat) (h : ∀ k, k < idx.length → idx.getD k 0 < n) :
    (extractAt pre n post idx : Coo K).wf = true := by
  unfold extractAt; exact onAxis_wf _ _ _ (gather_wf _ _ _ h)

theorem fieldInserter_wf (pre n post p : Nat) (hp : p < n) : (fieldInserter pre n post p : Coo K).wf = true := by
  unfold fieldInserter; apply onAxis_wf
  rw [wf_iff]; intro e he
  simp only [List.mem_singleton] at he; subst he; exact ⟨hp, Nat.zero_lt_one⟩

theorem valueInserter_wf (shape index : List Nat) (h : inShape shape index = true) :
    (valueInserter shape index : Coo K).wf = true := by
  unfold valueInserter; rw [wf_iff]; intro e he
  simp only [List.mem_singleton] at he; subst he; exact ⟨ravel_lt shape index h, Nat.zero_lt_one⟩

theorem conjugation_wf (n : Nat) : (conjugation n : Coo K).wf = true := diag_wf _ _
theorem partialConj_wf (n : Nat) (r : List (Nat × Nat)) : (partialConj n r : Coo K).wf = true := diag_wf _ _
theorem weightApplier_wf {F : Type} [Field F] (doms : List (SubDom F)) (sp : List Nat) (p : Int) :
    (weightApplier doms sp p).wf = true := diag_wf _ _
theorem diagonalOp_wf (sizes spaces : List Nat) (d : List K) : (diagonalOp sizes spaces d).wf = true := diag_wf _ _

theorem realizer_wf (n : Nat) : (realizer n : Coo K).wf = true := by
  unfold realizer; apply ofRows_wf; intro r hr cw hcw
  by_cases h : r % 2 = 0
  · simp only [h, if_true, List.mem_singleton] at hcw; subst hcw; exact hr
  · simp [h] at hcw

theorem imaginizer_wf (n : Nat) : (imaginizer n : Coo K).wf = true := by
  unfold imaginizer; apply ofRows_wf; intro r hr cw hcw
  by_cases h : r % 2 = 0
  · simp only [h, if_true, List.mem_singleton] at hcw; subst hcw; simp only; omega
  · simp [h] at hcw

/-- the per-axis loop of the padder / regridder / fftshift keeps well-formedness -/
theorem alongAxes_wf (sh : List Nat) (d0 : Nat) (ops : List (Option (Coo K)))
    (h : ∀ M, some M ∈ ops → M.wf = true) : (alongAxes sh d0 ops).wf = true := by
  unfold alongAxes
  suffices hs : ∀ (ops : List (Option (Coo K))) (st : Coo K × List Nat × Nat), st.1.wf = true →
      (∀ M, some M ∈ ops → M.wf = true) →
      ((ops.foldl (fun (st : Coo K × List Nat × Nat) (M : Option (Coo K)) =>
        let (tot, cur, d) := st
        match M with
        | none => (tot, cur, d + 1)
        | some M => (comp (onAxis (prodL (cur.take d)) (prodL (cur.drop (d + 1))) M) tot, cur.set d M.rows, d + 1))
        st)).1.wf = true by
    exact hs ops _ (ident_wf _) h
  intro ops
  induction ops with
  | nil => intro st hst _; exact hst
  | cons o ops ih =>
    intro st hst hops
    rw [List.foldl_cons]
    apply ih
    · obtain ⟨tot, cur, d⟩ := st
      cases o with
      | none => exact hst
      | some M =>
        exact comp_wf _ _ (onAxis_wf _ _ _ (hops M List.mem_cons_self)) hst
    · intro M hM; exact hops M (List.mem_cons_of_mem _ hM)

theorem regrid1_wf' (q : Nat → Nat → K) (n N : Nat) (hn : 1 ≤ n) : (regrid1 q n N).wf = true := by
  unfold regrid1; apply ofRows_wf
  intro r _ cw hcw
  simp only [List.mem_cons, List.mem_nil_iff, or_false] at hcw
  rcases hcw with rfl | rfl
  · simp only; omega
  · simp only; omega

theorem regridding_wf (q : Nat → Nat → K) (sh : List Nat) (d0 : Nat) (newShape : List Nat)
    (hpos : ∀ k, k < newShape.length → 1 ≤ sh.getD (d0 + k) 0) : (regridding q sh d0 newShape).wf = true := by
  unfold regridding; apply alongAxes_wf
  intro M hM
  simp only [List.mem_map, List.mem_range, Option.some.injEq] at hM
  obtain ⟨k, hk, rfl⟩ := hM
  exact regrid1_wf' q _ _ (hpos k hk)

theorem padder_wf (sh : List Nat) (d0 : Nat) (newShape : List Nat) (central : Bool)
    (hge : ∀ k, k < newShape.length → sh.getD (d0 + k) 0 ≤ newShape.getD k 0) :
    (padder sh d0 newShape central : Coo K).wf = true := by
  unfold padder; apply alongAxes_wf
  intro M hM
  simp only [List.mem_map, List.mem_range] at hM
  obtain ⟨k, hk, hk2⟩ := hM
  split at hk2
  · simp at hk2
  · simp only [Option.some.injEq] at hk2
    subst hk2; exact pad1_wf _ _ (hge k hk) _

theorem fftshift_wf (sh : List Nat) (axes : List Nat) (inverse : Bool) :
    (fftshift sh axes inverse : Coo K).wf = true := by
  unfold fftshift; apply alongAxes_wf
  intro M hM
  simp only [List.mem_map, List.mem_range] at hM
  obtain ⟨d, hd, hd2⟩ := hM
  split at hd2
  · simp only [Option.some.injEq] at hd2
    subst hd2; exact shift1_wf _ _
  · simp at hd2

end
end NiftyVerif
