/-
  Lemmas for C35 / LOS, part 2: all axes together — the flat pixel index along the line, completeness of the code's crossing
  list, and the walk along the sorted crossings (`cumsum` of `±inc` steps = pixel of the midpoint of every sub-segment).
-/
import NiftyVerif.Lemmas.ResponseLos
import Mathlib.Data.List.Nodup

namespace NiftyVerif.ResponseLos
open NiftyVerif Coo NiftyVerif.Response

abbrev Axis := ℕ × ℚ × ℚ        -- (inc, start, direction)

/-- flat pixel index (`Σ_j ⌊s_j + t·d_j⌋·inc_j`) of the point at parameter `t` -/
def flatF (t : ℚ) : List Axis → ℤ
  | [] => 0
  | a :: ax => ⌊a.2.1 + t * a.2.2⌋ * (a.1 : ℤ) + flatF t ax

/-- the point at parameter `lo` lies on no grid plane of a moving axis -/
def GenEntry (lo : ℚ) (ax : List Axis) : Prop := ∀ a ∈ ax, a.2.2 ≠ 0 → ¬ Cross a.2.1 a.2.2 lo

def NoCross (m m' : ℚ) (ax : List Axis) : Prop :=
  ∀ a ∈ ax, a.2.2 ≠ 0 → ∀ t, m ≤ t → t ≤ m' → ¬ Cross a.2.1 a.2.2 t

theorem flatF_const (m m' : ℚ) (hmm : m ≤ m') : ∀ ax : List Axis, NoCross m m' ax → flatF m' ax = flatF m ax
  | [], _ => rfl
  | a :: ax, h => by
    have h1 := floor_const a.2.1 a.2.2 m m' hmm (h a List.mem_cons_self)
    have h2 := flatF_const m m' hmm ax (fun b hb => h b (List.mem_cons_of_mem _ hb))
    simp only [flatF, h1, h2]

theorem mem_eventsA_of_cross (lo hi t : ℚ) : ∀ ax : List Axis, GenEntry lo ax → ∀ a ∈ ax, a.2.2 ≠ 0 → lo < t → t < hi →
    Cross a.2.1 a.2.2 t → t ∈ (eventsA lo hi ax).map Prod.fst
  | [], _, a, ha, _, _, _, _ => by simp at ha
  | b :: ax, hg, a, ha, hd, h1, h2, hc => by
    simp only [eventsA, List.map_append, List.mem_append]
    rcases List.mem_cons.mp ha with rfl | ha'
    · left
      exact (mem_axisEvents_fst a.1 a.2.1 a.2.2 lo hi t hd (hg a List.mem_cons_self hd)).mpr ⟨h1, h2, hc⟩
    · right
      exact mem_eventsA_of_cross lo hi t ax (fun c hc' => hg c (List.mem_cons_of_mem _ hc')) a ha' hd h1 h2 hc

theorem eventsA_bounds (lo hi : ℚ) : ∀ ax : List Axis, GenEntry lo ax → ∀ e ∈ eventsA lo hi ax, lo < e.1 ∧ e.1 < hi
  | [], _, e, he => by simp [eventsA] at he
  | b :: ax, hg, e, he => by
    simp only [eventsA, List.mem_append] at he
    rcases he with he | he
    · obtain ⟨hd, _⟩ := axisEvents_snd _ _ _ _ _ e he
      have := (mem_axisEvents_fst b.1 b.2.1 b.2.2 lo hi e.1 hd (hg b List.mem_cons_self hd)).mp
        (List.mem_map_of_mem he)
      exact ⟨this.1, this.2.1⟩
    · exact eventsA_bounds lo hi ax (fun c hc' => hg c (List.mem_cons_of_mem _ hc')) e he

theorem noCross_of_no_events (lo hi m m' : ℚ) (ax : List Axis) (hg : GenEntry lo ax) (h1 : lo ≤ m) (h2 : m' < hi)
    (hno : ∀ e ∈ eventsA lo hi ax, ¬ (m ≤ e.1 ∧ e.1 ≤ m')) : NoCross m m' ax := by
  intro a ha hd t ht1 ht2 hc
  rcases eq_or_lt_of_le (le_trans h1 ht1) with heq | hlt
  · exact hg a ha hd (heq ▸ hc)
  · have hmem := mem_eventsA_of_cross lo hi t ax hg a ha hd hlt (lt_of_le_of_lt ht2 h2) hc
    obtain ⟨e, he, rfl⟩ := List.mem_map.mp hmem
    exact hno e he ⟨ht1, ht2⟩

/-- crossing exactly one grid plane (event `(t₀, st)`) between `m₀` and `m` changes the flat index by `st = ±inc` -/
theorem flatF_step (lo hi m₀ m t₀ : ℚ) (st : ℤ) (h1 : lo ≤ m₀) (h2 : m₀ < t₀) (h3 : t₀ < m) (h4 : m < hi) :
    ∀ ax : List Axis, GenEntry lo ax → (t₀, st) ∈ eventsA lo hi ax → ((eventsA lo hi ax).map Prod.fst).Nodup →
      (∀ e ∈ eventsA lo hi ax, m₀ ≤ e.1 → e.1 ≤ m → e.1 = t₀) → flatF m ax = flatF m₀ ax + st
  | [], _, hmem, _, _ => by simp [eventsA] at hmem
  | a :: ax, hg, hmem, hnd, hwin => by
    have hg' : GenEntry lo ax := fun c hc' => hg c (List.mem_cons_of_mem _ hc')
    simp only [eventsA, List.map_append] at hnd hmem hwin
    obtain ⟨hnd1, hnd2, hdis⟩ := List.nodup_append.mp hnd
    have hm0m : m₀ ≤ m := le_of_lt (lt_trans h2 h3)
    rcases List.mem_append.mp hmem with hA | hR
    · -- the event belongs to the head axis
      obtain ⟨hd, hst⟩ := axisEvents_snd _ _ _ _ _ _ hA
      have hga := hg a List.mem_cons_self hd
      have hcross := ((mem_axisEvents_fst a.1 a.2.1 a.2.2 lo hi t₀ hd hga).mp (List.mem_map_of_mem hA)).2.2
      have hhead : ⌊a.2.1 + m * a.2.2⌋ = ⌊a.2.1 + m₀ * a.2.2⌋ + sgn a.2.2 := by
        refine floor_step _ _ _ _ t₀ hd h2 h3 hcross ?_
        intro t ht1 ht2 hne hc
        rcases eq_or_lt_of_le (le_trans h1 ht1) with heq | hlt
        · exact hga (heq ▸ hc)
        · have := (mem_axisEvents_fst a.1 a.2.1 a.2.2 lo hi t hd hga).mpr ⟨hlt, lt_of_le_of_lt ht2 h4, hc⟩
          obtain ⟨e, he, rfl⟩ := List.mem_map.mp this
          exact hne (hwin e (List.mem_append_left _ he) ht1 ht2)
      have htail : flatF m ax = flatF m₀ ax := by
        refine flatF_const m₀ m hm0m ax (noCross_of_no_events lo hi m₀ m ax hg' h1 h4 ?_)
        rintro e he ⟨he1, he2⟩
        have := hwin e (List.mem_append_right _ he) he1 he2
        exact hdis t₀ (List.mem_map_of_mem (f := Prod.fst) hA) e.1 (List.mem_map_of_mem he) this.symm
      simp only [flatF, hhead, htail]
      simp only at hst
      rw [hst]; ring
    · -- the event belongs to a later axis
      have hhead : ⌊a.2.1 + m * a.2.2⌋ = ⌊a.2.1 + m₀ * a.2.2⌋ := by
        refine floor_const _ _ _ _ hm0m ?_
        intro hd t ht1 ht2 hc
        have hga := hg a List.mem_cons_self hd
        rcases eq_or_lt_of_le (le_trans h1 ht1) with heq | hlt
        · exact hga (heq ▸ hc)
        · have := (mem_axisEvents_fst a.1 a.2.1 a.2.2 lo hi t hd hga).mpr ⟨hlt, lt_of_le_of_lt ht2 h4, hc⟩
          obtain ⟨e, he, rfl⟩ := List.mem_map.mp this
          have he0 := hwin e (List.mem_append_left _ he) ht1 ht2
          exact hdis e.1 (List.mem_map_of_mem he) t₀ (List.mem_map_of_mem (f := Prod.fst) hR) he0
      have htail := flatF_step lo hi m₀ m t₀ st h1 h2 h3 h4 ax hg' hR hnd2
        (fun e he => hwin e (List.mem_append_right _ he))
      simp only [flatF, hhead, htail]; ring

/-! ### the walk along the sorted crossings -/

/-- what the code emits: `zip (cumsum (q :: steps)) (diff (a :: ts ++ [hi]))` -/
def walkT : ℤ → ℚ → List (ℚ × ℤ) → ℚ → List (ℤ × ℚ)
  | q, a, [], hi => [(q, hi - a)]
  | q, a, e :: T, hi => (q, e.1 - a) :: walkT (q + e.2) e.1 T hi

/-- what the independent model emits: pixel of the midpoint of every sub-interval -/
def walkF (ax : List Axis) : ℚ → List ℚ → ℚ → List (ℤ × ℚ)
  | a, [], hi => [(flatF ((a + hi) / 2) ax, hi - a)]
  | a, t :: T, hi => (flatF ((a + t) / 2) ax, t - a) :: walkF ax t T hi

theorem walk_eq (lo hi : ℚ) (ax : List Axis) (hg : GenEntry lo ax)
    (hnd : ((eventsA lo hi ax).map Prod.fst).Nodup) :
    ∀ (T : List (ℚ × ℤ)) (a : ℚ) (q : ℤ), (T.map Prod.fst).Pairwise (· < ·) → lo ≤ a → a < hi →
      (∀ e ∈ T, a < e.1) → (∀ e ∈ T, e.1 < hi) → (∀ e ∈ T, e ∈ eventsA lo hi ax) →
      (∀ e ∈ eventsA lo hi ax, a < e.1 → e ∈ T) →
      (∀ m, a < m → m < hi → (∀ e ∈ T, m < e.1) → q = flatF m ax) →
      walkT q a T hi = walkF ax a (T.map Prod.fst) hi
  | [], a, q, _, _, hahi, _, _, _, _, hq => by
    simp only [walkT, List.map_nil, walkF]
    rw [hq ((a + hi) / 2) (by linarith) (by linarith) (by simp)]
  | e :: T, a, q, hs, hlo, hahi, ha, hhi, hsub, hcomp, hq => by
    have hea : a < e.1 := ha e List.mem_cons_self
    have hehi : e.1 < hi := hhi e List.mem_cons_self
    rw [List.map_cons, List.pairwise_cons] at hs
    have hlater : ∀ e' ∈ T, e.1 < e'.1 := fun e' he' => hs.1 e'.1 (List.mem_map_of_mem he')
    have hq0 : q = flatF ((a + e.1) / 2) ax := by
      refine hq _ (by linarith) (by linarith) ?_
      intro e' he'
      rcases List.mem_cons.mp he' with rfl | he''
      · linarith
      · have := hlater e' he''; linarith
    simp only [walkT, List.map_cons, walkF]
    rw [← hq0]
    congr 1
    refine walk_eq lo hi ax hg hnd T e.1 (q + e.2) hs.2 (le_trans hlo hea.le) hehi hlater
      (fun e' he' => hhi e' (List.mem_cons_of_mem _ he')) (fun e' he' => hsub e' (List.mem_cons_of_mem _ he')) ?_ ?_
    · intro e' he' hlt
      rcases List.mem_cons.mp (hcomp e' he' (lt_trans hea hlt)) with rfl | h
      · exact absurd hlt (lt_irrefl _)
      · exact h
    · intro m hm1 hm2 hm3
      rw [hq0]
      refine (flatF_step lo hi ((a + e.1) / 2) m e.1 e.2 (by linarith) (by linarith) hm1 hm2 ax hg
        (hsub e List.mem_cons_self) hnd ?_).symm
      intro e' he' h1 h2
      rcases List.mem_cons.mp (hcomp e' he' (by linarith)) with rfl | h
      · rfl
      · have := hm3 e' h; linarith

end NiftyVerif.ResponseLos
