/-
  Lemmas about the crash file-system model (Model/CrashFS.lean): frame rule, effect of a complete file write,
  decomposition of prefixes (= crash points) of concatenated op sequences.
-/
import NiftyVerif.Model.CrashFS
namespace NiftyVerif.CrashFS

variable {P : Type} [DecidableEq P]

theorem set_same (fs : FS P) (p : P) (v : Option Bytes) : (fs.set p v) p = v := by
  simp [FS.set]

theorem set_other (fs : FS P) {p q : P} (v : Option Bytes) (h : q ≠ p) : (fs.set p v) q = fs q := by
  simp [FS.set, h]

theorem execs_nil (fs : FS P) : execs fs [] = fs := rfl

theorem execs_cons (fs : FS P) (o : Op P) (ops : List (Op P)) : execs fs (o :: ops) = execs (exec fs o) ops := rfl

theorem execs_append (fs : FS P) (a b : List (Op P)) : execs fs (a ++ b) = execs (execs fs a) b := by
  simp [execs, List.foldl_append]

/-- frame rule for one op -/
theorem exec_untouched (fs : FS P) (o : Op P) (q : P) (h : o.touches q = false) : exec fs o q = fs q := by
  cases o <;> simp_all [Op.touches, exec, FS.set] <;> grind

/-- frame rule: operations that do not touch `q` leave its entry alone -/
theorem execs_untouched (ops : List (Op P)) (q : P) (h : ∀ o ∈ ops, o.touches q = false) :
    ∀ fs : FS P, execs fs ops q = fs q := by
  induction ops with
  | nil => intro fs; rfl
  | cons o ops ih =>
    intro fs
    rw [execs_cons, ih (fun o' ho' => h o' (List.mem_cons_of_mem _ ho'))]
    exact exec_untouched fs o q (h o (List.mem_cons_self))

/-- a crash point of `a ++ b` lies in `a`, or `a` is complete and the crash point lies in `b` -/
theorem prefix_append_cases {α : Type} {pre a b : List α} (h : pre <+: a ++ b) :
    pre <+: a ∨ ∃ t, pre = a ++ t ∧ t <+: b := by
  induction a generalizing pre with
  | nil => right; exact ⟨pre, by simp, by simpa using h⟩
  | cons x a ih =>
    rw [List.cons_append, List.prefix_cons_iff] at h
    rcases h with h | ⟨t, rfl, ht⟩
    · left; subst h; exact List.nil_prefix
    · rcases ih ht with h1 | ⟨t', rfl, ht'⟩
      · left; exact (List.cons_prefix_cons).2 ⟨rfl, h1⟩
      · right; exact ⟨t', by simp, ht'⟩

theorem mem_of_mem_prefix {α : Type} {pre l : List α} (h : pre <+: l) {x : α} (hx : x ∈ pre) : x ∈ l :=
  h.subset hx

/-- appends accumulate -/
theorem execs_appends (p : P) (c : Bytes) : ∀ (fs : FS P) (acc : Bytes), fs p = some acc →
    execs fs (c.map (Op.append p)) p = some (acc ++ c) := by
  induction c with
  | nil => intro fs acc h; simpa [execs_nil] using h
  | cons b c ih =>
    intro fs acc h
    rw [List.map_cons, execs_cons]
    have : exec fs (Op.append p b) p = some (acc ++ [b]) := by simp [exec, FS.set, h]
    rw [ih _ _ this]; simp

/-- a completed `with open(p,"wb") as f: f.write(c)` leaves exactly `c` in `p` -/
theorem execs_writeFile (fs : FS P) (p : P) (c : Bytes) : execs fs (writeFile p c) p = some c := by
  unfold writeFile
  rw [execs_cons, execs_cons, execs_append, execs_cons, execs_nil]
  have h0 : exec (exec fs (Op.openW p)) (Op.wbuf p) p = some [] := by simp [exec, FS.set]
  have := execs_appends p c _ _ h0
  simpa [exec] using this

theorem writeFile_untouched (p q : P) (c : Bytes) (h : p ≠ q) : ∀ o ∈ writeFile p c, o.touches q = false := by
  intro o ho
  simp only [writeFile, List.mem_cons, List.mem_append, List.mem_map, List.not_mem_nil, or_false] at ho
  rcases ho with rfl | rfl | ⟨b, _, rfl⟩ | rfl <;> simp [Op.touches, h]

theorem appendFile_untouched (p q : P) (c : Bytes) (h : p ≠ q) : ∀ o ∈ appendFile p c, o.touches q = false := by
  intro o ho
  simp only [appendFile, List.mem_cons, List.mem_append, List.mem_map, List.not_mem_nil, or_false] at ho
  rcases ho with rfl | rfl | ⟨b, _, rfl⟩ | rfl <;> simp [Op.touches, h]

/-- every crash point inside operations that do not touch `q` leaves `q` alone -/
theorem prefix_untouched {ops pre : List (Op P)} (q : P) (h : ∀ o ∈ ops, o.touches q = false) (hp : pre <+: ops)
    (fs : FS P) : execs fs pre q = fs q :=
  execs_untouched pre q (fun o ho => h o (mem_of_mem_prefix hp ho)) fs

/-- a partially written file holds a prefix of the intended content: crash points inside `writeFile p c` -/
theorem prefix_writeFile {pre : List (Op P)} (p : P) (c : Bytes) (hp : pre <+: writeFile p c) (fs : FS P) :
    pre = [] ∨ ∃ c', c' <+: c ∧ execs fs pre p = some c' := by
  unfold writeFile at hp
  rw [List.prefix_cons_iff] at hp
  rcases hp with rfl | ⟨t0, rfl, ht0⟩
  · left; rfl
  · right
    have h0 : exec (exec fs (Op.openW p)) (Op.wbuf p) p = some [] := by simp [exec, FS.set]
    rw [List.prefix_cons_iff] at ht0
    rcases ht0 with rfl | ⟨t, rfl, ht⟩
    · exact ⟨[], List.nil_prefix, by simp [execs_cons, execs_nil, exec, FS.set]⟩
    rcases prefix_append_cases ht with h1 | ⟨t', rfl, ht'⟩
    · -- inside the flush: t is a prefix of c.map append, so t = c'.map append for the prefix c' of c
      obtain ⟨c', hc', rfl⟩ : ∃ c', c' <+: c ∧ t = c'.map (Op.append p) := by
        rw [List.prefix_iff_eq_take] at h1
        refine ⟨c.take t.length, List.take_prefix _ _, ?_⟩
        rw [h1, List.map_take]; simp
      refine ⟨c', hc', ?_⟩
      rw [execs_cons, execs_cons]
      simpa using execs_appends p c' _ _ h0
    · refine ⟨c, List.prefix_refl c, ?_⟩
      rw [execs_cons, execs_cons, execs_append]
      have h1 := execs_appends p c _ _ h0
      have : ∀ o ∈ t', Op.touches p o = false := by
        intro o ho
        have := mem_of_mem_prefix ht' ho
        simp only [List.mem_singleton] at this; subst this; simp [Op.touches]
      rw [execs_untouched t' p this]; simpa using h1

end NiftyVerif.CrashFS
