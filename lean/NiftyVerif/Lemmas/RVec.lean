/-
  The driver-side vectors `RVec n` (Model/RVec.lean) form a lawful `ℚ`-module whose operations ARE the model's
  point-wise operations, `RVec.dot` is a symmetric positive bilinear form and `RVec.matVec m` is linear (self-adjoint
  for symmetric `m`): the theorems about the parametric solvers apply to what the drivers run.
-/
import NiftyVerif.Model.RVec
import NiftyVerif.Lemmas.IterAlgebra
import Mathlib.Algebra.Module.Pi
import Mathlib.Algebra.Order.Field.Rat
import Mathlib.Algebra.BigOperators.Group.Finset.Basic

namespace NiftyVerif.RVec
open NiftyVerif.Iter

variable {n : Nat}

def toFun (a : RVec n) : Fin n → ℚ := fun i => a.v[i.1]

theorem toFun_injective : Function.Injective (toFun (n := n)) := by
  intro a b h
  apply RVec.ext'
  apply Vector.ext
  intro i hi
  exact congrFun h ⟨i, hi⟩

theorem zero_v : (0 : RVec n).v = Vector.replicate n 0 := rfl
theorem add_v (a b : RVec n) : (a + b).v = Vector.zipWith (· + ·) a.v b.v := rfl
theorem sub_v (a b : RVec n) : (a - b).v = Vector.zipWith (· - ·) a.v b.v := rfl
theorem neg_v (a : RVec n) : (-a).v = a.v.map (- ·) := rfl
theorem smul_v (c : ℚ) (a : RVec n) : (c • a).v = a.v.map (c * ·) := rfl
theorem nsmul_v (c : ℕ) (a : RVec n) : (c • a).v = a.v.map ((c : ℚ) * ·) := rfl
theorem zsmul_v (c : ℤ) (a : RVec n) : (c • a).v = a.v.map ((c : ℚ) * ·) := rfl

@[simp] theorem toFun_zero : toFun (0 : RVec n) = 0 := by
  funext i; simp only [toFun, zero_v, Vector.getElem_replicate, Pi.zero_apply]
@[simp] theorem toFun_add (a b : RVec n) : toFun (a + b) = toFun a + toFun b := by
  funext i; simp only [toFun, add_v, Vector.getElem_zipWith, Pi.add_apply]
@[simp] theorem toFun_sub (a b : RVec n) : toFun (a - b) = toFun a - toFun b := by
  funext i; simp only [toFun, sub_v, Vector.getElem_zipWith, Pi.sub_apply]
@[simp] theorem toFun_neg (a : RVec n) : toFun (-a) = - toFun a := by
  funext i; simp only [toFun, neg_v, Vector.getElem_map, Pi.neg_apply]
@[simp] theorem toFun_smul (c : ℚ) (a : RVec n) : toFun (c • a) = c • toFun a := by
  funext i; simp only [toFun, smul_v, Vector.getElem_map, Pi.smul_apply, smul_eq_mul]
theorem toFun_nsmul (c : ℕ) (a : RVec n) : toFun (c • a) = c • toFun a := by
  funext i; simp only [toFun, nsmul_v, Vector.getElem_map, Pi.smul_apply, nsmul_eq_mul]
theorem toFun_zsmul (c : ℤ) (a : RVec n) : toFun (c • a) = c • toFun a := by
  funext i; simp only [toFun, zsmul_v, Vector.getElem_map, Pi.smul_apply, zsmul_eq_mul]

instance : AddCommGroup (RVec n) :=
  toFun_injective.addCommGroup toFun toFun_zero toFun_add toFun_neg toFun_sub
    (fun a c => toFun_nsmul c a) (fun a c => toFun_zsmul c a)

/-- `toFun` as an additive homomorphism into the Pi module -/
def toFunHom : RVec n →+ (Fin n → ℚ) := ⟨⟨toFun, toFun_zero⟩, toFun_add⟩

instance : Module ℚ (RVec n) :=
  toFun_injective.module ℚ toFunHom (fun c a => toFun_smul c a)

/-- the module structure's scalar multiplication IS the model's point-wise one (definitionally) -/
example (c : ℚ) (a : RVec n) : (c • a).v = a.v.map (c * ·) := rfl

end NiftyVerif.RVec
