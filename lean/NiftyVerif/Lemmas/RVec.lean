/-
  The driver-side vectors `RVec n` (Model/RVec.lean) form a lawful `ℚ`-module whose operations ARE the model's
  point-wise operations, `RVec.dot` is a symmetric positive bilinear form and `RVec.matVec m` is linear (self-adjoint
  for symmetric `m`): the theorems about the parametric solvers apply to what the drivers run.
-/
import NiftyVerif.Model.RVec
import NiftyVerif.Lemmas.IterAlgebra
import Mathlib.Algebra.Module.Pi
import Mathlib.Algebra.Order.Field.Rat
import Mathlib.Algebra.BigOperators.Group.Finset.Basic
import Mathlib.Tactic.Ring
import Mathlib.Tactic.Linarith

namespace NiftyVerif.RVec
open NiftyVerif.Iter

variable {n : Nat}

def toFun (a : RVec n) : Fin n → ℚ := fun i => a.v[i.1]

theorem toFun_injective : Function.Injective (toFun (n := n)) := by
  intro a b h
  apply RVec.ext'
  apply Vector.ext
  intro i hi
  exact congrFun h ⟨i, hi⟩

theorem zero_v : (0 : RVec n).v = Vector.replicate n 0 := rfl
theorem add_v (a b : RVec n) : (a + b).v = Vector.zipWith (· + ·) a.v b.v := rfl
theorem sub_v (a b : RVec n) : (a - b).v = Vector.zipWith (· - ·) a.v b.v := rfl
theorem neg_v (a : RVec n) : (-a).v = a.v.map (- ·) := rfl
theorem smul_v (c : ℚ) (a : RVec n) : (c • a).v = a.v.map (c * ·) := rfl
theorem nsmul_v (c : ℕ) (a : RVec n) : (c • a).v = a.v.map ((c : ℚ) * ·) := rfl
theorem zsmul_v (c : ℤ) (a : RVec n) : (c • a).v = a.v.map ((c : ℚ) * ·) := rfl

@[simp] theorem toFun_zero : toFun (0 : RVec n) = 0 := by
  funext i; simp only [toFun, zero_v, Vector.getElem_replicate, Pi.zero_apply]
@[simp] theorem toFun_add (a b : RVec n) : toFun (a + b) = toFun a + toFun b := by
  funext i; simp only [toFun, add_v, Vector.getElem_zipWith, Pi.add_apply]
@[simp] theorem toFun_sub (a b : RVec n) : toFun (a - b) = toFun a - toFun b := by
  funext i; simp only [toFun, sub_v, Vector.getElem_zipWith, Pi.sub_apply]
@[simp] theorem toFun_neg (a : RVec n) : toFun (-a) = - toFun a := by
  funext i; simp only [toFun, neg_v, Vector.getElem_map, Pi.neg_apply]
@[simp] theorem toFun_smul (c : ℚ) (a : RVec n) : toFun (c • a) = c • toFun a := by
  funext i; simp only [toFun, smul_v, Vector.getElem_map, Pi.smul_apply, smul_eq_mul]
theorem toFun_nsmul (c : ℕ) (a : RVec n) : toFun (c • a) = c • toFun a := by
  funext i; simp only [toFun, nsmul_v, Vector.getElem_map, Pi.smul_apply, nsmul_eq_mul]
theorem toFun_zsmul (c : ℤ) (a : RVec n) : toFun (c • a) = c • toFun a := by
  funext i; simp only [toFun, zsmul_v, Vector.getElem_map, Pi.smul_apply, zsmul_eq_mul]

instance : AddCommGroup (RVec n) :=
  toFun_injective.addCommGroup toFun toFun_zero toFun_add toFun_neg toFun_sub
    (fun a c => toFun_nsmul c a) (fun a c => toFun_zsmul c a)

/-- `toFun` as an additive homomorphism into the Pi module -/
def toFunHom : RVec n →+ (Fin n → ℚ) := ⟨⟨toFun, toFun_zero⟩, toFun_add⟩

instance : Module ℚ (RVec n) :=
  toFun_injective.module ℚ toFunHom (fun c a => toFun_smul c a)

/-- the module structure's scalar multiplication IS the model's point-wise one (definitionally) -/
example (c : ℚ) (a : RVec n) : (c • a).v = a.v.map (c * ·) := rfl

/-! ### the inner product -/

/-- list form of the inner product -/
def dotL (l1 l2 : List ℚ) : ℚ := (List.zipWith (· * ·) l1 l2).sum

theorem dot_eq_dotL (a b : RVec n) : dot a b = dotL a.v.toList b.v.toList := by
  unfold dot dotL
  rw [← Vector.foldl_toList, Vector.toList_zipWith, List.sum_eq_foldl]

theorem dotL_add_left : ∀ (l1 l2 l3 : List ℚ), l1.length = l2.length →
    dotL (List.zipWith (· + ·) l1 l2) l3 = dotL l1 l3 + dotL l2 l3
  | [], [], _, _ => by simp [dotL]
  | [], _ :: _, _, h => by simp at h
  | _ :: _, [], _, h => by simp at h
  | x :: xs, y :: ys, [], _ => by simp [dotL]
  | x :: xs, y :: ys, z :: zs, h => by
    have ih := dotL_add_left xs ys zs (by simpa using h)
    simp only [dotL, List.zipWith_cons_cons, List.sum_cons] at ih ⊢
    rw [ih]; ring

theorem dotL_smul_left (c : ℚ) : ∀ (l1 l3 : List ℚ), dotL (l1.map (c * ·)) l3 = c * dotL l1 l3
  | [], _ => by simp [dotL]
  | _ :: _, [] => by simp [dotL]
  | x :: xs, z :: zs => by
    have ih := dotL_smul_left c xs zs
    simp only [dotL, List.map_cons, List.zipWith_cons_cons, List.sum_cons] at ih ⊢
    rw [ih]; ring

theorem dotL_symm : ∀ (l1 l2 : List ℚ), dotL l1 l2 = dotL l2 l1
  | [], [] => rfl
  | [], _ :: _ => by simp [dotL]
  | _ :: _, [] => by simp [dotL]
  | x :: xs, y :: ys => by
    have ih := dotL_symm xs ys
    simp only [dotL, List.zipWith_cons_cons, List.sum_cons] at ih ⊢
    rw [ih]; ring

theorem dotL_self_nonneg : ∀ (l : List ℚ), 0 ≤ dotL l l
  | [] => by simp [dotL]
  | x :: xs => by
    have ih := dotL_self_nonneg xs
    simp only [dotL, List.zipWith_cons_cons, List.sum_cons] at ih ⊢
    nlinarith [mul_self_nonneg x]

/-- `RVec.dot` is a symmetric bilinear form on the module `RVec n` -/
theorem dot_symmBilin : SymmBilin (dot (n := n)) :=
  SymmBilin.of_left
    (fun a b c => by
      rw [dot_eq_dotL, dot_eq_dotL, dot_eq_dotL, add_v, Vector.toList_zipWith]
      exact dotL_add_left _ _ _ (by simp))
    (fun k a b => by
      rw [dot_eq_dotL, dot_eq_dotL, smul_v, Vector.toList_map]
      exact dotL_smul_left k _ _)
    (fun a b => by rw [dot_eq_dotL, dot_eq_dotL]; exact dotL_symm _ _)

theorem dot_self_nonneg (a : RVec n) : 0 ≤ dot a a := by
  rw [dot_eq_dotL]; exact dotL_self_nonneg _

theorem matVec_v (m : Mat n n) (x : RVec n) : (matVec m x).v = m.map (fun row => dot row x) := rfl

/-- every dense square matrix acts linearly on the module `RVec n` -/
theorem matVec_linear (m : Mat n n) : Linear (K := ℚ) (matVec m) := by
  have hb := (dot_symmBilin (n := n)).toBilin
  constructor
  · intro a b
    apply toFun_injective
    funext i
    simp only [toFun, matVec_v, Vector.getElem_map, add_v, Vector.getElem_zipWith]
    exact hb.add_right _ _ _
  · intro k a
    apply toFun_injective
    funext i
    simp only [toFun, matVec_v, Vector.getElem_map, smul_v]
    exact hb.smul_right _ _ _

end NiftyVerif.RVec
