/-
  Helper lemmas for C26 (sample files): `_consecutive_length`, the effect of a successful save, loading from a
  directory that holds `0..n-1` and lacks `n`.  Imports Props/C22 for `localIndices_concat` (shareRange partition).
-/
import NiftyVerif.Model.SampleFiles
import NiftyVerif.Props.C22
import Mathlib.Data.List.Perm.Subperm

namespace NiftyVerif.SampleFiles
open NiftyVerif.Distributed

/-! ### `_consecutive_length` -/

theorem range_subset_length {lst : List Nat} {k : Nat} (h : ∀ i, i < k → i ∈ lst) : k ≤ lst.length := by
  have hs : List.range k ⊆ lst := by
    intro i hi; exact h i (List.mem_range.mp hi)
  have := (List.Nodup.subperm (List.nodup_range (n := k)) hs).length_le
  simpa using this

theorem consGo_spec (lst : List Nat) : ∀ (f res : Nat), (∀ i, i ≤ res → i ∈ lst) → res + f = lst.length →
    res < consGo lst res f ∧ (∀ i, i < consGo lst res f → i ∈ lst) ∧ consGo lst res f ∉ lst := by
  intro f
  induction f with
  | zero =>
    intro res h hlen
    exfalso
    have := range_subset_length (lst := lst) (k := res + 1) (fun i hi => h i (by omega))
    omega
  | succ f ih =>
    intro res h hlen
    unfold consGo
    by_cases hm : (res + 1) ∈ lst
    · rw [if_pos hm]
      have := ih (res + 1) (fun i hi => by
        rcases Nat.lt_or_ge i (res + 1) with h1 | h1
        · exact h i (by omega)
        · have : i = res + 1 := by omega
          subst this; exact hm) (by omega)
      exact ⟨by omega, this.2⟩
    · rw [if_neg hm]
      exact ⟨by omega, fun i hi => h i (by omega), hm⟩

theorem consecutiveLength_spec {lst : List Nat} {r : Nat} (h : consecutiveLength lst = .ok r) :
    0 ∈ lst ∧ 1 ≤ r ∧ (∀ i, i < r → i ∈ lst) ∧ r ∉ lst := by
  unfold consecutiveLength at h
  by_cases h0 : 0 ∈ lst
  · simp only [h0, if_true] at h
    injection h with h
    subst h
    have := consGo_spec lst lst.length 0 (fun i hi => by
      have : i = 0 := by omega
      subst this; exact h0) (by omega)
    exact ⟨h0, by omega, this.2⟩
  · simp [h0] at h

/-- the value is determined: if `0..n-1` are in the list and `n` is not, the result is `n` -/
theorem consecutiveLength_eq {lst : List Nat} {n : Nat} (hn : 1 ≤ n) (h1 : ∀ i, i < n → i ∈ lst) (h2 : n ∉ lst) :
    consecutiveLength lst = .ok n := by
  have h0 : 0 ∈ lst := h1 0 (by omega)
  have hr : consecutiveLength lst = .ok (consGo lst 0 lst.length) := by simp [consecutiveLength, h0]
  obtain ⟨_, _, h3, h4⟩ := consecutiveLength_spec hr
  rw [hr]
  congr 1
  rcases Nat.lt_trichotomy (consGo lst 0 lst.length) n with h | h | h
  · exact absurd (h1 _ h) h4
  · exact h
  · exact absurd (h3 n h) h2

/-! ### writing -/

theorem writeOne_some {ow d i t d'} (h : writeOne ow d i t = some d') :
    d'.files = (fun j => if j = i then some t else d.files j) ∧ d'.hi = max d.hi (i + 1) ∧ d'.mean = d.mean := by
  unfold writeOne at h
  split at h
  · cases h
  · injection h with h; subst h; exact ⟨rfl, rfl, rfl⟩

theorem writeSeq_other (ow : Bool) : ∀ (items : List (Nat × Tag)) (d : Dir) (j : Nat), (∀ p ∈ items, p.1 ≠ j) →
    (writeSeq ow d items).1.files j = d.files j := by
  intro items
  induction items with
  | nil => intro d j _; rfl
  | cons p rest ih =>
    intro d j h
    obtain ⟨i, t⟩ := p
    unfold writeSeq
    cases hw : writeOne ow d i t with
    | none => rfl
    | some d' =>
      simp only
      rw [ih d' j (fun q hq => h q (List.mem_cons_of_mem _ hq))]
      rw [(writeOne_some hw).1]
      have : j ≠ i := fun e => h (i, t) (List.mem_cons_self ..) e.symm
      simp [this]

theorem writeSeq_hi_mean (ow : Bool) : ∀ (items : List (Nat × Tag)) (d : Dir),
    d.hi ≤ (writeSeq ow d items).1.hi ∧ (writeSeq ow d items).1.mean = d.mean := by
  intro items
  induction items with
  | nil => intro d; exact ⟨Nat.le_refl _, rfl⟩
  | cons p rest ih =>
    intro d
    obtain ⟨i, t⟩ := p
    unfold writeSeq
    cases hw : writeOne ow d i t with
    | none => exact ⟨Nat.le_refl _, rfl⟩
    | some d' =>
      simp only
      have := ih d'
      obtain ⟨_, h2, h3⟩ := writeOne_some hw
      exact ⟨by omega, by rw [this.2, h3]⟩

theorem writeSeq_ok_mem (ow : Bool) : ∀ (items : List (Nat × Tag)) (d : Dir), (writeSeq ow d items).2 = true →
    (items.map Prod.fst).Nodup → ∀ p ∈ items, (writeSeq ow d items).1.files p.1 = some p.2 ∧ p.1 < (writeSeq ow d items).1.hi := by
  intro items
  induction items with
  | nil => intro d _ _ p hp; cases hp
  | cons p0 rest ih =>
    intro d hok hnd p hp
    obtain ⟨i, t⟩ := p0
    unfold writeSeq at hok ⊢
    cases hw : writeOne ow d i t with
    | none => simp [hw] at hok
    | some d' =>
      simp only [hw] at hok ⊢
      have hnd' : i ∉ rest.map Prod.fst ∧ (rest.map Prod.fst).Nodup := List.nodup_cons.mp hnd
      rcases List.mem_cons.mp hp with rfl | hp'
      · have hni : ∀ q ∈ rest, q.1 ≠ i := by
          intro q hq e
          exact hnd'.1 (by rw [← e]; exact List.mem_map_of_mem hq)
        rw [writeSeq_other ow rest d' i hni, (writeOne_some hw).1]
        have := (writeSeq_hi_mean ow rest d').1
        have h2 := (writeOne_some hw).2.1
        exact ⟨by simp, by omega⟩
      · exact ih d' hok hnd'.2 p hp'

theorem writeRanks_other (ow : Bool) : ∀ (rs : List (List (Nat × Tag))) (d : Dir) (j : Nat),
    (∀ p ∈ rs.flatten, p.1 ≠ j) → (writeRanks ow d rs).1.files j = d.files j := by
  intro rs
  induction rs with
  | nil => intro d j _; rfl
  | cons items rest ih =>
    intro d j h
    unfold writeRanks
    simp only
    rw [ih _ j (fun p hp => h p (by simp only [List.flatten_cons, List.mem_append]; right; exact hp))]
    exact writeSeq_other ow items d j (fun p hp => h p (by simp only [List.flatten_cons, List.mem_append]; left; exact hp))

theorem writeRanks_hi_mean (ow : Bool) : ∀ (rs : List (List (Nat × Tag))) (d : Dir),
    d.hi ≤ (writeRanks ow d rs).1.hi ∧ (writeRanks ow d rs).1.mean = d.mean := by
  intro rs
  induction rs with
  | nil => intro d; exact ⟨Nat.le_refl _, rfl⟩
  | cons items rest ih =>
    intro d
    unfold writeRanks
    simp only
    have h1 := writeSeq_hi_mean ow items d
    have h2 := ih (writeSeq ow d items).1
    exact ⟨by omega, by rw [h2.2, h1.2]⟩

theorem writeRanks_ok_mem (ow : Bool) : ∀ (rs : List (List (Nat × Tag))) (d : Dir), (writeRanks ow d rs).2 = true →
    (rs.flatten.map Prod.fst).Nodup →
    ∀ p ∈ rs.flatten, (writeRanks ow d rs).1.files p.1 = some p.2 ∧ p.1 < (writeRanks ow d rs).1.hi := by
  intro rs
  induction rs with
  | nil => intro d _ _ p hp; simp at hp
  | cons items rest ih =>
    intro d hok hnd p hp
    unfold writeRanks at hok ⊢
    simp only [Bool.and_eq_true] at hok ⊢
    simp only [List.flatten_cons, List.map_append] at hnd
    have hnd' := List.nodup_append.mp hnd
    rw [List.flatten_cons] at hp
    rcases List.mem_append.mp hp with hp1 | hp2
    · have h1 := writeSeq_ok_mem ow items d hok.1 hnd'.1 p hp1
      have hni : ∀ q ∈ rest.flatten, q.1 ≠ p.1 := by
        intro q hq e
        exact hnd'.2.2 p.1 (List.mem_map_of_mem hp1) q.1 (List.mem_map_of_mem hq) e.symm
      rw [writeRanks_other ow rest _ p.1 hni]
      have := (writeRanks_hi_mean ow rest (writeSeq ow d items).1).1
      exact ⟨h1.1, by omega⟩
    · exact ih _ hok.2 hnd'.2.1 p hp2

theorem allItems_flatten (xs : List Tag) : ∀ (counts : List Nat) (off : Nat),
    (allItems xs off counts).flatten = (List.range' off counts.sum).map (fun i => (i, xs.getD i 0)) := by
  intro counts
  induction counts with
  | nil => intro off; simp [allItems]
  | cons c cs ih =>
    intro off
    simp only [allItems, List.flatten_cons, ih, List.sum_cons]
    rw [← List.map_append, List.range'_append_1]

/-! ### reading back -/

theorem filterMap_files {d : Dir} {g : Nat → Tag} : ∀ (l : List Nat), (∀ i ∈ l, d.files i = some (g i)) →
    (l.map d.files).filterMap id = l.map g ∧ (l.map d.files).all Option.isSome = true := by
  intro l
  induction l with
  | nil => intro _; simp
  | cons i l ih =>
    intro h
    have hi := h i (List.mem_cons_self ..)
    have := ih (fun j hj => h j (List.mem_cons_of_mem _ hj))
    simp only [List.map_cons, List.filterMap_cons, hi, id_eq, List.all_cons, Option.isSome_some, Bool.true_and]
    exact ⟨congrArg _ this.1, this.2⟩

theorem map_getD_range (xs : List Tag) : (List.range xs.length).map (fun i => xs.getD i 0) = xs := by
  apply List.ext_getElem
  · simp
  · intro i h1 h2
    simp at h1
    simp [h1]

theorem localIndices_lt {n q r i : Nat} (hq : 0 < q) (hr : r < q) (hi : i ∈ localIndices n q r) : i < n := by
  have : i ∈ (List.range q).flatMap (localIndices n q) :=
    List.mem_flatMap.mpr ⟨r, List.mem_range.mpr hr, hi⟩
  rw [NiftyVerif.C22.localIndices_concat n q hq] at this
  exact List.mem_range.mp this

end NiftyVerif.SampleFiles

namespace NiftyVerif.SampleFiles
open NiftyVerif.Distributed

/-! ### saving WITHOUT overwrite: existing files are never touched -/

theorem writeOne_false_preserves {d d' : Dir} {i : Nat} {t : Tag} (h : writeOne false d i t = some d') :
    d.files i = none ∧ ∀ j, j ≠ i → d'.files j = d.files j := by
  unfold writeOne at h
  cases hf : d.files i with
  | some v => simp [hf] at h
  | none =>
    simp only [hf, Option.isSome_none, Bool.and_false, Bool.false_eq_true, if_false, Option.some.injEq] at h
    subst h
    exact ⟨rfl, fun j hj => by simp [hj]⟩

/-- per file: a non-overwriting write loop leaves every existing file as it is, and a file that did not exist either
    still does not exist or holds the content the loop was given for it -/
theorem writeSeq_false_files : ∀ (items : List (Nat × Tag)) (d : Dir) (j : Nat),
    (∀ t, d.files j = some t → (writeSeq false d items).1.files j = some t) ∧
    (d.files j = none → (writeSeq false d items).1.files j = none ∨
      ∃ t, (j, t) ∈ items ∧ (writeSeq false d items).1.files j = some t) := by
  intro items
  induction items with
  | nil => intro d j; exact ⟨fun t h => h, fun h => Or.inl h⟩
  | cons p rest ih =>
    intro d j
    obtain ⟨i, t0⟩ := p
    unfold writeSeq
    cases hw : writeOne false d i t0 with
    | none => exact ⟨fun t h => h, fun h => Or.inl h⟩
    | some d' =>
      simp only
      obtain ⟨hnone, hother⟩ := writeOne_false_preserves hw
      have hd' := (writeOne_some hw).1
      constructor
      · intro t ht
        have hji : j ≠ i := by intro e; rw [e, hnone] at ht; cases ht
        exact (ih d' j).1 t (by rw [hother j hji]; exact ht)
      · intro hj
        by_cases hji : j = i
        · subst hji
          right
          have : d'.files j = some t0 := by rw [hd']; simp
          exact ⟨t0, List.mem_cons_self .., (ih d' j).1 t0 this⟩
        · rcases (ih d' j).2 (by rw [hother j hji]; exact hj) with h | ⟨t, ht, h⟩
          · exact Or.inl h
          · exact Or.inr ⟨t, List.mem_cons_of_mem _ ht, h⟩

theorem writeRanks_false_files : ∀ (rs : List (List (Nat × Tag))) (d : Dir) (j : Nat),
    (∀ t, d.files j = some t → (writeRanks false d rs).1.files j = some t) ∧
    (d.files j = none → (writeRanks false d rs).1.files j = none ∨
      ∃ t, (j, t) ∈ rs.flatten ∧ (writeRanks false d rs).1.files j = some t) := by
  intro rs
  induction rs with
  | nil => intro d j; exact ⟨fun t h => h, fun h => Or.inl h⟩
  | cons items rest ih =>
    intro d j
    unfold writeRanks
    simp only
    have h1 := writeSeq_false_files items d j
    have h2 := ih (writeSeq false d items).1 j
    constructor
    · intro t ht; exact h2.1 t (h1.1 t ht)
    · intro hj
      rcases h1.2 hj with h | ⟨t, ht, h⟩
      · rcases h2.2 h with h' | ⟨t', ht', h'⟩
        · exact Or.inl h'
        · exact Or.inr ⟨t', by simp only [List.flatten_cons, List.mem_append]; exact Or.inr ht', h'⟩
      · exact Or.inr ⟨t, by simp only [List.flatten_cons, List.mem_append]; exact Or.inl ht, h2.1 t h⟩

/-- a load from ANY directory in which file 0 is visible succeeds and returns, in order, the contents of the files
    `0 .. n-1`, `n` = the first missing index -/
theorem load_general (d : Dir) (q : Nat) (hq : 0 < q) (h0 : (d.files 0).isSome ∧ 0 < d.hi) :
    ∃ n per, consecutiveLength (listing d) = .ok n ∧ load d q false = .ok per ∧
      per.flatten = (List.range n).map (fun i => (d.files i).getD 0) ∧
      (∀ i, i < n → (d.files i).isSome) ∧ (n < d.hi → d.files n = none) := by
  have hmemL : ∀ i, i ∈ listing d ↔ i < d.hi ∧ (d.files i).isSome := by
    intro i; simp [listing]
  have h0L : 0 ∈ listing d := (hmemL 0).mpr ⟨h0.2, h0.1⟩
  have hcl : consecutiveLength (listing d) = .ok (consGo (listing d) 0 (listing d).length) := by
    simp [consecutiveLength, h0L]
  obtain ⟨_, hn1, hall, hnot⟩ := consecutiveLength_spec hcl
  generalize consGo (listing d) 0 (listing d).length = n at hcl hn1 hall hnot
  have hpres : ∀ i, i < n → (d.files i).isSome := fun i hi => ((hmemL i).mp (hall i hi)).2
  have hne : (listing d).isEmpty = false := by
    cases hl : listing d with
    | nil => rw [hl] at h0L; cases h0L
    | cons a l => rfl
  have hrows : ∀ r, r < q → ((localIndices n q r).map d.files).filterMap id =
      (localIndices n q r).map (fun i => (d.files i).getD 0) ∧
      ((localIndices n q r).map d.files).all Option.isSome = true := by
    intro r hr
    apply filterMap_files
    intro i hi
    have := hpres i (localIndices_lt hq hr hi)
    cases hf : d.files i with
    | none => rw [hf] at this; cases this
    | some v => rfl
  refine ⟨n, (List.range q).map (fun r => (localIndices n q r).map (fun i => (d.files i).getD 0)), hcl, ?_, ?_, hpres, ?_⟩
  · unfold load
    simp only [Bool.false_and, Bool.false_eq_true, if_false, hne, hcl]
    have hallr : ((List.range q).map (fun r => (localIndices n q r).map d.files)).all
        (fun row => row.all Option.isSome) = true := by
      rw [List.all_eq_true]
      intro row hrow
      obtain ⟨r, hr, rfl⟩ := List.mem_map.mp hrow
      exact (hrows r (List.mem_range.mp hr)).2
    rw [if_pos hallr]
    congr 1
    rw [List.map_map]
    apply List.map_congr_left
    intro r hr
    exact (hrows r (List.mem_range.mp hr)).1
  · rw [← List.flatMap_def, ← List.map_flatMap, NiftyVerif.C22.localIndices_concat _ q hq]
  · intro hlt
    cases hf : d.files n with
    | none => rfl
    | some v =>
      exfalso; apply hnot
      rw [hmemL]; exact ⟨hlt, by rw [hf]; rfl⟩

end NiftyVerif.SampleFiles

namespace NiftyVerif.SampleFiles

theorem writeSeq_false_ok : ∀ (items : List (Nat × Tag)) (d : Dir), (∀ p ∈ items, d.files p.1 = none) →
    (items.map Prod.fst).Nodup → (writeSeq false d items).2 = true := by
  intro items
  induction items with
  | nil => intro d _ _; rfl
  | cons p rest ih =>
    intro d habs hnd
    obtain ⟨i, t⟩ := p
    have hnd' : i ∉ rest.map Prod.fst ∧ (rest.map Prod.fst).Nodup := List.nodup_cons.mp hnd
    have hi : d.files i = none := habs (i, t) (List.mem_cons_self ..)
    unfold writeSeq
    have hw : writeOne false d i t = some { d with files := fun j => if j = i then some t else d.files j, hi := max d.hi (i + 1) } := by
      simp [writeOne, hi]
    simp only [hw]
    apply ih _ _ hnd'.2
    intro q hq
    have hqi : q.1 ≠ i := fun e => hnd'.1 (by rw [← e]; exact List.mem_map_of_mem hq)
    simp only [hqi, if_false]
    exact habs q (List.mem_cons_of_mem _ hq)

theorem writeRanks_false_ok : ∀ (rs : List (List (Nat × Tag))) (d : Dir), (∀ p ∈ rs.flatten, d.files p.1 = none) →
    (rs.flatten.map Prod.fst).Nodup → (writeRanks false d rs).2 = true := by
  intro rs
  induction rs with
  | nil => intro d _ _; rfl
  | cons items rest ih =>
    intro d habs hnd
    simp only [List.flatten_cons, List.map_append] at hnd
    have hnd' := List.nodup_append.mp hnd
    unfold writeRanks
    simp only [Bool.and_eq_true]
    constructor
    · exact writeSeq_false_ok items d (fun p hp => habs p (by simp only [List.flatten_cons, List.mem_append]; exact Or.inl hp)) hnd'.1
    · apply ih _ _ hnd'.2.1
      intro q hq
      rw [writeSeq_other false items d q.1]
      · exact habs q (by simp only [List.flatten_cons, List.mem_append]; exact Or.inr hq)
      · intro p hp e
        exact hnd'.2.2 p.1 (List.mem_map_of_mem hp) q.1 (List.mem_map_of_mem hq) e

theorem preCheck_iff (d : Dir) (items : List (List (Nat × Tag))) (mean : Option Tag) :
    preCheck d items mean = true ↔ (∀ p ∈ items.flatten, d.files p.1 = none) ∧ (mean.isNone ∨ d.mean.isNone) := by
  simp only [preCheck, Bool.and_eq_true, List.all_eq_true, Bool.or_eq_true, Option.isNone_iff_eq_none, List.mem_flatten]
  constructor
  · rintro ⟨h1, h2⟩
    refine ⟨?_, h2⟩
    rintro p ⟨l, hl, hp⟩
    exact h1 l hl p hp
  · rintro ⟨h1, h2⟩
    exact ⟨fun l hl p hp => h1 p ⟨l, hl, hp⟩, h2⟩

end NiftyVerif.SampleFiles
