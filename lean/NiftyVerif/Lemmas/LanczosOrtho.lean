/-
  Full orthonormality of the Lanczos vectors produced by the recurrence of `Model/Lanczos.lean`
  (exact arithmetic, self-adjoint operator, no breakdown).  Used by Props/C34.
-/
import NiftyVerif.Model.Lanczos
import NiftyVerif.Lemmas.GaussMarkov

namespace NiftyVerif.Lanczos
open NiftyVerif.GaussMarkov

variable {K V : Type} [Field K] [AddCommGroup V] [Module K V] (c : CovForm K V)
variable (A : V → V) (sqrt : K → K) (v1 : V)

local notation "vv" => basis A c.B sqrt v1
local notation "αα" => alphaAt A c.B sqrt v1
local notation "ββ" => betaAt A c.B sqrt v1

/-- the un-normalised new direction of step `i` -/
def wVec : Nat → V
  | 0 => A v1 - (αα 0) • v1
  | i + 1 => A (vv (i + 1)) - (αα (i + 1)) • vv (i + 1) - (ββ i) • vv i

theorem alphaAt_eq (i : Nat) : αα i = c.B (vv i) (A (vv i)) := by
  cases i <;> rfl

theorem basis_succ_eq (i : Nat) : vv (i + 1) = (1 / ββ i) • wVec c A sqrt v1 i := by
  cases i with
  | zero => rfl
  | succ i =>
    simp only [basis, betaAt, run, stepS, wVec, alphaAt]
    cases i <;> rfl

theorem beta_smul_basis_succ (hb : ∀ i, ββ i ≠ 0) (i : Nat) : (ββ i) • vv (i + 1) = wVec c A sqrt v1 i := by
  rw [basis_succ_eq, smul_smul, mul_one_div_cancel (hb i), one_smul]

/-- three-term relation, `i = 0` and `i > 0` -/
theorem relation_zero (hb : ∀ i, ββ i ≠ 0) : A (vv 0) = (αα 0) • vv 0 + (ββ 0) • vv 1 := by
  rw [beta_smul_basis_succ c A sqrt v1 hb 0]; simp only [wVec, basis]; abel

theorem relation_succ (hb : ∀ i, ββ i ≠ 0) (i : Nat) :
    A (vv (i + 1)) = (ββ i) • vv i + (αα (i + 1)) • vv (i + 1) + (ββ (i + 1)) • vv (i + 2) := by
  rw [beta_smul_basis_succ c A sqrt v1 hb (i + 1)]; simp only [wVec]; abel

/-- orthonormality up to index `n` -/
def OrthoUpTo (n : Nat) : Prop := ∀ j k, j ≤ n → k ≤ n → c.B (vv j) (vv k) = if j = k then 1 else 0

/-- key step: the new direction `w_n` is orthogonal to all previous Lanczos vectors -/
theorem w_orthogonal (hA : ∀ x y, c.B (A x) y = c.B x (A y)) (hb : ∀ i, ββ i ≠ 0) (n : Nat)
    (hP : OrthoUpTo c A sqrt v1 n) (j : Nat) (hj : j ≤ n) : c.B (vv j) (wVec c A sqrt v1 n) = 0 := by
  have sub_r : ∀ x y z : V, c.B x (y - z) = c.B x y - c.B x z := by
    intro x y z
    rw [sub_eq_add_neg, c.add_right, show -z = (-1 : K) • z by simp, c.smul_right]; ring
  cases n with
  | zero =>
    have : j = 0 := by omega
    subst this
    simp only [wVec, sub_r, c.smul_right]
    have h00 := hP 0 0 (le_refl _) (le_refl _)
    simp only [basis] at h00
    rw [alphaAt_eq]; simp only [basis, if_true] at h00 ⊢
    rw [h00]; ring
  | succ n =>
    simp only [wVec, sub_r, c.smul_right]
    by_cases hjn : j = n + 1
    · subst hjn
      rw [hP (n + 1) (n + 1) (le_refl _) (le_refl _), hP (n + 1) n (le_refl _) (by omega), ← alphaAt_eq]
      have : ¬ (n + 1 = n) := by omega
      simp [this]
    · have hjlt : j ≤ n := by omega
      -- move A to the left and expand with the three-term relation at j
      rw [← hA]
      have hjk : c.B (vv j) (vv (n + 1)) = 0 := by
        rw [hP j (n + 1) hj (le_refl _)]; simp [hjn]
      have hAj : c.B (A (vv j)) (vv (n + 1)) = if j = n then ββ n else 0 := by
        cases j with
        | zero =>
          rw [relation_zero c A sqrt v1 hb, c.add_left, c.smul_left, c.smul_left,
            hP 0 (n + 1) (by omega) (le_refl _), hP 1 (n + 1) (by omega) (le_refl _)]
          by_cases h0 : 0 = n
          · subst h0; simp
          · have hn0 : ¬ (n = 0) := by omega
            simp [h0, hn0]
        | succ j =>
          rw [relation_succ c A sqrt v1 hb j, c.add_left, c.add_left, c.smul_left, c.smul_left, c.smul_left,
            hP j (n + 1) (by omega) (le_refl _), hP (j + 1) (n + 1) (by omega) (le_refl _),
            hP (j + 2) (n + 1) (by omega) (le_refl _)]
          have e1 : ¬ (j = n + 1) := by omega
          have e2 : ¬ (j = n) := by omega
          by_cases h0 : j + 1 = n
          · have : j + 2 = n + 1 := by omega
            simp [e1, e2, h0, this]
          · have : ¬ (j + 2 = n + 1) := by omega
            have h0' : ¬ (j + 2 = n + 1) := this
            simp [e1, e2, h0]
      rw [hAj, hjk, hP j n hj (by omega)]
      by_cases h0 : j = n
      · subst h0; simp
      · simp [h0]

/-- **orthonormality of the Lanczos basis** (exact arithmetic): `⟨v_j, v_k⟩ = δ_jk` for all `j, k` -/
theorem lanczos_orthonormal (hA : ∀ x y, c.B (A x) y = c.B x (A y)) (hb : ∀ i, ββ i ≠ 0)
    (hs : ∀ i, ββ i * ββ i = c.B (wVec c A sqrt v1 i) (wVec c A sqrt v1 i)) (h1 : c.B v1 v1 = 1) (n : Nat) :
    OrthoUpTo c A sqrt v1 n := by
  induction n with
  | zero =>
    intro j k hj hk
    have hj0 : j = 0 := by omega
    have hk0 : k = 0 := by omega
    subst hj0; subst hk0
    simpa [basis] using h1
  | succ n ih =>
    have hw := w_orthogonal c A sqrt v1 hA hb n ih
    have hnew : ∀ j, j ≤ n → c.B (vv j) (vv (n + 1)) = 0 := by
      intro j hj
      rw [basis_succ_eq, c.smul_right, hw j hj, mul_zero]
    have hnorm : c.B (vv (n + 1)) (vv (n + 1)) = 1 := by
      rw [basis_succ_eq, c.smul_left, c.smul_right, ← hs n]
      field_simp [hb n]
    intro j k hj hk
    by_cases hj' : j = n + 1 <;> by_cases hk' : k = n + 1
    · subst hj'; subst hk'; simp [hnorm]
    · subst hj'
      have hkn : k ≤ n := by omega
      rw [c.symm, hnew k hkn]
      have : ¬ (n + 1 = k) := by omega
      simp [this]
    · subst hk'
      have hjn : j ≤ n := by omega
      rw [hnew j hjn]
      simp [hj']
    · exact ih j k (by omega) (by omega)

/-- hence `T = Vᵀ A V` is the tridiagonal matrix of the `α`'s and `β`'s: its entries -/
theorem tridiagonal_entries (hA : ∀ x y, c.B (A x) y = c.B x (A y)) (hb : ∀ i, ββ i ≠ 0)
    (hs : ∀ i, ββ i * ββ i = c.B (wVec c A sqrt v1 i) (wVec c A sqrt v1 i)) (h1 : c.B v1 v1 = 1) (i k : Nat) :
    c.B (vv k) (A (vv (i + 1)))
      = if k = i then ββ i else if k = i + 1 then αα (i + 1) else if k = i + 2 then ββ (i + 1) else 0 := by
  have hO := lanczos_orthonormal c A sqrt v1 hA hb hs h1 (max k (i + 2))
  rw [relation_succ c A sqrt v1 hb i, c.add_right, c.add_right, c.smul_right, c.smul_right, c.smul_right,
    hO k i (le_max_left _ _) (by omega), hO k (i + 1) (le_max_left _ _) (by omega),
    hO k (i + 2) (le_max_left _ _) (le_max_right _ _)]
  by_cases h0 : k = i
  · have e1 : ¬ (k = i + 1) := by omega
    have e2 : ¬ (k = i + 2) := by omega
    simp [h0, e1, e2]
  · by_cases h1' : k = i + 1
    · have e2 : ¬ (k = i + 2) := by omega
      simp [h0, h1', e2]
    · by_cases h2 : k = i + 2
      · simp [h0, h1', h2]
      · simp [h0, h1', h2]

end NiftyVerif.Lanczos
