/-
  TransposeOperator for any number of sub-domains: the source map of `LinOps.transpose sizes perm` is a bijection of
  `[0, Π sizes)` whenever `perm` is a permutation of the sub-domain indices, hence the operator is a permutation
  matrix and its adjoint is its inverse (all four modes).
-/
import NiftyVerif.Lemmas.LinOps
import Mathlib.Algebra.BigOperators.Group.List.Basic
import Mathlib.Data.List.GetD

namespace NiftyVerif
open Coo LinOps

theorem prodL_eq_prod (l : List Nat) : prodL l = l.prod := by
  induction l with
  | nil => rfl
  | cons a l ih => simp [prodL, ih]

theorem prodL_perm {l1 l2 : List Nat} (h : l1.Perm l2) : prodL l1 = prodL l2 := by
  rw [prodL_eq_prod, prodL_eq_prod]; exact h.prod_eq

theorem unravel_length : ∀ (sh : List Nat) (k : Nat), (unravel sh k).length = sh.length
  | [], _ => rfl
  | _ :: sh, k => by simp [unravel, unravel_length sh]

/-- `inShape` spelled out index-wise -/
theorem inShape_iff : ∀ (sh idx : List Nat),
    inShape sh idx = true ↔ idx.length = sh.length ∧ ∀ i, i < sh.length → idx.getD i 0 < sh.getD i 0
  | [], [] => by simp [inShape]
  | [], _ :: _ => by simp [inShape]
  | _ :: _, [] => by simp [inShape]
  | n :: sh, i :: idx => by
    simp only [inShape, Bool.and_eq_true, decide_eq_true_eq, inShape_iff sh idx, List.length_cons]
    constructor
    · rintro ⟨h0, hl, hr⟩
      refine ⟨by omega, ?_⟩
      intro j hj
      cases j with
      | zero => simpa using h0
      | succ j => simpa using hr j (by omega)
    · rintro ⟨hl, hr⟩
      refine ⟨by simpa using hr 0 (by omega), by omega, ?_⟩
      intro j hj
      simpa using hr (j + 1) (by omega)

theorem getD_map_lt {α β : Type} (l : List α) (f : α → β) (j : Nat) (d : β) (d' : α) (hj : j < l.length) :
    (l.map f).getD j d = f (l.getD j d') := by
  rw [List.getD_eq_getElem _ _ (by simpa using hj), List.getElem_map, List.getD_eq_getElem _ _ hj]

theorem getD_map_range {β : Type} (n : Nat) (f : Nat → β) (k : Nat) (d : β) (hk : k < n) :
    ((List.range n).map f).getD k d = f k := by
  rw [getD_map_lt _ f k d 0 (by simpa using hk), List.getD_eq_getElem _ _ (by simpa using hk), List.getElem_range]

theorem ext_getD (l1 l2 : List Nat) (hl : l1.length = l2.length)
    (h : ∀ i, i < l1.length → l1.getD i 0 = l2.getD i 0) : l1 = l2 := by
  apply List.ext_getElem hl
  intro i h1 h2
  have := h i h1
  rwa [List.getD_eq_getElem _ _ h1, List.getD_eq_getElem _ _ h2] at this

theorem getD_default_irrel (l : List Nat) (i : Nat) (d d' : Nat) (hi : i < l.length) : l.getD i d = l.getD i d' := by
  rw [List.getD_eq_getElem _ _ hi, List.getD_eq_getElem _ _ hi]

section perm
variable (sizes perm : List Nat)

/-- target sizes: `tsizes[j] = sizes[perm[j]]` -/
def tsizes : List Nat := perm.map fun k => sizes.getD k 1
/-- domain multi-index from a target multi-index: `didx[k] = tidx[j]` where `perm[j] = k` -/
def toD (tidx : List Nat) : List Nat := (List.range sizes.length).map fun k => tidx.getD (perm.idxOf k) 0
/-- target multi-index from a domain multi-index: `tidx[j] = didx[perm[j]]` -/
def toT (didx : List Nat) : List Nat := perm.map fun k => didx.getD k 0

variable {sizes perm}
variable (hperm : perm.Perm (List.range sizes.length))
include hperm

theorem perm_length : perm.length = sizes.length := by simpa using hperm.length_eq

theorem perm_mem (k : Nat) : k ∈ perm ↔ k < sizes.length := by
  rw [hperm.mem_iff]; simp

theorem perm_nodup : perm.Nodup := (hperm.nodup_iff).mpr List.nodup_range

theorem perm_get_lt (j : Nat) (hj : j < sizes.length) : perm.getD j 0 < sizes.length := by
  have hj' : j < perm.length := by rw [perm_length hperm]; exact hj
  rw [List.getD_eq_getElem _ _ hj']
  exact (perm_mem hperm _).mp (List.getElem_mem hj')

theorem idxOf_lt (k : Nat) (hk : k < sizes.length) : perm.idxOf k < sizes.length := by
  rw [← perm_length hperm]; exact List.idxOf_lt_length_of_mem ((perm_mem hperm k).mpr hk)

theorem get_idxOf (k : Nat) (hk : k < sizes.length) : perm.getD (perm.idxOf k) 0 = k := by
  have h : perm.idxOf k < perm.length := List.idxOf_lt_length_of_mem ((perm_mem hperm k).mpr hk)
  rw [List.getD_eq_getElem _ _ h]; exact List.getElem_idxOf h

theorem idxOf_get (j : Nat) (hj : j < sizes.length) : perm.idxOf (perm.getD j 0) = j := by
  have hj' : j < perm.length := by rw [perm_length hperm]; exact hj
  rw [List.getD_eq_getElem _ _ hj']; exact (perm_nodup hperm).idxOf_getElem j hj'

theorem tsizes_length : (tsizes sizes perm).length = sizes.length := by simp [tsizes, perm_length hperm]

theorem tsizes_get (j : Nat) (hj : j < sizes.length) :
    (tsizes sizes perm).getD j 0 = sizes.getD (perm.getD j 0) 0 := by
  have hj' : j < perm.length := by rw [perm_length hperm]; exact hj
  unfold tsizes
  rw [getD_map_lt perm _ j 0 0 hj']
  exact getD_default_irrel _ _ _ _ (perm_get_lt hperm j hj)

theorem prodL_tsizes : prodL (tsizes sizes perm) = prodL sizes := by
  unfold tsizes
  have h1 : (perm.map fun k => sizes.getD k 1).Perm ((List.range sizes.length).map fun k => sizes.getD k 1) :=
    hperm.map _
  rw [prodL_perm h1]
  congr 1
  apply ext_getD _ _ (by simp)
  intro i hi
  have hi' : i < sizes.length := by simpa using hi
  rw [getD_map_range _ _ _ _ hi']
  exact getD_default_irrel _ _ _ _ hi'

theorem toD_inShape (tidx : List Nat) (h : inShape (tsizes sizes perm) tidx = true) :
    inShape sizes (toD sizes perm tidx) = true := by
  rw [inShape_iff] at h ⊢
  obtain ⟨hl, hr⟩ := h
  rw [tsizes_length hperm] at hl hr
  refine ⟨by simp [toD], ?_⟩
  intro k hk
  have hi := idxOf_lt hperm k hk
  have := hr _ hi
  rw [tsizes_get hperm _ hi, get_idxOf hperm k hk] at this
  unfold toD
  rw [getD_map_range _ _ _ _ hk]
  exact this

theorem toT_inShape (didx : List Nat) (h : inShape sizes didx = true) :
    inShape (tsizes sizes perm) (toT perm didx) = true := by
  rw [inShape_iff] at h ⊢
  obtain ⟨hl, hr⟩ := h
  rw [tsizes_length hperm]
  refine ⟨by simp [toT, perm_length hperm], ?_⟩
  intro j hj
  have hj' : j < perm.length := by rw [perm_length hperm]; exact hj
  rw [tsizes_get hperm j hj]
  unfold toT
  rw [getD_map_lt perm _ j 0 0 hj']
  exact hr _ (perm_get_lt hperm j hj)

theorem toT_toD (tidx : List Nat) (hl : tidx.length = sizes.length) : toT perm (toD sizes perm tidx) = tidx := by
  apply ext_getD _ _ (by simp [toT, perm_length hperm, hl])
  intro j h1
  have hj : j < sizes.length := by simpa [toT, perm_length hperm] using h1
  have hj' : j < perm.length := by rw [perm_length hperm]; exact hj
  unfold toT toD
  rw [getD_map_lt perm _ j 0 0 hj', getD_map_range _ _ _ _ (perm_get_lt hperm j hj), idxOf_get hperm j hj]

theorem toD_toT (didx : List Nat) (hl : didx.length = sizes.length) : toD sizes perm (toT perm didx) = didx := by
  apply ext_getD _ _ (by simp [toD, hl])
  intro k h1
  have hk : k < sizes.length := by simpa [toD] using h1
  have hi := idxOf_lt hperm k hk
  have hi' : perm.idxOf k < perm.length := by rw [perm_length hperm]; exact hi
  unfold toD toT
  rw [getD_map_range _ _ _ _ hk, getD_map_lt perm _ _ 0 0 hi', get_idxOf hperm k hk]

/-- source map of the transpose (as in `LinOps.transpose`) and its inverse -/
def tSrc (sizes perm : List Nat) (r : Nat) : Nat := ravel sizes (toD sizes perm (unravel (tsizes sizes perm) r))
def tInv (sizes perm : List Nat) (c : Nat) : Nat := ravel (tsizes sizes perm) (toT perm (unravel sizes c))

theorem tSrc_lt (r : Nat) (hr : r < prodL (tsizes sizes perm)) : tSrc sizes perm r < prodL sizes :=
  ravel_lt _ _ (toD_inShape hperm _ (unravel_inShape _ _ hr))

theorem tInv_lt (c : Nat) (hc : c < prodL sizes) : tInv sizes perm c < prodL (tsizes sizes perm) :=
  ravel_lt _ _ (toT_inShape hperm _ (unravel_inShape _ _ hc))

theorem tInv_tSrc (r : Nat) (hr : r < prodL (tsizes sizes perm)) : tInv sizes perm (tSrc sizes perm r) = r := by
  unfold tInv tSrc
  have h1 := unravel_inShape _ _ hr
  rw [unravel_ravel _ _ (toD_inShape hperm _ h1),
      toT_toD hperm _ (by rw [unravel_length, tsizes_length hperm]), ravel_unravel _ _ hr]

theorem tSrc_tInv (c : Nat) (hc : c < prodL sizes) : tSrc sizes perm (tInv sizes perm c) = c := by
  unfold tInv tSrc
  have h1 := unravel_inShape _ _ hc
  rw [unravel_ravel _ _ (toT_inShape hperm _ h1),
      toD_toT hperm _ (unravel_length _ _), ravel_unravel _ _ hc]

end perm

/-- the model's transpose is the gather along `tSrc` -/
theorem transpose_eq_gather {K : Type} [OfNat K 1] (sizes perm : List Nat) :
    (transpose sizes perm : Coo K) = gather (prodL (tsizes sizes perm)) (prodL sizes) (tSrc sizes perm) := rfl

end NiftyVerif
