/-
  Helper lemmas for C23 (the concrete loop of `allreduce_sum`): one sweep acts in parallel on disjoint slot pairs,
  the live slots after the sweeps with distance < s are the multiples of s and hold the level trees.
-/
import NiftyVerif.Lemmas.Allreduce
import Mathlib.Algebra.BigOperators.Group.List.Basic

namespace NiftyVerif.Allreduce

/-! ### a list of slot-disjoint additions acts in parallel -/

def Good (L : List Ev) : Prop := (∀ e ∈ L, e.fin = true ∧ e.dst ≠ e.src) ∧ L.Pairwise Disj

theorem good_tail {e : Ev} {L : List Ev} (h : Good (e :: L)) : Good L :=
  ⟨fun f hf => h.1 f (List.mem_cons_of_mem _ hf), (List.pairwise_cons.mp h.2).2⟩

theorem exec_other {e : Ev} {s : Store} {x : Nat} (h1 : e.dst ≠ x) (h2 : e.src ≠ x) : exec e s x = s x := by
  unfold exec upd
  have h1' := Ne.symm h1; have h2' := Ne.symm h2
  cases e.fin <;> simp [h1', h2']

theorem execAll_untouched : ∀ (L : List Ev) (s : Store) (x : Nat), (∀ e ∈ L, e.dst ≠ x ∧ e.src ≠ x) →
    execAll L s x = s x := by
  intro L
  induction L with
  | nil => intro s x _; rfl
  | cons e L ih =>
    intro s x h
    rw [execAll_cons, ih _ _ (fun f hf => h f (List.mem_cons_of_mem _ hf))]
    have := h e (List.mem_cons_self ..)
    exact exec_other this.1 this.2

theorem exec_dst {e : Ev} {s : Store} (hf : e.fin = true) (hne : e.dst ≠ e.src) :
    exec e s e.dst = add? (s e.dst) (s e.src) := by
  unfold exec upd
  simp [hf, hne]

theorem exec_src {e : Ev} {s : Store} (hf : e.fin = true) : exec e s e.src = none := by
  unfold exec upd
  simp [hf]

theorem execAll_par_dst : ∀ (L : List Ev) (s : Store) (e : Ev), Good L → e ∈ L →
    execAll L s e.dst = add? (s e.dst) (s e.src) := by
  intro L
  induction L with
  | nil => intro s e _ h; cases h
  | cons f L ih =>
    intro s e hg he
    have hpw := List.pairwise_cons.mp hg.2
    rw [execAll_cons]
    rcases List.mem_cons.mp he with rfl | he'
    · rw [execAll_untouched]
      · exact exec_dst (hg.1 e (List.mem_cons_self ..)).1 (hg.1 e (List.mem_cons_self ..)).2
      · intro g hgm
        have := hpw.1 g hgm
        exact ⟨Ne.symm this.1, Ne.symm this.2.1⟩
    · rw [ih _ _ (good_tail hg) he']
      have := hpw.1 e he'
      rw [exec_other this.1 this.2.2.1, exec_other this.2.1 this.2.2.2]

theorem execAll_par_src : ∀ (L : List Ev) (s : Store) (e : Ev), Good L → e ∈ L →
    execAll L s e.src = none := by
  intro L
  induction L with
  | nil => intro s e _ h; cases h
  | cons f L ih =>
    intro s e hg he
    have hpw := List.pairwise_cons.mp hg.2
    rw [execAll_cons]
    rcases List.mem_cons.mp he with rfl | he'
    · rw [execAll_untouched]
      · exact exec_src (hg.1 e (List.mem_cons_self ..)).1
      · intro g hgm
        have := hpw.1 g hgm
        exact ⟨Ne.symm this.2.2.1, Ne.symm this.2.2.2⟩
    · exact ih _ _ (good_tail hg) he'

/-! ### arithmetic of the sweep with distance `s` -/

theorem mod_two_mul {x s : Nat} (h : x % (2 * s) = 0) : x % s = 0 := by
  have : s ∣ 2 * s := Dvd.intro_left 2 rfl
  rw [← Nat.mod_mod_of_dvd x this, h, Nat.zero_mod]

theorem add_mod_two_mul {j s : Nat} (hs : 0 < s) (h : j % (2 * s) = 0) : (j + s) % (2 * s) = s := by
  rw [Nat.add_mod, h, Nat.zero_add, Nat.mod_mod]
  exact Nat.mod_eq_of_lt (by omega)

theorem odd_multiple {x s : Nat} (_hs : 0 < s) (h1 : x % s = 0) (h2 : x % (2 * s) ≠ 0) :
    s ≤ x ∧ (x - s) % (2 * s) = 0 := by
  obtain ⟨q, rfl⟩ := Nat.dvd_of_mod_eq_zero h1
  rcases Nat.even_or_odd' q with ⟨c, rfl | rfl⟩
  · exfalso; apply h2
    have : s * (2 * c) = (2 * s) * c := by ring
    rw [this, Nat.mul_mod_right]
  · have e1 : s * (2 * c + 1) = (2 * s) * c + s := by ring
    constructor
    · rw [e1]; omega
    · rw [e1, Nat.add_sub_cancel, Nat.mul_mod_right]

theorem multiples_apart {j j' s : Nat} (hj : j % (2 * s) = 0) (hj' : j' % (2 * s) = 0) (hlt : j < j') :
    j + 2 * s ≤ j' := by
  obtain ⟨q, rfl⟩ := Nat.dvd_of_mod_eq_zero hj
  obtain ⟨q', rfl⟩ := Nat.dvd_of_mod_eq_zero hj'
  have hq : q < q' := Nat.lt_of_mul_lt_mul_left hlt
  calc 2 * s * q + 2 * s = 2 * s * (q + 1) := by ring
    _ ≤ 2 * s * q' := Nat.mul_le_mul_left _ hq

theorem mem_round {n s : Nat} {e : Ev} :
    e ∈ round n s ↔ ∃ j, (j < n ∧ j % (2 * s) = 0 ∧ j + s < n) ∧ e = ⟨j, j + s, 0, true⟩ := by
  simp only [round, List.mem_map, List.mem_filter, List.mem_range, decide_eq_true_eq]
  constructor
  · rintro ⟨j, h, rfl⟩; exact ⟨j, h, rfl⟩
  · rintro ⟨j, h, rfl⟩; exact ⟨j, h, rfl⟩

theorem good_round (n s : Nat) (hs : 0 < s) : Good (round n s) := by
  constructor
  · intro e he
    obtain ⟨j, _, rfl⟩ := mem_round.mp he
    exact ⟨rfl, by simp; omega⟩
  · unfold round
    rw [List.pairwise_map, List.pairwise_filter]
    apply List.Pairwise.imp _ (List.pairwise_lt_range (n := n))
    intro j j' hlt hj hj'
    simp only [decide_eq_true_eq] at hj hj'
    have := multiples_apart hj.1 hj'.1 hlt
    refine ⟨?_, ?_, ?_, ?_⟩ <;> simp <;> omega

/-- after the sweeps with distances below `s`, the live slots are the multiples of `s` below `n`,
    slot `x` holding `tr x` -/
def Live (n s : Nat) (tr : Nat → T) (st : Store) : Prop :=
  ∀ x, st x = if x % s = 0 ∧ x < n then some (tr x) else none

theorem live_round {n s : Nat} {tr : Nat → T} {st : Store} (hs : 0 < s) (h : Live n s tr st) :
    Live n (2 * s) (fun x => if x + s < n then .add (tr x) (tr (x + s)) else tr x)
      (execAll (round n s) st) := by
  intro x
  have hg := good_round n s hs
  by_cases hx : x % (2 * s) = 0
  · have hxs : x % s = 0 := mod_two_mul hx
    by_cases hlt : x + s < n
    · have hxn : x < n := by omega
      have hmem : (⟨x, x + s, 0, true⟩ : Ev) ∈ round n s := mem_round.mpr ⟨x, ⟨hxn, hx, hlt⟩, rfl⟩
      have := execAll_par_dst _ st _ hg hmem
      simp only at this
      rw [this, h x, h (x + s)]
      have : (x + s) % s = 0 := by rw [Nat.add_mod_right]; exact hxs
      simp [hx, hxs, hxn, hlt, this, add?]
    · rw [execAll_untouched]
      · rw [h x]; simp [hx, hxs, hlt]
      · intro e he
        obtain ⟨j, ⟨_, hj, hjs⟩, rfl⟩ := mem_round.mp he
        constructor
        · simp only; intro hjx; subst hjx; exact hlt hjs
        · simp only; intro hjx
          have := add_mod_two_mul hs hj
          rw [hjx, hx] at this; omega
  · simp only [hx, false_and, if_false]
    by_cases hl : x % s = 0 ∧ x < n
    · obtain ⟨hge, hm⟩ := odd_multiple hs hl.1 hx
      have hmem : (⟨x - s, x - s + s, 0, true⟩ : Ev) ∈ round n s :=
        mem_round.mpr ⟨x - s, ⟨by omega, hm, by omega⟩, rfl⟩
      have := execAll_par_src _ st _ hg hmem
      simp only at this
      rw [Nat.sub_add_cancel hge] at this
      exact this
    · rw [execAll_untouched]
      · rw [h x]; simp [hl]
      · intro e he
        obtain ⟨j, ⟨_, hj, hjs⟩, rfl⟩ := mem_round.mp he
        constructor
        · simp only; intro hjx; subst hjx; exact hx hj
        · simp only; intro hjx; subst hjx
          apply hl
          refine ⟨?_, hjs⟩
          rw [Nat.add_mod_right]; exact mod_two_mul hj

theorem live_init (n : Nat) : Live n (2 ^ 0) (treeL n 0) (initStore n) := by
  intro x
  simp [initStore, treeL, Nat.mod_one]

theorem treeL_succ (n l : Nat) :
    (fun x => if x + 2 ^ l < n then T.add (treeL n l x) (treeL n l (x + 2 ^ l)) else treeL n l x) = treeL n (l + 1) := by
  funext x; rfl

/-- the whole loop: it stops at some level `l'` with `n ≤ 2^l'`, and then the multiples of `2^l'` are live -/
theorem live_loop (n : Nat) : ∀ (f l : Nat) (st : Store), Live n (2 ^ l) (treeL n l) st → n ≤ 2 ^ (l + f) →
    ∃ l', l' ≤ l + f ∧ n ≤ 2 ^ l' ∧ Live n (2 ^ l') (treeL n l') (execAll (eventsAux n (2 ^ l) f) st) := by
  intro f
  induction f with
  | zero => intro l st h hn; exact ⟨l, Nat.le_refl _, hn, h⟩
  | succ f ih =>
    intro l st h hn
    unfold eventsAux
    by_cases hlt : 2 ^ l < n
    · simp only [hlt, if_true]
      rw [execAll_append]
      have h2 := live_round (Nat.pos_of_ne_zero (by positivity)) h
      rw [treeL_succ] at h2
      have e : 2 * 2 ^ l = 2 ^ (l + 1) := by ring
      rw [e] at h2 ⊢
      obtain ⟨l', h1, h3, h4⟩ := ih (l + 1) _ h2 (by rw [show l + 1 + f = l + (f + 1) by ring]; exact hn)
      exact ⟨l', by omega, h3, h4⟩
    · simp only [hlt, if_false]
      exact ⟨l, by omega, by omega, h⟩

theorem treeL_stable (n l : Nat) (h : n ≤ 2 ^ l) : ∀ d, treeL n (l + d) 0 = treeL n l 0 := by
  intro d
  induction d with
  | zero => rfl
  | succ d ih =>
    have : ¬ (0 + 2 ^ (l + d) < n) := by
      have : 2 ^ l ≤ 2 ^ (l + d) := Nat.pow_le_pow_right (by omega) (by omega)
      omega
    show (if 0 + 2 ^ (l + d) < n then _ else treeL n (l + d) 0) = _
    rw [if_neg this, ih]

/-! ### the leaves of the tree are all summands, each once, in order -/

theorem treeL_leaves (n : Nat) : ∀ (l j : Nat), j < n → (treeL n l j).leaves = List.range' j (min (2 ^ l) (n - j)) := by
  intro l
  induction l with
  | zero =>
    intro j hj
    have : min (2 ^ 0) (n - j) = 1 := by simp; omega
    rw [this]; rfl
  | succ l ih =>
    intro j hj
    show (if j + 2 ^ l < n then T.add (treeL n l j) (treeL n l (j + 2 ^ l)) else treeL n l j).leaves = _
    have hp : 2 ^ (l + 1) = 2 ^ l + 2 ^ l := by ring
    by_cases h : j + 2 ^ l < n
    · rw [if_pos h]
      show (treeL n l j).leaves ++ (treeL n l (j + 2 ^ l)).leaves = _
      rw [ih j hj, ih (j + 2 ^ l) h]
      have e1 : min (2 ^ l) (n - j) = 2 ^ l := by omega
      have e2 : min (2 ^ (l + 1)) (n - j) = 2 ^ l + min (2 ^ l) (n - (j + 2 ^ l)) := by omega
      rw [e1, e2, List.range'_append_1]
    · rw [if_neg h, ih j hj]
      congr 1; omega

theorem eval_eq_sum {α} [AddMonoid α] (x : Nat → α) : ∀ t : T, t.eval (· + ·) x = (t.leaves.map x).sum := by
  intro t
  induction t with
  | leaf i => simp [T.eval, T.leaves]
  | add l r ihl ihr => simp [T.eval, T.leaves, ihl, ihr]

/-! ### splitting a transfer into sub-messages does not change the effect -/

theorem execAll_nop : ∀ (L : List Ev) (s : Store), (∀ e ∈ L, e.fin = false) → execAll L s = s := by
  intro L
  induction L with
  | nil => intro s _; rfl
  | cons e L ih =>
    intro s h
    rw [execAll_cons]
    have : exec e s = s := by unfold exec; simp [h e (List.mem_cons_self ..)]
    rw [this]
    exact ih s (fun f hf => h f (List.mem_cons_of_mem _ hf))

theorem execAll_parts (m : Nat) (hm : 0 < m) (e : Ev) (he : e.fin = true) (s : Store) :
    execAll (parts m e) s = exec e s := by
  obtain ⟨k, rfl⟩ : ∃ k, m = k + 1 := ⟨m - 1, by omega⟩
  unfold parts
  rw [List.range_succ, List.map_append, execAll_append]
  have hn : ∀ f ∈ List.map (fun i => ({ e with part := i, fin := i + 1 == k + 1 } : Ev)) (List.range k),
      f.fin = false := by
    intro f hf
    simp only [List.mem_map, List.mem_range] at hf
    obtain ⟨i, hi, rfl⟩ := hf
    simp; omega
  rw [execAll_nop _ _ hn]
  simp [execAll, exec, he]

theorem execAll_expand (who : Nat → Nat) (m : Nat) (hm : 0 < m) : ∀ (E : List Ev) (s : Store),
    (∀ e ∈ E, e.fin = true) → execAll (expand who m E) s = execAll E s := by
  intro E
  induction E with
  | nil => intro s _; rfl
  | cons e E ih =>
    intro s h
    have he := h e (List.mem_cons_self ..)
    unfold expand
    rw [List.flatMap_cons, execAll_append, execAll_cons]
    have : execAll (if who e.dst = who e.src then [e] else parts m e) s = exec e s := by
      split
      · rfl
      · exact execAll_parts m hm e he s
    rw [this]
    exact ih _ (fun f hf => h f (List.mem_cons_of_mem _ hf))

theorem events_fin (n : Nat) : ∀ e ∈ events n, e.fin = true := by
  have : ∀ f s, ∀ e ∈ eventsAux n s f, e.fin = true := by
    intro f
    induction f with
    | zero => intro s e h; simp [eventsAux] at h
    | succ f ih =>
      intro s e h
      unfold eventsAux at h
      split at h
      · rcases List.mem_append.mp h with h | h
        · obtain ⟨j, _, rfl⟩ := mem_round.mp h; rfl
        · exact ih _ e h
      · cases h
  exact this n 1

end NiftyVerif.Allreduce
