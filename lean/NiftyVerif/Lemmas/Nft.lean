/-
  Theorems about the lattice Fourier-sum model of `Model/Nft.lean` (Nufft, Gridder, VariablePositionNufft of
  `nifty/cl/library/nft.py` at positions `pos_{j,d}·dst_d = a_{j,d}/M`).

  Setting: any commutative ring `K`, `ω : K` with `ω ^ M = 1`, `0 < M`; for the adjoint statements a conjugation
  `cj` (`IsConj cj`) with `cj ω * ω = 1` (over ℂ: `ω = e^{2πi/M}`, `cj` = complex conjugation; over the Gaussian rationals
  `CQ`: `M ∈ {1,2,4}`, `ω ∈ {1,−1,i}`).

    nft_adjoint           ⟨y, E x⟩ = ⟨Eᴴ y, x⟩            (all shapes, all D, all point sets)
    nft_dense             E[r, j] = ω ^ nftExpAt … r j
    nft_adjoint_dense     Eᴴ[j, r] = ω ^ ((M − m_rj) mod M) = cj (ω ^ m_rj)
    nft_mono_apply        evalPoly ω (monoApply … x r)    = (E x)_r        (what the driver prints evaluates to E x)
    nft_mono_applyAdj     evalPoly ω (monoApplyAdj … y j) = (Eᴴ y)_j
    monoApply_natural     monoApply commutes with every additive map of the coefficients (same for the adjoint)
    nft_exp_is_zpow       ω ^ ((m mod M).toNat) = ω ^ m (zpow of the unit ω)   — the reduced exponent is the documented phase
    nft_entry_zpow        E[r, j] = ω ^ (Σ_d κ_d a_{j,d})                       (zpow)
    nft_on_grid_is_dft    1-D, all N: positions j/N give the shifted DFT matrix ω^{(k + N − N/2)·j} = ω^{k j}·cj(ω^{(N/2) j})
    nft_on_grid_is_dft_nd D-dim, all shapes with N_d ∣ M: entry = Π_d (ω^{M/N_d}) ^ (κ_d · j_d)   (product of 1-D DFT entries)
    nft_shift             adding whole periods to any coordinates leaves the exponent table and the matrix unchanged
    nft_entry_complex     K = ℂ, ω = e^{2πi/M} (`omegaC_pow`, `omegaC_conj`: hypotheses hold for every M): E[r,j] = exp(2πi·Σ_d κ_d a_{j,d}/M)
-/
import NiftyVerif.Model.Nft
import NiftyVerif.Lemmas.Coo
import NiftyVerif.Lemmas.CQ
import Mathlib.Tactic.Ring
import Mathlib.Algebra.Group.Units.Basic
import Mathlib.Analysis.SpecialFunctions.Trigonometric.Basic

namespace NiftyVerif.Nft
open NiftyVerif NiftyVerif.Coo

section basics
variable {K : Type} [CommRing K]

/-- the model's recursive power is the ring power -/
theorem npow_eq_pow (w : K) (n : Nat) : npow w n = w ^ n := by
  induction n with
  | zero => simp [npow]
  | succ n ih => simp [npow, ih, pow_succ]

/-- powers of an `M`-th root of unity only depend on the exponent mod `M` -/
theorem pow_mod_root {w : K} {M : Nat} (hw : w ^ M = 1) (n : Nat) : w ^ (n % M) = w ^ n := by
  conv => rhs; rw [← Nat.div_add_mod n M, pow_add, pow_mul, hw, one_pow, one_mul]

theorem nftExpAt_lt {M : Nat} (hM : 0 < M) (shape : List Nat) (a : List (List Int)) (r j : Nat) :
    nftExpAt M shape a r j < M := by
  unfold nftExpAt
  have h1 : (0 : Int) < M := by exact_mod_cast hM
  have := Int.emod_lt_of_pos (phase shape (unravel shape r) (a.getD j [])) h1
  have := Int.emod_nonneg (phase shape (unravel shape r) (a.getD j [])) (ne_of_gt h1)
  omega

/-- the matrix as a row-wise operator -/
theorem nftCoo_eq_ofRows (w : K) (M : Nat) (shape : List Nat) (a : List (List Int)) :
    nftCoo w M shape a = ofRows (prodL shape) a.length
      (fun r => (List.range a.length).map fun j => (j, npow w (nftExpAt M shape a r j))) := by
  simp [nftCoo, nftExp, ofRows, List.map_flatMap, List.map_map, Function.comp_def]

theorem nftCoo_wf (w : K) (M : Nat) (shape : List Nat) (a : List (List Int)) :
    (nftCoo w M shape a).wf = true := by
  rw [nftCoo_eq_ofRows]
  apply ofRows_wf
  intro r _ cw hcw
  simp only [List.mem_map, List.mem_range] at hcw
  obtain ⟨j, hj, rfl⟩ := hcw
  exact hj

theorem nftCoo_rows (w : K) (M : Nat) (shape : List Nat) (a : List (List Int)) :
    (nftCoo w M shape a).rows = prodL shape := rfl
theorem nftCoo_cols (w : K) (M : Nat) (shape : List Nat) (a : List (List Int)) :
    (nftCoo w M shape a).cols = a.length := rfl

/-- dense entries of a row-wise operator -/
theorem dense_ofRows (rows cols : Nat) (f : Nat → List (Nat × K)) (r c : Nat) :
    dense (ofRows rows cols f) r c =
      if r < rows then sumL ((f r).map fun cw => if cw.1 = c then cw.2 else 0) else 0 := by
  unfold dense ofRows
  simp only
  rw [sumL_flatMap]
  have h1 : ∀ a, sumL (((f a).map fun cw => (a, cw.1, cw.2)).map
        fun e : Nat × Nat × K => if e.1 = r ∧ e.2.1 = c then e.2.2 else 0) =
      if a = r then sumL ((f a).map fun cw => if cw.1 = c then cw.2 else 0) else 0 := by
    intro a; rw [List.map_map]
    by_cases h : a = r
    · simp only [h, if_true]; apply sumL_map_congr; intro cw _; simp
    · simp only [h, if_false]; apply sumL_map_eq_zero; intro cw _; simp [h]
  simp only [h1]
  by_cases h : r < rows
  · simp only [h, if_true]
    exact sumN_ite_eq rows r h (fun a => sumL ((f a).map fun cw => if cw.1 = c then cw.2 else 0))
  · simp only [h, if_false]
    exact sumN_ite_ge rows r (by omega) _

/-- **entries**: `E[r, j] = ω ^ m_rj` -/
theorem nft_dense (w : K) (M : Nat) (shape : List Nat) (a : List (List Int)) (r j : Nat)
    (hr : r < prodL shape) (hj : j < a.length) :
    dense (nftCoo w M shape a) r j = w ^ nftExpAt M shape a r j := by
  rw [nftCoo_eq_ofRows, dense_ofRows, if_pos hr, List.map_map]
  have := sumN_ite_eq (K := K) a.length j hj (fun j => npow w (nftExpAt M shape a r j))
  unfold sumN at this
  rw [← npow_eq_pow, ← this]
  apply sumL_map_congr; intro i _; rfl

/-- **apply**: `(E x)_r = Σ_j ω^{m_rj} x_j` -/
theorem nft_apply (w : K) (M : Nat) (shape : List Nat) (a : List (List Int)) (x : Nat → K) (r : Nat)
    (hr : r < prodL shape) :
    apply (nftCoo w M shape a) x r = sumN a.length fun j => w ^ nftExpAt M shape a r j * x j := by
  rw [nftCoo_eq_ofRows, apply_ofRows, if_pos hr, List.map_map]
  unfold sumN
  apply sumL_map_congr; intro i _; simp [npow_eq_pow]

theorem cj_one {cj : K → K} (hc : IsConj cj) : cj 1 = 1 := by
  calc cj 1 = cj 1 * cj (cj 1) := by rw [hc.invol, mul_one]
    _ = cj (1 * cj 1) := (hc.mul _ _).symm
    _ = 1 := by rw [one_mul, hc.invol]

/-- `cj (ω^e)` is the inverse of `ω^e` -/
theorem cj_pow_mul {cj : K → K} (hc : IsConj cj) {w : K} (hcw : cj w * w = 1) (e : Nat) :
    cj (w ^ e) * w ^ e = 1 := by
  induction e with
  | zero => simp [cj_one hc]
  | succ n ih =>
    rw [pow_succ, hc.mul]
    calc cj (w ^ n) * cj w * (w ^ n * w) = (cj (w ^ n) * w ^ n) * (cj w * w) := by ring
      _ = 1 := by rw [ih, hcw, one_mul]

/-- `ω^{(M − e) mod M}` is the inverse of `ω^e` -/
theorem pow_neg_mul {w : K} {M : Nat} (hw : w ^ M = 1) {e : Nat} (he : e ≤ M) :
    w ^ ((M - e) % M) * w ^ e = 1 := by
  rw [pow_mod_root hw, ← pow_add, Nat.sub_add_cancel he, hw]

/-- conjugate of an entry: `cj (ω^e) = ω^{(M − e) mod M}` -/
theorem cj_pow_eq {cj : K → K} (hc : IsConj cj) {w : K} {M : Nat} (hw : w ^ M = 1) (hcw : cj w * w = 1)
    {e : Nat} (he : e ≤ M) : cj (w ^ e) = w ^ ((M - e) % M) := by
  have h1 := cj_pow_mul hc hcw e
  have h2 := pow_neg_mul hw he
  calc cj (w ^ e) = cj (w ^ e) * (w ^ ((M - e) % M) * w ^ e) := by rw [h2, mul_one]
    _ = (cj (w ^ e) * w ^ e) * w ^ ((M - e) % M) := by ring
    _ = w ^ ((M - e) % M) := by rw [h1, one_mul]

end basics

section main
variable {K : Type} [CommRing K]

/-- **adjointness** `⟨y, E x⟩ = ⟨Eᴴ y, x⟩`: all shapes, all dimensions, all point sets, all vectors -/
theorem nft_adjoint {cj : K → K} (hc : IsConj cj) (w : K) (M : Nat) (shape : List Nat) (a : List (List Int))
    (x y : Nat → K) :
    inner cj (prodL shape) y (apply (nftCoo w M shape a) x)
      = inner cj a.length (applyAdj cj (nftCoo w M shape a) y) x :=
  coo_adjoint hc (nftCoo w M shape a) (nftCoo_wf w M shape a) x y

/-- the adjoint matrix is the conjugate transpose -/
theorem nft_adjoint_dense_cj {cj : K → K} (hc : IsConj cj) (w : K) (M : Nat) (shape : List Nat)
    (a : List (List Int)) (r j : Nat) (hr : r < prodL shape) (hj : j < a.length) :
    dense (adj cj (nftCoo w M shape a)) j r = cj (w ^ nftExpAt M shape a r j) := by
  rw [coo_dense_adj hc, nft_dense _ _ _ _ _ _ hr hj]

/-- **entries of the adjoint**: `Eᴴ[j, r] = ω ^ ((M − m_rj) mod M)` -/
theorem nft_adjoint_dense {cj : K → K} (hc : IsConj cj) {w : K} {M : Nat} (hM : 0 < M) (hw : w ^ M = 1)
    (hcw : cj w * w = 1) (shape : List Nat) (a : List (List Int)) (r j : Nat)
    (hr : r < prodL shape) (hj : j < a.length) :
    dense (adj cj (nftCoo w M shape a)) j r = w ^ ((M - nftExpAt M shape a r j) % M) := by
  rw [nft_adjoint_dense_cj hc _ _ _ _ _ _ hr hj,
    cj_pow_eq hc hw hcw (Nat.le_of_lt (nftExpAt_lt hM shape a r j))]

/-- **adjoint apply**: `(Eᴴ y)_j = Σ_r ω^{(M − m_rj) mod M} y_r` (`y` is not conjugated) -/
theorem nft_applyAdj {cj : K → K} (hc : IsConj cj) {w : K} {M : Nat} (hM : 0 < M) (hw : w ^ M = 1)
    (hcw : cj w * w = 1) (shape : List Nat) (a : List (List Int)) (y : Nat → K) (j : Nat) (hj : j < a.length) :
    applyAdj cj (nftCoo w M shape a) y j
      = sumN (prodL shape) fun r => w ^ ((M - nftExpAt M shape a r j) % M) * y r := by
  unfold applyAdj
  rw [nftCoo_eq_ofRows, adj_ofRows, apply_ofCols]
  apply sumN_congr; intro r _
  rw [List.map_map, List.map_map]
  have := sumN_ite_eq (K := K) a.length j hj (fun j' => cj (npow w (nftExpAt M shape a r j')) * y r)
  unfold sumN at this
  rw [← cj_pow_eq hc hw hcw (Nat.le_of_lt (nftExpAt_lt hM shape a r j)), ← npow_eq_pow, ← this]
  apply sumL_map_congr; intro i _; rfl

theorem evalPoly_tabulate (w : K) (M : Nat) (f : Nat → K) :
    evalPoly w ((List.range M).map f) = sumN M fun m => f m * w ^ m := by
  unfold evalPoly
  rw [List.length_map, List.length_range]
  apply sumN_congr; intro m hm
  rw [npow_eq_pow]
  congr 1
  simp [List.getD_eq_getElem?_getD, hm]

/-- collecting equal exponents: `Σ_m (Σ_{i : e i = m} v_i) ω^m = Σ_i ω^{e i} v_i` when all `e i < M` -/
theorem mono_collect (w : K) (M n : Nat) (e : Nat → Nat) (he : ∀ i, e i < M) (v : Nat → K) :
    (sumN M fun m => (sumN n fun i => if e i = m then v i else 0) * w ^ m)
      = sumN n fun i => w ^ e i * v i := by
  have h1 : ∀ m, (sumN n fun i => if e i = m then v i else 0) * w ^ m
      = sumN n fun i => (if e i = m then v i else 0) * w ^ m := by
    intro m; unfold sumN; rw [sumL_map_mul_right]
  simp only [h1]
  rw [sumN_comm]
  apply sumN_congr; intro i _
  have := sumN_ite_eq' (K := K) M (e i) (he i) (fun m => w ^ m * v i)
  rw [← this]
  apply sumN_congr; intro m _
  by_cases h : e i = m
  · simp [h, mul_comm]
  · simp [h]

/-- **the driver's coefficient lists evaluate to the matrix-vector product**: `Σ_m c_r[m] ω^m = (E x)_r` -/
theorem nft_mono_apply (w : K) {M : Nat} (hM : 0 < M) (shape : List Nat) (a : List (List Int))
    (x : Nat → K) (r : Nat) (hr : r < prodL shape) :
    evalPoly w (monoApply M shape a x r) = apply (nftCoo w M shape a) x r := by
  unfold monoApply
  rw [evalPoly_tabulate, nft_apply _ _ _ _ _ _ hr]
  exact mono_collect w M a.length _ (fun j => nftExpAt_lt hM shape a r j) x

/-- adjoint analogue: `Σ_m c_j[m] ω^m = (Eᴴ y)_j` -/
theorem nft_mono_applyAdj {cj : K → K} (hc : IsConj cj) {w : K} {M : Nat} (hM : 0 < M) (hw : w ^ M = 1)
    (hcw : cj w * w = 1) (shape : List Nat) (a : List (List Int)) (y : Nat → K) (j : Nat) (hj : j < a.length) :
    evalPoly w (monoApplyAdj M shape a y j) = applyAdj cj (nftCoo w M shape a) y j := by
  unfold monoApplyAdj
  rw [evalPoly_tabulate, nft_applyAdj hc hM hw hcw _ _ _ _ hj]
  exact mono_collect w M (prodL shape) _ (fun r => Nat.mod_lt _ hM) y

end main

section natural
variable {K K' : Type} [CommRing K] [CommRing K']

theorem map_sumL (φ : K → K') (h0 : φ 0 = 0) (hadd : ∀ a b, φ (a + b) = φ a + φ b) {α : Type} (l : List α)
    (f : α → K) : φ (sumL (l.map f)) = sumL (l.map fun i => φ (f i)) := by
  induction l with
  | nil => simpa using h0
  | cons a l ih => simp [hadd, ih]

/-- **naturality**: `monoApply` commutes with every additive map of the coefficients (e.g. `CQ → ℂ`, conjugation, `Re`) -/
theorem monoApply_natural (φ : K → K') (h0 : φ 0 = 0) (hadd : ∀ a b, φ (a + b) = φ a + φ b)
    (M : Nat) (shape : List Nat) (a : List (List Int)) (x : Nat → K) (r : Nat) :
    monoApply M shape a (fun i => φ (x i)) r = (monoApply M shape a x r).map φ := by
  unfold monoApply
  rw [List.map_map]
  apply List.map_congr_left; intro m _
  simp only [Function.comp, sumN]
  rw [map_sumL φ h0 hadd]
  apply sumL_map_congr; intro i _
  by_cases h : nftExpAt M shape a r i = m <;> simp [h, h0]

theorem monoApplyAdj_natural (φ : K → K') (h0 : φ 0 = 0) (hadd : ∀ a b, φ (a + b) = φ a + φ b)
    (M : Nat) (shape : List Nat) (a : List (List Int)) (y : Nat → K) (j : Nat) :
    monoApplyAdj M shape a (fun i => φ (y i)) j = (monoApplyAdj M shape a y j).map φ := by
  unfold monoApplyAdj
  rw [List.map_map]
  apply List.map_congr_left; intro m _
  simp only [Function.comp, sumN]
  rw [map_sumL φ h0 hadd]
  apply sumL_map_congr; intro i _
  by_cases h : (M - nftExpAt M shape a i j) % M = m <;> simp [h, h0]

end natural

/-! ### the reduced exponent is the documented phase (integer powers of the unit `ω`) -/
section zpow
variable {K : Type} [CommRing K]

/-- an `M`-th root of unity (`M > 0`) as a unit; its inverse is `ω^{M-1}` -/
def rootUnit (w : K) (M : Nat) (hM : 0 < M) (hw : w ^ M = 1) : Kˣ :=
  ⟨w, w ^ (M - 1), by rw [← pow_succ', Nat.sub_add_cancel hM, hw], by rw [← pow_succ, Nat.sub_add_cancel hM, hw]⟩

@[simp] theorem rootUnit_val (w : K) (M : Nat) (hM : 0 < M) (hw : w ^ M = 1) : (rootUnit w M hM hw : K) = w := rfl

theorem rootUnit_pow (w : K) (M : Nat) (hM : 0 < M) (hw : w ^ M = 1) : rootUnit w M hM hw ^ M = 1 := by
  apply Units.ext; rw [Units.val_pow_eq_pow_val]; exact hw

theorem zpow_emod_root {u : Kˣ} {M : Nat} (hM : 0 < M) (hu : u ^ M = 1) (m : Int) :
    u ^ ((m % (M : Int)).toNat) = u ^ m := by
  have h1 : (0 : Int) < M := by exact_mod_cast hM
  have h2 : ((m % (M : Int)).toNat : Int) = m % (M : Int) := Int.toNat_of_nonneg (Int.emod_nonneg m (ne_of_gt h1))
  conv => rhs; rw [← Int.mul_ediv_add_emod m M, zpow_add, zpow_mul, zpow_natCast, hu, one_zpow, one_mul, ← h2,
    zpow_natCast]

/-- **the reduced exponent is the integer phase**: `ω ^ ((m mod M).toNat) = ω ^ m` for every integer `m` -/
theorem nft_exp_is_zpow {u : Kˣ} {M : Nat} (hM : 0 < M) (hu : u ^ M = 1) (m : Int) :
    (u : K) ^ ((m % (M : Int)).toNat) = ((u ^ m : Kˣ) : K) := by
  rw [← Units.val_pow_eq_pow_val, zpow_emod_root hM hu]

/-- **entries as integer powers**: `E[r, j] = ω ^ (Σ_d (k_d − N_d/2) · a_{j,d})` -/
theorem nft_entry_zpow {u : Kˣ} {M : Nat} (hM : 0 < M) (hu : u ^ M = 1) (shape : List Nat)
    (a : List (List Int)) (r j : Nat) (hr : r < prodL shape) (hj : j < a.length) :
    dense (nftCoo (u : K) M shape a) r j = ((u ^ phase shape (unravel shape r) (a.getD j []) : Kˣ) : K) := by
  rw [nft_dense _ _ _ _ _ _ hr hj]
  exact nft_exp_is_zpow hM hu _

end zpow

/-! ### positions on the FFT grid give the (shifted) DFT matrix -/
section dft
variable {K : Type} [CommRing K]

theorem dftPos_getD (N j : Nat) (hj : j < N) : (dftPos N).getD j [] = [(j : Int)] := by
  simp [dftPos, List.getD_eq_getElem?_getD, hj]

/-- 1-D, all `N`: with `M = N` and `a_j = j` the exponent is `(k − N/2)·j mod N = (k + (N − N/2))·j mod N` -/
theorem nftExpAt_dft (N k j : Nat) (hj : j < N) :
    nftExpAt N [N] (dftPos N) k j = ((k + (N - N / 2)) * j) % N := by
  unfold nftExpAt
  rw [dftPos_getD N j hj]
  simp only [unravel, prodL, phase, Nat.div_one, add_zero]
  obtain ⟨p, hp⟩ : ∃ p, N = N / 2 + p := ⟨N - N / 2, by omega⟩
  have hp' : N - N / 2 = p := by omega
  rw [hp']
  have h : ((k : Int) - ((N / 2 : Nat) : Int)) * (j : Int)
      = (((k + p) * j : Nat) : Int) + (N : Int) * (-(j : Int)) := by
    conv => rhs; rw [hp]
    push_cast; ring
  rw [h, Int.add_mul_emod_self_left, ← Int.natCast_mod, Int.toNat_natCast]

/-- **on-grid positions give the shifted DFT matrix** (1-D, every `N > 0`, all `k, j < N`):
    `E[k, j] = ω^{k·j} · ω^{(N − N/2)·j}` — the DFT matrix `ω^{kj}` with the centring shift `k ↦ k − N/2`.
    (The D-dimensional product version is `nft_on_grid_is_dft_nd` below.) -/
theorem nft_on_grid_is_dft {w : K} {N : Nat} (hw : w ^ N = 1) (k j : Nat) (hk : k < N) (hj : j < N) :
    dense (nftCoo w N [N] (dftPos N)) k j = w ^ (k * j) * w ^ ((N - N / 2) * j) := by
  have hk' : k < prodL [N] := by simpa [prodL] using hk
  have hj' : j < (dftPos N).length := by simpa [dftPos] using hj
  rw [nft_dense _ _ _ _ _ _ hk' hj', nftExpAt_dft N k j hj, pow_mod_root hw, ← pow_add, Nat.add_mul]

/-- the shift factor is the conjugate of `ω^{(N/2)·j}`: `E[k, j] = ω^{k j} · conj(ω^{(N/2) j}) = "ω^{(k − N/2) j}"` -/
theorem nft_on_grid_is_dft_cj {cj : K → K} (hc : IsConj cj) {w : K} {N : Nat} (hw : w ^ N = 1)
    (hcw : cj w * w = 1) (k j : Nat) (hk : k < N) (hj : j < N) :
    dense (nftCoo w N [N] (dftPos N)) k j = w ^ (k * j) * cj (w ^ (N / 2 * j)) := by
  rw [nft_on_grid_is_dft hw k j hk hj]
  congr 1
  have h1 := cj_pow_mul hc hcw (N / 2 * j)
  have h2 : w ^ ((N - N / 2) * j) * w ^ (N / 2 * j) = 1 := by
    rw [← pow_add, ← Nat.add_mul, Nat.sub_add_cancel (Nat.div_le_self N 2), pow_mul, hw, one_pow]
  calc w ^ ((N - N / 2) * j) = w ^ ((N - N / 2) * j) * (cj (w ^ (N / 2 * j)) * w ^ (N / 2 * j)) := by
        rw [h1, mul_one]
    _ = (w ^ ((N - N / 2) * j) * w ^ (N / 2 * j)) * cj (w ^ (N / 2 * j)) := by ring
    _ = cj (w ^ (N / 2 * j)) := by rw [h2, one_mul]

/-- D-dimensional DFT entry: `Π_d (ω^{M/N_d}) ^ ((k_d − N_d/2) · j_d)`; `ω^{M/N_d}` is an `N_d`-th root of unity
    (`axis_root`), so every factor is the 1-D shifted DFT entry of axis `d` -/
def dftProd (u : Kˣ) (M : Nat) : List Nat → List Nat → List Nat → Kˣ
  | n :: sh, k :: ks, j :: js =>
      (u ^ (M / n)) ^ (((k : Int) - ((n / 2 : Nat) : Int)) * (j : Int)) * dftProd u M sh ks js
  | _, _, _ => 1

theorem axis_root {u : Kˣ} {M : Nat} (hu : u ^ M = 1) {n : Nat} (hn : n ∣ M) : (u ^ (M / n)) ^ n = 1 := by
  rw [← pow_mul, Nat.div_mul_cancel hn, hu]

theorem phase_gridPos (u : Kˣ) (M : Nat) : ∀ (sh ks js : List Nat),
    u ^ phase sh ks (List.zipWith (fun (n jd : Nat) => ((jd * (M / n) : Nat) : Int)) sh js) = dftProd u M sh ks js
  | [], _, _ => by simp [phase, dftProd]
  | _ :: _, [], _ => by simp [phase, dftProd]
  | _ :: _, _ :: _, [] => by simp [phase, dftProd]
  | n :: sh, k :: ks, j :: js => by
    simp only [List.zipWith_cons_cons, phase, dftProd]
    rw [zpow_add, phase_gridPos u M sh ks js]
    congr 1
    rw [← zpow_natCast u (M / n), ← zpow_mul]
    congr 1
    push_cast; ring

theorem gridPos_getD (M : Nat) (shape : List Nat) (j : Nat) (hj : j < prodL shape) :
    (gridPos M shape).getD j []
      = List.zipWith (fun (n jd : Nat) => ((jd * (M / n) : Nat) : Int)) shape (unravel shape j) := by
  simp [gridPos, List.getD_eq_getElem?_getD, hj]

/-- **on-grid positions, D dimensions** (every shape, every `M > 0`; the positions are the FFT-grid positions
    `pos_{j,d}·dst_d = j_d / N_d` when `N_d ∣ M`): the entry at pixel `k = unravel r`, point `j = unravel c` is the
    product of the 1-D shifted DFT entries `(ω^{M/N_d}) ^ ((k_d − N_d/2)·j_d)`. -/
theorem nft_on_grid_is_dft_nd {u : Kˣ} {M : Nat} (hM : 0 < M) (hu : u ^ M = 1) (shape : List Nat)
    (r c : Nat) (hr : r < prodL shape) (hc : c < prodL shape) :
    dense (nftCoo (u : K) M shape (gridPos M shape)) r c
      = ((dftProd u M shape (unravel shape r) (unravel shape c) : Kˣ) : K) := by
  have hc' : c < (gridPos M shape).length := by simpa [gridPos] using hc
  rw [nft_entry_zpow hM hu _ _ _ _ hr hc', gridPos_getD M shape c hc, phase_gridPos]

end dft

/-! ### periodicity in the positions -/
section shift
variable {K : Type} [CommRing K]

theorem phase_shift (M : Nat) : ∀ (sh ks : List Nat) (as : List Int) (z : Nat → Int),
    ∃ q : Int, phase sh ks (as.mapIdx fun d v => v + (M : Int) * z d) = phase sh ks as + (M : Int) * q
  | [], _, _, _ => ⟨0, by simp [phase]⟩
  | _ :: _, [], _, _ => ⟨0, by simp [phase]⟩
  | _ :: _, _ :: _, [], _ => ⟨0, by simp [phase]⟩
  | n :: sh, k :: ks, a :: as, z => by
    obtain ⟨q, hq⟩ := phase_shift M sh ks as (fun d => z (d + 1))
    refine ⟨((k : Int) - ((n / 2 : Nat) : Int)) * z 0 + q, ?_⟩
    simp only [List.mapIdx_cons, phase]
    rw [hq]; ring

theorem nftExpAt_shift (M : Nat) (z : Nat → Nat → Int) (shape : List Nat) (a : List (List Int)) (r j : Nat) :
    nftExpAt M shape (shiftPos M z a) r j = nftExpAt M shape a r j := by
  unfold nftExpAt shiftPos
  rw [List.getD_eq_getElem?_getD, List.getD_eq_getElem?_getD, List.getElem?_mapIdx]
  cases h : a[j]? with
  | none => simp
  | some aj =>
    simp only [Option.map_some, Option.getD_some]
    obtain ⟨q, hq⟩ := phase_shift M shape (unravel shape r) aj (z j)
    rw [hq, Int.add_mul_emod_self_left]

/-- **periodicity**: adding whole periods to any position coordinates (`a_{j,d} ↦ a_{j,d} + M·z_{j,d}`, i.e.
    `pos_{j,d} ↦ pos_{j,d} + z_{j,d}/dst_d`) leaves the exponent table unchanged — all shapes, all dimensions -/
theorem nft_shift_exp (M : Nat) (z : Nat → Nat → Int) (shape : List Nat) (a : List (List Int)) :
    nftExp M shape (shiftPos M z a) = nftExp M shape a := by
  unfold nftExp
  have hl : (shiftPos M z a).length = a.length := by simp [shiftPos]
  rw [hl]
  simp only [nftExpAt_shift]

/-- … and therefore the operator (and its adjoint) -/
theorem nft_shift (w : K) (M : Nat) (z : Nat → Nat → Int) (shape : List Nat) (a : List (List Int)) :
    nftCoo w M shape (shiftPos M z a) = nftCoo w M shape a := by
  unfold nftCoo
  rw [nft_shift_exp]
  simp [shiftPos]

end shift

/-! ### non-vacuity: concrete instances over the Gaussian rationals (`M = 4`, `ω = i`), the scalars the driver runs on -/
section examples
open CQ

/-- the hypotheses of all theorems above are met by `K = CQ`, `M = 4`, `ω = i`, `cj = conj` -/
theorem cqI_root : (CQ.I : CQ) ^ 4 = 1 := by decide +kernel
theorem cqI_conj : CQ.conj CQ.I * CQ.I = 1 := by decide +kernel
/-- `i` as a unit of `CQ` -/
def cqIUnit : CQˣ := rootUnit CQ.I 4 (by decide) cqI_root

-- shape [3] (odd: centred index κ = k − 1), two points a = 1, −2  (pos·dst = 1/4, −1/2)
example : nftExp 4 [3] [[1], [-2]] = [(0, 0, 3), (0, 1, 2), (1, 0, 0), (1, 1, 0), (2, 0, 1), (2, 1, 2)] := by decide
-- 2-D, shape [2,3]: κ = (k_0 − 1, k_1 − 1)
example : (nftExp 4 [2, 3] [[1, 1]]).map (fun e => e.2.2) = [2, 3, 0, 3, 0, 1] := by decide

-- nft_adjoint on a concrete pair of vectors (both sides are the same Gaussian rational, and not zero)
example : inner CQ.conj 3 (vecOf [⟨1, 0⟩, ⟨2, 0⟩, ⟨-1, 0⟩]) (apply (nftCoo CQ.I 4 [3] [[1], [-2]]) (vecOf [⟨1, 2⟩, ⟨0, -1⟩]))
    = ⟨6, 0⟩ ∧
    inner CQ.conj 2 (applyAdj CQ.conj (nftCoo CQ.I 4 [3] [[1], [-2]]) (vecOf [⟨1, 0⟩, ⟨2, 0⟩, ⟨-1, 0⟩])) (vecOf [⟨1, 2⟩, ⟨0, -1⟩])
    = ⟨6, 0⟩ := by decide +kernel
example := nft_adjoint CQ.conj_isConj CQ.I 4 [3] [[1], [-2]] (vecOf [⟨1, 2⟩, ⟨0, -1⟩]) (vecOf [⟨1, 0⟩, ⟨2, 0⟩, ⟨-1, 0⟩])

-- nft_adjoint_dense: Eᴴ[0, 0] = conj(i^3) = i = i^((4 − 3) mod 4)
example : dense (adj CQ.conj (nftCoo CQ.I 4 [3] [[1], [-2]])) 0 0 = CQ.I := by decide +kernel
example := nft_adjoint_dense CQ.conj_isConj (by decide : 0 < 4) cqI_root cqI_conj [3] [[1], [-2]] 0 0 (by decide) (by decide)

-- nft_mono_apply / nft_mono_applyAdj: the coefficient lists the driver prints, and their value at ω = i
example : monoApply 4 [3] [[1], [-2]] (vecOf [(⟨1, 2⟩ : CQ), ⟨0, -1⟩]) 0 = [⟨0, 0⟩, ⟨0, 0⟩, ⟨0, -1⟩, ⟨1, 2⟩] := by decide +kernel
example : evalPoly CQ.I (monoApply 4 [3] [[1], [-2]] (vecOf [(⟨1, 2⟩ : CQ), ⟨0, -1⟩]) 0) = ⟨2, 0⟩
    ∧ apply (nftCoo CQ.I 4 [3] [[1], [-2]]) (vecOf [(⟨1, 2⟩ : CQ), ⟨0, -1⟩]) 0 = ⟨2, 0⟩ := by decide +kernel
example : monoApplyAdj 4 [3] [[1], [-2]] (vecOf [(⟨1, 0⟩ : CQ), ⟨2, 0⟩, ⟨-1, 0⟩]) 0 = [⟨2, 0⟩, ⟨1, 0⟩, ⟨0, 0⟩, ⟨-1, 0⟩] := by
  decide +kernel
example : evalPoly CQ.I (monoApplyAdj 4 [3] [[1], [-2]] (vecOf [(⟨1, 0⟩ : CQ), ⟨2, 0⟩, ⟨-1, 0⟩]) 0) = ⟨2, 2⟩
    ∧ applyAdj CQ.conj (nftCoo CQ.I 4 [3] [[1], [-2]]) (vecOf [(⟨1, 0⟩ : CQ), ⟨2, 0⟩, ⟨-1, 0⟩]) 0 = ⟨2, 2⟩ := by decide +kernel
example := nft_mono_apply CQ.I (by decide : 0 < 4) [3] [[1], [-2]] (vecOf [(⟨1, 2⟩ : CQ), ⟨0, -1⟩]) 0 (by decide)
example := nft_mono_applyAdj CQ.conj_isConj (by decide : 0 < 4) cqI_root cqI_conj [3] [[1], [-2]]
  (vecOf [(⟨1, 0⟩ : CQ), ⟨2, 0⟩, ⟨-1, 0⟩]) 0 (by decide)
-- naturality with φ = conj
example := monoApply_natural CQ.conj (by decide +kernel) CQ.conj_isConj.add 4 [3] [[1], [-2]] (vecOf [(⟨1, 2⟩ : CQ), ⟨0, -1⟩]) 0

-- nft_exp_is_zpow: m = −3 is reduced to 1, i^{−3} = i
example : ((-3 : Int) % ((4 : Nat) : Int)).toNat = 1 := by decide
example := nft_exp_is_zpow (u := cqIUnit) (by decide : 0 < 4) (rootUnit_pow _ _ _ _) (-3)

-- nft_on_grid_is_dft, N = 4: rows k = 0..3 (κ = −2..1) of the exponent table of the shifted DFT matrix
example : (List.range 4).map (fun k => (List.range 4).map fun j => nftExpAt 4 [4] (dftPos 4) k j)
    = [[0, 2, 0, 2], [0, 3, 2, 1], [0, 0, 0, 0], [0, 1, 2, 3]] := by decide
-- odd N = 3 (M = 3): κ = −1, 0, 1
example : (List.range 3).map (fun k => (List.range 3).map fun j => nftExpAt 3 [3] (dftPos 3) k j)
    = [[0, 2, 1], [0, 0, 0], [0, 1, 2]] := by decide
example : dense (nftCoo CQ.I 4 [4] (dftPos 4)) 1 3 = CQ.I := by decide +kernel
example := nft_on_grid_is_dft cqI_root 1 3 (by decide) (by decide)
example := nft_on_grid_is_dft_cj CQ.conj_isConj cqI_root cqI_conj 1 3 (by decide) (by decide)
-- D = 2, shape [2, 4], M = 4: FFT-grid positions (j_0/2, j_1/4) ↦ a = (2 j_0, j_1)
example : gridPos 4 [2, 4] = [[0, 0], [0, 1], [0, 2], [0, 3], [2, 0], [2, 1], [2, 2], [2, 3]] := by decide
example : (List.range 8).map (fun c => nftExpAt 4 [2, 4] (gridPos 4 [2, 4]) 7 c) = [0, 1, 2, 3, 0, 1, 2, 3]
    ∧ (List.range 8).map (fun c => nftExpAt 4 [2, 4] (gridPos 4 [2, 4]) 0 c) = [0, 2, 0, 2, 2, 0, 2, 0] := by decide
example := nft_on_grid_is_dft_nd (u := cqIUnit) (by decide : 0 < 4) (rootUnit_pow _ _ _ _) [2, 4] 7 5 (by decide) (by decide)
example := axis_root (u := cqIUnit) (rootUnit_pow _ _ _ _) (by decide : 2 ∣ 4)

-- nft_shift: whole periods (here z_{j,d} = j − d) change the lattice coordinates but not the table
example : shiftPos 4 (fun j d => (j : Int) - d) [[1, 2], [-3, 0]] = [[1, -2], [1, 0]] := by decide
example : nftExp 4 [2, 3] [[1, -2], [1, 0]] = nftExp 4 [2, 3] [[1, 2], [-3, 0]] := by decide
example := nft_shift CQ.I 4 (fun j d => (j : Int) - d) [2, 3] [[1, 2], [-3, 0]]

end examples

/-! ### the complex instance: `K = ℂ`, `ω = e^{2πi/M}`, every `M > 0`
  (this section is the only user of the analysis import; it shows that the hypotheses `ω^M = 1`, `cj ω · ω = 1` of the
  theorems above are met for EVERY `M` — over `CQ` only `M ∈ {1,2,4}` have a primitive root — and that the entries are the
  documented phase factors `exp(i · Σ_d κ_d · 2π · pos_{j,d} · dst_d)` with `pos_{j,d}·dst_d = a_{j,d}/M`) -/
section complex
open Complex

/-- `ω = e^{2πi/M}` -/
noncomputable def omegaC (M : Nat) : ℂ := Complex.exp (2 * Real.pi * I / M)

theorem omegaC_pow {M : Nat} (hM : 0 < M) : omegaC M ^ M = 1 := by
  unfold omegaC
  rw [← Complex.exp_nat_mul]
  have hM' : (M : ℂ) ≠ 0 := by exact_mod_cast (Nat.pos_iff_ne_zero.mp hM)
  have : (M : ℂ) * (2 * Real.pi * I / M) = 2 * Real.pi * I := by field_simp
  rw [this, exp_two_pi_mul_I]

theorem isConj_star : IsConj (starRingEnd ℂ) := ⟨map_add _, map_mul _, Complex.conj_conj⟩

theorem omegaC_conj (M : Nat) : starRingEnd ℂ (omegaC M) * omegaC M = 1 := by
  unfold omegaC
  rw [← Complex.exp_conj, ← Complex.exp_add]
  have : (starRingEnd ℂ) (2 * Real.pi * I / M) + 2 * Real.pi * I / M = 0 := by
    simp only [map_div₀, map_mul, Complex.conj_ofReal, Complex.conj_I, map_natCast, map_ofNat]
    ring
  rw [this, Complex.exp_zero]

/-- over ℂ the entry is the documented phase factor `exp(2πi · Σ_d κ_d a_{j,d} / M)` -/
theorem nft_entry_complex {M : Nat} (hM : 0 < M) (shape : List Nat) (a : List (List Int)) (r j : Nat)
    (hr : r < prodL shape) (hj : j < a.length) :
    dense (nftCoo (omegaC M) M shape a) r j
      = Complex.exp (2 * Real.pi * I * ((phase shape (unravel shape r) (a.getD j []) : Int) : ℂ) / M) := by
  rw [nft_dense _ _ _ _ _ _ hr hj]
  unfold nftExpAt
  generalize phase shape (unravel shape r) (a.getD j []) = m
  have h1 : (0 : Int) < M := by exact_mod_cast hM
  have h2 : ((m % (M : Int)).toNat : Int) = m % (M : Int) := Int.toNat_of_nonneg (Int.emod_nonneg m (ne_of_gt h1))
  have hM' : (M : ℂ) ≠ 0 := by exact_mod_cast (Nat.pos_iff_ne_zero.mp hM)
  have h3 : (m : ℂ) = (M : ℂ) * ((m / (M : Int) : Int) : ℂ) + (((m % (M : Int)).toNat : Nat) : ℂ) := by
    have := Int.mul_ediv_add_emod m M
    rw [← h2] at this
    exact_mod_cast this.symm
  have h4 : 2 * Real.pi * I * (m : ℂ) / M
      = ((m / (M : Int) : Int) : ℂ) * (2 * Real.pi * I) + (((m % (M : Int)).toNat : Nat) : ℂ) * (2 * Real.pi * I / M) := by
    rw [h3]; field_simp
  rw [h4, Complex.exp_add, exp_int_mul_two_pi_mul_I, one_mul, Complex.exp_nat_mul]
  rfl


/-- all theorems of this file apply to the complex operator for every `M > 0`, e.g. adjointness and the evaluation of the
    driver's coefficient lists (`M = 12`, a lattice the harness generates, has no primitive root in `CQ`) -/
example (shape : List Nat) (a : List (List Int)) (x y : Nat → ℂ) :=
  nft_adjoint isConj_star (omegaC 12) 12 shape a x y
example (shape : List Nat) (a : List (List Int)) (y : Nat → ℂ) (j : Nat) (hj : j < a.length) :=
  nft_mono_applyAdj isConj_star (by decide : 0 < 12) (omegaC_pow (by decide)) (omegaC_conj 12) shape a y j hj

end complex

end NiftyVerif.Nft
