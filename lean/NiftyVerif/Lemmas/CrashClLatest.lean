/-
  Lemmas for C25, save strategy `latest`, repaired protocol (temp + os.replace everywhere, marker written last, and the
  marker REMOVED before latest.* is overwritten): the directory is `GoodL` (marker absent, or marker = i and the `latest.*`
  files are those of iteration i) at EVERY crash point, and from a `GoodL` directory resume returns the uninterrupted result.
-/
import NiftyVerif.Lemmas.CrashCl
namespace NiftyVerif.CrashCl
open NiftyVerif.CrashFS

variable {S : Type}

/-- "marker = i and the latest.* files, both histories and the random state are complete and from iteration i" -/
def GoodAtL (sys : Sys S) (s0 : S) (i : Nat) (fs : FS Path) : Prop :=
  fs .marker = some (sys.digits i) ∧ FilesOf sys .latest (sAfter sys s0 (i + 1)) fs ∧
    (∃ e, fs (.ehist .latest) = some e ∧ sys.okE e = true) ∧
    (∃ m, fs (.mhist .latest) = some m ∧ sys.okM m = true) ∧ (∃ r, fs .rstate = some r ∧ sys.okR r = true)

def GoodL (sys : Sys S) (s0 : S) (total : Nat) (fs : FS Path) : Prop :=
  fs .marker = none ∨ ∃ i, i < total ∧ GoodAtL sys s0 i fs

theorem load_of_goodAtL {sys : Sys S} (hl : Lawful sys) (s0 : S) {total i : Nat} (hi : i < total) {fs : FS Path}
    (hg : GoodAtL sys s0 i fs) :
    load sys .latest true total s0 fs = .ok (i + 1, sAfter sys s0 (i + 1), false) := by
  obtain ⟨h1, hf, ⟨e, he, hoe⟩, _, ⟨r, hr, hor⟩⟩ := hg
  have hls := listSamples_of_files sys _ _ fs hf (sys.nsamp + 1) 0 (by omega)
  rw [Nat.sub_zero, ← List.range_eq_range'] at hls
  have hne : ((List.range sys.nsamp).map (sys.encSample (sAfter sys s0 (i + 1)))).isEmpty = false := by
    obtain ⟨m, hm⟩ : ∃ m, sys.nsamp = m + 1 := ⟨sys.nsamp - 1, by have := hl.nsamp_pos; omega⟩
    rw [hm, List.range_succ]; simp
  have hcond : ((sys.encMean (sAfter sys s0 (i + 1))).isNone &&
      ((List.range sys.nsamp).map (sys.encSample (sAfter sys s0 (i + 1)))).length != 1) = false := by
    cases hm : sys.encMean (sAfter sys s0 (i + 1)) with
    | some c => simp
    | none => simp [hl.map_one _ hm]
  unfold load
  simp only [if_true, h1, hl.parse_digits, baseOf, hf.2.2, hls, hne, hcond, hl.dec_enc, loadable, hr, hor, he, hoe]
  by_cases ht : i + 1 = total
  · simp [ht]
  · simp [ht]

/-- loop precondition at iteration `j`, strategy latest -/
def PreL (sys : Sys S) (s0 : S) (j : Nat) (fs : FS Path) : Prop :=
  (j = 0 ∧ fs .marker = none ∧ ∃ r, fs .rstate = some r ∧ sys.okR r = true) ∨ (∃ i, j = i + 1 ∧ GoodAtL sys s0 i fs)

theorem preL_good {sys : Sys S} {s0 : S} {total j : Nat} (hj : j ≤ total) {fs : FS Path} (h : PreL sys s0 j fs) :
    GoodL sys s0 total fs := by
  rcases h with ⟨_, h, _⟩ | ⟨i, rfl, h⟩
  · exact Or.inl h
  · exact Or.inr ⟨i, by omega, h⟩

theorem preL_rstate {sys : Sys S} {s0 : S} {j : Nat} {fs : FS Path} (h : PreL sys s0 j fs) :
    ∃ r, fs .rstate = some r ∧ sys.okR r = true := by
  rcases h with ⟨_, _, hr⟩ | ⟨i, _, hg⟩
  · exact hr
  · exact hg.2.2.2.2

/-- a completed iteration `j` (started on a directory whose random-state file is complete) establishes `GoodAtL j` -/
theorem goodAtL_after_iter {sys : Sys S} (hl : Lawful sys) (s0 : S) (j : Nat) (fs : FS Path)
    (hrs0 : ∃ r, fs .rstate = some r ∧ sys.okR r = true)
    {t : List (Op Path)} (ht : t <+: appendFile .counting (sys.msgC j)) :
    GoodAtL sys s0 j
      (execs fs (body sys .latest j (sys.step j (sAfter sys s0 j)) ++ [Op.replace .markerTmp .marker] ++ t)) := by
  have hb := body_full sys .latest j (sys.step j (sAfter sys s0 j)) fs
  simp only [baseOf] at hb
  obtain ⟨b1, b2, b3, b4, b5, b6⟩ := hb
  have hrs : ∃ r, execs fs (body sys .latest j (sys.step j (sAfter sys s0 j))) .rstate = some r ∧ sys.okR r = true := by
    rw [body_prefix_frame sys .latest j _ .rstate (by simp [own]) (List.prefix_refl _)]
    exact hrs0
  have key : GoodAtL sys s0 j
      (exec (execs fs (body sys .latest j (sys.step j (sAfter sys s0 j)))) (Op.replace .markerTmp .marker)) := by
    refine ⟨?_, ⟨?_, ?_, ?_⟩, ?_, ?_, ?_⟩
    · simp [exec, FS.set, b6]
    · intro k hk; simp [exec, FS.set]; exact b1 k hk
    · simp [exec, FS.set]; exact b2
    · simp [exec, FS.set]; exact b3
    · exact ⟨_, by simp [exec, FS.set]; exact b4, hl.okE_enc j⟩
    · exact ⟨_, by simp [exec, FS.set]; exact b5, hl.okM_enc j⟩
    · obtain ⟨r, hr, hor⟩ := hrs
      exact ⟨r, by simp [exec, FS.set]; exact hr, hor⟩
  rw [List.append_assoc, execs_append, List.singleton_append, execs_cons]
  have hfr : ∀ q, q ≠ .counting → execs (exec (execs fs (body sys .latest j (sys.step j (sAfter sys s0 j))))
      (Op.replace .markerTmp .marker)) t q = (exec (execs fs (body sys .latest j (sys.step j (sAfter sys s0 j))))
      (Op.replace .markerTmp .marker)) q := by
    intro q hq
    refine execs_frame t q (fun o ho hto => ?_) _
    exact hq (appendFile_touches _ _ _ o (mem_of_mem_prefix ht ho) hto)
  obtain ⟨g1, ⟨g2, g3, g4⟩, g5, g6, g7⟩ := key
  refine ⟨?_, ⟨?_, ?_, ?_⟩, ?_, ?_, ?_⟩
  · rw [hfr _ (by simp)]; exact g1
  · intro k hk; rw [hfr _ (by simp)]; exact g2 k hk
  · rw [hfr _ (by simp)]; exact g3
  · rw [hfr _ (by simp)]; exact g4
  · rw [hfr _ (by simp)]; exact g5
  · rw [hfr _ (by simp)]; exact g6
  · rw [hfr _ (by simp)]; exact g7

/-- the first half of an iteration does not touch the minisanity history (which `_minisanity` is about to load) -/
theorem iterOpsA_frame_mhist (sys : Sys S) (j : Nat) (s' : S) (fs : FS Path) :
    execs fs (iterOpsA sys .repaired .latest j s') (.mhist .latest) = fs (.mhist .latest) := by
  refine execs_frame _ _ (fun o ho hq => ?_) fs
  simp only [iterOpsA, invalidate, baseOf, saveValues, List.append_nil, List.mem_append, List.mem_singleton] at ho
  rcases ho with ((rfl | ho) | ho) | ho
  · simp [Op.touches] at hq
  · simp only [saveSamples, saveOne, List.mem_cons, List.mem_append] at ho
    rcases ho with rfl | ho | ho | ho
    · simp [Op.touches] at hq
    · cases unlinkMean_touches sys _ _ s' _ o ho hq
    · rcases flatMap_atomic_touches (fun k => .sample .latest k) (fun k => .sampleTmp .latest k)
        (fun k => sys.encSample s' k) (List.range sys.nsamp) _ o ho hq with ⟨k, _, h | h⟩ <;> cases h
    · rcases saveMean_touches sys _ s' _ o ho hq with h | h <;> cases h
  · rcases atomicWrite_touches _ _ _ _ o ho hq with h | h <;> cases h
  · cases appendFile_touches _ _ _ o ho hq

theorem iterOps_eq_latest (sys : Sys S) (j : Nat) (s' : S) :
    iterOpsA sys .repaired .latest j s' ++ iterOpsB sys .repaired .latest j =
      Op.remove .marker ::
        (body sys .latest j s' ++ [Op.replace .markerTmp .marker] ++ appendFile .counting (sys.msgC j)) := by
  rw [iterOps_eq]; simp [invalidate]

/-- the loop from `PreL j` (strategy latest, repaired): never raises, returns the uninterrupted result, and EVERY crash
    point leaves a `GoodL` directory (between the removal of the marker and its re-creation the marker is absent) -/
theorem loopL_good {sys : Sys S} (hl : Lawful sys) (s0 : S) (total : Nat) :
    ∀ (fuel j : Nat) (fs : FS Path), j + fuel = total → PreL sys s0 j fs →
      (loop sys .repaired .latest fuel j (sAfter sys s0 j) fs).2 = .ok (sAfter sys s0 total) ∧
      ∀ pre, pre <+: (loop sys .repaired .latest fuel j (sAfter sys s0 j) fs).1 → GoodL sys s0 total (execs fs pre) := by
  intro fuel
  induction fuel with
  | zero =>
    intro j fs hj hpre
    have : j = total := by omega
    subst this
    refine ⟨rfl, ?_⟩
    intro pre hp
    have : pre = [] := by simpa [loop] using hp
    subst this; exact preL_good (Nat.le_refl _) hpre
  | succ fuel ih =>
    intro j fs hj hpre
    have hchk : (if j = 0 then Except.ok () else
        loadable (execs fs (iterOpsA sys .repaired .latest j (sys.step j (sAfter sys s0 j))))
          (.mhist (baseOf .latest (j - 1))) sys.okM) = Except.ok () := by
      by_cases h0 : j = 0
      · simp [h0]
      · simp only [h0, if_false, baseOf, loadable, iterOpsA_frame_mhist]
        rcases hpre with ⟨h, _⟩ | ⟨i, hi, hg⟩
        · exact (h0 h).elim
        · obtain ⟨m, hm, hom⟩ := hg.2.2.2.1
          simp [hm, hom]
    -- after the marker has been removed
    have hrs1 : ∃ r, exec fs (Op.remove .marker) .rstate = some r ∧ sys.okR r = true := by
      obtain ⟨r, hr, hor⟩ := preL_rstate hpre
      exact ⟨r, by simp [exec, FS.set, hr], hor⟩
    have hm1 : exec fs (Op.remove .marker) .marker = none := by simp [exec, FS.set]
    have hpre' : PreL sys s0 (j + 1) (execs fs (iterOpsA sys .repaired .latest j (sys.step j (sAfter sys s0 j)) ++
        iterOpsB sys .repaired .latest j)) := by
      rw [iterOps_eq_latest, execs_cons]
      exact Or.inr ⟨j, rfl, goodAtL_after_iter hl s0 j _ hrs1 (List.prefix_refl _)⟩
    have hrec := ih (j + 1) _ (by omega) hpre'
    rw [sAfter_succ] at hrec
    simp only [loop, hchk]
    rw [← execs_append]
    refine ⟨hrec.1, ?_⟩
    intro pre hp
    rcases prefix_append_cases hp with h | ⟨t, rfl, ht⟩
    · -- crash inside iteration j
      rw [iterOps_eq_latest, List.prefix_cons_iff] at h
      rcases h with rfl | ⟨t0, rfl, ht0⟩
      · exact preL_good (by omega) hpre
      · rw [execs_cons]
        rw [List.append_assoc] at ht0
        rcases prefix_append_cases ht0 with h1 | ⟨t1, rfl, ht1⟩
        · -- the marker is gone and nothing in the body brings it back
          left
          rw [body_prefix_frame sys .latest j _ .marker (by simp [own]) h1]; exact hm1
        · rw [List.singleton_append, List.prefix_cons_iff] at ht1
          rcases ht1 with rfl | ⟨t2, rfl, ht2⟩
          · left
            rw [List.append_nil, body_prefix_frame sys .latest j _ .marker (by simp [own]) (List.prefix_refl _)]
            exact hm1
          · refine Or.inr ⟨j, by omega, ?_⟩
            have := goodAtL_after_iter hl s0 j _ hrs1 ht2
            simpa [List.append_assoc] using this
    · rw [execs_append]
      exact hrec.2 t ht

/-- every start of the driver on a `GoodL` directory (resume=True, or any flag on a directory without marker) returns the
    uninterrupted result, and every crash point of it leaves a `GoodL` directory -/
theorem runL_good {sys : Sys S} (hl : Lawful sys) (s0 : S) (total : Nat) {fs : FS Path} (resume : Bool)
    (hg : GoodL sys s0 total fs) (hres : resume = true ∨ fs .marker = none) :
    (run sys .repaired .latest resume total s0 fs).2 = .ok (sAfter sys s0 total) ∧
      ∀ pre, pre <+: (run sys .repaired .latest resume total s0 fs).1 → GoodL sys s0 total (execs fs pre) := by
  have fresh : fs .marker = none → load sys .latest resume total s0 fs = .ok (0, s0, true) := by
    intro h; cases resume <;> simp [load, h]
  have mk_untouched : ∀ o ∈ preOps, ∀ q, Op.touches q o = true → False := by
    intro o ho q hq; simp [preOps] at ho; rcases ho with rfl | rfl <;> simp [Op.touches] at hq
  have case_fresh : fs .marker = none →
      ((run sys .repaired .latest resume total s0 fs).2 = .ok (sAfter sys s0 total) ∧
        ∀ pre, pre <+: (run sys .repaired .latest resume total s0 fs).1 → GoodL sys s0 total (execs fs pre)) := by
    intro hm
    have hload := fresh hm
    simp only [run, hload, if_true, Nat.sub_zero]
    have hpre0 : PreL sys s0 0 (execs fs (preOps ++ writeFile .rstate sys.rs)) := by
      refine Or.inl ⟨rfl, ?_, sys.rs, ?_, hl.okR_rs⟩
      · rw [execs_frame]; exact hm
        intro o ho hq
        rcases List.mem_append.1 ho with h | h
        · exact mk_untouched o h _ hq
        · cases writeFile_touches _ _ _ o h hq
      · rw [execs_append]; exact execs_writeFile _ _ _
    have hrec := loopL_good hl s0 total total 0 _ (by omega) hpre0
    refine ⟨hrec.1, ?_⟩
    intro pre hp
    rcases prefix_append_cases hp with h | ⟨t, rfl, ht⟩
    · left
      rw [execs_frame]; exact hm
      intro o ho hq
      rcases List.mem_append.1 (mem_of_mem_prefix h ho) with h | h
      · exact mk_untouched o h _ hq
      · cases writeFile_touches _ _ _ o h hq
    · rw [execs_append]; exact hrec.2 t ht
  rcases hg with hm | ⟨i, hi, hgi⟩
  · exact case_fresh hm
  · rcases hres with rfl | hm
    · have hload := load_of_goodAtL hl s0 hi hgi
      simp only [run, hload, Bool.false_eq_true, if_false, List.append_nil]
      have hfr : ∀ (pre : List (Op Path)), pre <+: preOps → ∀ q, execs fs pre q = fs q := by
        intro pre hp q
        exact execs_frame pre q (fun o ho hq => mk_untouched o (mem_of_mem_prefix hp ho) q hq) fs
      have hcong : ∀ (pre : List (Op Path)), pre <+: preOps → GoodAtL sys s0 i (execs fs pre) := by
        intro pre hp
        obtain ⟨g1, ⟨g2, g3, g4⟩, g5, g6, g7⟩ := hgi
        refine ⟨?_, ⟨?_, ?_, ?_⟩, ?_, ?_, ?_⟩
        · rw [hfr pre hp]; exact g1
        · intro k hk; rw [hfr pre hp]; exact g2 k hk
        · rw [hfr pre hp]; exact g3
        · rw [hfr pre hp]; exact g4
        · rw [hfr pre hp]; exact g5
        · rw [hfr pre hp]; exact g6
        · rw [hfr pre hp]; exact g7
      have hprei : PreL sys s0 (i + 1) (execs fs preOps) := Or.inr ⟨i, rfl, hcong _ (List.prefix_refl _)⟩
      have hrec := loopL_good hl s0 total (total - (i + 1)) (i + 1) _ (by omega) hprei
      refine ⟨hrec.1, ?_⟩
      intro pre hp
      rcases prefix_append_cases hp with h | ⟨t, rfl, ht⟩
      · exact Or.inr ⟨i, hi, hcong _ h⟩
      · rw [execs_append]; exact hrec.2 t ht
    · exact case_fresh hm

theorem reachL_good {sys : Sys S} (hl : Lawful sys) (s0 : S) (total : Nat) {fs : FS Path}
    (hr : Reach sys .repaired .latest total s0 fs) : GoodL sys s0 total fs := by
  induction hr with
  | first r0 k =>
    exact (runL_good hl s0 total r0 (Or.inl rfl) (Or.inr rfl)).2 _ (List.take_prefix _ _)
  | again fs k _ ih =>
    exact (runL_good hl s0 total true ih (Or.inl rfl)).2 _ (List.take_prefix _ _)

end NiftyVerif.CrashCl
