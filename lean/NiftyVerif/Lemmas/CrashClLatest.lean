/-
  Lemmas for C25, save strategy `latest`, repaired protocol: the directory is `GoodL` (marker absent, or marker = i and the
  `latest.*` files are those of iteration i) at every crash point OUTSIDE the window "a latest.* file has been moved into
  place since the marker was last moved", and from a `GoodL` directory resume returns the uninterrupted result.
-/
import NiftyVerif.Lemmas.CrashCl
namespace NiftyVerif.CrashCl
open NiftyVerif.CrashFS

variable {S : Type}

/-- "marker = i and the latest.* files, both histories and the random state are complete and from iteration i" -/
def GoodAtL (sys : Sys S) (s0 : S) (i : Nat) (fs : FS Path) : Prop :=
  fs .marker = some (sys.digits i) ∧ FilesOf sys .latest (sAfter sys s0 (i + 1)) fs ∧
    (∃ e, fs (.ehist .latest) = some e ∧ sys.okE e = true) ∧
    (∃ m, fs (.mhist .latest) = some m ∧ sys.okM m = true) ∧ (∃ r, fs .rstate = some r ∧ sys.okR r = true)

def GoodL (sys : Sys S) (s0 : S) (total : Nat) (fs : FS Path) : Prop :=
  fs .marker = none ∨ ∃ i, i < total ∧ GoodAtL sys s0 i fs

/-- has a `latest.*` sample/mean file been moved into place since the marker was last moved? (scan of an op sequence) -/
def pendStep (acc : Bool) : Op Path → Bool
  | .replace _ .marker => false
  | .replace _ (.sample .latest _) => true
  | .replace _ (.mean .latest) => true
  | _ => acc

def pend (acc : Bool) (ops : List (Op Path)) : Bool := ops.foldl pendStep acc

theorem pend_append (acc : Bool) (a b : List (Op Path)) : pend acc (a ++ b) = pend (pend acc a) b := by
  simp [pend, List.foldl_append]

/-- ops that are no `replace` at all leave the flag alone -/
theorem pend_noreplace (acc : Bool) (ops : List (Op Path)) (h : ∀ o ∈ ops, ∀ a b, o ≠ Op.replace a b) :
    pend acc ops = acc := by
  induction ops generalizing acc with
  | nil => rfl
  | cons o ops ih =>
    simp only [pend, List.foldl_cons]
    have h1 : pendStep acc o = acc := by
      cases o <;> simp [pendStep]
      exact absurd rfl (h _ (List.mem_cons_self) _ _)
    rw [h1]; exact ih acc (fun o' ho' => h o' (List.mem_cons_of_mem _ ho'))

theorem writeFile_noreplace (p : Path) (c : Bytes) : ∀ o ∈ writeFile p c, ∀ a b, o ≠ Op.replace a b := by
  intro o ho a b
  simp only [writeFile, List.mem_cons, List.mem_append, List.mem_map, List.not_mem_nil, or_false] at ho
  rcases ho with rfl | rfl | ⟨x, _, rfl⟩ | rfl <;> simp

theorem appendFile_noreplace (p : Path) (c : Bytes) : ∀ o ∈ appendFile p c, ∀ a b, o ≠ Op.replace a b := by
  intro o ho a b
  simp only [appendFile, List.mem_cons, List.mem_append, List.mem_map, List.not_mem_nil, or_false] at ho
  rcases ho with rfl | rfl | ⟨x, _, rfl⟩ | rfl <;> simp

/-- once a latest.* file has been moved, nothing in the rest of the iteration body (which contains no marker move) resets
    the flag -/
theorem pend_true_of_no_marker (ops : List (Op Path)) (h : ∀ o ∈ ops, ∀ a, o ≠ Op.replace a .marker) :
    pend true ops = true := by
  induction ops with
  | nil => rfl
  | cons o ops ih =>
    simp only [pend, List.foldl_cons]
    have h1 : pendStep true o = true := by
      cases o with
      | replace a b =>
        cases b with
        | marker => exact absurd rfl (h _ (List.mem_cons_self) a)
        | sample bb k => cases bb <;> simp [pendStep]
        | mean bb => cases bb <;> simp [pendStep]
        | _ => simp [pendStep]
      | _ => simp [pendStep]
    rw [h1]; exact ih (fun o' ho' => h o' (List.mem_cons_of_mem _ ho'))

/-! ### one iteration, strategy `latest` -/

/-- the part of `sl.save` before the first `os.replace` onto a latest.* file -/
def headL (sys : Sys S) (s' : S) : List (Op Path) :=
  Op.remove (.sample .latest sys.nsamp) :: writeFile (.sampleTmp .latest 0) (sys.encSample s' 0)

theorem body_no_marker_replace (sys : Sys S) (strat : Strategy) (j : Nat) (s' : S) :
    ∀ o ∈ body sys strat j s', ∀ a, o ≠ Op.replace a .marker := by
  intro o ho a h
  subst h
  have := body_touches sys strat j s' .marker _ ho (by simp [Op.touches])
  simp [own] at this

/-- the rest of the body after the first move onto latest.0 (`m + 1` sample files) -/
def tailL (sys : Sys S) (m j : Nat) (s' : S) : List (Op Path) :=
  ((List.range m).map (· + 1)).flatMap
      (fun k => saveOne .repaired (.sample .latest k) (.sampleTmp .latest k) (sys.encSample s' k)) ++
    saveOne .repaired (.mean .latest) (.meanTmp .latest) (sys.encMean s') ++
    atomicWrite (.ehist .latest) (.ehistTmp .latest) (sys.encE j) ++ appendFile .sanity (sys.msgS j) ++
    atomicWrite (.mhist .latest) (.mhistTmp .latest) (sys.encM j) ++ writeFile .markerTmp (sys.digits j)

/-- the body starts with `headL`, then the first move onto latest.0, then a rest without marker move -/
theorem body_split (sys : Sys S) (hn : 0 < sys.nsamp) (j : Nat) (s' : S) :
    ∃ tail, body sys .latest j s' =
        headL sys s' ++ [Op.replace (.sampleTmp .latest 0) (.sample .latest 0)] ++ tail ∧
      (∀ o ∈ tail, ∀ a, o ≠ Op.replace a .marker) := by
  obtain ⟨m, hm⟩ : ∃ m, sys.nsamp = m + 1 := ⟨sys.nsamp - 1, by omega⟩
  have hb := body_no_marker_replace sys .latest j s'
  have hr : List.range sys.nsamp = 0 :: (List.range m).map (· + 1) := by rw [hm, List.range_succ_eq_map]
  have heq : body sys .latest j s' =
      headL sys s' ++ [Op.replace (.sampleTmp .latest 0) (.sample .latest 0)] ++ tailL sys m j s' := by
    simp only [body, baseOf, saveSamples, hr, List.flatMap_cons, saveOne, atomicWrite, headL, tailL, List.append_assoc,
      List.cons_append, List.nil_append]
  refine ⟨tailL sys m j s', heq, ?_⟩
  intro o ho a
  apply hb o
  rw [heq]
  exact List.mem_append_right _ ho

theorem pend_headL (sys : Sys S) (s' : S) (acc : Bool) {t : List (Op Path)} (ht : t <+: headL sys s') :
    pend acc t = acc := by
  apply pend_noreplace
  intro o ho a b
  have := mem_of_mem_prefix ht ho
  simp only [headL, List.mem_cons] at this
  rcases this with rfl | h
  · simp
  · exact writeFile_noreplace _ _ o h a b

/-- crash points before the first move: only the temp file of sample 0 changes (and the already absent next sample is
    unlinked) -/
theorem headL_prefix_frame (sys : Sys S) (s' : S) {t : List (Op Path)} (ht : t <+: headL sys s') (fs : FS Path)
    (q : Path) (hq : q ≠ .sampleTmp .latest 0) (hnone : q = .sample .latest sys.nsamp → fs q = none) :
    execs fs t q = fs q := by
  unfold headL at ht
  rw [List.prefix_cons_iff] at ht
  rcases ht with rfl | ⟨t', rfl, ht'⟩
  · rfl
  · rw [execs_cons, execs_frame t' q]
    · by_cases h : q = .sample .latest sys.nsamp
      · rw [hnone h]; subst h; simp [exec, FS.set]
      · simp [exec, FS.set, h]
    · intro o ho hto
      exact hq (writeFile_touches _ _ _ o (mem_of_mem_prefix ht' ho) hto)

/-- loop precondition at iteration `j`, strategy latest -/
def PreL (sys : Sys S) (s0 : S) (j : Nat) (fs : FS Path) : Prop :=
  (j = 0 ∧ fs .marker = none ∧ ∃ r, fs .rstate = some r ∧ sys.okR r = true) ∨ (∃ i, j = i + 1 ∧ GoodAtL sys s0 i fs)

theorem preL_good {sys : Sys S} {s0 : S} {total j : Nat} (hj : j ≤ total) {fs : FS Path} (h : PreL sys s0 j fs) :
    GoodL sys s0 total fs := by
  rcases h with ⟨_, h, _⟩ | ⟨i, rfl, h⟩
  · exact Or.inl h
  · exact Or.inr ⟨i, by omega, h⟩

theorem preL_headL_prefix {sys : Sys S} {s0 : S} {j : Nat} {fs : FS Path} (h : PreL sys s0 j fs) (s' : S)
    {t : List (Op Path)} (ht : t <+: headL sys s') : PreL sys s0 j (execs fs t) := by
  rcases h with ⟨h0, h1, r, hr, hor⟩ | ⟨i, rfl, hg⟩
  · refine Or.inl ⟨h0, ?_, r, ?_, hor⟩
    · rw [headL_prefix_frame sys s' ht fs _ (by simp) (by simp)]; exact h1
    · rw [headL_prefix_frame sys s' ht fs _ (by simp) (by simp)]; exact hr
  · obtain ⟨g1, ⟨g2, g3, g4⟩, g5, g6, g7⟩ := hg
    refine Or.inr ⟨i, rfl, ?_, ⟨?_, ?_, ?_⟩, ?_, ?_, ?_⟩
    · rw [headL_prefix_frame sys s' ht fs _ (by simp) (by simp)]; exact g1
    · intro k hk
      rw [headL_prefix_frame sys s' ht fs _ (by simp) (by intro h; injection h with _ h; omega)]; exact g2 k hk
    · rw [headL_prefix_frame sys s' ht fs _ (by simp) (fun _ => g3)]; exact g3
    · rw [headL_prefix_frame sys s' ht fs _ (by simp) (by simp)]; exact g4
    · rw [headL_prefix_frame sys s' ht fs _ (by simp) (by simp)]; exact g5
    · rw [headL_prefix_frame sys s' ht fs _ (by simp) (by simp)]; exact g6
    · rw [headL_prefix_frame sys s' ht fs _ (by simp) (by simp)]; exact g7

/-- a completed iteration `j` establishes `GoodAtL j` -/
theorem goodAtL_after_iter {sys : Sys S} (hl : Lawful sys) {s0 : S} {j : Nat} {fs : FS Path} (h : PreL sys s0 j fs)
    {t : List (Op Path)} (ht : t <+: appendFile .counting (sys.msgC j)) :
    GoodAtL sys s0 j
      (execs fs (body sys .latest j (sys.step j (sAfter sys s0 j)) ++ [Op.replace .markerTmp .marker] ++ t)) := by
  have hb := body_full sys .latest j (sys.step j (sAfter sys s0 j)) fs
  simp only [baseOf] at hb
  obtain ⟨b1, b2, b3, b4, b5, b6⟩ := hb
  have hrs : ∃ r, execs fs (body sys .latest j (sys.step j (sAfter sys s0 j))) .rstate = some r ∧ sys.okR r = true := by
    rw [body_prefix_frame sys .latest j _ .rstate (by simp [own]) (List.prefix_refl _)]
    rcases h with ⟨_, _, hr⟩ | ⟨i, _, hg⟩
    · exact hr
    · exact hg.2.2.2.2
  have key : GoodAtL sys s0 j
      (exec (execs fs (body sys .latest j (sys.step j (sAfter sys s0 j)))) (Op.replace .markerTmp .marker)) := by
    refine ⟨?_, ⟨?_, ?_, ?_⟩, ?_, ?_, ?_⟩
    · simp [exec, FS.set, b6]
    · intro k hk; simp [exec, FS.set]; exact b1 k hk
    · simp [exec, FS.set]; exact b2
    · simp [exec, FS.set]; exact b3
    · exact ⟨_, by simp [exec, FS.set]; exact b4, hl.okE_enc j⟩
    · exact ⟨_, by simp [exec, FS.set]; exact b5, hl.okM_enc j⟩
    · obtain ⟨r, hr, hor⟩ := hrs
      exact ⟨r, by simp [exec, FS.set]; exact hr, hor⟩
  rw [List.append_assoc, execs_append, List.singleton_append, execs_cons]
  have hfr : ∀ q, q ≠ .counting → execs (exec (execs fs (body sys .latest j (sys.step j (sAfter sys s0 j))))
      (Op.replace .markerTmp .marker)) t q = (exec (execs fs (body sys .latest j (sys.step j (sAfter sys s0 j))))
      (Op.replace .markerTmp .marker)) q := by
    intro q hq
    refine execs_frame t q (fun o ho hto => ?_) _
    exact hq (appendFile_touches _ _ _ o (mem_of_mem_prefix ht ho) hto)
  obtain ⟨g1, ⟨g2, g3, g4⟩, g5, g6, g7⟩ := key
  refine ⟨?_, ⟨?_, ?_, ?_⟩, ?_, ?_, ?_⟩
  · rw [hfr _ (by simp)]; exact g1
  · intro k hk; rw [hfr _ (by simp)]; exact g2 k hk
  · rw [hfr _ (by simp)]; exact g3
  · rw [hfr _ (by simp)]; exact g4
  · rw [hfr _ (by simp)]; exact g5
  · rw [hfr _ (by simp)]; exact g6
  · rw [hfr _ (by simp)]; exact g7

/-- the flag after a complete iteration is down again -/
theorem pend_iter (sys : Sys S) (j : Nat) (s' : S) (acc : Bool) :
    pend acc (body sys .latest j s' ++ [Op.replace .markerTmp .marker] ++ appendFile .counting (sys.msgC j)) = false := by
  rw [pend_append, pend_append, pend_noreplace _ _ (appendFile_noreplace _ _)]
  simp [pend, pendStep]

theorem load_of_goodAtL {sys : Sys S} (hl : Lawful sys) (s0 : S) {total i : Nat} (hi : i < total) {fs : FS Path}
    (hg : GoodAtL sys s0 i fs) :
    load sys .latest true total s0 fs = .ok (i + 1, sAfter sys s0 (i + 1), false) := by
  obtain ⟨h1, hf, ⟨e, he, hoe⟩, _, ⟨r, hr, hor⟩⟩ := hg
  have hls := listSamples_of_files sys _ _ fs hf (sys.nsamp + 1) 0 (by omega)
  rw [Nat.sub_zero, ← List.range_eq_range'] at hls
  have hne : ((List.range sys.nsamp).map (sys.encSample (sAfter sys s0 (i + 1)))).isEmpty = false := by
    obtain ⟨m, hm⟩ : ∃ m, sys.nsamp = m + 1 := ⟨sys.nsamp - 1, by have := hl.nsamp_pos; omega⟩
    rw [hm, List.range_succ]; simp
  unfold load
  simp only [if_true, h1, hl.parse_digits, baseOf, hf.2.2, hls, hne, hl.dec_enc, loadable, hr, hor, he, hoe]
  by_cases ht : i + 1 = total
  · simp [ht]
  · simp [ht]

/-- the first half of an iteration does not touch the minisanity history (which `_minisanity` is about to load) -/
theorem iterOpsA_frame_mhist (sys : Sys S) (j : Nat) (s' : S) (fs : FS Path) :
    execs fs (iterOpsA sys .repaired .latest j s') (.mhist .latest) = fs (.mhist .latest) := by
  refine execs_frame _ _ (fun o ho hq => ?_) fs
  simp only [iterOpsA, baseOf, saveValues, List.append_nil, List.mem_append] at ho
  rcases ho with (ho | ho) | ho
  · simp only [saveSamples, saveOne, List.mem_cons, List.mem_append] at ho
    rcases ho with rfl | ho | ho
    · simp [Op.touches] at hq
    · rcases flatMap_atomic_touches (fun k => .sample .latest k) (fun k => .sampleTmp .latest k)
        (fun k => sys.encSample s' k) (List.range sys.nsamp) _ o ho hq with ⟨k, _, h | h⟩ <;> cases h
    · rcases atomicWrite_touches _ _ _ _ o ho hq with h | h <;> cases h
  · rcases atomicWrite_touches _ _ _ _ o ho hq with h | h <;> cases h
  · cases appendFile_touches _ _ _ o ho hq

/-- the loop from `PreL j` (strategy latest, repaired): never raises, returns the uninterrupted result, the pending flag is
    down at its end, and every crash point at which the flag is down leaves a `GoodL` directory -/
theorem loopL_good {sys : Sys S} (hl : Lawful sys) (s0 : S) (total : Nat) :
    ∀ (fuel j : Nat) (fs : FS Path), j + fuel = total → PreL sys s0 j fs →
      (loop sys .repaired .latest fuel j (sAfter sys s0 j) fs).2 = .ok (sAfter sys s0 total) ∧
      pend false (loop sys .repaired .latest fuel j (sAfter sys s0 j) fs).1 = false ∧
      ∀ pre, pre <+: (loop sys .repaired .latest fuel j (sAfter sys s0 j) fs).1 → pend false pre = false →
        GoodL sys s0 total (execs fs pre) := by
  intro fuel
  induction fuel with
  | zero =>
    intro j fs hj hpre
    have : j = total := by omega
    subst this
    refine ⟨rfl, rfl, ?_⟩
    intro pre hp _
    have : pre = [] := by simpa [loop] using hp
    subst this; exact preL_good (Nat.le_refl _) hpre
  | succ fuel ih =>
    intro j fs hj hpre
    have hchk : (if j = 0 then Except.ok () else
        loadable (execs fs (iterOpsA sys .repaired .latest j (sys.step j (sAfter sys s0 j))))
          (.mhist (baseOf .latest (j - 1))) sys.okM) = Except.ok () := by
      by_cases h0 : j = 0
      · simp [h0]
      · simp only [h0, if_false, baseOf, loadable, iterOpsA_frame_mhist]
        rcases hpre with ⟨h, _⟩ | ⟨i, hi, hg⟩
        · exact (h0 h).elim
        · obtain ⟨m, hm, hom⟩ := hg.2.2.2.1
          simp [hm, hom]
    have hpre' : PreL sys s0 (j + 1) (execs fs (iterOpsA sys .repaired .latest j (sys.step j (sAfter sys s0 j)) ++
        iterOpsB sys .repaired .latest j)) := by
      rw [iterOps_eq]
      exact Or.inr ⟨j, rfl, goodAtL_after_iter hl hpre (List.prefix_refl _)⟩
    have hrec := ih (j + 1) _ (by omega) hpre'
    rw [sAfter_succ] at hrec
    simp only [loop, hchk]
    rw [← execs_append]
    have hpi : pend false (iterOpsA sys .repaired .latest j (sys.step j (sAfter sys s0 j)) ++
        iterOpsB sys .repaired .latest j) = false := by rw [iterOps_eq]; exact pend_iter sys j _ false
    refine ⟨hrec.1, ?_, ?_⟩
    · rw [pend_append, hpi]; exact hrec.2.1
    intro pre hp hpend
    rcases prefix_append_cases hp with h | ⟨t, rfl, ht⟩
    · -- crash inside iteration j
      rw [iterOps_eq, List.append_assoc] at h
      obtain ⟨tail, hsplit, htail⟩ := body_split sys hl.nsamp_pos j (sys.step j (sAfter sys s0 j))
      have hbody_pend : ∀ u, u <+: tail → pend false (headL sys (sys.step j (sAfter sys s0 j)) ++
          [Op.replace (.sampleTmp .latest 0) (.sample .latest 0)] ++ u) = true := by
        intro u hu
        rw [pend_append, pend_append, pend_headL sys _ false (List.prefix_refl _)]
        simp only [pend, List.foldl_cons, List.foldl_nil, pendStep]
        exact pend_true_of_no_marker u (fun o ho => htail o (mem_of_mem_prefix hu ho))
      rcases prefix_append_cases h with h1 | ⟨t1, rfl, ht1⟩
      · -- inside the body
        rw [hsplit, List.append_assoc] at h1
        rcases prefix_append_cases h1 with h2 | ⟨u, rfl, hu⟩
        · exact preL_good (by omega) (preL_headL_prefix hpre _ h2)
        · rw [List.singleton_append, List.prefix_cons_iff] at hu
          rcases hu with rfl | ⟨u', rfl, hu'⟩
          · rw [List.append_nil]
            exact preL_good (by omega) (preL_headL_prefix hpre _ (List.prefix_refl _))
          · have := hbody_pend u' hu'
            rw [List.append_assoc, List.singleton_append] at this
            rw [this] at hpend; cases hpend
      · rw [List.singleton_append, List.prefix_cons_iff] at ht1
        rcases ht1 with rfl | ⟨t2, rfl, ht2⟩
        · -- exactly the body: the flag is up
          rw [List.append_nil, hsplit] at hpend
          rw [hbody_pend tail (List.prefix_refl _)] at hpend; cases hpend
        · refine Or.inr ⟨j, by omega, ?_⟩
          have := goodAtL_after_iter hl hpre ht2
          simpa [List.append_assoc] using this
    · rw [execs_append]
      rw [pend_append, hpi] at hpend
      exact hrec.2.2 t ht hpend

/-- every start of the driver on a `GoodL` directory (resume=True, or any flag on a directory without marker) returns the
    uninterrupted result, and every crash point of it at which no latest.* file has been moved since the last marker move
    leaves a `GoodL` directory -/
theorem runL_good {sys : Sys S} (hl : Lawful sys) (s0 : S) (total : Nat) {fs : FS Path} (resume : Bool)
    (hg : GoodL sys s0 total fs) (hres : resume = true ∨ fs .marker = none) :
    (run sys .repaired .latest resume total s0 fs).2 = .ok (sAfter sys s0 total) ∧
      ∀ pre, pre <+: (run sys .repaired .latest resume total s0 fs).1 → pend false pre = false →
        GoodL sys s0 total (execs fs pre) := by
  have fresh : fs .marker = none → load sys .latest resume total s0 fs = .ok (0, s0, true) := by
    intro h; cases resume <;> simp [load, h]
  have mk_untouched : ∀ o ∈ preOps, ∀ q, Op.touches q o = true → False := by
    intro o ho q hq; simp [preOps] at ho; rcases ho with rfl | rfl <;> simp [Op.touches] at hq
  have mk_noreplace : ∀ o ∈ preOps, ∀ a b, o ≠ Op.replace a b := by
    intro o ho a b; simp [preOps] at ho; rcases ho with rfl | rfl <;> simp
  have case_fresh : fs .marker = none →
      ((run sys .repaired .latest resume total s0 fs).2 = .ok (sAfter sys s0 total) ∧
        ∀ pre, pre <+: (run sys .repaired .latest resume total s0 fs).1 → pend false pre = false →
          GoodL sys s0 total (execs fs pre)) := by
    intro hm
    have hload := fresh hm
    simp only [run, hload, if_true, Nat.sub_zero]
    have hpre0 : PreL sys s0 0 (execs fs (preOps ++ writeFile .rstate sys.rs)) := by
      refine Or.inl ⟨rfl, ?_, sys.rs, ?_, hl.okR_rs⟩
      · rw [execs_frame]; exact hm
        intro o ho hq
        rcases List.mem_append.1 ho with h | h
        · exact mk_untouched o h _ hq
        · cases writeFile_touches _ _ _ o h hq
      · rw [execs_append]; exact execs_writeFile _ _ _
    have hrec := loopL_good hl s0 total total 0 _ (by omega) hpre0
    refine ⟨hrec.1, ?_⟩
    intro pre hp hpend
    rcases prefix_append_cases hp with h | ⟨t, rfl, ht⟩
    · left
      rw [execs_frame]; exact hm
      intro o ho hq
      rcases List.mem_append.1 (mem_of_mem_prefix h ho) with h | h
      · exact mk_untouched o h _ hq
      · cases writeFile_touches _ _ _ o h hq
    · rw [execs_append]
      refine hrec.2.2 t ht ?_
      rw [pend_append, pend_noreplace false] at hpend
      · exact hpend
      · intro o ho a b
        rcases List.mem_append.1 ho with h | h
        · exact mk_noreplace o h a b
        · exact writeFile_noreplace _ _ o h a b
  rcases hg with hm | ⟨i, hi, hgi⟩
  · exact case_fresh hm
  · rcases hres with rfl | hm
    · have hload := load_of_goodAtL hl s0 hi hgi
      simp only [run, hload, Bool.false_eq_true, if_false, List.append_nil]
      have hfr : ∀ (pre : List (Op Path)), pre <+: preOps → ∀ q, execs fs pre q = fs q := by
        intro pre hp q
        exact execs_frame pre q (fun o ho hq => mk_untouched o (mem_of_mem_prefix hp ho) q hq) fs
      have hcong : ∀ (pre : List (Op Path)), pre <+: preOps → GoodAtL sys s0 i (execs fs pre) := by
        intro pre hp
        obtain ⟨g1, ⟨g2, g3, g4⟩, g5, g6, g7⟩ := hgi
        refine ⟨?_, ⟨?_, ?_, ?_⟩, ?_, ?_, ?_⟩
        · rw [hfr pre hp]; exact g1
        · intro k hk; rw [hfr pre hp]; exact g2 k hk
        · rw [hfr pre hp]; exact g3
        · rw [hfr pre hp]; exact g4
        · rw [hfr pre hp]; exact g5
        · rw [hfr pre hp]; exact g6
        · rw [hfr pre hp]; exact g7
      have hprei : PreL sys s0 (i + 1) (execs fs preOps) := Or.inr ⟨i, rfl, hcong _ (List.prefix_refl _)⟩
      have hrec := loopL_good hl s0 total (total - (i + 1)) (i + 1) _ (by omega) hprei
      refine ⟨hrec.1, ?_⟩
      intro pre hp hpend
      rcases prefix_append_cases hp with h | ⟨t, rfl, ht⟩
      · exact Or.inr ⟨i, hi, hcong _ h⟩
      · rw [execs_append]
        refine hrec.2.2 t ht ?_
        rw [pend_append, pend_noreplace false _ mk_noreplace] at hpend
        exact hpend
    · exact case_fresh hm

/-- directories reachable when every kill happens OUTSIDE the window (no latest.* file moved since the last marker move,
    or no marker yet) -/
inductive ReachL (sys : Sys S) (total : Nat) (s0 : S) : FS Path → Prop
  | first (r0 : Bool) (k : Nat)
      (hk : pend false ((run sys .repaired .latest r0 total s0 FS.empty).1.take k) = false ∨
        crash FS.empty (run sys .repaired .latest r0 total s0 FS.empty).1 k .marker = none) :
      ReachL sys total s0 (crash FS.empty (run sys .repaired .latest r0 total s0 FS.empty).1 k)
  | again (fs : FS Path) (k : Nat) (h : ReachL sys total s0 fs)
      (hk : pend false ((run sys .repaired .latest true total s0 fs).1.take k) = false ∨
        crash fs (run sys .repaired .latest true total s0 fs).1 k .marker = none) :
      ReachL sys total s0 (crash fs (run sys .repaired .latest true total s0 fs).1 k)

theorem reachL_good {sys : Sys S} (hl : Lawful sys) (s0 : S) (total : Nat) {fs : FS Path}
    (hr : ReachL sys total s0 fs) : GoodL sys s0 total fs := by
  induction hr with
  | first r0 k hk =>
    rcases hk with hk | hk
    · exact (runL_good hl s0 total r0 (Or.inl rfl) (Or.inr rfl)).2 _ (List.take_prefix _ _) hk
    · exact Or.inl hk
  | again fs k _ hk ih =>
    rcases hk with hk | hk
    · exact (runL_good hl s0 total true ih (Or.inl rfl)).2 _ (List.take_prefix _ _) hk
    · exact Or.inl hk

end NiftyVerif.CrashCl
