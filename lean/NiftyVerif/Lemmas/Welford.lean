/-
  Welford invariants for C26 over any field of characteristic 0.
-/
import NiftyVerif.Model.Welford
import Mathlib.Algebra.Field.Basic
import Mathlib.Algebra.CharZero.Defs
import Mathlib.Algebra.BigOperators.Group.List.Basic
import Mathlib.Data.List.Induction
import Mathlib.Tactic.FieldSimp
import Mathlib.Tactic.Ring
import Mathlib.Tactic.Linarith

namespace NiftyVerif.Welford

variable {K : Type} [Field K]

theorem wRun_snoc (xs : List K) (x : K) : wRun (xs ++ [x]) = wAdd (wRun xs) x := by
  simp [wRun, List.foldl_append]

theorem sum_eq (xs : List K) : sum xs = xs.sum := by
  unfold sum
  have : ∀ (a : K) (l : List K), l.foldl (· + ·) a = a + l.sum := by
    intro a l
    induction l generalizing a with
    | nil => simp
    | cons y l ih => simp [List.foldl_cons, ih, add_assoc]
  rw [this]; simp

theorem wAdd_pos (s : WState K) (hc : s.count ≠ 0) (x : K) :
    wAdd s x = ⟨s.count + 1, 1 * s.mean + (x - s.mean) * (1 / ((s.count + 1 : Nat) : K)),
      s.m2 + (x - s.mean) * (x - (1 * s.mean + (x - s.mean) * (1 / ((s.count + 1 : Nat) : K))))⟩ := by
  simp [wAdd, hc]

/-- sum of squares -/
def sq (xs : List K) : K := (xs.map (fun x => x * x)).sum

/-- the invariant: count, running mean `S/n`, and `M2 = Q - S²/n` -/
theorem wRun_inv [CharZero K] (xs : List K) (h : xs ≠ []) :
    (wRun xs).count = xs.length ∧ (wRun xs).mean = xs.sum / (xs.length : K) ∧
    (wRun xs).m2 = sq xs - xs.sum * xs.sum / (xs.length : K) := by
  induction xs using List.reverseRecOn with
  | nil => exact absurd rfl h
  | append_singleton xs x ih =>
    rw [wRun_snoc]
    by_cases hx : xs = []
    · subst hx
      simp [wRun, wInit, wAdd, sq]
    · obtain ⟨h1, h2, h3⟩ := ih hx
      have hpos : 0 < xs.length := List.length_pos_iff.mpr hx
      have hn : (xs.length : K) ≠ 0 := Nat.cast_ne_zero.mpr (by omega)
      have hn1 : ((xs.length : K) + 1) ≠ 0 := by
        have : ((xs.length + 1 : Nat) : K) ≠ 0 := Nat.cast_ne_zero.mpr (by omega)
        simpa using this
      have hc : (wRun xs).count ≠ 0 := by omega
      rw [wAdd_pos _ hc]
      simp only [h1, h2, h3, List.length_append, List.length_singleton, List.sum_append,
        List.sum_singleton, sq, List.map_append, List.map_cons, List.map_nil, Nat.cast_add, Nat.cast_one]
      refine ⟨trivial, ?_, ?_⟩
      · field_simp; ring
      · field_simp; ring

/-- sum of squared deviations from an arbitrary centre -/
theorem sum_sq_dev (xs : List K) (m : K) :
    (xs.map (fun x => (x - m) * (x - m))).sum = sq xs - 2 * m * xs.sum + (xs.length : K) * m * m := by
  induction xs with
  | nil => simp [sq]
  | cons x xs ih =>
    simp only [List.map_cons, List.sum_cons, ih, sq, List.length_cons, Nat.cast_add, Nat.cast_one]
    ring

end NiftyVerif.Welford
