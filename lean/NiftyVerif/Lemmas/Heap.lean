/-
  Lemmas/Heap.lean — frame lemmas for the effect records of Model/Heap.lean (used by Props/C07.lean).
-/
import NiftyVerif.Model.Heap

namespace NiftyVerif.Heap

/-- every ndarray object on buffer `b` is read-only -/
def Prot (s : State) (b : Nat) : Prop :=
  ∀ (i : Nat) (o : Arr), s.arrs[i]? = some o → o.buf = b → o.writeable = false

/-- handles stored inside objects are valid -/
structure WF (s : State) : Prop where
  arrBuf : ∀ (i : Nat) (o : Arr), s.arrs[i]? = some o → o.buf < s.bufs.length
  wrapArr : ∀ (i : Nat) (w : Wrap), s.wraps[i]? = some w → w.arr < s.arrs.length
  fieldWrap : ∀ (i w : Nat), s.fields[i]? = some w → w < s.wraps.length

/-- the ndarray objects an effect allocates, in allocation order -/
def newArrs (e : Eff) : List Arr := e.newArr0.toList ++ e.newArr.toList

@[simp] theorem length_newArrs (e : Eff) : (newArrs e).length = e.newArr0.toList.length + e.newArr.toList.length := by
  simp [newArrs]

theorem mem_newArrs {e : Eff} {a : Arr} (h : a ∈ newArrs e) : e.newArr0 = some a ∨ e.newArr = some a := by
  unfold newArrs at h
  rcases List.mem_append.mp h with h | h
  · left; cases h0 : e.newArr0 <;> simp_all
  · right; cases h1 : e.newArr <;> simp_all

/-- conditions on an effect record under which the frame lemmas hold -/
structure Legal (s : State) (e : Eff) : Prop where
  write : ∀ a vals, e.write = some (a, vals) → ∃ ao, s.arrs[a]? = some ao ∧ ao.writeable = true
  newArr : ∀ a, e.newArr = some a →
    (a.buf = s.bufs.length ∧ e.newBuf.isSome) ∨
    (∃ (p : Nat) (po : Arr), s.arrs[p]? = some po ∧ po.buf = a.buf ∧ (a.writeable = true → po.writeable = true))
  newArr0 : ∀ a, e.newArr0 = some a → a.buf = s.bufs.length ∧ e.newBuf.isSome
  newWrap : ∀ w, e.newWrap = some w → w.arr < s.arrs.length + (newArrs e).length
  newField : ∀ w, e.newField = some w → w < s.wraps.length + e.newWrap.toList.length

/-- the flag of old ndarray object `i` after the lock/unlock part of an effect -/
def flagAfter (e : Eff) (i : Nat) (w : Bool) : Bool :=
  if e.unlockArr = some i then true else if e.lockArr = some i then false else w

theorem getElem?_arrsAfterFlags (s : State) (e : Eff) (i : Nat) :
    (arrsAfterFlags s e)[i]? = (s.arrs[i]?).map (fun o => { o with writeable := flagAfter e i o.writeable }) := by
  unfold arrsAfterFlags flagAfter setArrFlag
  cases h3 : s.arrs[i]? with
  | none => cases e.lockArr <;> cases e.unlockArr <;> simp [List.getElem?_modify, h3]
  | some o =>
    cases h1 : e.lockArr <;> cases h2 : e.unlockArr <;> simp [List.getElem?_modify, h3] <;>
      (repeat' split) <;> simp_all

theorem length_arrsAfterFlags (s : State) (e : Eff) : (arrsAfterFlags s e).length = s.arrs.length := by
  unfold arrsAfterFlags setArrFlag
  cases e.lockArr <;> cases e.unlockArr <;> simp

/-- old ndarray objects keep buffer, window and base; only the flag may change -/
theorem apply_arrs_old (s : State) (e : Eff) (i : Nat) (hi : i < s.arrs.length) :
    (apply s e).arrs[i]? = (s.arrs[i]?).map (fun o => { o with writeable := flagAfter e i o.writeable }) := by
  simp only [apply]
  rw [List.append_assoc, List.getElem?_append_left (by rw [length_arrsAfterFlags]; exact hi)]
  exact getElem?_arrsAfterFlags s e i

theorem apply_arrs_new (s : State) (e : Eff) (i : Nat) (hi : s.arrs.length ≤ i) :
    (apply s e).arrs[i]? = (newArrs e)[i - s.arrs.length]? := by
  simp only [apply, newArrs]
  rw [List.append_assoc, List.getElem?_append_right (by rw [length_arrsAfterFlags]; exact hi), length_arrsAfterFlags]

theorem apply_wraps_old (s : State) (e : Eff) (i : Nat) (hi : i < s.wraps.length) :
    ((apply s e).wraps[i]?).map (·.arr) = (s.wraps[i]?).map (·.arr) := by
  simp only [apply]
  cases h : e.lockWrap with
  | none => simp [List.getElem?_append_left hi]
  | some w =>
    simp only [setWrapFlag]
    rw [List.getElem?_append_left (by simpa using hi)]
    simp [List.getElem?_modify]
    cases s.wraps[i]? <;> simp
    split <;> rfl

theorem apply_fields_old (s : State) (e : Eff) (i : Nat) (hi : i < s.fields.length) :
    (apply s e).fields[i]? = s.fields[i]? := by
  simp [apply, List.getElem?_append_left hi]

theorem apply_ops_old (s : State) (e : Eff) (i : Nat) (hi : i < s.ops.length) :
    (apply s e).ops[i]? = s.ops[i]? := by
  simp [apply, List.getElem?_append_left hi]

/-- a write goes through a writable ndarray object, so a protected buffer keeps its content -/
theorem apply_bufs_prot (s : State) (e : Eff) (hl : Legal s e) (b : Nat) (hb : b < s.bufs.length)
    (hp : Prot s b) : (apply s e).bufs[b]? = s.bufs[b]? := by
  simp only [apply]
  have hlen : (bufsAfterWrite s e).length = s.bufs.length := by
    unfold bufsAfterWrite writeWin
    cases e.write with
    | none => rfl
    | some p => cases p with | mk a vals => (simp only []; split <;> simp)
  rw [List.getElem?_append_left (by rw [hlen]; exact hb)]
  unfold bufsAfterWrite
  cases hw : e.write with
  | none => rfl
  | some p =>
    cases p with
    | mk a vals =>
      obtain ⟨ao, h1, h2⟩ := hl.write a vals hw
      simp only [h1, writeWin, List.getElem?_modify]
      have : ao.buf ≠ b := by
        intro hEq
        have := hp a ao h1 hEq
        simp [this] at h2
      simp [this]


/-- protection of buffer `b` after an effect, from the flags after the effect -/
theorem apply_prot_of (s : State) (e : Eff) (b : Nat)
    (hold : ∀ (i : Nat) (o : Arr), s.arrs[i]? = some o → o.buf = b → flagAfter e i o.writeable = false)
    (hnew : ∀ a, a ∈ newArrs e → a.buf = b → a.writeable = false) : Prot (apply s e) b := by
  intro i o hio hb
  by_cases hi : i < s.arrs.length
  · rw [apply_arrs_old s e i hi] at hio
    cases h : s.arrs[i]? with
    | none => simp [h] at hio
    | some o' =>
      simp [h] at hio
      subst hio
      exact hold i o' h hb
  · rw [apply_arrs_new s e i (Nat.le_of_not_lt hi)] at hio
    exact hnew o (List.mem_of_getElem? hio) hb

/-- a protected buffer stays protected unless the effect re-enables a flag on it -/
theorem apply_prot (s : State) (e : Eff) (_hw : WF s) (hl : Legal s e) (b : Nat) (hb : b < s.bufs.length)
    (hp : Prot s b)
    (hun : ∀ (a : Nat) (ao : Arr), e.unlockArr = some a → s.arrs[a]? = some ao → ao.buf ≠ b) :
    Prot (apply s e) b := by
  apply apply_prot_of
  · intro i o hio hob
    unfold flagAfter
    split
    · rename_i h; exact absurd hob (hun i o h hio)
    · split
      · rfl
      · exact hp i o hio hob
  · intro a ha' hab
    rcases mem_newArrs ha' with ha | ha
    · have := (hl.newArr0 a ha).1
      omega
    rcases hl.newArr a ha with ⟨h1, _⟩ | ⟨p, po, h1, h2, h3⟩
    · omega
    · cases hwv : a.writeable with
      | false => rfl
      | true =>
        have := hp p po h1 (by omega)
        simp [h3 hwv] at this

theorem apply_wf (s : State) (e : Eff) (hw : WF s) (hl : Legal s e) : WF (apply s e) := by
  have hlenA : (apply s e).arrs.length = s.arrs.length + (newArrs e).length := by
    simp [apply, newArrs, length_arrsAfterFlags, Nat.add_assoc]
  have hlenB : (apply s e).bufs.length = s.bufs.length + e.newBuf.toList.length := by
    simp only [apply, List.length_append]
    congr 1
    unfold bufsAfterWrite writeWin
    cases e.write with
    | none => rfl
    | some p => cases p with | mk a vals => (simp only []; split <;> simp)
  have hlenW : (apply s e).wraps.length = s.wraps.length + e.newWrap.toList.length := by
    simp only [apply, List.length_append]
    cases e.lockWrap <;> simp [setWrapFlag]
  constructor
  · intro i o hio
    rw [hlenB]
    by_cases hi : i < s.arrs.length
    · rw [apply_arrs_old s e i hi] at hio
      cases h : s.arrs[i]? with
      | none => simp [h] at hio
      | some o' =>
        simp [h] at hio
        subst hio
        have := hw.arrBuf i o' h
        simp only []
        omega
    · rw [apply_arrs_new s e i (Nat.le_of_not_lt hi)] at hio
      have hfresh : ∀ a : Arr, a.buf = s.bufs.length ∧ e.newBuf.isSome → a.buf < s.bufs.length + e.newBuf.toList.length := by
        intro a ⟨h1, h2⟩
        cases hb : e.newBuf with
        | none => simp [hb] at h2
        | some v => simp; omega
      rcases mem_newArrs (List.mem_of_getElem? hio) with hn | hn
      · exact hfresh o (hl.newArr0 o hn)
      · rcases hl.newArr o hn with h | ⟨p, po, h1, h2, _⟩
        · exact hfresh o h
        · have := hw.arrBuf p po h1
          omega
  · intro i w hiw
    rw [hlenA]
    by_cases hi : i < s.wraps.length
    · have h1 := apply_wraps_old s e i hi
      rw [hiw] at h1
      cases h : s.wraps[i]? with
      | none => simp [h] at h1
      | some w' =>
        simp [h] at h1
        have := hw.wrapArr i w' h
        omega
    · have : (apply s e).wraps[i]? = e.newWrap.toList[i - s.wraps.length]? := by
        simp only [apply]
        cases e.lockWrap with
        | none => simp only []; rw [List.getElem?_append_right (Nat.le_of_not_lt hi)]
        | some k =>
          simp only [setWrapFlag]
          rw [List.getElem?_append_right (by simpa using Nat.le_of_not_lt hi)]
          simp
      rw [this] at hiw
      cases hn : e.newWrap with
      | none => simp [hn] at hiw
      | some a =>
        simp [hn] at hiw
        have : a = w := by
          cases hk : i - s.wraps.length with
          | zero => simpa [hk] using hiw
          | succ k => simp [hk] at hiw
        subst this
        exact hl.newWrap a hn
  · intro i w hiw
    rw [hlenW]
    by_cases hi : i < s.fields.length
    · rw [apply_fields_old s e i hi] at hiw
      have := hw.fieldWrap i w hiw
      omega
    · have : (apply s e).fields[i]? = e.newField.toList[i - s.fields.length]? := by
        simp only [apply]
        rw [List.getElem?_append_right (Nat.le_of_not_lt hi)]
      rw [this] at hiw
      cases hn : e.newField with
      | none => simp [hn] at hiw
      | some a =>
        simp [hn] at hiw
        have : a = w := by
          cases hk : i - s.fields.length with
          | zero => simpa [hk] using hiw
          | succ k => simp [hk] at hiw
        subst this
        exact hl.newField a hn


theorem legal_raise (s : State) (er : Err) : Legal s (raise er) := by
  constructor <;> simp [raise]

theorem getWrapArr_some {s : State} {w : Nat} {wo : Wrap} {ao : Arr} (h : getWrapArr s w = some (wo, ao)) :
    s.wraps[w]? = some wo ∧ s.arrs[wo.arr]? = some ao := by
  unfold getWrapArr at h
  split at h
  · split at h
    · simp at h; obtain ⟨rfl, rfl⟩ := h; constructor <;> assumption
    · simp at h
  · simp at h

theorem getField_some {s : State} {f w : Nat} {wo : Wrap} {ao : Arr} (h : getField s f = some (w, wo, ao)) :
    s.fields[f]? = some w ∧ s.wraps[w]? = some wo ∧ s.arrs[wo.arr]? = some ao := by
  unfold getField at h
  split at h
  · split at h
    · rename_i h1 _ _ _ h2
      simp at h; obtain ⟨rfl, rfl, rfl⟩ := h
      exact ⟨h1, getWrapArr_some h2⟩
    · simp at h
  · simp at h

theorem lt_of_getElem? {α} {l : List α} {i : Nat} {a : α} (h : l[i]? = some a) : i < l.length := by
  rcases List.getElem?_eq_some_iff.mp h with ⟨h1, _⟩; exact h1

theorem legal_bad (s : State) : Legal s bad := legal_raise s _

theorem legal_writeEff (s : State) (a : Nat) (ao : Arr) (i : Nat) (v : Int) (h : s.arrs[a]? = some ao) :
    Legal s (writeEff s a ao i v) := by
  unfold writeEff
  split
  · exact legal_raise _ _
  · split
    · exact legal_raise _ _
    · constructor <;> simp
      rename_i h1 _
      exact ⟨ao, h, by simpa using h1⟩

theorem legal_lockEff (cfg : Cfg) (s : State) (w : Nat) (wo : Wrap) : Legal s (lockEff cfg w wo) := by
  constructor <;> simp [lockEff]

theorem legal_asnumpyEff (s : State) (wo : Wrap) : Legal s (asnumpyEff wo) := by
  constructor <;> simp [asnumpyEff]

theorem legal_freshField (cfg : Cfg) (s : State) (vals : List Int) : Legal s (freshField cfg s vals) := by
  constructor <;> simp [freshField]

theorem legal_fieldInit (cfg : Cfg) (s : State) (w : Nat) (wo : Wrap) (ao : Arr) (n : Nat) (fresh : Bool)
    (h1 : wo.arr < s.arrs.length) (h2 : fresh = false → w < s.wraps.length) :
    Legal s (fieldInit cfg s w wo ao n fresh) := by
  unfold fieldInit
  split
  · constructor <;> simp
  · split
    · constructor <;> simp
      exact h1
    · constructor <;> simp
      exact h2 (by simpa using ‹¬fresh = true›)

theorem sliceOf_parent (i : Nat) (ao : Arr) (lo hi : Nat) :
    (sliceOf i ao lo hi).buf = ao.buf ∧ (sliceOf i ao lo hi).writeable = ao.writeable := by
  simp [sliceOf]

theorem eff_legal (cfg : Cfg) (s : State) (hw : WF s) (op : Op) : Legal s (eff cfg s op) := by
  cases op <;> simp only [eff]
  case newArr vals => constructor <;> simp
  case sliceArr a lo hi =>
    split
    · rename_i ao h
      constructor <;> simp
      exact ⟨a, ao, h, by simp [sliceOf], by simp [sliceOf]⟩
    · exact legal_bad s
  case writeArr a i v =>
    split
    · rename_i ao h; exact legal_writeEff s a ao i v h
    · exact legal_bad s
  case setFlag a b =>
    split
    · split
      · constructor <;> simp
      · split
        · split
          · split
            · constructor <;> simp
            · exact legal_raise _ _
          · exact legal_bad s
        · constructor <;> simp
    · exact legal_bad s
  case wrap a =>
    split
    · rename_i ao h
      constructor <;> simp
      exact lt_of_getElem? h
    · exact legal_bad s
  case wrapLock w =>
    split
    · exact legal_lockEff _ _ _ _
    · exact legal_bad s
  case wrapVal w =>
    split
    · constructor <;> simp
    · exact legal_bad s
  case wrapAsnumpy w =>
    split
    · exact legal_asnumpyEff _ _
    · exact legal_bad s
  case wrapGetitem w lo hi =>
    split
    · rename_i wo ao h
      obtain ⟨h1, h2⟩ := getWrapArr_some h
      constructor <;> simp
      exact ⟨wo.arr, ao, h2, by simp [sliceOf], by simp [sliceOf]⟩
    · exact legal_bad s
  case wrapSame w =>
    split
    · rename_i wo h
      constructor <;> simp
      exact hw.wrapArr w wo h
    · exact legal_bad s
  case wrapSetitem w i v =>
    split
    · rename_i wo ao h
      obtain ⟨h1, h2⟩ := getWrapArr_some h
      split
      · exact legal_raise _ _
      · exact legal_writeEff s wo.arr ao i v h2
    · exact legal_bad s
  case wrapIadd w w2 =>
    split
    · rename_i wo ao _ ao2 h hb
      obtain ⟨h1, h2⟩ := getWrapArr_some h
      split
      · split
        · exact legal_raise _ _
        · split
          · rename_i hwr _
            constructor <;> simp
            · exact ⟨ao, h2, by simpa using hwr⟩
            · exact lt_of_getElem? h2
          · exact legal_raise _ _
      · exact legal_raise _ _
    · exact legal_bad s
  case ufuncOut wx wy wout =>
    split
    · rename_i _ ax _ ay wo ao _ _ h
      obtain ⟨h1, h2⟩ := getWrapArr_some h
      split
      · split
        · exact legal_raise _ _
        · split
          · exact legal_raise _ _
          · rename_i hwr
            constructor <;> simp
            exact ⟨ao, h2, by simpa using hwr⟩
      · exact legal_raise _ _
    · exact legal_bad s
  case wrapCopy w =>
    split
    · constructor <;> simp
    · exact legal_bad s
  case fieldFromArr a n =>
    split
    · rename_i ao h
      exact legal_fieldInit _ _ _ _ _ _ _ (lt_of_getElem? h) (by simp)
    · exact legal_bad s
  case fieldFromWrap w n =>
    split
    · rename_i wo ao h
      obtain ⟨h1, h2⟩ := getWrapArr_some h
      exact legal_fieldInit _ _ _ _ _ _ _ (lt_of_getElem? h2) (fun _ => lt_of_getElem? h1)
    · exact legal_bad s
  case fieldFull n v => constructor <;> simp
  case fieldCast f =>
    split
    · rename_i w wo ao h
      obtain ⟨h0, h1, h2⟩ := getField_some h
      exact legal_fieldInit _ _ _ _ _ _ _ (lt_of_getElem? h2) (fun _ => lt_of_getElem? h1)
    · exact legal_bad s
  case arrBase a =>
    split
    · split <;> constructor <;> simp
    · exact legal_bad s
  case newSub vals => constructor <;> simp
  case asArray a =>
    split
    · rename_i ao h
      split
      · constructor <;> simp
      · constructor <;> simp
        exact ⟨a, ao, h, rfl, id⟩
    · exact legal_bad s
  case fieldVal f =>
    split
    · constructor <;> simp
    · exact legal_bad s
  case fieldRaw f =>
    split
    · constructor <;> simp
    · exact legal_bad s
  case fieldAsnumpy f =>
    split
    · exact legal_asnumpyEff _ _
    · exact legal_bad s
  case fieldValRw f =>
    split
    · constructor <;> simp
    · exact legal_bad s
  case fieldAsnumpyRw f =>
    split
    · constructor <;> simp
    · exact legal_bad s
  case fieldAdd f g =>
    split
    · split
      · exact legal_raise _ _
      · exact legal_freshField _ _ _
    · exact legal_bad s
  case fieldScale f c =>
    split
    · exact legal_freshField _ _ _
    · exact legal_bad s
  case mkDiag f =>
    split
    · constructor <;> simp
    · exact legal_bad s
  case mkAdder f =>
    split
    · constructor <;> simp
    · exact legal_bad s
  case applyOp o x =>
    split
    · split
      · split
        · exact legal_raise _ _
        · exact legal_freshField _ _ _
      · exact legal_bad s
    · split
      · split
        · exact legal_raise _ _
        · exact legal_freshField _ _ _
      · exact legal_bad s
    · exact legal_bad s

/-- every field's buffer is protected -/
def Inv (s : State) : Prop :=
  ∀ (f w : Nat) (wo : Wrap) (ao : Arr), getField s f = some (w, wo, ao) → Prot s ao.buf

theorem getField_of_wf {s : State} (hw : WF s) {f : Nat} (hf : f < s.fields.length) :
    ∃ w wo ao, getField s f = some (w, wo, ao) := by
  obtain ⟨w, hwf⟩ : ∃ w, s.fields[f]? = some w := ⟨s.fields[f], by simp [hf]⟩
  have h1 := hw.fieldWrap f w hwf
  obtain ⟨wo, hwo⟩ : ∃ wo, s.wraps[w]? = some wo := ⟨s.wraps[w], by simp [h1]⟩
  have h2 := hw.wrapArr w wo hwo
  obtain ⟨ao, hao⟩ : ∃ ao, s.arrs[wo.arr]? = some ao := ⟨s.arrs[wo.arr], by simp [h2]⟩
  exact ⟨w, wo, ao, by simp [getField, getWrapArr, hwf, hwo, hao]⟩

theorem getField_mk {s : State} {f w : Nat} {wo : Wrap} {ao : Arr} (h0 : s.fields[f]? = some w)
    (h1 : s.wraps[w]? = some wo) (h2 : s.arrs[wo.arr]? = some ao) : getField s f = some (w, wo, ao) := by
  simp [getField, getWrapArr, h0, h1, h2]

/-- an old field keeps its wrapper, its ndarray object and that object's window -/
theorem getField_apply_old {s : State} (e : Eff) {f w : Nat} {wo : Wrap} {ao : Arr}
    (h : getField s f = some (w, wo, ao)) :
    ∃ wo' ao', getField (apply s e) f = some (w, wo', ao') ∧ wo'.arr = wo.arr ∧
      ao'.buf = ao.buf ∧ ao'.off = ao.off ∧ ao'.len = ao.len := by
  obtain ⟨h0, h1, h2⟩ := getField_some h
  have hf := lt_of_getElem? h0
  have hwl := lt_of_getElem? h1
  have hal := lt_of_getElem? h2
  have a0 := apply_fields_old s e f hf
  have a1 := apply_wraps_old s e w hwl
  have a2 := apply_arrs_old s e wo.arr hal
  rw [h0] at a0
  rw [h1] at a1
  rw [h2] at a2
  cases hw' : (apply s e).wraps[w]? with
  | none => simp [hw'] at a1
  | some wo' =>
    simp [hw'] at a1
    simp only [Option.map_some] at a2
    exact ⟨wo', { ao with writeable := flagAfter e wo.arr ao.writeable },
      getField_mk a0 hw' (by rw [a1]; exact a2), a1, rfl, rfl, rfl⟩

theorem window_congr {s s' : State} {a a' : Arr} (hb : s'.bufs[a.buf]? = s.bufs[a.buf]?)
    (h1 : a'.buf = a.buf) (h2 : a'.off = a.off) (h3 : a'.len = a.len) : window s' a' = window s a := by
  simp [window, h1, h2, h3, hb]

/-- one step never changes the value of an existing field whose buffer is protected -/
theorem step_fieldVals (cfg : Cfg) (s : State) (hw : WF s) (hinv : Inv s) (op : Op) (f : Nat)
    (hf : f < s.fields.length) : fieldVals (step cfg s op) f = fieldVals s f := by
  obtain ⟨w, wo, ao, hg⟩ := getField_of_wf hw hf
  obtain ⟨wo', ao', hg', _, hb, ho, hl⟩ := getField_apply_old (eff cfg s op) hg
  obtain ⟨_, _, h2⟩ := getField_some hg
  have hbl := hw.arrBuf _ _ h2
  have := apply_bufs_prot s (eff cfg s op) (eff_legal cfg s hw op) ao.buf hbl (hinv f w wo ao hg)
  simp only [fieldVals, step, hg', hg]
  exact window_congr this hb ho hl

theorem step_wf (cfg : Cfg) (s : State) (hw : WF s) (op : Op) : WF (step cfg s op) :=
  apply_wf s _ hw (eff_legal cfg s hw op)


@[simp] theorem unlock_raise (er : Err) : (raise er).unlockArr = none := rfl
@[simp] theorem unlock_bad : bad.unlockArr = none := rfl
@[simp] theorem unlock_lockEff (cfg : Cfg) (w : Nat) (wo : Wrap) : (lockEff cfg w wo).unlockArr = none := rfl
@[simp] theorem unlock_asnumpyEff (wo : Wrap) : (asnumpyEff wo).unlockArr = none := rfl
@[simp] theorem unlock_freshField (cfg : Cfg) (s : State) (v : List Int) : (freshField cfg s v).unlockArr = none := rfl
@[simp] theorem unlock_writeEff (s : State) (a : Nat) (ao : Arr) (i : Nat) (v : Int) :
    (writeEff s a ao i v).unlockArr = none := by
  unfold writeEff; (repeat' split) <;> rfl
@[simp] theorem unlock_fieldInit (cfg : Cfg) (s : State) (w : Nat) (wo : Wrap) (ao : Arr) (n : Nat) (fr : Bool) :
    (fieldInit cfg s w wo ao n fr).unlockArr = none := by
  unfold fieldInit; simp only []; (repeat' split) <;> rfl

/-- only `a.flags.writeable = True` re-enables a flag, and the guard keeps it away from field buffers -/
theorem eff_unlock_guard (cfg : Cfg) (s : State) (op : Op) (hg : guard s op = true) (a : Nat)
    (h : (eff cfg s op).unlockArr = some a) : ∃ ao, s.arrs[a]? = some ao ∧ isFieldBuf s ao.buf = false := by
  cases op <;> simp only [eff] at h
  case setFlag a' b =>
    split at h
    · rename_i ao hao
      cases b with
      | false => simp at h
      | true =>
        simp only [guard, hao] at hg
        have hfb : isFieldBuf s ao.buf = false := by simpa using hg
        simp only [Bool.not_true, Bool.false_eq_true, ↓reduceIte] at h
        split at h
        · split at h
          · split at h
            · simp at h; subst h; exact ⟨ao, hao, hfb⟩
            · simp at h
          · simp at h
        · simp at h; subst h; exact ⟨ao, hao, hfb⟩
    · simp at h
  all_goals (repeat' split at h) <;> simp at h

theorem isFieldBuf_false {s : State} {b : Nat} (h : isFieldBuf s b = false) {f w : Nat} {wo : Wrap} {ao : Arr}
    (hg : getField s f = some (w, wo, ao)) : ao.buf ≠ b := by
  intro hb
  have hf := lt_of_getElem? (getField_some hg).1
  have : isFieldBuf s b = true := by
    unfold isFieldBuf
    rw [List.any_eq_true]
    exact ⟨f, List.mem_range.mpr hf, by simp [hg, hb]⟩
  simp [this] at h


theorem toList_getElem?_zero {α} (o : Option α) : o.toList[0]? = o := by cases o <;> rfl

theorem apply_fields_new (s : State) (e : Eff) : (apply s e).fields[s.fields.length]? = e.newField := by
  simp only [apply]
  rw [List.getElem?_append_right (Nat.le_refl _), Nat.sub_self, toList_getElem?_zero]

theorem apply_wraps_new (s : State) (e : Eff) : (apply s e).wraps[s.wraps.length]? = e.newWrap := by
  simp only [apply]
  cases e.lockWrap with
  | none => simp only []; rw [List.getElem?_append_right (Nat.le_refl _), Nat.sub_self, toList_getElem?_zero]
  | some k =>
    simp only [setWrapFlag]
    rw [List.getElem?_append_right (by simp)]
    simp [toList_getElem?_zero]

theorem apply_arrs_new0 (s : State) (e : Eff) :
    (apply s e).arrs[s.arrs.length + e.newArr0.toList.length]? = e.newArr := by
  rw [apply_arrs_new s e _ (Nat.le_add_right _ _), Nat.add_sub_cancel_left]
  unfold newArrs
  rw [List.getElem?_append_right (Nat.le_refl _), Nat.sub_self, toList_getElem?_zero]

/-- how an effect creates a field, if it does -/
inductive Shape (s : State) (e : Eff) : Prop
  | none (h : e.newField = none)
  | fresh (a : Arr) (nw : Wrap) (h1 : e.newArr = some a) (h2 : a.buf = s.bufs.length) (h3 : a.writeable = false)
      (h0 : ∀ b, e.newArr0 = some b → b.writeable = false)
      (h4 : e.newWrap = some nw) (h5 : nw.arr = s.arrs.length + e.newArr0.toList.length)
      (h6 : e.newField = some s.wraps.length)
  | init (w a : Nat) (ao : Arr) (h1 : e.newField = some w) (h2 : e.newArr = none) (h2' : e.newArr0 = none)
      (h3 : e.unlockArr = none)
      (h4 : s.arrs[a]? = some ao)
      (h5 : (∃ nw, e.newWrap = some nw ∧ nw.arr = a ∧ w = s.wraps.length) ∨
            (∃ wo, s.wraps[w]? = some wo ∧ wo.arr = a))
      (h6 : ∀ (i : Nat) (o : Arr), s.arrs[i]? = some o → o.buf = ao.buf →
            (i = a ∧ e.lockArr = some a) ∨ o.writeable = false)

theorem prot_of_shape (s : State) (hw : WF s) (e : Eff) (hs : Shape s e) (w : Nat) (wo' : Wrap) (ao' : Arr)
    (hg : getField (apply s e) s.fields.length = some (w, wo', ao')) : Prot (apply s e) ao'.buf := by
  obtain ⟨g0, g1, g2⟩ := getField_some hg
  rw [apply_fields_new] at g0
  cases hs with
  | none h => rw [h] at g0; cases g0
  | fresh a nw h1 h2 h3 h0 h4 h5 h6 =>
    rw [h6] at g0
    have hw' : w = s.wraps.length := by injection g0 with g0; exact g0.symm
    subst hw'
    rw [apply_wraps_new, h4] at g1
    injection g1 with g1
    subst g1
    rw [h5, apply_arrs_new0, h1] at g2
    injection g2 with g2
    subst g2
    apply apply_prot_of
    · intro i o hio hob
      have := hw.arrBuf i o hio
      omega
    · intro a' ha' _
      rcases mem_newArrs ha' with ha' | ha'
      · exact h0 a' ha'
      · rw [h1] at ha'
        injection ha' with ha'
        subst ha'
        exact h3
  | init w0 a ao h1 h2 h2' h3 h4 h5 h6 =>
    rw [h1] at g0
    have hw' : w0 = w := by injection g0
    subst hw'
    have hal := lt_of_getElem? h4
    have harr : wo'.arr = a := by
      rcases h5 with ⟨nw, k1, k2, k3⟩ | ⟨wo, k1, k2⟩
      · subst k3
        rw [apply_wraps_new, k1] at g1
        injection g1 with g1
        subst g1
        exact k2
      · have := apply_wraps_old s e w0 (lt_of_getElem? k1)
        rw [g1, k1] at this
        simp at this
        omega
    rw [harr, apply_arrs_old s e a hal, h4] at g2
    simp at g2
    subst g2
    apply apply_prot_of
    · intro i o hio hob
      unfold flagAfter
      rw [h3]
      simp only [reduceCtorEq, ↓reduceIte]
      split
      · rfl
      · rename_i hne
        rcases h6 i o hio hob with ⟨k1, k2⟩ | k
        · subst k1; exact absurd k2 hne
        · exact k
    · intro a' ha' _
      rcases mem_newArrs ha' with ha' | ha'
      · rw [h2'] at ha'; cases ha'
      · rw [h2] at ha'; cases ha'


theorem noOtherWritableAlias_spec {s : State} {a b : Nat} (h : noOtherWritableAlias s a b = true)
    (i : Nat) (o : Arr) (hio : s.arrs[i]? = some o) (hb : o.buf = b) : i = a ∨ o.writeable = false := by
  unfold noOtherWritableAlias at h
  rw [List.all_eq_true] at h
  have := h i (List.mem_range.mpr (lt_of_getElem? hio))
  simp [hio, hb] at this
  exact this

theorem shape_none_of {s : State} {e : Eff} (h : e.newField = none) : Shape s e := Shape.none h

theorem shape_freshField (s : State) (v : List Int) : Shape s (freshField fixed s v) :=
  Shape.fresh _ _ rfl rfl rfl (by intro b hb; cases hb) rfl rfl rfl

/-- `Field.__init__` of the repaired code on an ndarray object all of whose *other* aliases are read-only -/
theorem shape_fieldInit (s : State) (w : Nat) (wo : Wrap) (ao : Arr) (n : Nat) (fr : Bool)
    (h4 : s.arrs[wo.arr]? = some ao) (hwo : fr = false → s.wraps[w]? = some wo)
    (h6 : ∀ (i : Nat) (o : Arr), s.arrs[i]? = some o → o.buf = ao.buf → i = wo.arr ∨ o.writeable = false) :
    Shape s (fieldInit fixed s w wo ao n fr) := by
  unfold fieldInit
  simp only []
  split
  · exact Shape.none rfl
  · split
    · refine Shape.init s.wraps.length wo.arr ao rfl rfl rfl rfl h4 (Or.inl ⟨_, rfl, rfl, rfl⟩) ?_
      intro i o hio hb
      rcases h6 i o hio hb with k | k
      · exact Or.inl ⟨k, by simp [lockEff, fixed]⟩
      · exact Or.inr k
    · rename_i hfr
      refine Shape.init w wo.arr ao rfl rfl rfl rfl h4 (Or.inr ⟨wo, hwo (by simpa using hfr), rfl⟩) ?_
      intro i o hio hb
      rcases h6 i o hio hb with k | k
      · exact Or.inl ⟨k, by simp [lockEff, fixed]⟩
      · exact Or.inr k

theorem eff_shape (s : State) (hinv : Inv s) (op : Op) (hg : guard s op = true) :
    Shape s (eff fixed s op) := by
  cases op <;> simp only [eff]
  case fieldFromArr a n =>
    split
    · rename_i ao h
      simp only [guard, h] at hg
      exact shape_fieldInit s _ _ ao n true h (by simp) (noOtherWritableAlias_spec hg)
    · exact Shape.none rfl
  case fieldFromWrap w n =>
    split
    · rename_i wo ao h
      obtain ⟨h1, h2⟩ := getWrapArr_some h
      simp only [guard, h] at hg
      exact shape_fieldInit s _ _ ao n false h2 (fun _ => h1) (noOtherWritableAlias_spec hg)
    · exact Shape.none rfl
  case fieldCast f =>
    split
    · rename_i w wo ao h
      obtain ⟨h0, h1, h2⟩ := getField_some h
      exact shape_fieldInit s _ _ ao _ false h2 (fun _ => h1)
        (fun i o hio hb => Or.inr (hinv f w wo ao h i o hio hb))
    · exact Shape.none rfl
  case fieldFull n v =>
    refine Shape.fresh _ _ rfl rfl rfl ?_ rfl rfl rfl
    intro b hb
    simp only [Option.some.injEq] at hb
    subst hb
    rfl
  case fieldAdd f g =>
    split
    · split
      · exact Shape.none rfl
      · exact shape_freshField _ _
    · exact Shape.none rfl
  case fieldScale f c =>
    split
    · exact shape_freshField _ _
    · exact Shape.none rfl
  case applyOp o x =>
    split
    · split
      · split
        · exact Shape.none rfl
        · exact shape_freshField _ _
      · exact Shape.none rfl
    · split
      · split
        · exact Shape.none rfl
        · exact shape_freshField _ _
      · exact Shape.none rfl
    · exact Shape.none rfl
  all_goals (repeat' split) <;> first | exact Shape.none rfl | (apply Shape.none; simp [writeEff]; (repeat' split) <;> rfl)

/-- the invariant is preserved by every guarded step of the repaired code -/
theorem inv_step' (s : State) (hw : WF s) (hinv : Inv s) (op : Op) (hg : guard s op = true) :
    Inv (step fixed s op) := by
  intro f w wo' ao' hgf
  by_cases hf : f < s.fields.length
  · obtain ⟨w0, wo, ao, hg0⟩ := getField_of_wf hw hf
    obtain ⟨wo2, ao2, hg2, _, hb, _, _⟩ := getField_apply_old (eff fixed s op) hg0
    unfold step at hgf
    rw [hg2] at hgf
    simp at hgf
    obtain ⟨rfl, rfl, rfl⟩ := hgf
    rw [hb]
    obtain ⟨_, _, h2⟩ := getField_some hg0
    refine apply_prot s _ hw (eff_legal fixed s hw op) ao.buf (hw.arrBuf _ _ h2) (hinv f w0 wo ao hg0) ?_
    intro a aa hun haa
    obtain ⟨ao3, k1, k2⟩ := eff_unlock_guard fixed s op hg a hun
    rw [haa] at k1
    injection k1 with k1
    subst k1
    exact fun hEq => isFieldBuf_false k2 hg0 hEq.symm
  · have hlen := lt_of_getElem? (getField_some hgf).1
    have : (step fixed s op).fields.length ≤ s.fields.length + 1 := by
      simp only [step, apply, List.length_append]
      cases (eff fixed s op).newField <;> simp
    have hfe : f = s.fields.length := by omega
    subst hfe
    exact prot_of_shape s hw _ (eff_shape s hinv op hg) w wo' ao' hgf


/-- operators built from fields refer to live fields -/
def OpInv (s : State) : Prop :=
  ∀ (o : Nat) (ob : OpObj), s.ops[o]? = some ob →
    match ob with
    | OpObj.diag w => ∃ f : Nat, s.fields[f]? = some w
    | OpObj.adder f => f < s.fields.length

theorem getWrapArr_of_getField {s : State} {f w : Nat} {wo : Wrap} {ao : Arr}
    (h : getField s f = some (w, wo, ao)) : getWrapArr s w = some (wo, ao) := by
  obtain ⟨_, h1, h2⟩ := getField_some h
  simp [getWrapArr, h1, h2]

theorem opVals_diag {s : State} {o w f : Nat} (ho : s.ops[o]? = some (OpObj.diag w))
    (hw : WF s) (hf : s.fields[f]? = some w) : opVals s o = fieldVals s f := by
  obtain ⟨w', wo, ao, hg⟩ := getField_of_wf hw (lt_of_getElem? hf)
  have : w' = w := by
    have := (getField_some hg).1
    rw [hf] at this; injection this with this; exact this.symm
  subst this
  simp [opVals, ho, fieldVals, hg, getWrapArr_of_getField hg]

theorem opVals_adder {s : State} {o f : Nat} (ho : s.ops[o]? = some (OpObj.adder f)) :
    opVals s o = fieldVals s f := by
  simp [opVals, ho]

@[simp] theorem newOp_raise (er : Err) : (raise er).newOp = none := rfl
@[simp] theorem newOp_bad : bad.newOp = none := rfl
@[simp] theorem newOp_lockEff (cfg : Cfg) (w : Nat) (wo : Wrap) : (lockEff cfg w wo).newOp = none := rfl
@[simp] theorem newOp_asnumpyEff (wo : Wrap) : (asnumpyEff wo).newOp = none := rfl
@[simp] theorem newOp_freshField (cfg : Cfg) (s : State) (v : List Int) : (freshField cfg s v).newOp = none := rfl
@[simp] theorem newOp_writeEff (s : State) (a : Nat) (ao : Arr) (i : Nat) (v : Int) :
    (writeEff s a ao i v).newOp = none := by
  unfold writeEff; (repeat' split) <;> rfl
@[simp] theorem newOp_fieldInit (cfg : Cfg) (s : State) (w : Nat) (wo : Wrap) (ao : Arr) (n : Nat) (fr : Bool) :
    (fieldInit cfg s w wo ao n fr).newOp = none := by
  unfold fieldInit; simp only []; (repeat' split) <;> rfl

theorem step_opInv (cfg : Cfg) (s : State) (_hw : WF s) (hop : OpInv s) (op : Op) : OpInv (step cfg s op) := by
  intro o ob ho
  have hfl : ∀ (f w : Nat), s.fields[f]? = some w → (step cfg s op).fields[f]? = some w := by
    intro f w h
    rw [← h]; exact apply_fields_old s _ f (lt_of_getElem? h)
  have hlen : s.fields.length ≤ (step cfg s op).fields.length := by
    simp [step, apply]
  by_cases h : o < s.ops.length
  · have := apply_ops_old s (eff cfg s op) o h
    unfold step at ho
    rw [this] at ho
    have := hop o ob ho
    cases ob with
    | diag w => obtain ⟨f, hf⟩ := this; exact ⟨f, hfl f w hf⟩
    | adder f => simp only at this ⊢; omega
  · -- a new operator object: only mkDiag / mkAdder create one
    have hnew : (step cfg s op).ops[o]? = (eff cfg s op).newOp.toList[o - s.ops.length]? := by
      simp only [step, apply]
      rw [List.getElem?_append_right (Nat.le_of_not_lt h)]
    rw [hnew] at ho
    cases hn : (eff cfg s op).newOp with
    | none => simp [hn] at ho
    | some nb =>
      simp [hn] at ho
      have hnb : nb = ob := by
        cases hk : o - s.ops.length with
        | zero => simpa [hk] using ho
        | succ k => simp [hk] at ho
      subst hnb
      cases op <;> simp only [eff] at hn
      case mkDiag f =>
        split at hn
        · rename_i w wo ao hgf
          simp at hn; subst hn
          exact ⟨f, hfl f w (getField_some hgf).1⟩
        · simp at hn
      case mkAdder f =>
        split at hn
        · rename_i x hgf
          obtain ⟨w, wo, ao⟩ := x
          simp at hn; subst hn
          have := lt_of_getElem? (getField_some hgf).1
          simp only; omega
        · simp at hn
      all_goals ((repeat' split at hn) <;> simp at hn)

end NiftyVerif.Heap
