/-
  Lemmas/Heap.lean — frame lemmas for the effect records of Model/Heap.lean (used by Props/C07.lean).
-/
import NiftyVerif.Model.Heap

namespace NiftyVerif.Heap

/-- every ndarray object on buffer `b` is read-only -/
def Prot (s : State) (b : Nat) : Prop :=
  ∀ (i : Nat) (o : Arr), s.arrs[i]? = some o → o.buf = b → o.writeable = false

/-- handles stored inside objects are valid -/
structure WF (s : State) : Prop where
  arrBuf : ∀ (i : Nat) (o : Arr), s.arrs[i]? = some o → o.buf < s.bufs.length
  wrapArr : ∀ (i : Nat) (w : Wrap), s.wraps[i]? = some w → w.arr < s.arrs.length
  fieldWrap : ∀ (i w : Nat), s.fields[i]? = some w → w < s.wraps.length

/-- conditions on an effect record under which the frame lemmas hold -/
structure Legal (s : State) (e : Eff) : Prop where
  write : ∀ a vals, e.write = some (a, vals) → ∃ ao, s.arrs[a]? = some ao ∧ ao.writeable = true
  newArr : ∀ a, e.newArr = some a →
    (a.buf = s.bufs.length ∧ e.newBuf.isSome) ∨
    (∃ (p : Nat) (po : Arr), s.arrs[p]? = some po ∧ po.buf = a.buf ∧ (a.writeable = true → po.writeable = true))
  newWrap : ∀ w, e.newWrap = some w → w.arr < s.arrs.length + e.newArr.toList.length
  newField : ∀ w, e.newField = some w → w < s.wraps.length + e.newWrap.toList.length

/-- the flag of old ndarray object `i` after the lock/unlock part of an effect -/
def flagAfter (e : Eff) (i : Nat) (w : Bool) : Bool :=
  if e.unlockArr = some i then true else if e.lockArr = some i then false else w

theorem getElem?_arrsAfterFlags (s : State) (e : Eff) (i : Nat) :
    (arrsAfterFlags s e)[i]? = (s.arrs[i]?).map (fun o => { o with writeable := flagAfter e i o.writeable }) := by
  unfold arrsAfterFlags flagAfter setArrFlag
  cases h3 : s.arrs[i]? with
  | none => cases e.lockArr <;> cases e.unlockArr <;> simp [List.getElem?_modify, h3]
  | some o =>
    cases h1 : e.lockArr <;> cases h2 : e.unlockArr <;> simp [List.getElem?_modify, h3] <;>
      (repeat' split) <;> simp_all

theorem length_arrsAfterFlags (s : State) (e : Eff) : (arrsAfterFlags s e).length = s.arrs.length := by
  unfold arrsAfterFlags setArrFlag
  cases e.lockArr <;> cases e.unlockArr <;> simp

/-- old ndarray objects keep buffer, window and base; only the flag may change -/
theorem apply_arrs_old (s : State) (e : Eff) (i : Nat) (hi : i < s.arrs.length) :
    (apply s e).arrs[i]? = (s.arrs[i]?).map (fun o => { o with writeable := flagAfter e i o.writeable }) := by
  simp only [apply]
  rw [List.getElem?_append_left (by rw [length_arrsAfterFlags]; exact hi)]
  exact getElem?_arrsAfterFlags s e i

theorem apply_arrs_new (s : State) (e : Eff) (i : Nat) (hi : s.arrs.length ≤ i) :
    (apply s e).arrs[i]? = e.newArr.toList[i - s.arrs.length]? := by
  simp only [apply]
  rw [List.getElem?_append_right (by rw [length_arrsAfterFlags]; exact hi), length_arrsAfterFlags]

theorem apply_wraps_old (s : State) (e : Eff) (i : Nat) (hi : i < s.wraps.length) :
    ((apply s e).wraps[i]?).map (·.arr) = (s.wraps[i]?).map (·.arr) := by
  simp only [apply]
  cases h : e.lockWrap with
  | none => simp [List.getElem?_append_left hi]
  | some w =>
    simp only [setWrapFlag]
    rw [List.getElem?_append_left (by simpa using hi)]
    simp [List.getElem?_modify]
    cases s.wraps[i]? <;> simp
    split <;> rfl

theorem apply_fields_old (s : State) (e : Eff) (i : Nat) (hi : i < s.fields.length) :
    (apply s e).fields[i]? = s.fields[i]? := by
  simp [apply, List.getElem?_append_left hi]

theorem apply_ops_old (s : State) (e : Eff) (i : Nat) (hi : i < s.ops.length) :
    (apply s e).ops[i]? = s.ops[i]? := by
  simp [apply, List.getElem?_append_left hi]

/-- a write goes through a writable ndarray object, so a protected buffer keeps its content -/
theorem apply_bufs_prot (s : State) (e : Eff) (hl : Legal s e) (b : Nat) (hb : b < s.bufs.length)
    (hp : Prot s b) : (apply s e).bufs[b]? = s.bufs[b]? := by
  simp only [apply]
  have hlen : (bufsAfterWrite s e).length = s.bufs.length := by
    unfold bufsAfterWrite writeWin
    cases e.write with
    | none => rfl
    | some p => cases p with | mk a vals => (simp only []; split <;> simp)
  rw [List.getElem?_append_left (by rw [hlen]; exact hb)]
  unfold bufsAfterWrite
  cases hw : e.write with
  | none => rfl
  | some p =>
    cases p with
    | mk a vals =>
      obtain ⟨ao, h1, h2⟩ := hl.write a vals hw
      simp only [h1, writeWin, List.getElem?_modify]
      have : ao.buf ≠ b := by
        intro hEq
        have := hp a ao h1 hEq
        simp [this] at h2
      simp [this]


/-- protection of buffer `b` after an effect, from the flags after the effect -/
theorem apply_prot_of (s : State) (e : Eff) (b : Nat)
    (hold : ∀ (i : Nat) (o : Arr), s.arrs[i]? = some o → o.buf = b → flagAfter e i o.writeable = false)
    (hnew : ∀ a, e.newArr = some a → a.buf = b → a.writeable = false) : Prot (apply s e) b := by
  intro i o hio hb
  by_cases hi : i < s.arrs.length
  · rw [apply_arrs_old s e i hi] at hio
    cases h : s.arrs[i]? with
    | none => simp [h] at hio
    | some o' =>
      simp [h] at hio
      subst hio
      exact hold i o' h hb
  · rw [apply_arrs_new s e i (Nat.le_of_not_lt hi)] at hio
    cases hn : e.newArr with
    | none => simp [hn] at hio
    | some a =>
      simp [hn] at hio
      have : a = o := by
        cases hk : i - s.arrs.length with
        | zero => simpa [hk] using hio
        | succ k => simp [hk] at hio
      subst this
      exact hnew a hn hb

/-- a protected buffer stays protected unless the effect re-enables a flag on it -/
theorem apply_prot (s : State) (e : Eff) (_hw : WF s) (hl : Legal s e) (b : Nat) (hb : b < s.bufs.length)
    (hp : Prot s b)
    (hun : ∀ (a : Nat) (ao : Arr), e.unlockArr = some a → s.arrs[a]? = some ao → ao.buf ≠ b) :
    Prot (apply s e) b := by
  apply apply_prot_of
  · intro i o hio hob
    unfold flagAfter
    split
    · rename_i h; exact absurd hob (hun i o h hio)
    · split
      · rfl
      · exact hp i o hio hob
  · intro a ha hab
    rcases hl.newArr a ha with ⟨h1, _⟩ | ⟨p, po, h1, h2, h3⟩
    · omega
    · cases hwv : a.writeable with
      | false => rfl
      | true =>
        have := hp p po h1 (by omega)
        simp [h3 hwv] at this

theorem apply_wf (s : State) (e : Eff) (hw : WF s) (hl : Legal s e) : WF (apply s e) := by
  have hlenA : (apply s e).arrs.length = s.arrs.length + e.newArr.toList.length := by
    simp [apply, length_arrsAfterFlags]
  have hlenB : (apply s e).bufs.length = s.bufs.length + e.newBuf.toList.length := by
    simp only [apply, List.length_append]
    congr 1
    unfold bufsAfterWrite writeWin
    cases e.write with
    | none => rfl
    | some p => cases p with | mk a vals => (simp only []; split <;> simp)
  have hlenW : (apply s e).wraps.length = s.wraps.length + e.newWrap.toList.length := by
    simp only [apply, List.length_append]
    cases e.lockWrap <;> simp [setWrapFlag]
  constructor
  · intro i o hio
    rw [hlenB]
    by_cases hi : i < s.arrs.length
    · rw [apply_arrs_old s e i hi] at hio
      cases h : s.arrs[i]? with
      | none => simp [h] at hio
      | some o' =>
        simp [h] at hio
        subst hio
        have := hw.arrBuf i o' h
        simp only []
        omega
    · rw [apply_arrs_new s e i (Nat.le_of_not_lt hi)] at hio
      cases hn : e.newArr with
      | none => simp [hn] at hio
      | some a =>
        simp [hn] at hio
        have : a = o := by
          cases hk : i - s.arrs.length with
          | zero => simpa [hk] using hio
          | succ k => simp [hk] at hio
        subst this
        rcases hl.newArr a hn with ⟨h1, h2⟩ | ⟨p, po, h1, h2, _⟩
        · cases hb : e.newBuf with
          | none => simp [hb] at h2
          | some v => simp; omega
        · have := hw.arrBuf p po h1
          omega
  · intro i w hiw
    rw [hlenA]
    by_cases hi : i < s.wraps.length
    · have h1 := apply_wraps_old s e i hi
      rw [hiw] at h1
      cases h : s.wraps[i]? with
      | none => simp [h] at h1
      | some w' =>
        simp [h] at h1
        have := hw.wrapArr i w' h
        omega
    · have : (apply s e).wraps[i]? = e.newWrap.toList[i - s.wraps.length]? := by
        simp only [apply]
        cases e.lockWrap with
        | none => simp only []; rw [List.getElem?_append_right (Nat.le_of_not_lt hi)]
        | some k =>
          simp only [setWrapFlag]
          rw [List.getElem?_append_right (by simpa using Nat.le_of_not_lt hi)]
          simp
      rw [this] at hiw
      cases hn : e.newWrap with
      | none => simp [hn] at hiw
      | some a =>
        simp [hn] at hiw
        have : a = w := by
          cases hk : i - s.wraps.length with
          | zero => simpa [hk] using hiw
          | succ k => simp [hk] at hiw
        subst this
        exact hl.newWrap a hn
  · intro i w hiw
    rw [hlenW]
    by_cases hi : i < s.fields.length
    · rw [apply_fields_old s e i hi] at hiw
      have := hw.fieldWrap i w hiw
      omega
    · have : (apply s e).fields[i]? = e.newField.toList[i - s.fields.length]? := by
        simp only [apply]
        rw [List.getElem?_append_right (Nat.le_of_not_lt hi)]
      rw [this] at hiw
      cases hn : e.newField with
      | none => simp [hn] at hiw
      | some a =>
        simp [hn] at hiw
        have : a = w := by
          cases hk : i - s.fields.length with
          | zero => simpa [hk] using hiw
          | succ k => simp [hk] at hiw
        subst this
        exact hl.newField a hn


theorem legal_raise (s : State) (er : Err) : Legal s (raise er) := by
  constructor <;> simp [raise]

theorem getWrapArr_some {s : State} {w : Nat} {wo : Wrap} {ao : Arr} (h : getWrapArr s w = some (wo, ao)) :
    s.wraps[w]? = some wo ∧ s.arrs[wo.arr]? = some ao := by
  unfold getWrapArr at h
  split at h
  · split at h
    · simp at h; obtain ⟨rfl, rfl⟩ := h; constructor <;> assumption
    · simp at h
  · simp at h

theorem getField_some {s : State} {f w : Nat} {wo : Wrap} {ao : Arr} (h : getField s f = some (w, wo, ao)) :
    s.fields[f]? = some w ∧ s.wraps[w]? = some wo ∧ s.arrs[wo.arr]? = some ao := by
  unfold getField at h
  split at h
  · split at h
    · rename_i h1 _ _ _ h2
      simp at h; obtain ⟨rfl, rfl, rfl⟩ := h
      exact ⟨h1, getWrapArr_some h2⟩
    · simp at h
  · simp at h

theorem lt_of_getElem? {α} {l : List α} {i : Nat} {a : α} (h : l[i]? = some a) : i < l.length := by
  rcases List.getElem?_eq_some_iff.mp h with ⟨h1, _⟩; exact h1

theorem legal_bad (s : State) : Legal s bad := legal_raise s _

theorem legal_writeEff (s : State) (a : Nat) (ao : Arr) (i : Nat) (v : Int) (h : s.arrs[a]? = some ao) :
    Legal s (writeEff s a ao i v) := by
  unfold writeEff
  split
  · exact legal_raise _ _
  · split
    · exact legal_raise _ _
    · constructor <;> simp
      rename_i h1 _
      exact ⟨ao, h, by simpa using h1⟩

theorem legal_lockEff (cfg : Cfg) (s : State) (w : Nat) (wo : Wrap) : Legal s (lockEff cfg w wo) := by
  constructor <;> simp [lockEff]

theorem legal_asnumpyEff (s : State) (wo : Wrap) : Legal s (asnumpyEff wo) := by
  constructor <;> simp [asnumpyEff]

theorem legal_freshField (cfg : Cfg) (s : State) (vals : List Int) : Legal s (freshField cfg s vals) := by
  constructor <;> simp [freshField]

theorem legal_fieldInit (cfg : Cfg) (s : State) (w : Nat) (wo : Wrap) (ao : Arr) (n : Nat) (fresh : Bool)
    (h1 : wo.arr < s.arrs.length) (h2 : fresh = false → w < s.wraps.length) :
    Legal s (fieldInit cfg s w wo ao n fresh) := by
  unfold fieldInit
  split
  · constructor <;> simp
  · split
    · constructor <;> simp
      exact h1
    · constructor <;> simp
      exact h2 (by simpa using ‹¬fresh = true›)

theorem sliceOf_parent (i : Nat) (ao : Arr) (lo hi : Nat) :
    (sliceOf i ao lo hi).buf = ao.buf ∧ (sliceOf i ao lo hi).writeable = ao.writeable := by
  simp [sliceOf]

theorem eff_legal (cfg : Cfg) (s : State) (hw : WF s) (op : Op) : Legal s (eff cfg s op) := by
  cases op <;> simp only [eff]
  case newArr vals => constructor <;> simp
  case sliceArr a lo hi =>
    split
    · rename_i ao h
      constructor <;> simp
      exact ⟨a, ao, h, by simp [sliceOf], by simp [sliceOf]⟩
    · exact legal_bad s
  case writeArr a i v =>
    split
    · rename_i ao h; exact legal_writeEff s a ao i v h
    · exact legal_bad s
  case setFlag a b =>
    split
    · split
      · constructor <;> simp
      · split
        · split
          · split
            · constructor <;> simp
            · exact legal_raise _ _
          · exact legal_bad s
        · constructor <;> simp
    · exact legal_bad s
  case wrap a =>
    split
    · rename_i ao h
      constructor <;> simp
      exact lt_of_getElem? h
    · exact legal_bad s
  case wrapLock w =>
    split
    · exact legal_lockEff _ _ _ _
    · exact legal_bad s
  case wrapVal w =>
    split
    · constructor <;> simp
    · exact legal_bad s
  case wrapAsnumpy w =>
    split
    · exact legal_asnumpyEff _ _
    · exact legal_bad s
  case wrapGetitem w lo hi =>
    split
    · rename_i wo ao h
      obtain ⟨h1, h2⟩ := getWrapArr_some h
      constructor <;> simp
      exact ⟨wo.arr, ao, h2, by simp [sliceOf], by simp [sliceOf]⟩
    · exact legal_bad s
  case wrapSame w =>
    split
    · rename_i wo h
      constructor <;> simp
      exact hw.wrapArr w wo h
    · exact legal_bad s
  case wrapSetitem w i v =>
    split
    · rename_i wo ao h
      obtain ⟨h1, h2⟩ := getWrapArr_some h
      split
      · exact legal_raise _ _
      · exact legal_writeEff s wo.arr ao i v h2
    · exact legal_bad s
  case wrapIadd w w2 =>
    split
    · rename_i wo ao _ ao2 h hb
      obtain ⟨h1, h2⟩ := getWrapArr_some h
      split
      · split
        · exact legal_raise _ _
        · split
          · rename_i hwr _
            constructor <;> simp
            · exact ⟨ao, h2, by simpa using hwr⟩
            · exact lt_of_getElem? h2
          · exact legal_raise _ _
      · exact legal_raise _ _
    · exact legal_bad s
  case ufuncOut wx wy wout =>
    split
    · rename_i _ ax _ ay wo ao _ _ h
      obtain ⟨h1, h2⟩ := getWrapArr_some h
      split
      · split
        · exact legal_raise _ _
        · split
          · exact legal_raise _ _
          · rename_i hwr
            constructor <;> simp
            exact ⟨ao, h2, by simpa using hwr⟩
      · exact legal_raise _ _
    · exact legal_bad s
  case wrapCopy w =>
    split
    · constructor <;> simp
    · exact legal_bad s
  case fieldFromArr a n =>
    split
    · rename_i ao h
      exact legal_fieldInit _ _ _ _ _ _ _ (lt_of_getElem? h) (by simp)
    · exact legal_bad s
  case fieldFromWrap w n =>
    split
    · rename_i wo ao h
      obtain ⟨h1, h2⟩ := getWrapArr_some h
      exact legal_fieldInit _ _ _ _ _ _ _ (lt_of_getElem? h2) (fun _ => lt_of_getElem? h1)
    · exact legal_bad s
  case fieldFull n v => constructor <;> simp
  case fieldCast f =>
    split
    · rename_i w wo ao h
      obtain ⟨h0, h1, h2⟩ := getField_some h
      exact legal_fieldInit _ _ _ _ _ _ _ (lt_of_getElem? h2) (fun _ => lt_of_getElem? h1)
    · exact legal_bad s
  case fieldVal f =>
    split
    · constructor <;> simp
    · exact legal_bad s
  case fieldRaw f =>
    split
    · constructor <;> simp
    · exact legal_bad s
  case fieldAsnumpy f =>
    split
    · exact legal_asnumpyEff _ _
    · exact legal_bad s
  case fieldValRw f =>
    split
    · constructor <;> simp
    · exact legal_bad s
  case fieldAsnumpyRw f =>
    split
    · constructor <;> simp
    · exact legal_bad s
  case fieldAdd f g =>
    split
    · split
      · exact legal_raise _ _
      · exact legal_freshField _ _ _
    · exact legal_bad s
  case fieldScale f c =>
    split
    · exact legal_freshField _ _ _
    · exact legal_bad s
  case mkDiag f =>
    split
    · constructor <;> simp
    · exact legal_bad s
  case mkAdder f =>
    split
    · constructor <;> simp
    · exact legal_bad s
  case applyOp o x =>
    split
    · split
      · split
        · exact legal_raise _ _
        · exact legal_freshField _ _ _
      · exact legal_bad s
    · split
      · split
        · exact legal_raise _ _
        · exact legal_freshField _ _ _
      · exact legal_bad s
    · exact legal_bad s
end NiftyVerif.Heap
