/-
  Lemmas/HarmonicVolume.lean — RGSpace volume logic: dvol(position)·dvol(harmonic partner)·ncells = 1.
-/
import NiftyVerif.Model.Harmonic
import Mathlib.Tactic.FieldSimp
import Mathlib.Tactic.Ring
import Mathlib.Data.Rat.Defs
import Mathlib.Algebra.Order.Field.Rat

namespace NiftyVerif.Harmonic

/-- number of cells of an RGSpace given as list of (axis length, position-space distance) -/
def rgCells : List (Nat × Rat) → Nat
  | [] => 1
  | (n, _) :: r => n * rgCells r

theorem rgDvol_product (dims : List (Nat × Rat)) (h : ∀ nd ∈ dims, 0 < nd.1 ∧ nd.2 ≠ 0) :
    rgDvol true dims * rgDvol false dims * (rgCells dims : Rat) = 1 := by
  induction dims with
  | nil => simp [rgDvol, rgCells]
  | cons nd r ih =>
    obtain ⟨n, d⟩ := nd
    have hnd := h (n, d) (List.mem_cons_self)
    have hn : (n : Rat) ≠ 0 := by exact_mod_cast (Nat.pos_iff_ne_zero.mp hnd.1)
    have hd : d ≠ 0 := hnd.2
    have ih' := ih (fun x hx => h x (List.mem_cons_of_mem _ hx))
    simp only [rgDvol, rgCells, rgDistance, if_true, Bool.false_eq_true, if_false, Nat.cast_mul]
    have e : 1 / ((n : Rat) * d) * rgDvol true r * (d * rgDvol false r) * ((n : Rat) * (rgCells r : Rat))
        = (1 / ((n : Rat) * d) * (d * n)) * (rgDvol true r * rgDvol false r * (rgCells r : Rat)) := by ring
    rw [e, ih']
    field_simp

end NiftyVerif.Harmonic
