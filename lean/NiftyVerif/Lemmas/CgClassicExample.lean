/-
  A concrete lawful instance used by the non-vacuity examples in Props/C14.lean:
  `A = [[2,1],[1,3]]`, `b = (1,2)` on `ℚ²` with the Euclidean inner product.
-/
import NiftyVerif.Lemmas.CgClassicIE
import Mathlib.Algebra.Order.Ring.Rat
import Mathlib.Algebra.Module.Prod
import Mathlib.Tactic.Linarith

namespace NiftyVerif.CgClassic
open NiftyVerif.Ctrl

def exSys : Sys (ℚ × ℚ) ℚ :=
  { A := fun v => (2 * v.1 + v.2, v.1 + 3 * v.2), b := some (1, 2), P := none,
    ip := fun u v => u.1 * v.1 + u.2 * v.2, ninfsq := fun v => max (v.1 * v.1) (v.2 * v.2) }

theorem exSys_ne {v : ℚ × ℚ} (hv : v ≠ 0) : v.1 ≠ 0 ∨ v.2 ≠ 0 := by
  by_contra h
  have h' := not_or.1 h
  exact hv (Prod.ext (not_not.1 h'.1) (not_not.1 h'.2))

theorem exSys_spd : exSys.SPD where
  lin := ⟨by intro x y; ext <;> simp [exSys] <;> ring, by intro a x; ext <;> simp [exSys] <;> ring⟩
  bil := ⟨by intro x y z; simp [exSys]; ring, by intro a x y; simp [exSys]; ring, by intro x y; simp [exSys]; ring⟩
  selfAdj := by intro x y; simp [exSys]; ring
  A_pos := by
    intro v hv
    simp only [exSys]
    rcases exSys_ne hv with h | h
    · nlinarith [mul_self_nonneg (v.1 + v.2), mul_self_nonneg v.2, mul_self_pos.2 h]
    · nlinarith [mul_self_nonneg (v.1 + v.2), mul_self_nonneg v.1, mul_self_pos.2 h]
  P_pos := by
    intro v hv
    simp only [exSys, precond]
    rcases exSys_ne hv with h | h
    · nlinarith [mul_self_nonneg v.2, mul_self_pos.2 h]
    · nlinarith [mul_self_nonneg v.1, mul_self_pos.2 h]

theorem exSys_definite : ∀ v, exSys.ip v (precond exSys v) = 0 → v = 0 := by
  intro v h
  by_contra hv
  exact absurd h (ne_of_gt (exSys_spd.P_pos v hv))

/-- the same matrix as an operator offering TIMES and ADJOINT_TIMES only (capability 3) -/
def exOp : LinOp (ℚ × ℚ) :=
  { capability := 3, apply := fun v _ => (2 * v.1 + v.2, v.1 + 3 * v.2) }

def exIp : ℚ × ℚ → ℚ × ℚ → ℚ := fun u v => u.1 * v.1 + u.2 * v.2
def exNinf : ℚ × ℚ → ℚ := fun v => max (v.1 * v.1) (v.2 * v.2)

theorem exOp_linear (x : ℚ × ℚ) (mode : Nat) : (ieSys exOp none exIp exNinf x mode).Linear :=
  ⟨by intro a b; ext <;> simp [ieSys, exOp] <;> ring, by intro a b; ext <;> simp [ieSys, exOp] <;> ring⟩

theorem exOp_definite (x : ℚ × ℚ) (mode : Nat) :
    ∀ v, exIp v (precond (ieSys exOp none exIp exNinf x mode) v) = 0 → v = 0 := by
  intro v h
  by_contra hv
  simp only [ieSys, precond, Option.map_none, exIp] at h
  rcases exSys_ne hv with h1 | h1
  · nlinarith [mul_self_nonneg v.2, mul_self_pos.2 h1]
  · nlinarith [mul_self_nonneg v.1, mul_self_pos.2 h1]

end NiftyVerif.CgClassic
