/-
  Exact termination of the classic CG (Model/CgClassic.lean) on a finite-dimensional space.

  Invariants (by induction over the loop), `W` = span of the search directions used so far:
    * the residual is orthogonal to `W`                      (`r_perp`)    — hence to all earlier preconditioned residuals
    * the search direction is `A`-conjugate to `W`           (`d_conj`)
    * the preconditioned residual lies in `W + K·d`          (`z_mem`)
    * `P A W ⊆ W + K·d`                                      (`krylov`)
  A direction that is `A`-conjugate to `W` and has positive curvature is not in `W`, so `dim W` grows by one per
  iteration; in an `n`-dimensional space the loop cannot enter an `(n+1)`-st iteration.
-/
import NiftyVerif.Lemmas.CgClassic
import Mathlib.LinearAlgebra.Span.Defs
import Mathlib.LinearAlgebra.FiniteDimensional.Lemmas

set_option linter.unusedSectionVars false
set_option linter.unnecessarySeqFocus false

namespace NiftyVerif.CgClassic
open NiftyVerif.Ctrl Submodule

variable {K V τ : Type} [Field K] [LinearOrder K] [IsStrictOrderedRing K] [AddCommGroup V] [Module K V]

/-- `Sys.SPD` plus: the preconditioner is linear and self-adjoint w.r.t. `ip` (without a preconditioner: nothing more) -/
structure Sys.SPDP (S : Sys V K) : Prop extends S.SPD where
  P_add : ∀ x y, precond S (x + y) = precond S x + precond S y
  P_smul : ∀ (a : K) x, precond S (a • x) = a • precond S x
  P_selfAdj : ∀ x y, S.ip x (precond S y) = S.ip (precond S x) y

theorem Sys.Linear.A_add {S : Sys V K} (h : S.Linear) (x y : V) : S.A (x + y) = S.A x + S.A y := by
  have : x + y = x - (-1 : K) • y := by simp
  rw [this, h.A_sub, h.A_smul]; simp

theorem Sys.Linear.A_zero {S : Sys V K} (h : S.Linear) : S.A 0 = 0 := by
  have := h.A_smul 0 0
  simpa using this

theorem Sys.SPDP.P_zero {S : Sys V K} (h : S.SPDP) : precond S 0 = 0 := by
  have := h.P_smul 0 0
  simpa using this

theorem Sys.SPDP.P_sub {S : Sys V K} (h : S.SPDP) (x y : V) : precond S (x - y) = precond S x - precond S y := by
  have : x - y = x + (-1 : K) • y := by simp [sub_eq_add_neg]
  rw [this, h.P_add, h.P_smul]; simp [sub_eq_add_neg]

theorem mem_sup_span {W : Submodule K V} {d v : V} :
    v ∈ W ⊔ K ∙ d ↔ ∃ w ∈ W, ∃ c : K, w + c • d = v := by
  rw [Submodule.mem_sup]
  constructor
  · rintro ⟨w, hw, z, hz, rfl⟩
    obtain ⟨c, rfl⟩ := Submodule.mem_span_singleton.1 hz
    exact ⟨w, hw, c, rfl⟩
  · rintro ⟨w, hw, c, rfl⟩
    exact ⟨w, hw, c • d, Submodule.mem_span_singleton.2 ⟨c, rfl⟩, rfl⟩

theorem self_mem_sup_span (W : Submodule K V) (d : V) : d ∈ W ⊔ K ∙ d :=
  Submodule.mem_sup_right (Submodule.mem_span_singleton_self d)

theorem z_mem_next (W : Submodule K V) (d z' : V) (β : K) : z' ∈ W ⊔ K ∙ d ⊔ K ∙ (β • d + z') := by
  have h := Submodule.sub_mem (W ⊔ K ∙ d ⊔ K ∙ (β • d + z')) (self_mem_sup_span (W ⊔ K ∙ d) (β • d + z'))
    (Submodule.mem_sup_left (Submodule.smul_mem _ β (self_mem_sup_span W d)))
  simpa using h

/-- the conjugacy / orthogonality invariants of CG; `W` = span of the directions of the earlier iterations -/
structure ExactInv (S : Sys V K) (W : Submodule K V) (r d : V) : Prop where
  /-- the residual is orthogonal to every earlier direction (and to every earlier preconditioned residual) -/
  r_perp : ∀ v ∈ W, S.ip r v = 0
  /-- the direction is `A`-conjugate to every earlier direction -/
  d_conj : ∀ v ∈ W, S.ip v (S.A d) = 0
  /-- the preconditioned residual is a combination of the directions up to the current one -/
  z_mem : precond S r ∈ W ⊔ K ∙ d
  /-- Krylov property: `P A` maps the earlier directions into the span of the directions up to the current one -/
  krylov : ∀ v ∈ W, precond S (S.A v) ∈ W ⊔ K ∙ d

theorem exactInv_init {S : Sys V K} (hS : S.SPDP) (r : V) : ExactInv S ⊥ r (precond S r) where
  r_perp := by
    intro v hv; rw [(Submodule.mem_bot K).1 hv]; exact ip_zero_right hS.bil r
  d_conj := by
    intro v hv; rw [(Submodule.mem_bot K).1 hv]; exact ip_zero_left hS.bil _
  z_mem := self_mem_sup_span _ _
  krylov := by
    intro v hv
    rw [(Submodule.mem_bot K).1 hv, hS.lin.A_zero, hS.P_zero]
    exact Submodule.zero_mem _

/-- **one CG step preserves the invariants**: new residual `r' = r − α A d` (`α = ⟨r,d⟩/⟨d,Ad⟩`), new direction
    `d' = (γ'/γ) d + P r'` -/
theorem exact_step {S : Sys V K} (hS : S.SPDP) {W : Submodule K V} {r d r' : V} {pg : K}
    (hI : ExactInv S W r d) (hpg : pg = S.ip r d) (hpos : 0 < pg)
    (hr' : r' = r - (pg / S.ip d (S.A d)) • S.A d) :
    ExactInv S (W ⊔ K ∙ d) r' ((S.ip r' (precond S r') / pg) • d + precond S r') := by
  obtain ⟨hcurv, halpha⟩ := spd_step_facts hS.toSPD hpg hpos
  have hb := hS.bil
  have hac : pg / S.ip d (S.A d) * S.ip d (S.A d) = pg := div_mul_cancel₀ pg (ne_of_gt hcurv)
  have hane : pg / S.ip d (S.A d) ≠ 0 := ne_of_gt halpha
  -- (1) the new residual is orthogonal to the old directions and to `d`
  have h1w : ∀ w ∈ W, S.ip r' w = 0 := by
    intro w hw
    rw [hr', hb.sub_left, hb.smul_left, hI.r_perp w hw, hb.symm (S.A d) w, hI.d_conj w hw]; ring
  have h1d : S.ip r' d = 0 := by
    rw [hr', hb.sub_left, hb.smul_left, ← hpg, hb.symm (S.A d) d, hac]; ring
  have h1 : ∀ v ∈ W ⊔ K ∙ d, S.ip r' v = 0 := by
    intro v hv
    obtain ⟨w, hw, c, rfl⟩ := mem_sup_span.1 hv
    rw [hb.add_right, hb.smul_right, h1w w hw, h1d]; ring
  -- `A d` in terms of the residuals
  have hAd : S.A d = (pg / S.ip d (S.A d))⁻¹ • (r - r') := by
    rw [hr', sub_sub_cancel, smul_smul, inv_mul_cancel₀ hane, one_smul]
  have hz : S.ip r' (precond S r) = 0 := h1 _ hI.z_mem
  set γ' := S.ip r' (precond S r') with hγ'
  have hAdz : S.ip (S.A d) (precond S r') = -(γ' * S.ip d (S.A d) / pg) := by
    have e : S.ip ((pg / S.ip d (S.A d))⁻¹ • (r - r')) (precond S r')
        = (pg / S.ip d (S.A d))⁻¹ * (0 - γ') := by
      rw [hb.smul_left, hb.sub_left, hS.P_selfAdj r r', hb.symm (precond S r) r', hz]
    rw [← hAd, inv_div] at e
    rw [e]; ring
  refine ⟨h1, ?_, ?_, ?_⟩
  · -- (2) conjugacy of the new direction
    intro v hv
    obtain ⟨w, hw, c, rfl⟩ := mem_sup_span.1 hv
    have hw0 : S.ip w (S.A ((γ' / pg) • d + precond S r')) = 0 := by
      rw [hS.lin.A_add, hS.lin.A_smul, hb.add_right, hb.smul_right, hI.d_conj w hw, hS.selfAdj w,
        hS.P_selfAdj, hb.symm, h1 _ (hI.krylov w hw)]; ring
    have hd0 : S.ip d (S.A ((γ' / pg) • d + precond S r')) = 0 := by
      rw [hS.lin.A_add, hS.lin.A_smul, hb.add_right, hb.smul_right, hS.selfAdj d (precond S r'), hAdz]
      field_simp
      ring
    rw [hb.add_left, hb.smul_left, hw0, hd0]; ring
  · -- (3) `P r' = d' − β d`
    exact z_mem_next W d _ _
  · -- (4) Krylov property
    intro v hv
    obtain ⟨w, hw, c, rfl⟩ := mem_sup_span.1 hv
    rw [hS.lin.A_add, hS.lin.A_smul, hS.P_add, hS.P_smul]
    apply Submodule.add_mem
    · exact Submodule.mem_sup_left (hI.krylov w hw)
    · apply Submodule.smul_mem
      rw [hAd, hS.P_smul, hS.P_sub]
      apply Submodule.smul_mem
      apply Submodule.sub_mem
      · exact Submodule.mem_sup_left hI.z_mem
      · exact z_mem_next W d _ _

/-- a direction with positive curvature that is conjugate to `W` enlarges `W` -/
theorem exact_dim {S : Sys V K} (hS : S.SPDP) [FiniteDimensional K V] {W : Submodule K V} {r d : V} {pg : K}
    (hI : ExactInv S W r d) (hpg : pg = S.ip r d) (hpos : 0 < pg) :
    Module.finrank K W < Module.finrank K ↥(W ⊔ K ∙ d) ∧ Module.finrank K ↥(W ⊔ K ∙ d) ≤ Module.finrank K V := by
  obtain ⟨hcurv, _⟩ := spd_step_facts hS.toSPD hpg hpos
  have hd : d ∉ W := fun h => absurd (hI.d_conj d h) (ne_of_gt hcurv)
  have hlt : W < W ⊔ K ∙ d := by
    refine lt_of_le_of_ne le_sup_left ?_
    intro h
    apply hd
    rw [h]
    exact self_mem_sup_span W d
  exact ⟨Submodule.finrank_lt_finrank_of_lt hlt, Submodule.finrank_le _⟩

theorem loop_exact (S : Sys V K) (hS : S.SPDP) [FiniteDimensional K V] (c : Ctrl K τ) (nreset : Int) (fuel : Nat)
    (E : QE V K) (r d : V) (pg : K) (ii : Int) (s : St τ) (ch md : List (QE V K)) (its : List (Iter K)) :
    ∀ (W : Submodule K V), E.Consistent S → r = E.grad → pg = S.ip r d → 0 < pg → ExactInv S W r d →
      its.length ≤ Module.finrank K W → Module.finrank K V ≤ fuel + its.length →
      (loop S c nreset fuel E r d pg ii s ch md its).reason ≠ .fuel ∧
      (loop S c nreset fuel E r d pg ii s ch md its).iters.length ≤ Module.finrank K V := by
  fun_induction loop S c nreset fuel E r d pg ii s ch md its
  case case1 =>
    intro W hE hr hpg hpos hI hk hfuel
    have := exact_dim hS hI hpg hpos
    omega
  case case2 fuel E r d pg ii s ch md its h =>
    intro W hE hr hpg hpos hI hk hfuel
    exact absurd h (ne_of_gt (spd_step_facts hS.toSPD hpg hpos).1)
  case case3 fuel E r d pg ii s ch md its _ h =>
    intro W hE hr hpg hpos hI hk hfuel
    exact absurd h (not_lt.2 (le_of_lt (spd_step_facts hS.toSPD hpg hpos).2))
  case case4 fuel E r d pg ii s ch md its hcurv halpha E' r' ii' hadv it h =>
    intro W hE hr hpg hpos hI hk hfuel
    exfalso
    by_cases h0 : r' = 0
    · rw [h0, ip_zero_left hS.bil] at h; exact lt_irrefl _ h
    · exact lt_asymm (hS.P_pos r' h0) h
  case case5 fuel E r d pg ii s ch md its hcurv halpha E' r' ii' hadv it hgam h =>
    intro W hE hr hpg hpos hI hk hfuel
    have := exact_dim hS hI hpg hpos
    refine ⟨by simp, ?_⟩
    simp only [List.length_append, List.length_singleton]
    omega
  case case6 fuel E r d pg ii s ch md its hcurv halpha E' r' ii' hadv it hgam hgz hchk =>
    intro W hE hr hpg hpos hI hk hfuel
    have := exact_dim hS hI hpg hpos
    refine ⟨by simp, ?_⟩
    simp only [List.length_append, List.length_singleton]
    omega
  case case7 fuel E r d pg ii s ch md its hcurv halpha E' r' ii' hadv it hgam hgz s1 status hchk hst =>
    intro W hE hr hpg hpos hI hk hfuel
    have := exact_dim hS hI hpg hpos
    refine ⟨by simp, ?_⟩
    simp only [List.length_append, List.length_singleton]
    omega
  case case8 fuel E r d pg ii s ch md its hcurv halpha E' r' ii' hadv it hg1 hg2 s1 status hchk hst ih =>
    intro W hE hr hpg hpos hI hk hfuel
    obtain ⟨hE', hr', _, hgrad'⟩ := advance_eq_spec S hS.lin hE hr hadv
    have hgpos : 0 < S.ip r' (precond S r') := lt_of_le_of_ne (not_lt.1 hg1) (Ne.symm hg2)
    have hdim := exact_dim hS hI hpg hpos
    have hbeta : 0 < S.ip r' (precond S r') / pg := div_pos hgpos hpos
    have hstep := exact_step hS hI hpg hpos (r' := r') (by rw [hr', hgrad'])
    obtain ⟨_, hrd⟩ := spd_advance_facts hS.toSPD hE hr hpg hpos hadv
    have hstep' : ExactInv S (W ⊔ K ∙ d) r'
        ((if 0 < S.ip r' (precond S r') / pg then S.ip r' (precond S r') / pg else 0) • d + precond S r') := by
      rw [if_pos hbeta]; exact hstep
    apply ih (W ⊔ K ∙ d) hE' hr' _ hgpos hstep'
    · simp only [List.length_append, List.length_singleton]; omega
    · simp only [List.length_append, List.length_singleton]; omega
    · rw [hS.bil.add_right, hS.bil.smul_right, hrd]; ring

/-- `cg` on an SPD system with linear self-adjoint preconditioner in an `n`-dimensional space, with at least `n`
    units of fuel: the loop ends by itself after at most `n` iterations -/
theorem cg_exact (S : Sys V K) (hS : S.SPDP) [FiniteDimensional K V] (c : Ctrl K τ) (nreset : Int) (fuel : Nat)
    (hfuel : Module.finrank K V ≤ fuel) (E : QE V K) (hE : E.Consistent S) :
    (cg S c nreset fuel E).reason ≠ .fuel ∧ (cg S c nreset fuel E).iters.length ≤ Module.finrank K V := by
  unfold cg
  split
  · exact ⟨by simp, by simp⟩
  · split
    · exact ⟨by simp, by simp⟩
    · dsimp only
      split
      · exact ⟨by simp, by simp⟩
      · rename_i hpg
        have hne : E.grad ≠ 0 := by
          intro h0; apply hpg; rw [h0, ip_zero_left hS.bil]
        exact loop_exact S hS c nreset fuel E E.grad (precond S E.grad) (S.ip E.grad (precond S E.grad)) 0 _ [E] [] []
          ⊥ hE rfl rfl (hS.P_pos _ hne) (exactInv_init hS _) (by simp) (by simpa using hfuel)

end NiftyVerif.CgClassic
