/-
  Invariant of the complete allreduce_sum protocol (collectives + point-to-point phase + collectives), built on the
  point-to-point invariant of Lemmas/Allreduce.lean.
-/
import NiftyVerif.Model.AllreduceFull
import NiftyVerif.Lemmas.Allreduce

namespace NiftyVerif.Allreduce

/-- the state is "collectives `pre'` still to do by everyone, remaining events `R`, collectives `post'`" -/
def FInv (p : Nat) (who : Nat → Nat) (E : List Ev) (init : Store) (total k : Nat) (st : FSt) : Prop :=
  ∃ (pre' : List Nat) (R : List Ev) (post' : List Nat),
    (∀ r, st.prog r = fullProg p who pre' post' R r) ∧
    (pre' ≠ [] → R = E) ∧
    execAll R st.store = execAll E init ∧
    pre'.length + R.length + post'.length + k = total ∧
    (∀ e ∈ R, e ∈ E)

theorem fullProg_ge {p who pre post R r} (h : ¬ r < p) : fullProg p who pre post R r = [] := by
  simp [fullProg, h]

theorem proj_nil_of_ge {p who} {R : List Ev} (hw : ∀ e ∈ R, who e.dst < p ∧ who e.src < p) {r : Nat} (h : ¬ r < p) :
    proj who r R = [] := by
  apply proj_nil_of_forall
  intro f hf
  rw [act_none_iff]
  have := hw f hf
  constructor <;> intro e <;> omega

/-- with no leading collectives, rank `r`'s program is its projection followed by the trailing collectives — for
    every `r` (ranks `≥ p` have an empty projection and no collectives) -/
theorem fullProg_nil_pre {p who post} {R : List Ev} (hw : ∀ e ∈ R, who e.dst < p ∧ who e.src < p) (r : Nat) :
    fullProg p who [] post R r = (proj who r R).map .p2p ++ (if r < p then post.map .coll else []) := by
  unfold fullProg
  by_cases h : r < p
  · simp [h]
  · simp [h, proj_nil_of_ge hw h]

/-- head analysis in the point-to-point phase -/
theorem head_p2p {who r a rest} {R : List Ev} {tail : List FAct}
    (h : (proj who r R).map FAct.p2p ++ tail = .p2p a :: rest) (ht : ∀ x ∈ tail.head?, ∃ t, x = FAct.coll t) :
    ∃ l, proj who r R = a :: l ∧ rest = l.map .p2p ++ tail := by
  cases hp : proj who r R with
  | nil =>
    rw [hp] at h
    simp only [List.map_nil, List.nil_append] at h
    rw [h] at ht
    obtain ⟨t, ht⟩ := ht (.p2p a) (by simp)
    cases ht
  | cons a' l =>
    rw [hp] at h
    simp only [List.map_cons, List.cons_append, List.cons.injEq, FAct.p2p.injEq] at h
    exact ⟨l, by rw [h.1], h.2.symm⟩

theorem coll_tail_head (p r : Nat) (post : List Nat) :
    ∀ x ∈ (if r < p then post.map FAct.coll else []).head?, ∃ t, x = FAct.coll t := by
  intro x hx
  by_cases h : r < p
  · simp only [h, if_true] at hx
    cases post with
    | nil => simp at hx
    | cons t post => simp at hx; exact ⟨t, hx.symm⟩
  · simp [h] at hx

theorem finv_init (p who pre post E init) :
    FInv p who E init (pre.length + E.length + post.length) 0 (fInit p who pre post E init) :=
  ⟨pre, E, post, fun _ => rfl, fun _ => rfl, rfl, rfl, fun _ h => h⟩

theorem R_nil_of_proj_nil {who} {R : List Ev} (h : ∀ r, proj who r R = []) : R = [] := by
  cases R with
  | nil => rfl
  | cons e R =>
    exfalso
    have hp := h (who e.dst)
    by_cases hh : who e.dst = who e.src
    · rw [proj_cons_some (act_dst hh)] at hp; cases hp
    · rw [proj_cons_some (act_dst' hh)] at hp; cases hp

/-- one point-to-point transition of the shadow system whose programs are exactly the projections of `R` -/
theorem proj_step {who} {R : List Ev} {store : Store} {st' : St}
    (hs : Step ⟨fun x => proj who x R, store⟩ st') :
    ∃ R', (∀ r, st'.prog r = proj who r R') ∧ execAll R' st'.store = execAll R store ∧
      R'.length + 1 = R.length ∧ (∀ e ∈ R', e ∈ R) := by
  have hinv : Inv who R store 0 ⟨fun x => proj who x R, store⟩ := ⟨R, fun _ => rfl, rfl, rfl, fun _ h => h⟩
  obtain ⟨R', h1, h2, h3, h4⟩ := inv_step hinv hs
  exact ⟨R', h1, h2, by omega, h4⟩

theorem finv_step {p who E init total k st st'} (hw : ∀ e ∈ E, who e.dst < p ∧ who e.src < p) (hp : 0 < p)
    (hinv : FInv p who E init total k st) (hs : FStep p st st') : FInv p who E init total (k + 1) st' := by
  obtain ⟨pre', R, post', hprog, hpre, hex, hlen, hsub⟩ := hinv
  have hwR : ∀ e ∈ R, who e.dst < p ∧ who e.src < p := fun e he => hw e (hsub e he)
  -- a point-to-point action at the head of some rank is impossible while leading collectives remain
  have no_pre : ∀ r a rest, st.prog r = .p2p a :: rest → pre' = [] := by
    intro r a rest h
    cases hpe : pre' with
    | nil => rfl
    | cons t pre'' =>
      exfalso
      rw [hprog r, hpe] at h
      unfold fullProg at h
      by_cases hr : r < p
      · simp [hr] at h
      · simp [hr] at h
  -- common end of the two point-to-point cases
  have finish : ∀ (R' : List Ev) (store' : Store) (prog' : Nat → List FAct), pre' = [] →
      (∀ x, prog' x = (proj who x R').map .p2p ++ (if x < p then post'.map .coll else [])) →
      execAll R' store' = execAll R st.store → R'.length + 1 = R.length → (∀ e ∈ R', e ∈ R) →
      FInv p who E init total (k + 1) ⟨prog', store'⟩ := by
    intro R' store' prog' hpe hpr' hex' hlen' hsub'
    subst hpe
    have hwR' : ∀ e ∈ R', who e.dst < p ∧ who e.src < p := fun e he => hwR e (hsub' e he)
    refine ⟨[], R', post', ?_, fun h => absurd rfl h, hex'.trans hex, ?_, fun e he => hsub e (hsub' e he)⟩
    · intro x; rw [fullProg_nil_pre hwR' x]; exact hpr' x
    · simp only [List.length_nil] at hlen ⊢; omega
  cases hs with
  | loc r e rest hpr =>
    have hpe := no_pre r _ _ hpr
    have hfp : ∀ x, st.prog x = (proj who x R).map .p2p ++ (if x < p then post'.map .coll else []) := by
      intro x; rw [hprog x, hpe]; exact fullProg_nil_pre hwR x
    obtain ⟨l, hl, hrest⟩ := head_p2p ((hfp r).symm.trans hpr) (coll_tail_head p r post')
    obtain ⟨R', h1, h2, h3, h4⟩ := proj_step (Step.loc ⟨fun x => proj who x R, st.store⟩ r e l hl)
    apply finish R' _ _ hpe _ h2 h3 h4
    intro x
    have hx := h1 x
    simp only [setProg] at hx
    simp only [setFProg]
    by_cases hxr : x = r
    · subst hxr; simp only [if_true] at hx ⊢; rw [hrest, hx]
    · simp only [hxr, if_false] at hx ⊢; rw [hfp x, hx]
  | rdv a b e e' ra rb hab ha hb =>
    have hpe := no_pre a _ _ ha
    have hfp : ∀ x, st.prog x = (proj who x R).map .p2p ++ (if x < p then post'.map .coll else []) := by
      intro x; rw [hprog x, hpe]; exact fullProg_nil_pre hwR x
    obtain ⟨la, hla, hra⟩ := head_p2p ((hfp a).symm.trans ha) (coll_tail_head p a post')
    obtain ⟨lb, hlb, hrb⟩ := head_p2p ((hfp b).symm.trans hb) (coll_tail_head p b post')
    obtain ⟨R', h1, h2, h3, h4⟩ := proj_step (Step.rdv ⟨fun x => proj who x R, st.store⟩ a b e e' la lb hab hla hlb)
    apply finish R' _ _ hpe _ h2 h3 h4
    intro x
    have hx := h1 x
    simp only [setProg] at hx
    simp only [setFProg]
    by_cases hxb : x = b
    · subst hxb; simp only [if_true] at hx ⊢; rw [hrb, hx]
    · by_cases hxa : x = a
      · subst hxa; simp only [hxb, if_false, if_true] at hx ⊢; rw [hra, hx]
      · simp only [hxa, hxb, if_false] at hx ⊢; rw [hfp x, hx]
  | coll t rests hall =>
    cases hpe : pre' with
    | cons t' pre'' =>
      have hrest : ∀ r, r < p → t = t' ∧ rests r = pre''.map .coll ++ (proj who r R).map .p2p ++ post'.map .coll := by
        intro r hr
        have := (hall r hr).symm.trans (hprog r)
        rw [hpe] at this
        simp only [fullProg, hr, if_true, List.map_cons, List.cons_append, List.cons.injEq, FAct.coll.injEq] at this
        exact ⟨this.1, this.2⟩
      refine ⟨pre'', R, post', ?_, fun _ => hpre (by rw [hpe]; simp), hex, ?_, hsub⟩
      · intro x
        by_cases hx : x < p
        · simp only [hx, if_true, (hrest x hx).2, fullProg]
        · simp only [hx, if_false, hprog x, fullProg]
      · rw [hpe] at hlen; simp only [List.length_cons] at hlen; omega
    | nil =>
      have hfp : ∀ x, st.prog x = (proj who x R).map .p2p ++ (if x < p then post'.map .coll else []) := by
        intro x; rw [hprog x, hpe]; exact fullProg_nil_pre hwR x
      have hnil : ∀ r, proj who r R = [] := by
        intro r
        by_cases hr : r < p
        · have := (hall r hr).symm.trans (hfp r)
          cases hpr : proj who r R with
          | nil => rfl
          | cons a l => rw [hpr] at this; simp at this
        · exact proj_nil_of_ge hwR hr
      have hR := R_nil_of_proj_nil hnil
      subst hR
      have h0 := (hall 0 hp).symm.trans (hfp 0)
      simp only [proj, List.filterMap_nil, List.map_nil, List.nil_append, hp, if_true] at h0
      cases hpo : post' with
      | nil => rw [hpo] at h0; simp at h0
      | cons t' post'' =>
        have hrest : ∀ r, r < p → rests r = post''.map .coll := by
          intro r hr
          have := (hall r hr).symm.trans (hfp r)
          rw [hpo] at this
          simp only [proj, List.filterMap_nil, List.map_nil, List.nil_append, hr, if_true, List.map_cons,
            List.cons.injEq] at this
          exact this.2
        refine ⟨[], [], post'', ?_, fun h => absurd rfl h, hex, ?_, hsub⟩
        · intro x
          by_cases hx : x < p
          · simp only [hx, if_true, hrest x hx, fullProg, proj, List.filterMap_nil, List.map_nil, List.nil_append]
          · simp only [hx, if_false, hprog x, fullProg]
        · rw [hpe, hpo] at hlen; simp only [List.length_cons, List.length_nil] at hlen ⊢; omega

theorem finv_reach {p who pre post E init k st} (hw : ∀ e ∈ E, who e.dst < p ∧ who e.src < p) (hp : 0 < p)
    (h : FReach p who pre post E init k st) : FInv p who E init (pre.length + E.length + post.length) k st := by
  induction h with
  | zero => exact finv_init p who pre post E init
  | succ _ hs ih => exact finv_step hw hp ih hs

/-- progress of the complete protocol -/
theorem finv_progress {p who E init total k st} (hw : ∀ e ∈ E, who e.dst < p ∧ who e.src < p) (_hp : 0 < p)
    (hinv : FInv p who E init total k st) (hne : ∃ r, st.prog r ≠ []) : ∃ st', FStep p st st' := by
  obtain ⟨pre', R, post', hprog, _, _, _, hsub⟩ := hinv
  have hwR : ∀ e ∈ R, who e.dst < p ∧ who e.src < p := fun e he => hw e (hsub e he)
  cases hpe : pre' with
  | cons t pre'' =>
    refine ⟨_, FStep.coll st t (fun r => pre''.map .coll ++ (proj who r R).map .p2p ++ post'.map .coll) ?_⟩
    intro r hr
    rw [hprog r, hpe]
    simp [fullProg, hr]
  | nil =>
    have hfp : ∀ x, st.prog x = (proj who x R).map .p2p ++ (if x < p then post'.map .coll else []) := by
      intro x; rw [hprog x, hpe]; exact fullProg_nil_pre hwR x
    cases R with
    | cons e R2 =>
      by_cases h : who e.dst = who e.src
      · have hq := hfp (who e.dst)
        rw [proj_cons_some (act_dst h)] at hq
        exact ⟨_, FStep.loc st _ e _ hq⟩
      · have hq := hfp (who e.dst)
        rw [proj_cons_some (act_dst' h)] at hq
        have hq2 := hfp (who e.src)
        rw [proj_cons_some (act_src' h)] at hq2
        exact ⟨_, FStep.rdv st _ _ e e _ _ h hq hq2⟩
    | nil =>
      cases hpo : post' with
      | nil =>
        exfalso
        obtain ⟨r, hr⟩ := hne
        apply hr
        rw [hfp r, hpo]
        simp [proj]
      | cons t post'' =>
        refine ⟨_, FStep.coll st t (fun _ => post''.map .coll) ?_⟩
        intro r hr
        rw [hfp r, hpo]
        simp [proj, hr]

theorem finv_final {p who E init total k st} (hw : ∀ e ∈ E, who e.dst < p ∧ who e.src < p) (hp : 0 < p)
    (hinv : FInv p who E init total k st) (hfin : ∀ r, st.prog r = []) :
    st.store = execAll E init ∧ k = total := by
  obtain ⟨pre', R, post', hprog, _, hex, hlen, hsub⟩ := hinv
  have hwR : ∀ e ∈ R, who e.dst < p ∧ who e.src < p := fun e he => hw e (hsub e he)
  have h0 := (hfin 0).symm.trans (hprog 0)
  simp only [fullProg, hp, if_true] at h0
  have h1 : pre' = [] := by
    cases pre' with
    | nil => rfl
    | cons t l => simp at h0
  subst h1
  have h2 : post' = [] := by
    cases post' with
    | nil => rfl
    | cons t l => simp at h0
  subst h2
  have hnil : ∀ r, proj who r R = [] := by
    intro r
    have := (hfin r).symm.trans ((hprog r).trans (fullProg_nil_pre hwR r))
    simp only [List.map_nil, ite_self, List.append_nil] at this
    exact List.map_eq_nil_iff.mp this.symm
  have hR := R_nil_of_proj_nil hnil
  subst hR
  exact ⟨hex, by simpa using hlen⟩

end NiftyVerif.Allreduce
