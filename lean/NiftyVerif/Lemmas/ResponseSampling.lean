/-
  Lemmas for C35 / nifty.re sampling LOS (Model/ResponseSampling.lean): `map_coordinates(order=1)` is exact on multi-affine
  fields inside the array, the midpoint rule is exact on affine functions, hence `_los` is exact on affine fields.
-/
import NiftyVerif.Model.ResponseSampling
import NiftyVerif.Lemmas.Response
import Mathlib.Algebra.Order.Floor.Ring
import Mathlib.Data.Rat.Floor

namespace NiftyVerif.ResponseSampling
open NiftyVerif Coo NiftyVerif.Response


/-- `Σ_j c_j p_j` -/
def dotL : List ℚ → List ℚ → ℚ
  | c :: cs, p :: ps => c * p + dotL cs ps
  | _, _ => 0

/-- an affine function of the index-space coordinates -/
def affL (c0 : ℚ) (cs p : List ℚ) : ℚ := c0 + dotL cs p

/-- midpoint of the segment in index space -/
def midV : List ℚ → List ℚ → List ℚ
  | s :: ss, e :: es => (s + e) / 2 :: midV ss es
  | _, _ => []

def constMA (a : ℚ) : (d : ℕ) → MultiAff ℚ d
  | 0 => .const a
  | d + 1 => .step (constMA a d) (constMA 0 d)

theorem constMA_eval (a : ℚ) : ∀ (d : ℕ) (p : List ℚ), (constMA a d).eval p = a
  | 0, _ => rfl
  | d + 1, [] => by simp only [constMA, MultiAff.eval]; exact constMA_eval a d []
  | d + 1, x :: xs => by
    simp only [constMA, MultiAff.eval, constMA_eval a d xs, constMA_eval 0 d xs]; ring

def affMA (c0 : ℚ) : (cs : List ℚ) → MultiAff ℚ cs.length
  | [] => .const c0
  | c :: cs => .step (affMA c0 cs) (constMA c cs.length)

theorem affMA_eval (c0 : ℚ) : ∀ (cs p : List ℚ), p.length = cs.length → (affMA c0 cs).eval p = affL c0 cs p
  | [], _, _ => by simp [affMA, MultiAff.eval, affL, dotL]
  | c :: cs, [], h => by simp at h
  | c :: cs, x :: xs, h => by
    have ih := affMA_eval c0 cs xs (by simpa using h)
    simp only [affMA, MultiAff.eval, ih, constMA_eval, affL, dotL]; ring

theorem corners_length : ∀ (d : ℕ) (e : List ℕ), e ∈ corners d → e.length = d
  | 0, e, h => by simp only [corners, List.mem_singleton] at h; subst h; rfl
  | d + 1, e, h => by
    simp only [corners, List.mem_append, List.mem_map] at h
    rcases h with ⟨e', he', rfl⟩ | ⟨e', he', rfl⟩ <;> simp [corners_length d e' he']

theorem addCornerI_cast : ∀ (b : List ℤ) (e : List ℕ),
    (addCornerI b e).map (fun i : ℤ => (i : ℚ)) = addCorner (b.map fun i : ℤ => (i : ℚ)) e
  | [], _ => by simp [addCornerI, addCorner]
  | _ :: _, [] => by simp [addCornerI, addCorner]
  | b :: bs, e :: es => by
    simp only [addCornerI, addCorner, List.map_cons, addCornerI_cast bs es]
    by_cases h : e = 0 <;> simp [h]

theorem addCornerI_length : ∀ (b : List ℤ) (e : List ℕ), b.length = e.length → (addCornerI b e).length = b.length
  | [], [], _ => rfl
  | [], _ :: _, h => by simp at h
  | _ :: _, [], h => by simp at h
  | b :: bs, e :: es, h => by simp only [addCornerI, List.length_cons, addCornerI_length bs es (by simpa using h)]

theorem addVec_floor : ∀ p : List ℚ,
    addVec ((p.map Rat.floor).map fun i : ℤ => (i : ℚ)) (p.map fun v => v - (Rat.floor v : ℚ)) = p
  | [] => rfl
  | v :: p => by simp only [List.map_cons, addVec, addVec_floor p]; congr 1; ring

/-- `map_coordinates(order=1)` reproduces every multi-affine field exactly inside the array -/
theorem mapCoord1_multiaff {d : ℕ} (f : MultiAff ℚ d) (shape : List ℕ) (x : List ℤ → ℚ) (p : List ℚ) (hp : p.length = d)
    (hv : validCell shape (p.map Rat.floor) = true)
    (hx : ∀ e ∈ corners d, x (addCornerI (p.map Rat.floor) e) = f.eval ((addCornerI (p.map Rat.floor) e).map fun i : ℤ => (i : ℚ))) :
    mapCoord1 shape x p = some (f.eval p) := by
  unfold mapCoord1
  simp only []
  rw [if_pos hv, hp]
  congr 1
  have hexc : ∀ ci ∈ p.map (fun v => v - (Rat.floor v : ℚ)), 0 ≤ ci ∧ ci ≤ 1 := by
    intro ci hci
    obtain ⟨v, _, rfl⟩ := List.mem_map.mp hci
    have h1 : ((⌊v⌋ : ℤ) : ℚ) ≤ v := Int.floor_le v
    have h2 : v < ((⌊v⌋ : ℤ) : ℚ) + 1 := Int.lt_floor_add_one v
    change 0 ≤ v - ((⌊v⌋ : ℤ) : ℚ) ∧ v - ((⌊v⌋ : ℤ) : ℚ) ≤ 1
    constructor <;> linarith
  have key := exact_multiaffine f ((p.map Rat.floor).map fun i : ℤ => (i : ℚ)) (p.map fun v => v - (Rat.floor v : ℚ))
    (by simp [hp]) (by simp [hp]) hexc
  rw [addVec_floor] at key
  rw [← key]
  refine sumL_map_congr _ _ _ ?_
  intro e he
  rw [hx e he, addCornerI_cast]

theorem sumL_range_succ (n : ℕ) (g : ℕ → ℚ) :
    sumL ((List.range (n + 1)).map g) = sumL ((List.range n).map g) + g n := by
  rw [List.range_succ, List.map_append, sumL_append]; simp [sumL]

theorem sum_half : ∀ n : ℕ, sumL ((List.range n).map fun k : ℕ => ((k : ℚ) + 1 / 2)) = (n : ℚ) ^ 2 / 2
  | 0 => by simp
  | n + 1 => by rw [sumL_range_succ, sum_half n]; push_cast; ring

theorem sum_const (n : ℕ) (a : ℚ) : sumL ((List.range n).map fun _ : ℕ => a) = (n : ℚ) * a := by
  induction n with
  | zero => simp
  | succ n ih => rw [sumL_range_succ, ih]; push_cast; ring

/-- the midpoint rule is exact for affine functions: `Σ_k g(pp_k) = n · g((start+end)/2)` -/
theorem midpoint_affine (n : ℕ) (hn : 0 < n) (c0 : ℚ) : ∀ (cs ss es : List ℚ),
    sumL ((List.range n).map fun k => affL c0 cs (samplePoint n k ss es)) = (n : ℚ) * affL c0 cs (midV ss es)
  | [], _, _ => by simp only [affL, dotL, add_zero]; exact sum_const n c0
  | _ :: _, [], _ => by simp only [samplePoint, midV, affL, dotL, add_zero]; exact sum_const n c0
  | _ :: _, _ :: _, [] => by simp only [samplePoint, midV, affL, dotL, add_zero]; exact sum_const n c0
  | c :: cs, s :: ss, e :: es => by
    have ih := midpoint_affine n hn c0 cs ss es
    have hn' : (n : ℚ) ≠ 0 := by exact_mod_cast (Nat.pos_iff_ne_zero.mp hn)
    have split : ∀ k : ℕ, affL c0 (c :: cs) (samplePoint n k (s :: ss) (e :: es)) =
        (c * s + c * ((e - s) / (n : ℚ)) * ((k : ℚ) + 1 / 2)) + affL c0 cs (samplePoint n k ss es) := by
      intro k; simp only [samplePoint, affL, dotL]; ring
    simp only [split]
    rw [sumL_map_add, ih, sumL_map_add, sum_const, sumL_map_mul_left, sum_half]
    simp only [midV, affL, dotL]
    field_simp
    ring

theorem sumOpt_some {α : Type} (f : α → Option ℚ) (g : α → ℚ) : ∀ l : List α, (∀ a ∈ l, f a = some (g a)) →
    sumOpt (l.map f) = some (sumL (l.map g))
  | [], _ => rfl
  | a :: l, h => by
    simp only [List.map_cons, h a List.mem_cons_self, sumOpt,
      sumOpt_some f g l (fun b hb => h b (List.mem_cons_of_mem _ hb)), Option.map_some, sumL]

theorem samplePoint_length (n k : ℕ) : ∀ ss es : List ℚ, ss.length = es.length → (samplePoint n k ss es).length = ss.length
  | [], [], _ => rfl
  | [], _ :: _, h => by simp at h
  | _ :: _, [], h => by simp at h
  | s :: ss, e :: es, h => by simp only [samplePoint, List.length_cons, samplePoint_length n k ss es (by simpa using h)]

/-- **nifty.re sampling LOS is exact on affine fields**: with all sampling points inside the array, the transcribed `_los`
    returns the field value at the midpoint of the segment (times `dist`, applied outside) -/
theorem samplingLos_exact_affine (shape : List ℕ) (dist : List ℚ) (c0 : ℚ) (cs : List ℚ) (start stop : List ℚ) (n : ℕ)
    (hn : 0 < n)
    (hl1 : (mulV start (l2i shape dist)).length = cs.length) (hl2 : (mulV stop (l2i shape dist)).length = cs.length)
    (hvalid : ∀ k, k < n → validCell shape
      ((samplePoint n k (mulV start (l2i shape dist)) (mulV stop (l2i shape dist))).map Rat.floor) = true) :
    samplingLos shape dist (fun idx => affL c0 cs (idx.map fun i : ℤ => (i : ℚ))) start stop n =
      some (affL c0 cs (midV (mulV start (l2i shape dist)) (mulV stop (l2i shape dist)))) := by
  unfold samplingLos
  simp only []
  have hpt : ∀ k ∈ List.range n,
      mapCoord1 shape (fun idx => affL c0 cs (idx.map fun i : ℤ => (i : ℚ)))
        (samplePoint n k (mulV start (l2i shape dist)) (mulV stop (l2i shape dist))) =
      some (affL c0 cs (samplePoint n k (mulV start (l2i shape dist)) (mulV stop (l2i shape dist)))) := by
    intro k hk
    have hlen : (samplePoint n k (mulV start (l2i shape dist)) (mulV stop (l2i shape dist))).length = cs.length := by
      rw [samplePoint_length n k _ _ (hl1.trans hl2.symm), hl1]
    rw [← affMA_eval c0 cs _ hlen]
    refine mapCoord1_multiaff (affMA c0 cs) shape _ _ hlen (hvalid k (List.mem_range.mp hk)) ?_
    intro e he
    rw [affMA_eval]
    rw [List.length_map, addCornerI_length _ _ (by rw [List.length_map, hlen, corners_length _ e he]), List.length_map, hlen]
  rw [sumOpt_some _ _ _ hpt, Option.map_some, midpoint_affine n hn]
  have hn' : (n : ℚ) ≠ 0 := by exact_mod_cast (Nat.pos_iff_ne_zero.mp hn)
  congr 1
  field_simp

end NiftyVerif.ResponseSampling
