/-
  Lemmas/HarmonicCoo.lean — connection of the spectator-index formulation (Tensor = Idx → K) with C02's generic
  COO model: the DFT/Hartley matrix as a `Coo`, and "apply along one axis of the flat row-major array" =
  `Coo.onAxis pre post` (Kronecker embedding 1_pre ⊗ M ⊗ 1_post).
-/
import NiftyVerif.Lemmas.LinOps
import NiftyVerif.Lemmas.HarmonicZero

namespace NiftyVerif.Harmonic
open Finset NiftyVerif

variable {K : Type} [CommRing K]

theorem sumL_range_eq (n : Nat) (f : Nat → K) : sumL ((List.range n).map f) = ∑ i ∈ range n, f i := by
  induction n with
  | zero => simp [sumL]
  | succ n ih =>
    rw [List.range_succ, List.map_append, sumL_append, ih, Finset.sum_range_succ]
    simp [sumL]

/-- an n×n matrix given by its entries, as a COO operator (dense rows) -/
def matCoo (n : Nat) (A : Nat → Nat → K) : Coo K :=
  Coo.ofRows n n (fun k => (List.range n).map fun j => (j, A k j))

/-- the unnormalised DFT matrix of the root `w` as a COO operator -/
def dftCoo (w : K) (n : Nat) : Coo K := matCoo n (dftMat w)
/-- the Hartley matrix as a COO operator -/
def hartleyCoo (s : Scal K) (w wb : K) (c : Bool) (n : Nat) : Coo K := matCoo n (hartleyMat s w wb c)

omit [CommRing K] in
theorem matCoo_rows (n : Nat) (A : Nat → Nat → K) : (matCoo n A).rows = n := rfl
omit [CommRing K] in
theorem matCoo_cols (n : Nat) (A : Nat → Nat → K) : (matCoo n A).cols = n := rfl

theorem matCoo_wf (n : Nat) (A : Nat → Nat → K) : (matCoo n A).wf = true := by
  unfold matCoo
  apply Coo.ofRows_wf
  intro r _ cw hcw
  simp only [List.mem_map, List.mem_range] at hcw
  obtain ⟨j, hj, rfl⟩ := hcw
  exact hj

theorem apply_matCoo (n : Nat) (A : Nat → Nat → K) (x : Nat → K) (r : Nat) (hr : r < n) :
    Coo.apply (matCoo n A) x r = ∑ j ∈ range n, A r j * x j := by
  unfold matCoo
  rw [Coo.apply_ofRows, if_pos hr, List.map_map, ← sumL_range_eq]
  rfl

/-- row-major flat array viewed as a tensor over (p, j1, j2, j3, q) -/
def flatTensor (n1 n2 n3 Q : Nat) (x : Nat → K) : Tensor K :=
  fun i => x ((((i.p * n1 + i.j1) * n2 + i.j2) * n3 + i.j3) * Q + i.q)

theorem lt_mul_add (a n P r : Nat) (ha : a < P) (hr : r < n) : a * n + r < P * n := by
  have : (a + 1) * n ≤ P * n := Nat.mul_le_mul_right n ha
  have e : (a + 1) * n = a * n + n := by ring
  omega

/-- axis 1 of the flat array: `onAxis P (n2·n3·Q)` -/
theorem axis1_onAxis (P n1 n2 n3 Q : Nat) (A : Nat → Nat → K) (x : Nat → K) (a r j2 j3 b : Nat)
    (ha : a < P) (hr : r < n1) (h2 : j2 < n2) (h3 : j3 < n3) (hb : b < Q) :
    axG L1 n1 A (flatTensor n1 n2 n3 Q x) ⟨a, r, j2, j3, b⟩
      = Coo.apply (Coo.onAxis P (n2 * n3 * Q) (matCoo n1 A)) x ((((a * n1 + r) * n2 + j2) * n3 + j3) * Q + b) := by
  have hb' : (j2 * n3 + j3) * Q + b < n2 * n3 * Q := lt_mul_add _ Q _ b (lt_mul_add j2 n3 n2 j3 h2 h3) hb
  have e : (((a * n1 + r) * n2 + j2) * n3 + j3) * Q + b
      = (a * (matCoo n1 A).rows + r) * (n2 * n3 * Q) + ((j2 * n3 + j3) * Q + b) := by
    rw [matCoo_rows]; ring
  rw [e, NiftyVerif.apply_onAxis P (n2 * n3 * Q) (matCoo n1 A) (matCoo_wf n1 A) x a r _ ha (by rw [matCoo_rows]; exact hr) hb',
    apply_matCoo n1 A _ r hr]
  unfold axG flatTensor
  simp only [L1, Idx.set1, matCoo_cols]
  refine Finset.sum_congr rfl (fun j _ => ?_)
  congr 2
  ring

/-- axis 2 of the flat array: `onAxis (P·n1) (n3·Q)` -/
theorem axis2_onAxis (P n1 n2 n3 Q : Nat) (A : Nat → Nat → K) (x : Nat → K) (a j1 r j3 b : Nat)
    (ha : a < P) (h1 : j1 < n1) (hr : r < n2) (h3 : j3 < n3) (hb : b < Q) :
    axG L2 n2 A (flatTensor n1 n2 n3 Q x) ⟨a, j1, r, j3, b⟩
      = Coo.apply (Coo.onAxis (P * n1) (n3 * Q) (matCoo n2 A)) x ((((a * n1 + j1) * n2 + r) * n3 + j3) * Q + b) := by
  have ha' : a * n1 + j1 < P * n1 := lt_mul_add a n1 P j1 ha h1
  have hb' : j3 * Q + b < n3 * Q := lt_mul_add j3 Q n3 b h3 hb
  have e : (((a * n1 + j1) * n2 + r) * n3 + j3) * Q + b
      = ((a * n1 + j1) * (matCoo n2 A).rows + r) * (n3 * Q) + (j3 * Q + b) := by
    rw [matCoo_rows]; ring
  rw [e, NiftyVerif.apply_onAxis (P * n1) (n3 * Q) (matCoo n2 A) (matCoo_wf n2 A) x _ r _ ha' (by rw [matCoo_rows]; exact hr) hb',
    apply_matCoo n2 A _ r hr]
  unfold axG flatTensor
  simp only [L2, Idx.set2, matCoo_cols]
  refine Finset.sum_congr rfl (fun j _ => ?_)
  congr 2
  ring

/-- axis 3 of the flat array: `onAxis (P·n1·n2) Q` -/
theorem axis3_onAxis (P n1 n2 n3 Q : Nat) (A : Nat → Nat → K) (x : Nat → K) (a j1 j2 r b : Nat)
    (ha : a < P) (h1 : j1 < n1) (h2 : j2 < n2) (hr : r < n3) (hb : b < Q) :
    axG L3 n3 A (flatTensor n1 n2 n3 Q x) ⟨a, j1, j2, r, b⟩
      = Coo.apply (Coo.onAxis (P * n1 * n2) Q (matCoo n3 A)) x ((((a * n1 + j1) * n2 + j2) * n3 + r) * Q + b) := by
  have ha' : (a * n1 + j1) * n2 + j2 < P * n1 * n2 := lt_mul_add _ n2 _ j2 (lt_mul_add a n1 P j1 ha h1) h2
  have e : (((a * n1 + j1) * n2 + j2) * n3 + r) * Q + b
      = (((a * n1 + j1) * n2 + j2) * (matCoo n3 A).rows + r) * Q + b := by
    rw [matCoo_rows]
  rw [e, NiftyVerif.apply_onAxis (P * n1 * n2) Q (matCoo n3 A) (matCoo_wf n3 A) x _ r b ha' (by rw [matCoo_rows]; exact hr) hb,
    apply_matCoo n3 A _ r hr]
  unfold axG flatTensor
  simp only [L3, Idx.set3, matCoo_cols]

/-- an axis application only reads its input along that axis inside the range -/
theorem axG_congr (L : Lens) (n : Nat) (A : Nat → Nat → K) (x y : Tensor K) (i : Idx)
    (h : ∀ j, j < n → x (L.set i j) = y (L.set i j)) : axG L n A x i = axG L n A y i := by
  unfold axG
  exact Finset.sum_congr rfl (fun j hj => by rw [h j (mem_range.mp hj)])

/-- the three-axis transform of a flat row-major array is the composition of three Kronecker embeddings -/
theorem tr3_onAxis (P n1 n2 n3 Q : Nat) (A1 A2 A3 : Nat → Nat → K) (x : Nat → K) (a j1 j2 j3 b : Nat)
    (ha : a < P) (h1 : j1 < n1) (h2 : j2 < n2) (h3 : j3 < n3) (hb : b < Q) :
    tr3 n1 n2 n3 A1 A2 A3 (flatTensor n1 n2 n3 Q x) ⟨a, j1, j2, j3, b⟩
      = Coo.apply (Coo.onAxis (P * n1 * n2) Q (matCoo n3 A3))
          (Coo.apply (Coo.onAxis (P * n1) (n3 * Q) (matCoo n2 A2))
            (Coo.apply (Coo.onAxis P (n2 * n3 * Q) (matCoo n1 A1)) x))
          ((((a * n1 + j1) * n2 + j2) * n3 + j3) * Q + b) := by
  unfold tr3
  -- stage 1 agrees with the flat embedding of the first onAxis result on the box
  have s1 : ∀ i : Idx, i.p < P → i.j1 < n1 → i.j2 < n2 → i.j3 < n3 → i.q < Q →
      axG L1 n1 A1 (flatTensor n1 n2 n3 Q x) i
        = flatTensor n1 n2 n3 Q (Coo.apply (Coo.onAxis P (n2 * n3 * Q) (matCoo n1 A1)) x) i := by
    intro i hp hj1 hj2 hj3 hq
    obtain ⟨p, i1, i2, i3, q⟩ := i
    exact axis1_onAxis P n1 n2 n3 Q A1 x p i1 i2 i3 q hp hj1 hj2 hj3 hq
  have s2 : ∀ i : Idx, i.p < P → i.j1 < n1 → i.j2 < n2 → i.j3 < n3 → i.q < Q →
      axG L2 n2 A2 (axG L1 n1 A1 (flatTensor n1 n2 n3 Q x)) i
        = flatTensor n1 n2 n3 Q (Coo.apply (Coo.onAxis (P * n1) (n3 * Q) (matCoo n2 A2))
            (Coo.apply (Coo.onAxis P (n2 * n3 * Q) (matCoo n1 A1)) x)) i := by
    intro i hp hj1 hj2 hj3 hq
    rw [axG_congr L2 n2 A2 _ _ i (fun j hj => s1 (L2.set i j) hp hj1 hj hj3 hq)]
    obtain ⟨p, i1, i2, i3, q⟩ := i
    exact axis2_onAxis P n1 n2 n3 Q A2 _ p i1 i2 i3 q hp hj1 hj2 hj3 hq
  rw [axG_congr L3 n3 A3 _ _ ⟨a, j1, j2, j3, b⟩ (fun j hj => s2 (L3.set ⟨a, j1, j2, j3, b⟩ j) ha h1 h2 hj hb)]
  exact axis3_onAxis P n1 n2 n3 Q A3 _ a j1 j2 j3 b ha h1 h2 h3 hb

end NiftyVerif.Harmonic
