/-
  Helper lemmas about `Priors.interp` / `Priors.interpFrom` (piecewise-linear interpolation over a sorted node list)
  over an arbitrary linearly ordered field.  Used by Props/C30.lean.
-/
import NiftyVerif.Model.Priors
import Mathlib.Algebra.Order.Field.Basic
import Mathlib.Tactic.Linarith
import Mathlib.Tactic.Positivity
import Mathlib.Tactic.FieldSimp
import Mathlib.Tactic.Ring

namespace NiftyVerif.Priors

set_option linter.unusedSectionVars false

variable {K : Type} [Field K] [LinearOrder K] [IsStrictOrderedRing K]

/-- the node list `a :: l` has strictly increasing abscissae and (weakly) increasing ordinates -/
def Inc : K × K → List (K × K) → Prop
  | _, [] => True
  | a, b :: l => a.1 < b.1 ∧ a.2 ≤ b.2 ∧ Inc b l

/-- the node list `a :: l` has strictly increasing abscissae and strictly increasing ordinates -/
def StrictInc : K × K → List (K × K) → Prop
  | _, [] => True
  | a, b :: l => a.1 < b.1 ∧ a.2 < b.2 ∧ StrictInc b l

theorem StrictInc.inc : ∀ {a : K × K} {l : List (K × K)}, StrictInc a l → Inc a l
  | _, [], _ => trivial
  | _, _ :: _, ⟨h1, h2, h3⟩ => ⟨h1, le_of_lt h2, StrictInc.inc h3⟩

/-- last abscissa / ordinate of the node list `a :: l` -/
def lastNode : K × K → List (K × K) → K × K
  | a, [] => a
  | _, b :: l => lastNode b l

/-- `(a, b)` are neighbouring nodes of the list `n0 :: rest` -/
def Neighbours (a b : K × K) : K × K → List (K × K) → Prop
  | _, [] => False
  | n0, n1 :: l => (a = n0 ∧ b = n1) ∨ Neighbours a b n1 l

/-- the linear piece between two nodes -/
theorem piece_bounds {x0 y0 x1 y1 x : K} (hx : x0 < x1) (hy : y0 ≤ y1) (h0 : x0 ≤ x) (h1 : x ≤ x1) :
    y0 ≤ y0 + (x - x0) / (x1 - x0) * (y1 - y0) ∧ y0 + (x - x0) / (x1 - x0) * (y1 - y0) ≤ y1 := by
  have hd : 0 < x1 - x0 := sub_pos.mpr hx
  have ht0 : 0 ≤ (x - x0) / (x1 - x0) := div_nonneg (sub_nonneg.mpr h0) hd.le
  have ht1 : (x - x0) / (x1 - x0) ≤ 1 := (div_le_one hd).mpr (by linarith)
  have hdy : 0 ≤ y1 - y0 := sub_nonneg.mpr hy
  constructor
  · nlinarith [mul_nonneg ht0 hdy]
  · nlinarith [mul_nonneg (sub_nonneg.mpr ht1) hdy]

theorem piece_mono {x0 y0 x1 y1 x x' : K} (hx : x0 < x1) (hy : y0 ≤ y1) (h : x ≤ x') :
    y0 + (x - x0) / (x1 - x0) * (y1 - y0) ≤ y0 + (x' - x0) / (x1 - x0) * (y1 - y0) := by
  have hd : 0 < x1 - x0 := sub_pos.mpr hx
  have hdy : 0 ≤ y1 - y0 := sub_nonneg.mpr hy
  have : (x - x0) / (x1 - x0) ≤ (x' - x0) / (x1 - x0) := by
    apply div_le_div_of_nonneg_right _ hd.le; linarith
  nlinarith [mul_le_mul_of_nonneg_right this hdy]

theorem piece_strictMono {x0 y0 x1 y1 x x' : K} (hx : x0 < x1) (hy : y0 < y1) (h : x < x') :
    y0 + (x - x0) / (x1 - x0) * (y1 - y0) < y0 + (x' - x0) / (x1 - x0) * (y1 - y0) := by
  have hd : 0 < x1 - x0 := sub_pos.mpr hx
  have hdy : 0 < y1 - y0 := sub_pos.mpr hy
  have : (x - x0) / (x1 - x0) < (x' - x0) / (x1 - x0) := by
    apply div_lt_div_of_pos_right _ hd; linarith
  nlinarith [mul_lt_mul_of_pos_right this hdy]

theorem piece_left {x0 y0 x1 y1 : K} : y0 + (x0 - x0) / (x1 - x0) * (y1 - y0) = y0 := by
  simp

theorem piece_right {x0 y0 x1 y1 : K} (hx : x0 < x1) : y0 + (x1 - x0) / (x1 - x0) * (y1 - y0) = y1 := by
  have hd : x1 - x0 ≠ 0 := (sub_pos.mpr hx).ne'
  rw [div_self hd]; ring

/-- to the right of the left node the walk stays above the left ordinate -/
theorem interpFrom_ge (x : K) : ∀ (x0 y0 : K) (l : List (K × K)), Inc (x0, y0) l → x0 ≤ x →
    y0 ≤ interpFrom x x0 y0 l
  | _, _, [], _, _ => le_refl _
  | x0, y0, (x1, y1) :: l, ⟨h1, h2, h3⟩, hx => by
    simp only [interpFrom]
    split
    · rename_i hlt; exact (piece_bounds h1 h2 hx hlt.le).1
    · rename_i hge
      exact le_trans h2 (interpFrom_ge x x1 y1 l h3 (not_lt.mp hge))

/-- the walk never exceeds the last ordinate -/
theorem interpFrom_le_last (x : K) : ∀ (x0 y0 : K) (l : List (K × K)), Inc (x0, y0) l → x0 ≤ x →
    interpFrom x x0 y0 l ≤ (lastNode (x0, y0) l).2
  | _, _, [], _, _ => le_refl _
  | x0, y0, (x1, y1) :: l, ⟨h1, h2, h3⟩, hx => by
    simp only [interpFrom, lastNode]
    split
    · rename_i hlt
      refine le_trans (piece_bounds h1 h2 hx hlt.le).2 ?_
      have := interpFrom_ge x1 x1 y1 l h3 (le_refl _)
      exact le_trans this (interpFrom_le_last x1 x1 y1 l h3 (le_refl _))
    · rename_i hge
      exact interpFrom_le_last x x1 y1 l h3 (not_lt.mp hge)

/-- the walk is monotone in the query point -/
theorem interpFrom_mono {x x' : K} (hxx : x ≤ x') : ∀ (x0 y0 : K) (l : List (K × K)), Inc (x0, y0) l → x0 ≤ x →
    interpFrom x x0 y0 l ≤ interpFrom x' x0 y0 l
  | _, _, [], _, _ => le_refl _
  | x0, y0, (x1, y1) :: l, ⟨h1, h2, h3⟩, hx => by
    simp only [interpFrom]
    by_cases ha : x < x1
    · by_cases hb : x' < x1
      · simp only [ha, hb, if_true]; exact piece_mono h1 h2 hxx
      · simp only [ha, hb, if_true, if_false]
        exact le_trans (piece_bounds h1 h2 hx ha.le).2 (interpFrom_ge x' x1 y1 l h3 (not_lt.mp hb))
    · have hb : ¬ x' < x1 := fun h => ha (lt_of_le_of_lt hxx h)
      simp only [ha, hb, if_false]
      exact interpFrom_mono hxx x1 y1 l h3 (not_lt.mp ha)

/-- strictly increasing tables give a strictly increasing walk up to the last abscissa -/
theorem interpFrom_strictMono {x x' : K} (hxx : x < x') : ∀ (x0 y0 : K) (l : List (K × K)), StrictInc (x0, y0) l →
    x0 ≤ x → x' ≤ (lastNode (x0, y0) l).1 → interpFrom x x0 y0 l < interpFrom x' x0 y0 l
  | x0, _, [], _, hx, hl => by
    simp only [lastNode] at hl; exact absurd (lt_of_le_of_lt hx hxx) (not_lt.mpr hl)
  | x0, y0, (x1, y1) :: l, ⟨h1, h2, h3⟩, hx, hl => by
    simp only [interpFrom]
    simp only [lastNode] at hl
    by_cases ha : x < x1
    · by_cases hb : x' < x1
      · simp only [ha, hb, if_true]; exact piece_strictMono h1 h2 hxx
      · simp only [ha, hb, if_true, if_false]
        have hp : y0 + (x - x0) / (x1 - x0) * (y1 - y0) < y1 := by
          have := piece_strictMono (x := x) (x' := x1) h1 h2 ha
          rwa [piece_right h1] at this
        exact lt_of_lt_of_le hp (interpFrom_ge x' x1 y1 l h3.inc (not_lt.mp hb))
    · have hb : ¬ x' < x1 := fun h => ha (lt_trans hxx h)
      simp only [ha, hb, if_false]
      exact interpFrom_strictMono hxx x1 y1 l h3 (not_lt.mp ha) hl

/-- exactness of the walk at its left node -/
theorem interpFrom_left : ∀ (x0 y0 : K) (l : List (K × K)), Inc (x0, y0) l → interpFrom x0 x0 y0 l = y0
  | _, _, [], _ => rfl
  | x0, y0, (x1, y1) :: l, ⟨h1, _, _⟩ => by
    simp only [interpFrom, h1, if_true]; exact piece_left

/-- the left one of two neighbouring nodes is not left of the head of the list -/
theorem neighbours_left_ge {a b : K × K} : ∀ (n0 : K × K) (l : List (K × K)), Inc n0 l → Neighbours a b n0 l →
    n0.1 ≤ a.1
  | _, [], _, hn => absurd hn (by simp [Neighbours])
  | _, n1 :: l, ⟨h1, _, h3⟩, hn => by
    rcases hn with ⟨rfl, _⟩ | hn
    · exact le_refl _
    · exact le_trans h1.le (neighbours_left_ge n1 l h3 hn)

/-- between two neighbouring nodes the walk takes the value of the linear piece -/
theorem interpFrom_neighbours {a b : K × K} {x : K} : ∀ (x0 y0 : K) (l : List (K × K)), Inc (x0, y0) l →
    Neighbours a b (x0, y0) l → a.1 ≤ x → x < b.1 →
    interpFrom x x0 y0 l = a.2 + (x - a.1) / (b.1 - a.1) * (b.2 - a.2)
  | _, _, [], _, hn, _, _ => absurd hn (by simp [Neighbours])
  | x0, y0, (x1, y1) :: l, ⟨h1, _, h3⟩, hn, hax, hxb => by
    simp only [interpFrom]
    rcases hn with ⟨rfl, rfl⟩ | hn
    · simp only [hxb, if_true]
    · -- the pair lies further right: a.1 ≥ x1
      have hge : x1 ≤ a.1 := neighbours_left_ge (x1, y1) l h3 hn
      have : ¬ x < x1 := not_lt.mpr (le_trans hge hax)
      simp only [this, if_false]
      exact interpFrom_neighbours x1 y1 l h3 hn hax hxb

/-- neighbouring nodes of an increasing table are themselves increasing -/
theorem neighbours_inc {a b : K × K} : ∀ (n0 : K × K) (l : List (K × K)), Inc n0 l → Neighbours a b n0 l →
    a.1 < b.1 ∧ a.2 ≤ b.2
  | _, [], _, hn => absurd hn (by simp [Neighbours])
  | _, n1 :: l, ⟨h1, h2, h3⟩, hn => by
    rcases hn with ⟨rfl, rfl⟩ | hn
    · exact ⟨h1, h2⟩
    · exact neighbours_inc n1 l h3 hn

/-- the walk evaluated at the right one of two neighbouring nodes gives that node's ordinate -/
theorem interpFrom_right_node {a b : K × K} : ∀ (x0 y0 : K) (l : List (K × K)), Inc (x0, y0) l →
    Neighbours a b (x0, y0) l → interpFrom b.1 x0 y0 l = b.2
  | _, _, [], _, hn => absurd hn (by simp [Neighbours])
  | x0, y0, (x1, y1) :: l, ⟨h1, _, h3⟩, hn => by
    simp only [interpFrom]
    rcases hn with ⟨rfl, rfl⟩ | hn
    · simp only [lt_irrefl, if_false]; exact interpFrom_left _ _ l h3
    · have hlt := (neighbours_inc (x1, y1) l h3 hn).1
      have hge : x1 ≤ a.1 := neighbours_left_ge (x1, y1) l h3 hn
      have : ¬ b.1 < x1 := not_lt.mpr (le_trans hge hlt.le)
      simp only [this, if_false]
      exact interpFrom_right_node x1 y1 l h3 hn

/-- walking the exchanged table at the value of the walk returns the query point (strictly increasing table,
    query between the left node and the last abscissa) -/
theorem interpFrom_inverse (x : K) : ∀ (x0 y0 : K) (l : List (K × K)), StrictInc (x0, y0) l → x0 ≤ x →
    x ≤ (lastNode (x0, y0) l).1 → interpFrom (interpFrom x x0 y0 l) y0 x0 (swapNodes l) = x
  | x0, y0, [], _, hx, hl => by
    simp only [lastNode] at hl
    simp only [interpFrom, swapNodes, List.map_nil]; exact le_antisymm hx hl
  | x0, y0, (x1, y1) :: l, ⟨h1, h2, h3⟩, hx, hl => by
    simp only [lastNode] at hl
    simp only [interpFrom, swapNodes, List.map_cons]
    by_cases ha : x < x1
    · simp only [ha, if_true]
      have hv : y0 + (x - x0) / (x1 - x0) * (y1 - y0) < y1 := by
        have := piece_strictMono (x := x) (x' := x1) h1 h2 ha
        rwa [piece_right h1] at this
      simp only [hv, if_true]
      have hd : x1 - x0 ≠ 0 := (sub_pos.mpr h1).ne'
      have hdy : y1 - y0 ≠ 0 := (sub_pos.mpr h2).ne'
      field_simp; ring
    · simp only [ha, if_false]
      have hv : ¬ interpFrom x x1 y1 l < y1 := not_lt.mpr (interpFrom_ge x x1 y1 l h3.inc (not_lt.mp ha))
      simp only [hv, if_false]
      exact interpFrom_inverse x x1 y1 l h3 (not_lt.mp ha) hl

/-- adding a constant to every ordinate adds it to the walk -/
theorem interpFrom_shift (c x : K) : ∀ (x0 y0 : K) (l : List (K × K)),
    interpFrom x x0 (y0 + c) (l.map fun p => (p.1, p.2 + c)) = interpFrom x x0 y0 l + c
  | _, _, [] => rfl
  | x0, y0, (x1, y1) :: l => by
    simp only [interpFrom, List.map_cons]
    split
    · ring
    · exact interpFrom_shift c x x1 y1 l

theorem StrictInc.shift (c : K) : ∀ {a : K × K} {l : List (K × K)}, StrictInc a l →
    StrictInc (a.1, a.2 + c) (l.map fun p => (p.1, p.2 + c))
  | _, [], _ => trivial
  | _, _ :: _, ⟨h1, h2, h3⟩ => ⟨h1, by simpa using h2, StrictInc.shift c h3⟩

theorem lastNode_shift (c : K) : ∀ (a : K × K) (l : List (K × K)),
    (lastNode (a.1, a.2 + c) (l.map fun p => (p.1, p.2 + c))).1 = (lastNode a l).1
  | _, [] => rfl
  | _, b :: l => by simp only [List.map_cons, lastNode]; exact lastNode_shift c b l

/-- strictly increasing list of abscissae `x0 :: xs` -/
def SortedLt : K → List K → Prop
  | _, [] => True
  | a, b :: l => a < b ∧ SortedLt b l

/-- the table of a monotone function over strictly increasing abscissae is an increasing node list -/
theorem inc_mkTable {f : K → K} (hf : Monotone f) : ∀ (x0 : K) (xs : List K), SortedLt x0 xs →
    Inc (x0, f x0) (mkTable f xs)
  | _, [], _ => trivial
  | x0, x1 :: l, ⟨h1, h2⟩ => ⟨h1, hf h1.le, inc_mkTable hf x1 l h2⟩

/-- … and of a strictly monotone function a strictly increasing one -/
theorem strictInc_mkTable {f : K → K} (hf : StrictMono f) : ∀ (x0 : K) (xs : List K), SortedLt x0 xs →
    StrictInc (x0, f x0) (mkTable f xs)
  | _, [], _ => trivial
  | x0, x1 :: l, ⟨h1, h2⟩ => ⟨h1, hf h1, strictInc_mkTable hf x1 l h2⟩

end NiftyVerif.Priors
