/-
  Lemmas for C35 / LOS, part 3: tying the walk to the two executable models — `traverseFrom` (transcription of the code)
  and `losSeg` (independent segment model): same sorted crossing list, same pixels, same weights.
-/
import NiftyVerif.Lemmas.ResponseLos2
import Mathlib.Data.List.Sort

namespace NiftyVerif.ResponseLos
open NiftyVerif Coo NiftyVerif.Response

/-- `direction = end − start` as the code forms it -/
def dirOf (s e : List ℚ) : List ℚ := (s.zip e).map fun se => se.2 - se.1

/-! #### the code side: `zip (cumsum …) (diff …)` is the walk -/

theorem zip_cumsum_diffs : ∀ (T : List (ℚ × ℤ)) (q : ℤ) (a hi : ℚ),
    (cumsum q (T.map Prod.snd)).zip (diffs ([a] ++ T.map Prod.fst ++ [hi])) = walkT q a T hi
  | [], q, a, hi => by simp [cumsum, diffs, walkT]
  | e :: T, q, a, hi => by
    have ih := zip_cumsum_diffs T (q + e.2) e.1 hi
    simp only [List.cons_append, List.nil_append] at ih
    simp only [List.map_cons, cumsum, List.cons_append, List.nil_append, diffs, List.zip_cons_cons,
      walkT, ih]

theorem truncQ_of_nonneg (x : ℚ) (h : 0 ≤ x) : truncQ x = ⌊x⌋ := by
  unfold truncQ; rw [if_neg (not_lt.mpr h)]; rfl

theorem pos1A_eq_flatF (lo : ℚ) : ∀ ax : List Axis, (∀ a ∈ ax, 0 ≤ a.2.1 + lo * a.2.2) → pos1A lo ax = flatF lo ax
  | [], _ => rfl
  | a :: ax, h => by
    simp only [pos1A, flatF]
    rw [truncQ_of_nonneg _ (h a List.mem_cons_self), pos1A_eq_flatF lo ax (fun b hb => h b (List.mem_cons_of_mem _ hb))]

/-! #### the independent side -/

/-- the walk with an arbitrary pixel function evaluated at the midpoints -/
def walkG (f : ℚ → ℤ) : ℚ → List ℚ → ℚ → List (ℤ × ℚ)
  | a, [], hi => [(f ((a + hi) / 2), hi - a)]
  | a, t :: T, hi => (f ((a + t) / 2), t - a) :: walkG f t T hi

theorem walkF_eq_walkG (ax : List Axis) : ∀ (L : List ℚ) (a hi : ℚ), walkF ax a L hi = walkG (fun t => flatF t ax) a L hi
  | [], _, _ => rfl
  | t :: L, a, hi => by simp only [walkF, walkG, walkF_eq_walkG ax L t hi]

theorem walkG_congr (f g : ℚ → ℤ) (lo hi : ℚ) (h : ∀ t, lo ≤ t → t ≤ hi → f t = g t) :
    ∀ (L : List ℚ) (a : ℚ), lo ≤ a → a ≤ hi → lo ≤ hi → (∀ t ∈ L, lo ≤ t ∧ t ≤ hi) → walkG f a L hi = walkG g a L hi
  | [], a, h1, h2, h3, _ => by
    simp only [walkG]; rw [h _ (by linarith) (by linarith)]
  | t :: L, a, h1, h2, h3, hL => by
    have ht := hL t List.mem_cons_self
    simp only [walkG]
    rw [h _ (by linarith [ht.1]) (by linarith [ht.2]),
      walkG_congr f g lo hi h L t ht.1 ht.2 h3 (fun u hu => hL u (List.mem_cons_of_mem _ hu))]

theorem intervals_map_walkG (f : ℚ → ℤ) : ∀ (L : List ℚ) (a hi : ℚ),
    (intervals ([a] ++ L ++ [hi])).map (fun ab => (f ((ab.1 + ab.2) / 2), ab.2 - ab.1)) = walkG f a L hi
  | [], a, hi => by simp [intervals, walkG]
  | t :: L, a, hi => by
    have ih := intervals_map_walkG f L t hi
    simp only [List.cons_append, List.nil_append] at ih
    simp only [List.cons_append, List.nil_append, intervals, List.map_cons, walkG, ih]

/-- pixel of the point at parameter `t` as the independent model computes it (`ravel` of the floored coordinates) -/
def pixF (shape : List ℕ) (s e : List ℚ) (t : ℚ) : ℤ :=
  ((ravel shape ((s.zip e).map fun se => (se.1 + t * (se.2 - se.1)).floor.toNat) : ℕ) : ℤ)

theorem pixF_eq_flatF (t : ℚ) : ∀ (sh : List ℕ) (ss es : List ℚ), (∀ se ∈ ss.zip es, 0 ≤ se.1 + t * (se.2 - se.1)) →
    pixF sh ss es t = flatF t (axes sh ss (dirOf ss es))
  | [], _, _, _ => by simp [pixF, ravel, axes, flatF]
  | _ :: _, [], _, _ => by simp [pixF, ravel, axes, flatF]
  | _ :: _, _ :: _, [], _ => by simp [pixF, ravel, axes, flatF, dirOf]
  | n :: sh, s :: ss, e :: es, h => by
    have ih := pixF_eq_flatF t sh ss es (fun se hse => h se (by simp only [List.zip_cons_cons]; exact List.mem_cons_of_mem _ hse))
    have h0 : 0 ≤ s + t * (e - s) := h (s, e) (by simp)
    have hfl : ((⌊s + t * (e - s)⌋.toNat : ℕ) : ℤ) = ⌊s + t * (e - s)⌋ := Int.toNat_of_nonneg (Int.floor_nonneg.mpr h0)
    unfold pixF at ih ⊢
    simp only [List.zip_cons_cons, List.map_cons, ravel, dirOf, axes, flatF, ratFloor_eq] at ih ⊢
    push_cast
    rw [hfl, ih]

theorem axes_forall (P : ℚ → ℚ → Prop) : ∀ (sh : List ℕ) (ss es : List ℚ), (∀ se ∈ ss.zip es, P se.1 (se.2 - se.1)) →
    ∀ a ∈ axes sh ss (dirOf ss es), P a.2.1 a.2.2
  | [], _, _, _, a, ha => by simp [axes] at ha
  | _ :: _, [], _, _, a, ha => by simp [axes] at ha
  | _ :: _, _ :: _, [], _, a, ha => by simp [axes, dirOf] at ha
  | n :: sh, s :: ss, e :: es, h, a, ha => by
    simp only [dirOf, List.zip_cons_cons, List.map_cons, axes, List.mem_cons] at ha
    rcases ha with rfl | ha
    · exact h (s, e) (by simp)
    · exact axes_forall P sh ss es (fun se hse => h se (by simp only [List.zip_cons_cons]; exact List.mem_cons_of_mem _ hse)) a ha

/-! #### the crossing list of the independent model -/

theorem mem_crossings (s d lo hi t : ℚ) (hd : d ≠ 0) : t ∈ crossings s d lo hi ↔ lo < t ∧ t < hi ∧ Cross s d t := by
  unfold crossings
  simp only [List.mem_filter, List.mem_map, List.mem_range, Bool.and_eq_true, decide_eq_true_eq, ratFloor_eq, ratCeil_eq,
    Int.ofNat_eq_natCast]
  constructor
  · rintro ⟨⟨i, _, rfl⟩, h1, h2⟩
    exact ⟨h1, h2, _, by field_simp; ring⟩
  · rintro ⟨h1, h2, k, hk⟩
    refine ⟨?_, h1, h2⟩
    set a := s + lo * d
    set b := s + hi * d
    have hmin : (if a < b then a else b) < (k : ℚ) := by
      rcases lt_or_gt_of_ne hd with hneg | hpos
      · have hba : b < a := by simp only [a, b]; nlinarith
        rw [if_neg (not_lt.mpr hba.le), ← hk]; simp only [b]; nlinarith
      · have hab : a < b := by simp only [a, b]; nlinarith
        rw [if_pos hab, ← hk]; simp only [a]; nlinarith
    have hmax : (k : ℚ) < (if a < b then b else a) := by
      rcases lt_or_gt_of_ne hd with hneg | hpos
      · have hba : b < a := by simp only [a, b]; nlinarith
        rw [if_neg (not_lt.mpr hba.le), ← hk]; simp only [a]; nlinarith
      · have hab : a < b := by simp only [a, b]; nlinarith
        rw [if_pos hab, ← hk]; simp only [b]; nlinarith
    have hk1 : ⌊(if a < b then a else b)⌋ < k := by
      have := lt_of_le_of_lt (Int.floor_le (if a < b then a else b)) hmin
      exact_mod_cast this
    have hk2 : k < ⌈(if a < b then b else a)⌉ := Int.lt_ceil.mpr hmax
    refine ⟨(k - ⌊(if a < b then a else b)⌋).toNat, by omega, ?_⟩
    have hc : (((k - ⌊(if a < b then a else b)⌋).toNat : ℕ) : ℤ) = k - ⌊(if a < b then a else b)⌋ :=
      Int.toNat_of_nonneg (by omega)
    rw [hc]
    have ht : t = ((k : ℚ) - s) / d := by field_simp; linarith
    rw [ht]; push_cast; ring

theorem nodup_crossings (s d lo hi : ℚ) (hd : d ≠ 0) : (crossings s d lo hi).Nodup := by
  unfold crossings
  refine List.Nodup.filter _ (List.Nodup.map ?_ List.nodup_range)
  intro i j h
  simp only at h
  have h1 := (div_left_inj' hd).mp h
  have h3 := Int.cast_injective (sub_left_inj.mp h1)
  simp only [Int.ofNat_eq_natCast] at h3
  omega

theorem axis_perm (inc : ℕ) (s d lo hi : ℚ) (hg : d ≠ 0 → ¬ Cross s d lo) :
    (if d = 0 then [] else crossings s d lo hi).Perm ((axisEvents inc s d lo hi).map Prod.fst) := by
  by_cases hd : d = 0
  · rw [if_pos hd]; unfold axisEvents; rw [if_pos hd]; simp
  · rw [if_neg hd]
    rw [List.perm_ext_iff_of_nodup (nodup_crossings s d lo hi hd)
      ((axisEvents_sorted inc s d lo hi).imp (fun h => ne_of_lt h))]
    intro t
    rw [mem_crossings s d lo hi t hd, mem_axisEvents_fst inc s d lo hi t hd (hg hd)]

theorem crossings_perm (lo hi : ℚ) : ∀ (sh : List ℕ) (ss es : List ℚ), sh.length = ss.length → ss.length = es.length →
    (∀ se ∈ ss.zip es, se.2 - se.1 ≠ 0 → ¬ Cross se.1 (se.2 - se.1) lo) →
    (((ss.zip es).map fun se => if se.2 - se.1 = 0 then [] else crossings se.1 (se.2 - se.1) lo hi).flatten).Perm
      ((eventsA lo hi (axes sh ss (dirOf ss es))).map Prod.fst)
  | [], [], [], _, _, _ => by simp [axes, eventsA]
  | [], _ :: _, _, h, _, _ => by simp at h
  | _ :: _, [], _, h, _, _ => by simp at h
  | _, [], _ :: _, _, h, _ => by simp at h
  | _, _ :: _, [], _, h, _ => by simp at h
  | n :: sh, s :: ss, e :: es, h1, h2, hg => by
    have ih := crossings_perm lo hi sh ss es (by simpa using h1) (by simpa using h2)
      (fun se hse => hg se (by simp only [List.zip_cons_cons]; exact List.mem_cons_of_mem _ hse))
    simp only [List.zip_cons_cons, List.map_cons, List.flatten_cons, dirOf, axes, eventsA, List.map_append] at ih ⊢
    exact List.Perm.append (axis_perm (prodL sh) s (e - s) lo hi (hg (s, e) (by simp))) ih

theorem lin_nonneg (a d lo hi t : ℚ) (hlt : lo < hi) (h1 : 0 ≤ a + lo * d) (h2 : 0 ≤ a + hi * d) (ht1 : lo ≤ t) (ht2 : t ≤ hi) :
    0 ≤ a + t * d := by
  by_contra hneg
  rw [not_le] at hneg
  have e : (a + t * d) * (hi - lo) = (a + lo * d) * (hi - t) + (a + hi * d) * (t - lo) := by ring
  have p1 : 0 ≤ (a + lo * d) * (hi - t) := mul_nonneg h1 (sub_nonneg.mpr ht2)
  have p2 : 0 ≤ (a + hi * d) * (t - lo) := mul_nonneg h2 (sub_nonneg.mpr ht1)
  have p3 : (a + t * d) * (hi - lo) < 0 := mul_neg_of_neg_of_pos hneg (sub_pos.mpr hlt)
  linarith

/-- **refinement** (core statement): on a parameter interval `lo < hi` inside the grid, for a generic line (entry point on no
    grid plane of a moving axis, no two crossing parameters equal) the transcribed traversal emits exactly the list of
    `(pixel, Δt)` of the independent segment model -/
theorem traverseFrom_eq_losSeg (shape : List ℕ) (s e : List ℚ) (lo hi : ℚ)
    (hl1 : shape.length = s.length) (hl2 : s.length = e.length) (hlt : lo < hi)
    (hnn : ∀ se ∈ s.zip e, 0 ≤ se.1 + lo * (se.2 - se.1) ∧ 0 ≤ se.1 + hi * (se.2 - se.1))
    (hgen : ∀ se ∈ s.zip e, se.2 - se.1 ≠ 0 → ¬ Cross se.1 (se.2 - se.1) lo)
    (hnd : ((events shape s (dirOf s e) lo hi).map Prod.fst).Nodup) :
    traverseFrom shape s (dirOf s e) lo hi = (losSeg shape s e lo hi).map fun p => ((p.1 : ℤ), p.2) := by
  have hg : GenEntry lo (axes shape s (dirOf s e)) := axes_forall (fun s d => d ≠ 0 → ¬ Cross s d lo) shape s e hgen
  have hnnlo : ∀ a ∈ axes shape s (dirOf s e), 0 ≤ a.2.1 + lo * a.2.2 :=
    axes_forall (fun s d => 0 ≤ s + lo * d) shape s e (fun se h => (hnn se h).1)
  unfold events at hnd
  generalize hax : axes shape s (dirOf s e) = ax at hg hnnlo hnd
  generalize hE : eventsA lo hi ax = E at hnd
  have hperm : (E.mergeSort fun a b => decide (a.1 ≤ b.1)).Perm E := List.mergeSort_perm _ _
  have hsortedT : (E.mergeSort fun a b => decide (a.1 ≤ b.1)).Pairwise (fun a b => a.1 ≤ b.1) := by
    have := List.pairwise_mergeSort (le := fun a b : ℚ × ℤ => decide (a.1 ≤ b.1))
      (by intro a b c; simp only [decide_eq_true_eq]; exact le_trans)
      (by intro a b; simp only [Bool.or_eq_true, decide_eq_true_eq]; exact le_total _ _) E
    simpa using this
  generalize hT : (E.mergeSort fun a b => decide (a.1 ≤ b.1)) = T at hperm hsortedT
  have hndT : (T.map Prod.fst).Nodup := (hperm.map Prod.fst).nodup_iff.mpr hnd
  have hltT : (T.map Prod.fst).Pairwise (· < ·) := by
    rw [List.pairwise_map]
    have h2 : T.Pairwise (fun a b => a.1 ≠ b.1) := List.pairwise_map.mp hndT
    exact (hsortedT.and h2).imp (fun h => lt_of_le_of_ne h.1 h.2)
  have hbT : ∀ e ∈ T, lo < e.1 ∧ e.1 < hi := fun e he => by
    have := eventsA_bounds lo hi ax hg e (hE ▸ hperm.mem_iff.mp he); exact this
  -- the code side
  have hcode : traverseFrom shape s (dirOf s e) lo hi = walkG (fun t => flatF t ax) lo (T.map Prod.fst) hi := by
    unfold traverseFrom events pos1
    simp only []
    rw [hax, hE, hT, zip_cumsum_diffs]
    rw [walk_eq lo hi ax hg (hE ▸ hnd) T lo (pos1A lo ax) hltT le_rfl hlt (fun e he => (hbT e he).1) (fun e he => (hbT e he).2)
      (fun e he => hE ▸ hperm.mem_iff.mp he) (fun e he _ => hperm.mem_iff.mpr (hE ▸ he)) ?_, walkF_eq_walkG]
    intro m hm1 hm2 hm3
    rw [pos1A_eq_flatF lo ax hnnlo]
    refine (flatF_const lo m hm1.le ax (noCross_of_no_events lo hi lo m ax hg le_rfl hm2 ?_)).symm
    rintro e he ⟨_, h2⟩
    exact absurd (hm3 e (hperm.mem_iff.mpr (hE ▸ he))) (not_lt.mpr h2)
  -- the independent side
  have hcr := crossings_perm lo hi shape s e hl1 hl2 hgen
  rw [hax, hE] at hcr
  have hsrt : (((s.zip e).map fun se => if se.2 - se.1 = 0 then [] else crossings se.1 (se.2 - se.1) lo hi).flatten).mergeSort
      (fun a b => decide (a ≤ b)) = T.map Prod.fst := by
    refine List.Perm.eq_of_pairwise (le := (· ≤ ·)) (fun _ _ _ _ h1 h2 => le_antisymm h1 h2) ?_ (hltT.imp le_of_lt) ?_
    · have := List.pairwise_mergeSort (le := fun a b : ℚ => decide (a ≤ b))
        (by intro a b c; simp only [decide_eq_true_eq]; exact le_trans)
        (by intro a b; simp only [Bool.or_eq_true, decide_eq_true_eq]; exact le_total _ _)
        (((s.zip e).map fun se => if se.2 - se.1 = 0 then [] else crossings se.1 (se.2 - se.1) lo hi).flatten)
      simpa using this
    · exact ((List.mergeSort_perm _ _).trans hcr).trans (hperm.map Prod.fst).symm
  have hind : (losSeg shape s e lo hi).map (fun p => ((p.1 : ℤ), p.2)) = walkG (pixF shape s e) lo (T.map Prod.fst) hi := by
    unfold losSeg
    simp only [List.map_map]
    rw [hsrt]
    exact intervals_map_walkG (pixF shape s e) (T.map Prod.fst) lo hi
  rw [hcode, hind]
  symm
  refine walkG_congr _ _ lo hi ?_ (T.map Prod.fst) lo le_rfl hlt.le hlt.le ?_
  · intro t ht1 ht2
    rw [← hax]
    exact pixF_eq_flatF t shape s e (fun se hse =>
      lin_nonneg se.1 (se.2 - se.1) lo hi t hlt (hnn se hse).1 (hnn se hse).2 ht1 ht2)
  · intro t ht
    obtain ⟨e', he', rfl⟩ := List.mem_map.mp ht
    exact ⟨(hbT e' he').1.le, (hbT e' he').2.le⟩

end NiftyVerif.ResponseLos
