/-
  Helper definitions and lemmas for C01: the Mathlib instantiation `msem` of the operator-algebra model
  (all operators interpreted in the star algebra `Matrix X X K`, diagonal data as functions `X → K`), and
  evaluation lemmas for the regenerated mode tables.
-/
import NiftyVerif.Model.OpAlgebra
import Mathlib.LinearAlgebra.Matrix.NonsingularInverse
import Mathlib.LinearAlgebra.Matrix.ConjTranspose
import Mathlib.Algebra.Star.Pi
import Mathlib.Algebra.Field.Basic
import Mathlib.Tactic.IntervalCases
import Mathlib.Algebra.Star.Basic

set_option linter.unusedSectionVars false

namespace NiftyVerif.OpAlgebra
open Matrix NiftyVerif.Gen.ModeTables

variable {X K : Type} [Fintype X] [DecidableEq X] [Field K] [StarRing K] [DecidableEq K]

/-- The Mathlib instantiation. `isReal`/`re` model `c.imag == 0` / `c.real`; `blocks` and `leaf` are parameters. -/
noncomputable def msem (isReal : K → Bool) (re : K → K) (blocks : Nat → List (Matrix X X K) → Matrix X X K)
    (leaf : Nat → Nat → Matrix X X K) : Sem K (X → K) (Matrix X X K) where
  kzero := 0
  kone := 1
  kadd := (· + ·)
  kmul := (· * ·)
  kneg := fun c => -c
  kconj := star
  kinv := fun c => c⁻¹
  kre := re
  kIsReal := isReal
  kabs2 := fun c => c * star c
  keq := fun a b => decide (a = b)
  dmul := (· * ·)
  dadd := (· + ·)
  dneg := fun d => -d
  dconj := star
  dinv := fun d => d⁻¹
  dscale := fun d k => fun x => d x * k
  dshift := fun d k => fun x => d x + k
  zero := fun _ _ => 0
  one := fun _ => 1
  mul := (· * ·)
  add := (· + ·)
  neg := fun a => -a
  smul := fun k a => k • a
  inv := fun a => a⁻¹
  ofDiag := fun _ d => Matrix.diagonal d
  blocks := blocks
  leaf := leaf

/-- scalar seen by mode index `s` (bit 0 adjoint: conjugate, bit 1 inverse: reciprocal) -/
def modeScalar (c : K) (s : Nat) : K :=
  let c1 := if s &&& 1 = 1 then star c else c
  if s &&& 2 = 2 then c1⁻¹ else c1

/-- diagonal seen by branch index `b` -/
def modeDiag (d : X → K) (b : Nat) : X → K :=
  let d1 := if b &&& 1 = 1 then star d else d
  if b &&& 2 = 2 then d1⁻¹ else d1

theorem foldl_mul_eq {R : Type} [Monoid R] (x : R) (xs : List R) : xs.foldl (· * ·) x = x * xs.prod := by
  induction xs generalizing x with
  | nil => simp
  | cons y ys ih => simp only [List.foldl_cons, List.prod_cons]; rw [ih]; exact mul_assoc x y ys.prod

theorem prodR_msem (isReal : K → Bool) (re : K → K) (blocks : Nat → List (Matrix X X K) → Matrix X X K)
    (leaf : Nat → Nat → Matrix X X K) (l : List (Matrix X X K)) (h : l ≠ []) :
    prodR (msem isReal re blocks leaf) l = l.prod := by
  cases l with
  | nil => exact absurd rfl h
  | cons x xs => simp only [prodR, List.prod_cons]; exact foldl_mul_eq x xs

/-- signed sum of a list -/
def signedSum {R : Type} [AddCommGroup R] (l : List (R × Bool)) : R :=
  (l.map fun p => if p.2 then -p.1 else p.1).sum

theorem foldl_addsub_eq {R : Type} [AddCommGroup R] (x : R) (xs : List (R × Bool)) :
    xs.foldl (fun acc (p : R × Bool) => if p.2 then acc + -p.1 else acc + p.1) x = x + signedSum xs := by
  induction xs generalizing x with
  | nil => simp [signedSum]
  | cons y ys ih =>
    simp only [List.foldl_cons, signedSum, List.map_cons, List.sum_cons] at ih ⊢
    rw [ih]
    obtain ⟨y, b⟩ := y
    cases b <;> simp [add_assoc]

theorem sumR_msem (isReal : K → Bool) (re : K → K) (blocks : Nat → List (Matrix X X K) → Matrix X X K)
    (leaf : Nat → Nat → Matrix X X K) (l : List (Matrix X X K × Bool)) (h : l ≠ []) :
    sumR (msem isReal re blocks leaf) l = signedSum l := by
  cases l with
  | nil => exact absurd rfl h
  | cons x xs =>
    obtain ⟨x, n⟩ := x
    simp only [sumR, msem]
    have := foldl_addsub_eq (if n then -x else x) xs
    simp only [signedSum, List.map_cons, List.sum_cons] at this ⊢
    convert this using 2


/-! ### evaluation of the regenerated tables (complete finite tables, `decide`) -/

theorem adjMask_eval : ∀ s, s < 4 → (((1 <<< s) &&& scalingAdjMask) != 0) = decide (s &&& 1 = 1) := by decide
theorem invMask_eval : ∀ s, s < 4 → (((1 <<< s) &&& scalingInvMask) != 0) = decide (s &&& 2 = 2) := by decide
theorem flipConj_eval : ∀ t, t < 4 → scalingFlipConj t = decide (t &&& 1 = 1) := by decide
theorem flipInv_eval : ∀ t, t < 4 → scalingFlipInv t = decide (t &&& 2 = 2) := by decide
theorem diagTrafo_eval : ∀ t, t < 4 → ∀ s, s < 4 → diagTrafo t (1 <<< s) = s ^^^ t := by decide
theorem diagFlip_eval : ∀ a, a < 4 → ∀ b, b < 4 → diagFlip a b = a ^^^ b := by decide
theorem adapterFlip_eval : ∀ a, a < 4 → ∀ b, b < 4 → adapterFlip a b = a ^^^ b := by decide
theorem diagApplyKind_eval : ∀ b, b < 4 →
    diagApplyKind.getD b (diagApplyKind.getD 3 (false, false)) = (decide (b &&& 1 = 1), decide (b &&& 2 = 2)) := by decide
theorem diagActualKind_eval : ∀ b, b < 4 →
    diagActualKind.getD b (false, false) = (decide (b &&& 1 = 1), decide (b &&& 2 = 2)) := by decide
theorem adapterApplyMode_eval : ∀ t, t < 4 → ∀ s, s < 4 → adapterApplyMode t (1 <<< s) = 1 <<< (s ^^^ t) := by decide
theorem chainOrder_eval : ∀ s, s < 4 → chainAppliesListOrder (1 <<< s) = !decide (s &&& 1 = (s >>> 1) &&& 1) := by decide
theorem xor_lt4 : ∀ s, s < 4 → ∀ t, t < 4 → s ^^^ t < 4 := by decide
theorem xor_assoc4 : ∀ s, s < 4 → ∀ t, t < 4 → ∀ u, u < 4 → s ^^^ (t ^^^ u) = (s ^^^ u) ^^^ t := by decide
theorem xor_self4 : ∀ s, s < 4 → ∀ t, t < 4 → (s ^^^ t) ^^^ t = s := by decide
theorem xor_eq_zero4 : ∀ s, s < 4 → ∀ t, t < 4 → (s ^^^ t = 0 ↔ s = t) := by decide

/-! ### algebra of `modeScalar` / `modeDiag` -/

theorem modeDiag_modeDiag (d : X → K) (s t : Nat) (hs : s < 4) (ht : t < 4) :
    modeDiag (modeDiag d t) s = modeDiag d (s ^^^ t) := by
  interval_cases s <;> interval_cases t <;> funext x <;> simp [modeDiag]

theorem modeScalar_modeScalar (c : K) (s t : Nat) (hs : s < 4) (ht : t < 4) :
    modeScalar (modeScalar c t) s = modeScalar c (s ^^^ t) := by
  interval_cases s <;> interval_cases t <;> simp [modeScalar]

theorem modeDiag_mul (a b : X → K) (s : Nat) (hs : s < 4) : modeDiag (a * b) s = modeDiag a s * modeDiag b s := by
  interval_cases s <;> funext x <;> simp [modeDiag, mul_comm]

theorem modeDiag_const (f : K) (s : Nat) (hs : s < 4) : modeDiag (fun _ : X => f) s = fun _ => modeScalar f s := by
  interval_cases s <;> funext x <;> simp [modeDiag, modeScalar]

theorem modeDiag_add (a b : X → K) (s : Nat) (hs : s < 2) : modeDiag (a + b) s = modeDiag a s + modeDiag b s := by
  interval_cases s <;> funext x <;> simp [modeDiag]

theorem modeDiag_neg (a : X → K) (s : Nat) (hs : s < 4) : modeDiag (-a) s = - modeDiag a s := by
  interval_cases s <;> funext x <;> simp [modeDiag, inv_neg]

/-- `_get_actual_diag` computes `modeDiag d trafo` (conjugate of the reciprocal = reciprocal of the conjugate) -/
theorem actualDiag_msem (isReal : K → Bool) (re : K → K) (blocks : Nat → List (Matrix X X K) → Matrix X X K)
    (leaf : Nat → Nat → Matrix X X K) (d : X → K) (t : Nat) (ht : t < 4) :
    actualDiag (msem isReal re blocks leaf) d t = modeDiag d t := by
  unfold actualDiag
  rw [diagActualKind_eval t ht]
  interval_cases t <;> funext x <;> simp [modeDiag, msem]

theorem diagBranch_msem (isReal : K → Bool) (re : K → K) (blocks : Nat → List (Matrix X X K) → Matrix X X K)
    (leaf : Nat → Nat → Matrix X X K) (d : X → K) (b : Nat) (hb : b < 4) :
    diagBranch (msem isReal re blocks leaf) d b = modeDiag d b := by
  unfold diagBranch
  rw [diagApplyKind_eval b hb]
  interval_cases b <;> funext x <;> simp [modeDiag, msem]

/-! ### mode-ordered products and helpers for the chain simplifier (C01 part 4) -/

section chainhelpers
variable (isReal : K → Bool) (re : K → K) (blocks : Nat → List (Matrix X X K) → Matrix X X K)
  (leaf : Nat → Nat → Matrix X X K)
local notation "S" => msem isReal re blocks leaf

/-- product of a list of matrices in list order, or in reversed order -/
def mprod (rev : Bool) (l : List (Matrix X X K)) : Matrix X X K := if rev then l.reverse.prod else l.prod

theorem mprod_nil (rev : Bool) : mprod rev ([] : List (Matrix X X K)) = 1 := by cases rev <;> simp [mprod]
theorem mprod_singleton (rev : Bool) (a : Matrix X X K) : mprod rev [a] = a := by cases rev <;> simp [mprod]
theorem mprod_append (rev : Bool) (l1 l2 : List (Matrix X X K)) :
    mprod rev (l1 ++ l2) = if rev then mprod rev l2 * mprod rev l1 else mprod rev l1 * mprod rev l2 := by
  cases rev <;> simp [mprod, List.reverse_append, List.prod_append]
theorem mprod_cons (rev : Bool) (a : Matrix X X K) (l : List (Matrix X X K)) :
    mprod rev (a :: l) = if rev then mprod rev l * a else a * mprod rev l := by
  have := mprod_append rev [a] l
  simpa [mprod_singleton] using this

/-- a scalar multiple of the identity can be pulled out of a product at any position -/
theorem mprod_cons_smul (rev : Bool) (k : K) (a : Matrix X X K) (l : List (Matrix X X K)) :
    mprod rev ((k • a) :: l) = k • mprod rev (a :: l) := by
  rw [mprod_cons, mprod_cons]; cases rev <;> simp

theorem modeScalar_mul (a b : K) (s : Nat) (hs : s < 4) : modeScalar (a * b) s = modeScalar a s * modeScalar b s := by
  interval_cases s <;> simp [modeScalar, mul_comm]
theorem modeScalar_one (s : Nat) (hs : s < 4) : modeScalar (1 : K) s = 1 := by
  interval_cases s <;> simp [modeScalar]

/-- is the list order reversed in the matrix product for mode index `s` -/
def revOf (s : Nat) : Bool := !decide (s &&& 1 = (s >>> 1) &&& 1)

/-- pending transformations of diagonal operators are 0..3 -/
def diagOK : Op K (X → K) → Bool
  | .diag _ _ t _ => decide (t < 4)
  | _ => true

def isChainOp : Op K (X → K) → Bool | .chain _ => true | _ => false

/-- summands of a SumOperator: diagonal transformations in range, not a block-diagonal operator (chains are fine) -/
def okS (o : Op K (X → K)) : Bool := diagOK o && !isBlock o

/-- diagonal transformations in range, not a block-diagonal operator, not a (nested) chain -/
def okC (o : Op K (X → K)) : Bool := diagOK o && !isBlock o && !isChainOp o

theorem isDiag_cases (o : Op K (X → K)) (h : isDiag o = true) : ∃ dm d t dt, o = Op.diag dm d t dt := by
  cases o <;> simp [isDiag] at h
  exact ⟨_, _, _, _, rfl⟩

theorem mprod_one_cons (rev : Bool) (l : List (Matrix X X K)) : mprod rev ((1 : Matrix X X K) :: l) = mprod rev l := by
  rw [mprod_cons]; cases rev <;> simp

theorem mprod_zero_mem (rev : Bool) (l : List (Matrix X X K)) (h : (0 : Matrix X X K) ∈ l) : mprod rev l = 0 := by
  cases rev
  · simp only [mprod, Bool.false_eq_true, if_false]; exact List.prod_eq_zero h
  · simp only [mprod, if_true]; exact List.prod_eq_zero (by simpa using h)

theorem foldl_cons_like {α : Type} (f : List α → α → List α) (p : α → Bool)
    (hf : ∀ acc o, p o = false → f acc o = o :: acc) (l acc : List α) (h : ∀ o ∈ l, p o = false) :
    l.foldl f acc = l.reverse ++ acc := by
  induction l generalizing acc with
  | nil => rfl
  | cons o os ih =>
    simp only [List.foldl_cons]
    rw [hf acc o (h o (by simp)), ih _ (fun x hx => h x (by simp [hx]))]
    simp

/-- without block-diagonal operators the block merge is the identity -/
theorem chainMergeBlock_noblock (mk : List (Op K (X → K)) → Op K (X → K)) (l : List (Op K (X → K)))
    (h : ∀ o ∈ l, isBlock o = false) : chainMergeBlock S mk l = l := by
  unfold chainMergeBlock
  rw [foldl_cons_like _ isBlock ?_ l [] h]
  · simp
  · intro acc o ho
    cases o with
    | blockdiag dm es => simp [isBlock] at ho
    | _ =>
      cases acc with
      | nil => rfl
      | cons a as => cases a <;> rfl

theorem chainMergeDiag_ne (l : List (Op K (X → K))) (h : l ≠ []) : chainMergeDiag S l ≠ [] := by
  fun_induction chainMergeDiag S l with
  | case1 a b rest hab ih => exact ih (by simp)
  | case2 a b rest hab ih => simp
  | case3 l hl => exact h

theorem appendScaling_ne (l : List (Op K (X → K))) (c : Bool) (o : Op K (X → K)) :
    (if (c || l.isEmpty) = true then l ++ [o] else l) ≠ [] := by
  split
  · simp
  · rename_i h
    simp only [Bool.or_eq_true, not_or, Bool.not_eq_true, List.isEmpty_eq_false_iff] at h
    exact h.2

end chainhelpers

end NiftyVerif.OpAlgebra
