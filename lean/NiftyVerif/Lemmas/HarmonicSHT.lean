/-
  Lemmas/HarmonicSHT.lean — both SHT code paths in terms of one real basis R; adjointness; normalisation.
-/
import NiftyVerif.Model.HarmonicSHT
import NiftyVerif.Lemmas.HarmonicSum
import Mathlib.Tactic.IntervalCases
import Mathlib.Tactic.NormNum
import Mathlib.Algebra.Order.Field.Rat

namespace NiftyVerif.Harmonic
open Finset

variable {K : Type} [CommRing K]

/-- length of the real LMSpace vector -/
def ShtCfg.nreal (cfg : ShtCfg K) : Nat := cfg.L + 2 * cfg.M

/-- the real spherical-harmonic basis in NIFTy's layout -/
def ShtCfg.R (cfg : ShtCfg K) (idx p : Nat) : K :=
  if idx < cfg.L then cfg.yre idx p
  else if (idx - cfg.L) % 2 = 0 then cfg.r2 * cfg.yre (cfg.L + (idx - cfg.L) / 2) p
  else -(cfg.r2 * cfg.yim (cfg.L + (idx - cfg.L) / 2) p)

/-- Σ over L + 2M = Σ over the m=0 block + Σ over (real, imag) pairs -/
theorem sum_pairs (L M : Nat) (f : Nat → K) :
    ∑ i ∈ range (L + 2 * M), f i = ∑ k ∈ range L, f k + ∑ k ∈ range M, (f (L + 2 * k) + f (L + 2 * k + 1)) := by
  induction M with
  | zero => simp
  | succ M ih =>
    have e : L + 2 * (M + 1) = (L + 2 * M + 1) + 1 := by ring
    rw [e, Finset.sum_range_succ, Finset.sum_range_succ, ih, Finset.sum_range_succ]
    ring

theorem p2h_eq (cfg : ShtCfg K) (map : Nat → K) (idx : Nat) :
    sliceP2H cfg map idx = cfg.c * ∑ p ∈ range cfg.npix, cfg.R idx p * map p := by
  unfold sliceP2H adjSynthRe adjSynthIm ShtCfg.R
  simp only [sumTo_eq_sum]
  split_ifs
  · rw [mul_comm]; congr 1; exact Finset.sum_congr rfl (fun p _ => by ring)
  · rw [mul_comm, Finset.mul_sum]; congr 1; exact Finset.sum_congr rfl (fun p _ => by ring)
  · rw [mul_comm, mul_neg, Finset.mul_sum, ← Finset.sum_neg_distrib]; congr 1
    exact Finset.sum_congr rfl (fun p _ => by ring)

theorem h2p_eq (cfg : ShtCfg K) (h2 : cfg.r2 = cfg.rh + cfg.rh) (x : Nat → K) (p : Nat) :
    sliceH2P cfg x p = cfg.c * ∑ idx ∈ range cfg.nreal, cfg.R idx p * x idx := by
  unfold sliceH2P synthesis ShtCfg.nreal
  simp only [sumTo_eq_sum]
  rw [sum_pairs cfg.L cfg.M]
  have hL : ∀ k ∈ range cfg.L, (if k < cfg.L then x k else cfg.rh * x (cfg.L + 2 * (k - cfg.L))) * cfg.yre k p
      = cfg.R k p * x k := by
    intro k hk
    have : k < cfg.L := mem_range.mp hk
    simp only [ShtCfg.R, this, if_true]; ring
  have hM : ∀ k ∈ range cfg.M,
      (if cfg.L + k < cfg.L then x (cfg.L + k) else cfg.rh * x (cfg.L + 2 * (cfg.L + k - cfg.L))) * cfg.yre (cfg.L + k) p
        - (if cfg.L + k < cfg.L then 0 else cfg.rh * x (cfg.L + 2 * (cfg.L + k - cfg.L) + 1)) * cfg.yim (cfg.L + k) p
      = cfg.rh * (x (cfg.L + 2 * k) * cfg.yre (cfg.L + k) p - x (cfg.L + 2 * k + 1) * cfg.yim (cfg.L + k) p) := by
    intro k _
    have h1 : ¬ (cfg.L + k < cfg.L) := by omega
    have h2' : cfg.L + k - cfg.L = k := by omega
    simp only [h1, if_false, h2']; ring
  have hR : ∀ k ∈ range cfg.M,
      cfg.R (cfg.L + 2 * k) p * x (cfg.L + 2 * k) + cfg.R (cfg.L + 2 * k + 1) p * x (cfg.L + 2 * k + 1)
        = cfg.r2 * (x (cfg.L + 2 * k) * cfg.yre (cfg.L + k) p - x (cfg.L + 2 * k + 1) * cfg.yim (cfg.L + k) p) := by
    intro k _
    have a1 : ¬ (cfg.L + 2 * k < cfg.L) := by omega
    have a2 : ¬ (cfg.L + 2 * k + 1 < cfg.L) := by omega
    have a3 : (cfg.L + 2 * k - cfg.L) % 2 = 0 := by omega
    have a4 : ¬ ((cfg.L + 2 * k + 1 - cfg.L) % 2 = 0) := by omega
    have a5 : (cfg.L + 2 * k - cfg.L) / 2 = k := by omega
    have a6 : (cfg.L + 2 * k + 1 - cfg.L) / 2 = k := by omega
    simp only [ShtCfg.R, a1, a2, a3, a4, a5, a6, if_true, if_false]; ring
  rw [Finset.sum_congr rfl hL, Finset.sum_congr rfl hM, Finset.sum_congr rfl hR, ← Finset.mul_sum, ← Finset.mul_sum, h2]
  ring

/-- adjointness of the two code paths (plain transpose, no pixel weights) -/
theorem sht_adjoint_lemma (cfg : ShtCfg K) (h2 : cfg.r2 = cfg.rh + cfg.rh) (x y : Nat → K) :
    ∑ p ∈ range cfg.npix, y p * sliceH2P cfg x p = ∑ idx ∈ range cfg.nreal, sliceP2H cfg y idx * x idx := by
  simp only [h2p_eq cfg h2, p2h_eq, Finset.mul_sum, Finset.sum_mul]
  rw [Finset.sum_comm]
  exact Finset.sum_congr rfl (fun idx _ => Finset.sum_congr rfl (fun p _ => by ring))

/-- with a quadrature under which the real basis is orthonormal (weights `vol`), analysis of the weighted synthesis
    returns c² = 1/(4π) times the input: the documented factor between a field and its twice transformed version -/
theorem sht_roundtrip_lemma (cfg : ShtCfg K) (h2 : cfg.r2 = cfg.rh + cfg.rh) (vol : Nat → K)
    (horth : ∀ a b, a < cfg.nreal → b < cfg.nreal →
      ∑ p ∈ range cfg.npix, vol p * cfg.R a p * cfg.R b p = if b = a then 1 else 0)
    (x : Nat → K) (idx : Nat) (hidx : idx < cfg.nreal) :
    sliceP2H cfg (fun p => vol p * sliceH2P cfg x p) idx = cfg.c * cfg.c * x idx := by
  rw [p2h_eq]
  simp only [h2p_eq cfg h2, Finset.mul_sum]
  rw [Finset.sum_comm]
  have : ∀ b ∈ range cfg.nreal, ∑ p ∈ range cfg.npix, cfg.c * (cfg.R idx p * (vol p * (cfg.c * (cfg.R b p * x b))))
      = cfg.c * cfg.c * ((if b = idx then 1 else 0) * x b) := by
    intro b hb
    rw [← horth idx b hidx (mem_range.mp hb), Finset.sum_mul, Finset.mul_sum]
    exact Finset.sum_congr rfl (fun p _ => by ring)
  rw [Finset.sum_congr rfl this, ← Finset.mul_sum]
  simp only [ite_mul, one_mul, zero_mul]
  rw [Finset.sum_ite_eq' (range cfg.nreal) idx, if_pos (mem_range.mpr hidx)]

/-- unit monopole coefficient: the synthesised field is c·Y_00; with Y_00 = c = 1/√(4π) and total volume V, c²V = 1,
    its integral is 1 -/
theorem sht_monopole_lemma (cfg : ShtCfg K) (h2 : cfg.r2 = cfg.rh + cfg.rh) (hL : 0 < cfg.L) (vol : Nat → K) (V : K)
    (hY : ∀ p, p < cfg.npix → cfg.yre 0 p = cfg.c) (hV : ∑ p ∈ range cfg.npix, vol p = V) (hc : cfg.c * cfg.c * V = 1) :
    ∑ p ∈ range cfg.npix, vol p * sliceH2P cfg (fun idx => if idx = 0 then 1 else 0) p = 1 := by
  have key : ∀ p ∈ range cfg.npix, vol p * sliceH2P cfg (fun idx => if idx = 0 then 1 else 0) p
      = cfg.c * cfg.c * vol p := by
    intro p hp
    rw [h2p_eq cfg h2]
    simp only [mul_ite, mul_one, mul_zero]
    rw [Finset.sum_ite_eq' (range cfg.nreal) 0, if_pos (mem_range.mpr (by unfold ShtCfg.nreal; omega))]
    simp only [ShtCfg.R, hL, if_true, hY p (mem_range.mp hp)]
    ring
  rw [Finset.sum_congr rfl key, ← Finset.mul_sum, hV, hc]

end NiftyVerif.Harmonic

namespace NiftyVerif.Harmonic
open Finset

/-- ±1 Hadamard table used by the non-vacuity instance -/
def had4 (a p : Nat) : ℚ :=
  match a % 4, p % 4 with
  | 1, 1 => -1 | 1, 3 => -1
  | 2, 2 => -1 | 2, 3 => -1
  | 3, 1 => -1 | 3, 2 => -1
  | _, _ => 1

/-- a concrete instance over ℚ: lmax = 1 (L = 2), one m ≥ 1 coefficient (M = 1), 4 pixels of volume 1,
    "4π" = 4 (c = 1/2), "√2" = 2 (r2 = 2, rh = 1), real basis = rows of the 4×4 Hadamard matrix / 2 -/
def shtQ : ShtCfg ℚ :=
  { L := 2, M := 1, npix := 4,
    yre := fun k p => if k < 2 then had4 k p / 2 else had4 2 p / 4,
    yim := fun _ p => -(had4 3 p / 4),
    r2 := 2, rh := 1, c := 1 / 2 }

theorem shtQ_orth : ∀ a b, a < shtQ.nreal → b < shtQ.nreal →
    ∑ p ∈ range shtQ.npix, (1 : ℚ) * shtQ.R a p * shtQ.R b p = if b = a then 1 else 0 := by
  intro a b ha hb
  simp only [ShtCfg.nreal, shtQ] at ha hb
  interval_cases a <;> interval_cases b <;>
    simp [ShtCfg.R, shtQ, had4, Finset.sum_range_succ] <;> norm_num

end NiftyVerif.Harmonic
