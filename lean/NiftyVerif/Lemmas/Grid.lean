import NiftyVerif.Model.Grid
import Mathlib.Tactic.Ring
import Mathlib.Tactic.Linarith
import Mathlib.Tactic.FieldSimp
namespace NiftyVerif.Grid

/-! ### one axis -/

theorem child_div (s i c : Nat) (hc : c < s) : child s i c / s = i := by
  unfold child
  have hs : 0 < s := by omega
  rw [Nat.add_comm, Nat.add_mul_div_right _ _ hs, Nat.div_eq_of_lt hc, Nat.zero_add]

theorem child_mod (s i c : Nat) (hc : c < s) : child s i c % s = c := by
  unfold child
  rw [Nat.add_comm, Nat.add_mul_mod_self_right, Nat.mod_eq_of_lt hc]

theorem child_div_mod (s j : Nat) : child s (j / s) (j % s) = j := by
  unfold child
  have := Nat.div_add_mod j s
  rw [Nat.mul_comm] at this
  exact this

theorem openBase_refined (n pad i : Nat) (h1 : pad ≤ i) (h2 : i + pad < n) : openBase n pad i = i - pad := by
  unfold openBase clip
  omega

/-- out-of-range indices are clipped onto the refined range first -/
theorem openBase_lt (n pad i : Nat) (h : 2 * pad < n) : openBase n pad i < n - 2 * pad := by
  unfold openBase clip
  omega

theorem child_lt (s n i c : Nat) (hi : i < n) (hc : c < s) : child s i c < s * n := by
  unfold child
  calc i * s + c < i * s + s := by omega
    _ = (i + 1) * s := by ring
    _ ≤ n * s := Nat.mul_le_mul_right s hi
    _ = s * n := Nat.mul_comm _ _

theorem div_lt_of_lt_mul' (s n j : Nat) (h : j < s * n) : j / s < n := by
  apply Nat.div_lt_of_lt_mul
  exact h

/-! ### neighbourhoods -/

theorem neighbor_lt (n w i c : Nat) (hn : 0 < n) : neighbor n w i c < n := by
  unfold neighbor
  have h1 : (0 : Int) < (n : Int) := by exact_mod_cast hn
  have := Int.emod_lt_of_pos ((i : Int) + (c : Int) - ((w / 2 : Nat) : Int)) h1
  have h0 := Int.emod_nonneg ((i : Int) + (c : Int) - ((w / 2 : Nat) : Int)) (by omega : (n : Int) ≠ 0)
  omega

theorem neighbor_centre (n w i : Nat) (hi : i < n) : neighbor n w i (w / 2) = i := by
  unfold neighbor
  have : (i : Int) + ((w / 2 : Nat) : Int) - ((w / 2 : Nat) : Int) = (i : Int) := by omega
  rw [this, Int.emod_eq_of_lt (by omega) (by exact_mod_cast hi)]
  simp

theorem openNeighbor_eq (n w i c : Nat) (hn : 0 < n) : openNeighbor n w i c = neighbor n w i c := by
  unfold openNeighbor clip
  have := neighbor_lt n w i c hn
  omega

/-- the neighbour with offset `c` of `i` is congruent to `i + c - w/2` modulo `n` -/
theorem neighbor_modEq (n w i c : Nat) (hn : 0 < n) :
    ((neighbor n w i c : Nat) : Int) % (n : Int) = ((i : Int) + (c : Int) - ((w / 2 : Nat) : Int)) % (n : Int) := by
  unfold neighbor
  have h0 := Int.emod_nonneg ((i : Int) + (c : Int) - ((w / 2 : Nat) : Int)) (by omega : (n : Int) ≠ 0)
  rw [Int.toNat_of_nonneg h0, Int.emod_emod_of_dvd _ (dvd_refl _)]

/-- periodic images are identified: shifting the centre by one period changes nothing, shifting it by one
    pixel shifts every neighbour by one pixel (mod n) -/
theorem neighbor_shift (n w i c : Nat) (hn : 0 < n) :
    neighbor n w ((i + 1) % n) c = (neighbor n w i c + 1) % n := by
  have hnz : (n : Int) ≠ 0 := by omega
  apply Int.ofNat_inj.mp
  have e1 := neighbor_modEq n w ((i + 1) % n) c hn
  have e2 := neighbor_modEq n w i c hn
  have l1 := neighbor_lt n w ((i + 1) % n) c hn
  rw [Int.emod_eq_of_lt (by omega) (by exact_mod_cast l1)] at e1
  rw [e1]
  generalize w / 2 = h at e1 e2 ⊢
  push_cast
  rw [Int.add_emod (neighbor n w i c : Int) 1 n, e2]
  rw [← Int.add_emod]
  rw [Int.sub_emod, Int.add_emod (((i : Int) + 1) % n) c n, Int.emod_emod_of_dvd _ (dvd_refl _)]
  rw [← Int.add_emod, ← Int.sub_emod]
  congr 1
  ring



/-! ### index vectors -/

theorem mem_cart {ls : List (List Nat)} {v : List Nat} : v ∈ cart ls ↔ List.Forall₂ (· ∈ ·) v ls := by
  induction ls generalizing v with
  | nil => simp [cart]
  | cons cs rest ih =>
    simp only [cart, List.mem_flatMap, List.mem_map]
    constructor
    · rintro ⟨c, hc, t, ht, rfl⟩
      exact List.Forall₂.cons hc (ih.mp ht)
    · intro h
      cases h with
      | cons hc ht => exact ⟨_, hc, _, ih.mpr ht, rfl⟩

theorem cart_append (l1 l2 : List (List Nat)) :
    cart (l1 ++ l2) = (cart l1).flatMap fun a => (cart l2).map (a ++ ·) := by
  induction l1 with
  | nil => simp [cart]
  | cons cs rest ih =>
    simp only [List.cons_append, cart, ih, List.flatMap_assoc, List.map_flatMap, List.flatMap_map, List.map_map]
    congr 1

/-! ### serial (row-major) flattening -/

theorem ravelSerial_cons (n : Nat) (rest : List Nat) (i : Nat) (is_ : List Nat) :
    ravelSerial (n :: rest) (i :: is_) = rest.prod * i + ravelSerial rest is_ := by
  simp [ravelSerial, weightsSerial]

theorem ravelSerial_lt {shape idx : List Nat} (h : List.Forall₂ (· < ·) idx shape) :
    ravelSerial shape idx < shape.prod := by
  induction h with
  | nil => simp [ravelSerial, weightsSerial]
  | @cons i n is_ rest hi _ ih =>
    rw [ravelSerial_cons, List.prod_cons]
    calc rest.prod * i + ravelSerial rest is_ < rest.prod * i + rest.prod := by omega
      _ = rest.prod * (i + 1) := by ring
      _ ≤ rest.prod * n := Nat.mul_le_mul_left _ hi
      _ = n * rest.prod := Nat.mul_comm _ _

theorem unravelSerial_cons (n : Nat) (rest : List Nat) (f : Nat) :
    unravelSerial (n :: rest) f = (f / rest.prod) :: unravelSerial rest (f - rest.prod * (f / rest.prod)) := by
  simp [unravelSerial, weightsSerial, unravelGo]

theorem flat_roundtrip_serial {shape idx : List Nat} (h : List.Forall₂ (· < ·) idx shape) :
    unravelSerial shape (ravelSerial shape idx) = idx := by
  induction h with
  | nil => simp [unravelSerial, weightsSerial, unravelGo]
  | @cons i n is_ rest hi hrest ih =>
    have hlt := ravelSerial_lt hrest
    have hpos : 0 < rest.prod := by omega
    rw [ravelSerial_cons, unravelSerial_cons]
    have hq : (rest.prod * i + ravelSerial rest is_) / rest.prod = i := by
      rw [Nat.mul_comm, Nat.add_comm, Nat.add_mul_div_right _ _ hpos, Nat.div_eq_of_lt hlt, Nat.zero_add]
    rw [hq]
    congr 1
    rw [Nat.add_sub_cancel_left]
    exact ih

theorem flat_roundtrip_serial_inv (shape : List Nat) (f : Nat) (hf : f < shape.prod) :
    ravelSerial shape (unravelSerial shape f) = f ∧ List.Forall₂ (· < ·) (unravelSerial shape f) shape := by
  induction shape generalizing f with
  | nil =>
    simp [unravelSerial, weightsSerial, unravelGo, ravelSerial] at hf ⊢
    omega
  | cons n rest ih =>
    rw [List.prod_cons] at hf
    have hpos : 0 < rest.prod := by
      rcases Nat.eq_zero_or_pos rest.prod with h | h
      · rw [h] at hf; omega
      · exact h
    have hrem : f - rest.prod * (f / rest.prod) = f % rest.prod := by
      have := Nat.div_add_mod f rest.prod
      omega
    have hlt : f % rest.prod < rest.prod := Nat.mod_lt _ hpos
    obtain ⟨h1, h2⟩ := ih (f % rest.prod) hlt
    rw [unravelSerial_cons, hrem, ravelSerial_cons, h1]
    refine ⟨Nat.div_add_mod f rest.prod, List.Forall₂.cons ?_ h2⟩
    apply Nat.div_lt_of_lt_mul
    rw [Nat.mul_comm]; exact hf

/-! ### coordinates -/

theorem coord_roundtrip {K : Type} [Field K] [CharZero K] (n sh : Nat) (i : K) (h : 0 < n + 2 * sh) :
    coord2indexRaw n sh (index2coord n sh i) = i := by
  unfold coord2indexRaw index2coord
  have h2 : ((n : K) + 2 * (sh : K)) ≠ 0 := by
    have : ((n + 2 * sh : Nat) : K) ≠ 0 := by exact_mod_cast (by omega : n + 2 * sh ≠ 0)
    push_cast at this
    exact this
  rw [div_mul_cancel₀ _ h2]
  ring

theorem rint_intCast (i : Int) : rint (i : Rat) = i := by
  unfold rint
  simp [Rat.floor_intCast]

theorem coord_roundtrip_rint (n sh : Nat) (i : Int) (h : 0 < n + 2 * sh) :
    coord2index n sh (index2coord n sh (i : Rat)) = i := by
  unfold coord2index
  rw [coord_roundtrip n sh (i : Rat) h, rint_intCast]




theorem parent_child_open (n pad s i c : Nat) (hc : c < s) (h1 : pad ≤ i) (h2 : i + pad < n) :
    openParent s pad (openChild n pad s i c) = i := by
  unfold openParent openChild
  rw [openBase_refined n pad i h1 h2, child_div s (i - pad) c hc]
  omega

theorem refined_of_lt (q pad n : Nat) (hq : q < n - 2 * pad) : pad ≤ q + pad ∧ q + pad + pad < n := by omega

/-- `a'` is the axis of the next level below `a` (what `Grid.at(level+1)` / `OpenGrid.at(level+1)` hand to `atLevel`) -/
structure Refines (a a' : Axis) : Prop where
  n : a'.n = a.s * (a.n - 2 * a.pad)
  ps : a'.ps = a.s
  ppad : a'.ppad = a.pad
  sh : a'.sh = a.s * (a.sh + a.pad)

/-- index `i` is refined on axis `a` (`_is_index_refined`) and the axis really splits -/
def RefinedAt (a : Axis) (i : Nat) : Prop := 0 < a.s ∧ a.pad ≤ i ∧ i + a.pad < a.n

theorem mem_children {ax : List Axis} {idx ch : List Nat} (hlen : ax.length = idx.length) :
    ch ∈ children ax idx ↔
      List.Forall₂ (fun c (ai : Axis × Nat) => ∃ k, k < ai.1.s ∧ c = openChild ai.1.n ai.1.pad ai.1.s ai.2 k) ch (List.zip ax idx) := by
  unfold children
  rw [mem_cart]
  induction ax generalizing idx ch with
  | nil =>
    cases idx with
    | nil => simp
    | cons _ _ => simp at hlen
  | cons a rest ih =>
    cases idx with
    | nil => simp at hlen
    | cons i is_ =>
      simp only [List.zipWith_cons_cons, List.zip_cons_cons]
      constructor
      · intro h
        cases h with
        | cons h1 h2 =>
          simp only [List.mem_map, List.mem_range] at h1
          obtain ⟨k, hk, rfl⟩ := h1
          exact List.Forall₂.cons ⟨k, hk, rfl⟩ ((ih (by simpa using hlen)).mp h2)
      · intro h
        cases h with
        | cons h1 h2 =>
          obtain ⟨k, hk, rfl⟩ := h1
          refine List.Forall₂.cons ?_ ((ih (by simpa using hlen)).mpr h2)
          simp only [List.mem_map, List.mem_range]
          exact ⟨k, hk, rfl⟩

/-- **parent_child** for index vectors (regular, open, HEALPix, product grids alike): the parent (computed on the
    next level) of every child of a refined index is the index itself -/
theorem parent_child_vec {ax ax' : List Axis} {idx ch : List Nat} (hr : List.Forall₂ Refines ax ax')
    (hi : List.Forall₂ RefinedAt ax idx) (hc : ch ∈ children ax idx) : parentVec ax' ch = idx := by
  have hlen : ax.length = idx.length := hi.length_eq
  rw [mem_children hlen] at hc
  unfold parentVec
  induction hr generalizing idx ch with
  | nil =>
    cases hi
    cases hc
    rfl
  | @cons a a' rest rest' hra _ ih =>
    cases hi with
    | @cons _ i _ is_ hia hirest =>
      simp only [List.zip_cons_cons] at hc
      cases hc with
      | @cons c _ cs _ h1 h2 =>
        obtain ⟨k, hk, rfl⟩ := h1
        simp only [List.zipWith_cons_cons]
        rw [hra.ps, hra.ppad, parent_child_open a.n a.pad a.s i k hk hia.2.1 hia.2.2]
        congr 1
        exact ih hirest h2 hirest.length_eq

/-- **children_partition**, existence: every index vector of the next level is a child of the refined index
    `j / s + pad` (component-wise) -/
theorem children_cover_vec {ax : List Axis} {j : List Nat}
    (hj : List.Forall₂ (fun (a : Axis) j => 0 < a.s ∧ j < a.s * (a.n - 2 * a.pad)) ax j) :
    List.Forall₂ RefinedAt ax (List.zipWith (fun (a : Axis) j => j / a.s + a.pad) ax j) ∧
    j ∈ children ax (List.zipWith (fun (a : Axis) j => j / a.s + a.pad) ax j) := by
  have hlen : ax.length = (List.zipWith (fun (a : Axis) j => j / a.s + a.pad) ax j).length := by
    simp [hj.length_eq]
  rw [mem_children hlen]
  induction hj with
  | nil => exact ⟨List.Forall₂.nil, by simp⟩
  | @cons a jk rest js h _ ih =>
    obtain ⟨hs, hlt⟩ := h
    have hq : jk / a.s < a.n - 2 * a.pad := by
      apply Nat.div_lt_of_lt_mul; exact hlt
    have hre : RefinedAt a (jk / a.s + a.pad) := ⟨hs, refined_of_lt _ _ _ hq⟩
    have hlen' : rest.length = (List.zipWith (fun (a : Axis) j => j / a.s + a.pad) rest js).length := by
      simpa using hlen
    obtain ⟨ih1, ih2⟩ := ih hlen'
    simp only [List.zipWith_cons_cons, List.zip_cons_cons]
    refine ⟨List.Forall₂.cons hre ih1, List.Forall₂.cons ⟨jk % a.s, Nat.mod_lt _ hs, ?_⟩ ih2⟩
    unfold openChild
    rw [openBase_refined a.n a.pad _ hre.2.1 hre.2.2]
    rw [Nat.add_sub_cancel, child_div_mod]

/-- children of refined indices lie on the next level -/
theorem children_in_range {ax ax' : List Axis} {idx ch : List Nat} (hr : List.Forall₂ Refines ax ax')
    (hi : List.Forall₂ RefinedAt ax idx) (hc : ch ∈ children ax idx) :
    List.Forall₂ (fun c (a' : Axis) => c < a'.n) ch ax' := by
  have hlen : ax.length = idx.length := hi.length_eq
  rw [mem_children hlen] at hc
  induction hr generalizing idx ch with
  | nil => cases hi; cases hc; exact List.Forall₂.nil
  | @cons a a' rest rest' hra _ ih =>
    cases hi with
    | @cons _ i _ is_ hia hirest =>
      simp only [List.zip_cons_cons] at hc
      cases hc with
      | @cons c _ cs _ h1 h2 =>
        obtain ⟨k, hk, rfl⟩ := h1
        refine List.Forall₂.cons ?_ (ih hirest h2 hirest.length_eq)
        rw [hra.n]
        unfold openChild
        rw [openBase_refined a.n a.pad i hia.2.1 hia.2.2]
        have h1 := hia.2.1
        have h2' := hia.2.2
        exact child_lt a.s _ _ k (by omega) hk




theorem list_prod_pos {l : List Nat} (h : ∀ x ∈ l, 0 < x) : 0 < l.prod := by
  induction l with
  | nil => simp
  | cons a rest ih =>
    rw [List.prod_cons]
    exact Nat.mul_pos (h a List.mem_cons_self) (ih fun x hx => h x (List.mem_cons_of_mem _ hx))

theorem refines_total (a a' : Axis) (h : Refines a a') (hp : 2 * a.pad ≤ a.n) :
    a'.n + 2 * a'.sh = a.s * (a.n + 2 * a.sh) := by
  rw [h.n, h.sh]
  have : a.n = (a.n - 2 * a.pad) + 2 * a.pad := by omega
  generalize a.n - 2 * a.pad = m at this
  rw [this]; ring

theorem total_prod {ax ax' : List Axis} (hr : List.Forall₂ Refines ax ax')
    (hp : ∀ a ∈ ax, 2 * a.pad ≤ a.n) :
    (ax'.map fun a => a.n + 2 * a.sh).prod = (ax.map (·.s)).prod * (ax.map fun a => a.n + 2 * a.sh).prod := by
  induction hr with
  | nil => simp
  | @cons a a' rest rest' h _ ih =>
    simp only [List.map_cons, List.prod_cons]
    rw [ih (fun b hb => hp b (List.mem_cons_of_mem _ hb)), refines_total a a' h (hp a List.mem_cons_self)]
    ring

/-- **volume_conserved**: the `prod(splits)` children of a refined pixel together have exactly the pixel's volume -/
theorem volume_conserved {K : Type} [Field K] [CharZero K] {ax ax' : List Axis} (hr : List.Forall₂ Refines ax ax')
    (hp : ∀ a ∈ ax, 2 * a.pad ≤ a.n) (hs : ∀ a ∈ ax, 0 < a.s) :
    (((ax.map (·.s)).prod : Nat) : K) * volume (K := K) ax' = volume (K := K) ax := by
  unfold volume
  rw [total_prod hr hp]
  have hS : (((ax.map (·.s)).prod : Nat) : K) ≠ 0 := by
    have : 0 < (ax.map (·.s)).prod := by
      apply list_prod_pos
      intro x hx
      rw [List.mem_map] at hx
      obtain ⟨a, ha, rfl⟩ := hx
      exact hs a ha
    exact_mod_cast (by omega : (ax.map (·.s)).prod ≠ 0)
  push_cast
  by_cases hP : (((ax.map fun a => a.n + 2 * a.sh).prod : Nat) : K) = 0
  · push_cast at hP
    simp [hP]
  · push_cast at hP
    field_simp

theorem open_shape_shift_step (n sh : Nat) (l : List (Nat × Nat)) (s pd : Nat) :
    openShapeShift n sh (l ++ [(s, pd)]) =
      (s * ((openShapeShift n sh l).1 - 2 * pd), s * ((openShapeShift n sh l).2 + pd)) := by
  induction l generalizing n sh with
  | nil => simp [openShapeShift]
  | cons p rest ih =>
    obtain ⟨s', pd'⟩ := p
    simp only [List.cons_append, openShapeShift]
    exact ih _ _

/-- the axis record of level `l+1` computed by `OpenGrid.at` refines the one of level `l` -/
theorem open_at_refines (n0 : Nat) (l : List (Nat × Nat)) (s pd : Nat) (a a' : Axis)
    (ha : a.n = (openShapeShift n0 0 l).1 ∧ a.sh = (openShapeShift n0 0 l).2 ∧ a.s = s ∧ a.pad = pd)
    (ha' : a'.n = (openShapeShift n0 0 (l ++ [(s, pd)])).1 ∧ a'.sh = (openShapeShift n0 0 (l ++ [(s, pd)])).2 ∧
           a'.ps = s ∧ a'.ppad = pd) : Refines a a' := by
  rw [open_shape_shift_step] at ha'
  obtain ⟨h1, h2, h3, h4⟩ := ha
  obtain ⟨g1, g2, g3, g4⟩ := ha'
  exact ⟨by rw [g1, h1, h3, h4], by rw [g3, h3], by rw [g4, h4], by rw [g2, h2, h3, h4]⟩

theorem children_append (ax1 ax2 : List Axis) (i1 i2 : List Nat) (h : ax1.length = i1.length) :
    children (ax1 ++ ax2) (i1 ++ i2) =
      (children ax1 i1).flatMap fun c1 => (children ax2 i2).map (c1 ++ ·) := by
  unfold children
  rw [List.zipWith_append h, cart_append]

theorem parentVec_append (ax1 ax2 : List Axis) (j1 j2 : List Nat) (h : ax1.length = j1.length) :
    parentVec (ax1 ++ ax2) (j1 ++ j2) = parentVec ax1 j1 ++ parentVec ax2 j2 := by
  unfold parentVec
  rw [List.zipWith_append h]

theorem neighborhood_append (ax1 ax2 : List Axis) (w1 w2 : List Nat) (i1 i2 : List Nat)
    (h : ax1.length = i1.length) (hw : ax1.length = w1.length) :
    neighborhood (ax1 ++ ax2) (w1 ++ w2) (i1 ++ i2) =
      (neighborhood ax1 w1 i1).flatMap fun c1 => (neighborhood ax2 w2 i2).map (c1 ++ ·) := by
  unfold neighborhood
  rw [List.zip_append hw, List.zipWith_append (by simpa [List.length_zip, ← hw] using h), cart_append]



theorem cover_hyp {ax ax' : List Axis} {j : List Nat} (hr : List.Forall₂ Refines ax ax')
    (hs : ∀ a ∈ ax, 0 < a.s) (hj : List.Forall₂ (fun j (a' : Axis) => j < a'.n) j ax') :
    List.Forall₂ (fun (a : Axis) j => 0 < a.s ∧ j < a.s * (a.n - 2 * a.pad)) ax j := by
  induction hr generalizing j with
  | nil => cases hj; exact List.Forall₂.nil
  | @cons a a' rest rest' h _ ih =>
    cases hj with
    | @cons jk _ js _ h1 h2 =>
      refine List.Forall₂.cons ⟨hs a List.mem_cons_self, ?_⟩ (ih (fun b hb => hs b (List.mem_cons_of_mem _ hb)) h2)
      rw [← h.n]; exact h1


section
variable {K : Type} [Field K] [CharZero K]

/-- lower edge of pixel `i` in unit coordinates: `index2coord(i - 1/2) = (i + shifts) / (shape + 2 shifts)` -/
def edge (n sh : Nat) (i : K) : K := (i + (sh : K)) / ((n : K) + 2 * (sh : K))

theorem edge_eq_coord (n sh : Nat) (i : K) : index2coord n sh (i - 1 / 2) = edge n sh i := by
  unfold index2coord edge
  congr 1
  ring

/-- the children of a refined pixel tile exactly the pixel's interval: lower edge of child `c` of `i` on the fine level
    is the parent's lower edge plus `c/s` of its width; in particular child 0 starts where the parent starts and the
    `s`-th edge is the parent's upper edge.  Hence for ANY radial map applied to the unit coordinate (logarithmic,
    broken-logarithmic grids) the children's volumes `f(upper) - f(lower)` telescope to the parent's volume. -/
theorem edges_refine (a a' : Axis) (h : Refines a a') (hs : 0 < a.s) (hp : 2 * a.pad ≤ a.n) (i : Nat) (hi : a.pad ≤ i)
    (c : Nat) (hpos : 0 < a.n + 2 * a.sh) :
    edge (K := K) a'.n a'.sh (((a.s * (i - a.pad) + c : Nat) : K)) =
      edge (K := K) a.n a.sh (i : K) + (c : K) / ((a.s : K) * ((a.n : K) + 2 * (a.sh : K))) := by
  unfold edge
  have htot := refines_total a a' h hp
  have hsK : (a.s : K) ≠ 0 := by exact_mod_cast (by omega : a.s ≠ 0)
  have hd : ((a.n : K) + 2 * (a.sh : K)) ≠ 0 := by
    have : ((a.n + 2 * a.sh : Nat) : K) ≠ 0 := by exact_mod_cast (by omega : a.n + 2 * a.sh ≠ 0)
    push_cast at this; exact this
  have hd' : ((a'.n : K) + 2 * (a'.sh : K)) = (a.s : K) * ((a.n : K) + 2 * (a.sh : K)) := by
    have : ((a'.n + 2 * a'.sh : Nat) : K) = ((a.s * (a.n + 2 * a.sh) : Nat) : K) := by rw [htot]
    push_cast at this; exact this
  rw [hd', h.sh]
  have hcast : ((a.s * (i - a.pad) + c : Nat) : K) = (a.s : K) * ((i : K) - (a.pad : K)) + (c : K) := by
    push_cast [Nat.cast_sub hi]; ring
  rw [hcast]
  push_cast
  field_simp
  ring

/-- `SimpleOpenGridAtLevel`: `index2coord = (i + shifts + 1/2) * distances` and its inverse, exact for every real shift -/
theorem simple_coord_roundtrip (n : K) (sh dist i : K) (hd : (n + 2 * sh) * dist ≠ 0) :
    (((i + sh + 1 / 2) / (n + 2 * sh)) * ((n + 2 * sh) * dist)) / ((n + 2 * sh) * dist) * (n + 2 * sh) - sh - 1 / 2 = i := by
  have h1 : n + 2 * sh ≠ 0 := fun h => hd (by rw [h, zero_mul])
  rw [mul_div_assoc, div_self hd, mul_one, div_mul_cancel₀ _ h1]
  ring

end

end NiftyVerif.Grid
