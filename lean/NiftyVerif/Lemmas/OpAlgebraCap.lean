/-
  Helper lemmas for C01 `cap_spec`: well-formedness, 4-bit masks, folds of `&&&` (core Lean only; tables by `decide`).
-/
import NiftyVerif.Model.OpAlgebra
namespace NiftyVerif.C01
open NiftyVerif.Gen.ModeTables NiftyVerif.OpAlgebra

variable {K D : Type}

/-- well-formed: adapter transformations are 1..3 (the constructor raises otherwise), leaf capabilities are 4-bit masks -/
def WF : Op K D → Bool
  | .leaf _ c _ _ => c < 16
  | .scaling _ _ _ => true
  | .diag _ _ _ _ => true
  | .idEntry _ => true
  | .blockdiag _ ents => (ents.map WF).all id
  | .null _ _ => true
  | .adapter o t => decide (t < 4) && WF o
  | .chain ops => (ops.map WF).all id
  | .sum ops _ => (ops.map WF).all id
  | .sandwich _ _ op => WF op
  | .invEnabler o => WF o

theorem and_bit : ∀ a, a < 16 → ∀ b, b < 16 → ∀ s, s < 4 →
    (((a &&& b) &&& (1 <<< s)) != 0) = (((a &&& (1 <<< s)) != 0) && ((b &&& (1 <<< s)) != 0)) := by decide
theorem and_lt16 : ∀ a, a < 16 → ∀ b, b < 16 → (a &&& b) < 16 := by decide
theorem adapterCap_lt : ∀ t, t < 4 → ∀ c, c < 16 → adapterCap t c < 16 := by decide
theorem invCap_lt : ∀ c, c < 16 → invEnablerCap c < 16 := by decide
theorem adapterCap_bit : ∀ t, t < 4 → ∀ c, c < 16 → ∀ s, s < 4 →
    (((adapterCap t c) &&& (1 <<< s)) != 0) = ((c &&& (1 <<< (s ^^^ t))) != 0) := by decide
theorem invCap_bit : ∀ c, c < 16 → ∀ s, s < 4 →
    (((invEnablerCap c) &&& (1 <<< s)) != 0) = (((c &&& (1 <<< s)) != 0) || ((c &&& (1 <<< (s ^^^ 2))) != 0)) := by decide
theorem consts_bit : ∀ s, s < 4 → (((allOps &&& (1 <<< s)) != 0) = true) ∧ (((chainCap &&& (1 <<< s)) != 0) = true) ∧
    (((sumCap &&& (1 <<< s)) != 0) = ((s &&& 2) == 0)) ∧ (((nullCap &&& (1 <<< s)) != 0) = ((s &&& 2) == 0)) ∧
    allOps < 16 ∧ chainCap < 16 ∧ sumCap < 16 ∧ nullCap < 16 := by decide
theorem xor_lt : ∀ s, s < 4 → ∀ t, t < 4 → s ^^^ t < 4 := by decide

theorem foldl_and_lt (l : List Nat) (init : Nat) (hi : init < 16) (hl : ∀ c ∈ l, c < 16) :
    l.foldl (· &&& ·) init < 16 := by
  induction l generalizing init with
  | nil => simpa
  | cons c cs ih =>
    simp only [List.foldl_cons]
    exact ih _ (and_lt16 _ hi _ (hl c (by simp))) (fun x hx => hl x (by simp [hx]))

theorem foldl_and_bit (l : List Nat) (init s : Nat) (hs : s < 4) (hi : init < 16) (hl : ∀ c ∈ l, c < 16) :
    (((l.foldl (· &&& ·) init) &&& (1 <<< s)) != 0) =
      (((init &&& (1 <<< s)) != 0) && l.all (fun c => (c &&& (1 <<< s)) != 0)) := by
  induction l generalizing init with
  | nil => simp
  | cons c cs ih =>
    have hc : c < 16 := hl c (by simp)
    simp only [List.foldl_cons, List.all_cons]
    rw [ih _ (and_lt16 _ hi _ hc) (fun x hx => hl x (by simp [hx])), and_bit _ hi _ hc _ hs, Bool.and_assoc]

theorem cap_lt (e : Op K D) (h : WF e = true) : cap e < 16 := by
  induction e using cap.induct with
  | case1 id c d t => simpa [WF, cap] using h
  | case2 => simp [cap, consts_bit 0 (by decide)]
  | case3 => simp [cap, consts_bit 0 (by decide)]
  | case4 => simp [cap, consts_bit 0 (by decide)]
  | case5 dm ents ih =>
    simp only [cap]
    apply foldl_and_lt _ _ (consts_bit 0 (by decide)).2.2.2.2.1
    intro c hc
    simp only [List.mem_map] at hc
    obtain ⟨o, ho, rfl⟩ := hc
    apply ih o ho
    simp only [WF, List.all_map, List.all_eq_true] at h
    exact h o ho
  | case6 => simp [cap, consts_bit 0 (by decide)]
  | case7 o t ih =>
    simp only [WF, Bool.and_eq_true, decide_eq_true_eq] at h
    simp only [cap]
    exact adapterCap_lt t h.1 _ (ih h.2)
  | case8 ops ih =>
    simp only [cap]
    apply foldl_and_lt _ _ (consts_bit 0 (by decide)).2.2.2.2.2.1
    intro c hc
    simp only [List.mem_map] at hc
    obtain ⟨o, ho, rfl⟩ := hc
    apply ih o ho
    simp only [WF, List.all_map, List.all_eq_true] at h
    exact h o ho
  | case9 ops neg ih =>
    simp only [cap]
    apply foldl_and_lt _ _ (consts_bit 0 (by decide)).2.2.2.2.2.2.1
    intro c hc
    simp only [List.mem_map] at hc
    obtain ⟨o, ho, rfl⟩ := hc
    apply ih o ho
    simp only [WF, List.all_map, List.all_eq_true] at h
    exact h o ho
  | case10 b c op ih => simp only [cap]; exact ih (by simpa [WF] using h)
  | case11 o ih => simp only [cap]; exact invCap_lt _ (ih (by simpa [WF] using h))


theorem all_congr_mem {α : Type} (l : List α) (f g : α → Bool) (h : ∀ o ∈ l, f o = g o) : l.all f = l.all g := by
  induction l with
  | nil => rfl
  | cons o os ih =>
    simp only [List.all_cons]
    rw [h o (by simp), ih (fun x hx => h x (by simp [hx]))]

theorem all_map_congr (ops : List (Op K D)) (f g : Op K D → Bool) (h : ∀ o ∈ ops, f o = g o) :
    (ops.map f).all id = (ops.map g).all id := by
  induction ops with
  | nil => rfl
  | cons o os ih =>
    simp only [List.map_cons, List.all_cons, id]
    rw [h o (by simp), ih (fun x hx => h x (by simp [hx]))]

end NiftyVerif.C01
