/-
  Lemmas/HarmonicInstance.lean — a concrete non-trivial instance in ℂ (axes of length 4, 2, 1; ω = -i, -1, 1),
  used by the non-vacuity examples of Props/C09.lean.
-/
import NiftyVerif.Lemmas.HarmonicZero
import Mathlib.Data.Complex.Basic
import Mathlib.Tactic.IntervalCases
import Mathlib.Tactic.NormNum

namespace NiftyVerif.Harmonic
open Complex

theorem prim_negI : IsPrimitiveRoot (-I : ℂ) 4 := by
  refine IsPrimitiveRoot.mk_of_lt _ (by norm_num) ?_ ?_
  · have : (-I : ℂ) ^ 4 = ((-I) ^ 2) ^ 2 := by ring
    rw [this, neg_sq, I_sq]; norm_num
  · intro l h0 h4
    interval_cases l
    · intro h
      have := congrArg Complex.im h
      simp at this
    · rw [neg_sq, I_sq]; norm_num
    · have : (-I : ℂ) ^ 3 = (-I) ^ 2 * (-I) := by ring
      rw [this, neg_sq, I_sq]
      intro h
      have := congrArg Complex.im h
      simp at this

theorem prim_negOne : IsPrimitiveRoot (-1 : ℂ) 2 := by
  refine IsPrimitiveRoot.mk_of_lt _ (by norm_num) (by norm_num) ?_
  intro l h0 h2
  interval_cases l
  norm_num

/-- the grid 4 × 2 × 1 over ℂ -/
noncomputable def gridC : Grid ℂ :=
  { n1 := 4, n2 := 2, n3 := 1, w1 := -I, w2 := -1, w3 := 1, wb1 := I, wb2 := -1, wb3 := 1, nInv := 1 / 8 }

noncomputable def scalC : Scal ℂ := { I := I, half := 1 / 2, conj := starRingEnd ℂ }

theorem gridC_ok : GridOK gridC where
  pos1 := by decide
  pos2 := by decide
  pos3 := by decide
  prim1 := prim_negI
  prim2 := prim_negOne
  prim3 := IsPrimitiveRoot.one
  bar1 := by simp [gridC]
  bar2 := by simp [gridC]
  bar3 := by simp [gridC]
  inv := by simp [gridC, Grid.ncells]

theorem gridC_conj : ConjOK (starRingEnd ℂ) gridC where
  invol := fun z => Complex.conj_conj z
  w1 := by simp [gridC]
  w2 := by simp [gridC]
  w3 := by simp [gridC]
  nInv := by simp [gridC, map_ofNat]

theorem scalC_ok : ScalOK scalC (starRingEnd ℂ) where
  conj := fun _ => rfl
  II := by simp [scalC]
  half := by simp [scalC]
  conjI := by simp [scalC]

/-- a real, non-constant tensor -/
noncomputable def xC : Tensor ℂ := fun i => ((i.j1 + 2 * i.j2 + 3 * i.p + 5 * i.q : ℕ) : ℂ)

theorem xC_real : IsReal (starRingEnd ℂ) xC := fun i => by simp only [xC, map_natCast]

end NiftyVerif.Harmonic
