/-
  The Gaussian rationals of `Model/CQ.lean` form a commutative ring and `CQ.conj` is an involutive ring
  endomorphism: the generic `Coo` theorems (stated for every commutative ring with such a conjugation) apply to
  exactly the arithmetic the C02/C35 drivers run.
-/
import NiftyVerif.Model.CQ
import NiftyVerif.Lemmas.Coo
import Mathlib.Algebra.Ring.Rat
import Mathlib.Tactic.Ring

namespace NiftyVerif.CQ

@[ext] theorem ext {a b : CQ} (h1 : a.re = b.re) (h2 : a.im = b.im) : a = b := by
  cases a; cases b; simp_all

@[simp] theorem add_re (a b : CQ) : (a + b).re = a.re + b.re := rfl
@[simp] theorem add_im (a b : CQ) : (a + b).im = a.im + b.im := rfl
@[simp] theorem sub_re (a b : CQ) : (a - b).re = a.re - b.re := rfl
@[simp] theorem sub_im (a b : CQ) : (a - b).im = a.im - b.im := rfl
@[simp] theorem neg_re (a : CQ) : (-a).re = -a.re := rfl
@[simp] theorem neg_im (a : CQ) : (-a).im = -a.im := rfl
@[simp] theorem mul_re (a b : CQ) : (a * b).re = a.re * b.re - a.im * b.im := rfl
@[simp] theorem mul_im (a b : CQ) : (a * b).im = a.re * b.im + a.im * b.re := rfl
@[simp] theorem zero_re : (0 : CQ).re = 0 := rfl
@[simp] theorem zero_im : (0 : CQ).im = 0 := rfl
@[simp] theorem one_re : (1 : CQ).re = 1 := rfl
@[simp] theorem one_im : (1 : CQ).im = 0 := rfl
@[simp] theorem conj_re (a : CQ) : (conj a).re = a.re := rfl
@[simp] theorem conj_im (a : CQ) : (conj a).im = -a.im := rfl

instance : Zero CQ := ⟨0⟩
instance : One CQ := ⟨1⟩

instance instCommRing : CommRing CQ where
  add := (· + ·)
  mul := (· * ·)
  neg := Neg.neg
  sub := (· - ·)
  zero := 0
  one := 1
  nsmul := nsmulRec
  zsmul := zsmulRec
  npow := npowRec
  add_assoc a b c := by ext <;> simp <;> ring
  zero_add a := by ext <;> simp
  add_zero a := by ext <;> simp
  add_comm a b := by ext <;> simp <;> ring
  neg_add_cancel a := by ext <;> simp
  sub_eq_add_neg a b := by ext <;> simp <;> ring
  mul_assoc a b c := by ext <;> simp <;> ring
  one_mul a := by ext <;> simp
  mul_one a := by ext <;> simp
  zero_mul a := by ext <;> simp
  mul_zero a := by ext <;> simp
  left_distrib a b c := by ext <;> simp <;> ring
  right_distrib a b c := by ext <;> simp <;> ring
  mul_comm a b := by ext <;> simp <;> ring

/-- complex conjugation on the driver's scalars satisfies what `coo_adjoint` needs -/
theorem conj_isConj : IsConj CQ.conj where
  add a b := by ext <;> simp; ring
  mul a b := by ext <;> simp <;> ring
  invol a := by ext <;> simp

theorem conj_one : CQ.conj 1 = 1 := by ext <;> simp

end NiftyVerif.CQ
