/-
  Lawful instances of the abstract setting of Lemmas/CgClassic.lean (`Sys.Linear`, `Sys.Bilinear`, `Sys.SPD`, `Sys.SPDP`):

  * **complex Hermitian systems**: `V = n → ℂ` as a real vector space, `ip u v = Re (uᴴ v)` (the code's
    `u.s_vdot(v).real`), `A = M ·` for a Hermitian positive definite complex matrix `M`, preconditioner `N ·` for a
    Hermitian positive definite `N` (or none).  So every theorem of Props/C14.lean covers the complex case.
  * **the driver instance**: `V = RVec N` (exact rational vectors, Model/RVec.lean) with `RVec.dot` and `RVec.matVec`,
    i.e. the system `C14Driver.sysOf` that `Driver/C14.lean` runs.  The module structure on `RVec N`
    (Lemmas/RVec.lean) has the model's point-wise operations as its operations, so the theorems speak about the very
    terms the driver evaluates.
-/
import NiftyVerif.Lemmas.CgClassicExact
import NiftyVerif.Lemmas.CgClassicExactJ
import NiftyVerif.Lemmas.RVec
import NiftyVerif.Model.CgClassicDriver
import Mathlib.LinearAlgebra.Complex.Module
import Mathlib.Data.Complex.BigOperators
import Mathlib.Data.Matrix.Mul
import Mathlib.LinearAlgebra.Matrix.ConjTranspose
import Mathlib.Data.Real.Basic
import Mathlib.Algebra.Star.Pi
import Mathlib.LinearAlgebra.Complex.FiniteDimensional
import Mathlib.LinearAlgebra.Dimension.Constructions

set_option linter.unusedSectionVars false
set_option linter.unnecessarySeqFocus false

namespace NiftyVerif.CgClassic
open NiftyVerif.Ctrl Matrix

/-! ### complex Hermitian positive definite systems -/
section complex
variable {n : Type} [Fintype n]

/-- `Re (uᴴ v)` -/
def reDot (u v : n → ℂ) : ℝ := (star u ⬝ᵥ v).re

/-- the real-linear system given by complex matrices: operator `M`, optional preconditioner `N` -/
def complexSys (M : Matrix n n ℂ) (b : Option (n → ℂ)) (N : Option (Matrix n n ℂ)) (ninfsq : (n → ℂ) → ℝ) :
    Sys (n → ℂ) ℝ :=
  { A := fun v => M *ᵥ v, b := b, P := N.map fun N => fun v => N *ᵥ v, ip := reDot, ninfsq := ninfsq }

theorem reDot_add_left (u v w : n → ℂ) : reDot (u + v) w = reDot u w + reDot v w := by
  unfold reDot
  rw [star_add, add_dotProduct, Complex.add_re]

theorem reDot_smul_left (a : ℝ) (u v : n → ℂ) : reDot (a • u) v = a * reDot u v := by
  unfold reDot
  rw [star_smul, star_trivial, smul_dotProduct, Complex.smul_re, smul_eq_mul]

theorem reDot_symm (u v : n → ℂ) : reDot u v = reDot v u := by
  unfold reDot
  rw [star_dotProduct, Complex.star_def, Complex.conj_re]

theorem reDot_self (v : n → ℂ) : reDot v v = ∑ i, Complex.normSq (v i) := by
  unfold reDot dotProduct
  rw [Complex.re_sum]
  apply Finset.sum_congr rfl
  intro i _
  simp [Complex.normSq_apply, Complex.mul_re]

theorem reDot_self_pos {v : n → ℂ} (hv : v ≠ 0) : 0 < reDot v v := by
  rw [reDot_self]
  obtain ⟨i, hi⟩ := Function.ne_iff.1 hv
  apply Finset.sum_pos'
  · intro j _; exact Complex.normSq_nonneg _
  · exact ⟨i, Finset.mem_univ _, Complex.normSq_pos.2 hi⟩

/-- a Hermitian matrix is self-adjoint for `Re (uᴴ v)` -/
theorem reDot_mulVec_selfAdj {M : Matrix n n ℂ} (hM : Mᴴ = M) (x y : n → ℂ) :
    reDot x (M *ᵥ y) = reDot (M *ᵥ x) y := by
  unfold reDot
  rw [star_mulVec, hM, dotProduct_mulVec]

/-- **complex Hermitian positive definite systems satisfy all hypotheses** (`Sys.SPDP`, hence `Sys.SPD`, `Sys.Linear`,
    `Sys.Bilinear`): `M` Hermitian with `Re (xᴴ M x) > 0` for `x ≠ 0`; preconditioner none, or `N` with the same
    properties. -/
theorem complexSys_spdp (M : Matrix n n ℂ) (b : Option (n → ℂ)) (N : Option (Matrix n n ℂ))
    (ninfsq : (n → ℂ) → ℝ) (hM : Mᴴ = M) (hMpos : ∀ x : n → ℂ, x ≠ 0 → 0 < (star x ⬝ᵥ M *ᵥ x).re)
    (hN : ∀ N', N = some N' → N'ᴴ = N' ∧ ∀ x : n → ℂ, x ≠ 0 → 0 < (star x ⬝ᵥ N' *ᵥ x).re) :
    (complexSys M b N ninfsq).SPDP where
  lin := ⟨fun x y => mulVec_sub M x y, fun a x => mulVec_smul M a x⟩
  bil := ⟨reDot_add_left, reDot_smul_left, reDot_symm⟩
  selfAdj := fun x y => reDot_mulVec_selfAdj hM x y
  A_pos := fun v hv => hMpos v hv
  P_pos := by
    intro v hv
    cases N with
    | none => exact reDot_self_pos hv
    | some N' => exact (hN N' rfl).2 v hv
  P_add := by
    intro x y
    cases N with
    | none => rfl
    | some N' => exact mulVec_add N' x y
  P_smul := by
    intro a x
    cases N with
    | none => rfl
    | some N' => exact mulVec_smul N' a x
  P_selfAdj := by
    intro x y
    cases N with
    | none => rfl
    | some N' => exact reDot_mulVec_selfAdj (hN N' rfl).1 x y

/-- real dimension of `ℂⁿ` -/
theorem finrank_complex_vec (n : ℕ) : Module.finrank ℝ (Fin n → ℂ) = 2 * n := by
  rw [Module.finrank_pi_fintype]
  simp [Complex.finrank_real_complex, mul_comm]

/-- exact termination for complex Hermitian positive definite `n × n` systems: at most `2n` iterations (the real
    dimension; the sharper classical bound `n` needs the complex-linear structure and is not proved here) -/
theorem cg_exact_complexSys {τ : Type} {n : ℕ} (M : Matrix (Fin n) (Fin n) ℂ) (b : Option (Fin n → ℂ))
    (N : Option (Matrix (Fin n) (Fin n) ℂ)) (ninfsq : (Fin n → ℂ) → ℝ) (hM : Mᴴ = M)
    (hMpos : ∀ x : Fin n → ℂ, x ≠ 0 → 0 < (star x ⬝ᵥ M *ᵥ x).re)
    (hN : ∀ N', N = some N' → N'ᴴ = N' ∧ ∀ x : Fin n → ℂ, x ≠ 0 → 0 < (star x ⬝ᵥ N' *ᵥ x).re)
    (c : Ctrl ℝ τ) (nreset : Int) (fuel : Nat) (hfuel : 2 * n ≤ fuel) (x0 : Fin n → ℂ) :
    (cg (complexSys M b N ninfsq) c nreset fuel (QE.at (complexSys M b N ninfsq) x0)).reason ≠ .fuel ∧
    (cg (complexSys M b N ninfsq) c nreset fuel (QE.at (complexSys M b N ninfsq) x0)).iters.length ≤ 2 * n := by
  have h := cg_exact (complexSys M b N ninfsq) (complexSys_spdp M b N ninfsq hM hMpos hN) c nreset fuel
    (by rw [finrank_complex_vec]; exact hfuel) _ (at_consistent _ x0)
  rwa [finrank_complex_vec] at h

theorem reDot_I (u v : n → ℂ) : reDot (Complex.I • u) (Complex.I • v) = reDot u v := by
  unfold reDot
  rw [star_smul, smul_dotProduct, dotProduct_smul, smul_smul]
  simp

/-- multiplication by `i` is a compatible complex structure for a complex Hermitian positive definite system -/
theorem complexSys_hermitian (M : Matrix n n ℂ) (b : Option (n → ℂ)) (N : Option (Matrix n n ℂ))
    (ninfsq : (n → ℂ) → ℝ) (hM : Mᴴ = M) (hMpos : ∀ x : n → ℂ, x ≠ 0 → 0 < (star x ⬝ᵥ M *ᵥ x).re)
    (hN : ∀ N', N = some N' → N'ᴴ = N' ∧ ∀ x : n → ℂ, x ≠ 0 → 0 < (star x ⬝ᵥ N' *ᵥ x).re) :
    (complexSys M b N ninfsq).Hermitian (fun v => Complex.I • v) :=
  { complexSys_spdp M b N ninfsq hM hMpos hN with
    J_add := fun x y => smul_add _ x y
    J_smul := fun a x => smul_comm _ a x
    J_sq := by intro x; simp [smul_smul]
    ip_J := fun x y => reDot_I x y
    A_J := fun x => mulVec_smul M Complex.I x
    P_J := by
      intro x
      cases N with
      | none => rfl
      | some N' => exact mulVec_smul N' Complex.I x }

/-- **the classical bound**: CG on a complex Hermitian positive definite `n × n` system makes at most `n` passes -/
theorem cg_exact_complexSys_sharp {τ : Type} {n : ℕ} (M : Matrix (Fin n) (Fin n) ℂ) (b : Option (Fin n → ℂ))
    (N : Option (Matrix (Fin n) (Fin n) ℂ)) (ninfsq : (Fin n → ℂ) → ℝ) (hM : Mᴴ = M)
    (hMpos : ∀ x : Fin n → ℂ, x ≠ 0 → 0 < (star x ⬝ᵥ M *ᵥ x).re)
    (hN : ∀ N', N = some N' → N'ᴴ = N' ∧ ∀ x : Fin n → ℂ, x ≠ 0 → 0 < (star x ⬝ᵥ N' *ᵥ x).re)
    (c : Ctrl ℝ τ) (nreset : Int) (fuel : Nat) (hfuel : n ≤ fuel) (x0 : Fin n → ℂ) :
    (cg (complexSys M b N ninfsq) c nreset fuel (QE.at (complexSys M b N ninfsq) x0)).reason ≠ .fuel ∧
    (cg (complexSys M b N ninfsq) c nreset fuel (QE.at (complexSys M b N ninfsq) x0)).iters.length ≤ n := by
  have h := cg_exact_J (complexSys M b N ninfsq) _ (complexSys_hermitian M b N ninfsq hM hMpos hN) c nreset fuel
    (by rw [finrank_complex_vec]; omega) _ (at_consistent _ x0)
  rw [finrank_complex_vec] at h
  exact ⟨h.1, by omega⟩

end complex

/-! ### the driver instance -/
section driver
open NiftyVerif.C14Driver

variable {N : Nat}

/-- the system run by `Driver/C14.lean` is linear ... -/
theorem sysOf_linear (cplx : Bool) (A : RVec.Mat N N) (b : Option (RVec N)) (P : Option (RVec.Mat N N)) :
    (sysOf cplx A b P).Linear :=
  ⟨fun x y => (RVec.matVec_linear A).sub x y, fun a x => (RVec.matVec_linear A).smul a x⟩

/-- ... and its `ip` (`RVec.dot`) is a symmetric bilinear form: every theorem of Props/C14.lean that needs only
    linearity/bilinearity (`cg_grad_invariant`, `cg_value_correct`, `cg_verdict_sound`, …) applies to every driver run -/
theorem sysOf_bilinear (cplx : Bool) (A : RVec.Mat N N) (b : Option (RVec N)) (P : Option (RVec.Mat N N)) :
    (sysOf cplx A b P).Bilinear :=
  ⟨RVec.dot_symmBilin.add_left, RVec.dot_symmBilin.smul_left, RVec.dot_symmBilin.symm⟩

/-- the gradient invariant, instantiated at what the driver evaluates for a `"cg"` request -/
theorem driver_cg_consistent {τ : Type} (cplx : Bool) (A : RVec.Mat N N) (b : Option (RVec N))
    (P : Option (RVec.Mat N N)) (c : Ctrl ℚ τ) (nreset : Int) (fuel : Nat) (x : RVec N) :
    (cg (sysOf cplx A b P) c nreset fuel (QE.make (sysOf cplx A b P) x none)).energy.Consistent (sysOf cplx A b P) :=
  (cg_basic (sysOf cplx A b P) (sysOf_linear cplx A b P) c nreset fuel _ (at_consistent _ x)).energy

end driver

end NiftyVerif.CgClassic
