/-
  Lemmas for C36 (Model/Minisanity.lean): the classic per-sample statistics in terms of the entries that are kept
  (neither NaN nor exactly zero).
-/
import NiftyVerif.Model.Minisanity
import Mathlib.Algebra.Field.Basic
import Mathlib.Algebra.CharZero.Defs
import Mathlib.Tactic.Ring
import Mathlib.Tactic.FieldSimp

namespace NiftyVerif.Minisanity

variable {K : Type} [Field K] [DecidableEq K]

/-- the entries that count: not NaN, not exactly zero -/
def kept (r : Res K) : List (Entry K) := (r.filterMap id).filter (fun e => !e.isZero)

theorem sumK_cons (a : K) (l : List K) : sumK (a :: l) = a + sumK l := rfl
theorem sumK_nil : sumK ([] : List K) = 0 := rfl

theorem abs2_of_isZero (e : Entry K) (h : e.isZero = true) : e.abs2 = 0 := by
  simp only [Entry.isZero, decide_eq_true_eq] at h
  simp [Entry.abs2, h.1, h.2]

theorem re_of_isZero (e : Entry K) (h : e.isZero = true) : e.re = 0 := by
  simp only [Entry.isZero, decide_eq_true_eq] at h; exact h.1

theorem im_of_isZero (e : Entry K) (h : e.isZero = true) : e.im = 0 := by
  simp only [Entry.isZero, decide_eq_true_eq] at h; exact h.2

/-- the counts partition the array, and zeros / NaNs contribute nothing to the three sums -/
theorem decompose (r : Res K) :
    nNan r + nZero r + (kept r).length = r.length ∧
    sumSq r = sumK ((kept r).map Entry.abs2) ∧ sumRe r = sumK ((kept r).map Entry.re) ∧
    sumIm r = sumK ((kept r).map Entry.im) := by
  induction r with
  | nil => simp [nNan, nZero, kept, sumSq, sumRe, sumIm, sumK]
  | cons x r ih =>
    obtain ⟨h1, h2, h3, h4⟩ := ih
    cases x with
    | none =>
      refine ⟨?_, ?_, ?_, ?_⟩
      · simp only [nNan, nZero, kept, List.filter_cons, Option.isNone_none, if_true, List.length_cons,
          List.filterMap_cons, id] at h1 ⊢
        simp at h1 ⊢; omega
      · simpa [sumSq, kept] using h2
      · simpa [sumRe, kept] using h3
      · simpa [sumIm, kept] using h4
    | some e =>
      by_cases hz : e.isZero = true
      · refine ⟨?_, ?_, ?_, ?_⟩
        · simp only [nNan, nZero, kept] at h1 ⊢
          simp [List.filter_cons, hz] at h1 ⊢; omega
        · simp only [sumSq, kept] at h2 ⊢
          simp [List.filter_cons, hz, sumK_cons, abs2_of_isZero e hz, h2]
        · simp only [sumRe, kept] at h3 ⊢
          simp [List.filter_cons, hz, sumK_cons, re_of_isZero e hz, h3]
        · simp only [sumIm, kept] at h4 ⊢
          simp [List.filter_cons, hz, sumK_cons, im_of_isZero e hz, h4]
      · have hz' : e.isZero = false := by simpa using hz
        refine ⟨?_, ?_, ?_, ?_⟩
        · simp only [nNan, nZero, kept] at h1 ⊢
          simp [List.filter_cons, hz'] at h1 ⊢; omega
        · simp only [sumSq, kept] at h2 ⊢
          simp [List.filter_cons, hz', sumK_cons, h2]
        · simp only [sumRe, kept] at h3 ⊢
          simp [List.filter_cons, hz', sumK_cons, h3]
        · simp only [sumIm, kept] at h4 ⊢
          simp [List.filter_cons, hz', sumK_cons, h4]

theorem lsize_eq (r : Res K) : lsize r = (kept r).length := by
  have := (decompose r).1
  unfold lsize; omega

theorem counts (r : Res K) : lsize r + (nNan r + nZero r) = r.length := by
  have := (decompose r).1
  have hl := lsize_eq r
  omega

theorem guardedDiv_spec [CharZero K] (tmp : K) (n : Nat) (h : n = 0 → tmp = 0) :
    guardedDiv tmp n = if n = 0 then 0 else tmp / (n : K) := by
  unfold guardedDiv
  by_cases hn : n = 0
  · simp [hn, h hn]
  · simp [hn]

end NiftyVerif.Minisanity
