/-
  Lemmas/HarmonicGrid.lean — three-axis transforms: composition, adjoints over the whole box.
-/
import NiftyVerif.Lemmas.HarmonicAxis

namespace NiftyVerif.Harmonic
open Finset

variable {K : Type} [CommRing K]

/-- the box as a finset of indices -/
def boxF (P n1 n2 n3 Q : Nat) : Finset Idx :=
  (range P ×ˢ range n1 ×ˢ range n2 ×ˢ range n3 ×ˢ range Q).image
    (fun t => (⟨t.1, t.2.1, t.2.2.1, t.2.2.2.1, t.2.2.2.2⟩ : Idx))

theorem mem_boxF (P n1 n2 n3 Q : Nat) (i : Idx) :
    i ∈ boxF P n1 n2 n3 Q ↔ i.p < P ∧ i.j1 < n1 ∧ i.j2 < n2 ∧ i.j3 < n3 ∧ i.q < Q := by
  simp only [boxF, mem_image, mem_product, mem_range, Prod.exists]
  constructor
  · rintro ⟨p, j1, j2, j3, q, ⟨h1, h2, h3, h4, h5⟩, rfl⟩
    exact ⟨h1, h2, h3, h4, h5⟩
  · rintro ⟨h1, h2, h3, h4, h5⟩
    exact ⟨i.p, i.j1, i.j2, i.j3, i.q, ⟨h1, h2, h3, h4, h5⟩, rfl⟩

theorem boxSum_eq (P : Nat) (g : Grid K) (Q : Nat) (f : Idx → K) :
    boxSum P g Q f = ∑ i ∈ boxF P g.n1 g.n2 g.n3 Q, f i := by
  unfold boxSum boxF
  simp only [sumTo_eq_sum]
  rw [Finset.sum_image]
  · simp only [Finset.sum_product]
  · intro a _ b _ h
    simp only [Idx.mk.injEq] at h
    obtain ⟨h1, h2, h3, h4, h5⟩ := h
    ext <;> assumption

/-- adjoint of an axis application w.r.t. the sesquilinear pairing Σ σ(y)·x over a set closed under the axis -/
theorem axG_adjoint (L : Lens) (hL : L.OK) (n : Nat) (S : Finset Idx)
    (hS1 : ∀ i ∈ S, L.get i < n) (hS2 : ∀ i ∈ S, ∀ j, j < n → L.set i j ∈ S)
    (σ : K →+* K) (hσ : ∀ z, σ (σ z) = z) (A : Nat → Nat → K) (x y : Tensor K) :
    ∑ i ∈ S, σ (y i) * axG L n A x i
      = ∑ i ∈ S, σ (axG L n (fun k j => σ (A j k)) y i) * x i := by
  simp only [axG, map_sum, map_mul, hσ, Finset.mul_sum, Finset.sum_mul]
  rw [← Finset.sum_product', ← Finset.sum_product']
  refine Finset.sum_nbij' (fun t => (L.set t.1 t.2, L.get t.1)) (fun t => (L.set t.1 t.2, L.get t.1))
    ?_ ?_ ?_ ?_ ?_
  · intro t ht
    rw [mem_product] at ht ⊢
    exact ⟨hS2 _ ht.1 _ (mem_range.mp ht.2), mem_range.mpr (hS1 _ ht.1)⟩
  · intro t ht
    rw [mem_product] at ht ⊢
    exact ⟨hS2 _ ht.1 _ (mem_range.mp ht.2), mem_range.mpr (hS1 _ ht.1)⟩
  · intro t _
    simp only [hL.set_set, hL.get_set, hL.set_get]
  · intro t _
    simp only [hL.set_set, hL.get_set, hL.set_get]
  · intro t _
    simp only [hL.set_set, hL.get_set, hL.set_get]
    ring

/-- three matrices applied along the three axes of the grid -/
def tr3 (n1 n2 n3 : Nat) (A1 A2 A3 : Nat → Nat → K) (x : Tensor K) : Tensor K :=
  axG L3 n3 A3 (axG L2 n2 A2 (axG L1 n1 A1 x))

theorem tr3_smul (n1 n2 n3 : Nat) (A1 A2 A3 : Nat → Nat → K) (c : K) (x : Tensor K) :
    tr3 n1 n2 n3 A1 A2 A3 (fun i => c * x i) = fun i => c * tr3 n1 n2 n3 A1 A2 A3 x i := by
  unfold tr3
  rw [axG_smul, axG_smul, axG_smul]

theorem tr3_add (n1 n2 n3 : Nat) (A1 A2 A3 : Nat → Nat → K) (x y : Tensor K) :
    tr3 n1 n2 n3 A1 A2 A3 (fun i => x i + y i)
      = fun i => tr3 n1 n2 n3 A1 A2 A3 x i + tr3 n1 n2 n3 A1 A2 A3 y i := by
  unfold tr3
  rw [axG_add, axG_add, axG_add]

theorem tr3_map (σ : K →+* K) (n1 n2 n3 : Nat) (A1 A2 A3 : Nat → Nat → K) (x : Tensor K) (i : Idx) :
    σ (tr3 n1 n2 n3 A1 A2 A3 x i)
      = tr3 n1 n2 n3 (fun k j => σ (A1 k j)) (fun k j => σ (A2 k j)) (fun k j => σ (A3 k j))
          (fun i => σ (x i)) i := by
  unfold tr3
  rw [axG_map]
  congr 1
  funext i2
  rw [axG_map]
  congr 1
  funext i3
  rw [axG_map]

/-- composition of two three-axis transforms whose factors multiply to c_a·(permutation π_a) -/
theorem tr3_comp (n1 n2 n3 : Nat) (A1 A2 A3 B1 B2 B3 : Nat → Nat → K) (c1 c2 c3 : K) (π1 π2 π3 : Nat → Nat)
    (hπ1 : ∀ k, k < n1 → π1 k < n1) (hπ2 : ∀ k, k < n2 → π2 k < n2) (hπ3 : ∀ k, k < n3 → π3 k < n3)
    (h1 : ∀ k l, k < n1 → l < n1 → ∑ j ∈ range n1, A1 k j * B1 j l = if l = π1 k then c1 else 0)
    (h2 : ∀ k l, k < n2 → l < n2 → ∑ j ∈ range n2, A2 k j * B2 j l = if l = π2 k then c2 else 0)
    (h3 : ∀ k l, k < n3 → l < n3 → ∑ j ∈ range n3, A3 k j * B3 j l = if l = π3 k then c3 else 0)
    (x : Tensor K) (i : Idx) (hi1 : i.j1 < n1) (hi2 : i.j2 < n2) (hi3 : i.j3 < n3) :
    tr3 n1 n2 n3 A1 A2 A3 (tr3 n1 n2 n3 B1 B2 B3 x) i
      = c3 * (c2 * (c1 * x ⟨i.p, π1 i.j1, π2 i.j2, π3 i.j3, i.q⟩)) := by
  unfold tr3
  rw [axG_comm L1 L3 L13 n1 n3 A1 B3, axG_comm L1 L2 L12 n1 n2 A1 B2, axG_comm L2 L3 L23 n2 n3 A2 B3]
  rw [axG_comp L3 L3_ok n3 A3 B3 c3 π3 hπ3 h3 _ i hi3]
  rw [axG_comp L2 L2_ok n2 A2 B2 c2 π2 hπ2 h2 _ (L3.set i (π3 (L3.get i))) hi2]
  rw [axG_comp L1 L1_ok n1 A1 B1 c1 π1 hπ1 h1 _
        (L2.set (L3.set i (π3 (L3.get i))) (π2 (L2.get (L3.set i (π3 (L3.get i)))))) hi1]
  rfl

/-- adjoint of a three-axis transform over the whole box -/
theorem tr3_adjoint (P Q n1 n2 n3 : Nat) (σ : K →+* K) (hσ : ∀ z, σ (σ z) = z)
    (A1 A2 A3 : Nat → Nat → K) (x y : Tensor K) :
    ∑ i ∈ boxF P n1 n2 n3 Q, σ (y i) * tr3 n1 n2 n3 A1 A2 A3 x i
      = ∑ i ∈ boxF P n1 n2 n3 Q,
          σ (tr3 n1 n2 n3 (fun k j => σ (A1 j k)) (fun k j => σ (A2 j k)) (fun k j => σ (A3 j k)) y i) * x i := by
  unfold tr3
  have m := mem_boxF P n1 n2 n3 Q
  rw [axG_adjoint L3 L3_ok n3 _ (fun i hi => ((m i).mp hi).2.2.2.1)
        (fun i hi j hj => (m _).mpr ⟨((m i).mp hi).1, ((m i).mp hi).2.1, ((m i).mp hi).2.2.1, hj, ((m i).mp hi).2.2.2.2⟩)
        σ hσ]
  rw [axG_adjoint L2 L2_ok n2 _ (fun i hi => ((m i).mp hi).2.2.1)
        (fun i hi j hj => (m _).mpr ⟨((m i).mp hi).1, ((m i).mp hi).2.1, hj, ((m i).mp hi).2.2.2.1, ((m i).mp hi).2.2.2.2⟩)
        σ hσ]
  rw [axG_adjoint L1 L1_ok n1 _ (fun i hi => ((m i).mp hi).2.1)
        (fun i hi j hj => (m _).mpr ⟨((m i).mp hi).1, hj, ((m i).mp hi).2.2.1, ((m i).mp hi).2.2.2.1, ((m i).mp hi).2.2.2.2⟩)
        σ hσ]
  rw [axG_comm L1 L2 L12, axG_comm L1 L3 L13, axG_comm L2 L3 L23]

end NiftyVerif.Harmonic
