/-
  Two more facts about every result of the CG loop (no hypotheses on the system at all):
  the returned energy object is the start energy or one of the objects made by the loop, and unless the model ran out of
  fuel the returned status is CONVERGED or ERROR (never CONTINUE).
-/
import NiftyVerif.Lemmas.CgClassic

set_option linter.unusedSectionVars false
set_option linter.unnecessarySeqFocus false

namespace NiftyVerif.CgClassic
open NiftyVerif.Ctrl

variable {K V τ : Type} [Field K] [LinearOrder K] [IsStrictOrderedRing K] [AddCommGroup V] [Module K V]

theorem loop_last (S : Sys V K) (c : Ctrl K τ) (nreset : Int) (fuel : Nat)
    (E : QE V K) (r d : V) (pg : K) (ii : Int) (s : St τ) (ch md : List (QE V K)) (its : List (Iter K))
    (E0 : QE V K) (hEm : E ∈ E0 :: md) :
    (loop S c nreset fuel E r d pg ii s ch md its).energy ∈ E0 :: (loop S c nreset fuel E r d pg ii s ch md its).made ∧
    ((loop S c nreset fuel E r d pg ii s ch md its).reason ≠ .fuel →
      (loop S c nreset fuel E r d pg ii s ch md its).status = .converged ∨
      (loop S c nreset fuel E r d pg ii s ch md its).status = .error) := by
  fun_induction loop S c nreset fuel E r d pg ii s ch md its
  case case1 => exact ⟨hEm, by simp⟩
  case case2 => exact ⟨hEm, by simp⟩
  case case3 => exact ⟨hEm, by simp⟩
  case case4 => exact ⟨by simp, by simp⟩
  case case5 => exact ⟨by simp, by simp⟩
  case case6 => exact ⟨by simp, by simp⟩
  case case7 fuel E r d pg ii s ch md its hcurv halpha E' r' ii' hadv it hgam hgz s1 status hchk hst =>
    refine ⟨by simp, ?_⟩
    intro _
    cases status <;> simp_all
  case case8 fuel E r d pg ii s ch md its hcurv halpha E' r' ii' hadv it hg1 hg2 s1 status hchk hst ih =>
    exact ih (by simp)

theorem cg_last (S : Sys V K) (c : Ctrl K τ) (nreset : Int) (fuel : Nat) (E : QE V K) :
    (cg S c nreset fuel E).energy ∈ E :: (cg S c nreset fuel E).made ∧
    ((cg S c nreset fuel E).reason ≠ .fuel →
      (cg S c nreset fuel E).status = .converged ∨ (cg S c nreset fuel E).status = .error) := by
  unfold cg
  split
  · exact ⟨by simp, by simp⟩
  · rename_i s status hstart
    split
    · rename_i hst
      refine ⟨by simp, ?_⟩
      intro _
      have := check_ne_error hstart
      cases status <;> simp_all
    · dsimp only
      split
      · exact ⟨by simp, by simp⟩
      · exact loop_last S c nreset fuel E _ _ _ 0 s [E] [] [] E (by simp)

end NiftyVerif.CgClassic
