/-
  Covariance propagation of the generic discrete Gauss–Markov recursion (C29) in any state dimension:
      s' = F s + G ξ ,   ξ orthonormal and uncorrelated with s   ⇒   P' = F P Fᵀ + G Gᵀ ,  Cov(s', s₀) = F Cov(s, s₀).
-/
import NiftyVerif.Lemmas.GaussMarkov
import Mathlib.Data.Matrix.Mul

namespace NiftyVerif.GaussMarkov
open Matrix Finset

variable {K W : Type} [Field K] [AddCommGroup W] [Module K W] (c : CovForm K W)
variable {d : Type} [Fintype d] [DecidableEq d]

theorem CovForm.sum_left {ι : Type} (s : Finset ι) (x : ι → W) (y : W) :
    c.B (∑ i ∈ s, x i) y = ∑ i ∈ s, c.B (x i) y := by
  classical
  induction s using Finset.induction_on with
  | empty => simp [c.zero_left]
  | insert i s hi ih => rw [sum_insert hi, sum_insert hi, c.add_left, ih]

theorem CovForm.sum_right {ι : Type} (s : Finset ι) (x : W) (y : ι → W) :
    c.B x (∑ i ∈ s, y i) = ∑ i ∈ s, c.B x (y i) := by
  rw [c.symm, CovForm.sum_left]; simp only [c.symm]

/-- one step of `discrete_gauss_markov_process`: `res[i+1] = drift_i @ res[i] + diffamp_i @ xi_i` -/
def gmStep (F G : Matrix d d K) (s ξ : d → W) : d → W :=
  fun a => ∑ b, F a b • s b + ∑ b, G a b • ξ b

/-- covariance matrix of a random vector -/
def covMat (s t : d → W) : Matrix d d K := Matrix.of fun a b => c.B (s a) (t b)

/-- **generic covariance recursion** `P' = F P Fᵀ + G Gᵀ` for every state dimension and all matrices -/
theorem gm_cov_step (F G : Matrix d d K) (s ξ : d → W)
    (hξ : ∀ a b, c.B (ξ a) (ξ b) = if a = b then 1 else 0) (hind : ∀ a b, c.B (s a) (ξ b) = 0) :
    covMat c (gmStep F G s ξ) (gmStep F G s ξ) = F * covMat c s s * Fᵀ + G * Gᵀ := by
  ext a a'
  have hind' : ∀ a b, c.B (ξ a) (s b) = 0 := fun a b => by rw [c.symm]; exact hind b a
  simp only [covMat, gmStep, Matrix.of_apply, Matrix.add_apply, Matrix.mul_apply, Matrix.transpose_apply,
    c.add_left, c.add_right, CovForm.sum_left, CovForm.sum_right, c.smul_left, c.smul_right, hξ, hind, hind',
    mul_zero, sum_const_zero, add_zero, zero_add]
  congr 1
  · apply sum_congr rfl; intro b _
    rw [mul_comm]
  · apply sum_congr rfl; intro b _
    simp [mul_comm]

omit [DecidableEq d] in
/-- cross-covariance with any earlier random vector `t` that the new noise is uncorrelated with: `Cov(s', t) = F Cov(s, t)` -/
theorem gm_cross_cov_step (F G : Matrix d d K) (s ξ t : d → W) (hind : ∀ a b, c.B (ξ a) (t b) = 0) :
    covMat c (gmStep F G s ξ) t = F * covMat c s t := by
  ext a b
  simp only [covMat, gmStep, Matrix.of_apply, Matrix.mul_apply, c.add_left, CovForm.sum_left, c.smul_left, hind,
    mul_zero, sum_const_zero, add_zero]

end NiftyVerif.GaussMarkov
