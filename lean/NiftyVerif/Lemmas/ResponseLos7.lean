/-
  Lemmas for C35 / LOS, part 7: the driver's `generic` flag is the hypothesis of the refinement theorem; matrix-level refinement
  (`LOSResponse.__init__`'s COO triples = rows of the independent segment model, no index out of range).
-/
import NiftyVerif.Lemmas.ResponseLos6

namespace NiftyVerif.ResponseLos
open NiftyVerif Coo NiftyVerif.Response


theorem zip_dirOf : ∀ (s e : List ℚ), ∀ se ∈ s.zip e, (se.1, se.2 - se.1) ∈ s.zip (dirOf s e)
  | [], _, se, h => by simp at h
  | _ :: _, [], se, h => by simp at h
  | a :: s, b :: e, se, h => by
    simp only [List.zip_cons_cons, List.mem_cons] at h
    simp only [dirOf, List.zip_cons_cons, List.map_cons, List.mem_cons]
    rcases h with rfl | h
    · left; rfl
    · right; exact zip_dirOf s e se h

/-- the driver's `generic` flag is exactly what the refinement theorem assumes -/
theorem genericOn_spec (shape : List ℕ) (s e : List ℚ) (lo hi : ℚ) (h : genericOn shape s (dirOf s e) lo hi = true) :
    ((events shape s (dirOf s e) lo hi).map Prod.fst).Nodup ∧
    ∀ se ∈ s.zip e, se.2 - se.1 ≠ 0 → ¬ Cross se.1 (se.2 - se.1) lo := by
  unfold genericOn at h
  rw [Bool.and_eq_true, decide_eq_true_eq, List.all_eq_true] at h
  refine ⟨h.1, ?_⟩
  intro se hse hd hc
  have := h.2 _ (zip_dirOf s e se hse)
  simp only [Bool.or_eq_true, beq_iff_eq, decide_eq_true_eq] at this
  rcases this with h0 | h1
  · exact hd h0
  · exact h1 ((cross_iff_floor _ _ _).mp hc)


/-- what the independent model says one row of the LOS matrix is on the shrunk interval (empty when the line misses the grid) -/
def segRow (eps : ℚ) (shape : List ℕ) (sP eP : List ℚ) : List (ℕ × ℚ) :=
  if (clipT shape sP (dirOf sP eP)).2 - eps ≤ (clipT shape sP (dirOf sP eP)).1 + eps then []
  else losSeg shape sP eP ((clipT shape sP (dirOf sP eP)).1 + eps) ((clipT shape sP (dirOf sP eP)).2 - eps)

/-- one line is either outside (empty shrunk interval) or meets the hypotheses of the refinement theorem -/
def RowOK (eps : ℚ) (shape : List ℕ) (sP eP : List ℚ) : Prop :=
  (clipT shape sP (dirOf sP eP)).2 - eps ≤ (clipT shape sP (dirOf sP eP)).1 + eps ∨
  (shape.length = sP.length ∧ sP.length = eP.length ∧
   (∀ se ∈ sP.zip eP, se.2 - se.1 ≠ 0 → ¬ Cross se.1 (se.2 - se.1) ((clipT shape sP (dirOf sP eP)).1 + eps)) ∧
   ((events shape sP (dirOf sP eP) ((clipT shape sP (dirOf sP eP)).1 + eps)
      ((clipT shape sP (dirOf sP eP)).2 - eps)).map Prod.fst).Nodup)

theorem zip_map_flatMap {α β γ : Type} (f : α → β) (g : α × β → List γ) :
    ∀ l : List α, (l.zip (l.map f)).flatMap g = l.flatMap fun r => g (r, f r)
  | [] => rfl
  | a :: l => by simp only [List.map_cons, List.zip_cons_cons, List.flatMap_cons, zip_map_flatMap f g l]

theorem row_refines (eps : ℚ) (heps : 0 ≤ eps) (shape : List ℕ) (hn : ∀ n ∈ shape, 0 < n) (sP eP : List ℚ)
    (h : RowOK eps shape sP eP) :
    ResponseLos.traverse eps shape sP eP = (segRow eps shape sP eP).map (fun p => ((p.1 : ℤ), p.2)) ∧
    ∀ p ∈ ResponseLos.traverse eps shape sP eP, 0 ≤ p.1 ∧ p.1 < (prodL shape : ℤ) := by
  rcases h with hemp | ⟨hl1, hl2, hgen, hnd⟩
  · rw [traverse_eq, if_pos hemp]; unfold segRow; rw [if_pos hemp]; simp
  · by_cases hemp : (clipT shape sP (dirOf sP eP)).2 - eps ≤ (clipT shape sP (dirOf sP eP)).1 + eps
    · rw [traverse_eq, if_pos hemp]; unfold segRow; rw [if_pos hemp]; simp
    · have hne := not_le.mp hemp
      have hlt : (clipT shape sP (dirOf sP eP)).1 < (clipT shape sP (dirOf sP eP)).2 := by linarith
      have hnn : ∀ se ∈ sP.zip eP, 0 ≤ se.1 + ((clipT shape sP (dirOf sP eP)).1 + eps) * (se.2 - se.1) ∧
          0 ≤ se.1 + ((clipT shape sP (dirOf sP eP)).2 - eps) * (se.2 - se.1) := by
        intro se hse
        obtain ⟨a, ha, h1, h2⟩ := boxAxes_zip shape sP eP hl1 hl2 se hse
        have i1 := clipT_inside shape sP (dirOf sP eP) hlt ((clipT shape sP (dirOf sP eP)).1 + eps) (by linarith) (by linarith) a ha
        have i2 := clipT_inside shape sP (dirOf sP eP) hlt ((clipT shape sP (dirOf sP eP)).2 - eps) (by linarith) (by linarith) a ha
        rw [h1, h2] at i1 i2
        exact ⟨i1.1, i2.1⟩
      constructor
      · rw [traverse_eq, if_neg hemp]; unfold segRow; rw [if_neg hemp]
        exact traverseFrom_eq_losSeg shape sP eP _ _ hl1 hl2 hne hnn hgen hnd
      · obtain ⟨L, hLs, hLb, hw⟩ := traverseFrom_is_walk shape sP eP _ _ hne (fun se hse => (hnn se hse).1) hgen hnd
        rw [traverse_eq, if_neg hemp, hw]
        intro p hp
        obtain ⟨m, h1, h2, h3⟩ := walkG_mem _ _ L _ hne hLs hLb p hp
        rw [h3]
        exact flatF_in_grid m shape sP (dirOf sP eP) hn
          (clipT_inside_strict shape sP (dirOf sP eP) hn m (by linarith) (by linarith))

/-- **matrix level**: the COO triples `LOSResponse.__init__` hands to `coo_matrix` are, row by row, the `(pixel, Δt)` lists of the
    independent segment model on the shrunk intervals — and no index is out of range (no `ValueError`) -/
theorem losInit_refines (eps : ℚ) (heps : 0 ≤ eps) (shape : List ℕ) (hn : ∀ n ∈ shape, 0 < n) (dist : List ℚ)
    (starts ends : List (List ℚ))
    (hrows : ∀ r, r < starts.length → RowOK eps shape (toPix (starts.getD r []) dist) (toPix (ends.getD r []) dist)) :
    losInit eps shape dist starts ends = some ⟨starts.length, prodL shape,
      (List.range starts.length).flatMap fun r =>
        (segRow eps shape (toPix (starts.getD r []) dist) (toPix (ends.getD r []) dist)).map fun p => (r, p.1, p.2)⟩ := by
  unfold losInit
  simp only []
  rw [if_neg]
  · congr 2
    rw [zip_map_flatMap]
    refine List.flatMap_congr ?_
    intro r hr
    have hr' : r < starts.length := List.mem_range.mp hr
    obtain ⟨h1, _⟩ := row_refines eps heps shape hn _ _ (hrows r hr')
    rw [h1, List.map_map]
    refine List.map_congr_left ?_
    intro p _
    simp
  · intro hany
    obtain ⟨row, hrow, h2⟩ := List.any_eq_true.mp hany
    obtain ⟨r, hr, rfl⟩ := List.mem_map.mp hrow
    obtain ⟨pw, hpw, h3⟩ := List.any_eq_true.mp h2
    have hr' : r < starts.length := List.mem_range.mp hr
    obtain ⟨_, hin⟩ := row_refines eps heps shape hn _ _ (hrows r hr')
    have := hin pw hpw
    simp only [Bool.or_eq_true, decide_eq_true_eq] at h3
    rcases h3 with h3 | h3
    · exact absurd this.1 (not_le.mpr h3)
    · exact absurd this.2 (not_lt.mpr h3)
end NiftyVerif.ResponseLos
