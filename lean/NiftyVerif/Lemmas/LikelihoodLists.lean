/-
  C11 helper lemmas: the list / list-matrix operations of `Model/Likelihood.lean` (Part 2) over `ℝ`
  expressed by `Finset` sums, and the invariant "metric = pull-back of the identity through the transformation"
  (`Out.Pull`) for the building blocks `pull`, scaling, adding and the leaves.
-/
import NiftyVerif.Model.Likelihood
import NiftyVerif.Lemmas.TranscReal

namespace NiftyVerif.Likelihood
open NiftyVerif Finset

/-! ### lists as functions -/

theorem sumL_tab (n : Nat) (f : Nat → ℝ) : sumL (tab n f) = ∑ k ∈ range n, f k := by
  induction n with
  | zero => simp [sumL, tab]
  | succ n ih =>
      have : sumL (tab (n + 1) f) = sumL (tab n f) + f n := by
        simp [sumL, tab, List.range_succ, List.foldl_append]
      rw [this, ih, Finset.sum_range_succ]

theorem at1_tab (n : Nat) (f : Nat → ℝ) (j : Nat) : at1 (tab n f) j = if j < n then f j else 0 := by
  unfold at1 tab
  by_cases h : j < n
  · simp [h, List.getD_eq_getElem?_getD]
  · simp [h, List.getD_eq_getElem?_getD]

theorem tab_length (n : Nat) (f : Nat → ℝ) : (tab n f).length = n := by simp [tab]

theorem tab2_length (r c : Nat) (f : Nat → Nat → ℝ) : (tab2 r c f).length = r := by simp [tab2]

theorem at2_tab2 (r c : Nat) (f : Nat → Nat → ℝ) (i j : Nat) :
    at2 (tab2 r c f) i j = if i < r ∧ j < c then f i j else 0 := by
  unfold at2 tab2
  by_cases hi : i < r
  · by_cases hj : j < c
    · simp [hi, hj, List.getD_eq_getElem?_getD]
    · simp [hi, hj, List.getD_eq_getElem?_getD]
  · simp [hi, List.getD_eq_getElem?_getD]

theorem at2_append (A B : Mat ℝ) (i j : Nat) :
    at2 (A ++ B) i j = if i < A.length then at2 A i j else at2 B (i - A.length) j := by
  unfold at2
  by_cases h : i < A.length
  · simp [h, List.getD_eq_getElem?_getD, List.getElem?_append_left h]
  · simp [h, List.getD_eq_getElem?_getD, List.getElem?_append_right (Nat.le_of_not_lt h)]

theorem at2_map_map (g : ℝ → ℝ) (hg : g 0 = 0) (M : Mat ℝ) (i j : Nat) :
    at2 (M.map fun row => row.map g) i j = g (at2 M i j) := by
  unfold at2
  simp only [List.getD_eq_getElem?_getD, List.getElem?_map]
  cases h : M[i]? with
  | none => simp [hg]
  | some row =>
      simp only [Option.map_some, Option.getD_some, List.getElem?_map]
      cases h2 : row[j]? with
      | none => simp [hg]
      | some v => simp

theorem at2_diagM (n : Nat) (f : Nat → ℝ) (i j : Nat) :
    at2 (diagM n f) i j = if i < n ∧ j < n then (if i = j then f i else 0) else 0 := by
  unfold diagM; rw [at2_tab2]

/-! ### the invariant -/

/-- the transformation Jacobian has `t` rows and the metric is its Gram matrix (on the `n` coordinates) -/
def Out.Pull (o : Out ℝ) : Prop :=
  o.tjac.length = o.t ∧
    ∀ i j, i < o.n → j < o.n → at2 o.met i j = ∑ t ∈ range o.t, at2 o.tjac t i * at2 o.tjac t j

theorem at2_sandwich (r c : Nat) (A M : Mat ℝ) (i j : Nat) (hi : i < c) (hj : j < c) :
    at2 (sandwich r c A M) i j = ∑ k ∈ range r, at2 A k i * ∑ l ∈ range r, at2 M k l * at2 A l j := by
  unfold sandwich
  rw [at2_tab2, if_pos ⟨hi, hj⟩, sumL_tab]
  refine Finset.sum_congr rfl fun k _ => ?_
  rw [sumL_tab]

theorem at2_matMul (r m c : Nat) (A B : Mat ℝ) (i j : Nat) (hi : i < r) (hj : j < c) :
    at2 (matMul r m c A B) i j = ∑ k ∈ range m, at2 A i k * at2 B k j := by
  unfold matMul
  rw [at2_tab2, if_pos ⟨hi, hj⟩, sumL_tab]

/-- `lh @ op` keeps the invariant: `Jᵀ (Tᵀ T) J = (T J)ᵀ (T J)` for list matrices of any size -/
theorem pull_Pull (n : Nat) (J : Mat ℝ) (o : Out ℝ) (h : o.Pull) : (pull n J o).Pull := by
  obtain ⟨hl, hm⟩ := h
  refine ⟨?_, ?_⟩
  · simp [pull, matMul, tab2_length]
  · intro i j hi hj
    change i < n at hi
    change j < n at hj
    show at2 (sandwich o.n n J o.met) i j
      = ∑ t ∈ range o.t, at2 (matMul o.t o.n n o.tjac J) t i * at2 (matMul o.t o.n n o.tjac J) t j
    rw [at2_sandwich _ _ _ _ _ _ hi hj]
    have hR : ∀ t ∈ range o.t, at2 (matMul o.t o.n n o.tjac J) t i * at2 (matMul o.t o.n n o.tjac J) t j
        = ∑ k ∈ range o.n, ∑ l ∈ range o.n, at2 J k i * (at2 o.tjac t k * at2 o.tjac t l) * at2 J l j := by
      intro t ht
      rw [at2_matMul _ _ _ _ _ _ _ (mem_range.mp ht) hi, at2_matMul _ _ _ _ _ _ _ (mem_range.mp ht) hj,
        Finset.sum_mul_sum]
      refine Finset.sum_congr rfl fun k _ => Finset.sum_congr rfl fun l _ => ?_
      ring
    rw [Finset.sum_congr rfl hR]
    have hL : ∀ k ∈ range o.n, at2 J k i * ∑ l ∈ range o.n, at2 o.met k l * at2 J l j
        = ∑ t ∈ range o.t, ∑ l ∈ range o.n, at2 J k i * (at2 o.tjac t k * at2 o.tjac t l) * at2 J l j := by
      intro k hk
      rw [Finset.mul_sum, Finset.sum_comm]
      refine Finset.sum_congr rfl fun l hl' => ?_
      rw [hm k l (mem_range.mp hk) (mem_range.mp hl'), Finset.sum_mul, Finset.mul_sum]
      refine Finset.sum_congr rfl fun t _ => ?_
      ring
    rw [Finset.sum_congr rfl hL, Finset.sum_comm]

/-- `c·lh` keeps the invariant (the code scales the transformation by `s = sqrt c` and the metric by `s·s`) -/
theorem scale_Pull (s : ℝ) (o : Out ℝ) (h : o.Pull) (o' : Out ℝ)
    (hn : o'.n = o.n) (ht : o'.t = o.t)
    (hmet : o'.met = o.met.map fun row => row.map (s * s * ·))
    (htj : o'.tjac = o.tjac.map fun row => row.map (s * ·)) : o'.Pull := by
  obtain ⟨hl, hm⟩ := h
  refine ⟨by rw [htj, ht]; simpa using hl, ?_⟩
  intro i j hi hj
  rw [hn] at hi hj
  rw [hmet, htj, ht, at2_map_map (s * s * ·) (by simp), hm i j hi hj, Finset.mul_sum]
  refine Finset.sum_congr rfl fun t _ => ?_
  rw [at2_map_map (s * ·) (by simp), at2_map_map (s * ·) (by simp)]
  ring

/-- `lh₁ + lh₂` keeps the invariant: stacked transformations, added metrics -/
theorem add_Pull (n : Nat) (oa ob : Out ℝ) (ha : oa.Pull) (hb : ob.Pull) (hna : oa.n = n) (hnb : ob.n = n)
    (o' : Out ℝ) (hn : o'.n = n) (ht : o'.t = oa.t + ob.t)
    (hmet : o'.met = tab2 n n fun i j => at2 oa.met i j + at2 ob.met i j)
    (htj : o'.tjac = oa.tjac ++ ob.tjac) : o'.Pull := by
  obtain ⟨hla, hma⟩ := ha
  obtain ⟨hlb, hmb⟩ := hb
  refine ⟨by rw [htj, ht, List.length_append, hla, hlb], ?_⟩
  intro i j hi hj
  rw [hn] at hi hj
  rw [hmet, at2_tab2, if_pos ⟨hi, hj⟩, htj, ht, Finset.sum_range_add,
    hma i j (hna ▸ hi) (hna ▸ hj), hmb i j (hnb ▸ hi) (hnb ▸ hj)]
  congr 1
  · refine Finset.sum_congr rfl fun t ht' => ?_
    have : t < oa.tjac.length := by rw [hla]; exact mem_range.mp ht'
    rw [at2_append, at2_append, if_pos this, if_pos this]
  · refine Finset.sum_congr rfl fun t _ => ?_
    have : ¬ (oa.t + t < oa.tjac.length) := by rw [hla]; omega
    rw [at2_append, at2_append, if_neg this, if_neg this, hla, Nat.add_sub_cancel_left]

/-- an element-wise leaf whose metric coefficient is the square of the Jacobian entry -/
theorem ptwLeaf_Pull (n : Nat) (e g m tv td : Nat → ℝ) (h : ∀ j, j < n → m j = td j * td j) :
    (ptwLeaf n e g m tv td).Pull := by
  refine ⟨by simp [ptwLeaf, diagM, tab2_length], ?_⟩
  intro i j hi hj
  show at2 (diagM n m) i j = ∑ t ∈ range n, at2 (diagM n td) t i * at2 (diagM n td) t j
  have hi' : i < n := hi
  have hj' : j < n := hj
  rw [Finset.sum_eq_single i]
  · by_cases hij : i = j
    · subst hij; simp [at2_diagM, hi', h i hi']
    · simp [at2_diagM, hi', hj', hij]
  · intro t _ hti
    simp [at2_diagM, hti]
  · intro hni; exact absurd (mem_range.mpr hi') hni

/-- a leaf whose metric is *defined* as the Gram matrix of its transformation Jacobian
    (`get_metric_at`: `SandwichOperator.make(jac)` with the identity as cheese) -/
theorem gramOut_Pull (o : Out ℝ) (N : Nat) (hn : o.n = N) (ht : o.t = N) (hl : o.tjac.length = N)
    (hm : o.met = sandwich N N o.tjac (diagM N fun _ => 1)) : o.Pull := by
  refine ⟨by rw [hl, ht], ?_⟩
  intro i j hi hj
  rw [hn] at hi hj
  rw [hm, ht, at2_sandwich _ _ _ _ _ _ hi hj]
  refine Finset.sum_congr rfl fun k hk => ?_
  congr 1
  rw [Finset.sum_eq_single k]
  · simp [at2_diagM, mem_range.mp hk]
  · intro l _ hlk
    simp [at2_diagM, Ne.symm hlk]
  · intro hk'; exact absurd hk hk'

/-- `GaussianEnergy` with `SandwichOperator.make(A, diag D)`, `D ≥ 0`: metric `AᵀDA`, transformation `sqrt(D)·A` -/
theorem gaussSand_Pull (o : Out ℝ) (n : Nat) (A : Mat ℝ) (D : Vec ℝ) (hD : ∀ j, 0 ≤ at1 D j)
    (hn : o.n = n) (ht : o.t = n)
    (hm : o.met = sandwich n n A (diagM n (at1 D)))
    (htj : o.tjac = matMul n n n (diagM n fun j => Real.sqrt (at1 D j)) A) : o.Pull := by
  refine ⟨by rw [htj, ht]; simp [matMul, tab2_length], ?_⟩
  intro i j hi hj
  rw [hn] at hi hj
  rw [hm, htj, ht, at2_sandwich _ _ _ _ _ _ hi hj]
  refine Finset.sum_congr rfl fun k hk => ?_
  have hk' : k < n := mem_range.mp hk
  have e1 : ∑ l ∈ range n, at2 (diagM n (at1 D)) k l * at2 A l j = at1 D k * at2 A k j := by
    rw [Finset.sum_eq_single k]
    · simp [at2_diagM, hk']
    · intro l _ hlk; simp [at2_diagM, Ne.symm hlk]
    · intro h; exact absurd hk h
  have e2 : ∀ c, c < n → at2 (matMul n n n (diagM n fun j => Real.sqrt (at1 D j)) A) k c
      = Real.sqrt (at1 D k) * at2 A k c := by
    intro c hc
    rw [at2_matMul _ _ _ _ _ _ _ hk' hc, Finset.sum_eq_single k]
    · simp [at2_diagM, hk']
    · intro l _ hlk; simp [at2_diagM, Ne.symm hlk]
    · intro h; exact absurd hk h
  rw [e1, e2 i hi, e2 j hj]
  have h2 : Real.sqrt (at1 D k) * Real.sqrt (at1 D k) = at1 D k := Real.mul_self_sqrt (hD k)
  calc at2 A k i * (at1 D k * at2 A k j) = (at1 D k) * (at2 A k i * at2 A k j) := by ring
    _ = (Real.sqrt (at1 D k) * Real.sqrt (at1 D k)) * (at2 A k i * at2 A k j) := by rw [h2]
    _ = _ := by ring

/-- rectangular "diagonal" Jacobian (`T ≥ n` rows, the rows beyond `n` are zero): `_SpecialGammaEnergy`, complex dtype -/
theorem diagRect_Pull (o : Out ℝ) (n T : Nat) (m td : Nat → ℝ) (hT : n ≤ T) (h : ∀ j, j < n → m j = td j * td j)
    (hn : o.n = n) (ht : o.t = T) (hm : o.met = diagM n m)
    (htj : o.tjac = tab2 T n fun i j => if i = j then td j else 0) : o.Pull := by
  refine ⟨by rw [htj, ht, tab2_length], ?_⟩
  intro i j hi hj
  rw [hn] at hi hj
  rw [hm, htj, ht, Finset.sum_eq_single i]
  · have hiT : i < T := lt_of_lt_of_le hi hT
    by_cases hij : i = j
    · subst hij; simp [at2_diagM, at2_tab2, hi, hiT, h i hi]
    · simp [at2_diagM, at2_tab2, hi, hj, hiT, hij]
  · intro t _ hti
    simp [at2_tab2, hti]
  · intro hni; exact absurd (mem_range.mpr (lt_of_lt_of_le hi hT)) hni

/-! ### gradients of element-wise leaves (partial derivatives of the summed value) -/

theorem at1_set (x : Vec ℝ) (j k : Nat) (y : ℝ) (hj : j < x.length) :
    at1 (x.set j y) k = if k = j then y else at1 x k := by
  unfold at1
  simp only [List.getD_eq_getElem?_getD, List.getElem?_set]
  by_cases hk : j = k
  · subst hk; simp [hj]
  · have : ¬ k = j := fun h => hk h.symm
    simp [hk, this]

/-- the value `Σ_k E_k(x_k)` of an element-wise leaf, as a function of the coordinate `x_j`, has derivative `G_j`
    as soon as the pixel formula `E_j` has: the gradient entry is the exact partial derivative, for every size -/
theorem ptwLeaf_val_hasDerivAt (n : Nat) (E : Nat → ℝ → ℝ) (G : ℝ) (x : Vec ℝ) (j : Nat) (hj : j < n) (hjx : j < x.length)
    (h : HasDerivAt (E j) G (at1 x j)) :
    HasDerivAt (fun y => sumL (tab n fun k => E k (at1 (x.set j y) k))) G (at1 x j) := by
  have hfun : (fun y => sumL (tab n fun k => E k (at1 (x.set j y) k)))
      = fun y => ∑ k ∈ range n, (if k = j then E j y else E k (at1 x k)) := by
    funext y
    rw [sumL_tab]
    refine Finset.sum_congr rfl fun k _ => ?_
    rw [at1_set _ _ _ _ hjx]
    by_cases hk : k = j
    · subst hk; simp
    · simp [hk]
  rw [hfun]
  have hs := HasDerivAt.fun_sum (u := range n) (A := fun k y => if k = j then E j y else E k (at1 x k))
    (A' := fun k => if k = j then G else 0) (x := at1 x j) (by
      intro k _
      by_cases hk : k = j
      · simp only [hk, if_true]; exact h
      · simp only [hk, if_false]; exact hasDerivAt_const _ _)
  have hsum : ∑ k ∈ range n, (if k = j then G else 0) = G := by
    rw [Finset.sum_ite_eq' (range n) j (fun _ => G), if_pos (mem_range.mpr hj)]
  rw [hsum] at hs
  exact hs


/-! ### leaves and trees -/

/-- number of real coordinates of a leaf -/
def Leaf.dim : Leaf ℝ → Nat
  | .gaussNone d => d.length
  | .gaussDiag _ d => d.length
  | .gaussSand _ _ d => d.length
  | .poisson d => d.length
  | .bernoulli d => d.length
  | .categorical d => d.length
  | .student θ => θ.length
  | .invGamma _ β => β.length
  | .varcov n cplx _ => if cplx then 3 * n else 2 * n
  | .sgamma re _ _ => re.length

/-- side conditions under which the leaf's metric is the exact pull-back: non-negative inverse variances, and not the
    full-Fisher variant of the variable-covariance Gaussian (documented as holding in expectation only) -/
def Leaf.Good : Leaf ℝ → Prop
  | .gaussDiag w _ => ∀ j, 0 ≤ at1 w j
  | .gaussSand _ D _ => ∀ j, 0 ≤ at1 D j
  | .varcov _ _ full => full = false
  | _ => True

theorem leaf_n (l : Leaf ℝ) (x : Vec ℝ) : (l.eval x).n = l.dim := by
  cases l with
  | varcov n cplx full => cases cplx <;> simp [Leaf.eval, Leaf.dim]
  | sgamma re im cplx => cases cplx <;> simp [Leaf.eval, Leaf.dim, ptwLeaf]
  | _ => simp [Leaf.eval, Leaf.dim, ptwLeaf]

theorem leaf_Pull (l : Leaf ℝ) (x : Vec ℝ) (hg : l.Good) : (l.eval x).Pull := by
  cases l with
  | gaussNone d =>
      exact ptwLeaf_Pull _ _ _ _ _ _ fun j _ => by simp [TranscReal.sqrt_eq]
  | gaussDiag w d =>
      exact ptwLeaf_Pull _ _ _ _ _ _ fun j _ => by
        simp only [gaussMet, gaussTd, TranscReal.sqrt_eq]; exact (Real.mul_self_sqrt (hg j)).symm
  | gaussSand A D d =>
      exact gaussSand_Pull _ d.length A D hg rfl rfl rfl rfl
  | poisson d => exact ptwLeaf_Pull _ _ _ _ _ _ fun j _ => rfl
  | bernoulli d => exact ptwLeaf_Pull _ _ _ _ _ _ fun j _ => rfl
  | categorical d => exact ptwLeaf_Pull _ _ _ _ _ _ fun j _ => rfl
  | student θ => exact ptwLeaf_Pull _ _ _ _ _ _ fun j _ => rfl
  | invGamma α β => exact ptwLeaf_Pull _ _ _ _ _ _ fun j _ => rfl
  | sgamma re im cplx =>
      cases cplx with
      | false => exact ptwLeaf_Pull _ _ _ _ _ _ fun j _ => rfl
      | true =>
          exact diagRect_Pull _ re.length (2 * re.length) (fun j => sgammacMet (at1 x j)) (fun j => sgammacTd (at1 x j))
            (by omega) (fun j _ => rfl) rfl rfl rfl rfl
  | varcov n cplx full =>
      have hf : full = false := hg
      subst hf
      cases cplx with
      | false => exact gramOut_Pull _ (2 * n) rfl rfl (by simp [Leaf.eval, tab2_length]) rfl
      | true => exact gramOut_Pull _ (3 * n) rfl rfl (by simp [Leaf.eval, tab2_length]) rfl

/-- well-formed likelihood tree for input dimension `n` (dimensions fit, leaves satisfy `Leaf.Good`; no Hamiltonian:
    it has no transformation) -/
def Node.WF : Node ℝ → Nat → Prop
  | .leaf l, n => l.dim = n ∧ l.Good
  | .lin rows _ e, _ => e.WF rows
  | .ptw _ e, n => e.WF n
  | .scale _ e, n => e.WF n
  | .add a b, n => a.WF n ∧ b.WF n
  | .ham _, _ => False

theorem matVec_length (r c : Nat) (A : Mat ℝ) (x : Vec ℝ) : (matVec r c A x).length = r := by simp [matVec, tab]

theorem eval_n (e : Node ℝ) : ∀ x : Vec ℝ, e.WF x.length → (e.eval x).n = x.length := by
  induction e with
  | leaf l => intro x h; rw [Node.eval, leaf_n]; exact h.1
  | lin rows A e _ => intro x _; rfl
  | ptw fs e _ => intro x _; rfl
  | scale c e ih => intro x h; exact ih x h
  | add a b _ _ => intro x _; rfl
  | ham e _ => intro x h; exact absurd h id

/-- **the composition machinery preserves "metric = pull-back of the identity through the transformation"**:
    for every well-formed likelihood tree (any nesting of `@ linear`, `@ point-wise`, `c·`, `+`), every size and every position -/
theorem eval_Pull (e : Node ℝ) : ∀ x : Vec ℝ, e.WF x.length → (e.eval x).Pull := by
  induction e with
  | leaf l => intro x h; exact leaf_Pull l x h.2
  | lin rows A e ih =>
      intro x h
      have h' : e.WF (matVec rows x.length A x).length := by rw [matVec_length]; exact h
      exact pull_Pull _ _ _ (ih _ h')
  | ptw fs e ih =>
      intro x h
      have h' : e.WF (tab x.length fun j => ((fs.getD j PF.id).val (at1 x j))).length := by rw [tab_length]; exact h
      exact pull_Pull _ _ _ (ih _ h')
  | scale c e ih =>
      intro x h
      exact scale_Pull (Real.sqrt c) (e.eval x) (ih x h) _ rfl rfl rfl rfl
  | add a b iha ihb =>
      intro x h
      exact add_Pull x.length (a.eval x) (b.eval x) (iha x h.1) (ihb x h.2) (eval_n a x h.1) (eval_n b x h.2) _ rfl rfl rfl rfl
  | ham e _ => intro x h; exact absurd h id


end NiftyVerif.Likelihood
