/-
  Lemmas/HarmonicSmooth.lean — reflection identities F̄ = F∘P, P∘F = F̄ and the smoothing formula:
  for an even kernel g,  H⁻¹ diag(g) H = F⁻¹ diag(g) F.
-/
import NiftyVerif.Lemmas.HarmonicZero

namespace NiftyVerif.Harmonic
open Finset

variable {K : Type} [CommRing K]

/-- the three-axis transform as one sum over the grid -/
def gsum (n1 n2 n3 : Nat) (c1 c2 c3 : K) (x : Tensor K) (i : Idx) : K :=
  ∑ t ∈ range n1 ×ˢ range n2 ×ˢ range n3,
    (dftMat c1 i.j1 t.1 * dftMat c2 i.j2 t.2.1 * dftMat c3 i.j3 t.2.2) * x ⟨i.p, t.1, t.2.1, t.2.2, i.q⟩

theorem tr3_eq_gsum (n1 n2 n3 : Nat) (c1 c2 c3 : K) (x : Tensor K) (i : Idx) :
    tr3 n1 n2 n3 (dftMat c1) (dftMat c2) (dftMat c3) x i = gsum n1 n2 n3 c1 c2 c3 x i := by
  unfold tr3 axG gsum
  simp only [L1, L2, L3, Idx.set1, Idx.set2, Idx.set3, Finset.mul_sum, Finset.sum_product]
  rw [sum3_swap n1 n2 n3 (fun a b c => dftMat c3 i.j3 c * (dftMat c2 i.j2 b * (dftMat c1 i.j1 a *
    x ⟨i.p, a, b, c, i.q⟩)))]
  refine Finset.sum_congr rfl (fun a _ => Finset.sum_congr rfl (fun b _ => Finset.sum_congr rfl (fun c _ => ?_)))
  ring

theorem F3_eq_gsum (g : Grid K) (x : Tensor K) (i : Idx) :
    F3 g x i = gsum g.n1 g.n2 g.n3 g.w1 g.w2 g.w3 x i := by unfold F3; rw [tr3_eq_gsum]
theorem Fb3_eq_gsum (g : Grid K) (x : Tensor K) (i : Idx) :
    Fb3 g x i = gsum g.n1 g.n2 g.n3 g.wb1 g.wb2 g.wb3 x i := by unfold Fb3; rw [tr3_eq_gsum]

/-- reflection j ↦ (n - j) mod n -/
def rho (n j : Nat) : Nat := (n - j) % n

theorem rho_lt (n j : Nat) (hn : 0 < n) : rho n j < n := Nat.mod_lt _ hn

theorem rho_rho (n j : Nat) (hj : j < n) : rho n (rho n j) = j := by
  unfold rho
  rcases Nat.eq_zero_or_pos j with h0 | hpos
  · subst h0; simp
  · rw [Nat.mod_eq_of_lt (by omega : n - j < n), Nat.mod_eq_of_lt (by omega)]; omega

/-- wb^(ρ j) = w^j when w·wb = 1 and wb^n = 1 -/
theorem pow_rho (w wb : K) (n j : Nat) (hb : w * wb = 1) (hwbn : wb ^ n = 1) (hj : j < n) :
    wb ^ rho n j = w ^ j := by
  unfold rho
  rcases Nat.eq_zero_or_pos j with h0 | hpos
  · subst h0; simp
  · rw [Nat.mod_eq_of_lt (by omega : n - j < n)]
    have h1 : w ^ j * wb ^ j = 1 := by rw [← mul_pow, hb, one_pow]
    have h2 : wb ^ (n - j) * wb ^ j = 1 := by rw [← pow_add, Nat.sub_add_cancel (Nat.le_of_lt hj), hwbn]
    calc wb ^ (n - j) = wb ^ (n - j) * (w ^ j * wb ^ j) := by rw [h1, mul_one]
      _ = w ^ j * (wb ^ (n - j) * wb ^ j) := by ring
      _ = w ^ j := by rw [h2, mul_one]

theorem dftMat_rho_in (w wb : K) (n k j : Nat) (hb : w * wb = 1) (hwbn : wb ^ n = 1) (hj : j < n) :
    dftMat wb k (rho n j) = dftMat w k j := by
  rw [dftMat_eq, dftMat_eq, pow_mul, pow_rho w wb n j hb hwbn hj, ← pow_mul]

theorem dftMat_rho_out (w wb : K) (n k j : Nat) (hb : w * wb = 1) (hwbn : wb ^ n = 1) (hk : k < n) :
    dftMat wb (rho n k) j = dftMat w k j := by
  rw [dftMat_symm wb, dftMat_symm w, dftMat_rho_in w wb n j k hb hwbn hk]

omit [CommRing K] in
theorem negIdx_eq (g : Grid K) (i : Idx) :
    negIdx g i = ⟨i.p, rho g.n1 i.j1, rho g.n2 i.j2, rho g.n3 i.j3, i.q⟩ := rfl

/-- roots-of-unity facts extracted from GridOK -/
structure GridPow (g : Grid K) : Prop where
  pos1 : 0 < g.n1
  pos2 : 0 < g.n2
  pos3 : 0 < g.n3
  b1 : g.w1 * g.wb1 = 1
  b2 : g.w2 * g.wb2 = 1
  b3 : g.w3 * g.wb3 = 1
  p1 : g.w1 ^ g.n1 = 1
  p2 : g.w2 ^ g.n2 = 1
  p3 : g.w3 ^ g.n3 = 1
  q1 : g.wb1 ^ g.n1 = 1
  q2 : g.wb2 ^ g.n2 = 1
  q3 : g.wb3 ^ g.n3 = 1

theorem bar_pow (w wb : K) (n : Nat) (hb : w * wb = 1) (hw : w ^ n = 1) : wb ^ n = 1 := by
  have : (w * wb) ^ n = 1 := by rw [hb, one_pow]
  rw [mul_pow, hw, one_mul] at this; exact this

theorem GridOK.toPow {g : Grid K} (h : GridOK g) : GridPow g where
  pos1 := h.pos1
  pos2 := h.pos2
  pos3 := h.pos3
  b1 := h.bar1
  b2 := h.bar2
  b3 := h.bar3
  p1 := h.prim1.pow_eq_one
  p2 := h.prim2.pow_eq_one
  p3 := h.prim3.pow_eq_one
  q1 := bar_pow _ _ _ h.bar1 h.prim1.pow_eq_one
  q2 := bar_pow _ _ _ h.bar2 h.prim2.pow_eq_one
  q3 := bar_pow _ _ _ h.bar3 h.prim3.pow_eq_one

/-- the same facts with the roles of w and wb exchanged -/
theorem GridPow.swap_b1 {g : Grid K} (h : GridPow g) : g.wb1 * g.w1 = 1 := by rw [mul_comm]; exact h.b1
theorem GridPow.swap_b2 {g : Grid K} (h : GridPow g) : g.wb2 * g.w2 = 1 := by rw [mul_comm]; exact h.b2
theorem GridPow.swap_b3 {g : Grid K} (h : GridPow g) : g.wb3 * g.w3 = 1 := by rw [mul_comm]; exact h.b3

/-- (B)  P∘F = F̄ : reading the forward transform at the reflected output index gives the conjugate transform -/
theorem F3_neg_out (g : Grid K) (h : GridPow g) (x : Tensor K) (i : Idx) (hi : InBox g i) :
    F3 g x (negIdx g i) = Fb3 g x i := by
  rw [F3_eq_gsum, Fb3_eq_gsum, negIdx_eq]
  unfold gsum
  refine Finset.sum_congr rfl (fun t _ => ?_)
  simp only []
  rw [dftMat_rho_out g.wb1 g.w1 g.n1 _ _ h.swap_b1 h.p1 hi.1, dftMat_rho_out g.wb2 g.w2 g.n2 _ _ h.swap_b2 h.p2 hi.2.1,
    dftMat_rho_out g.wb3 g.w3 g.n3 _ _ h.swap_b3 h.p3 hi.2.2]

theorem Fb3_neg_out (g : Grid K) (h : GridPow g) (x : Tensor K) (i : Idx) (hi : InBox g i) :
    Fb3 g x (negIdx g i) = F3 g x i := by
  rw [F3_eq_gsum, Fb3_eq_gsum, negIdx_eq]
  unfold gsum
  refine Finset.sum_congr rfl (fun t _ => ?_)
  simp only []
  rw [dftMat_rho_out g.w1 g.wb1 g.n1 _ _ h.b1 h.q1 hi.1, dftMat_rho_out g.w2 g.wb2 g.n2 _ _ h.b2 h.q2 hi.2.1,
    dftMat_rho_out g.w3 g.wb3 g.n3 _ _ h.b3 h.q3 hi.2.2]

/-- (A)  F̄ = F∘P : the conjugate transform is the forward transform of the reflected input -/
theorem Fb3_eq_F3_neg (g : Grid K) (h : GridPow g) (x : Tensor K) (i : Idx) :
    Fb3 g x i = F3 g (fun j => x (negIdx g j)) i := by
  rw [F3_eq_gsum, Fb3_eq_gsum]
  unfold gsum
  refine Finset.sum_nbij' (fun t => (rho g.n1 t.1, rho g.n2 t.2.1, rho g.n3 t.2.2))
    (fun t => (rho g.n1 t.1, rho g.n2 t.2.1, rho g.n3 t.2.2)) ?_ ?_ ?_ ?_ ?_
  · intro t _
    simp only [mem_product, mem_range]
    exact ⟨rho_lt _ _ h.pos1, rho_lt _ _ h.pos2, rho_lt _ _ h.pos3⟩
  · intro t _
    simp only [mem_product, mem_range]
    exact ⟨rho_lt _ _ h.pos1, rho_lt _ _ h.pos2, rho_lt _ _ h.pos3⟩
  · intro t ht
    simp only [mem_product, mem_range] at ht
    simp only [rho_rho _ _ ht.1, rho_rho _ _ ht.2.1, rho_rho _ _ ht.2.2]
  · intro t ht
    simp only [mem_product, mem_range] at ht
    simp only [rho_rho _ _ ht.1, rho_rho _ _ ht.2.1, rho_rho _ _ ht.2.2]
  · intro t ht
    simp only [mem_product, mem_range] at ht
    simp only [negIdx_eq, rho_rho _ _ ht.1, rho_rho _ _ ht.2.1, rho_rho _ _ ht.2.2]
    rw [dftMat_rho_in g.wb1 g.w1 g.n1 _ _ h.swap_b1 h.p1 ht.1, dftMat_rho_in g.wb2 g.w2 g.n2 _ _ h.swap_b2 h.p2 ht.2.1,
      dftMat_rho_in g.wb3 g.w3 g.n3 _ _ h.swap_b3 h.p3 ht.2.2]

theorem F3_eq_Fb3_neg (g : Grid K) (h : GridPow g) (x : Tensor K) (i : Idx) :
    F3 g x i = Fb3 g (fun j => x (negIdx g j)) i := by
  rw [F3_eq_gsum, Fb3_eq_gsum]
  unfold gsum
  refine Finset.sum_nbij' (fun t => (rho g.n1 t.1, rho g.n2 t.2.1, rho g.n3 t.2.2))
    (fun t => (rho g.n1 t.1, rho g.n2 t.2.1, rho g.n3 t.2.2)) ?_ ?_ ?_ ?_ ?_
  · intro t _
    simp only [mem_product, mem_range]
    exact ⟨rho_lt _ _ h.pos1, rho_lt _ _ h.pos2, rho_lt _ _ h.pos3⟩
  · intro t _
    simp only [mem_product, mem_range]
    exact ⟨rho_lt _ _ h.pos1, rho_lt _ _ h.pos2, rho_lt _ _ h.pos3⟩
  · intro t ht
    simp only [mem_product, mem_range] at ht
    simp only [rho_rho _ _ ht.1, rho_rho _ _ ht.2.1, rho_rho _ _ ht.2.2]
  · intro t ht
    simp only [mem_product, mem_range] at ht
    simp only [rho_rho _ _ ht.1, rho_rho _ _ ht.2.1, rho_rho _ _ ht.2.2]
  · intro t ht
    simp only [mem_product, mem_range] at ht
    simp only [negIdx_eq, rho_rho _ _ ht.1, rho_rho _ _ ht.2.1, rho_rho _ _ ht.2.2]
    rw [dftMat_rho_in g.w1 g.wb1 g.n1 _ _ h.b1 h.q1 ht.1, dftMat_rho_in g.w2 g.wb2 g.n2 _ _ h.b2 h.q2 ht.2.1,
      dftMat_rho_in g.w3 g.wb3 g.n3 _ _ h.b3 h.q3 ht.2.2]

/-- transforms only read their input inside the box (same spectators) -/
theorem F3_congr (g : Grid K) (x y : Tensor K) (i : Idx)
    (hxy : ∀ j : Idx, InBox g j → j.p = i.p → j.q = i.q → x j = y j) : F3 g x i = F3 g y i := by
  rw [F3_eq_gsum, F3_eq_gsum]
  unfold gsum
  refine Finset.sum_congr rfl (fun t ht => ?_)
  simp only [mem_product, mem_range] at ht
  rw [hxy ⟨i.p, t.1, t.2.1, t.2.2, i.q⟩ ⟨ht.1, ht.2.1, ht.2.2⟩ rfl rfl]

theorem Fb3_congr (g : Grid K) (x y : Tensor K) (i : Idx)
    (hxy : ∀ j : Idx, InBox g j → j.p = i.p → j.q = i.q → x j = y j) : Fb3 g x i = Fb3 g y i := by
  rw [Fb3_eq_gsum, Fb3_eq_gsum]
  unfold gsum
  refine Finset.sum_congr rfl (fun t ht => ?_)
  simp only [mem_product, mem_range] at ht
  rw [hxy ⟨i.p, t.1, t.2.1, t.2.2, i.q⟩ ⟨ht.1, ht.2.1, ht.2.2⟩ rfl rfl]

/-- a kernel is even: invariant under reflection of the grid index -/
def IsEven (g : Grid K) (k : Tensor K) : Prop := ∀ i, InBox g i → k (negIdx g i) = k i

/-- claim 1:  F̄ diag(k) F̄ = F diag(k) F  for even k -/
theorem Fb_k_Fb (g : Grid K) (h : GridPow g) (k : Tensor K) (hk : IsEven g k) (x : Tensor K) (i : Idx) :
    Fb3 g (fun j => k j * Fb3 g x j) i = F3 g (fun j => k j * F3 g x j) i := by
  rw [Fb3_eq_F3_neg g h]
  refine F3_congr g _ _ i (fun j hj _ _ => ?_)
  rw [hk j hj, Fb3_neg_out g h x j hj]

/-- claim 2:  F diag(k) F̄ = F̄ diag(k) F  for even k -/
theorem F_k_Fb (g : Grid K) (h : GridPow g) (k : Tensor K) (hk : IsEven g k) (x : Tensor K) (i : Idx) :
    F3 g (fun j => k j * Fb3 g x j) i = Fb3 g (fun j => k j * F3 g x j) i := by
  rw [F3_eq_Fb3_neg g h]
  refine Fb3_congr g _ _ i (fun j hj _ _ => ?_)
  rw [hk j hj, Fb3_neg_out g h x j hj]

/-- the code's Hartley-based smoothing equals the Fourier-based Gaussian convolution for an even real kernel:
    dvol_t · H(k · dvol_d · H x) = (1/ncells) · F̄(k · F x) -/
theorem smooth_eq_fourier [IsDomain K] (s : Scal K) (σ : K →+* K) (hs : ScalOK s σ) (g : Grid K) (hg : GridOK g)
    (hσ : ConjOK σ g) (c : Bool) (dvolD dvolT : K) (hv : dvolT * dvolD * (g.ncells : K) = 1)
    (hσD : σ dvolD = dvolD) (k : Tensor K) (hkr : IsReal σ k) (hk : IsEven g k) (x : Tensor K) (hx : IsReal σ x)
    (i : Idx) :
    smoothApply s g c dvolD dvolT false k x i = ifftn3 g (fun j => k j * fftn3 g x j) i := by
  have h := hg.toPow
  have m1 : ((1 : Nat) &&& 3 != 0) = true := by decide
  have m4 : ((4 : Nat) &&& 3 != 0) = false := by decide
  simp only [smoothApply, Bool.false_eq_true, if_false, hartleyCartesian, m1, m4, if_true, ifftn3_eq, fftn3_eq]
  -- the intermediate tensor is real
  have hu : IsReal σ (fun j => k j * (hartley3 s g c x j * dvolD)) := by
    intro j; rw [map_mul, map_mul, hkr j, hσD, hartley3_real s σ hs g hσ c x hx j]
  rw [hartley3_eq s σ hs g hσ c _ hu, hartley3_eq s σ hs g hσ c x hx]
  have e : (fun j => k j * ((hA s c * F3 g x j + hB s c * Fb3 g x j) * dvolD))
      = fun j => (dvolD * hA s c) * (k j * F3 g x j) + (dvolD * hB s c) * (k j * Fb3 g x j) := by
    funext j; ring
  simp only [e, F3_add, Fb3_add, F3_smul, Fb3_smul]
  rw [Fb_k_Fb g h k hk x i, F_k_Fb g h k hk x i]
  have hn : g.nInv = dvolT * dvolD := by
    linear_combination (dvolT * dvolD) * hg.inv + (-g.nInv) * hv
  rw [hn]
  linear_combination (dvolD * dvolT * F3 g (fun j => k j * F3 g x j) i) * hAB_sq s σ hs c
    + (dvolD * dvolT * Fb3 g (fun j => k j * F3 g x j) i) * hAB_two s σ hs c

theorem kAxisSq_rho (n : Nat) (d : Rat) (j : Nat) (hj : j < n) : kAxisSq n d (rho n j) = kAxisSq n d j := by
  unfold kAxisSq rho
  rcases Nat.eq_zero_or_pos j with h0 | hpos
  · subst h0; simp
  · rw [Nat.mod_eq_of_lt (by omega : n - j < n)]
    have : min (n - j) (n - (n - j)) = min j (n - j) := by omega
    simp only [this]

/-- every kernel that is a function of the k-length (as the documented Gaussian exp(-2π²σ²k²)) is even -/
theorem kernel_of_kSq_even (g : Grid K) (h1 h2 h3 : Rat) (f : Rat → K) :
    IsEven g (fun i => f (kSq g.n1 g.n2 g.n3 h1 h2 h3 i)) := by
  intro i hi
  simp only [negIdx_eq, kSq, kAxisSq_rho _ _ _ hi.1, kAxisSq_rho _ _ _ hi.2.1, kAxisSq_rho _ _ _ hi.2.2]

end NiftyVerif.Harmonic
