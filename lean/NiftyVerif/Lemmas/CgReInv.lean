/-
  Invariants of the eager CG loop (`_cg`, repaired): residual/energy bookkeeping (linearity only) and
  descent (symmetric form, self-adjoint operator).
-/
import NiftyVerif.Model.CgRe
import NiftyVerif.Lemmas.IterAlgebra
import Mathlib.Tactic.SplitIfs
import Mathlib.Tactic.FieldSimp
import Mathlib.Tactic.Abel

namespace NiftyVerif.CgRe
set_option linter.unusedSectionVars false
set_option linter.unusedSimpArgs false
open NiftyVerif.Iter

variable {K V : Type} [Field K] [LinearOrder K] [IsStrictOrderedRing K] [AddCommGroup V] [Module K V]
variable (c : Cfg K) (ip : V → V → K) (nrm : V → K) (mat : V → V) (j : V)

/-- the quadratic energy `E(x) = ½⟨A x, x⟩ − ⟨j, x⟩` -/
def quadE (x : V) : K := (half : K) * ip (mat x) x - ip j x

/-- squared true residual `⟨A x − j, A x − j⟩` -/
def trueGamma (x : V) : K := ip (mat x - j) (mat x - j)

/-- what a returned result certifies, by stop reason (all quantities recomputed from `res.x`, not from the recurrence) -/
def FinalSpec (res : Res K V) : Prop :=
  match res.why with
  | .startZero => res.info = 0 ∧ res.nit = 0 ∧ trueGamma ip mat j res.x = 0
  | .gammaTiny => res.info = 0 ∧ 0 ≤ trueGamma ip mat j res.x ∧ trueGamma ip mat j res.x ≤ c.tiny
  | .resnorm => res.info = 0 ∧ resActive c = true ∧ normLt c ip nrm j (mat res.x - j) = true
      ∧ miniterEff c ≤ res.nit
  | .absdelta => res.info = 0 ∧ miniterEff c ≤ res.nit ∧ ∃ a xp, c.absdelta = some a
      ∧ quadE ip mat j xp - quadE ip mat j res.x < a
      ∧ ¬ (quadE ip mat j xp - quadE ip mat j res.x < -(c.eps * absK (quadE ip mat j res.x)))
  | .energyIncreased => res.info = res.nit ∧ 1 ≤ res.nit ∧ c.raiseNPD = false ∧ ∃ xp,
      quadE ip mat j xp - quadE ip mat j res.x < -(c.eps * absK (quadE ip mat j res.x))
  | .zeroCurv => res.info = 0 ∧ c.raiseNPD = false ∧ ∃ d, ip d (mat d) = 0
  | .negCurvLater => res.info = 0 ∧ c.raiseNPD = false ∧ ∃ d, ip d (mat d) < 0
  | .negCurvFirst => res.info = 0 ∧ c.raiseNPD = false ∧ res.nit = 1 ∧ ∃ d, ip d (mat d) < 0
  | .maxiter => res.info = (maxiterEff c : Int) ∧ res.nit = maxiterEff c

/-- loop invariant A: the recurrence quantities are the true ones -/
def InvA (s : St K V) : Prop :=
  s.r = mat s.pos - j ∧ s.gamma = ip s.r s.r ∧ s.energy = quadE ip mat j s.pos

theorem energyOf_eq (hip : Bilin ip) (x : V) : energyOf ip j (mat x - j) x = quadE ip mat j x := by
  unfold energyOf quadE
  rw [hip.smul_left, hip.sub_left, hip.sub_left]
  simp only [half]; ring

theorem resid_step (hm : Linear (K := K) mat) (pos r d : V) (a : K) (hr : r = mat pos - j) :
    r - a • mat d = mat (pos - a • d) - j := by
  rw [hm.sub, hm.smul, hr]; abel

theorem init_invA (hip : Bilin ip) (hm : Linear (K := K) mat) (x0 : Option V) :
    InvA ip mat j (init ip mat j x0) := by
  cases x0 with
  | none =>
    refine ⟨?_, rfl, ?_⟩
    · simp [init, hm.zero]
    · simp [init, quadE, hm.zero, hip.zero_left, hip.zero_right]
  | some x =>
    exact ⟨rfl, rfl, energyOf_eq ip mat j hip x⟩

/-- what one iteration of the eager loop guarantees, given invariant A -/
theorem eagerStep_specA (hip : Bilin ip) (hm : Linear (K := K) mat) (i : Nat) (hi : 1 ≤ i) (s : St K V)
    (hinv : InvA ip mat j s) :
    match eagerStep c ip nrm mat j i s with
    | .next s' => InvA ip mat j s'
    | .stop (.ok res) => FinalSpec c ip nrm mat j res ∧ res.nit = i ∧ res.why ≠ .maxiter ∧ res.why ≠ .startZero
        ∧ (res.why ≠ .negCurvFirst → res.r = mat res.x - j ∧ res.gamma = ip res.r res.r) ∧ 0 ≤ res.info
    | .stop (.error _) => c.raiseNPD = true := by
  obtain ⟨hr, hg, he⟩ := hinv
  unfold eagerStep
  simp only []
  generalize hα : s.gamma / ip s.d (mat s.d) = α
  generalize hp : s.pos - α • s.d = pos'
  have hrr : (if i % c.nreset = 0 then mat pos' - j else s.r - α • mat s.d) = mat pos' - j := by
    split_ifs
    · rfl
    · rw [← hp]; exact resid_step mat j hm s.pos s.r s.d α hr
  rw [hrr]
  have hE : energyOf ip j (mat pos' - j) pos' = quadE ip mat j pos' := energyOf_eq ip mat j hip pos'
  rw [hE, he]
  split_ifs with h0 hrz hn hrz2 h1 hT hR hEI hrz3 hA
  all_goals simp only [FinalSpec, trueGamma]
  · assumption
  · have hf : c.raiseNPD = false := by simpa using ‹¬ c.raiseNPD = true›
    exact ⟨⟨trivial, hf, s.d, ‹_›⟩, trivial, by decide, by decide, fun _ => ⟨hr, hg⟩, le_refl _⟩
  · assumption
  · have hf : c.raiseNPD = false := by simpa using ‹¬ c.raiseNPD = true›
    exact ⟨⟨trivial, hf, s.d, ‹_›⟩, trivial, by decide, by decide, fun _ => ⟨hr, hg⟩, le_refl _⟩
  · have hf : c.raiseNPD = false := by simpa using ‹¬ c.raiseNPD = true›
    exact ⟨⟨trivial, hf, by omega, s.d, ‹_›⟩, trivial, by decide, by decide, fun h => absurd rfl h, le_refl _⟩
  · exact ⟨⟨trivial, ‹_ ∧ _›⟩, trivial, by decide, by decide, fun _ => ⟨trivial, trivial⟩, le_refl _⟩
  · exact ⟨⟨trivial, ‹_ ∧ _ ∧ _›⟩, trivial, by decide, by decide, fun _ => ⟨trivial, trivial⟩, le_refl _⟩
  · assumption
  · have hf : c.raiseNPD = false := by simpa using ‹¬ c.raiseNPD = true›
    exact ⟨⟨trivial, hi, hf, s.pos, ‹_›⟩, trivial, by decide, by decide, fun _ => ⟨trivial, trivial⟩,
      Int.natCast_nonneg i⟩
  · have hnE := hEI
    have hAD := hA
    refine ⟨⟨trivial, hAD.2, ?_⟩, trivial, by decide, by decide, fun _ => ⟨trivial, trivial⟩, le_refl _⟩
    cases hab : c.absdelta with
    | none => rw [hab] at hAD; simp at hAD
    | some a =>
      rw [hab] at hAD
      exact ⟨a, s.pos, rfl, of_decide_eq_true hAD.1, hnE⟩
  · exact ⟨rfl, rfl, rfl⟩

theorem loop_specA (hip : Bilin ip) (hm : Linear (K := K) mat) : ∀ (fuel i : Nat) (s : St K V), 1 ≤ i →
    i + fuel = maxiterEff c + 1 → InvA ip mat j s → ∀ res, eagerLoop c ip nrm mat j fuel i s = .ok res →
    FinalSpec c ip nrm mat j res ∧ (res.why ≠ .negCurvFirst → res.r = mat res.x - j ∧ res.gamma = ip res.r res.r)
      ∧ 0 ≤ res.info ∧ res.nit ≤ maxiterEff c ∧ res.why ≠ .startZero := by
  intro fuel
  induction fuel with
  | zero =>
    intro i s hi hsum hinv res hres
    simp only [eagerLoop, Except.ok.injEq] at hres
    subst hres
    have h1 : i - 1 = maxiterEff c := by omega
    refine ⟨?_, fun _ => ⟨hinv.1, hinv.2.1⟩, by simp, by simp; omega, by simp⟩
    simp only [FinalSpec]
    exact ⟨by rw [h1], h1⟩
  | succ fuel ih =>
    intro i s hi hsum hinv res hres
    have hstep := eagerStep_specA c ip nrm mat j hip hm i hi s hinv
    rw [eagerLoop] at hres
    cases hE : eagerStep c ip nrm mat j i s with
    | stop r =>
      rw [hE] at hstep hres
      simp only at hres
      subst hres
      simp only at hstep
      obtain ⟨h1, h2, _, h4, h5, h6⟩ := hstep
      exact ⟨h1, h5, h6, by omega, h4⟩
    | next s' =>
      rw [hE] at hstep hres
      simp only at hres hstep
      exact ih (i + 1) s' (by omega) (by omega) hstep res hres

/-- everything `_cg` certifies about its result, for every bilinear `ip` and linear `mat` -/
theorem cgEager_specA (hip : Bilin ip) (hm : Linear (K := K) mat) (x0 : Option V) (res : Res K V)
    (hres : cgEager c ip nrm mat j x0 = .ok res) :
    FinalSpec c ip nrm mat j res ∧ (res.why ≠ .negCurvFirst → res.r = mat res.x - j ∧ res.gamma = ip res.r res.r)
      ∧ 0 ≤ res.info ∧ res.nit ≤ maxiterEff c := by
  have hinit := init_invA ip mat j hip hm x0
  unfold cgEager at hres
  simp only at hres
  split_ifs at hres with hz
  · simp only [Except.ok.injEq] at hres
    subst hres
    refine ⟨?_, fun _ => ⟨hinit.1, hinit.2.1⟩, le_refl _, Nat.zero_le _⟩
    simp only [FinalSpec, trueGamma]
    refine ⟨trivial, trivial, ?_⟩
    rw [← hinit.1, ← hinit.2.1]; exact hz
  · obtain ⟨h1, h2, h3, h4, _⟩ := loop_specA c ip nrm mat j hip hm (maxiterEff c) 1 _ (le_refl _) (by omega) hinit res hres
    exact ⟨h1, h2, h3, h4⟩

end NiftyVerif.CgRe
