/-
  Lemmas/Intern.lean — hash-consing lemmas (C08).
-/
import NiftyVerif.Model.Intern
import Mathlib.Data.List.Nodup
import Mathlib.Data.List.Sort
import Mathlib.Data.List.Perm.Basic
import Mathlib.Data.String.Basic
import Mathlib.Tactic.Linarith
namespace NiftyVerif.Intern
variable {D : Type} [DecidableEq D]

theorem idxOf?_some {t : List D} {d : D} {i : Nat} (h : t.idxOf? d = some i) : t[i]? = some d := by
  induction t generalizing i with
  | nil => simp [List.idxOf?] at h
  | cons x xs ih =>
    simp only [List.idxOf?_cons] at h
    split at h
    · rename_i hx
      simp at h; subst h
      simp at hx; simp [hx]
    · cases hr : xs.idxOf? d with
      | none => simp [hr] at h
      | some k =>
        simp [hr] at h; subst h
        simpa using ih hr

theorem idxOf?_none {t : List D} {d : D} (h : t.idxOf? d = none) : d ∉ t := by
  induction t with
  | nil => simp
  | cons x xs ih =>
    simp only [List.idxOf?_cons] at h
    split at h
    · simp at h
    · rename_i hx
      cases hr : xs.idxOf? d with
      | none =>
        simp at hx
        simp only [List.mem_cons, not_or]
        exact ⟨fun e => hx e.symm, ih hr⟩
      | some k => simp [hr] at h

/-- `make` returns an object carrying the requested description, only ever appends, and keeps descriptions distinct -/
theorem make_spec (t : List D) (d : D) (hn : t.Nodup) :
    (make t d).1[(make t d).2]? = some d ∧ (∃ ext, (make t d).1 = t ++ ext) ∧ (make t d).1.Nodup := by
  unfold make
  cases h : t.idxOf? d with
  | some i => exact ⟨idxOf?_some h, ⟨[], by simp⟩, hn⟩
  | none =>
    refine ⟨by simp, ⟨[d], rfl⟩, ?_⟩
    rw [List.nodup_append]
    refine ⟨hn, List.nodup_singleton d, ?_⟩
    intro a ha b hb
    simp at hb; subst hb
    intro e; subst e
    exact idxOf?_none h ha

/-- in a duplicate-free table, identity (index) and description determine each other -/
theorem nodup_index_inj (t : List D) (hn : t.Nodup) (i j : Nat) (d1 d2 : D) (h1 : t[i]? = some d1) (h2 : t[j]? = some d2) :
    i = j ↔ d1 = d2 := by
  constructor
  · intro e; subst e; rw [h1] at h2; exact Option.some.inj h2
  · intro e; subst e
    obtain ⟨hi, e1⟩ := List.getElem?_eq_some_iff.mp h1
    obtain ⟨hj, e2⟩ := List.getElem?_eq_some_iff.mp h2
    exact (List.Nodup.getElem_inj_iff hn).mp (e1.trans e2.symm)

theorem getElem?_append_some {t ext : List D} {i : Nat} {d : D} (h : t[i]? = some d) : (t ++ ext)[i]? = some d := by
  rw [List.getElem?_append_left (List.getElem?_eq_some_iff.mp h).1]; exact h

/-- **intern_canonical** (two calls anywhere in a history): after `make d1`, any further history `mid`, and `make d2`,
    the two objects are identical iff the descriptions are equal -/
theorem intern_canonical (t : List D) (hn : t.Nodup) (d1 d2 : D) (mid : List D) :
    let s1 := make t d1
    let s2 := makeAll s1.1 mid
    let s3 := make s2.1 d2
    s1.2 = s3.2 ↔ d1 = d2 := by
  intro s1 s2 s3
  obtain ⟨a1, ⟨e1, he1⟩, n1⟩ := make_spec t d1 hn
  -- the history only appends and keeps the table duplicate free
  have hist : ∀ (tt : List D) (ds : List D), tt.Nodup → (∃ ext, (makeAll tt ds).1 = tt ++ ext) ∧ (makeAll tt ds).1.Nodup := by
    intro tt ds
    induction ds generalizing tt with
    | nil => intro h; exact ⟨⟨[], by simp [makeAll]⟩, by simpa [makeAll] using h⟩
    | cons x xs ih =>
      intro h
      obtain ⟨_, ⟨ex, hex⟩, nx⟩ := make_spec tt x h
      obtain ⟨⟨ex2, hex2⟩, nx2⟩ := ih (make tt x).1 nx
      simp only [makeAll]
      refine ⟨⟨ex ++ ex2, ?_⟩, nx2⟩
      rw [hex2, hex, List.append_assoc]
  obtain ⟨⟨e2, he2⟩, n2⟩ := hist s1.1 mid n1
  obtain ⟨a3, ⟨e3, he3⟩, n3⟩ := make_spec s2.1 d2 n2
  have f1 : s3.1[s1.2]? = some d1 := by
    show (make s2.1 d2).1[s1.2]? = some d1
    rw [he3, he2]
    exact getElem?_append_some (getElem?_append_some a1)
  exact nodup_index_inj s3.1 n3 s1.2 s3.2 d1 d2 f1 a3

/-- **intern_idempotent** / **pickle_identity**: making the description stored in an existing object returns that very
    object and leaves the table unchanged (`pickle.loads(pickle.dumps(obj)) is obj`) -/
theorem pickle_identity (t : List D) (hn : t.Nodup) (i : Nat) (d : D) (h : t[i]? = some d) :
    pickleRoundTrip t i = some (t, i) := by
  unfold pickleRoundTrip desc
  rw [h]
  simp only [Option.map_some, Option.some.injEq]
  unfold make
  cases hq : t.idxOf? d with
  | some k =>
    have := idxOf?_some hq
    have e : k = i := (nodup_index_inj t hn k i d d this h).mpr rfl
    rw [e]
  | none =>
    exact absurd (List.mem_of_getElem? h) (idxOf?_none hq)


section kv
variable {V : Type}

def keyLt (a b : String × V) : Prop := a.1 < b.1


theorem insertKV_perm (kv : String × V) (l : List (String × V)) (hk : ∀ x ∈ l, x.1 ≠ kv.1) :
    (insertKV kv l).Perm (kv :: l) := by
  induction l with
  | nil => simp [insertKV]
  | cons x xs ih =>
    simp only [insertKV]
    split
    · exact List.Perm.refl _
    · split
      · rename_i h; exact absurd h.symm (hk x List.mem_cons_self)
      · exact (List.Perm.cons x (ih fun y hy => hk y (List.mem_cons_of_mem _ hy))).trans (List.Perm.swap kv x xs)

theorem insertKV_sorted (kv : String × V) (l : List (String × V)) (hs : l.Pairwise keyLt) :
    (insertKV kv l).Pairwise keyLt := by
  induction l with
  | nil => simp [insertKV]
  | cons x xs ih =>
    have hx := (List.pairwise_cons.mp hs)
    simp only [insertKV]
    split
    · rename_i h
      refine List.pairwise_cons.mpr ⟨?_, hs⟩
      intro y hy
      rcases List.mem_cons.mp hy with rfl | hy
      · exact h
      · exact lt_trans h (hx.1 y hy)
    · split
      · rename_i _ h
        refine List.pairwise_cons.mpr ⟨?_, hx.2⟩
        intro y hy
        have := hx.1 y hy
        unfold keyLt at this ⊢
        rw [h]; exact this
      · rename_i h1 h2
        have hlt : x.1 < kv.1 := lt_of_le_of_ne (not_lt.mp h1) (Ne.symm h2)
        refine List.pairwise_cons.mpr ⟨?_, ih hx.2⟩
        intro y hy
        -- members of insertKV kv xs are kv or members of xs
        have hmem : ∀ (l : List (String × V)) (y : String × V), y ∈ insertKV kv l → y = kv ∨ y ∈ l := by
          intro l
          induction l with
          | nil => intro y hy; simp [insertKV] at hy; exact Or.inl hy
          | cons z zs ihz =>
            intro y hy
            simp only [insertKV] at hy
            split at hy
            · rcases List.mem_cons.mp hy with rfl | hy
              · exact Or.inl rfl
              · exact Or.inr hy
            · split at hy
              · rcases List.mem_cons.mp hy with rfl | hy
                · exact Or.inl rfl
                · exact Or.inr (List.mem_cons_of_mem _ hy)
              · rcases List.mem_cons.mp hy with rfl | hy
                · exact Or.inr List.mem_cons_self
                · rcases ihz y hy with h | h
                  · exact Or.inl h
                  · exact Or.inr (List.mem_cons_of_mem _ h)
        rcases hmem xs y hy with rfl | hy'
        · exact hlt
        · exact hx.1 y hy'

theorem canonKV_sorted (l : List (String × V)) : (canonKV l).Pairwise keyLt := by
  induction l with
  | nil => simp [canonKV]
  | cons kv rest ih => exact insertKV_sorted kv _ ih

theorem canonKV_perm (l : List (String × V)) (hn : (l.map (·.1)).Nodup) : (canonKV l).Perm l := by
  induction l with
  | nil => simp [canonKV]
  | cons kv rest ih =>
    have hn' := List.nodup_cons.mp hn
    have ihr := ih hn'.2
    simp only [canonKV]
    refine (insertKV_perm kv _ ?_).trans (List.Perm.cons kv ihr)
    intro x hx e
    have : x ∈ rest := ihr.subset hx
    have hm : x.1 ∈ rest.map (·.1) := List.mem_map_of_mem (f := (·.1)) this
    rw [e] at hm
    exact hn'.1 hm

/-- **multidomain_key_order_irrelevant**: two dicts with the same items (distinct keys), given in any order,
    have the same canonical description — hence `MultiDomain.make` returns the identical object for them -/
theorem canonKV_order_irrelevant (l1 l2 : List (String × V)) (hp : l1.Perm l2) (hn : (l1.map (·.1)).Nodup) :
    canonKV l1 = canonKV l2 := by
  have hn2 : (l2.map (·.1)).Nodup := (hp.map _).nodup_iff.mp hn
  have p : (canonKV l1).Perm (canonKV l2) := (canonKV_perm l1 hn).trans (hp.trans (canonKV_perm l2 hn2).symm)
  exact List.Perm.eq_of_pairwise (le := keyLt) (fun a b _ _ h1 h2 => absurd h1 (not_lt_of_gt h2))
    (canonKV_sorted l1) (canonKV_sorted l2) p

end kv
end NiftyVerif.Intern
