/-
  Lemmas/Smap.lean — array and bookkeeping lemmas for Model/Smap.lean (C33).
-/
import NiftyVerif.Model.Smap
namespace NiftyVerif.Smap
variable {α : Type} [Inhabited α]

theorem slice_moveaxis_eq (a : Arr α) (i t : Nat) : slice (moveaxis a i 0) 0 t = slice a i t := by
  simp [slice, moveaxis]

theorem slice_moveaxis'_eq (a : Arr α) (i t : Nat) : slice (moveaxis' a i 0) 0 t = slice a i t := by
  unfold moveaxis'
  split
  · rename_i h; subst h; rfl
  · exact slice_moveaxis_eq a i t

theorem moveaxis_stack_eq (ys : List (Arr α)) (o : Nat) : moveaxis' (stack ys 0) 0 o = stack ys o := by
  unfold moveaxis'
  split
  · rename_i h; subst h; rfl
  · simp [moveaxis, stack]

theorem slice_stack_zero (ys : List (Arr α)) : slice (stack ys 0) 0 0 = ys.getD 0 default := by
  cases ys with
  | nil => simp [slice, stack]
  | cons y rest => simp [slice, stack]

/-- **reord_inverse**: `_fun_reord` puts every argument back where it came from: unmapped leaves unchanged, mapped
    leaves replaced by whatever the scan hands over for them (`g` of the leaf moved to axis 0) -/
theorem reord_inverse (g : Arr α → Arr α) (inAxes : List (Option Nat)) (xs : List (Arr α)) :
    reassemble inAxes (partition inAxes xs).1 ((partition inAxes xs).2.map g) =
      List.zipWith (fun (ax : Option Nat) x => match ax with | none => x | some i => g (moveaxis' x i 0)) inAxes xs := by
  induction inAxes generalizing xs with
  | nil => cases xs <;> simp [reassemble]
  | cons ax axs ih =>
    cases xs with
    | nil => cases ax <;> simp [partition, reassemble]
    | cons x xs =>
      cases ax with
      | none => simp [partition, reassemble, ih xs]
      | some i => simp [partition, reassemble, ih xs]

theorem argsAt_eq (inAxes : List (Option Nat)) (xs : List (Arr α)) (t : Nat) :
    argsAt inAxes xs t =
      List.zipWith (fun (ax : Option Nat) x => match ax with | none => x | some i => slice x i t) inAxes xs := by
  unfold argsAt
  have := reord_inverse (fun a => slice a 0 t) inAxes xs
  simp only [] at this ⊢
  rw [this]
  congr 1
  funext ax x
  cases ax with
  | none => rfl
  | some i => exact slice_moveaxis'_eq x i t

theorem assemble_fixed (oas : List (Option Nat)) (ys un : List (Arr α)) :
    assemble fixed oas ys un =
      List.zipWith (fun (o : Option Nat) y => match o with | some o => moveaxis' y 0 o | none => slice y 0 0) oas ys := by
  induction oas generalizing ys with
  | nil => cases ys <;> simp [assemble]
  | cons o oas ih =>
    cases ys with
    | nil => cases o <;> simp [assemble]
    | cons y ys =>
      have ih' := ih ys
      unfold fixed at ih'
      cases o <;> simp [assemble, fixed, ih']

/-- **smap_eq_vmap**: for the repaired code, every function `f`, every axis specification (mapped / unmapped inputs,
    output axes incl. `None`), every scan length: `_generic_smap` returns exactly what `jax.vmap` specifies -/
theorem smap_eq_vmap (f : List (Arr α) → List (Arr α)) (nout : Nat) (inAxes outAxes : List (Option Nat))
    (xs : List (Arr α)) (len : Nat) (hlen : 0 < len) :
    smap fixed f nout inAxes outAxes xs len = vmapSpec f nout inAxes outAxes xs len := by
  unfold smap vmapSpec
  simp only [assemble_fixed, argsAt_eq]
  rw [List.zipWith_map_right, List.zipWith_comm, ← List.map_uncurry_zip_eq_zipWith]
  apply List.map_congr_left
  intro ⟨k, o⟩ _
  cases o with
  | some o => simp only [Function.uncurry]; rw [moveaxis_stack_eq]; simp [List.map_map]; rfl
  | none =>
    simp only [Function.uncurry]
    rw [slice_stack_zero]
    cases len with
    | zero => omega
    | succ n => simp [List.range_succ_eq_map]; rfl


theorem lscanGo_spec {C X Y : Type} (f : C → X → C × Y) (xs : List X) (i : Nat) (c : C) (ys : List Y)
    (hlen : ys.length = i + xs.length) :
    lscanGo f xs i c ys = ((scan f c xs).1, ys.take i ++ (scan f c xs).2) := by
  induction xs generalizing i c ys with
  | nil => simp [lscanGo, scan]; rw [List.take_of_length_le (by simp at hlen; omega)]
  | cons x xs ih =>
    simp only [lscanGo, scan]
    have hl : (ys.set i (f c x).2).length = (i + 1) + xs.length := by simp at hlen ⊢; omega
    rw [ih (i + 1) (f c x).1 (ys.set i (f c x).2) hl]
    congr 1
    have hi : i < ys.length := by simp at hlen; omega
    rw [List.take_succ, List.take_set_of_le (Nat.le_refl i)]
    simp [List.getElem?_set_self hi]

/-- **lscan_eq_scan**: the Python loop with in-place index updates computes `lax.scan` -/
theorem lscan_eq_scan {C X Y : Type} (f : C → X → C × Y) (init : C) (xs : List X) (g : Y) :
    lscan f init xs g = scan f init xs := by
  unfold lscan
  rw [lscanGo_spec f xs 0 init _ (by simp)]
  simp

end NiftyVerif.Smap
