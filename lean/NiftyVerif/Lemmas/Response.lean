/-
  Lemmas for C35: multilinear interpolation weights, multi-affine functions, telescoping sums.
-/
import NiftyVerif.Model.Response
import NiftyVerif.Lemmas.Coo
import Mathlib.Algebra.Order.Field.Basic
import Mathlib.Algebra.Order.Ring.Abs
import Mathlib.Algebra.Order.Ring.Rat
import Mathlib.Tactic.Ring
import Mathlib.Tactic.Linarith
import Mathlib.Tactic.FieldSimp

namespace NiftyVerif.Response
open NiftyVerif Coo

section ordered
variable {F : Type} [Field F] [LinearOrder F] [IsStrictOrderedRing F]

theorem absK_eq (a : F) : absK a = |a| := by
  unfold absK
  by_cases h : a < 0
  · simp [h, abs_of_neg h]
  · simp [h, abs_of_nonneg (not_lt.mp h)]

theorem absK_corner0 (c : F) (h1 : c ≤ 1) : absK (1 - 0 - c) = 1 - c := by
  rw [absK_eq, sub_zero, abs_of_nonneg (by linarith)]

theorem absK_corner1 (c : F) (h0 : 0 ≤ c) : absK (1 - 1 - c) = c := by
  rw [absK_eq, sub_self, zero_sub, abs_neg, abs_of_nonneg h0]

/-- a function of `d` real coordinates that is affine in each coordinate separately -/
inductive MultiAff (F : Type) : Nat → Type
  | const : F → MultiAff F 0
  | step {d : Nat} : MultiAff F d → MultiAff F d → MultiAff F (d + 1)

/-- `step a b` is `f(x :: xs) = a(xs) + x · b(xs)` -/
def MultiAff.eval {F : Type} [Add F] [Mul F] : {d : Nat} → MultiAff F d → List F → F
  | _, .const a, _ => a
  | _, .step a b, x :: xs => a.eval xs + x * b.eval xs
  | _, .step a _, [] => a.eval []

/-- node coordinates `p + e` -/
def addCorner {F : Type} [Add F] [OfNat F 0] [OfNat F 1] : List F → List Nat → List F
  | p :: ps, e :: es => (p + (if e = 0 then 0 else 1)) :: addCorner ps es
  | _, _ => []

def addVec {F : Type} [Add F] : List F → List F → List F
  | p :: ps, c :: cs => (p + c) :: addVec ps cs
  | _, _ => []

theorem sumL_corners_succ (d : Nat) (g : List Nat → F) :
    sumL ((corners (d + 1)).map g) =
      sumL ((corners d).map fun e => g (0 :: e)) + sumL ((corners d).map fun e => g (1 :: e)) := by
  simp [corners, List.map_append, sumL_append, List.map_map, Function.comp_def]

/-- the `2^d` interpolation weights of a point add up to one -/
theorem weights_sum_one : ∀ (c : List F), (∀ ci ∈ c, 0 ≤ ci ∧ ci ≤ 1) →
    sumL ((corners c.length).map (cornerWeight c)) = 1
  | [], _ => by simp [corners, cornerWeight]
  | c :: cs, h => by
    have ih := weights_sum_one cs (fun ci hci => h ci (List.mem_cons_of_mem _ hci))
    have hc := h c List.mem_cons_self
    rw [List.length_cons, sumL_corners_succ]
    simp only [cornerWeight, if_true, one_ne_zero, if_false]
    rw [absK_corner0 c hc.2, absK_corner1 c hc.1, sumL_map_mul_left, sumL_map_mul_left, ih]; ring

/-- **multilinear interpolation is exact for multi-affine functions**: `Σ_corners w_e f(p + e) = f(p + c)` -/
theorem exact_multiaffine : ∀ {d : Nat} (f : MultiAff F d) (p c : List F), p.length = d → c.length = d →
    (∀ ci ∈ c, 0 ≤ ci ∧ ci ≤ 1) →
    sumL ((corners d).map fun e => cornerWeight c e * f.eval (addCorner p e)) = f.eval (addVec p c)
  | _, .const a, [], [], _, _, _ => by simp [corners, cornerWeight, MultiAff.eval]
  | _, .step a b, p :: ps, c :: cs, hp, hcl, h => by
    have hp' : ps.length = _ := Nat.succ.inj hp
    have hc' : cs.length = _ := Nat.succ.inj hcl
    have hb := fun ci hci => h ci (List.mem_cons_of_mem _ hci)
    have iha := exact_multiaffine a ps cs hp' hc' hb
    have ihb := exact_multiaffine b ps cs hp' hc' hb
    have hc := h c List.mem_cons_self
    rw [sumL_corners_succ]
    simp only [cornerWeight, addCorner, MultiAff.eval, addVec, if_true, one_ne_zero, if_false]
    rw [absK_corner0 c hc.2, absK_corner1 c hc.1]
    have e0 : ∀ e, (1 - c) * cornerWeight cs e * ((a.eval (addCorner ps e)) + (p + 0) * (b.eval (addCorner ps e)))
        = (1 - c) * (cornerWeight cs e * a.eval (addCorner ps e))
          + ((1 - c) * p) * (cornerWeight cs e * b.eval (addCorner ps e)) := by intro e; ring
    have e1 : ∀ e, c * cornerWeight cs e * ((a.eval (addCorner ps e)) + (p + 1) * (b.eval (addCorner ps e)))
        = c * (cornerWeight cs e * a.eval (addCorner ps e))
          + (c * (p + 1)) * (cornerWeight cs e * b.eval (addCorner ps e)) := by intro e; ring
    simp only [e0, e1]
    rw [sumL_map_add, sumL_map_add, sumL_map_mul_left, sumL_map_mul_left, sumL_map_mul_left, sumL_map_mul_left,
        iha, ihb]
    ring
  | _, .const _, _ :: _, _, hp, _, _ => by simp at hp
  | _, .const _, [], _ :: _, _, hc, _ => by simp at hc
  | _, .step _ _, [], _, hp, _, _ => by simp at hp
  | _, .step _ _, _ :: _, [], _, hc, _ => by simp at hc

/-- at a grid point (zero excess) the only non-zero weight is the one of the base corner -/
theorem weight_at_gridpoint : ∀ (d : Nat) (e : List Nat), e ∈ corners d →
    cornerWeight (List.replicate d (0 : F)) e = if e = List.replicate d 0 then 1 else 0
  | 0, e, he => by
    simp only [corners, List.mem_singleton] at he; subst he; simp [cornerWeight]
  | d + 1, e, he => by
    simp only [corners, List.mem_append, List.mem_map] at he
    rcases he with ⟨e', he', rfl⟩ | ⟨e', he', rfl⟩
    · have ih := weight_at_gridpoint d e' he'
      simp only [List.replicate_succ, cornerWeight, if_true]
      rw [absK_corner0 0 (by norm_num), ih]; simp
    · simp only [List.replicate_succ, cornerWeight, one_ne_zero, if_false]
      rw [absK_corner1 0 (le_refl _)]; simp

end ordered

/-- telescoping: the parts of a subdivided parameter interval add up to the whole -/
theorem intervals_sum : ∀ (a : Rat) (l : List Rat),
    sumL ((intervals (a :: l)).map fun ab => ab.2 - ab.1) = (a :: l).getLast (List.cons_ne_nil a l) - a
  | a, [] => by simp [intervals]
  | a, b :: l => by
    have ih := intervals_sum b l
    simp only [intervals, List.map_cons, sumL_cons]
    rw [ih, List.getLast_cons (List.cons_ne_nil b l)]; ring

end NiftyVerif.Response
