import NiftyVerif.Model.Grid
import NiftyVerif.Lemmas.Grid
import Mathlib.Tactic.Ring
import Mathlib.Tactic.Linarith
import Mathlib.Data.List.Forall2
namespace NiftyVerif.Grid

/-! ### Horner digits -/

theorem horner_foldl (l : List (Nat × Nat)) (a : Nat) :
    l.foldl (fun j (rd : Nat × Nat) => j * rd.1 + rd.2) a =
      a * (l.map (·.1)).prod + l.foldl (fun j (rd : Nat × Nat) => j * rd.1 + rd.2) 0 := by
  induction l generalizing a with
  | nil => simp
  | cons x xs ih =>
    simp only [List.foldl_cons, List.map_cons, List.prod_cons]
    rw [ih (a * x.1 + x.2), ih (0 * x.1 + x.2)]
    ring

theorem horner_cons (r d : Nat) (rs ds : List Nat) (h : rs.length = ds.length) :
    horner (r :: rs) (d :: ds) = d * rs.prod + horner rs ds := by
  unfold horner
  simp only [List.zip_cons_cons, List.foldl_cons]
  rw [horner_foldl]
  have : ((List.zip rs ds).map (·.1)) = rs := by
    rw [List.map_fst_zip]; omega
  rw [this]; ring

theorem horner_lt {rs ds : List Nat} (h : List.Forall₂ (· < ·) ds rs) : horner rs ds < rs.prod := by
  induction h with
  | nil => simp [horner]
  | @cons d r ds rs hd hrest ih =>
    rw [horner_cons r d rs ds hrest.length_eq.symm, List.prod_cons]
    calc d * rs.prod + horner rs ds < d * rs.prod + rs.prod := by omega
      _ = (d + 1) * rs.prod := by ring
      _ ≤ r * rs.prod := Nat.mul_le_mul_right _ hd

theorem unhorner_cons (r : Nat) (rs : List Nat) (j : Nat) :
    unhorner (r :: rs) j = ((j / rs.prod) % r) :: unhorner rs j := by
  unfold unhorner
  simp only [List.foldr_cons]
  -- the second component of the fold is j / rs.prod
  have key : ∀ (l : List Nat), (l.foldr (fun r (acc : List Nat × Nat) => ((acc.2 % r) :: acc.1, acc.2 / r)) ([], j)).2 = j / l.prod := by
    intro l
    induction l with
    | nil => simp
    | cons x xs ih => simp only [List.foldr_cons, List.prod_cons, ih]; rw [Nat.div_div_eq_div_mul, Nat.mul_comm]
  rw [key]

theorem unhorner_horner {rs ds : List Nat} (h : List.Forall₂ (· < ·) ds rs) : unhorner rs (horner rs ds) = ds := by
  induction h with
  | nil => simp [unhorner, horner]
  | @cons d r ds rs hd hrest ih =>
    have hl := horner_lt hrest
    have hpos : 0 < rs.prod := by omega
    rw [horner_cons r d rs ds hrest.length_eq.symm, unhorner_cons]
    have e1 : (d * rs.prod + horner rs ds) / rs.prod = d := by
      rw [Nat.add_comm, Nat.add_mul_div_right _ _ hpos, Nat.div_eq_of_lt hl, Nat.zero_add]
    rw [e1, Nat.mod_eq_of_lt hd]
    congr 1
    -- unhorner rs only looks at the value modulo rs.prod
    have hmod : ∀ (l : List Nat) (x y : Nat), unhorner l (x * l.prod + y) = unhorner l y := by
      intro l
      induction l with
      | nil => intro x y; simp [unhorner]
      | cons a as iha =>
        intro x y
        rw [unhorner_cons, unhorner_cons, List.prod_cons]
        have e : x * (a * as.prod) + y = (x * a) * as.prod + y := by ring
        rw [e, iha (x * a) y]
        congr 1
        by_cases hz : as.prod = 0
        · simp [hz]
        · have hp : 0 < as.prod := Nat.pos_of_ne_zero hz
          rw [Nat.add_comm, Nat.add_mul_div_right _ _ hp, Nat.add_mod, Nat.mul_mod_left, Nat.add_zero, Nat.mod_mod]
    rw [hmod rs d (horner rs ds)]
    exact ih



/-- all rows have `ndim` entries -/
def Rows (ndim : Nat) (rows : List (List Nat)) : Prop := ∀ r ∈ rows, r.length = ndim

/-- product of column `ax` -/
def colAt (ax : Nat) (rows : List (List Nat)) : Nat := (rows.map fun r => r.getD ax 1).prod

theorem foldl_zipWith_length (ndim : Nat) (rows : List (List Nat)) (acc : List Nat) (ha : acc.length = ndim)
    (hr : Rows ndim rows) : (rows.foldl (fun a r => List.zipWith (· * ·) a r) acc).length = ndim := by
  induction rows generalizing acc with
  | nil => exact ha
  | cons r rest ih =>
    simp only [List.foldl_cons]
    apply ih
    · simp [ha, hr r List.mem_cons_self]
    · intro x hx; exact hr x (List.mem_cons_of_mem _ hx)

theorem colProd_length (ndim : Nat) (rows : List (List Nat)) (hr : Rows ndim rows) : (colProd ndim rows).length = ndim :=
  foldl_zipWith_length ndim rows _ (by simp) hr

theorem foldl_zipWith_getD (ndim : Nat) (rows : List (List Nat)) (acc : List Nat) (ha : acc.length = ndim)
    (hr : Rows ndim rows) (ax : Nat) (hax : ax < ndim) :
    (rows.foldl (fun a r => List.zipWith (· * ·) a r) acc).getD ax 1 = acc.getD ax 1 * colAt ax rows := by
  induction rows generalizing acc with
  | nil => simp [colAt]
  | cons r rest ih =>
    have hrl := hr r List.mem_cons_self
    simp only [List.foldl_cons]
    rw [ih (List.zipWith (· * ·) acc r) (by simp [ha, hrl]) (fun x hx => hr x (List.mem_cons_of_mem _ hx))]
    unfold colAt
    simp only [List.map_cons, List.prod_cons]
    have : (List.zipWith (· * ·) acc r).getD ax 1 = acc.getD ax 1 * r.getD ax 1 := by
      simp [List.getD_eq_getElem?_getD, List.getElem?_zipWith, ha, hrl, hax]
    rw [this]; ring

theorem colProd_getD (ndim : Nat) (rows : List (List Nat)) (hr : Rows ndim rows) (ax : Nat) (hax : ax < ndim) :
    (colProd ndim rows).getD ax 1 = colAt ax rows := by
  unfold colProd
  rw [foldl_zipWith_getD ndim rows _ (by simp) hr ax hax]
  simp [List.getD_eq_getElem?_getD, hax]

theorem colAt_cons (ax : Nat) (r : List Nat) (rows : List (List Nat)) : colAt ax (r :: rows) = r.getD ax 1 * colAt ax rows := by
  simp [colAt]

theorem colAt_reverse (ax : Nat) (rows : List (List Nat)) : colAt ax rows.reverse = colAt ax rows := by
  simp [colAt, List.map_reverse, List.prod_reverse]




def digitsV (idx stride ww : List Nat) : List Nat :=
  List.zipWith (fun (is : Nat × Nat) w => (is.1 / is.2) % w) (List.zip idx stride) ww

/-- product of the full radices `prod(ww)` of a list of rows -/
def PP (rows : List (List Nat)) : Nat := (rows.map List.prod).prod

/-- flat value contributed by the rows `bf` (bottom first) lying above the rows `post` -/
def Wb (ndim : Nat) (idx : List Nat) : List (List Nat) → List (List Nat) → Nat
  | [], _ => 0
  | ww :: bf, post => Wb ndim idx bf (ww :: post) * ww.prod + horner ww (digitsV idx (colProd ndim post) ww)

/-- the accumulation loop of `flatindex2index` (nest), on the exact digits -/
def AbAcc (ndim : Nat) (idx : List Nat) : List (List Nat) → List (List Nat) → List Nat → List Nat
  | [], _, acc => acc
  | ww :: bf, post, acc =>
    AbAcc ndim idx bf (ww :: post)
      (List.zipWith (· + ·) acc (List.zipWith (· * ·) (colProd ndim post) (digitsV idx (colProd ndim post) ww)))

theorem ravelNestGo_rev (ndim : Nat) (idx : List Nat) (bf post : List (List Nat)) (fid : Nat) :
    ravelNestGo ndim idx (bf.reverse ++ post) fid = ravelNestGo ndim idx post (fid * PP bf + Wb ndim idx bf post) := by
  induction bf generalizing post fid with
  | nil => simp [PP, Wb]
  | cons ww bf ih =>
    rw [List.reverse_cons, List.append_assoc, List.singleton_append, ih (ww :: post) fid]
    simp only [ravelNestGo, Wb, PP, List.map_cons, List.prod_cons]
    congr 1
    unfold digitsV
    ring

theorem digitsV_lt (idx stride ww : List Nat) (h1 : idx.length = ww.length) (h2 : stride.length = ww.length)
    (hpos : ∀ w ∈ ww, 0 < w) : List.Forall₂ (· < ·) (digitsV idx stride ww) ww := by
  unfold digitsV
  induction ww generalizing idx stride with
  | nil => simp
  | cons w ws ih =>
    cases idx with
    | nil => simp at h1
    | cons i is_ =>
      cases stride with
      | nil => simp at h2
      | cons s ss =>
        simp only [List.zip_cons_cons, List.zipWith_cons_cons]
        exact List.Forall₂.cons (Nat.mod_lt _ (hpos w List.mem_cons_self))
          (ih is_ ss (by simpa using h1) (by simpa using h2) (fun x hx => hpos x (List.mem_cons_of_mem _ hx)))

/-- all entries of all rows are positive -/
def PosRows (rows : List (List Nat)) : Prop := ∀ r ∈ rows, ∀ w ∈ r, 0 < w

theorem unravelNestGo_Wb (ndim : Nat) (idx : List Nat) (hidx : idx.length = ndim) (bf post : List (List Nat))
    (hr : Rows ndim (bf ++ post)) (hp : PosRows bf) (acc : List Nat) :
    unravelNestGo ndim bf post (Wb ndim idx bf post) acc = AbAcc ndim idx bf post acc := by
  induction bf generalizing post acc with
  | nil => simp [unravelNestGo, AbAcc]
  | cons ww bf ih =>
    have hww : ww.length = ndim := hr ww (by simp)
    have hpost : Rows ndim post := fun r hr' => hr r (by simp [hr'])
    have hcl := colProd_length ndim post hpost
    have hlt := digitsV_lt idx (colProd ndim post) ww (by omega) (by omega) (hp ww List.mem_cons_self)
    have hh := horner_lt hlt
    have hpos : 0 < ww.prod := by omega
    simp only [unravelNestGo, Wb, AbAcc]
    have e1 : (Wb ndim idx bf (ww :: post) * ww.prod + horner ww (digitsV idx (colProd ndim post) ww)) % ww.prod
        = horner ww (digitsV idx (colProd ndim post) ww) := by
      rw [Nat.add_comm, Nat.add_mul_mod_self_right, Nat.mod_eq_of_lt hh]
    have e2 : (Wb ndim idx bf (ww :: post) * ww.prod + horner ww (digitsV idx (colProd ndim post) ww)) / ww.prod
        = Wb ndim idx bf (ww :: post) := by
      rw [Nat.add_comm, Nat.add_mul_div_right _ _ hpos, Nat.div_eq_of_lt hh, Nat.zero_add]
    rw [e1, e2, unhorner_horner hlt]
    exact ih (ww :: post) (by intro r hr'; exact hr r (by simp only [List.mem_append, List.mem_cons] at hr' ⊢; tauto)) (fun r hr' => hp r (List.mem_cons_of_mem _ hr')) _



theorem getD_zipWith_lt (f : Nat → Nat → Nat) (a b : List Nat) (ax : Nat) (ha : ax < a.length) (hb : ax < b.length) (d da db : Nat) :
    (List.zipWith f a b).getD ax d = f (a.getD ax da) (b.getD ax db) := by
  simp [List.getD_eq_getElem?_getD, ha, hb]

theorem getD_indep (l : List Nat) (ax : Nat) (h : ax < l.length) (d1 d2 : Nat) : l.getD ax d1 = l.getD ax d2 := by
  simp [List.getD_eq_getElem?_getD, h]

theorem digitsV_getD (idx stride ww : List Nat) (ax : Nat) (h1 : ax < idx.length) (h2 : ax < stride.length) (h3 : ax < ww.length) :
    (digitsV idx stride ww).getD ax 0 = (idx.getD ax 0 / stride.getD ax 1) % ww.getD ax 1 := by
  unfold digitsV
  simp [List.getD_eq_getElem?_getD, h1, h2, h3]

theorem digitsV_length (idx stride ww : List Nat) (n : Nat) (h1 : idx.length = n) (h2 : stride.length = n) (h3 : ww.length = n) :
    (digitsV idx stride ww).length = n := by
  unfold digitsV; simp [h1, h2, h3]

theorem AbAcc_spec (ndim : Nat) (idx : List Nat) (hidx : idx.length = ndim) (bf post : List (List Nat))
    (hr : Rows ndim (bf ++ post)) (acc : List Nat) (hacc : acc.length = ndim) :
    (AbAcc ndim idx bf post acc).length = ndim ∧
    ∀ ax, ax < ndim → (AbAcc ndim idx bf post acc).getD ax 0 =
      acc.getD ax 0 + ((idx.getD ax 0 / colAt ax post) % colAt ax bf) * colAt ax post := by
  induction bf generalizing post acc with
  | nil =>
    refine ⟨hacc, ?_⟩
    intro ax _
    simp [AbAcc, colAt, Nat.mod_one]
  | cons ww bf ih =>
    have hww : ww.length = ndim := hr ww (by simp)
    have hpost : Rows ndim post := fun r hr' => hr r (by simp [hr'])
    have hcl := colProd_length ndim post hpost
    have hdl := digitsV_length idx (colProd ndim post) ww ndim hidx hcl hww
    simp only [AbAcc]
    have hacc' : (List.zipWith (· + ·) acc (List.zipWith (· * ·) (colProd ndim post)
        (digitsV idx (colProd ndim post) ww))).length = ndim := by simp [hacc, hcl, hdl]
    obtain ⟨l1, l2⟩ := ih (ww :: post)
      (by intro r hr'; exact hr r (by simp only [List.mem_append, List.mem_cons] at hr' ⊢; tauto)) _ hacc'
    refine ⟨l1, ?_⟩
    intro ax hax
    rw [l2 ax hax]
    rw [getD_zipWith_lt (· + ·) _ _ ax (by omega) (by simp [hcl, hdl]; omega) 0 0 0]
    rw [getD_zipWith_lt (· * ·) _ _ ax (by omega) (by omega) 0 1 0]
    rw [digitsV_getD idx _ ww ax (by omega) (by omega) (by omega)]
    rw [colProd_getD ndim post hpost ax hax, colAt_cons, colAt_cons]
    generalize idx.getD ax 0 = i
    generalize colAt ax post = s
    generalize ww.getD ax 1 = w
    generalize colAt ax bf = P'
    generalize acc.getD ax 0 = a
    -- a + s*((i/s)%w) + ((i/(w*s)) % P') * (w*s) = a + ((i/s) % (w*P')) * s
    have e1 : i / (w * s) = i / s / w := by rw [Nat.div_div_eq_div_mul, Nat.mul_comm]
    rw [e1, Nat.mod_mul]
    ring



theorem list_ext_getD (a b : List Nat) (n : Nat) (ha : a.length = n) (hb : b.length = n)
    (h : ∀ ax, ax < n → a.getD ax 0 = b.getD ax 0) : a = b := by
  apply List.ext_getElem (by omega)
  intro i h1 h2
  have := h i (by omega)
  simpa [List.getD_eq_getElem?_getD, h1, h2] using this

/-- **flat_roundtrip_nest** on the weight rows: `flatindex2index(index2flatindex(idx)) = idx` for the nest ordering,
    for every number of levels and dimensions -/
theorem nest_roundtrip_rows (ndim : Nat) (rows : List (List Nat)) (idx : List Nat) (hidx : idx.length = ndim)
    (hr : Rows ndim rows) (hp : PosRows rows) (hlt : ∀ ax, ax < ndim → idx.getD ax 0 < colAt ax rows) :
    unravelNestGo ndim rows.reverse [] (ravelNestGo ndim idx rows 0) (List.replicate ndim 0) = idx := by
  have e : ravelNestGo ndim idx rows 0 = Wb ndim idx rows.reverse [] := by
    have := ravelNestGo_rev ndim idx rows.reverse [] 0
    simp only [List.reverse_reverse, List.append_nil, Nat.zero_mul, Nat.zero_add, ravelNestGo] at this
    exact this
  have hr' : Rows ndim (rows.reverse ++ []) := by
    intro r hr''; exact hr r (by simpa using hr'')
  have hp' : PosRows rows.reverse := fun r hr'' => hp r (by simpa using hr'')
  rw [e, unravelNestGo_Wb ndim idx hidx rows.reverse [] hr' hp']
  obtain ⟨l1, l2⟩ := AbAcc_spec ndim idx hidx rows.reverse [] hr' (List.replicate ndim 0) (by simp)
  apply list_ext_getD _ _ ndim l1 hidx
  intro ax hax
  rw [l2 ax hax, colAt_reverse]
  have h0 : (List.replicate ndim 0).getD ax 0 = 0 := by simp [List.getD_eq_getElem?_getD, hax]
  have hc : colAt ax ([] : List (List Nat)) = 1 := by simp [colAt]
  rw [h0, hc, Nat.div_one, Nat.mul_one, Nat.zero_add, Nat.mod_eq_of_lt (hlt ax hax)]

/-- the flat index is below the size `prod(shape)` of the level -/
theorem Wb_lt (ndim : Nat) (idx : List Nat) (hidx : idx.length = ndim) (bf post : List (List Nat))
    (hr : Rows ndim (bf ++ post)) (hp : PosRows bf) : Wb ndim idx bf post < PP bf ∨ bf = [] := by
  induction bf generalizing post with
  | nil => exact Or.inr rfl
  | cons ww bf ih =>
    left
    have hww : ww.length = ndim := hr ww (by simp)
    have hpost : Rows ndim post := fun r hr' => hr r (by simp [hr'])
    have hcl := colProd_length ndim post hpost
    have hlt := digitsV_lt idx (colProd ndim post) ww (by omega) (by omega) (hp ww List.mem_cons_self)
    have hh := horner_lt hlt
    simp only [Wb, PP, List.map_cons, List.prod_cons]
    rcases ih (ww :: post) (by intro r hr'; exact hr r (by simp only [List.mem_append, List.mem_cons] at hr' ⊢; tauto))
        (fun r hr' => hp r (List.mem_cons_of_mem _ hr')) with h | h
    · unfold PP at h
      calc Wb ndim idx bf (ww :: post) * ww.prod + horner ww _ < Wb ndim idx bf (ww :: post) * ww.prod + ww.prod := by omega
        _ = (Wb ndim idx bf (ww :: post) + 1) * ww.prod := by ring
        _ ≤ (List.map List.prod bf).prod * ww.prod := Nat.mul_le_mul_right _ h
        _ = ww.prod * (List.map List.prod bf).prod := Nat.mul_comm _ _
    · subst h
      simp [Wb]
      exact hh



theorem colAt_weightsNest (shape : List Nat) (bases : List (List Nat)) (hb : Rows shape.length bases) (ax : Nat)
    (hax : ax < shape.length) (hdvd : colAt ax bases ∣ shape.getD ax 1) :
    colAt ax (weightsNest shape bases) = shape.getD ax 1 := by
  unfold weightsNest
  rw [colAt_cons]
  have hcl := colProd_length shape.length bases hb
  rw [getD_zipWith_lt (· / ·) shape _ ax hax (by omega) 1 1 1, colProd_getD shape.length bases hb ax hax]
  exact Nat.div_mul_cancel hdvd


theorem unhorner_length (rs : List Nat) (j : Nat) : (unhorner rs j).length = rs.length := by
  induction rs generalizing j with
  | nil => simp [unhorner]
  | cons r rs ih => rw [unhorner_cons]; simp [ih]

theorem unhorner_lt (rs : List Nat) (j : Nat) (hpos : ∀ r ∈ rs, 0 < r) : List.Forall₂ (· < ·) (unhorner rs j) rs := by
  induction rs generalizing j with
  | nil => simp [unhorner]
  | cons r rs ih =>
    rw [unhorner_cons]
    exact List.Forall₂.cons (Nat.mod_lt _ (hpos r List.mem_cons_self)) (ih j (fun x hx => hpos x (List.mem_cons_of_mem _ hx)))

theorem horner_unhorner (rs : List Nat) (j : Nat) (hpos : ∀ r ∈ rs, 0 < r) (hj : j < rs.prod) : horner rs (unhorner rs j) = j := by
  induction rs generalizing j with
  | nil => simp [horner, unhorner] at hj ⊢; omega
  | cons r rs ih =>
    have hr := hpos r List.mem_cons_self
    have hpos' : ∀ x ∈ rs, 0 < x := fun x hx => hpos x (List.mem_cons_of_mem _ hx)
    have hp : 0 < rs.prod := by
      clear ih hj
      induction rs with
      | nil => simp
      | cons a as iha => rw [List.prod_cons]; exact Nat.mul_pos (hpos' a List.mem_cons_self) (iha (fun x hx => hpos x (by simp at hx ⊢; tauto)) (fun x hx => hpos' x (List.mem_cons_of_mem _ hx)))
    rw [unhorner_cons, horner_cons r _ rs _ (unhorner_length rs j).symm]
    rw [List.prod_cons] at hj
    have hq : j / rs.prod < r := by
      apply Nat.div_lt_of_lt_mul; rw [Nat.mul_comm]; exact hj
    rw [Nat.mod_eq_of_lt hq]
    -- unhorner rs j = unhorner rs (j % rs.prod)
    have hmod : unhorner rs j = unhorner rs (j % rs.prod) := by
      have e : j = (j / rs.prod) * rs.prod + j % rs.prod := by
        have := Nat.div_add_mod j rs.prod; rw [Nat.mul_comm] at this; omega
      conv_lhs => rw [e]
      -- reuse the periodicity shown inside unhorner_horner
      have hper : ∀ (l : List Nat) (x y : Nat), unhorner l (x * l.prod + y) = unhorner l y := by
        intro l
        induction l with
        | nil => intro x y; simp [unhorner]
        | cons a as iha =>
          intro x y
          rw [unhorner_cons, unhorner_cons, List.prod_cons]
          have e : x * (a * as.prod) + y = (x * a) * as.prod + y := by ring
          rw [e, iha (x * a) y]
          congr 1
          by_cases hz : as.prod = 0
          · simp [hz]
          · have hp : 0 < as.prod := Nat.pos_of_ne_zero hz
            rw [Nat.add_comm, Nat.add_mul_div_right _ _ hp, Nat.add_mod, Nat.mul_mod_left, Nat.add_zero, Nat.mod_mod]
      exact hper rs _ _
    rw [hmod, ih (j % rs.prod) hpos' (Nat.mod_lt _ hp)]
    have := Nat.div_add_mod j rs.prod
    rw [Nat.mul_comm] at this
    exact this



theorem colAt_pos (ax : Nat) (rows : List (List Nat)) (hp : PosRows rows) (hr : ∀ r ∈ rows, ax < r.length) : 0 < colAt ax rows := by
  unfold colAt
  apply list_prod_pos
  intro x hx
  rw [List.mem_map] at hx
  obtain ⟨r, hr', rfl⟩ := hx
  have hl := hr r hr'
  rw [List.getD_eq_getElem?_getD, List.getElem?_eq_getElem hl]
  exact hp r hr' _ (List.getElem_mem hl)

theorem PP_cons (ww : List Nat) (bf : List (List Nat)) : PP (ww :: bf) = ww.prod * PP bf := by simp [PP]

theorem unravel_spec (ndim : Nat) (bf post : List (List Nat)) (fid : Nat) (acc : List Nat)
    (hr : Rows ndim (bf ++ post)) (hpb : PosRows bf) (hpp : PosRows post) (hacc : acc.length = ndim)
    (hlow : ∀ ax, ax < ndim → acc.getD ax 0 < colAt ax post) :
    (unravelNestGo ndim bf post fid acc).length = ndim ∧
    (∀ ax, ax < ndim → (unravelNestGo ndim bf post fid acc).getD ax 0 % colAt ax post = acc.getD ax 0 ∧
        (unravelNestGo ndim bf post fid acc).getD ax 0 < colAt ax bf * colAt ax post) ∧
    Wb ndim (unravelNestGo ndim bf post fid acc) bf post = fid % PP bf := by
  induction bf generalizing post fid acc with
  | nil =>
    refine ⟨by simpa [unravelNestGo] using hacc, ?_, by simp [unravelNestGo, Wb, PP, Nat.mod_one]⟩
    intro ax hax
    simp only [unravelNestGo]
    have := hlow ax hax
    exact ⟨Nat.mod_eq_of_lt this, by simpa [colAt] using this⟩
  | cons ww bf ih =>
    have hww : ww.length = ndim := hr ww (by simp)
    have hpost : Rows ndim post := fun r hr' => hr r (by simp [hr'])
    have hcl := colProd_length ndim post hpost
    have hwpos : ∀ w ∈ ww, 0 < w := hpb ww List.mem_cons_self
    have hprodpos : 0 < ww.prod := list_prod_pos hwpos
    simp only [unravelNestGo]
    set ds := unhorner ww (fid % ww.prod) with hds
    have hdl : ds.length = ndim := by rw [hds, unhorner_length, hww]
    have hdlt := unhorner_lt ww (fid % ww.prod) hwpos
    set acc' := List.zipWith (· + ·) acc (List.zipWith (· * ·) (colProd ndim post) ds) with hacc'
    have hacc'l : acc'.length = ndim := by rw [hacc', List.length_zipWith, List.length_zipWith, hacc, hcl, hdl]; omega
    have hacc'v : ∀ ax, ax < ndim → acc'.getD ax 0 = acc.getD ax 0 + colAt ax post * ds.getD ax 0 := by
      intro ax hax
      rw [hacc', getD_zipWith_lt (· + ·) _ _ ax (by omega) (by rw [List.length_zipWith, hcl, hdl]; omega) 0 0 0,
        getD_zipWith_lt (· * ·) _ _ ax (by omega) (by rw [hdl]; exact hax) 0 1 0, colProd_getD ndim post hpost ax hax]
    have hdsv : ∀ ax, ax < ndim → ds.getD ax 0 < ww.getD ax 1 := by
      intro ax hax
      have := List.Forall₂.get hdlt (i := ax) (by rw [unhorner_length, hww]; exact hax) (by rw [hww]; exact hax)
      simpa [List.getD_eq_getElem?_getD, List.getElem?_eq_getElem, hdl, hww, hax] using this
    have hlow' : ∀ ax, ax < ndim → acc'.getD ax 0 < colAt ax (ww :: post) := by
      intro ax hax
      rw [hacc'v ax hax, colAt_cons]
      have h1 := hlow ax hax
      have h2 := hdsv ax hax
      calc acc.getD ax 0 + colAt ax post * ds.getD ax 0 < colAt ax post + colAt ax post * ds.getD ax 0 := by omega
        _ = colAt ax post * (ds.getD ax 0 + 1) := by ring
        _ ≤ colAt ax post * ww.getD ax 1 := Nat.mul_le_mul_left _ h2
        _ = ww.getD ax 1 * colAt ax post := Nat.mul_comm _ _
    have hr' : Rows ndim (bf ++ ww :: post) := by
      intro r hr''; exact hr r (by simp only [List.mem_append, List.mem_cons] at hr'' ⊢; tauto)
    have hpp' : PosRows (ww :: post) := by
      intro r hr''
      rcases List.mem_cons.mp hr'' with rfl | h
      · exact hwpos
      · exact hpp r h
    obtain ⟨l1, l2, l3⟩ := ih (ww :: post) (fid / ww.prod) acc' hr' (fun r h => hpb r (List.mem_cons_of_mem _ h)) hpp' hacc'l hlow'
    set idx := unravelNestGo ndim bf (ww :: post) (fid / ww.prod) acc' with hidx
    refine ⟨l1, ?_, ?_⟩
    · intro ax hax
      obtain ⟨m1, m2⟩ := l2 ax hax
      rw [colAt_cons] at m1 m2
      rw [hacc'v ax hax] at m1
      have hS := hlow ax hax
      constructor
      · have := Nat.mod_mul_right_mod (idx.getD ax 0) (colAt ax post) (ww.getD ax 1)
        rw [Nat.mul_comm] at this
        rw [← this, m1, Nat.add_mul_mod_self_left, Nat.mod_eq_of_lt hS]
      · rw [colAt_cons]
        calc idx.getD ax 0 < colAt ax bf * (ww.getD ax 1 * colAt ax post) := m2
          _ = ww.getD ax 1 * colAt ax bf * colAt ax post := by ring
    · -- the digits of the assembled index at this level are `ds`
      have hdig : digitsV idx (colProd ndim post) ww = ds := by
        apply list_ext_getD _ _ ndim (digitsV_length idx _ ww ndim l1 hcl hww) hdl
        intro ax hax
        rw [digitsV_getD idx _ ww ax (by omega) (by omega) (by omega), colProd_getD ndim post hpost ax hax]
        obtain ⟨m1, _⟩ := l2 ax hax
        rw [colAt_cons, hacc'v ax hax] at m1
        have hS := hlow ax hax
        have hSpos : 0 < colAt ax post := by omega
        have e := Nat.mod_mul_right_div_self (idx.getD ax 0) (colAt ax post) (ww.getD ax 1)
        rw [← e, Nat.mul_comm (colAt ax post), m1, Nat.add_comm, Nat.mul_comm, Nat.add_comm, Nat.add_mul_div_right _ _ hSpos,
          Nat.div_eq_of_lt hS, Nat.zero_add]
      simp only [Wb]
      rw [hdig, l3, hds, horner_unhorner ww _ hwpos (Nat.mod_lt _ hprodpos), PP_cons, Nat.mod_mul, Nat.mul_comm ww.prod]
      ring


theorem PP_reverse (rows : List (List Nat)) : PP rows.reverse = PP rows := by
  simp [PP, List.map_reverse, List.prod_reverse]

/-- **flat_roundtrip_nest_inv** on the weight rows: `index2flatindex(flatindex2index(f)) = f` for every `f < size`, and the
    index vector returned lies on the level -/
theorem nest_roundtrip_inv_rows (ndim : Nat) (rows : List (List Nat)) (f : Nat) (hr : Rows ndim rows) (hp : PosRows rows)
    (hf : f < PP rows) :
    ravelNestGo ndim (unravelNestGo ndim rows.reverse [] f (List.replicate ndim 0)) rows 0 = f ∧
    (unravelNestGo ndim rows.reverse [] f (List.replicate ndim 0)).length = ndim ∧
    ∀ ax, ax < ndim → (unravelNestGo ndim rows.reverse [] f (List.replicate ndim 0)).getD ax 0 < colAt ax rows := by
  have hr' : Rows ndim (rows.reverse ++ []) := by
    intro r hr''; exact hr r (by simpa using hr'')
  have hp' : PosRows rows.reverse := fun r hr'' => hp r (by simpa using hr'')
  obtain ⟨l1, l2, l3⟩ := unravel_spec ndim rows.reverse [] f (List.replicate ndim 0) hr' hp'
    (by intro r hr''; simp at hr'') (by simp)
    (by intro ax hax; simp [colAt, List.getD_eq_getElem?_getD, hax])
  refine ⟨?_, l1, ?_⟩
  · have e := ravelNestGo_rev ndim (unravelNestGo ndim rows.reverse [] f (List.replicate ndim 0)) rows.reverse [] 0
    simp only [List.reverse_reverse, List.append_nil, Nat.zero_mul, Nat.zero_add, ravelNestGo] at e
    rw [e, l3, PP_reverse, Nat.mod_eq_of_lt hf]
  · intro ax hax
    have := (l2 ax hax).2
    rw [colAt_reverse] at this
    simpa [colAt] using this


theorem colAt_append (ax : Nat) (a b : List (List Nat)) : colAt ax (a ++ b) = colAt ax a * colAt ax b := by
  simp [colAt, List.map_append, List.prod_append]

theorem Wb_div (ndim : Nat) (idx sl : List Nat) (hidx : idx.length = ndim) (hsl : sl.length = ndim)
    (bf post : List (List Nat)) (hr : Rows ndim (bf ++ post)) :
    Wb ndim idx bf (post ++ [sl]) = Wb ndim (List.zipWith (· / ·) idx sl) bf post := by
  induction bf generalizing post with
  | nil => simp [Wb]
  | cons ww bf ih =>
    have hww : ww.length = ndim := hr ww (by simp)
    have hpost : Rows ndim post := fun r hr' => hr r (by simp [hr'])
    have hpost' : Rows ndim (post ++ [sl]) := by
      intro r hr'
      rcases List.mem_append.mp hr' with h | h
      · exact hpost r h
      · simp at h; rw [h]; exact hsl
    simp only [Wb]
    have e := ih (ww :: post) (by intro r hr'; exact hr r (by simp only [List.mem_append, List.mem_cons] at hr' ⊢; tauto))
    rw [List.cons_append] at e
    rw [e]
    congr 2
    have hd : (List.zipWith (· / ·) idx sl).length = ndim := by simp [hidx, hsl]
    apply list_ext_getD _ _ ndim
      (digitsV_length idx _ ww ndim hidx (colProd_length ndim _ hpost') hww)
      (digitsV_length _ _ ww ndim hd (colProd_length ndim _ hpost) hww)
    intro ax hax
    rw [digitsV_getD idx _ ww ax (by omega) (by rw [colProd_length ndim _ hpost']; exact hax) (by omega),
      digitsV_getD _ _ ww ax (by omega) (by rw [colProd_length ndim _ hpost]; exact hax) (by omega),
      colProd_getD ndim _ hpost' ax hax, colProd_getD ndim _ hpost ax hax, colAt_append,
      getD_zipWith_lt (· / ·) idx sl ax (by omega) (by omega) 0 0 1]
    have : colAt ax [sl] = sl.getD ax 1 := by simp [colAt]
    rw [this, Nat.div_div_eq_div_mul, Nat.mul_comm]

/-- **children are contiguous in nest order**: the flat index of the parent is the child's flat index divided by the
    number of children `prod(parent_splits)`; equivalently the children of flat parent `p` are exactly the flat indices
    `p * prod(splits) .. (p+1) * prod(splits) - 1` (this is what `FlatGridAtLevel.resort` relies on for the nest ordering) -/
theorem nest_parent_is_div_rows (ndim : Nat) (R : List (List Nat)) (sl idx : List Nat) (hidx : idx.length = ndim)
    (hsl : sl.length = ndim) (hr : Rows ndim R) (hpos : ∀ w ∈ sl, 0 < w) :
    ravelNestGo ndim idx (R ++ [sl]) 0 / sl.prod = ravelNestGo ndim (List.zipWith (· / ·) idx sl) R 0 := by
  have e1 := ravelNestGo_rev ndim idx (R ++ [sl]).reverse [] 0
  simp only [List.reverse_reverse, List.append_nil, Nat.zero_mul, Nat.zero_add, ravelNestGo] at e1
  have e2 := ravelNestGo_rev ndim (List.zipWith (· / ·) idx sl) R.reverse [] 0
  simp only [List.reverse_reverse, List.append_nil, Nat.zero_mul, Nat.zero_add, ravelNestGo] at e2
  rw [e1, e2, List.reverse_append, List.reverse_singleton, List.singleton_append]
  simp only [Wb]
  have hcl : (colProd ndim []).length = ndim := by simp [colProd]
  have hlt := digitsV_lt idx (colProd ndim []) sl (by omega) (by omega) hpos
  have hh := horner_lt hlt
  have hp : 0 < sl.prod := by omega
  rw [Nat.add_comm, Nat.add_mul_div_right _ _ hp, Nat.div_eq_of_lt hh, Nat.zero_add]
  have := Wb_div ndim idx sl hidx hsl R.reverse [] (by intro r hr'; exact hr r (by simpa using hr'))
  simpa using this


end NiftyVerif.Grid
