/-
  C24, protocol as found (in place): every crash point of a run leaves last.pkl absent or holding a PREFIX of the pickle of
  one of the states of the uninterrupted run; resume is possible exactly when that prefix is the whole pickle.
-/
import NiftyVerif.Lemmas.CrashRe
namespace NiftyVerif.CrashRe
open NiftyVerif.CrashFS

variable {S : Type}

/-- last.pkl is absent or a prefix (possibly empty, possibly complete) of the pickle of a state of the run -/
def GoodIn (sys : Sys S) (s0 : S) (n : Nat) (fs : FS Path) : Prop :=
  fs .last = none ∨ ∃ i c, i ≤ n ∧ c <+: sys.enc (iter sys.step i s0) ∧ fs .last = some c

theorem iterOps_inplace_full (sys : Sys S) (s' : S) (fs : FS Path) :
    execs fs (iterOps sys .inplace s') .last = some (sys.enc s') := by
  simp only [iterOps, savePkl]
  rw [execs_append]; exact execs_writeFile _ _ _

/-- a crash anywhere inside one loop pass (in place): last.pkl is what it was, or a prefix of the new pickle -/
theorem iterOps_inplace_prefix (sys : Sys S) (s' : S) (fs : FS Path) {pre : List (Op Path)}
    (hp : pre <+: iterOps sys .inplace s') :
    execs fs pre .last = fs .last ∨ ∃ c, c <+: sys.enc s' ∧ execs fs pre .last = some c := by
  simp only [iterOps, savePkl] at hp
  rcases prefix_append_cases hp with h | ⟨t, rfl, ht⟩
  · left; exact prefix_untouched _ (appendFile_untouched _ _ _ (by decide)) h fs
  · rw [execs_append]
    rcases prefix_writeFile Path.last (sys.enc s') ht (execs fs (appendFile Path.sanity (sys.msg s'))) with rfl | ⟨c, hc, h⟩
    · left; rw [execs_nil]
      exact execs_untouched _ _ (appendFile_untouched _ _ _ (by decide)) fs
    · right; exact ⟨c, hc, h⟩

theorem loop_inplace_prefix_good (sys : Sys S) (s0 : S) (n : Nat) :
    ∀ (fuel i : Nat), i + fuel ≤ n → ∀ (fs : FS Path), GoodIn sys s0 n fs →
      ∀ pre, pre <+: (loop sys .inplace fuel (iter sys.step i s0)).1 → GoodIn sys s0 n (execs fs pre) := by
  intro fuel
  induction fuel with
  | zero =>
    intro i _ fs hg pre hp
    have : pre = [] := by simpa [loop] using hp
    subst this; exact hg
  | succ fuel ih =>
    intro i hi fs hg pre hp
    rw [loop_succ, ← iter_succ sys.step i s0] at hp
    rcases prefix_append_cases hp with h | ⟨t, rfl, ht⟩
    · rcases iterOps_inplace_prefix sys _ fs h with h1 | ⟨c, hc, h1⟩
      · unfold GoodIn at hg ⊢; rw [h1]; exact hg
      · right; exact ⟨i + 1, c, by omega, hc, h1⟩
    · rw [execs_append]
      refine ih (i + 1) (by omega) _ ?_ t ht
      right; exact ⟨i + 1, _, by omega, List.prefix_refl _, iterOps_inplace_full sys _ fs⟩

/-- a run from the empty directory, killed anywhere (in-place protocol) -/
theorem inplace_crash_goodIn {sys : Sys S} (hl : Lawful sys) (s0 : S) (h0 : sys.nit s0 = 0) (n k : Nat) (r0 : Bool)
    (ops : List (Op Path)) (sf : S) (hrun : run sys .inplace r0 s0 n FS.empty = .ok (ops, sf)) :
    GoodIn sys s0 n (crash FS.empty ops k) := by
  have hg0 : Good sys s0 n (FS.empty : FS Path) := Or.inl rfl
  obtain ⟨i, hi, hsrc, h⟩ := run_of_good hl h0 hg0 .inplace r0
  rw [h] at hrun; injection hrun with hrun; injection hrun with hops _
  subst hops
  have hi0 : i = 0 := by
    rcases hsrc with h | h
    · exact h
    · simp [FS.empty] at h
  subst hi0
  unfold crash
  rcases prefix_append_cases (List.take_prefix k _) with h | ⟨t, ht, htp⟩
  · left
    rw [prefix_untouched Path.last (preOps_untouched r0) h]; rfl
  · rw [ht, execs_append]
    refine loop_inplace_prefix_good sys s0 n (n - 0) 0 (by omega) _ ?_ t htp
    left
    rw [execs_untouched (preOps r0) Path.last (preOps_untouched r0)]; rfl

/-- resume is possible from exactly those directories in which last.pkl is absent or complete -/
theorem inplace_resume_iff {sys : Sys S} (hl : Lawful sys) (hpf : PrefixFree sys) (s0 : S) (n : Nat) (fs : FS Path)
    (hg : GoodIn sys s0 n fs) :
    (∃ r, run sys .inplace true s0 n fs = .ok r) ↔
      (fs .last = none ∨ ∃ i, i ≤ n ∧ fs .last = some (sys.enc (iter sys.step i s0))) := by
  constructor
  · rintro ⟨r, hr⟩
    rcases hg with h | ⟨i, c, hi, hc, h⟩
    · exact Or.inl h
    · right
      refine ⟨i, hi, ?_⟩
      by_cases hce : c = sys.enc (iter sys.step i s0)
      · rw [h, hce]
      · have hd := hpf _ c hc hce
        simp [run, load, h, hd] at hr
  · rintro (h | ⟨i, _, h⟩)
    · exact ⟨_, by simp [run, load, h]; rfl⟩
    · exact ⟨_, by simp [run, load, h, hl.dec_enc]; rfl⟩

end NiftyVerif.CrashRe
