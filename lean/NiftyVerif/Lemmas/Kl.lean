/- Helper lemmas on the insert/remove list logic (C19, C18). -/
import NiftyVerif.Model.Kl
import Mathlib.Tactic.Ring
import Mathlib.Tactic.Linarith

namespace NiftyVerif.Kl

theorem countTrue_false_add (mask : List Bool) :
    countTrue mask + (mask.filter (fun b => !b)).length = mask.length := by
  induction mask with
  | nil => rfl
  | cons b bs ih => cases b <;> simp [countTrue, List.filter] <;> omega

/-- with matching lengths the insertion succeeds -/
theorem insert_isSome {α : Type} (mask : List Bool) (x fill : List α)
    (hx : x.length + countTrue mask = mask.length) (hf : fill.length = countTrue mask) :
    ∃ y, insert mask x fill = some y ∧ y.length = mask.length := by
  induction mask generalizing x fill with
  | nil => exact ⟨[], rfl, rfl⟩
  | cons b bs ih =>
    cases b with
    | true =>
      cases fill with
      | nil => simp [countTrue] at hf; omega
      | cons f fs =>
        simp only [countTrue, if_true, List.length_cons] at hx hf
        obtain ⟨y, hy, hl⟩ := ih x fs (by omega) (by omega)
        exact ⟨f :: y, by simp [insert, hy], by simp [hl]⟩
    | false =>
      cases x with
      | nil =>
        have := countTrue_false_add bs
        simp [countTrue] at hx; omega
      | cons a xs =>
        simp only [countTrue, List.length_cons] at hx hf
        obtain ⟨y, hy, hl⟩ := ih xs fill (by simp at hx ⊢; omega) (by simpa using hf)
        exact ⟨a :: y, by simp [insert, hy], by simp [hl]⟩

theorem remove_insert {α : Type} (mask : List Bool) (x fill y : List α) (h : insert mask x fill = some y)
    (hx : x.length + countTrue mask = mask.length) : remove mask y = x := by
  induction mask generalizing x fill y with
  | nil =>
    simp only [insert, Option.some.injEq] at h
    subst h
    simp [countTrue] at hx
    simp [remove, hx]
  | cons b bs ih =>
    cases b with
    | true =>
      cases fill with
      | nil => simp [insert] at h
      | cons f fs =>
        simp only [insert, Option.map_eq_some_iff] at h
        obtain ⟨y', hy', rfl⟩ := h
        simp only [countTrue, if_true, List.length_cons] at hx
        simp only [remove, if_true]
        exact ih x fs y' hy' (by omega)
    | false =>
      cases x with
      | nil => simp [insert] at h
      | cons a xs =>
        simp only [insert, Option.map_eq_some_iff] at h
        obtain ⟨y', hy', rfl⟩ := h
        simp only [countTrue, List.length_cons] at hx
        simp only [remove, Bool.false_eq_true, if_false, List.cons.injEq, true_and]
        exact ih xs fill y' hy' (by simp at hx ⊢; omega)

theorem select_insert {α : Type} (mask : List Bool) (x fill y : List α) (h : insert mask x fill = some y)
    (hf : fill.length = countTrue mask) : select mask y = fill := by
  induction mask generalizing x fill y with
  | nil =>
    simp only [insert, Option.some.injEq] at h
    subst h
    simp [countTrue] at hf
    simp [select, hf]
  | cons b bs ih =>
    cases b with
    | true =>
      cases fill with
      | nil => simp [insert] at h
      | cons f fs =>
        simp only [insert, Option.map_eq_some_iff] at h
        obtain ⟨y', hy', rfl⟩ := h
        simp only [countTrue, if_true, List.length_cons] at hf
        simp only [select, if_true, List.cons.injEq, true_and]
        exact ih x fs y' hy' (by omega)
    | false =>
      cases x with
      | nil => simp [insert] at h
      | cons a xs =>
        simp only [insert, Option.map_eq_some_iff] at h
        obtain ⟨y', hy', rfl⟩ := h
        simp only [countTrue] at hf
        simp only [select, Bool.false_eq_true, if_false]
        exact ih xs fill y' hy' (by simpa using hf)

end NiftyVerif.Kl
