/-
  Invariants of the Newton-CG minimisers and the trust-region minimiser of nifty/re/optimize.py (model: Model/NewtonRe.lean):
  the energy/gradient bookkeeping is that of the current position and the energy never exceeds the start —
  for every objective, every Hessian-vector product, every CG / sub-problem oracle, every limit.
-/
import NiftyVerif.Model.NewtonRe
import Mathlib.Algebra.Module.Basic
import Mathlib.Algebra.Order.Field.Basic
import Mathlib.Tactic.Ring
import Mathlib.Tactic.Linarith
import Mathlib.Tactic.SplitIfs
import Mathlib.Tactic.Positivity

namespace NiftyVerif.NewtonRe
set_option linter.unusedSectionVars false
set_option linter.unusedSimpArgs false

variable {K V : Type} [Field K] [LinearOrder K] [IsStrictOrderedRing K] [AddCommGroup V] [Module K V]
variable (c : Cfg K) (f : V → K × V) (hessp : V → V → V) (ip : V → V → K) (gradnorm : V → K)
  (cgnorm : V → K) (cg : CgArgs K → V → V → V × Int)

/-- what the eager line search returns -/
theorem lsEager_spec (pos : V) (energy : K) (g : V) : ∀ (fuel ls : Nat) (gs : K) (dd : V) (reset : Bool),
    let R := lsEager f hessp ip pos energy g fuel ls gs dd reset
    (R.found = true → R.newEnergy = (f R.newPos).1 ∧ R.newG = (f R.newPos).2 ∧ R.newEnergy ≤ energy
        ∧ R.newPos = pos - R.gs • R.dd)
    ∧ (R.found = false → R.newPos = pos ∧ R.newEnergy = energy ∧ R.newG = g) := by
  intro fuel
  induction fuel with
  | zero => intro ls gs dd reset; simp [lsEager]
  | succ fuel ih =>
    intro ls gs dd reset
    simp only [lsEager]
    split_ifs with h1 h2
    · simp [h1]
    · exact ih _ _ _ _
    · exact ih _ _ _ _

theorem ite3_cases {α : Type} (A B : Prop) [Decidable A] [Decidable B] (x y z : α) (P : α → Prop)
    (hx : P x) (hy : P y) (hz : P z) : P (if A then x else if B then y else z) := by
  split_ifs <;> assumption

/-- invariant of the outer loop: the stored energy and gradient are those of the position; energy ≤ reference -/
def Inv (E0 : K) (s : NSt K V) : Prop := s.energy = (f s.pos).1 ∧ s.g = (f s.pos).2 ∧ s.energy ≤ E0

theorem ncgEagerStep_inv (E0 : K) (i : Nat) (s : NSt K V) (h : Inv f E0 s) :
    match ncgEagerStep c f hessp ip gradnorm cgnorm cg i s with
    | .next s' => Inv f E0 s' ∧ s'.energy ≤ s.energy ∧ s'.oldF = some s.energy
    | .stop (.ok r) => r.fn = (f r.x).1 ∧ r.jac = (f r.x).2 ∧ r.fn ≤ E0 ∧ r.fn ≤ s.energy ∧ r.nit = i
        ∧ (r.status = 0 ∨ (r.status = -1 ∧ r.x = s.pos))
    | .stop (.error _) => True := by
  obtain ⟨h1, h2, h3⟩ := h
  have hls := lsEager_spec f hessp ip s.pos s.energy s.g 9 0 1 (cg (eagerCgArgs c cgnorm s) s.pos s.g).1 false
  unfold ncgEagerStep
  simp only [lineSearchEager] at hls ⊢
  by_cases hc : (cg (eagerCgArgs c cgnorm s) s.pos s.g).2 < 0
  · simp only [hc, if_true]
  · simp only [hc, if_false]
    by_cases hf : (lsEager f hessp ip s.pos s.energy s.g 9 0 1 (cg (eagerCgArgs c cgnorm s) s.pos s.g).1 false).found = false
    · simp only [hf, if_true]
      refine ⟨h1, h2, h3, le_refl _, ?_⟩
      simp
    · have hf' : (lsEager f hessp ip s.pos s.energy s.g 9 0 1 (cg (eagerCgArgs c cgnorm s) s.pos s.g).1 false).found = true := by
        simpa using hf
      obtain ⟨a, b, c', _⟩ := hls.1 hf'
      simp only [hf', Bool.true_eq_false, if_false]
      refine ite3_cases _ _ _ _ _ (fun (o : StepOut K V) => match o with
        | .next s' => Inv f E0 s' ∧ s'.energy ≤ s.energy ∧ s'.oldF = some s.energy
        | .stop (.ok r) => r.fn = (f r.x).1 ∧ r.jac = (f r.x).2 ∧ r.fn ≤ E0 ∧ r.fn ≤ s.energy ∧ r.nit = i
            ∧ (r.status = 0 ∨ (r.status = -1 ∧ r.x = s.pos))
        | .stop (.error _) => True) ?_ ?_ ?_
      · refine ⟨a, b, le_trans c' h3, c', ?_⟩; simp
      · refine ⟨a, b, le_trans c' h3, c', ?_⟩; simp
      · exact ⟨⟨a, b, le_trans c' h3⟩, c', rfl⟩

theorem ncgEagerLoop_inv (E0 : K) : ∀ (fuel i : Nat) (s : NSt K V), Inv f E0 s → ∀ r,
    ncgEagerLoop c f hessp ip gradnorm cgnorm cg fuel i s = .ok r →
    r.fn = (f r.x).1 ∧ r.jac = (f r.x).2 ∧ r.fn ≤ E0 := by
  intro fuel
  induction fuel with
  | zero =>
    intro i s h r hr
    simp only [ncgEagerLoop, Except.ok.injEq] at hr
    subst hr
    exact h
  | succ fuel ih =>
    intro i s h r hr
    have hstep := ncgEagerStep_inv c f hessp ip gradnorm cgnorm cg E0 i s h
    rw [ncgEagerLoop] at hr
    cases hE : ncgEagerStep c f hessp ip gradnorm cgnorm cg i s with
    | stop r' =>
      rw [hE] at hstep hr
      simp only at hr
      subst hr
      simp only at hstep
      exact ⟨hstep.1, hstep.2.1, hstep.2.2.1⟩
    | next s' =>
      rw [hE] at hstep hr
      simp only at hr hstep
      exact ih (i + 1) s' hstep.1 r hr

/-! ### trust region -/

variable (tc : TCfg K) (gnorm : V → K) (sub : K → V → V → K → SubRes K V)

def TInv (E0 : K) (p : TSt K V) : Prop := p.fn = (f p.x).1 ∧ p.jac = (f p.x).2 ∧ p.fn ≤ E0

theorem trustStep_inv (heta : 0 ≤ tc.eta) (E0 : K)
    (p : TSt K V) (h : TInv f E0 p) : TInv f E0 (trustStep tc f gnorm sub p) ∧ (trustStep tc f gnorm sub p).fn ≤ p.fn := by
  obtain ⟨h1, h2, h3⟩ := h
  unfold trustStep
  simp only []
  by_cases hacc : (rhoGt (p.fn - (f (p.x + (sub p.fn p.jac p.x p.tr).step)).1) (p.fn - (sub p.fn p.jac p.x p.tr).predF)
      tc.eta && decide (0 < p.fn - (sub p.fn p.jac p.x p.tr).predF)) = true
  · simp only [hacc, if_true]
    have hlt : (f (p.x + (sub p.fn p.jac p.x p.tr).step)).1 ≤ p.fn := by
      rw [Bool.and_eq_true] at hacc
      obtain ⟨hr, hp⟩ := hacc
      have hpos : 0 < p.fn - (sub p.fn p.jac p.x p.tr).predF := of_decide_eq_true hp
      unfold rhoGt at hr
      rw [if_neg (ne_of_gt hpos)] at hr
      have hq := of_decide_eq_true hr
      have h0 : 0 < (p.fn - (f (p.x + (sub p.fn p.jac p.x p.tr).step)).1) /
          (p.fn - (sub p.fn p.jac p.x p.tr).predF) := lt_of_le_of_lt heta hq
      have := (div_pos_iff_of_pos_right hpos).mp h0
      linarith
    exact ⟨⟨rfl, rfl, le_trans hlt h3⟩, hlt⟩
  · have hacc' : (rhoGt (p.fn - (f (p.x + (sub p.fn p.jac p.x p.tr).step)).1)
        (p.fn - (sub p.fn p.jac p.x p.tr).predF) tc.eta && decide (0 < p.fn - (sub p.fn p.jac p.x p.tr).predF)) = false := by
      simpa using hacc
    simp only [hacc', Bool.false_eq_true, if_false]
    exact ⟨⟨h1, h2, h3⟩, le_refl _⟩

theorem trustLoop_inv (heta : 0 ≤ tc.eta) (E0 : K) :
    ∀ (fuel : Nat) (p : TSt K V), TInv f E0 p → TInv f E0 (trustLoop tc f gnorm sub fuel p) := by
  intro fuel
  induction fuel with
  | zero => intro p h; exact h
  | succ fuel ih =>
    intro p h
    simp only [trustLoop]
    split_ifs
    · exact ih _ (trustStep_inv f tc gnorm sub heta E0 p h).1
    · exact h

end NiftyVerif.NewtonRe
