/-
  Decimal literals of the generated models (`(0.5 : K)` is `OfScientific.ofScientific 5 true 1`) as ordinary
  real numerals, so that `ring`/`field_simp`/`linarith` see them.  Use `simp only [sci]`.
-/
import Mathlib.Data.Real.Basic
import Mathlib.Tactic.NormNum.OfScientific
import Mathlib.Tactic.NormNum

namespace NiftyVerif

theorem sci_0 : (0.0 : ℝ) = 0 := by norm_num
theorem sci_1 : (1.0 : ℝ) = 1 := by norm_num
theorem sci_2 : (2.0 : ℝ) = 2 := by norm_num
theorem sci_3 : (3.0 : ℝ) = 3 := by norm_num
theorem sci_4 : (4.0 : ℝ) = 4 := by norm_num
theorem sci_10 : (10.0 : ℝ) = 10 := by norm_num
theorem sci_33 : (33.0 : ℝ) = 33 := by norm_num
theorem sci_half : (0.5 : ℝ) = 1 / 2 := by norm_num
theorem sci_quarter : (0.25 : ℝ) = 1 / 4 := by norm_num

/-- rewrite every known decimal literal in goal and hypotheses -/
macro "sci_norm" : tactic =>
  `(tactic| try simp only [sci_0, sci_1, sci_2, sci_3, sci_4, sci_10, sci_33, sci_half, sci_quarter] at *)

end NiftyVerif
