/-
  Lemmas/HarmonicModes.lean — the code's mode/factor logic (fftApply, hartley3, hartleyCartesian) reduced to F3/Fb3.
-/
import NiftyVerif.Lemmas.HarmonicFFT
import Mathlib.Tactic.LinearCombination

namespace NiftyVerif.Harmonic
open Finset

variable {K : Type} [CommRing K]

/-- which branch `FFTOperator.apply` takes -/
theorem inputHarmonic_table :
    inputHarmonic false 1 = false ∧ inputHarmonic false 2 = true ∧ inputHarmonic false 4 = true
    ∧ inputHarmonic false 8 = false ∧ inputHarmonic true 1 = true ∧ inputHarmonic true 2 = false
    ∧ inputHarmonic true 4 = false ∧ inputHarmonic true 8 = true := by decide

/-- position-space input: forward FFT, factor 1·dvol -/
def posBranch (g : Grid K) (d : K) (x : Tensor K) : Tensor K := fun i => F3 g x i * (1 * d)
/-- harmonic input: ifftn, factor ncells·dvol -/
def harmBranch (g : Grid K) (d : K) (x : Tensor K) : Tensor K :=
  fun i => g.nInv * Fb3 g x i * ((g.ncells : K) * d)

theorem fftApply_cases (g : Grid K) (dD dT : K) (x : Tensor K) :
    fftApply g false dD dT 1 x = posBranch g dD x ∧ fftApply g false dD dT 2 x = harmBranch g dD x
    ∧ fftApply g false dD dT 4 x = harmBranch g dT x ∧ fftApply g false dD dT 8 x = posBranch g dT x
    ∧ fftApply g true dD dT 1 x = harmBranch g dD x ∧ fftApply g true dD dT 2 x = posBranch g dD x
    ∧ fftApply g true dD dT 4 x = posBranch g dT x ∧ fftApply g true dD dT 8 x = harmBranch g dT x := by
  obtain ⟨t1, t2, t3, t4, t5, t6, t7, t8⟩ := inputHarmonic_table
  have m1 : ((1 : Nat) &&& 3 != 0) = true := by decide
  have m2 : ((2 : Nat) &&& 3 != 0) = true := by decide
  have m4 : ((4 : Nat) &&& 3 != 0) = false := by decide
  have m8 : ((8 : Nat) &&& 3 != 0) = false := by decide
  unfold posBranch harmBranch
  refine ⟨?_, ?_, ?_, ?_, ?_, ?_, ?_, ?_⟩ <;>
    simp only [fftApply, t1, t2, t3, t4, t5, t6, t7, t8, m1, m2, m4, m8, if_true, if_false,
      Bool.false_eq_true, fftn3_eq, ifftn3_eq, natK_eq_cast]

section domain
variable [IsDomain K]

theorem harm_pos (g : Grid K) (hg : GridOK g) (a b : K) (hab : a * b * (g.ncells : K) = 1) (x : Tensor K)
    (i : Idx) (hi : InBox g i) : harmBranch g b (posBranch g a x) i = x i := by
  unfold harmBranch posBranch
  have e : (fun i => F3 g x i * (1 * a)) = fun i => a * F3 g x i := by funext i; ring
  rw [e, Fb3_smul]
  simp only []
  rw [Fb3_F3 g hg x i hi]
  linear_combination ((g.ncells : K) * a * b * x i) * hg.inv + (x i) * hab

theorem pos_harm (g : Grid K) (hg : GridOK g) (a b : K) (hab : a * b * (g.ncells : K) = 1) (x : Tensor K)
    (i : Idx) (hi : InBox g i) : posBranch g b (harmBranch g a x) i = x i := by
  unfold harmBranch posBranch
  have e : (fun i => g.nInv * Fb3 g x i * ((g.ncells : K) * a))
      = fun i => (g.nInv * ((g.ncells : K) * a)) * Fb3 g x i := by funext i; ring
  rw [e, F3_smul]
  simp only []
  rw [F3_Fb3 g hg x i hi]
  linear_combination ((g.ncells : K) * a * b * x i) * hg.inv + (x i) * hab

end domain

theorem pos_adjoint (P Q : Nat) (g : Grid K) (hg : GridOK g) (σ : K →+* K) (hσ : ConjOK σ g) (a : K)
    (ha : σ a = a) (x y : Tensor K) :
    ∑ i ∈ boxF P g.n1 g.n2 g.n3 Q, σ (y i) * posBranch g a x i
      = ∑ i ∈ boxF P g.n1 g.n2 g.n3 Q, σ (harmBranch g a y i) * x i := by
  unfold posBranch harmBranch
  have l : ∀ i, σ (y i) * (F3 g x i * (1 * a)) = a * (σ (y i) * F3 g x i) := by intro i; ring
  have r : ∀ i, σ (g.nInv * Fb3 g y i * ((g.ncells : K) * a)) * x i = a * (σ (Fb3 g y i) * x i) := by
    intro i
    simp only [map_mul, map_natCast, hσ.nInv, ha]
    linear_combination (σ (Fb3 g y i) * a * x i) * hg.inv
  simp only [l, r, ← Finset.mul_sum]
  rw [F3_adjoint P Q σ g hσ]

theorem harm_adjoint (P Q : Nat) (g : Grid K) (hg : GridOK g) (σ : K →+* K) (hσ : ConjOK σ g) (a : K)
    (ha : σ a = a) (x y : Tensor K) :
    ∑ i ∈ boxF P g.n1 g.n2 g.n3 Q, σ (y i) * harmBranch g a x i
      = ∑ i ∈ boxF P g.n1 g.n2 g.n3 Q, σ (posBranch g a y i) * x i := by
  unfold posBranch harmBranch
  have l : ∀ i, σ (y i) * (g.nInv * Fb3 g x i * ((g.ncells : K) * a)) = a * (σ (y i) * Fb3 g x i) := by
    intro i
    linear_combination (σ (y i) * a * Fb3 g x i) * hg.inv
  have r : ∀ i, σ (F3 g y i * (1 * a)) * x i = a * (σ (F3 g y i) * x i) := by
    intro i
    simp only [map_mul, map_one, ha]
    ring
  simp only [l, r, ← Finset.mul_sum]
  rw [Fb3_adjoint P Q σ g hσ]

/-! ### Hartley -/

/-- coefficients of F and F̄ in H = a F + b F̄ -/
def hA (s : Scal K) (c : Bool) : K := s.half * (1 - (if c then 1 else -1) * s.I)
def hB (s : Scal K) (c : Bool) : K := s.half * (1 + (if c then 1 else -1) * s.I)

theorem hAB_sq (s : Scal K) (σ : K →+* K) (hs : ScalOK s σ) (c : Bool) :
    hA s c * hA s c + hB s c * hB s c = 0 := by
  cases c <;> simp only [hA, hB, if_true, if_false, Bool.false_eq_true] <;>
    linear_combination (2 * s.half ^ 2) * hs.II

theorem hAB_two (s : Scal K) (σ : K →+* K) (hs : ScalOK s σ) (c : Bool) : 2 * (hA s c * hB s c) = 1 := by
  cases c <;> simp only [hA, hB, if_true, if_false, Bool.false_eq_true] <;>
    linear_combination (-2 * s.half ^ 2) * hs.II + (2 * s.half + 1) * hs.half

theorem conj_half (s : Scal K) (σ : K →+* K) (hs : ScalOK s σ) : σ s.half = s.half := by
  have h1 : σ (2 * s.half) = 1 := by rw [hs.half, map_one]
  rw [map_mul, map_ofNat] at h1
  linear_combination (s.half) * h1 - (σ s.half) * hs.half

theorem conj_hA (s : Scal K) (σ : K →+* K) (hs : ScalOK s σ) (c : Bool) : σ (hA s c) = hB s c := by
  cases c <;> simp only [hA, hB, if_true, if_false, Bool.false_eq_true, map_mul, map_sub, map_add, map_one,
    map_neg, conj_half s σ hs, hs.conjI] <;> ring

theorem conj_hB (s : Scal K) (σ : K →+* K) (hs : ScalOK s σ) (c : Bool) : σ (hB s c) = hA s c := by
  cases c <;> simp only [hA, hB, if_true, if_false, Bool.false_eq_true, map_mul, map_sub, map_add, map_one,
    map_neg, conj_half s σ hs, hs.conjI] <;> ring

/-- the code's Re F ± Im F on real input is a·F + b·F̄ -/
theorem hartley3_eq (s : Scal K) (σ : K →+* K) (hs : ScalOK s σ) (g : Grid K) (hσ : ConjOK σ g) (c : Bool)
    (x : Tensor K) (hx : IsReal σ x) :
    hartley3 s g c x = fun i => hA s c * F3 g x i + hB s c * Fb3 g x i := by
  funext i
  have hx' : (fun i => σ (x i)) = x := funext hx
  unfold hartley3 Scal.re Scal.im
  simp only [fftn3_eq, hs.conj, conj_F3 σ g hσ, hx']
  cases c <;> simp only [hA, hB, if_true, if_false, Bool.false_eq_true] <;> ring

theorem hartley3_real (s : Scal K) (σ : K →+* K) (hs : ScalOK s σ) (g : Grid K) (hσ : ConjOK σ g) (c : Bool)
    (x : Tensor K) (hx : IsReal σ x) : IsReal σ (hartley3 s g c x) := by
  intro i
  have hx' : (fun i => σ (x i)) = x := funext hx
  rw [hartley3_eq s σ hs g hσ c x hx]
  simp only [map_add, map_mul, conj_hA s σ hs, conj_hB s σ hs, conj_F3 σ g hσ, conj_Fb3 σ g hσ, hx']
  ring

theorem hartley3_twice [IsDomain K] (s : Scal K) (σ : K →+* K) (hs : ScalOK s σ) (g : Grid K) (hg : GridOK g)
    (hσ : ConjOK σ g) (c : Bool) (x : Tensor K) (hx : IsReal σ x) (i : Idx) (hi : InBox g i) :
    hartley3 s g c (hartley3 s g c x) i = (g.ncells : K) * x i := by
  rw [hartley3_eq s σ hs g hσ c _ (hartley3_real s σ hs g hσ c x hx)]
  rw [hartley3_eq s σ hs g hσ c x hx]
  simp only [F3_add, Fb3_add, F3_smul, Fb3_smul]
  rw [F3_F3 g hg x i hi, Fb3_Fb3 g hg x i hi, F3_Fb3 g hg x i hi, Fb3_F3 g hg x i hi]
  linear_combination ((g.ncells : K) * x (negIdx g i)) * hAB_sq s σ hs c
    + ((g.ncells : K) * x i) * hAB_two s σ hs c

theorem hartley3_transpose (P Q : Nat) (s : Scal K) (σ : K →+* K) (hs : ScalOK s σ) (g : Grid K)
    (hσ : ConjOK σ g) (c : Bool) (x y : Tensor K) (hx : IsReal σ x) (hy : IsReal σ y) :
    ∑ i ∈ boxF P g.n1 g.n2 g.n3 Q, y i * hartley3 s g c x i
      = ∑ i ∈ boxF P g.n1 g.n2 g.n3 Q, hartley3 s g c y i * x i := by
  rw [hartley3_eq s σ hs g hσ c x hx, hartley3_eq s σ hs g hσ c y hy]
  simp only [mul_add, add_mul, Finset.sum_add_distrib]
  have e1 : ∀ i, y i * (hA s c * F3 g x i) = hA s c * (y i * F3 g x i) := by intro i; ring
  have e2 : ∀ i, y i * (hB s c * Fb3 g x i) = hB s c * (y i * Fb3 g x i) := by intro i; ring
  have e3 : ∀ i, hA s c * F3 g y i * x i = hA s c * (F3 g y i * x i) := by intro i; ring
  have e4 : ∀ i, hB s c * Fb3 g y i * x i = hB s c * (Fb3 g y i * x i) := by intro i; ring
  simp only [e1, e2, e3, e4, ← Finset.mul_sum]
  rw [F3_transpose, Fb3_transpose]

end NiftyVerif.Harmonic
