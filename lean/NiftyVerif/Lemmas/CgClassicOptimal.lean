/-
  Optimality of the CG iterates: after `k` passes the position minimises the quadratic energy over
  `x₀ + W`, where `W` is the `k`-dimensional span of the search directions used so far.
  (`x − x₀ ∈ W` by construction, the gradient at `x` is orthogonal to `W` by the invariants of CgClassicExact.lean,
  and the energy is a convex quadratic.)
-/
import NiftyVerif.Lemmas.CgClassicExact
import Mathlib.LinearAlgebra.FiniteDimensional.Basic
import Mathlib.Tactic.Abel

set_option linter.unusedSectionVars false
set_option linter.unnecessarySeqFocus false

namespace NiftyVerif.CgClassic
open NiftyVerif.Ctrl Submodule

variable {K V τ : Type} [Field K] [LinearOrder K] [IsStrictOrderedRing K] [AddCommGroup V] [Module K V]

/-- a point whose gradient is orthogonal to `W` minimises the energy over `x + W` -/
theorem min_on_subspace {S : Sys V K} (hS : S.SPD) (W : Submodule K V) (x : V)
    (hperp : ∀ v ∈ W, S.ip (trueGrad S x) v = 0) : ∀ v ∈ W, trueValue S x ≤ trueValue S (x + v) := by
  intro v hv
  have e : x + v = x - (-1 : K) • v := by simp
  rw [e, trueValue_step hS, hperp v hv]
  have hq : 0 ≤ S.ip v (S.A v) := by
    by_cases h0 : v = 0
    · rw [h0, ip_zero_left hS.bil]
    · exact le_of_lt (hS.A_pos v h0)
  nlinarith

/-- what is claimed of the result: an explicit subspace of the right dimension -/
def OptimalOn (S : Sys V K) (x0 : V) (out : Out V K τ) : Prop :=
  ∃ W : Submodule K V, Module.finrank K W = out.iters.length ∧ out.energy.pos - x0 ∈ W ∧
    ∀ v ∈ W, trueValue S out.energy.pos ≤ trueValue S (out.energy.pos + v)

/-- exact dimension count -/
theorem exact_dim_eq {S : Sys V K} (hS : S.SPDP) [FiniteDimensional K V] {W : Submodule K V} {r d : V} {pg : K}
    (hI : ExactInv S W r d) (hpg : pg = S.ip r d) (hpos : 0 < pg) :
    Module.finrank K ↥(W ⊔ K ∙ d) = Module.finrank K W + 1 := by
  have h1 := (exact_dim hS hI hpg hpos).1
  have h2 := Submodule.finrank_add_le_finrank_add_finrank W (K ∙ d)
  have hd : d ≠ 0 := by
    intro h0
    rw [h0, ip_zero_right hS.bil] at hpg
    exact absurd hpg (ne_of_gt hpos)
  rw [finrank_span_singleton hd] at h2
  omega

/-- all exits after the position update -/
theorem exit_optimal {S : Sys V K} (hS : S.SPDP) [FiniteDimensional K V] {nreset : Int} {E E' : QE V K}
    {r r' d x0 : V} {pg : K} {ii1 ii' : Int} {W : Submodule K V} {its : List (Iter K)}
    (hE : E.Consistent S) (hr : r = E.grad) (hpg : pg = S.ip r d) (hpos : 0 < pg) (hI : ExactInv S W r d)
    (hk : Module.finrank K W = its.length) (hx : E.pos - x0 ∈ W)
    (hadv : advance S nreset E r d (S.A d) (pg / S.ip d (S.A d)) ii1 = (E', r', ii'))
    (out : Out V K τ) (hout : out.energy = E' ∧ ∃ it, out.iters = its ++ [it]) : OptimalOn S x0 out := by
  obtain ⟨hE', hr', hpos', hgrad'⟩ := advance_eq_spec S hS.lin hE hr hadv
  have hstep := exact_step hS hI hpg hpos (r' := r') (by rw [hr', hgrad'])
  obtain ⟨he, it, hit⟩ := hout
  refine ⟨W ⊔ K ∙ d, ?_, ?_, ?_⟩
  · rw [exact_dim_eq hS hI hpg hpos, hk, hit]; simp
  · rw [he, hpos']
    have : E.pos - (pg / S.ip d (S.A d)) • d - x0 = (E.pos - x0) - (pg / S.ip d (S.A d)) • d := by abel
    rw [this]
    exact Submodule.sub_mem _ (Submodule.mem_sup_left hx) (Submodule.smul_mem _ _ (self_mem_sup_span W d))
  · rw [he]
    exact min_on_subspace hS.toSPD _ _ (by rw [← hE'.1, ← hr']; exact hstep.r_perp)

theorem loop_optimal (S : Sys V K) (hS : S.SPDP) [FiniteDimensional K V] (c : Ctrl K τ) (nreset : Int) (fuel : Nat)
    (E : QE V K) (r d : V) (pg : K) (ii : Int) (s : St τ) (ch md : List (QE V K)) (its : List (Iter K)) (x0 : V) :
    ∀ (W : Submodule K V), E.Consistent S → r = E.grad → pg = S.ip r d → 0 < pg → ExactInv S W r d →
      Module.finrank K W = its.length → E.pos - x0 ∈ W →
      OptimalOn S x0 (loop S c nreset fuel E r d pg ii s ch md its) := by
  fun_induction loop S c nreset fuel E r d pg ii s ch md its
  case case1 =>
    intro W hE hr hpg hpos hI hk hx
    exact ⟨W, hk, hx, min_on_subspace hS.toSPD W _ (by rw [← hE.1, ← hr]; exact hI.r_perp)⟩
  case case2 fuel E r d pg ii s ch md its h =>
    intro W hE hr hpg hpos hI hk hx
    exact absurd h (ne_of_gt (spd_step_facts hS.toSPD hpg hpos).1)
  case case3 fuel E r d pg ii s ch md its _ h =>
    intro W hE hr hpg hpos hI hk hx
    exact absurd h (not_lt.2 (le_of_lt (spd_step_facts hS.toSPD hpg hpos).2))
  case case4 fuel E r d pg ii s ch md its hcurv halpha E' r' ii' hadv it h =>
    intro W hE hr hpg hpos hI hk hx
    exfalso
    by_cases h0 : r' = 0
    · rw [h0, ip_zero_left hS.bil] at h; exact lt_irrefl _ h
    · exact lt_asymm (hS.P_pos r' h0) h
  case case5 fuel E r d pg ii s ch md its hcurv halpha E' r' ii' hadv it hgam h =>
    intro W hE hr hpg hpos hI hk hx
    exact exit_optimal hS hE hr hpg hpos hI hk hx hadv _ ⟨rfl, _, rfl⟩
  case case6 fuel E r d pg ii s ch md its hcurv halpha E' r' ii' hadv it hgam hgz hchk =>
    intro W hE hr hpg hpos hI hk hx
    exact exit_optimal hS hE hr hpg hpos hI hk hx hadv _ ⟨rfl, _, rfl⟩
  case case7 fuel E r d pg ii s ch md its hcurv halpha E' r' ii' hadv it hgam hgz s1 status hchk hst =>
    intro W hE hr hpg hpos hI hk hx
    exact exit_optimal hS hE hr hpg hpos hI hk hx hadv _ ⟨rfl, _, rfl⟩
  case case8 fuel E r d pg ii s ch md its hcurv halpha E' r' ii' hadv it hg1 hg2 s1 status hchk hst ih =>
    intro W hE hr hpg hpos hI hk hx
    obtain ⟨hE', hr', hpos', hgrad'⟩ := advance_eq_spec S hS.lin hE hr hadv
    have hgpos : 0 < S.ip r' (precond S r') := lt_of_le_of_ne (not_lt.1 hg1) (Ne.symm hg2)
    have hbeta : 0 < S.ip r' (precond S r') / pg := div_pos hgpos hpos
    have hstep := exact_step hS hI hpg hpos (r' := r') (by rw [hr', hgrad'])
    obtain ⟨_, hrd⟩ := spd_advance_facts hS.toSPD hE hr hpg hpos hadv
    have hstep' : ExactInv S (W ⊔ K ∙ d) r'
        ((if 0 < S.ip r' (precond S r') / pg then S.ip r' (precond S r') / pg else 0) • d + precond S r') := by
      rw [if_pos hbeta]; exact hstep
    apply ih (W ⊔ K ∙ d) hE' hr' _ hgpos hstep'
    · rw [exact_dim_eq hS hI hpg hpos, hk]; simp
    · rw [hpos']
      have : E.pos - (pg / S.ip d (S.A d)) • d - x0 = (E.pos - x0) - (pg / S.ip d (S.A d)) • d := by abel
      rw [this]
      exact Submodule.sub_mem _ (Submodule.mem_sup_left hx) (Submodule.smul_mem _ _ (self_mem_sup_span W d))
    · rw [hS.bil.add_right, hS.bil.smul_right, hrd]; ring

/-- **optimality**: after its `k` passes CG returns the minimiser of the energy over `x₀ + W` for a `k`-dimensional
    subspace `W` (the span of its search directions) that contains `x_out − x₀` -/
theorem cg_optimal (S : Sys V K) (hS : S.SPDP) [FiniteDimensional K V] (c : Ctrl K τ) (nreset : Int) (fuel : Nat)
    (E : QE V K) (hE : E.Consistent S) : OptimalOn S E.pos (cg S c nreset fuel E) := by
  have base : ∀ out : Out V K τ, out.energy = E → out.iters = [] → OptimalOn S E.pos out := by
    intro out he hi
    refine ⟨⊥, by simp [hi], by simp [he], ?_⟩
    intro v hv
    rw [(Submodule.mem_bot K).1 hv]; simp
  unfold cg
  split
  · exact base _ rfl rfl
  · split
    · exact base _ rfl rfl
    · dsimp only
      split
      · exact base _ rfl rfl
      · rename_i hpg
        have hne : E.grad ≠ 0 := by
          intro h0; apply hpg; rw [h0, ip_zero_left hS.bil]
        exact loop_optimal S hS c nreset fuel E E.grad (precond S E.grad) (S.ip E.grad (precond S E.grad)) 0 _
          [E] [] [] E.pos ⊥ hE rfl rfl (hS.P_pos _ hne) (exactInv_init hS _) (by simp) (by simp)

end NiftyVerif.CgClassic
