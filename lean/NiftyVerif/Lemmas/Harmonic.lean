/-
  Lemmas/Harmonic.lean — vocabulary + helper lemmas for Props/C09.lean.
-/
import NiftyVerif.Model.Harmonic
import Mathlib.RingTheory.RootsOfUnity.PrimitiveRoots

namespace NiftyVerif.Harmonic

variable {K : Type} [CommRing K]

/-- hypotheses under which a `Grid` describes DFTs: roots are primitive, `wb` their inverses, `nInv` = 1/ncells -/
structure GridOK (g : Grid K) : Prop where
  pos1 : 0 < g.n1
  pos2 : 0 < g.n2
  pos3 : 0 < g.n3
  prim1 : IsPrimitiveRoot g.w1 g.n1
  prim2 : IsPrimitiveRoot g.w2 g.n2
  prim3 : IsPrimitiveRoot g.w3 g.n3
  bar1 : g.w1 * g.wb1 = 1
  bar2 : g.w2 * g.wb2 = 1
  bar3 : g.w3 * g.wb3 = 1
  inv : g.nInv * (g.ncells : K) = 1

/-- `σ` is a conjugation compatible with the grid (complex conjugation in ℂ) -/
structure ConjOK (σ : K →+* K) (g : Grid K) : Prop where
  invol : ∀ z, σ (σ z) = z
  w1 : σ g.w1 = g.wb1
  w2 : σ g.w2 = g.wb2
  w3 : σ g.w3 = g.wb3
  nInv : σ g.nInv = g.nInv

/-- `s` provides i, 1/2 and the conjugation `σ` -/
structure ScalOK (s : Scal K) (σ : K →+* K) : Prop where
  conj : ∀ z, s.conj z = σ z
  II : s.I * s.I = -1
  half : 2 * s.half = 1
  conjI : σ s.I = -s.I

/-- the index lies inside the transformed block -/
def InBox (g : Grid K) (i : Idx) : Prop := i.j1 < g.n1 ∧ i.j2 < g.n2 ∧ i.j3 < g.n3

/-- Σ over the whole array: p < P, (j1,j2,j3) in the grid, q < Q -/
def boxSum (P : Nat) (g : Grid K) (Q : Nat) (f : Idx → K) : K :=
  sumTo P fun p => sumTo g.n1 fun j1 => sumTo g.n2 fun j2 => sumTo g.n3 fun j3 => sumTo Q fun q =>
    f ⟨p, j1, j2, j3, q⟩

/-- Σ over the transformed block only, at fixed spectator indices -/
def gridSum (g : Grid K) (p q : Nat) (f : Idx → K) : K :=
  sumTo g.n1 fun j1 => sumTo g.n2 fun j2 => sumTo g.n3 fun j3 => f ⟨p, j1, j2, j3, q⟩

/-- a tensor is real w.r.t. the conjugation -/
def IsReal (σ : K →+* K) (x : Tensor K) : Prop := ∀ i, σ (x i) = x i

end NiftyVerif.Harmonic
