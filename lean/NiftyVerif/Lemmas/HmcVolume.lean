/-
  Volume preservation of the leapfrog step (C32), without any differentiability: each of the three factors is a skew
  product `(x, y) ↦ (x, y + f x)` over the identity, and translations preserve every (right-)invariant measure, so the
  step preserves `μ × μ` (Lebesgue/Haar measure on phase space) for EVERY measurable force field.
-/
import NiftyVerif.Model.Hmc
import Mathlib.MeasureTheory.Measure.Prod
import Mathlib.MeasureTheory.Group.Measure
import Mathlib.MeasureTheory.Group.Arithmetic
import Mathlib.Algebra.Module.Basic

namespace NiftyVerif.Hmc
open MeasureTheory Function

variable {E : Type} [AddCommGroup E] [Module ℝ E] [MeasurableSpace E] [MeasurableAdd₂ E] [MeasurableNeg E]
  [MeasurableConstSMul ℝ E]
variable (μ : Measure E) [SFinite μ] [μ.IsAddRightInvariant]

/-- `kick` on the product `E × E` -/
def kickP (gradU : E → E) (a : ℝ) : E × E → E × E := fun z => (z.1, z.2 + -(a • gradU z.1))

/-- `drift` on the product -/
def driftP (gradK : E → E) (ε : ℝ) : E × E → E × E := fun z => (z.1 + ε • gradK z.2, z.2)

/-- the model's leapfrog step, read on the product: `kick ∘ drift ∘ kick` -/
theorem leapfrog_eq_prod (gradU gradK : E → E) (ε : ℝ) (q p : E) :
    let z := leapfrog (K := ℝ) gradU gradK ε ⟨q, p⟩
    (z.q, z.p) = kickP gradU (ε / 2) (driftP gradK ε (kickP gradU (ε / 2) (q, p))) := by
  simp [leapfrog, kickP, driftP, sub_eq_add_neg]

theorem kickP_measurePreserving (gradU : E → E) (hg : Measurable gradU) (a : ℝ) :
    MeasurePreserving (kickP gradU a) (μ.prod μ) (μ.prod μ) := by
  have hm : Measurable (uncurry fun (q p : E) => p + -(a • gradU q)) :=
    measurable_snd.add ((hg.comp measurable_fst).const_smul a).neg
  exact (MeasurePreserving.id μ).skew_product hm
    (ae_of_all _ fun q => (measurePreserving_add_right μ (-(a • gradU q))).map_eq)

theorem driftP_measurePreserving (gradK : E → E) (hg : Measurable gradK) (ε : ℝ) :
    MeasurePreserving (driftP gradK ε) (μ.prod μ) (μ.prod μ) := by
  -- conjugate the skew product over the second coordinate with the swap
  have hm : Measurable (uncurry fun (p q : E) => q + ε • gradK p) :=
    measurable_snd.add ((hg.comp measurable_fst).const_smul ε)
  have h1 : MeasurePreserving (fun z : E × E => (z.1, z.2 + ε • gradK z.1)) (μ.prod μ) (μ.prod μ) :=
    (MeasurePreserving.id μ).skew_product hm
      (ae_of_all _ fun p => (measurePreserving_add_right μ (ε • gradK p)).map_eq)
  have h2 := (Measure.measurePreserving_swap (μ := μ) (ν := μ)).comp (h1.comp (Measure.measurePreserving_swap (μ := μ) (ν := μ)))
  convert h2 using 1
  funext z
  simp [driftP, Function.comp]

/-- **leapfrog_volume_preserving**: one leapfrog step preserves the product measure on phase space, for every
    measurable force `∇U` and kinetic gradient `∇K` and every step size -/
theorem leapfrogP_measurePreserving (gradU gradK : E → E) (hU : Measurable gradU) (hK : Measurable gradK) (ε : ℝ) :
    MeasurePreserving (kickP gradU (ε / 2) ∘ driftP gradK ε ∘ kickP gradU (ε / 2)) (μ.prod μ) (μ.prod μ) :=
  (kickP_measurePreserving μ gradU hU (ε / 2)).comp
    ((driftP_measurePreserving μ gradK hK ε).comp (kickP_measurePreserving μ gradU hU (ε / 2)))

/-- … and so does the momentum flip when the measure is invariant under negation -/
theorem flipP_measurePreserving [μ.IsNegInvariant] :
    MeasurePreserving (fun z : E × E => (z.1, -z.2)) (μ.prod μ) (μ.prod μ) :=
  (MeasurePreserving.id μ).prod (Measure.measurePreserving_neg μ)

end NiftyVerif.Hmc
