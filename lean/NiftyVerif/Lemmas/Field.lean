/-
  Lemmas/Field.lean — helper lemmas for Props/C06.lean: the list sums/products of Model/Field.lean under Mathlib's
  algebraic classes, index enumeration (`allIdx`, `merge`, `sel`), Python indexing, and the loops of the model.
-/
import NiftyVerif.Model.Field
import Mathlib.Algebra.Field.Basic
import Mathlib.Tactic.Ring
import Mathlib.Tactic.FieldSimp

namespace NiftyVerif.FieldM

/-! ### sums over lists -/
section Sums
variable {K : Type} {α β : Type}

theorem sumOver_congr [AddCommMonoid K] {l : List α} {f g : α → K} (h : ∀ a ∈ l, f a = g a) :
    sumOver l f = sumOver l g := by
  induction l with
  | nil => rfl
  | cons a t ih =>
    simp only [sumOver]
    rw [h a (by simp), ih (fun b hb => h b (by simp [hb]))]

theorem sumOver_zero [AddCommMonoid K] (l : List α) : sumOver l (fun _ => (0 : K)) = 0 := by
  induction l with
  | nil => rfl
  | cons a t ih => simp only [sumOver, ih, add_zero]

theorem sumOver_add [AddCommMonoid K] (l : List α) (f g : α → K) :
    sumOver l (fun a => f a + g a) = sumOver l f + sumOver l g := by
  induction l with
  | nil => simp [sumOver]
  | cons a t ih => simp only [sumOver, ih]; exact add_add_add_comm _ _ _ _

theorem sumOver_mul_right [Semiring K] (l : List α) (f : α → K) (c : K) :
    sumOver l (fun a => f a * c) = sumOver l f * c := by
  induction l with
  | nil => simp [sumOver]
  | cons a t ih => simp only [sumOver, ih, add_mul]

theorem sumOver_mul_left [Semiring K] (l : List α) (f : α → K) (c : K) :
    sumOver l (fun a => c * f a) = c * sumOver l f := by
  induction l with
  | nil => simp [sumOver]
  | cons a t ih => simp only [sumOver, ih, mul_add]

theorem sumOver_append [AddCommMonoid K] (l₁ l₂ : List α) (f : α → K) :
    sumOver (l₁ ++ l₂) f = sumOver l₁ f + sumOver l₂ f := by
  induction l₁ with
  | nil => simp [sumOver]
  | cons a t ih => simp only [List.cons_append, sumOver, ih, add_assoc]

theorem sumOver_map [AddCommMonoid K] (l : List β) (g : β → α) (f : α → K) :
    sumOver (l.map g) f = sumOver l (fun b => f (g b)) := by
  induction l with
  | nil => rfl
  | cons a t ih => simp only [List.map_cons, sumOver, ih]

theorem sumOver_flatMap [AddCommMonoid K] (l : List β) (g : β → List α) (f : α → K) :
    sumOver (l.flatMap g) f = sumOver l (fun b => sumOver (g b) f) := by
  induction l with
  | nil => rfl
  | cons a t ih => simp only [List.flatMap_cons, sumOver_append, sumOver, ih]

theorem sumOver_comm [AddCommMonoid K] (l₁ : List α) (l₂ : List β) (f : α → β → K) :
    sumOver l₁ (fun a => sumOver l₂ (fun b => f a b)) = sumOver l₂ (fun b => sumOver l₁ (fun a => f a b)) := by
  induction l₁ with
  | nil => simp [sumOver, sumOver_zero]
  | cons a t ih => simp only [sumOver, ih, sumOver_add]

theorem sumOver_hom [AddCommMonoid K] (φ : K → K) (h0 : φ 0 = 0) (hadd : ∀ a b, φ (a + b) = φ a + φ b)
    (l : List α) (f : α → K) : φ (sumOver l f) = sumOver l (fun a => φ (f a)) := by
  induction l with
  | nil => simpa [sumOver] using h0
  | cons a t ih => simp only [sumOver, hadd, ih]

/-- sum over a row-major enumeration = iterated sum, outermost index first -/
theorem sumOver_allIdx_cons [AddCommMonoid K] (n : Nat) (ns : List Nat) (f : Idx → K) :
    sumOver (allIdx (n :: ns)) f = sumOver (List.range n) (fun i => sumOver (allIdx ns) (fun t => f (i :: t))) := by
  simp only [allIdx, sumOver_flatMap, sumOver_map]

theorem sumOver_allIdx_nil [AddCommMonoid K] (f : Idx → K) : sumOver (allIdx []) f = f [] := by
  simp [allIdx, sumOver]

end Sums

/-! ### products over lists, powers -/
section Prods
variable {K : Type} {α β : Type}

theorem prodOver_mul [CommMonoid K] (l : List α) (f g : α → K) :
    prodOver l (fun a => f a * g a) = prodOver l f * prodOver l g := by
  induction l with
  | nil => simp [prodOver]
  | cons a t ih => simp only [prodOver, ih]; exact mul_mul_mul_comm _ _ _ _

theorem prodOver_map [Monoid K] (l : List β) (g : β → α) (f : α → K) :
    prodOver (l.map g) f = prodOver l (fun b => f (g b)) := by
  induction l with
  | nil => rfl
  | cons a t ih => simp only [List.map_cons, prodOver, ih]

theorem prodOver_congr [Monoid K] {l : List α} {f g : α → K} (h : ∀ a ∈ l, f a = g a) :
    prodOver l f = prodOver l g := by
  induction l with
  | nil => rfl
  | cons a t ih =>
    simp only [prodOver]
    rw [h a (by simp), ih (fun b hb => h b (by simp [hb]))]

theorem npow_eq_pow [Monoid K] (x : K) (n : Nat) : npow x n = x ^ n := by
  induction n with
  | zero => simp [npow]
  | succ n ih => simp only [npow, ih, pow_succ]

theorem ipow_eq_zpow [DivisionRing K] (x : K) (p : Int) : ipow x p = x ^ p := by
  cases p with
  | ofNat n => simp [ipow, npow_eq_pow]
  | negSucc n => simp [ipow, npow_eq_pow, zpow_negSucc]

theorem ipow_mul [Field K] (a b : K) (p : Int) : ipow (a * b) p = ipow a p * ipow b p := by
  simp only [ipow_eq_zpow, mul_zpow]

theorem ipow_one_base [Field K] (p : Int) : ipow (1 : K) p = 1 := by
  simp only [ipow_eq_zpow, one_zpow]

theorem ipow_one [Field K] (a : K) : ipow a 1 = a := by
  simp only [ipow_eq_zpow, zpow_one]

theorem prodOver_ipow [Field K] (l : List α) (f : α → K) (p : Int) :
    prodOver l (fun a => ipow (f a) p) = ipow (prodOver l f) p := by
  induction l with
  | nil => simp [prodOver, ipow_one_base]
  | cons a t ih => simp only [prodOver, ih, ipow_mul]

end Prods

/-! ### Python indexing and `spaces` parsing -/
section Parse
variable {K : Type} {α : Type}

theorem pyGet_ofNat [Inhabited α] (l : List α) (i : Nat) (h : i < l.length) :
    pyGet l (Int.ofNat i) = .ok (l.getD i default) := by
  unfold pyGet
  have h1 : (0 : Int) ≤ Int.ofNat i ∧ Int.ofNat i < (l.length : Int) := by
    simp only [Int.ofNat_eq_natCast]; omega
  have h2 : (Int.ofNat i).toNat = i := by simp
  simp only [h1, and_self, if_true, h2, List.getElem?_eq_getElem h, List.getD_eq_getElem?_getD, Option.getD_some]

/-- the raw index list the un-parsed `spaces` stands for in DomainTuple.scalar_weight / total_volume -/
def spInts (sp : Spaces) (n : Nat) : List Int :=
  match sp with
  | .none => rangeInt n
  | .scalar i => [i]
  | .list l => l

theorem parseSpaces_ok {sp : Spaces} {n : Nat} {l : List Nat} (h : parseSpaces sp n = .ok l) :
    (∀ i ∈ l, i < n) ∧ spInts sp n = l.map Int.ofNat := by
  cases sp with
  | none =>
    simp only [parseSpaces, Except.ok.injEq] at h
    subst h
    exact ⟨fun i hi => List.mem_range.mp hi, rfl⟩
  | scalar i =>
    simp only [parseSpaces] at h
    split at h
    · cases h
    · rename_i hc
      simp only [Except.ok.injEq] at h
      subst h
      have h0 : 0 ≤ i := by omega
      have hn : i < n := by omega
      refine ⟨?_, ?_⟩
      · intro j hj
        simp only [List.mem_singleton] at hj
        subst hj
        omega
      · simp only [spInts, List.map_cons, List.map_nil, Int.ofNat_eq_natCast, Int.toNat_of_nonneg h0]
  | list li =>
    simp only [parseSpaces] at h
    split at h
    · rename_i he
      simp only [Except.ok.injEq] at h
      subst h
      have : li = [] := by simpa using he
      subst this
      exact ⟨by simp, rfl⟩
    · split at h
      · cases h
      · split at h
        · cases h
        · rename_i hb
          split at h
          · cases h
          · simp only [Except.ok.injEq] at h
            subst h
            have hall : ∀ i ∈ li, 0 ≤ i ∧ i < n := by
              intro i hi
              constructor
              · by_contra hc
                exact hb (Or.inl (List.any_eq_true.mpr ⟨i, hi, by simpa using (by omega : i < 0)⟩))
              · by_contra hc
                exact hb (Or.inr (List.any_eq_true.mpr ⟨i, hi, by simpa using (by omega : i ≥ (n : Int))⟩))
            refine ⟨?_, ?_⟩
            · intro j hj
              simp only [List.mem_map] at hj
              obtain ⟨i, hi, rfl⟩ := hj
              have := hall i hi
              omega
            · simp only [spInts, List.map_map]
              symm
              calc List.map (Int.ofNat ∘ Int.toNat) li = List.map id li := by
                    apply List.map_congr_left
                    intro i hi
                    have := hall i hi
                    simp only [Function.comp, Int.ofNat_eq_natCast, id]
                    omega
                _ = li := List.map_id _

end Parse

/-! ### volumes: scalar_weight, total_volume, weight -/
section Volumes
variable {K : Type}

/-- all listed sub-domains have a scalar `dvol` -/
def allScalar (subs : List (SubDom K)) (l : List Nat) : Prop :=
  ∀ i ∈ l, ∃ v, (subs.getD i default).dvol = .scalar v

theorem scalarWeightLoop_spec [Field K] (subs : List (SubDom K)) (idx : Idx) :
    ∀ (l : List Nat) (res : K), (∀ i ∈ l, i < subs.length) → ∀ r,
      scalarWeightLoop subs (l.map Int.ofNat) res = .ok r →
      (∀ w, r = some w → w = res * prodOver l (fun ind => dvolAt subs ind idx) ∧ allScalar subs l) ∧
      (r = none → ¬ allScalar subs l) := by
  intro l
  induction l with
  | nil =>
    intro res _ r h
    simp only [List.map_nil, scalarWeightLoop, Except.ok.injEq] at h
    subst h
    refine ⟨fun w hw => ?_, fun h => by cases h⟩
    simp only [Option.some.injEq] at hw
    subst hw
    exact ⟨by simp [prodOver], fun i hi => by cases hi⟩
  | cons i t ih =>
    intro res hlt r h
    have hi : i < subs.length := hlt i (by simp)
    have ht : ∀ j ∈ t, j < subs.length := fun j hj => hlt j (by simp [hj])
    simp only [List.map_cons, scalarWeightLoop, pyGet_ofNat subs i hi, SubDom.scalarDvol] at h
    cases hd : (subs.getD i default).dvol with
    | none => simp only [hd] at h; cases h
    | vector v =>
      simp only [hd, Except.ok.injEq] at h
      subst h
      refine ⟨fun w hw => (by cases hw), fun _ hall => ?_⟩
      obtain ⟨v', hv'⟩ := hall i (by simp)
      rw [hd] at hv'; cases hv'
    | scalar v =>
      simp only [hd] at h
      obtain ⟨h1, h2⟩ := ih (res * v) ht r h
      refine ⟨fun w hw => ?_, fun hn hall => ?_⟩
      · obtain ⟨e, hs⟩ := h1 w hw
        refine ⟨?_, ?_⟩
        · rw [e]; simp only [prodOver, dvolAt, hd]; ring
        · intro j hj
          rcases List.mem_cons.mp hj with rfl | hj
          · exact ⟨v, hd⟩
          · exact hs j hj
      · exact h2 hn (fun j hj => hall j (by simp [hj]))

theorem scalarWeight_eq_loop [Field K] (subs : List (SubDom K)) (sp : Spaces) :
    scalarWeight subs sp = scalarWeightLoop subs (spInts sp subs.length) 1 := by
  cases sp with
  | none => rfl
  | list l => rfl
  | scalar i =>
    simp only [scalarWeight, spInts, scalarWeightLoop]
    cases pyGet subs i with
    | error e => rfl
    | ok s =>
      simp only
      cases hs : s.scalarDvol with
      | error e => rfl
      | ok o =>
        cases o with
        | none => rfl
        | some v => simp [one_mul]

/-- DomainTuple.scalar_weight on a parsable `spaces`: the product of the scalar volume elements, or None exactly
    when some listed sub-domain has a non-scalar `dvol` -/
theorem scalarWeight_spec [Field K] (subs : List (SubDom K)) (sp : Spaces) (l : List Nat)
    (hp : parseSpaces sp subs.length = .ok l) (r : Option K) (h : scalarWeight subs sp = .ok r) (idx : Idx) :
    (∀ w, r = some w → w = prodOver l (fun ind => dvolAt subs ind idx) ∧ allScalar subs l) ∧
    (r = none → ¬ allScalar subs l) := by
  obtain ⟨hlt, hints⟩ := parseSpaces_ok hp
  rw [scalarWeight_eq_loop, hints] at h
  obtain ⟨h1, h2⟩ := scalarWeightLoop_spec subs idx l 1 hlt r h
  refine ⟨fun w hw => ?_, h2⟩
  obtain ⟨e, hs⟩ := h1 w hw
  exact ⟨by rw [e, one_mul], hs⟩

/-- the loop of Field.weight keeps `aout * fct**power` equal to the input times all volume factors so far -/
theorem weightLoop_spec [Field K] (subs : List (SubDom K)) (p : Int) :
    ∀ (l : List Nat) (fct : K) (dt : DT) (a : Idx → K) (fct' : K) (dt' : DT) (a' : Idx → K),
      weightLoop subs p l fct dt a = .ok (fct', dt', a') →
      ∀ idx, a' idx * ipow fct' p = a idx * ipow fct p * prodOver l (fun ind => ipow (dvolAt subs ind idx) p) := by
  intro l
  induction l with
  | nil =>
    intro fct dt a fct' dt' a' h idx
    simp only [weightLoop, Except.ok.injEq, Prod.mk.injEq] at h
    obtain ⟨rfl, _, rfl⟩ := h
    simp [prodOver]
  | cons ind t ih =>
    intro fct dt a fct' dt' a' h idx
    simp only [weightLoop] at h
    cases hd : (subs.getD ind default).dvol with
    | none => simp only [hd] at h; cases h
    | scalar w =>
      simp only [hd] at h
      rw [ih _ _ _ _ _ _ h idx]
      simp only [prodOver, dvolAt, hd, ipow_mul]
      ring
    | vector w =>
      simp only [hd] at h
      rw [ih _ _ _ _ _ _ h idx]
      simp only [prodOver, dvolAt, hd]
      ring

/-- Field.weight: every entry is multiplied by the `power`-th power of the volume factors of the listed sub-domains -/
theorem weight_val [Field K] [DecidableEq K] (f g : Fld K) (p : Int) (sp : Spaces) (h : weight f p sp = .ok g) :
    ∃ l, parseSpaces sp f.subs.length = .ok l ∧ g.subs = f.subs ∧ g.dom = f.dom ∧
      ∀ idx, g.val idx = f.val idx * prodOver l (fun ind => ipow (dvolAt f.subs ind idx) p) := by
  unfold weight at h
  cases hp : parseSpaces sp f.subs.length with
  | error e => simp only [hp] at h; cases h
  | ok l =>
    simp only [hp] at h
    cases hw : weightLoop f.subs p l 1 f.dt f.val with
    | error e => simp only [hw] at h; cases h
    | ok r =>
      obtain ⟨fct, dt, a⟩ := r
      simp only [hw] at h
      have key := weightLoop_spec f.subs p l 1 f.dt f.val fct dt a hw
      refine ⟨l, rfl, ?_⟩
      split at h
      · rename_i h1
        simp only [Except.ok.injEq] at h
        subst h
        refine ⟨rfl, rfl, fun idx => ?_⟩
        have := key idx
        simp only [h1, mul_one, ipow_one_base] at this
        simpa using this
      · simp only [Except.ok.injEq] at h
        subst h
        refine ⟨rfl, rfl, fun idx => ?_⟩
        have := key idx
        simp only [ipow_one_base, mul_one] at this
        simpa using this

theorem totalVolumeLoop_scalar [Field K] (subs : List (SubDom K)) (idx : Idx)
    (hc : ∀ i v, (subs.getD i default).dvol = .scalar v →
      (subs.getD i default).totalVolume = .ok (((subs.getD i default).size : K) * v)) :
    ∀ (l : List Nat) (res V : K), (∀ i ∈ l, i < subs.length) → allScalar subs l →
      totalVolumeLoop subs (l.map Int.ofNat) res = .ok V →
      V = res * ((countOf (subs.map SubDom.size) l : Nat) : K) * prodOver l (fun ind => dvolAt subs ind idx) := by
  intro l
  induction l with
  | nil =>
    intro res V _ _ h
    simp only [List.map_nil, totalVolumeLoop, Except.ok.injEq] at h
    subst h
    simp [countOf, prodNat, prodOver]
  | cons i t ih =>
    intro res V hlt hs h
    have hi : i < subs.length := hlt i (by simp)
    obtain ⟨v, hv⟩ := hs i (by simp)
    simp only [List.map_cons, totalVolumeLoop, pyGet_ofNat subs i hi, hc i v hv] at h
    rw [ih _ _ (fun j hj => hlt j (by simp [hj])) (fun j hj => hs j (by simp [hj])) h]
    have hsz : (subs.map SubDom.size).getD i 1 = (subs.getD i default).size := by
      simp [List.getD_eq_getElem?_getD, List.getElem?_eq_getElem hi]
    simp only [countOf, List.map_cons, prodNat, prodOver, dvolAt, hv, hsz, Nat.cast_mul]
    ring

theorem totalVolume_eq_loop [Field K] (subs : List (SubDom K)) (sp : Spaces) :
    totalVolume subs sp = totalVolumeLoop subs (spInts sp subs.length) 1 := by
  cases sp with
  | none => rfl
  | list l => rfl
  | scalar i =>
    simp only [totalVolume, spInts, totalVolumeLoop]
    cases pyGet subs i with
    | error e => rfl
    | ok s =>
      simp only
      cases hs : s.totalVolume with
      | error e => rfl
      | ok v => simp [one_mul]

/-- total_volume over sub-domains with scalar volume elements (StructuredDomain formula): count × scalar weight -/
theorem totalVolume_scalar [Field K] (subs : List (SubDom K)) (sp : Spaces) (l : List Nat) (V : K) (idx : Idx)
    (hc : ∀ i v, (subs.getD i default).dvol = .scalar v →
      (subs.getD i default).totalVolume = .ok (((subs.getD i default).size : K) * v))
    (hp : parseSpaces sp subs.length = .ok l) (hs : allScalar subs l) (h : totalVolume subs sp = .ok V) :
    V = ((countOf (subs.map SubDom.size) l : Nat) : K) * prodOver l (fun ind => dvolAt subs ind idx) := by
  obtain ⟨hlt, hints⟩ := parseSpaces_ok hp
  rw [totalVolume_eq_loop, hints] at h
  rw [totalVolumeLoop_scalar subs idx hc l 1 V hlt hs h, one_mul]

end Volumes

/-! ### index fibres: summing the partial contractions over the kept indices gives the total (Fubini) -/
section Fubini
variable {K : Type}

theorem contract_total [AddCommMonoid K] :
    ∀ (mask : List Bool) (sizes : List Nat) (x : Idx → K), mask.length = sizes.length →
      sumOver (allIdx (sel false mask sizes)) (fun o => contract mask sizes x o) = sumOver (allIdx sizes) x := by
  intro mask
  induction mask with
  | nil =>
    intro sizes x h
    have : sizes = [] := by cases sizes with | nil => rfl | cons a t => simp at h
    subst this
    simp [sel, contract, allIdx, sumOver, merge]
  | cons b m ih =>
    intro sizes x h
    cases sizes with
    | nil => simp at h
    | cons n ns =>
      have hlen : m.length = ns.length := by simpa using h
      cases b with
      | true =>
        have e1 : sel false (true :: m) (n :: ns) = sel false m ns := by simp [sel]
        have e2 : sel true (true :: m) (n :: ns) = n :: sel true m ns := by simp [sel]
        have step : ∀ o, contract (true :: m) (n :: ns) x o
            = sumOver (List.range n) (fun i => contract m ns (fun t => x (i :: t)) o) := by
          intro o
          simp only [contract, e2, sumOver_allIdx_cons, merge, List.headD_cons, List.tail_cons]
        rw [e1, sumOver_allIdx_cons]
        simp only [step]
        rw [sumOver_comm]
        apply sumOver_congr
        intro i _
        exact ih ns (fun t => x (i :: t)) hlen
      | false =>
        have e1 : sel false (false :: m) (n :: ns) = n :: sel false m ns := by simp [sel]
        have e2 : sel true (false :: m) (n :: ns) = sel true m ns := by simp [sel]
        have step : ∀ i o, contract (false :: m) (n :: ns) x (i :: o) = contract m ns (fun t => x (i :: t)) o := by
          intro i o
          simp only [contract, e2, merge, List.headD_cons, List.tail_cons]
        rw [e1, sumOver_allIdx_cons, sumOver_allIdx_cons]
        apply sumOver_congr
        intro i _
        simp only [step]
        exact ih ns (fun t => x (i :: t)) hlen

end Fubini

/-! ### total volume of a product domain = product of the sub-domain volumes = integral of 1 -/
section TotalVolume
variable {K : Type}

/-- SPEC: volume of one sub-domain (`total_volume` of the domain object) -/
def subTV [Field K] (s : SubDom K) : K :=
  match s.tv with
  | some v => v
  | none =>
    match s.dvol with
    | .none => 0
    | .scalar v => (s.size : K) * v
    | .vector v => sumOver (List.range s.size) fun i => v.getD i 0

theorem totalVolume_sub [Field K] (s : SubDom K) (v : K) (h : s.totalVolume = .ok v) : v = subTV s := by
  unfold SubDom.totalVolume at h
  unfold subTV
  cases htv : s.tv with
  | some w => simp only [htv, Except.ok.injEq] at h ⊢; exact h.symm
  | none =>
    cases hd : s.dvol with
    | none => simp only [htv, hd] at h; cases h
    | scalar w => simp only [htv, hd, Except.ok.injEq] at h ⊢; exact h.symm
    | vector w => simp only [htv, hd, Except.ok.injEq] at h ⊢; exact h.symm

theorem totalVolumeLoop_prod [Field K] (subs : List (SubDom K)) :
    ∀ (l : List Nat) (res V : K), (∀ i ∈ l, i < subs.length) →
      totalVolumeLoop subs (l.map Int.ofNat) res = .ok V →
      V = res * prodOver l (fun i => subTV (subs.getD i default)) := by
  intro l
  induction l with
  | nil =>
    intro res V _ h
    simp only [List.map_nil, totalVolumeLoop, Except.ok.injEq] at h
    simp [prodOver, h]
  | cons i t ih =>
    intro res V hlt h
    have hi : i < subs.length := hlt i (by simp)
    simp only [List.map_cons, totalVolumeLoop, pyGet_ofNat subs i hi] at h
    cases hv : (subs.getD i default).totalVolume with
    | error e => simp only [hv] at h; cases h
    | ok v =>
      simp only [hv] at h
      rw [ih _ _ (fun j hj => hlt j (by simp [hj])) h, totalVolume_sub _ _ hv]
      simp only [prodOver]
      ring

/-- weight function of one sub-domain by its own index -/
def subW [Field K] (s : SubDom K) : Nat → K := fun j =>
  match s.dvol with
  | .none => 1
  | .scalar w => w
  | .vector v => v.getD j 0

/-- the sub-domain has volume factors and its `total_volume` is their sum.  For StructuredDomain's own formula this is
    a theorem (`volConsistent_of_structured`); for GLSpace (`total_volume` hard-coded to `4*np.pi`) and HPSpace it is the
    HYPOTHESIS `total_volume = Σ dvol` (trusted base; checked numerically by the harness on every generated domain). -/
def VolConsistent [Field K] (s : SubDom K) : Prop :=
  s.dvol ≠ .none ∧ subTV s = sumOver (List.range s.size) (subW s)

theorem sumOver_range_const [Field K] (n : Nat) (w : K) : sumOver (List.range n) (fun _ => w) = (n : K) * w := by
  induction n with
  | zero => simp [sumOver]
  | succ n ihn =>
    rw [List.range_succ, sumOver_append]
    simp only [sumOver, add_zero, ihn, Nat.cast_succ]
    ring

theorem totalVolume_of_consistent_scalar [Field K] (s : SubDom K) (v : K) (hc : VolConsistent s)
    (hv : s.dvol = .scalar v) : s.totalVolume = .ok ((s.size : K) * v) := by
  obtain ⟨_, he⟩ := hc
  have hsum : sumOver (List.range s.size) (subW s) = (s.size : K) * v := by
    have : subW s = fun _ => v := by funext j; simp [subW, hv]
    rw [this, sumOver_range_const]
  unfold SubDom.totalVolume
  cases htv : s.tv with
  | some T =>
    simp only
    have : subTV s = T := by simp [subTV, htv]
    rw [← this, he, hsum]
  | none => simp only [hv]

def prodZip [Field K] : List (Nat → K) → Idx → K
  | [], _ => 1
  | w :: ws, idx => w (idx.headD 0) * prodZip ws idx.tail

theorem sum_prodZip [Field K] : ∀ (ws : List (Nat → K)) (ns : List Nat), ws.length = ns.length →
    sumOver (allIdx ns) (prodZip ws) = prodOver (ws.zip ns) (fun wn => sumOver (List.range wn.2) wn.1) := by
  intro ws
  induction ws with
  | nil =>
    intro ns h
    have : ns = [] := by cases ns with | nil => rfl | cons a t => simp at h
    subst this
    simp [allIdx, sumOver, prodZip, prodOver]
  | cons w ws ih =>
    intro ns h
    cases ns with
    | nil => simp at h
    | cons n ns =>
      have hlen : ws.length = ns.length := by simpa using h
      rw [sumOver_allIdx_cons]
      simp only [prodZip, List.headD_cons, List.tail_cons, List.zip_cons_cons, prodOver]
      simp only [sumOver_mul_left, ih ns hlen]
      rw [sumOver_mul_right]

theorem prodOver_range_succ [CommMonoid K] (n : Nat) (g : Nat → K) :
    prodOver (List.range (n + 1)) g = g 0 * prodOver (List.range n) (fun k => g (k + 1)) := by
  rw [List.range_succ_eq_map]
  simp only [prodOver, prodOver_map]

theorem dvolAt_cons_zero [Field K] (s : SubDom K) (subs : List (SubDom K)) (idx : Idx) :
    dvolAt (s :: subs) 0 idx = subW s (idx.headD 0) := by
  cases idx <;> cases hd : s.dvol <;> simp [dvolAt, subW, hd]

theorem dvolAt_cons_succ [Field K] (s : SubDom K) (subs : List (SubDom K)) (k : Nat) (idx : Idx) :
    dvolAt (s :: subs) (k + 1) idx = dvolAt subs k idx.tail := by
  cases idx <;> cases hd : (subs.getD k default).dvol <;> simp [dvolAt, hd]

theorem prod_dvolAt_eq_prodZip [Field K] : ∀ (subs : List (SubDom K)) (idx : Idx),
    prodOver (List.range subs.length) (fun k => dvolAt subs k idx) = prodZip (subs.map subW) idx := by
  intro subs
  induction subs with
  | nil => intro idx; simp [prodOver, prodZip]
  | cons s subs ih =>
    intro idx
    simp only [List.length_cons, prodOver_range_succ, dvolAt_cons_zero, dvolAt_cons_succ, List.map_cons, prodZip, ih]

end TotalVolume

/-! ### MultiField -/
section Multi
variable {K : Type} {α : Type}

theorem zipLeaves_spec (op : Fld K → Fld K → Except String (Fld K)) :
    ∀ (la lb r : List (String × Fld K)), zipLeaves op la lb = .ok r →
      List.Forall₂ (fun (ab : (String × Fld K) × (String × Fld K)) (c : String × Fld K) =>
        c.1 = ab.1.1 ∧ op ab.1.2 ab.2.2 = .ok c.2) (la.zip lb) r := by
  intro la
  induction la with
  | nil =>
    intro lb r h
    simp only [zipLeaves, Except.ok.injEq] at h
    subst h
    simp
  | cons a ta ih =>
    intro lb r h
    cases lb with
    | nil =>
      simp only [zipLeaves, Except.ok.injEq] at h
      subst h
      simp
    | cons b tb =>
      obtain ⟨ka, fa⟩ := a
      obtain ⟨kb, fb⟩ := b
      simp only [zipLeaves] at h
      cases ho : op fa fb with
      | error e => simp only [ho] at h; cases h
      | ok r0 =>
        simp only [ho] at h
        cases hz : zipLeaves op ta tb with
        | error e => simp only [hz] at h; cases h
        | ok t =>
          simp only [hz, Except.ok.injEq] at h
          subst h
          simp only [List.zip_cons_cons]
          exact List.Forall₂.cons ⟨rfl, ho⟩ (ih tb t hz)

/-- all entries of all leaves, in key order: the concatenated array the MultiField stands for -/
def mentries (a : MFld K) : List K := a.leaves.flatMap fun kv => (allIdx kv.2.sizes).map kv.2.val

theorem maxOver_nonneg [LinearOrder K] [Zero K] (l : List α) (f : α → K) : (0 : K) ≤ maxOver max l f := by
  induction l with
  | nil => simp [maxOver]
  | cons a t ih => simp only [maxOver]; exact le_trans ih (le_max_right _ _)

theorem maxOver_append [LinearOrder K] [Zero K] (l₁ l₂ : List α) (f : α → K) :
    maxOver max (l₁ ++ l₂) f = max (maxOver max l₁ f) (maxOver max l₂ f) := by
  induction l₁ with
  | nil => simp only [List.nil_append, maxOver]; exact (max_eq_right (maxOver_nonneg l₂ f)).symm
  | cons a t ih => simp only [List.cons_append, maxOver, ih, max_assoc]

theorem maxOver_map [LinearOrder K] [Zero K] {β : Type} (l : List β) (g : β → α) (f : α → K) :
    maxOver max (l.map g) f = maxOver max l (fun b => f (g b)) := by
  induction l with
  | nil => rfl
  | cons a t ih => simp only [List.map_cons, maxOver, ih]

theorem maxOver_flatMap [LinearOrder K] [Zero K] {β : Type} (l : List β) (g : β → List α) (f : α → K) :
    maxOver max (l.flatMap g) f = maxOver max l (fun b => maxOver max (g b) f) := by
  induction l with
  | nil => rfl
  | cons a t ih => simp only [List.flatMap_cons, maxOver_append, maxOver, ih]

end Multi

end NiftyVerif.FieldM
