/-
  The `ℂ` instance of the model's vocabulary (noncomputable; Mathlib's complex special functions, principal branches —
  the functions the `Cplx` driver type approximates in `Float`), conjugation, dummy order, and rewriting lemmas.
-/
import NiftyVerif.Model.Transc
import NiftyVerif.Lemmas.TranscReal
import Mathlib.Analysis.SpecialFunctions.Trigonometric.ComplexDeriv
import Mathlib.Analysis.SpecialFunctions.Complex.LogDeriv
import Mathlib.Analysis.SpecialFunctions.Pow.Complex

namespace NiftyVerif

noncomputable instance instTranscComplex : Transc ℂ where
  sqrt := fun z => z ^ (1 / 2 : ℂ)
  exp := Complex.exp
  log := Complex.log
  sin := Complex.sin
  cos := Complex.cos
  tan := Complex.tan
  sinh := Complex.sinh
  cosh := Complex.cosh
  tanh := Complex.tanh
  arctan := fun z => (Complex.I / 2) * (Complex.log (1 - Complex.I * z) - Complex.log (1 + Complex.I * z))
  pow := fun x y => x ^ y
  pi := (Real.pi : ℂ)
  nan := 0

noncomputable instance instConjComplex : Conj ℂ := ⟨fun z => (starRingEnd ℂ) z⟩

/-- the order instances the generated table asks for; only the piecewise (real-only) entries use them and those are excluded
    from every complex statement (`Cplx` in the driver compares real parts, as here) -/
noncomputable instance instLTComplexModel : LT ℂ := ⟨fun a b => a.re < b.re⟩
noncomputable instance instLEComplexModel : LE ℂ := ⟨fun a b => a.re ≤ b.re⟩
noncomputable instance : DecidableLT ℂ := fun _ _ => Classical.propDecidable _
noncomputable instance : DecidableLE ℂ := fun _ _ => Classical.propDecidable _

namespace TranscComplex
@[simp] theorem exp_eq (x : ℂ) : Transc.exp x = Complex.exp x := rfl
@[simp] theorem log_eq (x : ℂ) : Transc.log x = Complex.log x := rfl
@[simp] theorem sin_eq (x : ℂ) : Transc.sin x = Complex.sin x := rfl
@[simp] theorem cos_eq (x : ℂ) : Transc.cos x = Complex.cos x := rfl
@[simp] theorem tan_eq (x : ℂ) : Transc.tan x = Complex.tan x := rfl
@[simp] theorem sinh_eq (x : ℂ) : Transc.sinh x = Complex.sinh x := rfl
@[simp] theorem cosh_eq (x : ℂ) : Transc.cosh x = Complex.cosh x := rfl
@[simp] theorem tanh_eq (x : ℂ) : Transc.tanh x = Complex.tanh x := rfl

theorem csci_0 : (0.0 : ℂ) = 0 := by norm_num
theorem csci_1 : (1.0 : ℂ) = 1 := by norm_num
theorem csci_10 : (10.0 : ℂ) = 10 := by norm_num
theorem csci_half : (0.5 : ℂ) = 1 / 2 := by norm_num

theorem hasDerivAt_tanh (x : ℂ) (hc : Complex.cosh x ≠ 0) :
    HasDerivAt Complex.tanh (1 - Complex.tanh x ^ 2) x := by
  have h := (Complex.hasDerivAt_sinh x).div (Complex.hasDerivAt_cosh x) hc
  have e : Complex.tanh = fun y => Complex.sinh y / Complex.cosh y := by
    funext y; exact Complex.tanh_eq_sinh_div_cosh y
  have hv : 1 - Complex.tanh x ^ 2
      = (Complex.cosh x * Complex.cosh x - Complex.sinh x * Complex.sinh x) / Complex.cosh x ^ 2 := by
    rw [Complex.tanh_eq_sinh_div_cosh]; field_simp
  rw [hv, e]; exact h
end TranscComplex

end NiftyVerif
