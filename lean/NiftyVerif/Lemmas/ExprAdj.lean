/-
  Helper lemmas for C03 `jac_adjoint`: inner products over a finite box of keys × indices, picking a key,
  restricting index ranges, swapping sums, and the relation between a domain mask and the domain sum.
-/
import NiftyVerif.Lemmas.ExprCalc
import Mathlib.Algebra.BigOperators.Group.Finset.Basic
import Mathlib.Algebra.BigOperators.Ring.Finset

set_option linter.unusedSimpArgs false
namespace NiftyVerif.Expr

/-- the box `Ks × {0..N-1}` as a domain -/
def box (Ks : List String) (N : Nat) : Dom := Ks.map (fun k => (k, N))

/-- inner product over the box -/
def ipB (Ks : List String) (N : Nat) (u v : MVal ℝ) : ℝ := dsum (box Ks N) (fun k i => u k i * v k i)

/-- keys are distinct, inside the box, sizes inside the box -/
def DomOK (d : Dom) (Ks : List String) (N : Nat) : Prop :=
  (d.map (·.1)).Nodup ∧ ∀ kn ∈ d, kn.1 ∈ Ks ∧ kn.2 ≤ N

theorem rsum_succ (n : Nat) (f : Nat → ℝ) : rsum (n + 1) f = rsum n f + f n := by
  simp [rsum, List.range_succ]

theorem rsum_zero' (n : Nat) : rsum n (fun _ => (0 : ℝ)) = 0 := by
  induction n with
  | zero => simp [rsum]
  | succ n ih => rw [rsum_succ, ih]; simp

theorem rsum_congr (n : Nat) (f g : Nat → ℝ) (h : ∀ i, i < n → f i = g i) : rsum n f = rsum n g := by
  induction n with
  | zero => simp [rsum]
  | succ n ih =>
    rw [rsum_succ, rsum_succ, ih (fun i hi => h i (Nat.lt_succ_of_lt hi)), h n (Nat.lt_succ_self n)]

theorem rsum_ite_lt (m N : Nat) (hm : m ≤ N) (f : Nat → ℝ) :
    rsum N (fun i => if i < m then f i else 0) = rsum m f := by
  induction N with
  | zero =>
    have : m = 0 := Nat.le_zero.mp hm
    subst this; simp [rsum]
  | succ N ih =>
    rcases Nat.lt_or_ge m (N + 1) with h | h
    · rw [rsum_succ, ih (Nat.lt_succ_iff.mp h)]
      have : ¬ N < m := by omega
      simp [this]
    · have : m = N + 1 := by omega
      subst this
      exact rsum_congr _ _ _ (fun i hi => by simp [hi])

theorem rsum_ite_zero (N : Nat) (hN : 0 < N) (f : Nat → ℝ) :
    rsum N (fun i => if i = 0 then f i else 0) = f 0 := by
  have h := rsum_ite_lt 1 N hN f
  have e : (fun i => if i = 0 then f i else 0) = (fun i => if i < 1 then f i else 0) := by
    funext i; simp [Nat.lt_one_iff]
  rw [e, h, rsum_succ]; simp [rsum]

theorem rsum_comm (m n : Nat) (F : Nat → Nat → ℝ) :
    rsum m (fun i => rsum n (fun j => F i j)) = rsum n (fun j => rsum m (fun i => F i j)) := by
  induction m with
  | zero => simp [rsum]
  | succ m ih =>
    rw [rsum_succ, ih]
    rw [← rsum_add]
    exact rsum_congr _ _ _ (fun j _ => by rw [rsum_succ])

theorem dsum_congr (d : Dom) (f g : String → Nat → ℝ) (h : ∀ k i, f k i = g k i) : dsum d f = dsum d g := by
  have : f = g := by funext k i; exact h k i
  rw [this]

/-- picking one key out of a sum over distinct keys -/
theorem list_sum_pick (Ks : List String) (hK : Ks.Nodup) (a : String) (ha : a ∈ Ks) (f : String → ℝ) :
    (Ks.map (fun k => if k = a then f k else 0)).sum = f a := by
  induction Ks with
  | nil => cases ha
  | cons k Ks ih =>
    have hk : k ∉ Ks := (List.nodup_cons.mp hK).1
    have hK' : Ks.Nodup := (List.nodup_cons.mp hK).2
    simp only [List.map_cons, List.sum_cons]
    by_cases hka : k = a
    · subst hka
      have hz : (Ks.map (fun k' => if k' = k then f k' else 0)).sum = 0 := by
        have : (Ks.map (fun k' => if k' = k then f k' else 0)) = Ks.map (fun _ => (0 : ℝ)) := by
          apply List.map_congr_left
          intro k' hk'
          have : k' ≠ k := fun e => hk (e ▸ hk')
          simp [this]
        rw [this]; exact list_sum_map_zero' _
      simp [hz]
    · have ha' : a ∈ Ks := by
        rcases List.mem_cons.mp ha with h | h
        · exact (hka h.symm).elim
        · exact h
      simp [hka, ih hK' ha']
where
  list_sum_map_zero' (l : List String) : (l.map (fun _ => (0 : ℝ))).sum = 0 := by
    induction l with
    | nil => rfl
    | cons a l ih => simp [ih]

theorem dsum_box_pick (Ks : List String) (N : Nat) (hK : Ks.Nodup) (k0 : String) (hk : k0 ∈ Ks) (g : Nat → ℝ) :
    dsum (box Ks N) (fun k i => if k = k0 then g i else 0) = rsum N g := by
  unfold dsum box
  rw [List.map_map]
  have : (Ks.map ((fun kn : String × Nat => rsum kn.2 (fun i => if kn.1 = k0 then g i else 0)) ∘
      (fun k => (k, N)))) = Ks.map (fun k => if k = k0 then rsum N g else 0) := by
    apply List.map_congr_left
    intro k _
    simp only [Function.comp]
    by_cases h : k = k0
    · simp [h]
    · simp [h, rsum_zero']
  rw [this, list_sum_pick Ks hK k0 hk (fun _ => rsum N g)]

theorem ipB_pick_right (Ks : List String) (N : Nat) (hK : Ks.Nodup) (k0 : String) (hk : k0 ∈ Ks)
    (y : MVal ℝ) (g : Nat → ℝ) :
    ipB Ks N y (fun k i => if k = k0 then g i else 0) = rsum N (fun i => y k0 i * g i) := by
  have e : ipB Ks N y (fun k i => if k = k0 then g i else 0)
      = dsum (box Ks N) (fun k i => if k = k0 then y k0 i * g i else 0) := by
    unfold ipB
    exact dsum_congr _ _ _ (fun k i => by by_cases h : k = k0 <;> simp [h])
  rw [e, dsum_box_pick Ks N hK k0 hk]

theorem ipB_pick_left (Ks : List String) (N : Nat) (hK : Ks.Nodup) (k0 : String) (hk : k0 ∈ Ks)
    (v : MVal ℝ) (g : Nat → ℝ) :
    ipB Ks N (fun k i => if k = k0 then g i else 0) v = rsum N (fun i => g i * v k0 i) := by
  have h := ipB_pick_right Ks N hK k0 hk v g
  unfold ipB at *
  rw [dsum_congr _ _ (fun k i => v k i * (if k = k0 then g i else 0)) (fun k i => by ring), h]
  exact rsum_congr _ _ _ (fun i _ => by ring)

theorem ipB_add_right (Ks : List String) (N : Nat) (y u v : MVal ℝ) :
    ipB Ks N y (fun k i => u k i + v k i) = ipB Ks N y u + ipB Ks N y v := by
  unfold ipB; rw [← dsum_add]; exact dsum_congr _ _ _ (fun k i => by ring)

theorem ipB_add_left (Ks : List String) (N : Nat) (h u v : MVal ℝ) :
    ipB Ks N (fun k i => u k i + v k i) h = ipB Ks N u h + ipB Ks N v h := by
  unfold ipB; rw [← dsum_add]; exact dsum_congr _ _ _ (fun k i => by ring)

theorem ipB_sub_right (Ks : List String) (N : Nat) (y u v : MVal ℝ) :
    ipB Ks N y (fun k i => u k i - v k i) = ipB Ks N y u - ipB Ks N y v := by
  have h := ipB_add_right Ks N y (fun k i => u k i - v k i) v
  have e : (fun k i => (u k i - v k i) + v k i) = u := by funext k i; ring
  rw [e] at h; linarith

theorem ipB_sub_left (Ks : List String) (N : Nat) (h u v : MVal ℝ) :
    ipB Ks N (fun k i => u k i - v k i) h = ipB Ks N u h - ipB Ks N v h := by
  have hh := ipB_add_left Ks N h (fun k i => u k i - v k i) v
  have e : (fun k i => (u k i - v k i) + v k i) = u := by funext k i; ring
  rw [e] at hh; linarith

/-- a point-wise factor moves across the inner product -/
theorem ipB_mul (Ks : List String) (N : Nat) (y w u : MVal ℝ) :
    ipB Ks N y (fun k i => w k i * u k i) = ipB Ks N (fun k i => w k i * y k i) u := by
  unfold ipB; exact dsum_congr _ _ _ (fun k i => by ring)

/-- the same under a domain mask -/
theorem ipB_mask_mul (Ks : List String) (N : Nat) (d : Dom) (y w u : MVal ℝ) :
    ipB Ks N y (mask d (fun k i => w k i * u k i)) = ipB Ks N (mask d (fun k i => w k i * y k i)) u := by
  unfold ipB mask; exact dsum_congr _ _ _ (fun k i => by split <;> ring)

theorem ipB_mask (Ks : List String) (N : Nat) (d : Dom) (y u : MVal ℝ) :
    ipB Ks N y (mask d u) = ipB Ks N (mask d y) u := by
  unfold ipB mask; exact dsum_congr _ _ _ (fun k i => by split <;> ring)

theorem ipB_zero_right (Ks : List String) (N : Nat) (y : MVal ℝ) : ipB Ks N y (fun _ _ => 0) = 0 := by
  unfold ipB
  rw [dsum_congr _ _ (fun _ _ => (0 : ℝ)) (fun k i => by ring)]
  unfold dsum
  simp only [rsum_zero']
  induction (box Ks N) with
  | nil => rfl
  | cons a l ih => simp [ih]

theorem ipB_zero_left (Ks : List String) (N : Nat) (h : MVal ℝ) : ipB Ks N (fun _ _ => 0) h = 0 := by
  have := ipB_zero_right Ks N h
  unfold ipB at *
  rw [dsum_congr _ _ (fun k i => h k i * 0) (fun k i => by ring)]; exact this

theorem has_false_of_not_mem (d : Dom) (k : String) (i : Nat) (h : k ∉ d.map (·.1)) : d.has k i = false := by
  unfold Dom.has
  rw [List.any_eq_false]
  intro kn hkn
  have : kn.1 ≠ k := fun e => h (List.mem_map.mpr ⟨kn, hkn, e⟩)
  simp [this]

theorem has_cons (kn : String × Nat) (d : Dom) (k : String) (i : Nat) :
    Dom.has (kn :: d) k i = ((kn.1 == k && decide (i < kn.2)) || Dom.has d k i) := by
  simp [Dom.has]

theorem dsum_cons (kn : String × Nat) (d : Dom) (f : String → Nat → ℝ) :
    dsum (kn :: d) f = rsum kn.2 (f kn.1) + dsum d f := by
  simp [dsum]

/-- summing a masked function over the box = summing over the domain -/
theorem dsum_box_mask (Ks : List String) (N : Nat) (hK : Ks.Nodup) (d : Dom) (hd : DomOK d Ks N)
    (f : String → Nat → ℝ) :
    dsum (box Ks N) (fun k i => if Dom.has d k i then f k i else 0) = dsum d f := by
  induction d with
  | nil =>
    have e : (fun k i => if Dom.has [] k i then f k i else 0) = fun _ _ => (0 : ℝ) := by
      funext k i; simp [Dom.has]
    rw [e]
    have h := ipB_zero_right Ks N (fun _ _ => 0)
    unfold ipB at h
    have e2 : (fun (k : String) (i : Nat) => (0 : ℝ) * 0) = fun _ _ => (0 : ℝ) := by funext k i; ring
    rw [e2] at h
    rw [h]; simp [dsum]
  | cons kn d ih =>
    obtain ⟨hnd, hmem⟩ := hd
    have hnd' : kn.1 ∉ d.map (·.1) ∧ (d.map (·.1)).Nodup := by
      have := hnd; simp only [List.map_cons, List.nodup_cons] at this; exact this
    have hd' : DomOK d Ks N := ⟨hnd'.2, fun x hx => hmem x (List.mem_cons_of_mem _ hx)⟩
    have hkn := hmem kn List.mem_cons_self
    have split : ∀ k i, (if Dom.has (kn :: d) k i then f k i else 0)
        = (if k = kn.1 then (if i < kn.2 then f kn.1 i else 0) else 0) + (if Dom.has d k i then f k i else 0) := by
      intro k i
      rw [has_cons]
      by_cases hk : k = kn.1
      · subst hk
        have hf : Dom.has d kn.1 i = false := has_false_of_not_mem d kn.1 i hnd'.1
        by_cases hi : i < kn.2 <;> simp [hi, hf]
      · have hb : (kn.1 == k) = false := by simp [Ne.symm hk]
        simp [hb, hk]
    rw [dsum_congr _ _ _ split, dsum_add, ih hd', dsum_box_pick Ks N hK kn.1 hkn.1, rsum_ite_lt kn.2 N hkn.2,
      dsum_cons]

/-- adjointness of a weighted full contraction: `⟨y, [i=0] Σ_d w·u⟩ = ⟨bcast d y w, u⟩` -/
theorem contr_adj (Ks : List String) (N : Nat) (hK : Ks.Nodup) (h0 : "" ∈ Ks) (hN : 0 < N) (d : Dom)
    (hd : DomOK d Ks N) (y w u : MVal ℝ) :
    ipB Ks N y (single (fun i => if i = 0 then dsum d (fun k j => w k j * u k j) else 0))
      = ipB Ks N (bcast d y w) u := by
  have hl : ipB Ks N y (single (fun i => if i = 0 then dsum d (fun k j => w k j * u k j) else 0))
      = y "" 0 * dsum d (fun k j => w k j * u k j) := by
    unfold single
    rw [ipB_pick_right Ks N hK "" h0]
    rw [rsum_congr _ _ (fun i => if i = 0 then y "" i * dsum d (fun k j => w k j * u k j) else 0)
      (fun i _ => by split <;> simp)]
    rw [rsum_ite_zero N hN]
  rw [hl]
  have e : ipB Ks N (bcast d y w) u
      = dsum (box Ks N) (fun k i => if Dom.has d k i then y "" 0 * (w k i * u k i) else 0) := by
    simp only [ipB, bcast, mask]
    exact dsum_congr _ _ _ (fun k i => by split <;> ring)
  rw [e, dsum_box_mask Ks N hK d hd, dsum_mul_left]

theorem rsum_eq_sum (n : Nat) (f : Nat → ℝ) : rsum n f = ∑ i ∈ Finset.range n, f i := by
  induction n with
  | zero => simp [rsum]
  | succ n ih => rw [rsum_succ, Finset.sum_range_succ, ih]

/-- rearranging the triple sum of a bilinear map: `⟨y, τ(u', v) + τ(u, v')⟩ = ⟨τᵀ¹(v, y), u'⟩ + ⟨τᵀ²(u, y), v'⟩` -/
theorem bil_adj_algebra (m na nb : Nat) (τ : Nat → Nat → Nat → ℝ) (y u u' v v' : Nat → ℝ) :
    rsum m (fun o => y o * rsum na (fun i => rsum nb (fun j => τ o i j * (u' i * v j + u i * v' j))))
    = rsum na (fun i => rsum m (fun o => rsum nb (fun j => τ o i j * v j * y o)) * u' i)
      + rsum nb (fun j => rsum m (fun o => rsum na (fun i => τ o i j * u i * y o)) * v' j) := by
  simp only [rsum_eq_sum]
  have h1 : ∑ o ∈ Finset.range m, y o * ∑ i ∈ Finset.range na, ∑ j ∈ Finset.range nb, τ o i j * (u' i * v j + u i * v' j)
      = (∑ o ∈ Finset.range m, ∑ i ∈ Finset.range na, ∑ j ∈ Finset.range nb, τ o i j * v j * y o * u' i)
        + ∑ o ∈ Finset.range m, ∑ i ∈ Finset.range na, ∑ j ∈ Finset.range nb, τ o i j * u i * y o * v' j := by
    rw [← Finset.sum_add_distrib]
    refine Finset.sum_congr rfl (fun o _ => ?_)
    rw [Finset.mul_sum, ← Finset.sum_add_distrib]
    refine Finset.sum_congr rfl (fun i _ => ?_)
    rw [Finset.mul_sum, ← Finset.sum_add_distrib]
    refine Finset.sum_congr rfl (fun j _ => ?_)
    ring
  rw [h1]
  congr 1
  · rw [Finset.sum_comm]
    refine Finset.sum_congr rfl (fun i _ => ?_)
    rw [Finset.sum_mul]
    refine Finset.sum_congr rfl (fun o _ => ?_)
    rw [Finset.sum_mul]
  · have h2 : ∀ o, ∑ i ∈ Finset.range na, ∑ j ∈ Finset.range nb, τ o i j * u i * y o * v' j
        = ∑ j ∈ Finset.range nb, ∑ i ∈ Finset.range na, τ o i j * u i * y o * v' j := fun o => Finset.sum_comm
    rw [Finset.sum_congr rfl (fun o _ => h2 o), Finset.sum_comm]
    refine Finset.sum_congr rfl (fun j _ => ?_)
    rw [Finset.sum_mul]
    refine Finset.sum_congr rfl (fun o _ => ?_)
    rw [Finset.sum_mul]

end NiftyVerif.Expr
