/-
  Helper lemmas for C12 over ℝ: `x ** 0.5`, the noise operators derived by `_get_cov_inv_and_std_inv`,
  soft-max normalisation, Jacobians of element-wise maps, model-level matrix algebra.
-/
import NiftyVerif.Lemmas.LikelihoodReCat
import NiftyVerif.Lemmas.TranscReal
import Mathlib.Algebra.BigOperators.Field

namespace NiftyVerif.LikelihoodRe
open Matrix

/-! ### model-level matrix algebra (via Mathlib's `Matrix`) -/
section alg
variable {K : Type} [CommRing K]

theorem mmul_assoc {k l m n : Nat} (A : Fin k → Fin l → K) (B : Fin l → Fin m → K) (C : Fin m → Fin n → K) :
    mmul (mmul A B) C = mmul A (mmul B C) := by
  have h := Matrix.mul_assoc (Matrix.of A) (Matrix.of B) (Matrix.of C)
  rw [← mmul_eq, ← mmul_eq, ← mmul_eq, ← mmul_eq] at h
  exact h

theorem mT_mmul {l m n : Nat} (A : Fin l → Fin m → K) (B : Fin m → Fin n → K) :
    mT (mmul A B) = mmul (mT B) (mT A) := by
  have h := Matrix.transpose_mul (Matrix.of A) (Matrix.of B)
  rw [← mmul_eq, ← mT_eq, ← mT_eq, ← mT_eq, ← mmul_eq] at h
  exact h

omit [CommRing K] in
theorem mT_mT {m n : Nat} (A : Fin m → Fin n → K) : mT (mT A) = A := rfl

end alg

/-! ### `x ** 0.5` -/

theorem pow_half_eq_sqrt (x : ℝ) : Transc.pow x (0.5 : ℝ) = Real.sqrt x := by
  have h : (0.5 : ℝ) = 1 / 2 := by norm_num
  rw [TranscReal.pow_eq, h, Real.sqrt_eq_rpow]

theorem pow_half_mul_self {x : ℝ} (hx : 0 ≤ x) : Transc.pow x (0.5 : ℝ) * Transc.pow x (0.5 : ℝ) = x := by
  rw [pow_half_eq_sqrt]; exact Real.mul_self_sqrt hx

/-! ### the noise operators -/

/-- what the constructor assumes about user-supplied noise operators: a lone `cov_inv` is non-negative, and when both
    are given they are consistent (`cov_inv = std_inv²`; the constructor does not check this) -/
def NoiseOk (cov std : Option ℝ) : Prop :=
  match cov, std with
  | some c, none => 0 ≤ c
  | some c, some s => c = s * s
  | _, _ => True

theorem covStd_sq (cov std : Option ℝ) (h : NoiseOk cov std) :
    (covStd cov std).2 * (covStd cov std).2 = (covStd cov std).1 := by
  cases cov with
  | none =>
    cases std with
    | none => simp [covStd]
    | some s => simp [covStd]
  | some c =>
    cases std with
    | none =>
      have hc : 0 ≤ c := h
      simp only [covStd, mul_one, TranscReal.sqrt_eq]
      exact Real.mul_self_sqrt hc
    | some s =>
      have hc : c = s * s := h
      simp only [covStd]; exact hc.symm

/-! ### soft-max -/

theorem gsum_exp_pos {n : Nat} (grp : Fin n → Nat) (z : Fin n → ℝ) (i : Fin n) :
    0 < gsum grp (fun l => Transc.exp (z l)) i := by
  simp only [gsum, vsum_eq_sum, TranscReal.exp_eq]
  apply Finset.sum_pos'
  · intro j _; split_ifs
    · exact (Real.exp_pos _).le
    · exact le_refl _
  · exact ⟨i, Finset.mem_univ i, by rw [if_pos rfl]; exact Real.exp_pos _⟩

theorem softmax_nonneg {n : Nat} (grp : Fin n → Nat) (z : Fin n → ℝ) (i : Fin n) : 0 ≤ softmax grp z i := by
  unfold softmax
  exact div_nonneg (by rw [TranscReal.exp_eq]; exact (Real.exp_pos _).le) (gsum_exp_pos grp z i).le

theorem gsum_softmax {n : Nat} (grp : Fin n → Nat) (z : Fin n → ℝ) (i : Fin n) :
    gsum grp (softmax grp z) i = 1 := by
  have hD : ∀ j, grp j = grp i →
      gsum grp (fun l => Transc.exp (z l)) j = gsum grp (fun l => Transc.exp (z l)) i := by
    intro j hj; simp only [gsum, hj]
  have hpos := gsum_exp_pos grp z i
  have h1 : gsum grp (softmax grp z) i
      = (∑ j, if grp j = grp i then Transc.exp (z j) else 0) / gsum grp (fun l => Transc.exp (z l)) i := by
    simp only [gsum, vsum_eq_sum]
    rw [Finset.sum_div]
    apply Finset.sum_congr rfl
    intro j _
    by_cases hj : grp j = grp i
    · rw [if_pos hj, if_pos hj]
      have := hD j hj
      simp only [gsum, vsum_eq_sum] at this
      simp only [softmax, gsum, vsum_eq_sum, this]
    · rw [if_neg hj, if_neg hj, zero_div]
  rw [h1]
  have h2 : (∑ j, if grp j = grp i then Transc.exp (z j) else 0) = gsum grp (fun l => Transc.exp (z l)) i := by
    simp only [gsum, vsum_eq_sum]
  rw [h2]; exact div_self hpos.ne'

/-! ### Jacobian of an element-wise map -/

theorem elementwise_jac {n : Nat} (g : Fin n → ℝ → ℝ) (g' : Fin n → ℝ) (y : Fin n → ℝ)
    (hg : ∀ i, HasDerivAt (g i) (g' i) (y i)) (i j : Fin n) :
    HasDerivAt (fun x => g i (Function.update y j x i)) (if i = j then g' i else 0) (y j) := by
  by_cases hij : i = j
  · subst hij
    simp only [Function.update_self, if_true]
    exact hg i
  · simp only [Function.update_of_ne hij, if_neg hij]
    exact hasDerivAt_const _ _

end NiftyVerif.LikelihoodRe
