/-
  Helper lemmas for C11 round 2 (complex models): the real-coordinate matrix (real block, imaginary block) of a
  complex matrix is multiplicative and turns the conjugate transpose into the transpose.
-/
import Mathlib.LinearAlgebra.Matrix.ConjTranspose
import Mathlib.Data.Matrix.Block
import Mathlib.Data.Complex.BigOperators
import Mathlib.Data.Complex.Basic

namespace NiftyVerif.Likelihood
open Matrix

variable {m n k : Type*}

/-- real-coordinate matrix (real block, imaginary block) of a complex-linear map -/
def c2r (A : Matrix m n ℂ) : Matrix (m ⊕ m) (n ⊕ n) ℝ :=
  fromBlocks (A.map Complex.re) (-(A.map Complex.im)) (A.map Complex.im) (A.map Complex.re)

theorem c2r_mul [Fintype k] (A : Matrix m k ℂ) (B : Matrix k n ℂ) : c2r (A * B) = c2r A * c2r B := by
  unfold c2r
  rw [fromBlocks_multiply]
  congr 1 <;> ext i j <;>
    simp [Matrix.mul_apply, Complex.re_sum, Complex.im_sum, Complex.mul_re, Complex.mul_im,
      Finset.sum_add_distrib, sub_eq_add_neg, add_comm]

set_option linter.unnecessarySeqFocus false in
theorem c2r_conjTranspose (A : Matrix m n ℂ) : c2r Aᴴ = (c2r A)ᵀ := by
  unfold c2r
  rw [fromBlocks_transpose]
  congr 1 <;> (ext i j; simp [Matrix.conjTranspose_apply])

end NiftyVerif.Likelihood
