/-
  Small lemmas about the history of energies shown to the controller (used by the end-to-end theorems of Props/C14.lean).
-/
import NiftyVerif.Lemmas.CgClassic

set_option linter.unusedSectionVars false

namespace NiftyVerif.CgClassic
open NiftyVerif.Ctrl

variable {K V : Type} [Field K] [LinearOrder K] [IsStrictOrderedRing K] [AddCommGroup V] [Module K V]

/-- the energy the controller remembers from the previous call is the value stored in the previous energy object -/
theorem getLast_obs_value (S : Sys V K) (l : List (QE V K)) (h : l ≠ []) :
    ((l.map (obs S)).getLast (by simpa using h)).value = (l.getLast h).value := by
  rw [List.getLast_map]; rfl

/-- ... which is the true energy of its position when all objects are consistent -/
theorem getLast_obs_trueValue (S : Sys V K) (E : QE V K) (os : List (QE V K)) (hE : E.Consistent S)
    (hos : ∀ E' ∈ os, E'.Consistent S) :
    ((obs S E :: os.map (obs S)).getLast (by simp)).value = trueValue S ((E :: os).getLast (by simp)).pos := by
  have h1 := getLast_obs_value S (E :: os) (by simp)
  have hmem : (E :: os).getLast (by simp) ∈ E :: os := List.getLast_mem _
  have hc : ((E :: os).getLast (by simp)).Consistent S := by
    rcases List.mem_cons.1 hmem with h0 | h0
    · rw [h0]; exact hE
    · exact hos _ h0
  rw [← hc.2]
  exact h1

/-- the stored values of consistent objects are the true energies of their positions -/
theorem map_value_consistent (S : Sys V K) (l : List (QE V K)) (hl : ∀ E' ∈ l, E'.Consistent S) :
    (l.map (obs S)).map (·.value) = l.map fun E' => trueValue S E'.pos := by
  rw [List.map_map]
  apply List.map_congr_left
  intro E' h'
  exact (hl E' h').2

end NiftyVerif.CgClassic
