/-
  Helper lemmas for C12, NDVariableCovarianceGaussian: the matrix-block maps of the model as Mathlib matrix
  expressions, Frobenius pairing as a trace.
-/
import NiftyVerif.Lemmas.LikelihoodReReal
import Mathlib.LinearAlgebra.Matrix.Trace

namespace NiftyVerif.LikelihoodRe
open Matrix

variable {d : Nat}

theorem ndLmat_eq (Si T : Fin d → Fin d → ℝ) :
    Matrix.of (ndLmat Si T) = (Real.sqrt 2)⁻¹ • (Matrix.of Si * Matrix.of T * Matrix.of Si) := by
  ext i j
  simp only [Matrix.of_apply, ndLmat, Matrix.smul_apply, smul_eq_mul, TranscReal.sqrt_eq]
  have h : Matrix.of (mmul (mmul Si T) Si) = Matrix.of Si * Matrix.of T * Matrix.of Si := by
    rw [mmul_eq, mmul_eq]
  have h2 := congrFun (congrFun h i) j
  simp only [Matrix.of_apply] at h2
  rw [h2, div_eq_inv_mul]

theorem ndMmat_eq (Ai T : Fin d → Fin d → ℝ) :
    Matrix.of (ndMmat Ai T) = (1 / 2 : ℝ) • (Matrix.of Ai * Matrix.of T * Matrix.of Ai) := by
  ext i j
  simp only [Matrix.of_apply, ndMmat, Matrix.smul_apply, smul_eq_mul]
  have h : Matrix.of (mmul (mmul Ai T) Ai) = Matrix.of Ai * Matrix.of T * Matrix.of Ai := by
    rw [mmul_eq, mmul_eq]
  have h2 := congrFun (congrFun h i) j
  simp only [Matrix.of_apply] at h2
  rw [h2]; norm_num

/-- Frobenius pairing `Σ_ij X_ij U_ij = tr(Xᵀ U)` -/
theorem frob_eq_trace (X U : Matrix (Fin d) (Fin d) ℝ) :
    ∑ i, ∑ j, X i j * U i j = Matrix.trace (Xᵀ * U) := by
  simp only [Matrix.trace, Matrix.diag_apply, Matrix.mul_apply, Matrix.transpose_apply]
  rw [Finset.sum_comm]

theorem ndMean_eq (B : Fin d → Fin d → ℝ) (t : Fin d → ℝ) :
    (fun i => vsum d (fun j => B i j * t j)) = Matrix.mulVec (Matrix.of B) t := by
  funext i; simp [vsum_eq_sum, Matrix.mulVec, dotProduct]

end NiftyVerif.LikelihoodRe
