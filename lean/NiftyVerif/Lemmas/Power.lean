/-  Lemmas/Power.lean — lemmas for Model/Power.lean (C10). -/
import NiftyVerif.Model.Power
import Mathlib.Tactic.Ring
import Mathlib.Tactic.Linarith
import Mathlib.Tactic.FieldSimp
import Mathlib.Algebra.Order.Field.Basic
import Mathlib.Algebra.BigOperators.Group.List.Basic
namespace NiftyVerif.Power
open NiftyVerif.Domains

section field
variable {K : Type} [Field K]

theorem foldl_add' (l : List K) (a : K) : l.foldl (· + ·) a = a + l.sum := by
  induction l generalizing a with
  | nil => simp
  | cons x xs ih => simp [ih, add_assoc]

theorem sumWhere_eq (b : Nat) (pindex : List Nat) (f : List K) :
    sumWhere b pindex f = (((List.zip pindex f).filter fun p => p.1 == b).map (·.2)).sum := by
  unfold sumWhere
  generalize (List.zip pindex f).filter (fun p => p.1 == b) = l
  have : ∀ (l : List (Nat × K)) (a : K), l.foldl (fun acc p => acc + p.2) a = a + (l.map (·.2)).sum := by
    intro l
    induction l with
    | nil => simp
    | cons x xs ih => intro a; simp [ih, add_assoc]
  rw [this, zero_add]

theorem sumWhere_nil (b : Nat) : sumWhere b [] ([] : List K) = 0 := by simp [sumWhere]

theorem sumWhere_cons (b i : Nat) (is_ : List Nat) (x : K) (xs : List K) :
    sumWhere b (i :: is_) (x :: xs) = (if i = b then x else 0) + sumWhere b is_ xs := by
  rw [sumWhere_eq, sumWhere_eq]
  simp only [List.zip_cons_cons, List.filter_cons]
  by_cases h : i = b
  · simp [h]
  · simp [h]

/-- **distribute_spec**: every mode gets the value of its bin -/
theorem distribute_spec (pindex : List Nat) (s : List K) (p : Nat) (hp : p < pindex.length) :
    (distribute pindex s).getD p 0 = s.getD (pindex.getD p 0) 0 := by
  unfold distribute
  simp [List.getD_eq_getElem?_getD, List.getElem?_map, hp]

/-- **distribute_adj_spec**: the adjoint sums over each bin -/
theorem distribute_adj_spec (nbin : Nat) (pindex : List Nat) (f : List K) (b : Nat) (hb : b < nbin) :
    (distributeAdj nbin pindex f).getD b 0 = (((List.zip pindex f).filter fun p => p.1 == b).map (·.2)).sum := by
  unfold distributeAdj
  simp [List.getD_eq_getElem?_getD, List.getElem?_map, hb, sumWhere_eq]

theorem sum_ite_mul (n i : Nat) (s : List K) (x : K) (hi : i < n) :
    ((List.range n).map fun b => s.getD b 0 * (if i = b then x else 0)).sum = s.getD i 0 * x := by
  induction n with
  | zero => omega
  | succ k ih =>
    rw [List.range_succ, List.map_append, List.sum_append]
    simp only [List.map_cons, List.map_nil, List.sum_cons, List.sum_nil, add_zero]
    by_cases h : i = k
    · subst h
      have : ((List.range i).map fun b => s.getD b 0 * (if i = b then x else 0)).sum = 0 := by
        apply List.sum_eq_zero
        intro y hy
        rw [List.mem_map] at hy
        obtain ⟨b, hb, rfl⟩ := hy
        have : i ≠ b := by rw [List.mem_range] at hb; omega
        simp [this]
      rw [this]; simp
    · have hk : i < k := by omega
      rw [ih hk]; simp [h]

theorem sum_zipWith_add (l1 l2 : List K) (h : l1.length = l2.length) : (List.zipWith (· + ·) l1 l2).sum = l1.sum + l2.sum := by
  induction l1 generalizing l2 with
  | nil => cases l2 <;> simp_all
  | cons a as ih =>
    cases l2 with
    | nil => simp at h
    | cons b bs => simp [ih bs (by simpa using h)]; ring

/-- adjointness: `⟨distribute s, f⟩ = ⟨s, distributeAdj f⟩` (the operator pair is a genuine adjoint pair) -/
theorem distribute_adjoint (pindex : List Nat) (s f : List K) (hlen : pindex.length = f.length)
    (hb : ∀ i ∈ pindex, i < s.length) :
    (List.zipWith (· * ·) (distribute pindex s) f).sum =
      (List.zipWith (· * ·) s (distributeAdj s.length pindex f)).sum := by
  have rhs : ∀ (pindex : List Nat) (f : List K),
      (List.zipWith (· * ·) s (distributeAdj s.length pindex f)).sum =
        ((List.range s.length).map fun b => s.getD b 0 * sumWhere b pindex f).sum := by
    intro pindex f
    unfold distributeAdj
    congr 1
    apply List.ext_getElem
    · simp
    · intro n h1 h2
      simp at h1
      simp [List.getD_eq_getElem?_getD, h1]
  rw [rhs]
  induction pindex generalizing f with
  | nil =>
    cases f with
    | nil => simp [distribute, sumWhere_nil]
    | cons _ _ => simp at hlen
  | cons i is_ ih =>
    cases f with
    | nil => simp at hlen
    | cons x xs =>
      have hi := hb i List.mem_cons_self
      have ih' := ih xs (by simpa using hlen) (fun j hj => hb j (List.mem_cons_of_mem _ hj))
      simp only [distribute, List.map_cons, List.zipWith_cons_cons, List.sum_cons] at ih' ⊢
      rw [ih']
      simp only [sumWhere_cons, mul_add]
      rw [← sum_ite_mul s.length i s x hi, ← sum_zipWith_add _ _ (by simp)]
      congr 1
      rw [List.zipWith_map_left, List.zipWith_map_right]
      simp [List.zipWith_self]





theorem sumWhere_distributed (b : Nat) (pindex : List Nat) (s : List K) (dvol : K) :
    sumWhere b pindex ((distribute pindex s).map fun x => x * dvol) = (pindex.count b : K) * (s.getD b 0 * dvol) := by
  induction pindex with
  | nil => simp [distribute, sumWhere_nil]
  | cons i is_ ih =>
    simp only [distribute, List.map_cons] at ih ⊢
    rw [sumWhere_cons, ih, List.count_cons]
    by_cases h : i = b
    · subst h; simp; ring
    · simp [h]

/-- **analyze_distributed**: analysing a field whose squared modulus is a distributed spectrum returns exactly that
    spectrum (every bin non-empty, `dvol ≠ 0`) -/
theorem analyze_distributed (pindex : List Nat) (s : List K) (dvol : K) (hd : dvol ≠ 0)
    (hr : ∀ b, b < s.length → 0 < pindex.count b) [CharZero K] :
    analyze pindex (bincount s.length pindex) dvol (distribute pindex s) = s := by
  unfold analyze distributeAdj bincount
  simp only [List.length_map, List.length_range]
  apply List.ext_getElem
  · simp
  · intro n h1 h2
    simp only [List.getElem_zipWith, List.getElem_map, List.getElem_range]
    rw [sumWhere_distributed]
    have hn : n < s.length := h2
    have hc : ((pindex.count n : Nat) : K) ≠ 0 := by
      have := hr n hn
      exact_mod_cast (by omega : pindex.count n ≠ 0)
    rw [List.getD_eq_getElem?_getD, List.getElem?_eq_getElem hn]
    simp only [Option.getD_some]
    field_simp

theorem sumWhere_add (b : Nat) (pindex : List Nat) (f g : List K) (h1 : pindex.length = f.length) (h2 : f.length = g.length) :
    sumWhere b pindex (List.zipWith (· + ·) f g) = sumWhere b pindex f + sumWhere b pindex g := by
  induction pindex generalizing f g with
  | nil =>
    cases f <;> cases g <;> simp_all [sumWhere_nil]
  | cons i is_ ih =>
    cases f with
    | nil => simp at h1
    | cons x xs =>
      cases g with
      | nil => simp at h2
      | cons y ys =>
        simp only [List.zipWith_cons_cons, sumWhere_cons]
        rw [ih xs ys (by simpa using h1) (by simpa using h2)]
        by_cases h : i = b <;> simp [h] <;> ring

/-- the analysis is additive: the spectrum of `re² + im²` is the sum of the spectra of the parts (**analyze_phase**) -/
theorem analyze_add (pindex : List Nat) (rho : List Nat) (dvol : K) (f g : List K)
    (h1 : pindex.length = f.length) (h2 : f.length = g.length) :
    analyze pindex rho dvol (List.zipWith (· + ·) f g) =
      List.zipWith (· + ·) (analyze pindex rho dvol f) (analyze pindex rho dvol g) := by
  unfold analyze distributeAdj
  have e : (List.zipWith (· + ·) f g).map (fun x => x * dvol) =
      List.zipWith (· + ·) (f.map fun x => x * dvol) (g.map fun x => x * dvol) := by
    rw [List.map_zipWith, List.zipWith_map_left, List.zipWith_map_right]
    congr 1; funext a b; ring
  rw [e]
  have e2 : ∀ b, sumWhere b pindex (List.zipWith (· + ·) (f.map fun x => x * dvol) (g.map fun x => x * dvol)) =
      sumWhere b pindex (f.map fun x => x * dvol) + sumWhere b pindex (g.map fun x => x * dvol) :=
    fun b => sumWhere_add b pindex _ _ (by simpa using h1) (by simpa using h2)
  simp only [e2]
  apply List.ext_getElem
  · simp
  · intro n hn1 hn2
    simp only [List.getElem_zipWith, List.getElem_map, List.getElem_range]
    ring

/-- **power_operator_diag**: the power operator multiplies mode `p` by the spectrum value of its bin -/
theorem power_operator_diag (pindex : List Nat) (s x : List K) (p : Nat) (hp : p < pindex.length) (hx : p < x.length) :
    (powerOperator pindex s x).getD p 0 = s.getD (pindex.getD p 0) 0 * x.getD p 0 := by
  unfold powerOperator distribute
  simp [List.getD_eq_getElem?_getD, hp, hx]

end field

end NiftyVerif.Power
