/-
  C16 — what `_quadmin` / `_cubicmin` compute (helper lemmas for Props/C16.lean): the formulas transcribed in
  Model/LineSearch.lean (`quadmin`, `cubicAB`) give the interpolating quadratic / cubic, and the step they return is a
  stationary point of it. Pure field algebra, any field of characteristic ≠ 2, 3 (stated for ordered fields).
-/
import NiftyVerif.Model.LineSearch
import Mathlib.Algebra.Order.Field.Basic
import Mathlib.Tactic.FieldSimp
import Mathlib.Tactic.Ring
import Mathlib.Tactic.Linarith

set_option linter.unusedSectionVars false
set_option linter.unusedVariables false

namespace NiftyVerif.LineSearch

variable {K : Type} [Field K] [LinearOrder K] [IsStrictOrderedRing K]

/-- the quadratic `_quadmin` fits: value `fa` and slope `fpa` at `a`, curvature coefficient `B` -/
def quadPoly (a fa fpa B x : K) : K := fa + fpa * (x - a) + B * ((x - a) * (x - a))

/-- `_quadmin`: if it returns `q`, then with `B = (fb − fa − fpa·db)/db²` the quadratic interpolates `(b, fb)` and
    its derivative `fpa + 2B(x − a)` vanishes at `q` -/
theorem quadmin_spec (a fa fpa b fb q : K) (h : quadmin a fa fpa b fb = some q) :
    ∃ B : K, quadPoly a fa fpa B a = fa ∧ quadPoly a fa fpa B b = fb ∧ fpa + (B + B) * (q - a) = 0 := by
  unfold quadmin at h
  simp only at h
  split at h
  · cases h
  · rename_i hdb
    split at h
    · cases h
    · rename_i hB
      have hba : b - a ≠ 0 := fun h0 => hdb (by rw [h0]; ring)
      generalize hBv : (fb - fa - fpa * (b - a)) / ((b - a) * (b - a)) = Bv at h hB
      refine ⟨Bv, ?_, ?_, ?_⟩
      · simp [quadPoly]
      · unfold quadPoly
        rw [← hBv]
        field_simp
        ring
      · have hq : q = a - fpa / (Bv + Bv) := by
          injection h with h'; exact h'.symm
        have hB' : Bv + Bv ≠ 0 := hB
        have hb0 : Bv ≠ 0 := fun h0 => hB' (by rw [h0]; ring)
        have e : (Bv + Bv) * (q - a) = -fpa := by
          rw [hq]
          have e2 : a - fpa / (Bv + Bv) - a = -(fpa / (Bv + Bv)) := by ring
          rw [e2, mul_neg, mul_div_cancel₀ _ hB']
        rw [e]; ring

/-- the cubic `_cubicmin` fits, in `t = x − a` -/
def cubicPoly (fa C B A t : K) : K := fa + C * t + B * (t * t) + A * (t * t * t)

/-- `_cubicmin`'s coefficients: the cubic with value `fa`, slope `fpa` at `t = 0` passes through `(b, fb)` and `(c, fc)` -/
theorem cubicAB_interpolates (a fa fpa b fb cc fc A B : K) (h : cubicAB a fa fpa b fb cc fc = some (A, B)) :
    cubicPoly fa fpa B A (b - a) = fb ∧ cubicPoly fa fpa B A (cc - a) = fc := by
  unfold cubicAB at h
  simp only at h
  split at h
  · cases h
  · rename_i hden
    injection h with h'
    injection h' with hA hB
    have hdb : b - a ≠ 0 := by
      intro h0; apply hden; rw [h0]; ring
    have hdc : cc - a ≠ 0 := by
      intro h0; apply hden; rw [h0]; ring
    have hdd : (b - a) - (cc - a) ≠ 0 := by
      intro h0; apply hden; rw [h0]; ring
    constructor
    · rw [← hA, ← hB]
      unfold cubicPoly
      field_simp
      ring
    · rw [← hA, ← hB]
      unfold cubicPoly
      field_simp
      ring

/-- the identity behind the trace check: `3A · p'(t) = (3At + B)² − (B² − 3AC)`; hence a `t` with
    `(3At + B)² = B² − 3AC` — i.e. `t = (−B ± sqrt(B² − 3AC))/(3A)`, which is what `_cubicmin` returns — is a stationary
    point of the interpolating cubic, and conversely `p'(t) = 0` pins `3At + B` to a square root of the radical -/
theorem cubic_stationary_iff (A B C t : K) (hA : A ≠ 0) :
    (3 * A * t * t + 2 * B * t + C = 0) ↔ (3 * A * t + B) * (3 * A * t + B) = B * B - 3 * A * C := by
  constructor
  · intro h
    have : (3 * A * t + B) * (3 * A * t + B) - (B * B - 3 * A * C) = 3 * A * (3 * A * t * t + 2 * B * t + C) := by ring
    rw [h] at this
    linarith
  · intro h
    have h3 : (3 : K) * A ≠ 0 := mul_ne_zero (by norm_num) hA
    have : 3 * A * (3 * A * t * t + 2 * B * t + C) = 0 := by
      have e : 3 * A * (3 * A * t * t + 2 * B * t + C) =
          (3 * A * t + B) * (3 * A * t + B) - (B * B - 3 * A * C) := by ring
      rw [e, h]; ring
    rcases mul_eq_zero.mp this with h0 | h0
    · exact absurd h0 h3
    · exact h0

/-- derivative of the cubic in `t` (as a polynomial identity): `p(t + e) − p(t) = p'(t)·e + O(e²)` with `p'` as used above -/
theorem cubicPoly_deriv (fa C B A t e : K) :
    cubicPoly fa C B A (t + e) - cubicPoly fa C B A t =
      (3 * A * t * t + 2 * B * t + C) * e + (B + 3 * A * t) * (e * e) + A * (e * e * e) := by
  unfold cubicPoly; ring

end NiftyVerif.LineSearch
