/-
  Program equivalence `_static_cg` = `_cg` (repaired code): step simulation and loop induction.
-/
import NiftyVerif.Model.CgRe
import Mathlib.Algebra.Module.Basic
import Mathlib.Algebra.Order.Field.Basic
import Mathlib.Tactic.Ring
import Mathlib.Tactic.Linarith
import Mathlib.Tactic.SplitIfs

namespace NiftyVerif.CgRe
set_option linter.unusedSectionVars false
set_option linter.unusedSimpArgs false

variable {K V : Type} [Field K] [LinearOrder K] [IsStrictOrderedRing K] [AddCommGroup V] [Module K V]
variable (c : Cfg K) (ip : V → V → K) (nrm : V → K) (mat : V → V) (j : V)

theorem staticLoop_done (f : Nat) (v : SSt K V) (h : ¬ v.info < -1) : staticLoop c ip nrm mat j f v = v := by
  cases f <;> simp [staticLoop, h]

/-- the static state that corresponds to the eager loop state `s` at the start of iteration `i` -/
def sOf (s : St K V) (i : Nat) : SSt K V := ⟨-2, s.pos, s.r, s.d, i - 1, s.gamma, s.energy⟩

/-- the `info` bookkeeping of the compiled step, started from "undecided" (−2), as a decision list:
    exactly the order of the `break`s of the eager loop -/
theorem staticInfo_undecided (raise : Bool) (i mi ma : Nat) (t ra nb ei ad : Bool) :
    staticInfo raise i mi ma (-2) t ra nb ei ad =
      if t then 0 else if ra && nb && decide (mi ≤ i) then 0
      else if ei then (if raise then -1 else (i : Int))
      else if ad && decide (mi ≤ i) then 0 else if decide (ma ≤ i) then (i : Int) else -2 := by
  have hiI : ¬ ((i : Int) < -1) := by omega
  unfold staticInfo
  generalize decide (mi ≤ i) = b1
  generalize decide (ma ≤ i) = b2
  cases t <;> cases ra <;> cases nb <;> cases ei <;> cases ad <;> cases b1 <;> cases b2 <;> cases raise <;>
    simp [hiI]

/-- once `info ≥ 0` or `info = −1` was set by the curvature test, nothing changes it any more -/
theorem staticInfo_decided (raise : Bool) (i mi ma : Nat) (info1 : Int) (h : info1 = 0 ∨ info1 = -1)
    (t ra nb ei ad : Bool) : staticInfo raise i mi ma info1 t ra nb ei ad = info1 := by
  unfold staticInfo
  generalize decide (mi ≤ i) = b1
  generalize decide (ma ≤ i) = b2
  rcases h with h | h <;> subst h <;>
    cases t <;> cases ra <;> cases nb <;> cases ei <;> cases ad <;> cases b1 <;> cases b2 <;> cases raise <;>
    simp

/-- one step of the compiled loop simulates one iteration of the eager loop -/
theorem step_sim (i : Nat) (hi : 1 ≤ i) (s : St K V) :
    match eagerStep c ip nrm mat j i s with
    | .stop (.ok res) => (staticStep c ip nrm mat j (sOf s i)).obs = res.obs ∧ 0 ≤ res.info
    | .stop (.error _) => (staticStep c ip nrm mat j (sOf s i)).info = -1
    | .next s' => staticStep c ip nrm mat j (sOf s i)
        = { sOf s' (i + 1) with info := if maxiterEff c ≤ i then (i : Int) else -2 } := by
  have hi1 : i - 1 + 1 = i := by omega
  have hiI : ¬ ((i : Int) < -1) := by omega
  unfold eagerStep
  simp only []
  by_cases h0 : ip s.d (mat s.d) = 0
  · have hle : ip s.d (mat s.d) ≤ 0 := le_of_eq h0
    cases hr : c.raiseNPD <;>
      simp [staticStep, sOf, SSt.obs, Res.obs, hi1, h0, hr, staticInfo1, staticInfo_decided]
  · by_cases hn : ip s.d (mat s.d) < 0
    · have hle : ip s.d (mat s.d) ≤ 0 := le_of_lt hn
      cases hr : c.raiseNPD
      · by_cases h1 : 1 < i
        · have h1' : ¬ i ≤ 1 := by omega
          simp [staticStep, sOf, SSt.obs, Res.obs, hi1, h0, hn, hle, hr, h1, h1', staticInfo1, staticInfo_decided]
        · have h1' : i ≤ 1 := by omega
          simp [staticStep, sOf, SSt.obs, Res.obs, hi1, h0, hn, hle, hr, h1, h1', staticInfo1, staticInfo_decided]
          omega
      · simp [staticStep, sOf, SSt.obs, Res.obs, hi1, h0, hn, hle, hr, staticInfo1, staticInfo_decided]
    · have hle : ¬ ip s.d (mat s.d) ≤ 0 := fun h => by
        rcases lt_or_eq_of_le h with h | h
        · exact hn h
        · exact h0 h
      have hnp : decide (ip s.d (mat s.d) ≤ 0) = false := decide_eq_false hle
      have hnn : decide (ip s.d (mat s.d) < 0) = false := decide_eq_false hn
      simp only [h0, hn, if_false]
      by_cases hT : i % c.nreset = 0 <;> simp only [hT, if_true, if_false] <;>
        split_ifs with hR hE hRz hA hB <;>
        simp [staticStep, sOf, SSt.obs, Res.obs, hi1, hnp, hnn, staticInfo1, staticInfo_undecided, hT, *] <;>
        first
          | done
          | (intro hra hnl hmi; exact absurd ⟨hra, hnl, hmi⟩ hRz)
          | (intro hra hnl; by_contra hlt; exact hRz ⟨hra, hnl, Nat.le_of_not_lt hlt⟩)

/-- loop induction: the compiled `while_loop` started in the state corresponding to the eager loop state
    produces the eager result (or `info = −1` where the eager loop raises) -/
theorem loop_sim : ∀ (fuel i : Nat) (s : St K V) (fs : Nat), 1 ≤ i → 1 ≤ fuel → fuel ≤ fs →
    i + fuel = maxiterEff c + 1 →
    match eagerLoop c ip nrm mat j fuel i s with
    | .ok res => (staticLoop c ip nrm mat j fs (sOf s i)).obs = res.obs
    | .error _ => (staticLoop c ip nrm mat j fs (sOf s i)).info = -1 := by
  intro fuel
  induction fuel with
  | zero => intro i s fs _ h; omega
  | succ fuel ih =>
    intro i s fs hi _ hfs hsum
    obtain ⟨fs', rfl⟩ : ∃ k, fs = k + 1 := ⟨fs - 1, by omega⟩
    have hstart : (sOf s i).info < -1 := by simp [sOf]
    have hstep := step_sim c ip nrm mat j i hi s
    simp only [staticLoop, hstart, if_true, eagerLoop]
    cases hE : eagerStep c ip nrm mat j i s with
    | stop r =>
      rw [hE] at hstep
      cases r with
      | ok res =>
        simp only at hstep ⊢
        have hinfo : (staticStep c ip nrm mat j (sOf s i)).info = res.info := by
          have := congrArg Obs.info hstep.1; simpa [SSt.obs, Res.obs] using this
        rw [staticLoop_done _ _ _ _ _ _ _ (by rw [hinfo]; omega)]
        exact hstep.1
      | error e =>
        simp only at hstep ⊢
        rw [staticLoop_done _ _ _ _ _ _ _ (by rw [hstep]; omega)]
        exact hstep
    | next s' =>
      rw [hE] at hstep
      simp only at hstep ⊢
      rw [hstep]
      rcases Nat.eq_zero_or_pos fuel with h0 | hpos
      · subst h0
        have hm : maxiterEff c ≤ i := by omega
        simp only [hm, if_true, eagerLoop]
        rw [staticLoop_done _ _ _ _ _ _ _ (by simp)]
        simp [SSt.obs, Res.obs, sOf]
      · have hm : ¬ maxiterEff c ≤ i := by omega
        simp only [hm, if_false]
        have := ih (i + 1) s' fs' (by omega) hpos (by omega) (by omega)
        simpa [sOf] using this

theorem staticStep_it (v : SSt K V) : (staticStep c ip nrm mat j v).it = v.it + 1 := rfl

/-- results of the eager loop: `info ≥ 0` and the iteration count stays within the budget -/
theorem eagerLoop_range : ∀ (fuel i : Nat) (s : St K V), 1 ≤ i → ∀ res,
    eagerLoop c ip nrm mat j fuel i s = .ok res → 0 ≤ res.info ∧ i - 1 ≤ res.nit ∧ res.nit ≤ i + fuel - 1 := by
  intro fuel
  induction fuel with
  | zero =>
    intro i s hi res hres
    simp only [eagerLoop, Except.ok.injEq] at hres
    subst hres
    simp
  | succ fuel ih =>
    intro i s hi res hres
    have hstep := step_sim c ip nrm mat j i hi s
    rw [eagerLoop] at hres
    cases hE : eagerStep c ip nrm mat j i s with
    | stop r =>
      rw [hE] at hstep hres
      simp only at hres
      subst hres
      simp only at hstep
      have hnit : res.nit = i := by
        have := congrArg Obs.nit hstep.1
        simp only [SSt.obs, Res.obs, staticStep_it, sOf] at this
        omega
      exact ⟨hstep.2, by omega, by omega⟩
    | next s' =>
      rw [hE] at hres
      simp only at hres
      have := ih (i + 1) s' (by omega) res hres
      exact ⟨this.1, by omega, by omega⟩

/-- `_static_cg` returns what `_cg` returns (and `info = −1` exactly where `_cg` raises), provided at least
    one iteration is allowed or the start is already a solution -/
theorem static_sim (x0 : Option V) (hG : 0 < maxiterEff c ∨ (init ip mat j x0).gamma = 0) :
    match cgEager c ip nrm mat j x0 with
    | .ok res => (cgStatic c ip nrm mat j x0).obs = res.obs
    | .error _ => (cgStatic c ip nrm mat j x0).info = -1 := by
  unfold cgEager cgStatic staticInit
  simp only []
  by_cases hz : (init ip mat j x0).gamma = 0
  · simp only [hz, if_true]
    rw [staticLoop_done _ _ _ _ _ _ _ (by simp)]
    simp [SSt.obs, Res.obs]
  · have hpos : 0 < maxiterEff c := by rcases hG with h | h; exact h; exact absurd h hz
    simp only [hz, if_false]
    exact loop_sim c ip nrm mat j (maxiterEff c) 1 (init ip mat j x0) (maxiterEff c + 1) (le_refl _) hpos
      (by omega) (by omega)

/-- the compiled loop always terminates within `maxiter + 1` steps of fuel: the returned `info` is decided -/
theorem static_decided (x0 : Option V) : ¬ (cgStatic c ip nrm mat j x0).info < -1 := by
  by_cases hG : 0 < maxiterEff c ∨ (init ip mat j x0).gamma = 0
  · have h := static_sim c ip nrm mat j x0 hG
    cases hE : cgEager c ip nrm mat j x0 with
    | ok res =>
      rw [hE] at h
      simp only at h
      have hi : (cgStatic c ip nrm mat j x0).info = res.info := by
        have := congrArg Obs.info h; simpa [SSt.obs, Res.obs] using this
      have hr : 0 ≤ res.info := by
        unfold cgEager at hE
        simp only at hE
        split_ifs at hE with hz
        · simp only [Except.ok.injEq] at hE; subst hE; simp
        · exact (eagerLoop_range c ip nrm mat j _ 1 _ (le_refl _) res hE).1
      omega
    | error e =>
      rw [hE] at h
      simp only at h
      omega
  · have hm : maxiterEff c = 0 := by omega
    have hz : ¬ (init ip mat j x0).gamma = 0 := fun h => hG (Or.inr h)
    unfold cgStatic staticInit
    simp only [hm, hz, if_false, staticLoop]
    have hstep := step_sim c ip nrm mat j 1 (le_refl _) (init ip mat j x0)
    have hs : sOf (init ip mat j x0) 1 = ⟨-2, (init ip mat j x0).pos, (init ip mat j x0).r,
        (init ip mat j x0).d, 0, (init ip mat j x0).gamma, (init ip mat j x0).energy⟩ := rfl
    rw [← hs]
    simp only [show ((-2 : Int) < -1) from by omega, if_true, sOf]
    cases hE : eagerStep c ip nrm mat j 1 (init ip mat j x0) with
    | stop r =>
      rw [hE] at hstep
      cases r with
      | ok res =>
        simp only at hstep
        have hi : (staticStep c ip nrm mat j (sOf (init ip mat j x0) 1)).info = res.info := by
          have := congrArg Obs.info hstep.1; simpa [SSt.obs, Res.obs] using this
        have := hstep.2
        simp only [sOf] at hi
        omega
      | error e =>
        simp only at hstep
        simp only [sOf] at hstep
        omega
    | next s' =>
      rw [hE] at hstep
      simp only at hstep
      simp only [sOf] at hstep
      rw [hstep]
      simp [hm]

end NiftyVerif.CgRe
