/-
  C16 — the VL-BFGS coefficient recursion simulates the L-BFGS two-loop recursion (helper lemmas for Props/C16.lean).
  Everything is over an arbitrary field `K`, an arbitrary `K`-module `V` and an arbitrary symmetric bilinear `ip`.
-/
import NiftyVerif.Model.Lbfgs
import Mathlib.Algebra.Module.Basic
import Mathlib.Algebra.Field.Basic
import Mathlib.Tactic.Module
import Mathlib.Tactic.Ring
import Mathlib.Tactic.Linarith

set_option linter.unusedSectionVars false
set_option linter.unusedVariables false

namespace NiftyVerif.Lbfgs

variable {K V : Type} [Field K] [AddCommGroup V] [Module K V]

/-- `s_vdot` on real fields: symmetric and linear in the first argument -/
structure IsIP (ip : V → V → K) : Prop where
  symm : ∀ u v, ip u v = ip v u
  add_left : ∀ u v w, ip (u + v) w = ip u w + ip v w
  smul_left : ∀ (c : K) u v, ip (c • u) v = c * ip u v

/-! ### linear combinations `Σ δ_l • b_l` -/

theorem sumK_congr {n : Nat} {f g : Nat → K} (h : ∀ l, l < n → f l = g l) : sumK n f = sumK n g := by
  induction n with
  | zero => rfl
  | succ n ih =>
    simp only [sumK]
    rw [ih (fun l hl => h l (Nat.lt_succ_of_lt hl)), h n (Nat.lt_succ_self n)]

/-- Python's `sum([delta[l]*b_dot_b[l, j] ...])` is the inner product with the linear combination -/
theorem sumK_ip {ip : V → V → K} (hip : IsIP ip) (δ : Nat → K) (b : Nat → V) (v : V) (n : Nat) :
    sumK (n + 1) (fun l => δ l * ip (b l) v) = ip (sumV n (fun l => δ l • b l)) v := by
  induction n with
  | zero => simp [sumK, sumV, hip.smul_left]
  | succ n ih =>
    rw [sumK, ih, sumV, hip.add_left, hip.smul_left]

theorem upd_same {α : Type} (f : Nat → α) (i : Nat) (v : α) : upd f i v i = v := by simp [upd]
theorem upd_other {α : Type} (f : Nat → α) {i j : Nat} (v : α) (h : j ≠ i) : upd f i v j = f j := by simp [upd, h]

/-- `delta[i] = x` changes the combination by `(x − delta[i]) • b_i` -/
theorem sumV_upd (δ : Nat → K) (b : Nat → V) (i : Nat) (x : K) (n : Nat) (hi : i ≤ n) :
    sumV n (fun l => upd δ i x l • b l) = sumV n (fun l => δ l • b l) + (x - δ i) • b i := by
  induction n with
  | zero =>
    have : i = 0 := Nat.le_zero.mp hi
    subst this
    simp only [sumV, upd_same]; module
  | succ n ih =>
    simp only [sumV]
    rcases Nat.lt_or_ge i (n + 1) with h | h
    · rw [ih (Nat.lt_succ_iff.mp h), upd_other δ x (Nat.ne_of_gt h)]; module
    · have : i = n + 1 := Nat.le_antisymm hi h
      subst this
      have hcongr : sumV n (fun l => upd δ (n + 1) x l • b l) = sumV n (fun l => δ l • b l) := by
        clear ih hi h
        generalize hN : n + 1 = N
        have hlt : n < N := by omega
        clear hN
        induction n with
        | zero => simp only [sumV]; rw [upd_other δ x (by omega)]
        | succ k ihk =>
          simp only [sumV]
          rw [ihk (by omega), upd_other δ x (by omega)]
      rw [hcongr, upd_same]; module

/-- `delta[i] *= c` for all `i` scales the combination -/
theorem sumV_scale (δ : Nat → K) (b : Nat → V) (c : K) (n : Nat) :
    sumV n (fun l => (δ l * c) • b l) = c • sumV n (fun l => δ l • b l) := by
  induction n with
  | zero => simp only [sumV]; module
  | succ n ih => simp only [sumV]; rw [ih]; module

/-! ### the abstract two-loop recursion on *logical* indices `0 … m-1` (oldest … newest) -/

/-- `[j-1, j-2, …, 0]` -/
def downList : Nat → List Nat
  | 0 => []
  | j + 1 => j :: downList j

/-- two-loop recursion with pairs `(S j, Y j)`, `j < m`, oldest first, applied to `-g` -/
def twoLoopAbs (ip : V → V → K) (S Y : Nat → V) (m : Nat) (g : V) (al0 : Nat → K) : V :=
  if m = 0 then -g else
  let r := firstLoop ip S Y (downList m) (-g) al0
  let fact := ip (S (m - 1)) (Y (m - 1)) / ip (Y (m - 1)) (Y (m - 1))
  secondLoop ip S Y r.2 (List.range m) (fact • r.1)

/-- the Gram hypothesis on the assembled matrix: every entry `delta` reads is the inner product of the basis
    vectors (the corner `[2m, 2m]` holds `norm`, not `norm²`, and is exempt) -/
def IsGram (ip : V → V → K) (b : Nat → V) (m : Nat) (G : Nat → Nat → K) : Prop :=
  ∀ l j, l ≤ 2 * m → j ≤ 2 * m → ¬(l = 2 * m ∧ j = 2 * m) → G l j = ip (b l) (b j)

/-- first loop of `delta` tracks the first loop of the two-loop recursion -/
theorem deltaLoop1_sim {ip : V → V → K} (hip : IsIP ip) (b : Nat → V) (m : Nat) (G : Nat → Nat → K)
    (hG : IsGram ip b m G) :
    ∀ (j : Nat), j ≤ m → ∀ (δ al : Nat → K),
      sumV (2 * m) (fun l => (deltaLoop1 G m j δ al).1 l • b l) =
        (firstLoop ip b (fun i => b (m + i)) (downList j) (sumV (2 * m) (fun l => δ l • b l)) al).1 ∧
      (deltaLoop1 G m j δ al).2 =
        (firstLoop ip b (fun i => b (m + i)) (downList j) (sumV (2 * m) (fun l => δ l • b l)) al).2 := by
  intro j
  induction j with
  | zero => intro _ δ al; simp [deltaLoop1, downList, firstLoop]
  | succ j ih =>
    intro hj δ al
    have hjm : j < m := hj
    simp only [deltaLoop1, downList, firstLoop]
    have h1 : sumK (2 * m + 1) (fun l => δ l * G l j) = ip (b j) (sumV (2 * m) (fun l => δ l • b l)) := by
      rw [hip.symm, ← sumK_ip hip]
      apply sumK_congr
      intro l hl
      rw [hG l j (by omega) (by omega) (by omega)]
    have h2 : G j (m + j) = ip (b j) (b (m + j)) := hG j (m + j) (by omega) (by omega) (by omega)
    rw [h1, h2]
    have h3 := ih (Nat.le_of_lt hjm)
      (upd δ (m + j) (δ (m + j) - ip (b j) (sumV (2 * m) (fun l => δ l • b l)) / ip (b j) (b (m + j))))
      (upd al j (ip (b j) (sumV (2 * m) (fun l => δ l • b l)) / ip (b j) (b (m + j))))
    rw [sumV_upd δ b (m + j) _ (2 * m) (by omega)] at h3
    have h4 : sumV (2 * m) (fun l => δ l • b l) +
        (δ (m + j) - ip (b j) (sumV (2 * m) (fun l => δ l • b l)) / ip (b j) (b (m + j)) - δ (m + j)) • b (m + j) =
        sumV (2 * m) (fun l => δ l • b l) -
          (ip (b j) (sumV (2 * m) (fun l => δ l • b l)) / ip (b j) (b (m + j))) • b (m + j) := by
      module
    rw [h4] at h3
    exact h3

/-- last loop of `delta` tracks the second loop of the two-loop recursion -/
theorem deltaLoop2_sim {ip : V → V → K} (hip : IsIP ip) (b : Nat → V) (m : Nat) (G : Nat → Nat → K)
    (hG : IsGram ip b m G) (al : Nat → K) :
    ∀ (L : List Nat), (∀ j ∈ L, j < m) → ∀ (δ : Nat → K),
      sumV (2 * m) (fun l => (deltaLoop2 G m al L δ) l • b l) =
        secondLoop ip b (fun i => b (m + i)) al L (sumV (2 * m) (fun l => δ l • b l)) := by
  intro L
  induction L with
  | nil => intro _ δ; simp [deltaLoop2, secondLoop]
  | cons j r ih =>
    intro hL δ
    have hjm : j < m := hL j List.mem_cons_self
    simp only [deltaLoop2, secondLoop]
    have h1 : sumK (2 * m + 1) (fun l => δ l * G (m + j) l) =
        ip (b (m + j)) (sumV (2 * m) (fun l => δ l • b l)) := by
      rw [hip.symm, ← sumK_ip hip]
      apply sumK_congr
      intro l hl
      rw [hG (m + j) l (by omega) (by omega) (by omega), hip.symm]
    have h2 : G j (m + j) = ip (b j) (b (m + j)) := hG j (m + j) (by omega) (by omega) (by omega)
    rw [h1, h2, ih (fun i hi => hL i (List.mem_cons_of_mem _ hi)), sumV_upd δ b j _ (2 * m) (by omega)]
    congr 1
    module

/-- **core**: on a Gram matrix, `Σ delta_l • b_l` is the two-loop recursion on the pairs `(b_j, b_{m+j})` and
    the gradient `b_{2m}` -/
theorem delta_eq_twoLoop {ip : V → V → K} (hip : IsIP ip) (b : Nat → V) (m : Nat) (G : Nat → Nat → K)
    (hG : IsGram ip b m G) (h0 : m = 0 → G 0 0 ≠ 0) (al0 : Nat → K) :
    sumV (2 * m) (fun l => delta G m al0 l • b l) =
      twoLoopAbs ip b (fun i => b (m + i)) m (b (2 * m)) al0 := by
  have hstart : sumV (2 * m) (fun l => (if l = 2 * m then (-1 : K) else 0) • b l) = -(b (2 * m)) := by
    have := sumV_upd (fun _ => (0 : K)) b (2 * m) (-1) (2 * m) (Nat.le_refl _)
    have hz : ∀ n, sumV n (fun l => (0 : K) • b l) = 0 := by
      intro n; induction n with
      | zero => simp [sumV]
      | succ n ih => simp only [sumV]; rw [ih]; simp
    have hfun : (fun l => upd (fun _ => (0 : K)) (2 * m) (-1) l • b l) =
        (fun l => (if l = 2 * m then (-1 : K) else 0) • b l) := by
      funext l; simp [upd]
    rw [hfun, hz] at this
    rw [this]; module
  unfold delta twoLoopAbs
  by_cases hm : m = 0
  · subst hm
    have hg := h0 rfl
    simp only [Nat.mul_zero, if_true, deltaLoop1, List.range_zero, deltaLoop2, sumV]
    rw [div_self hg]; simp
  · simp only [hm, if_false]
    obtain ⟨s1, s2⟩ := deltaLoop1_sim hip b m G hG m (Nat.le_refl _) (fun l => if l = 2 * m then -1 else 0) al0
    rw [deltaLoop2_sim hip b m G hG _ (List.range m) (fun j hj => List.mem_range.mp hj), sumV_scale, s1, s2, hstart]
    have e1 : G (m - 1) (2 * m - 1) = ip (b (m - 1)) (b (m + (m - 1))) := by
      rw [hG (m - 1) (2 * m - 1) (by omega) (by omega) (by omega)]
      congr 2; omega
    have e2 : G (2 * m - 1) (2 * m - 1) = ip (b (m + (m - 1))) (b (m + (m - 1))) := by
      rw [hG (2 * m - 1) (2 * m - 1) (by omega) (by omega) (by omega)]
      have : 2 * m - 1 = m + (m - 1) := by omega
      rw [this]
    rw [e1, e2]

end NiftyVerif.Lbfgs
