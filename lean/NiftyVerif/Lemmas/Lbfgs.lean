/-
  C16 — the VL-BFGS coefficient recursion simulates the L-BFGS two-loop recursion (helper lemmas for Props/C16.lean).
  Everything is over an arbitrary field `K`, an arbitrary `K`-module `V` and an arbitrary symmetric bilinear `ip`.
-/
import NiftyVerif.Model.Lbfgs
import Mathlib.Algebra.Module.Basic
import Mathlib.Algebra.Field.Basic
import Mathlib.Tactic.Module
import Mathlib.Tactic.Ring
import Mathlib.Tactic.Linarith

set_option linter.unusedSectionVars false
set_option linter.unusedVariables false

namespace NiftyVerif.Lbfgs

variable {K V : Type} [Field K] [AddCommGroup V] [Module K V]

/-- `s_vdot` on real fields: symmetric and linear in the first argument -/
structure IsIP (ip : V → V → K) : Prop where
  symm : ∀ u v, ip u v = ip v u
  add_left : ∀ u v w, ip (u + v) w = ip u w + ip v w
  smul_left : ∀ (c : K) u v, ip (c • u) v = c * ip u v

/-! ### linear combinations `Σ δ_l • b_l` -/

theorem sumK_congr {n : Nat} {f g : Nat → K} (h : ∀ l, l < n → f l = g l) : sumK n f = sumK n g := by
  induction n with
  | zero => rfl
  | succ n ih =>
    simp only [sumK]
    rw [ih (fun l hl => h l (Nat.lt_succ_of_lt hl)), h n (Nat.lt_succ_self n)]

/-- Python's `sum([delta[l]*b_dot_b[l, j] ...])` is the inner product with the linear combination -/
theorem sumK_ip {ip : V → V → K} (hip : IsIP ip) (δ : Nat → K) (b : Nat → V) (v : V) (n : Nat) :
    sumK (n + 1) (fun l => δ l * ip (b l) v) = ip (sumV n (fun l => δ l • b l)) v := by
  induction n with
  | zero => simp [sumK, sumV, hip.smul_left]
  | succ n ih =>
    rw [sumK, ih, sumV, hip.add_left, hip.smul_left]

theorem upd_same {α : Type} (f : Nat → α) (i : Nat) (v : α) : upd f i v i = v := by simp [upd]
theorem upd_other {α : Type} (f : Nat → α) {i j : Nat} (v : α) (h : j ≠ i) : upd f i v j = f j := by simp [upd, h]

/-- `delta[i] = x` changes the combination by `(x − delta[i]) • b_i` -/
theorem sumV_upd (δ : Nat → K) (b : Nat → V) (i : Nat) (x : K) (n : Nat) (hi : i ≤ n) :
    sumV n (fun l => upd δ i x l • b l) = sumV n (fun l => δ l • b l) + (x - δ i) • b i := by
  induction n with
  | zero =>
    have : i = 0 := Nat.le_zero.mp hi
    subst this
    simp only [sumV, upd_same]; module
  | succ n ih =>
    simp only [sumV]
    rcases Nat.lt_or_ge i (n + 1) with h | h
    · rw [ih (Nat.lt_succ_iff.mp h), upd_other δ x (Nat.ne_of_gt h)]; module
    · have : i = n + 1 := Nat.le_antisymm hi h
      subst this
      have hcongr : sumV n (fun l => upd δ (n + 1) x l • b l) = sumV n (fun l => δ l • b l) := by
        clear ih hi h
        generalize hN : n + 1 = N
        have hlt : n < N := by omega
        clear hN
        induction n with
        | zero => simp only [sumV]; rw [upd_other δ x (by omega)]
        | succ k ihk =>
          simp only [sumV]
          rw [ihk (by omega), upd_other δ x (by omega)]
      rw [hcongr, upd_same]; module

/-- `delta[i] *= c` for all `i` scales the combination -/
theorem sumV_scale (δ : Nat → K) (b : Nat → V) (c : K) (n : Nat) :
    sumV n (fun l => (δ l * c) • b l) = c • sumV n (fun l => δ l • b l) := by
  induction n with
  | zero => simp only [sumV]; module
  | succ n ih => simp only [sumV]; rw [ih]; module

/-! ### the abstract two-loop recursion on *logical* indices `0 … m-1` (oldest … newest) -/

/-- `[j-1, j-2, …, 0]` -/
def downList : Nat → List Nat
  | 0 => []
  | j + 1 => j :: downList j

/-- two-loop recursion with pairs `(S j, Y j)`, `j < m`, oldest first, applied to `-g` -/
def twoLoopAbs (ip : V → V → K) (S Y : Nat → V) (m : Nat) (g : V) (al0 : Nat → K) : V :=
  if m = 0 then -g else
  let r := firstLoop ip S Y (downList m) (-g) al0
  let fact := ip (S (m - 1)) (Y (m - 1)) / ip (Y (m - 1)) (Y (m - 1))
  secondLoop ip S Y r.2 (List.range m) (fact • r.1)

/-- the Gram hypothesis on the assembled matrix: every entry `delta` reads is the inner product of the basis
    vectors (the corner `[2m, 2m]` holds `norm`, not `norm²`, and is exempt) -/
def IsGram (ip : V → V → K) (b : Nat → V) (m : Nat) (G : Nat → Nat → K) : Prop :=
  ∀ l j, l ≤ 2 * m → j ≤ 2 * m → ¬(l = 2 * m ∧ j = 2 * m) → G l j = ip (b l) (b j)

/-- first loop of `delta` tracks the first loop of the two-loop recursion -/
theorem deltaLoop1_sim {ip : V → V → K} (hip : IsIP ip) (b : Nat → V) (m : Nat) (G : Nat → Nat → K)
    (hG : IsGram ip b m G) :
    ∀ (j : Nat), j ≤ m → ∀ (δ al : Nat → K),
      sumV (2 * m) (fun l => (deltaLoop1 G m j δ al).1 l • b l) =
        (firstLoop ip b (fun i => b (m + i)) (downList j) (sumV (2 * m) (fun l => δ l • b l)) al).1 ∧
      (deltaLoop1 G m j δ al).2 =
        (firstLoop ip b (fun i => b (m + i)) (downList j) (sumV (2 * m) (fun l => δ l • b l)) al).2 := by
  intro j
  induction j with
  | zero => intro _ δ al; simp [deltaLoop1, downList, firstLoop]
  | succ j ih =>
    intro hj δ al
    have hjm : j < m := hj
    simp only [deltaLoop1, downList, firstLoop]
    have h1 : sumK (2 * m + 1) (fun l => δ l * G l j) = ip (b j) (sumV (2 * m) (fun l => δ l • b l)) := by
      rw [hip.symm, ← sumK_ip hip]
      apply sumK_congr
      intro l hl
      rw [hG l j (by omega) (by omega) (by omega)]
    have h2 : G j (m + j) = ip (b j) (b (m + j)) := hG j (m + j) (by omega) (by omega) (by omega)
    rw [h1, h2]
    have h3 := ih (Nat.le_of_lt hjm)
      (upd δ (m + j) (δ (m + j) - ip (b j) (sumV (2 * m) (fun l => δ l • b l)) / ip (b j) (b (m + j))))
      (upd al j (ip (b j) (sumV (2 * m) (fun l => δ l • b l)) / ip (b j) (b (m + j))))
    rw [sumV_upd δ b (m + j) _ (2 * m) (by omega)] at h3
    have h4 : sumV (2 * m) (fun l => δ l • b l) +
        (δ (m + j) - ip (b j) (sumV (2 * m) (fun l => δ l • b l)) / ip (b j) (b (m + j)) - δ (m + j)) • b (m + j) =
        sumV (2 * m) (fun l => δ l • b l) -
          (ip (b j) (sumV (2 * m) (fun l => δ l • b l)) / ip (b j) (b (m + j))) • b (m + j) := by
      module
    rw [h4] at h3
    exact h3

/-- last loop of `delta` tracks the second loop of the two-loop recursion -/
theorem deltaLoop2_sim {ip : V → V → K} (hip : IsIP ip) (b : Nat → V) (m : Nat) (G : Nat → Nat → K)
    (hG : IsGram ip b m G) (al : Nat → K) :
    ∀ (L : List Nat), (∀ j ∈ L, j < m) → ∀ (δ : Nat → K),
      sumV (2 * m) (fun l => (deltaLoop2 G m al L δ) l • b l) =
        secondLoop ip b (fun i => b (m + i)) al L (sumV (2 * m) (fun l => δ l • b l)) := by
  intro L
  induction L with
  | nil => intro _ δ; simp [deltaLoop2, secondLoop]
  | cons j r ih =>
    intro hL δ
    have hjm : j < m := hL j List.mem_cons_self
    simp only [deltaLoop2, secondLoop]
    have h1 : sumK (2 * m + 1) (fun l => δ l * G (m + j) l) =
        ip (b (m + j)) (sumV (2 * m) (fun l => δ l • b l)) := by
      rw [hip.symm, ← sumK_ip hip]
      apply sumK_congr
      intro l hl
      rw [hG (m + j) l (by omega) (by omega) (by omega), hip.symm]
    have h2 : G j (m + j) = ip (b j) (b (m + j)) := hG j (m + j) (by omega) (by omega) (by omega)
    rw [h1, h2, ih (fun i hi => hL i (List.mem_cons_of_mem _ hi)), sumV_upd δ b j _ (2 * m) (by omega)]
    congr 1
    module

/-- **core**: on a Gram matrix, `Σ delta_l • b_l` is the two-loop recursion on the pairs `(b_j, b_{m+j})` and
    the gradient `b_{2m}` -/
theorem delta_eq_twoLoop {ip : V → V → K} (hip : IsIP ip) (b : Nat → V) (m : Nat) (G : Nat → Nat → K)
    (hG : IsGram ip b m G) (h0 : m = 0 → G 0 0 ≠ 0) (al0 : Nat → K) :
    sumV (2 * m) (fun l => delta G m al0 l • b l) =
      twoLoopAbs ip b (fun i => b (m + i)) m (b (2 * m)) al0 := by
  have hstart : sumV (2 * m) (fun l => (if l = 2 * m then (-1 : K) else 0) • b l) = -(b (2 * m)) := by
    have := sumV_upd (fun _ => (0 : K)) b (2 * m) (-1) (2 * m) (Nat.le_refl _)
    have hz : ∀ n, sumV n (fun l => (0 : K) • b l) = 0 := by
      intro n; induction n with
      | zero => simp [sumV]
      | succ n ih => simp only [sumV]; rw [ih]; simp
    have hfun : (fun l => upd (fun _ => (0 : K)) (2 * m) (-1) l • b l) =
        (fun l => (if l = 2 * m then (-1 : K) else 0) • b l) := by
      funext l; simp [upd]
    rw [hfun, hz] at this
    rw [this]; module
  unfold delta twoLoopAbs
  by_cases hm : m = 0
  · subst hm
    have hg := h0 rfl
    simp only [Nat.mul_zero, if_true, deltaLoop1, List.range_zero, deltaLoop2, sumV]
    rw [div_self hg]; simp
  · simp only [hm, if_false]
    obtain ⟨s1, s2⟩ := deltaLoop1_sim hip b m G hG m (Nat.le_refl _) (fun l => if l = 2 * m then -1 else 0) al0
    rw [deltaLoop2_sim hip b m G hG _ (List.range m) (fun j hj => List.mem_range.mp hj), sumV_scale, s1, s2, hstart]
    have e1 : G (m - 1) (2 * m - 1) = ip (b (m - 1)) (b (m + (m - 1))) := by
      rw [hG (m - 1) (2 * m - 1) (by omega) (by omega) (by omega)]
      congr 2; omega
    have e2 : G (2 * m - 1) (2 * m - 1) = ip (b (m + (m - 1))) (b (m + (m - 1))) := by
      rw [hG (2 * m - 1) (2 * m - 1) (by omega) (by omega) (by omega)]
      have : 2 * m - 1 = m + (m - 1) := by omega
      rw [this]
    rw [e1, e2]

/-! ### circular-buffer indexing: slots vs. logical indices -/

/-- distinct logical indices of the window live in distinct slots (`m ≤ mmax`) -/
theorem slot_inj (mmax k m : Nat) (hm : m ≤ mmax) (a b : Nat) (ha : a < m) (hb : b < m)
    (h : slot mmax k m a = slot mmax k m b) : a = b := by
  unfold slot at h
  rcases Nat.lt_or_ge a b with hab | hab
  · exfalso
    have h1 : ((k - m + b) - (k - m + a)) % mmax = 0 := Nat.sub_mod_eq_zero_of_mod_eq h.symm
    have h2 : (k - m + b) - (k - m + a) = b - a := by omega
    rw [h2] at h1
    have h3 : b - a < mmax := by omega
    rw [Nat.mod_eq_of_lt h3] at h1
    omega
  · rcases Nat.lt_or_ge b a with hba | hba
    · exfalso
      have h1 : ((k - m + a) - (k - m + b)) % mmax = 0 := Nat.sub_mod_eq_zero_of_mod_eq h
      have h2 : (k - m + a) - (k - m + b) = a - b := by omega
      rw [h2] at h1
      have h3 : a - b < mmax := by omega
      rw [Nat.mod_eq_of_lt h3] at h1
      omega
    · omega

/-- first loop over slots = first loop over logical indices (the `alpha` list is indexed by slot in `L_BFGS`) -/
theorem firstLoop_map (ip : V → V → K) (s y : Nat → V) (σ : Nat → Nat) (m : Nat)
    (hσ : ∀ a b, a < m → b < m → σ a = σ b → a = b) :
    ∀ (L : List Nat), (∀ j ∈ L, j < m) → ∀ (p : V) (alS alL : Nat → K) (P : Nat → Prop),
      (∀ j, j < m → P j → alS (σ j) = alL j) →
      (firstLoop ip s y (L.map σ) p alS).1 = (firstLoop ip (fun j => s (σ j)) (fun j => y (σ j)) L p alL).1 ∧
      ∀ j, j < m → (P j ∨ j ∈ L) →
        (firstLoop ip s y (L.map σ) p alS).2 (σ j) =
          (firstLoop ip (fun j => s (σ j)) (fun j => y (σ j)) L p alL).2 j := by
  intro L
  induction L with
  | nil =>
    intro _ p alS alL P hP
    simp only [List.map_nil, firstLoop, true_and]
    intro j hj hpj
    rcases hpj with h | h
    · exact hP j hj h
    · cases h
  | cons i r ih =>
    intro hL p alS alL P hP
    have him : i < m := hL i List.mem_cons_self
    simp only [List.map_cons, firstLoop]
    have := ih (fun j hj => hL j (List.mem_cons_of_mem _ hj))
      (p - (ip (s (σ i)) p / ip (s (σ i)) (y (σ i))) • y (σ i))
      (upd alS (σ i) (ip (s (σ i)) p / ip (s (σ i)) (y (σ i))))
      (upd alL i (ip (s (σ i)) p / ip (s (σ i)) (y (σ i))))
      (fun j => P j ∨ j = i)
      (by
        intro j hj hpj
        by_cases hji : j = i
        · subst hji; rw [upd_same, upd_same]
        · have hne : σ j ≠ σ i := fun h => hji (hσ j i hj him h)
          rw [upd_other _ _ hne, upd_other _ _ hji]
          rcases hpj with h | h
          · exact hP j hj h
          · exact absurd h hji)
    refine ⟨this.1, ?_⟩
    intro j hj hpj
    apply this.2 j hj
    rcases hpj with h | h
    · exact Or.inl (Or.inl h)
    · rcases List.mem_cons.mp h with h | h
      · exact Or.inl (Or.inr h)
      · exact Or.inr h

theorem secondLoop_map (ip : V → V → K) (s y : Nat → V) (σ : Nat → Nat) (alS alL : Nat → K) :
    ∀ (L : List Nat), (∀ j ∈ L, alS (σ j) = alL j) → ∀ (p : V),
      secondLoop ip s y alS (L.map σ) p = secondLoop ip (fun j => s (σ j)) (fun j => y (σ j)) alL L p := by
  intro L
  induction L with
  | nil => intro _ p; simp [secondLoop]
  | cons i r ih =>
    intro hL p
    simp only [List.map_cons, secondLoop]
    rw [hL i List.mem_cons_self]
    exact ih (fun j hj => hL j (List.mem_cons_of_mem _ hj)) _

theorem mem_downList {j m : Nat} : j ∈ downList m ↔ j < m := by
  induction m with
  | zero => simp [downList]
  | succ m ih => simp only [downList, List.mem_cons, ih]; omega

/-- the slots `L_BFGS` visits going down are the window's logical indices `m-1, …, 0` -/
theorem slotsDown_eq (k m mmax : Nat) (hmk : m ≤ k) :
    slotsDown k m mmax = (downList m).map (slot mmax k m) := by
  unfold slotsDown
  have : ∀ n, n ≤ m → (List.range n).map (fun j => (k - 1 - j) % mmax) =
      ((List.range n).map (fun j => m - 1 - j)).map (slot mmax k m) := by
    intro n hn
    rw [List.map_map]
    apply List.map_congr_left
    intro j hj
    have hj' : j < n := List.mem_range.mp hj
    simp only [Function.comp, slot]
    have e : k - 1 - j = k - m + (m - 1 - j) := by omega
    rw [e]
  rw [this m (Nat.le_refl _)]
  congr 1
  -- (range m).map (m-1-·) = downList m   (both are `(range m).reverse`)
  have hd : ∀ n, downList n = (List.range n).reverse := by
    intro n
    induction n with
    | zero => simp [downList]
    | succ n ih => rw [downList, ih, List.range_succ, List.reverse_append]; simp
  rw [hd, List.range_eq_range', List.reverse_range', ← List.range_eq_range']
  simp

theorem slotsUp_eq (k m mmax : Nat) : slotsUp k m mmax = (List.range m).map (slot mmax k m) := rfl

/-- `L_BFGS.get_descent_direction` is the abstract two-loop recursion on the window of its circular buffer -/
theorem lbfgsDir_eq_twoLoop (ip : V → V → K) (mmax : Nat) (hmm : 0 < mmax) (st : LState V) (x g : V)
    (alS alL : Nat → K) :
    let k := st.k
    let m := min k mmax
    let s := if 0 < k then upd st.s ((k - 1) % mmax) (x - st.lastx) else st.s
    let y := if 0 < k then upd st.y ((k - 1) % mmax) (g - st.lastgrad) else st.y
    (lbfgsDir ip mmax st x g alS).1 =
      twoLoopAbs ip (fun j => s (slot mmax k m j)) (fun j => y (slot mmax k m j)) m g alL := by
  intro k m s y
  unfold lbfgsDir twoLoopAbs
  by_cases hm : m = 0
  · have h0 : min st.k mmax = 0 := hm
    have : ¬ 0 < min st.k mmax := by rw [h0]; exact Nat.lt_irrefl 0
    simp only [this, if_false, hm, if_true]
  · have hpos : 0 < min st.k mmax := Nat.pos_of_ne_zero hm
    simp only [hpos, if_true, hm, if_false]
    have hmk : m ≤ k := Nat.min_le_left _ _
    have hmM : m ≤ mmax := Nat.min_le_right _ _
    have hinj := slot_inj mmax k m hmM
    have hf := firstLoop_map ip s y (slot mmax k m) m hinj (downList m) (fun j hj => mem_downList.mp hj)
      (-g) alS alL (fun _ => False) (by intro j _ h; exact absurd h id)
    have hslot : (k - 1) % mmax = slot mmax k m (m - 1) := by
      unfold slot; congr 1; omega
    change secondLoop ip s y (firstLoop ip s y (slotsDown k m mmax) (-g) alS).2 (slotsUp k m mmax)
      ((ip (s ((k - 1) % mmax)) (y ((k - 1) % mmax)) / ip (y ((k - 1) % mmax)) (y ((k - 1) % mmax))) •
        (firstLoop ip s y (slotsDown k m mmax) (-g) alS).1) = _
    rw [slotsUp_eq, slotsDown_eq k m mmax hmk, hslot, hf.1]
    apply secondLoop_map
    intro j hj
    exact hf.2 j (List.mem_range.mp hj) (Or.inr (mem_downList.mpr (List.mem_range.mp hj)))

/-! ### `VL_BFGS.get_descent_direction` -/

theorem firstLoop_congr (ip : V → V → K) (S Y S' Y' : Nat → V) :
    ∀ (L : List Nat), (∀ j ∈ L, S j = S' j ∧ Y j = Y' j) → ∀ (p : V) (al : Nat → K),
      firstLoop ip S Y L p al = firstLoop ip S' Y' L p al := by
  intro L
  induction L with
  | nil => intro _ p al; rfl
  | cons i r ih =>
    intro hL p al
    obtain ⟨h1, h2⟩ := hL i List.mem_cons_self
    simp only [firstLoop]
    rw [h1, h2]
    exact ih (fun j hj => hL j (List.mem_cons_of_mem _ hj)) _ _

theorem secondLoop_congr (ip : V → V → K) (S Y S' Y' : Nat → V) (al : Nat → K) :
    ∀ (L : List Nat), (∀ j ∈ L, S j = S' j ∧ Y j = Y' j) → ∀ (p : V),
      secondLoop ip S Y al L p = secondLoop ip S' Y' al L p := by
  intro L
  induction L with
  | nil => intro _ p; rfl
  | cons i r ih =>
    intro hL p
    obtain ⟨h1, h2⟩ := hL i List.mem_cons_self
    simp only [secondLoop]
    rw [h1, h2]
    exact ih (fun j hj => hL j (List.mem_cons_of_mem _ hj)) _

/-- the abstract recursion only looks at the pairs `j < m` -/
theorem twoLoopAbs_congr (ip : V → V → K) (S Y S' Y' : Nat → V) (m : Nat) (g : V) (al : Nat → K)
    (h : ∀ j, j < m → S j = S' j ∧ Y j = Y' j) :
    twoLoopAbs ip S Y m g al = twoLoopAbs ip S' Y' m g al := by
  unfold twoLoopAbs
  by_cases hm : m = 0
  · simp [hm]
  · simp only [hm, if_false]
    have hm1 : m - 1 < m := by omega
    rw [firstLoop_congr ip S Y S' Y' (downList m) (fun j hj => h j (mem_downList.mp hj)),
        secondLoop_congr ip S Y S' Y' _ (List.range m) (fun j hj => h j (List.mem_range.mp hj)),
        (h (m - 1) hm1).1, (h (m - 1) hm1).2]

/-- `VL_BFGS.get_descent_direction`, given that the assembled `b_dot_b` is the Gram matrix of the basis, is the
    abstract two-loop recursion on the window of its circular buffer -/
theorem vlDir_eq_twoLoop {ip : V → V → K} (hip : IsIP ip) (gg : V → K) (mmax : Nat) (st : VLState K V)
    (al0 : Nat → K)
    (hG : IsGram ip (basis mmax st) (histLen mmax st) (bDotB ip gg mmax st).1)
    (h0 : histLen mmax st = 0 → gg st.lastgrad ≠ 0) :
    let m := histLen mmax st
    (vlDir ip gg mmax st al0).1 =
      twoLoopAbs ip (fun j => st.s (slot mmax st.k m j)) (fun j => st.y (slot mmax st.k m j)) m st.lastgrad al0 := by
  intro m
  unfold vlDir
  simp only
  have h00 : m = 0 → (bDotB ip gg mmax st).1 0 0 ≠ 0 := by
    intro hm
    have : (bDotB ip gg mmax st).1 0 0 = gg st.lastgrad := by
      have hm' : histLen mmax st = 0 := hm
      simp [bDotB, hm']
    rw [this]; exact h0 hm
  rw [delta_eq_twoLoop hip (basis mmax st) m _ hG h00 al0]
  have hb : basis mmax st (2 * m) = st.lastgrad := by
    have h1 : ¬ (2 * m < histLen mmax st) := by show ¬ (2 * m < m); omega
    have h2 : ¬ (2 * m < 2 * histLen mmax st) := by show ¬ (2 * m < 2 * m); omega
    simp [basis, h1, h2]
  rw [hb]
  apply twoLoopAbs_congr
  intro j hj
  constructor
  · have : j < histLen mmax st := hj
    simp [basis, this]; rfl
  · have h1 : ¬ (m + j < histLen mmax st) := by show ¬ (m + j < m); omega
    have h2 : m + j < 2 * histLen mmax st := by show m + j < 2 * m; omega
    have h3 : m + j - histLen mmax st = j := by show m + j - m = j; omega
    simp [basis, h1, h2, h3]; rfl

/-- **one call**: the same history in both circular buffers ⇒ the same direction -/
theorem vl_eq_lbfgs_call {ip : V → V → K} (hip : IsIP ip) (gg : V → K) (mmax : Nat) (hmm : 0 < mmax)
    (stL : LState V) (stV : VLState K V) (x g : V) (alL alV : Nat → K)
    (hk : stV.k = stL.k)
    (hs : stV.s = if 0 < stL.k then upd stL.s ((stL.k - 1) % mmax) (x - stL.lastx) else stL.s)
    (hy : stV.y = if 0 < stL.k then upd stL.y ((stL.k - 1) % mmax) (g - stL.lastgrad) else stL.y)
    (hg : stV.lastgrad = g)
    (hG : IsGram ip (basis mmax stV) (histLen mmax stV) (bDotB ip gg mmax stV).1)
    (h0 : min stL.k mmax = 0 → gg g ≠ 0) :
    (vlDir ip gg mmax stV alV).1 = (lbfgsDir ip mmax stL x g alL).1 := by
  have hm : histLen mmax stV = min stL.k mmax := by unfold histLen; rw [hk]
  rw [vlDir_eq_twoLoop hip gg mmax stV alV hG (by rw [hm, hg]; exact h0),
      lbfgsDir_eq_twoLoop ip mmax hmm stL x g alL alV, hm, hk, hs, hy, hg]

end NiftyVerif.Lbfgs
