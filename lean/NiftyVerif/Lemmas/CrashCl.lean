/-
  Lemmas for C25 (Model/CrashCl.lean), repaired protocol, save strategy `all`:
  what a complete iteration leaves in the directory, and what every crash point inside it leaves untouched.
-/
import NiftyVerif.Model.CrashCl
import NiftyVerif.Lemmas.CrashFS
namespace NiftyVerif.CrashCl
open NiftyVerif.CrashFS

variable {S : Type}

/-! ### atomic write (temp + os.replace) -/

theorem execs_atomicWrite (fs : FS Path) (p t : Path) (c : Bytes) (h : t ≠ p) :
    execs fs (atomicWrite p t c) p = some c := by
  unfold atomicWrite
  rw [execs_append, execs_cons, execs_nil]
  have := execs_writeFile fs t c
  have h' : ¬ p = t := fun e => h e.symm
  simp [exec, FS.set, this, h']

theorem atomicWrite_touches (p t : Path) (c : Bytes) (q : Path) :
    ∀ o ∈ atomicWrite p t c, o.touches q = true → q = p ∨ q = t := by
  intro o ho hq
  simp only [atomicWrite, writeFile, List.mem_cons, List.mem_append, List.mem_map, List.not_mem_nil, or_false] at ho
  rcases ho with (rfl | rfl | ⟨b, _, rfl⟩ | rfl) | rfl <;> simp [Op.touches] at hq <;> grind

theorem appendFile_touches (p : Path) (c : Bytes) (q : Path) :
    ∀ o ∈ appendFile p c, o.touches q = true → q = p := by
  intro o ho hq
  simp only [appendFile, List.mem_cons, List.mem_append, List.mem_map, List.not_mem_nil, or_false] at ho
  rcases ho with rfl | rfl | ⟨b, _, rfl⟩ | rfl <;> simp [Op.touches] at hq <;> grind

theorem writeFile_touches (p : Path) (c : Bytes) (q : Path) :
    ∀ o ∈ writeFile p c, o.touches q = true → q = p := by
  intro o ho hq
  simp only [writeFile, List.mem_cons, List.mem_append, List.mem_map, List.not_mem_nil, or_false] at ho
  rcases ho with rfl | rfl | ⟨b, _, rfl⟩ | rfl <;> simp [Op.touches] at hq <;> grind

/-- if every op of `ops` that touches `q` … there is none: frame rule in the "touches ⇒ False" form -/
theorem execs_frame (ops : List (Op Path)) (q : Path) (h : ∀ o ∈ ops, o.touches q = true → False) (fs : FS Path) :
    execs fs ops q = fs q :=
  execs_untouched ops q (fun o ho => by
    cases hq : o.touches q
    · rfl
    · exact (h o ho hq).elim) fs

/-- a sequence of atomic writes to pairwise different targets (and temp files different from all targets) leaves every
    target with its content -/
theorem execs_flatMap_atomic (P T : Nat → Path) (C : Nat → Bytes)
    (hP : ∀ a b, P a = P b → a = b) (hT : ∀ a b, T a ≠ P b) :
    ∀ (l : List Nat), l.Nodup → ∀ (fs : FS Path) (k : Nat), k ∈ l →
      execs fs (l.flatMap (fun k => atomicWrite (P k) (T k) (C k))) (P k) = some (C k) := by
  intro l
  induction l with
  | nil => intro _ fs k hk; cases hk
  | cons a l ih =>
    intro hnd fs k hk
    rw [List.flatMap_cons, execs_append]
    have hnd' := (List.nodup_cons.1 hnd)
    rcases List.mem_cons.1 hk with rfl | hk'
    · rw [execs_frame]
      · exact execs_atomicWrite fs _ _ _ (hT _ _)
      · intro o ho hq
        rcases List.mem_flatMap.1 ho with ⟨b, hb, hob⟩
        rcases atomicWrite_touches _ _ _ _ o hob hq with h | h
        · exact hnd'.1 (hP _ _ h ▸ hb)
        · exact hT _ _ h.symm
    · exact ih hnd'.2 _ k hk'

theorem flatMap_atomic_touches (P T : Nat → Path) (C : Nat → Bytes) (l : List Nat) (q : Path) :
    ∀ o ∈ l.flatMap (fun k => atomicWrite (P k) (T k) (C k)), o.touches q = true → ∃ k ∈ l, q = P k ∨ q = T k := by
  intro o ho hq
  rcases List.mem_flatMap.1 ho with ⟨b, hb, hob⟩
  exact ⟨b, hb, atomicWrite_touches _ _ _ _ o hob hq⟩

/-! ### one iteration of the repaired protocol -/

/-- paths an iteration with base `b` may write -/
def own (b : Base) : Path → Bool
  | .sample b' _ | .sampleTmp b' _ | .mean b' | .meanTmp b' | .ehist b' | .ehistTmp b' | .mhist b' | .mhistTmp b' => b' = b
  | .sanity | .counting | .markerTmp => true
  | _ => false

/-- everything iteration `j` does before the marker is moved into place -/
def body (sys : Sys S) (strat : Strategy) (j : Nat) (s' : S) : List (Op Path) :=
  let b := baseOf strat j
  saveSamples sys .repaired b s' ++ atomicWrite (.ehist b) (.ehistTmp b) (sys.encE j) ++ appendFile .sanity (sys.msgS j) ++
    atomicWrite (.mhist b) (.mhistTmp b) (sys.encM j) ++ writeFile .markerTmp (sys.digits j)

theorem iterOps_eq (sys : Sys S) (strat : Strategy) (j : Nat) (s' : S) :
    iterOpsA sys .repaired strat j s' ++ iterOpsB sys .repaired strat j =
      invalidate .repaired strat ++
        (body sys strat j s' ++ [Op.replace .markerTmp .marker] ++ appendFile .counting (sys.msgC j)) := by
  simp [iterOpsA, iterOpsB, body, saveValues, saveMarker, atomicWrite, List.append_assoc]

theorem iterOps_eq_all (sys : Sys S) (j : Nat) (s' : S) :
    iterOpsA sys .repaired .all j s' ++ iterOpsB sys .repaired .all j =
      body sys .all j s' ++ [Op.replace .markerTmp .marker] ++ appendFile .counting (sys.msgC j) := by
  rw [iterOps_eq]; simp [invalidate]

theorem iterOpsA_prefix_body (sys : Sys S) (j : Nat) (s' : S) :
    iterOpsA sys .repaired .all j s' <+: body sys .all j s' := by
  simp only [iterOpsA, invalidate, body, saveValues, List.append_nil, List.nil_append, List.append_assoc]
  refine ⟨atomicWrite (.mhist (baseOf .all j)) (.mhistTmp (baseOf .all j)) (sys.encM j) ++
    writeFile .markerTmp (sys.digits j), ?_⟩
  simp [List.append_assoc]

theorem unlinkMean_touches (sys : Sys S) (proto : Proto) (b : Base) (s : S) (q : Path) :
    ∀ o ∈ unlinkMean sys proto b s, o.touches q = true → q = .mean b := by
  intro o ho hq
  unfold unlinkMean at ho
  split at ho
  · simp only [List.mem_singleton] at ho; subst ho; simpa [Op.touches, eq_comm] using hq
  · cases ho

theorem saveMean_touches (sys : Sys S) (b : Base) (s : S) (q : Path) :
    ∀ o ∈ saveMean sys .repaired b s, o.touches q = true → q = .mean b ∨ q = .meanTmp b := by
  intro o ho hq
  unfold saveMean at ho
  split at ho
  · exact atomicWrite_touches _ _ _ _ o (by simpa [saveOne] using ho) hq
  · cases ho

theorem saveSamples_touches (sys : Sys S) (b : Base) (s : S) (q : Path) :
    ∀ o ∈ saveSamples sys .repaired b s, o.touches q = true → own b q = true := by
  intro o ho hq
  simp only [saveSamples, List.mem_cons, List.mem_append] at ho
  rcases ho with rfl | ho | ho | ho
  · simp [Op.touches] at hq; subst hq; simp [own]
  · rw [unlinkMean_touches sys _ b s q o ho hq]; simp [own]
  · rcases flatMap_atomic_touches (fun k => .sample b k) (fun k => .sampleTmp b k) (fun k => sys.encSample s k)
      (List.range sys.nsamp) q o ho hq with ⟨k, _, rfl | rfl⟩ <;> simp [own]
  · rcases saveMean_touches sys b s q o ho hq with rfl | rfl <;> simp [own]

theorem body_touches (sys : Sys S) (strat : Strategy) (j : Nat) (s' : S) (q : Path) :
    ∀ o ∈ body sys strat j s', o.touches q = true → own (baseOf strat j) q = true := by
  intro o ho hq
  simp only [body, List.mem_append] at ho
  rcases ho with (((ho | ho) | ho) | ho) | ho
  · exact saveSamples_touches sys _ _ q o ho hq
  · rcases atomicWrite_touches _ _ _ _ o ho hq with rfl | rfl <;> simp [own]
  · rw [appendFile_touches _ _ _ o ho hq]; simp [own]
  · rcases atomicWrite_touches _ _ _ _ o ho hq with rfl | rfl <;> simp [own]
  · rw [writeFile_touches _ _ _ o ho hq]; simp [own]

/-- frame rule for an iteration: a path it does not own is left alone by every crash point before the marker moves -/
theorem body_prefix_frame (sys : Sys S) (strat : Strategy) (j : Nat) (s' : S) (q : Path)
    (hq : own (baseOf strat j) q = false) {pre : List (Op Path)} (hp : pre <+: body sys strat j s') (fs : FS Path) :
    execs fs pre q = fs q :=
  execs_frame pre q (fun o ho ht => by
    have := body_touches sys strat j s' q o (mem_of_mem_prefix hp ho) ht
    rw [hq] at this; cases this) fs

theorem execs_append_frame (fs : FS Path) (A B : List (Op Path)) (q : Path)
    (h : ∀ o ∈ B, o.touches q = true → False) : execs fs (A ++ B) q = execs fs A q := by
  rw [execs_append, execs_frame B q h]

/-- what a completed `(Residual)SampleList.save` leaves (repaired protocol): the samples, no "next" sample, and the mean
    file exactly if the state has one (a MAP iteration removes a stale one) -/
theorem saveSamples_full (sys : Sys S) (b : Base) (s : S) (fs : FS Path) :
    (∀ k, k < sys.nsamp → execs fs (saveSamples sys .repaired b s) (.sample b k) = some (sys.encSample s k)) ∧
    execs fs (saveSamples sys .repaired b s) (.sample b sys.nsamp) = none ∧
    execs fs (saveSamples sys .repaired b s) (.mean b) = sys.encMean s := by
  unfold saveSamples
  have hflat : ∀ q, (∀ k, q ≠ .sample b k) → (∀ k, q ≠ .sampleTmp b k) → ∀ o ∈ (List.range sys.nsamp).flatMap
      (fun k => saveOne .repaired (.sample b k) (.sampleTmp b k) (sys.encSample s k)), o.touches q = true → False := by
    intro q h1 h2 o ho hq
    rcases flatMap_atomic_touches (fun k => .sample b k) (fun k => .sampleTmp b k) (fun k => sys.encSample s k)
      (List.range sys.nsamp) _ o ho hq with ⟨k, _, h | h⟩
    · exact h1 k h
    · exact h2 k h
  refine ⟨?_, ?_, ?_⟩
  · intro k hk
    rw [execs_cons, execs_append, execs_append_frame]
    · exact execs_flatMap_atomic (fun k => .sample b k) (fun k => .sampleTmp b k) (fun k => sys.encSample s k)
        (by intro a c h; injection h) (by intro a c h; cases h) (List.range sys.nsamp) List.nodup_range _ k
        (List.mem_range.2 hk)
    · intro o ho hq
      rcases saveMean_touches sys b s _ o ho hq with h | h <;> cases h
  · rw [execs_cons, execs_append, execs_append_frame, execs_frame, execs_frame]
    · simp [exec, FS.set]
    · intro o ho hq; cases unlinkMean_touches sys _ b s _ o ho hq
    · intro o ho hq
      rcases flatMap_atomic_touches (fun k => .sample b k) (fun k => .sampleTmp b k) (fun k => sys.encSample s k)
        (List.range sys.nsamp) _ o ho hq with ⟨k, hk, h | h⟩
      · injection h with _ h2; have := List.mem_range.1 hk; omega
      · cases h
    · intro o ho hq
      rcases saveMean_touches sys b s _ o ho hq with h | h <;> cases h
  · rw [execs_cons, execs_append, execs_append]
    cases hm : sys.encMean s with
    | some c =>
      have : saveMean sys .repaired b s = atomicWrite (.mean b) (.meanTmp b) c := by simp [saveMean, hm, saveOne]
      rw [this]; exact execs_atomicWrite _ _ _ _ (by intro h; cases h)
    | none =>
      have h1 : saveMean sys .repaired b s = [] := by simp [saveMean, hm]
      have h2 : unlinkMean sys .repaired b s = [Op.remove (.mean b)] := by simp [unlinkMean, hm]
      rw [h1, execs_nil, execs_frame _ _ (hflat _ (by intro k h; cases h) (by intro k h; cases h)), h2, execs_cons, execs_nil]
      simp [exec, FS.set]

/-- what a completed iteration body leaves: all files of the iteration, complete, and the marker temp file -/
theorem body_full (sys : Sys S) (strat : Strategy) (j : Nat) (s' : S) (fs : FS Path) :
    let b := baseOf strat j
    let fs' := execs fs (body sys strat j s')
    (∀ k, k < sys.nsamp → fs' (.sample b k) = some (sys.encSample s' k)) ∧ fs' (.sample b sys.nsamp) = none ∧
    fs' (.mean b) = sys.encMean s' ∧ fs' (.ehist b) = some (sys.encE j) ∧ fs' (.mhist b) = some (sys.encM j) ∧
    fs' .markerTmp = some (sys.digits j) := by
  intro b fs'
  have hs := saveSamples_full sys b s' fs
  -- peel the blocks after saveSamples: none of them touches the sample / mean files
  have peel : ∀ q, (∀ c, q ≠ .ehist c) → (∀ c, q ≠ .ehistTmp c) → (∀ c, q ≠ .mhist c) → (∀ c, q ≠ .mhistTmp c) →
      q ≠ .sanity → q ≠ .markerTmp → fs' q = execs fs (saveSamples sys .repaired b s') q := by
    intro q h1 h2 h3 h4 h5 h6
    simp only [fs', body]
    rw [execs_append_frame, execs_append_frame, execs_append_frame, execs_append_frame]
    · intro o ho hq; rcases atomicWrite_touches _ _ _ _ o ho hq with h | h
      · exact h1 _ h
      · exact h2 _ h
    · intro o ho hq; exact h5 (appendFile_touches _ _ _ o ho hq)
    · intro o ho hq; rcases atomicWrite_touches _ _ _ _ o ho hq with h | h
      · exact h3 _ h
      · exact h4 _ h
    · intro o ho hq; exact h6 (writeFile_touches _ _ _ o ho hq)
  refine ⟨?_, ?_, ?_, ?_, ?_, ?_⟩
  · intro k hk
    rw [peel _ (by intro c h; cases h) (by intro c h; cases h) (by intro c h; cases h) (by intro c h; cases h)
      (by intro h; cases h) (by intro h; cases h)]
    exact hs.1 k hk
  · rw [peel _ (by intro c h; cases h) (by intro c h; cases h) (by intro c h; cases h) (by intro c h; cases h)
      (by intro h; cases h) (by intro h; cases h)]
    exact hs.2.1
  · rw [peel _ (by intro c h; cases h) (by intro c h; cases h) (by intro c h; cases h) (by intro c h; cases h)
      (by intro h; cases h) (by intro h; cases h)]
    exact hs.2.2
  · simp only [fs', body]
    rw [execs_append_frame, execs_append_frame, execs_append_frame, execs_append]
    · exact execs_atomicWrite _ _ _ _ (by intro h; cases h)
    · intro o ho hq; cases appendFile_touches _ _ _ o ho hq
    · intro o ho hq; rcases atomicWrite_touches _ _ _ _ o ho hq with h | h <;> cases h
    · intro o ho hq; cases writeFile_touches _ _ _ o ho hq
  · simp only [fs', body]
    rw [execs_append_frame, execs_append]
    · exact execs_atomicWrite _ _ _ _ (by intro h; cases h)
    · intro o ho hq; cases writeFile_touches _ _ _ o ho hq
  · simp only [fs', body]
    rw [execs_append]
    exact execs_writeFile _ _ _

/-! ### the invariant of save strategy `all` (repaired protocol) -/

/-- what the crash-safety theorems assume about the real driver (tied by the correspondence check / observed by the oracle) -/
structure Lawful (sys : Sys S) : Prop where
  nsamp_pos : 0 < sys.nsamp
  dec_enc : ∀ s, sys.decState (sys.encMean s) ((List.range sys.nsamp).map (sys.encSample s)) = some s
  map_one : ∀ s, sys.encMean s = none → sys.nsamp = 1     -- a MAP iteration (SampleList) has exactly one sample
  okE_enc : ∀ i, sys.okE (sys.encE i) = true
  okM_enc : ∀ i, sys.okM (sys.encM i) = true
  okR_rs : sys.okR sys.rs = true
  parse_digits : ∀ i, sys.parse (sys.digits i) = some i

/-- the sample files and the mean file of base `b` are exactly those of state `s`, complete -/
def FilesOf (sys : Sys S) (b : Base) (s : S) (fs : FS Path) : Prop :=
  (∀ k, k < sys.nsamp → fs (.sample b k) = some (sys.encSample s k)) ∧ fs (.sample b sys.nsamp) = none ∧
    fs (.mean b) = sys.encMean s

/-- "marker = i and everything the resume branch reads for i is complete and from iteration i" -/
def GoodAt (sys : Sys S) (s0 : S) (i : Nat) (fs : FS Path) : Prop :=
  fs .marker = some (sys.digits i) ∧ FilesOf sys (.iter i) (sAfter sys s0 (i + 1)) fs ∧
    (∃ e, fs (.ehist (.iter i)) = some e ∧ sys.okE e = true) ∧
    (∃ m, fs (.mhist (.iter i)) = some m ∧ sys.okM m = true) ∧ (∃ r, fs .rstate = some r ∧ sys.okR r = true)

def Good (sys : Sys S) (s0 : S) (total : Nat) (fs : FS Path) : Prop :=
  fs .marker = none ∨ ∃ i, i < total ∧ GoodAt sys s0 i fs

/-- the paths `GoodAt i` talks about -/
def prot (i : Nat) : Path → Bool
  | .marker | .rstate => true
  | .sample b _ | .mean b | .ehist b | .mhist b => b = .iter i
  | _ => false

theorem goodAt_congr (sys : Sys S) (s0 : S) (i : Nat) {fs fs' : FS Path}
    (h : ∀ q, prot i q = true → fs' q = fs q) (hg : GoodAt sys s0 i fs) : GoodAt sys s0 i fs' := by
  obtain ⟨h1, ⟨h2, h3, h4⟩, h5, h6, h7⟩ := hg
  refine ⟨?_, ⟨?_, ?_, ?_⟩, ?_, ?_, ?_⟩
  · rw [h _ (by simp [prot])]; exact h1
  · intro k hk; rw [h _ (by simp [prot])]; exact h2 k hk
  · rw [h _ (by simp [prot])]; exact h3
  · rw [h _ (by simp [prot])]; exact h4
  · rw [h _ (by simp [prot])]; exact h5
  · rw [h _ (by simp [prot])]; exact h6
  · rw [h _ (by simp [prot])]; exact h7

theorem own_of_prot {i j : Nat} (hij : i ≠ j) (q : Path) (h : prot i q = true) : own (.iter j) q = false := by
  cases q <;> simp_all [prot, own] <;> omega

theorem listSamples_of_files (sys : Sys S) (b : Base) (s : S) (fs : FS Path) (h : FilesOf sys b s fs) :
    ∀ fuel k, k + fuel = sys.nsamp + 1 →
      listSamples fs b fuel k = (List.range' k (sys.nsamp - k)).map (sys.encSample s) := by
  intro fuel
  induction fuel with
  | zero => intro k hk; have : sys.nsamp - k = 0 := by omega
            simp [listSamples, this]
  | succ fuel ih =>
    intro k hk
    rcases Nat.lt_or_ge k sys.nsamp with hlt | hge
    · have e : sys.nsamp - k = (sys.nsamp - (k + 1)) + 1 := by omega
      rw [listSamples, h.1 k hlt, ih (k + 1) (by omega), e, List.range'_succ]; simp
    · have : k = sys.nsamp := by omega
      subst this
      simp [listSamples, h.2.1]

theorem load_of_goodAt {sys : Sys S} (hl : Lawful sys) (s0 : S) {total i : Nat} (hi : i < total) {fs : FS Path}
    (hg : GoodAt sys s0 i fs) :
    load sys .all true total s0 fs = .ok (i + 1, sAfter sys s0 (i + 1), false) := by
  obtain ⟨h1, hf, ⟨e, he, hoe⟩, _, ⟨r, hr, hor⟩⟩ := hg
  have hls := listSamples_of_files sys _ _ fs hf (sys.nsamp + 1) 0 (by omega)
  rw [Nat.sub_zero, ← List.range_eq_range'] at hls
  have hne : ((List.range sys.nsamp).map (sys.encSample (sAfter sys s0 (i + 1)))).isEmpty = false := by
    obtain ⟨m, hm⟩ : ∃ m, sys.nsamp = m + 1 := ⟨sys.nsamp - 1, by have := hl.nsamp_pos; omega⟩
    rw [hm, List.range_succ]; simp
  have hcond : ((sys.encMean (sAfter sys s0 (i + 1))).isNone &&
      ((List.range sys.nsamp).map (sys.encSample (sAfter sys s0 (i + 1)))).length != 1) = false := by
    cases hm : sys.encMean (sAfter sys s0 (i + 1)) with
    | some c => simp
    | none => simp [hl.map_one _ hm]
  unfold load
  simp only [if_true, h1, hl.parse_digits, baseOf, hf.2.2, hls, hne, hcond, hl.dec_enc, loadable, hr, hor, he, hoe]
  by_cases ht : i + 1 = total
  · simp [ht]
  · simp [ht]

/-- loop precondition at iteration `j` -/
def Pre (sys : Sys S) (s0 : S) (j : Nat) (fs : FS Path) : Prop :=
  (j = 0 ∧ fs .marker = none ∧ ∃ r, fs .rstate = some r ∧ sys.okR r = true) ∨ (∃ i, j = i + 1 ∧ GoodAt sys s0 i fs)

theorem pre_good {sys : Sys S} {s0 : S} {total j : Nat} (hj : j ≤ total) {fs : FS Path} (h : Pre sys s0 j fs) :
    Good sys s0 total fs := by
  rcases h with ⟨_, h, _⟩ | ⟨i, rfl, h⟩
  · exact Or.inl h
  · exact Or.inr ⟨i, by omega, h⟩

/-- every crash point before the marker of iteration `j` moves keeps the precondition -/
theorem pre_body_prefix {sys : Sys S} {s0 : S} {j : Nat} {fs : FS Path} (h : Pre sys s0 j fs) (s' : S)
    {pre : List (Op Path)} (hp : pre <+: body sys .all j s') : Pre sys s0 j (execs fs pre) := by
  rcases h with ⟨h0, h1, r, hr, hor⟩ | ⟨i, rfl, h⟩
  · refine Or.inl ⟨h0, ?_, r, ?_, hor⟩
    · rw [body_prefix_frame sys .all j s' _ (by simp [own]) hp]; exact h1
    · rw [body_prefix_frame sys .all j s' _ (by simp [own]) hp]; exact hr
  · refine Or.inr ⟨i, rfl, goodAt_congr sys s0 i (fun q hq => ?_) h⟩
    exact body_prefix_frame sys .all (i + 1) s' q (own_of_prot (by omega) q hq) hp fs

/-- a completed iteration `j` (marker moved, counting report appended or not) establishes `GoodAt j` -/
theorem goodAt_after_iter {sys : Sys S} (hl : Lawful sys) {s0 : S} {j : Nat} {fs : FS Path} (h : Pre sys s0 j fs)
    {t : List (Op Path)} (ht : t <+: appendFile .counting (sys.msgC j)) :
    GoodAt sys s0 j
      (execs fs (body sys .all j (sys.step j (sAfter sys s0 j)) ++ [Op.replace .markerTmp .marker] ++ t)) := by
  have hb := body_full sys .all j (sys.step j (sAfter sys s0 j)) fs
  simp only [baseOf] at hb
  obtain ⟨b1, b2, b3, b4, b5, b6⟩ := hb
  have hpre := pre_body_prefix h (sys.step j (sAfter sys s0 j)) (List.prefix_refl _)
  have hrs : ∃ r, execs fs (body sys .all j (sys.step j (sAfter sys s0 j))) .rstate = some r ∧ sys.okR r = true := by
    rcases hpre with ⟨_, _, hr⟩ | ⟨i, _, hg⟩
    · exact hr
    · exact hg.2.2.2.2
  -- after the replace
  have key : GoodAt sys s0 j (exec (execs fs (body sys .all j (sys.step j (sAfter sys s0 j)))) (Op.replace .markerTmp .marker)) := by
    refine ⟨?_, ⟨?_, ?_, ?_⟩, ?_, ?_, ?_⟩
    · simp [exec, FS.set, b6]
    · intro k hk; simp [exec, FS.set]; exact b1 k hk
    · simp [exec, FS.set]; exact b2
    · simp [exec, FS.set]; exact b3
    · exact ⟨_, by simp [exec, FS.set]; exact b4, hl.okE_enc j⟩
    · exact ⟨_, by simp [exec, FS.set]; exact b5, hl.okM_enc j⟩
    · obtain ⟨r, hr, hor⟩ := hrs
      exact ⟨r, by simp [exec, FS.set]; exact hr, hor⟩
  rw [List.append_assoc, execs_append, List.singleton_append, execs_cons]
  refine goodAt_congr sys s0 j (fun q hq => ?_) key
  refine execs_frame t q (fun o ho hto => ?_) _
  have := appendFile_touches _ _ _ o (mem_of_mem_prefix ht ho) hto
  subst this; simp [prot] at hq

theorem sAfter_succ (sys : Sys S) (s0 : S) (j : Nat) : sAfter sys s0 (j + 1) = sys.step j (sAfter sys s0 j) := rfl

/-- the loop from a state satisfying `Pre j` (strategy `all`, repaired): it never raises, returns the uninterrupted result,
    and every crash point leaves a `Good` directory -/
theorem loop_good {sys : Sys S} (hl : Lawful sys) (s0 : S) (total : Nat) :
    ∀ (fuel j : Nat) (fs : FS Path), j + fuel = total → Pre sys s0 j fs →
      (loop sys .repaired .all fuel j (sAfter sys s0 j) fs).2 = .ok (sAfter sys s0 total) ∧
      ∀ pre, pre <+: (loop sys .repaired .all fuel j (sAfter sys s0 j) fs).1 → Good sys s0 total (execs fs pre) := by
  intro fuel
  induction fuel with
  | zero =>
    intro j fs hj hpre
    have : j = total := by omega
    subst this
    refine ⟨rfl, ?_⟩
    intro pre hp
    have : pre = [] := by simpa [loop] using hp
    subst this; exact pre_good (Nat.le_refl _) hpre
  | succ fuel ih =>
    intro j fs hj hpre
    -- the minisanity-history check in the middle of the iteration passes
    have hA := iterOpsA_prefix_body sys j (sys.step j (sAfter sys s0 j))
    have hchk : (if j = 0 then Except.ok () else
        loadable (execs fs (iterOpsA sys .repaired .all j (sys.step j (sAfter sys s0 j))))
          (.mhist (baseOf .all (j - 1))) sys.okM) = Except.ok () := by
      by_cases h0 : j = 0
      · simp [h0]
      · simp only [h0, if_false]
        have hp := pre_body_prefix hpre (sys.step j (sAfter sys s0 j)) hA
        rcases hp with ⟨h, _⟩ | ⟨i, hi, hg⟩
        · exact (h0 h).elim
        · obtain ⟨m, hm, hom⟩ := hg.2.2.2.1
          have : j - 1 = i := by omega
          simp [loadable, baseOf, this, hm, hom]
    have hpre' : Pre sys s0 (j + 1) (execs fs (iterOpsA sys .repaired .all j (sys.step j (sAfter sys s0 j)) ++
        iterOpsB sys .repaired .all j)) := by
      rw [iterOps_eq_all]
      exact Or.inr ⟨j, rfl, goodAt_after_iter hl hpre (List.prefix_refl _)⟩
    have hrec := ih (j + 1) _ (by omega) hpre'
    rw [sAfter_succ] at hrec
    simp only [loop, hchk]
    rw [← execs_append]
    refine ⟨hrec.1, ?_⟩
    intro pre hp
    rcases prefix_append_cases hp with h | ⟨t, rfl, ht⟩
    · -- crash inside iteration j
      rw [iterOps_eq_all, List.append_assoc] at h
      rcases prefix_append_cases h with h1 | ⟨t1, rfl, ht1⟩
      · exact pre_good (by omega) (pre_body_prefix hpre _ h1)
      · rw [List.singleton_append, List.prefix_cons_iff] at ht1
        rcases ht1 with rfl | ⟨t2, rfl, ht2⟩
        · rw [List.append_nil]
          exact pre_good (by omega) (pre_body_prefix hpre _ (List.prefix_refl _))
        · refine Or.inr ⟨j, by omega, ?_⟩
          have := goodAt_after_iter hl hpre ht2
          simpa [List.append_assoc] using this
    · rw [execs_append]
      exact hrec.2 t ht

/-- every start of the driver on a `Good` directory (resume=True, or any flag on the empty directory) returns the
    uninterrupted result and every crash point of it leaves a `Good` directory -/
theorem run_good {sys : Sys S} (hl : Lawful sys) (s0 : S) (total : Nat) {fs : FS Path} (resume : Bool)
    (hg : Good sys s0 total fs) (hres : resume = true ∨ fs .marker = none) :
    (run sys .repaired .all resume total s0 fs).2 = .ok (sAfter sys s0 total) ∧
      ∀ pre, pre <+: (run sys .repaired .all resume total s0 fs).1 → Good sys s0 total (execs fs pre) := by
  have fresh : fs .marker = none →
      load sys .all resume total s0 fs = .ok (0, s0, true) := by
    intro h; cases resume <;> simp [load, h]
  have mk_untouched : ∀ o ∈ preOps, ∀ q, Op.touches q o = true → False := by
    intro o ho q hq; simp [preOps] at ho; rcases ho with rfl | rfl <;> simp [Op.touches] at hq
  have case_fresh : fs .marker = none →
      ((run sys .repaired .all resume total s0 fs).2 = .ok (sAfter sys s0 total) ∧
        ∀ pre, pre <+: (run sys .repaired .all resume total s0 fs).1 → Good sys s0 total (execs fs pre)) := by
    intro hm
    have hload := fresh hm
    simp only [run, hload, if_true, Nat.sub_zero]
    have hpre0 : Pre sys s0 0 (execs fs (preOps ++ writeFile .rstate sys.rs)) := by
      refine Or.inl ⟨rfl, ?_, sys.rs, ?_, hl.okR_rs⟩
      · rw [execs_frame]; exact hm
        intro o ho hq
        rcases List.mem_append.1 ho with h | h
        · exact mk_untouched o h _ hq
        · cases writeFile_touches _ _ _ o h hq
      · rw [execs_append]; exact execs_writeFile _ _ _
    have hrec := loop_good hl s0 total total 0 _ (by omega) hpre0
    refine ⟨hrec.1, ?_⟩
    intro pre hp
    rcases prefix_append_cases hp with h | ⟨t, rfl, ht⟩
    · left
      rw [execs_frame]; exact hm
      intro o ho hq
      rcases List.mem_append.1 (mem_of_mem_prefix h ho) with h | h
      · exact mk_untouched o h _ hq
      · cases writeFile_touches _ _ _ o h hq
    · rw [execs_append]; exact hrec.2 t ht
  rcases hg with hm | ⟨i, hi, hgi⟩
  · exact case_fresh hm
  · rcases hres with rfl | hm
    · have hload := load_of_goodAt hl s0 hi hgi
      simp only [run, hload, Bool.false_eq_true, if_false, List.append_nil]
      have hfr : ∀ (pre : List (Op Path)), pre <+: preOps → ∀ q, execs fs pre q = fs q := by
        intro pre hp q
        exact execs_frame pre q (fun o ho hq => mk_untouched o (mem_of_mem_prefix hp ho) q hq) fs
      have hprei : Pre sys s0 (i + 1) (execs fs preOps) :=
        Or.inr ⟨i, rfl, goodAt_congr sys s0 i (fun q _ => hfr _ (List.prefix_refl _) q) hgi⟩
      have hrec := loop_good hl s0 total (total - (i + 1)) (i + 1) _ (by omega) hprei
      refine ⟨hrec.1, ?_⟩
      intro pre hp
      rcases prefix_append_cases hp with h | ⟨t, rfl, ht⟩
      · exact Or.inr ⟨i, hi, goodAt_congr sys s0 i (fun q _ => hfr _ h q) hgi⟩
      · rw [execs_append]; exact hrec.2 t ht
    · exact case_fresh hm

/-- the directories that can be met (save strategy `all`, repaired protocol): a first run with either `resume` flag on the
    empty directory, killed after any number of byte-granular operations; then any number of `resume=True` runs, each
    killed anywhere (or not at all) -/
inductive Reach (sys : Sys S) (proto : Proto) (strat : Strategy) (total : Nat) (s0 : S) : FS Path → Prop
  | first (r0 : Bool) (k : Nat) :
      Reach sys proto strat total s0 (crash FS.empty (run sys proto strat r0 total s0 FS.empty).1 k)
  | again (fs : FS Path) (k : Nat) : Reach sys proto strat total s0 fs →
      Reach sys proto strat total s0 (crash fs (run sys proto strat true total s0 fs).1 k)

theorem reach_good {sys : Sys S} (hl : Lawful sys) (s0 : S) (total : Nat) {fs : FS Path}
    (hr : Reach sys .repaired .all total s0 fs) : Good sys s0 total fs := by
  induction hr with
  | first r0 k =>
    exact (run_good hl s0 total r0 (Or.inl rfl) (Or.inr rfl)).2 _ (List.take_prefix _ _)
  | again fs k _ ih =>
    exact (run_good hl s0 total true ih (Or.inl rfl)).2 _ (List.take_prefix _ _)

end NiftyVerif.CrashCl
