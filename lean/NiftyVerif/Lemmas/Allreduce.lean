/-
  Helper lemmas for C23 (generic in the event list): splitting a projection at its head, commutation of
  slot-disjoint events, the run invariant.
-/
import NiftyVerif.Model.Allreduce
import Mathlib.Tactic.Ring
import Mathlib.Tactic.Linarith

namespace NiftyVerif.Allreduce

/-! ### `act` inversions -/

theorem act_eq_loc {who r e e0} (h : act who r e0 = some (.loc e)) :
    e0 = e ∧ r = who e.dst ∧ who e.dst = who e.src := by
  unfold act at h
  split at h
  · split at h
    · injection h with h; injection h with h; subst h; exact ⟨rfl, ‹_›, ‹_›⟩
    · injection h with h; cases h
  · split at h
    · injection h with h; cases h
    · cases h

theorem act_eq_recv {who r b e e0} (h : act who r e0 = some (.recv b e)) :
    e0 = e ∧ r = who e.dst ∧ b = who e.src ∧ who e.dst ≠ who e.src := by
  unfold act at h
  split at h
  · split at h
    · injection h with h; cases h
    · injection h with h; injection h with h1 h2; subst h2; exact ⟨rfl, ‹_›, h1.symm, ‹_›⟩
  · split at h
    · injection h with h; cases h
    · cases h

theorem act_eq_send {who r a e e0} (h : act who r e0 = some (.send a e)) :
    e0 = e ∧ r = who e.src ∧ a = who e.dst ∧ r ≠ who e.dst := by
  unfold act at h
  split at h
  · split at h
    · injection h with h; cases h
    · injection h with h; cases h
  · split at h
    · injection h with h; injection h with h1 h2; subst h2; exact ⟨rfl, ‹_›, h1.symm, ‹_›⟩
    · cases h

theorem act_none_iff {who r e} : act who r e = none ↔ r ≠ who e.dst ∧ r ≠ who e.src := by
  unfold act
  constructor
  · intro h
    split at h
    · split at h <;> cases h
    · split at h
      · cases h
      · exact ⟨‹_›, ‹_›⟩
  · rintro ⟨h1, h2⟩
    simp [h1, h2]

theorem act_dst {who e} (h : who e.dst = who e.src) : act who (who e.dst) e = some (.loc e) := by
  simp [act, h]

theorem act_dst' {who e} (h : who e.dst ≠ who e.src) :
    act who (who e.dst) e = some (.recv (who e.src) e) := by
  simp [act, h]

theorem act_src' {who e} (h : who e.dst ≠ who e.src) :
    act who (who e.src) e = some (.send (who e.dst) e) := by
  have h' : who e.src ≠ who e.dst := fun x => h x.symm
  simp [act, h']

/-! ### splitting a program at its head -/

theorem proj_nil_of_forall {who r} {R : List Ev} (h : ∀ f ∈ R, act who r f = none) : proj who r R = [] := by
  induction R with
  | nil => rfl
  | cons f R ih =>
    have h1 := h f (List.mem_cons_self ..)
    have h2 := ih (fun g hg => h g (List.mem_cons_of_mem _ hg))
    simp [proj, h1] at h2 ⊢
    exact h2

theorem proj_append {who r} (R1 R2 : List Ev) : proj who r (R1 ++ R2) = proj who r R1 ++ proj who r R2 := by
  simp [proj, List.filterMap_append]

theorem proj_cons_some {who r e a} {R : List Ev} (h : act who r e = some a) :
    proj who r (e :: R) = a :: proj who r R := by
  simp [proj, h]

theorem proj_cons_none {who r e} {R : List Ev} (h : act who r e = none) :
    proj who r (e :: R) = proj who r R := by
  simp [proj, h]

/-- if rank `r`'s program starts with `a`, the remaining event list splits at the first event involving `r` -/
theorem proj_split {who r a rest} : ∀ {R : List Ev}, proj who r R = a :: rest →
    ∃ R1 e R2, R = R1 ++ e :: R2 ∧ (∀ f ∈ R1, act who r f = none) ∧ act who r e = some a ∧
      proj who r R2 = rest := by
  intro R
  induction R with
  | nil => intro h; simp [proj] at h
  | cons f R ih =>
    intro h
    cases hf : act who r f with
    | none =>
      rw [proj_cons_none hf] at h
      obtain ⟨R1, e, R2, h1, h2, h3, h4⟩ := ih h
      refine ⟨f :: R1, e, R2, by simp [h1], ?_, h3, h4⟩
      intro g hg
      rcases List.mem_cons.mp hg with hg | hg
      · subst hg; exact hf
      · exact h2 g hg
    | some a' =>
      rw [proj_cons_some hf] at h
      injection h with h1 h2
      subst h1
      exact ⟨[], f, R, rfl, by simp, hf, h2⟩

/-- two splittings of the same list: same position, or one distinguished element lies in the other prefix -/
theorem split_unique {α} : ∀ (R1 R1' : List α) {e e' R2 R2'}, R1 ++ e :: R2 = R1' ++ e' :: R2' →
    (R1 = R1' ∧ e = e' ∧ R2 = R2') ∨ e ∈ R1' ∨ e' ∈ R1 := by
  intro R1
  induction R1 with
  | nil =>
    intro R1' e e' R2 R2' h
    cases R1' with
    | nil => simp at h; left; exact ⟨rfl, h.1, h.2⟩
    | cons x R1' => simp at h; right; left; simp [h.1]
  | cons x R1 ih =>
    intro R1' e e' R2 R2' h
    cases R1' with
    | nil => simp at h; right; right; simp [h.1]
    | cons y R1' =>
      simp at h
      rcases ih R1' h.2 with ⟨h1, h2, h3⟩ | h1 | h1
      · left; exact ⟨by simp [h.1, h1], h2, h3⟩
      · right; left; exact List.mem_cons_of_mem _ h1
      · right; right; exact List.mem_cons_of_mem _ h1

/-! ### commutation of slot-disjoint events -/

def Disj (e f : Ev) : Prop := e.dst ≠ f.dst ∧ e.dst ≠ f.src ∧ e.src ≠ f.dst ∧ e.src ≠ f.src

theorem exec_comm {e f : Ev} (h : Disj e f) (s : Store) : exec e (exec f s) = exec f (exec e s) := by
  obtain ⟨h1, h2, h3, h4⟩ := h
  have h1' := Ne.symm h1; have h2' := Ne.symm h2; have h3' := Ne.symm h3; have h4' := Ne.symm h4
  funext x
  unfold exec
  cases e.fin <;> cases f.fin <;> simp only [upd, Bool.false_eq_true, ↓reduceIte]
  simp only [h1, h2, h3, h4, h1', h2', h3', h4', ↓reduceIte]
  by_cases a1 : x = e.src <;> by_cases a2 : x = f.src <;> by_cases a3 : x = e.dst <;> by_cases a4 : x = f.dst <;>
    simp_all

theorem execAll_cons (e : Ev) (R : List Ev) (s : Store) : execAll (e :: R) s = execAll R (exec e s) := rfl

theorem execAll_append (R1 R2 : List Ev) (s : Store) : execAll (R1 ++ R2) s = execAll R2 (execAll R1 s) := by
  simp [execAll, List.foldl_append]

/-- an event that is slot-disjoint from everything before it can be executed first -/
theorem execAll_pull {e : Ev} : ∀ (R1 : List Ev) (R2 : List Ev) (s : Store), (∀ f ∈ R1, Disj e f) →
    execAll (R1 ++ e :: R2) s = execAll (R1 ++ R2) (exec e s) := by
  intro R1
  induction R1 with
  | nil => intro R2 s _; rfl
  | cons f R1 ih =>
    intro R2 s h
    have hf := h f (List.mem_cons_self ..)
    have := ih R2 (exec f s) (fun g hg => h g (List.mem_cons_of_mem _ hg))
    simp only [List.cons_append, execAll_cons]
    rw [this, exec_comm hf]

/-- no participation of rank `who e.dst` / `who e.src` in `f` means disjoint slots -/
theorem disj_of_act_none {who} {e f : Ev} (h1 : act who (who e.dst) f = none) (h2 : act who (who e.src) f = none) :
    Disj e f := by
  rw [act_none_iff] at h1 h2
  refine ⟨?_, ?_, ?_, ?_⟩ <;> intro h
  · exact h1.1 (by rw [h])
  · exact h1.2 (by rw [h])
  · exact h2.1 (by rw [h])
  · exact h2.2 (by rw [h])

theorem execRdv_self (e : Ev) (s : Store) : execRdv e e s = exec e s := by
  unfold execRdv exec
  cases e.fin <;> simp

/-! ### the run invariant -/

/-- there is a list `R` of remaining events such that every rank's remaining program is the projection of `R`,
    and running `R` serially from the current slots gives the serial result -/
def Inv (who : Nat → Nat) (E : List Ev) (init : Store) (k : Nat) (st : St) : Prop :=
  ∃ R : List Ev, (∀ r, st.prog r = proj who r R) ∧ execAll R st.store = execAll E init ∧
    R.length + k = E.length ∧ (∀ e ∈ R, e ∈ E)

theorem inv_init (who E init) : Inv who E init 0 (initSt who E init) :=
  ⟨E, fun _ => rfl, rfl, rfl, fun _ h => h⟩

/-- what a matched send/recv pair at two heads looks like under the invariant: it is one and the same event,
    and it is the first remaining event for both ranks -/
theorem rdv_same_event {who a b e e' ra rb} {R : List Ev} {prog : Nat → List Act}
    (hR : ∀ r, prog r = proj who r R) (ha : prog a = .recv b e :: ra) (hb : prog b = .send a e' :: rb) :
    e = e' ∧ a = who e.dst ∧ b = who e.src ∧ a ≠ b ∧
    ∃ R1 R2, R = R1 ++ e :: R2 ∧ (∀ f ∈ R1, act who a f = none) ∧ (∀ f ∈ R1, act who b f = none) ∧
      proj who a R2 = ra ∧ proj who b R2 = rb := by
  rw [hR a] at ha
  rw [hR b] at hb
  obtain ⟨R1, e0, R2, h1, h2, h3, h4⟩ := proj_split ha
  obtain ⟨R1', e0', R2', h1', h2', h3', h4'⟩ := proj_split hb
  obtain ⟨rfl, ha1, hb1, hne⟩ := act_eq_recv h3
  obtain ⟨rfl, hb2, ha2, hne2⟩ := act_eq_send h3'
  have hab : a ≠ b := by rw [ha1, hb1]; exact hne
  rcases split_unique R1 R1' (h1.symm.trans h1') with ⟨e1, e2, e3⟩ | hm | hm
  · subst e1; subst e2; subst e3
    exact ⟨rfl, ha1, hb1, hab, R1, R2, h1, h2, h2', h4, h4'⟩
  · -- e0 lies before e0' in R: but e0 involves b
    have := h2' e0 hm
    rw [hb1, act_src' hne] at this
    cases this
  · have := h2 e0' hm
    rw [ha2] at this
    have hne' : who e0'.dst ≠ who e0'.src := by rw [← hb2]; exact fun x => hne2 x.symm
    rw [act_dst' hne'] at this
    cases this

theorem inv_step {who E init k st st'} (hinv : Inv who E init k st) (hs : Step st st') :
    Inv who E init (k + 1) st' := by
  obtain ⟨R, hR, hex, hlen, hsub⟩ := hinv
  cases hs with
  | loc r e rest hp =>
    rw [hR r] at hp
    obtain ⟨R1, e0, R2, h1, h2, h3, h4⟩ := proj_split hp
    obtain ⟨rfl, hr, hloc⟩ := act_eq_loc h3
    refine ⟨R1 ++ R2, ?_, ?_, ?_, ?_⟩
    · intro x
      simp only [setProg]
      by_cases hx : x = r
      · subst hx
        simp only [if_true, proj_append, proj_nil_of_forall h2, List.nil_append, h4]
      · simp only [hx, if_false, hR x, h1, proj_append]
        have : act who x e0 = none := by
          rw [act_none_iff]; rw [← hloc, ← hr]; exact ⟨hx, hx⟩
        rw [proj_cons_none this]
    · simp only
      rw [← hex, h1]
      symm
      apply execAll_pull
      intro f hf
      apply disj_of_act_none (who := who)
      · rw [← hr]; exact h2 f hf
      · rw [← hloc, ← hr]; exact h2 f hf
    · rw [h1] at hlen; simp at hlen ⊢; omega
    · intro x hx
      apply hsub; rw [h1]
      rcases List.mem_append.mp hx with h | h
      · exact List.mem_append_left _ h
      · exact List.mem_append_right _ (List.mem_cons_of_mem _ h)
  | rdv a b e e' ra rb hab ha hb =>
    obtain ⟨rfl, ha1, hb1, _, R1, R2, h1, h2, h2', h4, h4'⟩ := rdv_same_event hR ha hb
    refine ⟨R1 ++ R2, ?_, ?_, ?_, ?_⟩
    · intro x
      simp only [setProg]
      by_cases hxb : x = b
      · subst hxb
        simp only [if_true, proj_append, proj_nil_of_forall h2', List.nil_append, h4']
      · by_cases hxa : x = a
        · subst hxa
          simp only [hxb, if_false, if_true, proj_append, proj_nil_of_forall h2, List.nil_append, h4]
        · simp only [hxa, hxb, if_false, hR x, h1, proj_append]
          have : act who x e = none := by
            rw [act_none_iff]; rw [← ha1, ← hb1]; exact ⟨hxa, hxb⟩
          rw [proj_cons_none this]
    · simp only [execRdv_self]
      rw [← hex, h1]
      symm
      apply execAll_pull
      intro f hf
      apply disj_of_act_none (who := who)
      · rw [← ha1]; exact h2 f hf
      · rw [← hb1]; exact h2' f hf
    · rw [h1] at hlen; simp at hlen ⊢; omega
    · intro x hx
      apply hsub; rw [h1]
      rcases List.mem_append.mp hx with h | h
      · exact List.mem_append_left _ h
      · exact List.mem_append_right _ (List.mem_cons_of_mem _ h)

theorem inv_reach {who E init k st} (h : Reach who E init k st) : Inv who E init k st := by
  induction h with
  | zero => exact inv_init who E init
  | succ _ hs ih => exact inv_step ih hs

/-- under the invariant, a state in which some rank still has work can move -/
theorem inv_progress {who E init k st} (hinv : Inv who E init k st) (hne : ∃ r, st.prog r ≠ []) :
    ∃ st', Step st st' := by
  obtain ⟨R, hR, _, _, _⟩ := hinv
  cases R with
  | nil =>
    obtain ⟨r, hr⟩ := hne
    exact absurd (by rw [hR r]; rfl) hr
  | cons e R =>
    by_cases h : who e.dst = who e.src
    · have hp := hR (who e.dst)
      rw [proj_cons_some (act_dst h)] at hp
      exact ⟨_, Step.loc st _ e _ hp⟩
    · have hp := hR (who e.dst)
      rw [proj_cons_some (act_dst' h)] at hp
      have hq := hR (who e.src)
      rw [proj_cons_some (act_src' h)] at hq
      exact ⟨_, Step.rdv st _ _ e e _ _ h hp hq⟩

/-- under the invariant, if all programs are empty, nothing remains and the slots hold the serial result -/
theorem inv_final {who E init k st} (hinv : Inv who E init k st) (hfin : ∀ r, st.prog r = []) :
    st.store = execAll E init ∧ k = E.length := by
  obtain ⟨R, hR, hex, hlen, _⟩ := hinv
  cases R with
  | nil => exact ⟨hex, by simpa using hlen⟩
  | cons e R =>
    exfalso
    have hp := hR (who e.dst)
    rw [hfin] at hp
    by_cases h : who e.dst = who e.src
    · rw [proj_cons_some (act_dst h)] at hp; cases hp
    · rw [proj_cons_some (act_dst' h)] at hp; cases hp

end NiftyVerif.Allreduce
