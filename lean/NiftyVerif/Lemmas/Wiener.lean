/-
  Matrix lemmas shared by C20 (Wiener filter / MAP / MGVI fixed point) and C18 (MGVI sample covariance).
  `R : Matrix m n ℝ` response (arbitrary, may be rank deficient), `N : Matrix m m ℝ` noise covariance (positive definite).
-/
import Mathlib.LinearAlgebra.Matrix.PosDef
import Mathlib.LinearAlgebra.Matrix.NonsingularInverse
import Mathlib.Data.Real.Star
import Mathlib.Algebra.Order.Star.Real
import Mathlib.Tactic.Ring
import Mathlib.Tactic.Linarith
import Mathlib.Tactic.NoncommRing

namespace NiftyVerif.Wiener
open Matrix

variable {m n : Type} [Fintype m] [Fintype n] [DecidableEq m] [DecidableEq n]

/-- posterior precision ("metric") in signal space: `D = Rᵀ N⁻¹ R + 1` -/
noncomputable def D (R : Matrix m n ℝ) (N : Matrix m m ℝ) : Matrix n n ℝ := Rᵀ * N⁻¹ * R + 1

/-- data-space covariance: `G = R Rᵀ + N` -/
def G (R : Matrix m n ℝ) (N : Matrix m m ℝ) : Matrix m m ℝ := R * Rᵀ + N

theorem D_posDef (R : Matrix m n ℝ) {N : Matrix m m ℝ} (hN : N.PosDef) : (D R N).PosDef := by
  have h1 : (Rᴴ * N⁻¹ * R).PosSemidef := hN.inv.posSemidef.conjTranspose_mul_mul_same R
  rw [conjTranspose_eq_transpose_of_trivial] at h1
  exact PosDef.posSemidef_add h1 PosDef.one

theorem G_posDef (R : Matrix m n ℝ) {N : Matrix m m ℝ} (hN : N.PosDef) : (G R N).PosDef := by
  have h1 : (R * Rᴴ).PosSemidef := posSemidef_self_mul_conjTranspose R
  rw [conjTranspose_eq_transpose_of_trivial] at h1
  exact PosDef.posSemidef_add h1 hN

theorem det_isUnit_of_posDef {k : Type} [Fintype k] [DecidableEq k] {M : Matrix k k ℝ} (h : M.PosDef) :
    IsUnit M.det := (Matrix.isUnit_iff_isUnit_det M).mp h.isUnit

/-- the algebraic heart of the push-through identity: `Rᵀ N⁻¹ (R Rᵀ + N) = (Rᵀ N⁻¹ R + 1) Rᵀ` -/
theorem push_core (R : Matrix m n ℝ) {N : Matrix m m ℝ} (hN : IsUnit N.det) :
    Rᵀ * N⁻¹ * G R N = D R N * Rᵀ := by
  unfold G D
  rw [Matrix.mul_add, Matrix.add_mul, Matrix.one_mul, Matrix.mul_assoc Rᵀ N⁻¹ N, Matrix.nonsing_inv_mul N hN,
    Matrix.mul_one]
  simp only [Matrix.mul_assoc]

theorem D_symm (R : Matrix m n ℝ) {N : Matrix m m ℝ} (hN : N.PosDef) : (D R N)ᵀ = D R N := by
  have := (D_posDef R hN).isHermitian
  rwa [IsHermitian, conjTranspose_eq_transpose_of_trivial] at this

theorem Ninv_symm {N : Matrix m m ℝ} (hN : N.PosDef) : (N⁻¹)ᵀ = N⁻¹ := by
  have := hN.inv.isHermitian
  rwa [IsHermitian, conjTranspose_eq_transpose_of_trivial] at this

/-- for a symmetric `P`: `(u − v)·P(u − v) = u·Pu − 2 v·Pu + v·Pv` -/
theorem quad_sub {k : Type} [Fintype k] (P : Matrix k k ℝ) (hP : Pᵀ = P) (u v : k → ℝ) :
    (u - v) ⬝ᵥ P *ᵥ (u - v) = u ⬝ᵥ P *ᵥ u - 2 * (v ⬝ᵥ P *ᵥ u) + v ⬝ᵥ P *ᵥ v := by
  have hs : u ⬝ᵥ P *ᵥ v = v ⬝ᵥ P *ᵥ u := by
    rw [dotProduct_mulVec, ← hP, vecMul_transpose, dotProduct_comm, hP]
  simp only [mulVec_sub, sub_dotProduct, dotProduct_sub, hs]
  ring

theorem quad_add {k : Type} [Fintype k] (P : Matrix k k ℝ) (hP : Pᵀ = P) (u v : k → ℝ) :
    (u + v) ⬝ᵥ P *ᵥ (u + v) = u ⬝ᵥ P *ᵥ u + 2 * (v ⬝ᵥ P *ᵥ u) + v ⬝ᵥ P *ᵥ v := by
  have hs : u ⬝ᵥ P *ᵥ v = v ⬝ᵥ P *ᵥ u := by
    rw [dotProduct_mulVec, ← hP, vecMul_transpose, dotProduct_comm, hP]
  simp only [mulVec_add, add_dotProduct, dotProduct_add, hs]
  ring

end NiftyVerif.Wiener
