/-
  Helper lemmas for C29: covariance forms (second moments as a symmetric bilinear form on the space of
  random variables spanned by the excitations) and one-step covariance algebra of the model recursions.
-/
import NiftyVerif.Model.GaussMarkov
import Mathlib.Algebra.Module.Basic
import Mathlib.Algebra.Module.Pi
import Mathlib.Algebra.BigOperators.Ring.Finset
import Mathlib.Algebra.BigOperators.Intervals
import Mathlib.Algebra.Order.Field.Basic
import Mathlib.Tactic.Ring
import Mathlib.Tactic.Linarith
import Mathlib.Tactic.FieldSimp
import Mathlib.Tactic.LinearCombination
import Mathlib.Tactic.Abel
import Mathlib.Algebra.BigOperators.Fin

namespace NiftyVerif.GaussMarkov

/-- A covariance form: `B x y = Cov(x,y)` on a `K`-module `W` of (centred) random variables.
    Instance used for the tie: `W = Fin N → K` (coefficient vectors w.r.t. the excitations),
    `B = dot product`, excitation `ξ_k = e_k`; then `B (row_i A) (row_j A) = (A Aᵀ)_{ij}`. -/
structure CovForm (K W : Type) [Field K] [AddCommGroup W] [Module K W] where
  B : W → W → K
  add_left : ∀ x y z, B (x + y) z = B x z + B y z
  smul_left : ∀ (a : K) x z, B (a • x) z = a * B x z
  symm : ∀ x y, B x y = B y x

namespace CovForm
variable {K W : Type} [Field K] [AddCommGroup W] [Module K W] (c : CovForm K W)

theorem add_right (x y z : W) : c.B x (y + z) = c.B x y + c.B x z := by
  rw [c.symm, c.add_left, c.symm y, c.symm z]

theorem smul_right (a : K) (x y : W) : c.B x (a • y) = a * c.B x y := by
  rw [c.symm, c.smul_left, c.symm y]

theorem zero_left (z : W) : c.B 0 z = 0 := by
  have := c.smul_left 0 0 z
  simpa using this

theorem zero_right (z : W) : c.B z 0 = 0 := by rw [c.symm, c.zero_left]

end CovForm

/-- the dot-product covariance form on coefficient vectors: the instance behind "A Aᵀ" -/
def dotForm (K : Type) [Field K] (n : Nat) : CovForm K (Fin n → K) where
  B x y := ∑ i, x i * y i
  add_left x y z := by simp [add_mul, Finset.sum_add_distrib]
  smul_left a x z := by simp [Finset.mul_sum, mul_assoc]
  symm x y := by simp [mul_comm]

/-- orthonormal excitations: `Cov(ξ_k, ξ_l) = δ_kl` -/
def Orthonormal {K W : Type} [Field K] [AddCommGroup W] [Module K W] (c : CovForm K W) (ξ : Nat → W) : Prop :=
  ∀ k l, c.B (ξ k) (ξ l) = if k = l then 1 else 0

section cumsum
variable {K W : Type} [Field K] [AddCommGroup W] [Module K W] (c : CovForm K W)

theorem cumsumAt_succ (x0 : W) (incr : Nat → W) (i : Nat) :
    cumsumAt x0 incr (i + 1) = cumsumAt x0 incr i + incr i := rfl

theorem cumsumAt_zero (x0 : W) (incr : Nat → W) : cumsumAt x0 incr 0 = x0 := rfl

/-- a running sum is uncorrelated with anything its start and all its increments are uncorrelated with -/
theorem cov_cumsumAt_eq_zero (x0 : W) (incr : Nat → W) (z : W) (i : Nat)
    (h0 : c.B x0 z = 0) (h : ∀ k, k < i → c.B (incr k) z = 0) : c.B (cumsumAt x0 incr i) z = 0 := by
  induction i with
  | zero => simpa [cumsumAt] using h0
  | succ i ih =>
    rw [cumsumAt_succ, c.add_left, ih (fun k hk => h k (Nat.lt_succ_of_lt hk)), h i (Nat.lt_succ_self i), add_zero]

end cumsum

section wsum
variable {K W : Type} [Field K] [AddCommGroup W] [Module K W] (c : CovForm K W)
variable (ξ : Nat → W) (x0 : W) (a : Nat → K)

/-- running weighted sum of orthonormal excitations: each excitation enters exactly the later values -/
theorem cov_wsum_excitation (hξ : Orthonormal c ξ) (h0 : ∀ l, c.B x0 (ξ l) = 0) (i l : Nat) :
    c.B (cumsumAt x0 (fun k => a k • ξ k) i) (ξ l) = if l < i then a l else 0 := by
  induction i with
  | zero => simp [cumsumAt, h0]
  | succ i ih =>
    rw [cumsumAt_succ, c.add_left, c.smul_left, hξ i l, ih]
    by_cases h1 : l < i
    · have h2 : i ≠ l := by omega
      have h3 : l < i + 1 := by omega
      simp [h1, h2, h3]
    · by_cases h2 : i = l
      · subst h2; simp
      · have h3 : ¬ l < i + 1 := by omega
        simp [h1, h2, h3]

theorem cov_wsum_le (hξ : Orthonormal c ξ) (h0 : ∀ l, c.B x0 (ξ l) = 0) (i j : Nat) (hij : i ≤ j) :
    c.B (cumsumAt x0 (fun k => a k • ξ k) i) (cumsumAt x0 (fun k => a k • ξ k) j)
      = c.B x0 x0 + ∑ k ∈ Finset.range i, a k * a k := by
  induction j, hij using Nat.le_induction with
  | base =>
    induction i with
    | zero => simp [cumsumAt]
    | succ i ih =>
      have e := cov_wsum_excitation c ξ x0 a hξ h0 i i
      rw [cumsumAt_succ]
      simp only [c.add_left, c.add_right, c.smul_left, c.smul_right, ih, e,
        c.symm (ξ i) (cumsumAt x0 _ i), hξ i i, Finset.sum_range_succ]
      simp only [lt_irrefl, if_false, if_true]
      ring
  | succ j hij ih =>
    have e := cov_wsum_excitation c ξ x0 a hξ h0 i j
    have hji : ¬ j < i := by omega
    rw [cumsumAt_succ (i := j)]
    simp only [c.add_right, c.smul_right, ih, e, hji, if_false]
    ring

theorem cov_wsum (hξ : Orthonormal c ξ) (h0 : ∀ l, c.B x0 (ξ l) = 0) (i j : Nat) :
    c.B (cumsumAt x0 (fun k => a k • ξ k) i) (cumsumAt x0 (fun k => a k • ξ k) j)
      = c.B x0 x0 + ∑ k ∈ Finset.range (min i j), a k * a k := by
  rcases le_total i j with h | h
  · rw [cov_wsum_le c ξ x0 a hξ h0 i j h, min_eq_left h]
  · rw [c.symm, cov_wsum_le c ξ x0 a hξ h0 j i h, min_eq_right h]

end wsum

end NiftyVerif.GaussMarkov
