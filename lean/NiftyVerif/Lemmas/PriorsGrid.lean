/-
  The table abscissae of `interpolator(step=)` (`np.arange(xmin, xmax + step, step)`): equally spaced from `xmin`,
  non-empty, and covering `[xmin, xmax]` — the last abscissa lies in `[xmax, xmax + step)`.
-/
import NiftyVerif.Model.Priors
import Mathlib.Algebra.Order.Field.Basic
import Mathlib.Data.Rat.Defs
import Mathlib.Algebra.Order.Ring.Rat
import Mathlib.Tactic.Linarith
import Mathlib.Tactic.FieldSimp
import Mathlib.Tactic.Ring
import Mathlib.Tactic.Positivity

namespace NiftyVerif.Priors

theorem arange_length (start stop step : Rat) : (arange start stop step).length = arangeLen start stop step := by
  simp [arange]

theorem arange_get (start stop step : Rat) (i : Nat) (h : i < (arange start stop step).length) :
    (arange start stop step)[i] = start + (i : Rat) * step := by
  simp [arange]

/-- number of abscissae `n = ⌈(xmax + step − xmin)/step⌉` satisfies `t ≤ n < t + 1` with `t = (xmax+step−xmin)/step ≥ 1` -/
theorem arangeLen_bounds {xmin xmax step : Rat} (hs : 0 < step) (hx : xmin ≤ xmax) :
    1 ≤ arangeLen xmin (xmax + step) step ∧
      (xmax + step - xmin) / step ≤ (arangeLen xmin (xmax + step) step : Rat) ∧
      (arangeLen xmin (xmax + step) step : Rat) < (xmax + step - xmin) / step + 1 := by
  set t : Rat := (xmax + step - xmin) / step with ht
  have ht1 : 1 ≤ t := by rw [ht, le_div_iff₀ hs]; linarith
  have hc1 : t ≤ (t.ceil : Rat) := Rat.le_ceil
  have hc2 : (t.ceil : Rat) < t + 1 := Rat.ceil_lt
  have hpos : (1 : Int) ≤ t.ceil := by
    have : ((1 : Int) : Rat) ≤ (t.ceil : Rat) := by push_cast; linarith
    exact_mod_cast this
  have hnat : ((t.ceil.toNat : Nat) : Int) = t.ceil := Int.toNat_of_nonneg (by omega)
  have hcast : ((t.ceil.toNat : Nat) : Rat) = (t.ceil : Rat) := by exact_mod_cast congrArg (fun z : Int => (z : Rat)) hnat
  refine ⟨?_, ?_, ?_⟩
  · show 1 ≤ t.ceil.toNat; omega
  · show t ≤ ((t.ceil.toNat : Nat) : Rat); rw [hcast]; exact hc1
  · show ((t.ceil.toNat : Nat) : Rat) < t + 1; rw [hcast]; exact hc2

end NiftyVerif.Priors
