/-
  C21: a context body that only refers to seed sequences it created itself behaves the same from every entry state.
  `embed` places a "canonical" state (empty surroundings) inside arbitrary surroundings: extra heap prefix, extra stack
  below, earlier output, arbitrary `lastSpawn` until the body spawns for the first time.
-/
import NiftyVerif.Lemmas.Rng

namespace NiftyVerif.Rng

/-- the surroundings: heap prefix, stack below, earlier output, the outer `lastSpawn` -/
structure Env where
  pre : List SeqObj
  base : List Frame
  outPre : List Gen
  outerLast : List Nat

def shiftFrame (h : Nat) (f : Frame) : Frame := { f with ref := h + f.ref }

/-- `spawned = true`: the body has executed a `spawn`, so `lastSpawn` is its own (shifted) list -/
def embed (env : Env) (spawned : Bool) (x : St) : St :=
  { heap := env.pre ++ x.heap,
    stack := x.stack.map (shiftFrame env.pre.length) ++ env.base,
    lastSpawn := if spawned then x.lastSpawn.map (env.pre.length + ·) else env.outerLast,
    out := env.outPre ++ x.out }

/-- no `last i` before the body's own first `spawn` (program order, including nested contexts) ; returns the flag after -/
def closedFrom : Bool → Prog → Option Bool
  | sp, .done => some sp
  | sp, .raise _ => some sp
  | sp, .push s k => match s with
      | .seed _ => closedFrom sp k
      | .last _ => if sp then closedFrom sp k else none
  | sp, .pop k => closedFrom sp k
  | sp, .draw _ k => closedFrom sp k
  | _, .spawn _ k => closedFrom true k
  | sp, .ctx s body k =>
      match (match s with | .seed _ => some sp | .last _ => if sp then some sp else none) with
      | none => none
      | some sp1 => match closedFrom sp1 body with
        | none => none
        | some sp2 => closedFrom sp2 k

end NiftyVerif.Rng

namespace NiftyVerif.Rng

theorem getD_append_shift (pre l : List SeqObj) (r : Nat) (d : SeqObj) :
    (pre ++ l).getD (pre.length + r) d = l.getD r d := by
  simp [List.getD_eq_getElem?_getD, List.getElem?_append_right]

theorem set_append_shift (pre l : List SeqObj) (r : Nat) (v : SeqObj) :
    (pre ++ l).set (pre.length + r) v = pre ++ l.set r v := by
  rw [List.set_append_right _ _ (by omega)]
  simp

theorem embed_stack (env : Env) (sp : Bool) (x : St) :
    (embed env sp x).stack = x.stack.map (shiftFrame env.pre.length) ++ env.base := rfl

theorem depth_embed (env : Env) (sp : Bool) (x : St) : depth (embed env sp x) = depth x + env.base.length := by
  simp [depth, embed]

theorem drawSt_embed (env : Env) (sp : Bool) (x : St) (f : Frame) (rest : List Frame) (req : Nat) :
    drawSt (embed env sp x) (shiftFrame env.pre.length f) (rest.map (shiftFrame env.pre.length) ++ env.base) req =
      embed env sp (drawSt x f rest req) := by
  simp [drawSt, embed, shiftFrame, List.append_assoc]

theorem spawnSt_embed (env : Env) (sp : Bool) (x : St) (f : Frame) (n : Nat) :
    spawnSt (embed env sp x) (shiftFrame env.pre.length f) n = embed env true (spawnSt x f n) := by
  simp only [spawnSt, embed, shiftFrame, getD_append_shift, set_append_shift, List.append_assoc, if_true,
    List.length_append, List.length_set, List.map_map]
  congr 1
  apply List.map_congr_left
  intro i _
  simp only [Function.comp]; omega

theorem pushRef_embed (env : Env) (sp : Bool) (x : St) (r : Nat) :
    pushRef (embed env sp x) (env.pre.length + r) = embed env sp (pushRef x r) := by
  have := getD_append_shift env.pre x.heap r ⟨0, [], 0⟩
  simp only [pushRef, embed, shiftFrame, this, List.map_cons, List.cons_append]

theorem setStack_embed (env : Env) (sp : Bool) (x : St) (rest : List Frame) :
    setStack (embed env sp x) (rest.map (shiftFrame env.pre.length) ++ env.base) = embed env sp (setStack x rest) := by
  simp [setStack, embed]

def specOk (sp : Bool) : SeedSpec → Prop
  | .seed _ => True
  | .last _ => sp = true

/-- resolving a seed spec commutes with the embedding (for `last i` only once the body has spawned itself) -/
theorem resolve_embed (env : Env) (sp : Bool) (x : St) (s : SeedSpec) (hs : specOk sp s) :
    resolve (embed env sp x) s = (resolve x s).map (fun pr => (embed env sp pr.1, env.pre.length + pr.2)) := by
  cases s with
  | seed n =>
    simp [resolve, embed, List.append_assoc]
  | last i =>
    simp only [specOk] at hs
    subst hs
    simp only [resolve, embed, if_true, List.getElem?_map, Option.map_map]
    cases x.lastSpawn[i]? <;> simp

end NiftyVerif.Rng

namespace NiftyVerif.Rng

/-- **embedding lemma**: a body that uses Contexts only and refers only to seed sequences it spawned itself runs inside
    arbitrary surroundings exactly as it runs in the canonical state -/
theorem exec_embed : ∀ (p : Prog) (env : Env) (sp : Bool) (x : St) (sp' : Bool),
    ctxOnly p = true → closedFrom sp p = some sp' → x.stack ≠ [] →
    ∃ sp'', (exec p (embed env sp x)).st = embed env sp'' (exec p x).st ∧
      (exec p (embed env sp x)).out = (exec p x).out ∧ ((exec p x).out = .ok → sp'' = sp') := by
  intro p
  induction p with
  | done =>
    intro env sp x sp' _ hc _
    simp only [closedFrom, Option.some.injEq] at hc
    exact ⟨sp, by simp [exec], by simp [exec], fun _ => hc⟩
  | raise t =>
    intro env sp x sp' _ _ _
    exact ⟨sp, by simp [exec], by simp [exec], fun h => by simp [exec] at h⟩
  | push s k _ => intro env sp x sp' h; simp [ctxOnly] at h
  | pop k _ => intro env sp x sp' h; simp [ctxOnly] at h
  | draw req k ih =>
    intro env sp x sp' ho hc hne
    simp only [ctxOnly] at ho
    simp only [closedFrom] at hc
    cases hs : x.stack with
    | nil => exact absurd hs hne
    | cons f rest =>
      have he : (embed env sp x).stack = shiftFrame env.pre.length f :: (rest.map (shiftFrame env.pre.length) ++ env.base) := by
        rw [embed_stack, hs]; rfl
      have h1 : exec (.draw req k) (embed env sp x) = exec k (embed env sp (drawSt x f rest req)) := by
        conv_lhs => unfold exec
        simp only [he, drawSt_embed]
      have h2 : exec (.draw req k) x = exec k (drawSt x f rest req) := by
        conv_lhs => unfold exec
        simp only [hs]
      rw [h1, h2]
      exact ih env sp (drawSt x f rest req) sp' ho hc (by simp [drawSt])
  | spawn n k ih =>
    intro env sp x sp' ho hc hne
    simp only [ctxOnly] at ho
    simp only [closedFrom] at hc
    cases hs : x.stack with
    | nil => exact absurd hs hne
    | cons f rest =>
      have he : (embed env sp x).stack = shiftFrame env.pre.length f :: (rest.map (shiftFrame env.pre.length) ++ env.base) := by
        rw [embed_stack, hs]; rfl
      have h1 : exec (.spawn n k) (embed env sp x) = exec k (embed env true (spawnSt x f n)) := by
        conv_lhs => unfold exec
        simp only [he, spawnSt_embed]
      have h2 : exec (.spawn n k) x = exec k (spawnSt x f n) := by
        conv_lhs => unfold exec
        simp only [hs]
      rw [h1, h2]
      exact ih env true (spawnSt x f n) sp' ho hc (by rw [spawnSt_stack, hs]; simp)
  | ctx s body k ihb ihk =>
    intro env sp x sp' ho hc hne
    simp only [ctxOnly, Bool.and_eq_true] at ho
    -- the seed spec is usable, and the flags of body and continuation
    have hspec : specOk sp s ∧
        ∃ sp2, closedFrom sp body = some sp2 ∧ closedFrom sp2 k = some sp' := by
      cases s with
      | seed m =>
        simp only [closedFrom] at hc
        cases hb : closedFrom sp body with
        | none => simp [hb] at hc
        | some sp2 => simp only [hb] at hc; exact ⟨trivial, sp2, rfl, hc⟩
      | last i =>
        simp only [closedFrom] at hc
        cases sp with
        | false => simp at hc
        | true =>
          simp only [if_true] at hc
          cases hb : closedFrom true body with
          | none => simp [hb] at hc
          | some sp2 => simp only [hb] at hc; exact ⟨rfl, sp2, rfl, hc⟩
    obtain ⟨hsp, sp2, hcb, hck⟩ := hspec
    have hres := resolve_embed env sp x s hsp
    cases hr : resolve x s with
    | none =>
      rw [hr] at hres
      simp only [Option.map_none] at hres
      refine ⟨sp, ?_, ?_, ?_⟩
      · conv_lhs => unfold exec
        conv_rhs => unfold exec
        simp only [hres, hr]
      · conv_lhs => unfold exec
        conv_rhs => unfold exec
        simp only [hres, hr]
      · intro h
        have : (exec (.ctx s body k) x).out = .exc .indexError := by
          conv_lhs => unfold exec
          simp only [hr]
        rw [this] at h; cases h
    | some pr =>
      obtain ⟨x1, r⟩ := pr
      rw [hr] at hres
      simp only [Option.map_some] at hres
      have hx1 : x1.stack = x.stack := (resolve_stack hr).1
      have hx1ne : x1.stack ≠ [] := by rw [hx1]; exact hne
      -- the body
      have hbody := ihb env sp (pushRef x1 r) sp2 ho.1 hcb (by simp [pushRef])
      obtain ⟨spb, hb1, hb2, hb3⟩ := hbody
      have hbal := ctxOnly_balanced body (pushRef x1 r) ho.1
      rw [depth_pushRef] at hbal
      cases hst : (exec body (pushRef x1 r)).st.stack with
      | nil => simp [depth, hst] at hbal
      | cons f rest =>
        have hrl : rest.length = depth x1 := by
          have := hbal.2; simp only [depth, hst, List.length_cons] at this; simp only [depth]; omega
        have hrne : rest ≠ [] := by
          intro e; rw [e] at hrl
          have : x1.stack.length = 0 := by simp only [depth] at hrl; simpa using hrl.symm
          exact hx1ne (List.length_eq_zero_iff.mp this)
        have hstE : (exec body (embed env sp (pushRef x1 r))).st.stack =
            shiftFrame env.pre.length f :: (rest.map (shiftFrame env.pre.length) ++ env.base) := by
          rw [hb1, embed_stack, hst]; rfl
        have hd : ¬ ((rest.map (shiftFrame env.pre.length) ++ env.base).length ≠ depth (embed env sp x1)) := by
          rw [depth_embed]; simp [hrl]
        have hd0 : ¬ (rest.length ≠ depth x1) := by simp [hrl]
        -- unfold both sides one step
        have hL : exec (.ctx s body k) (embed env sp x) =
            (match (exec body (embed env sp (pushRef x1 r))).out with
              | .exc e => ⟨embed env spb (setStack (exec body (pushRef x1 r)).st rest), .exc e,
                  min (min (depth (embed env sp x)) (exec body (embed env sp (pushRef x1 r))).low)
                    (rest.map (shiftFrame env.pre.length) ++ env.base).length⟩
              | .ok =>
                let rk := exec k (embed env spb (setStack (exec body (pushRef x1 r)).st rest))
                ⟨rk.st, rk.out, min (min (min (depth (embed env sp x)) (exec body (embed env sp (pushRef x1 r))).low)
                    (rest.map (shiftFrame env.pre.length) ++ env.base).length) rk.low⟩) := by
          conv_lhs => unfold exec
          simp only [hres, pushRef_embed, hstE]
          rw [if_neg hd]
          simp only [hb1, setStack_embed]
          try rfl
        have hR : exec (.ctx s body k) x =
            (match (exec body (pushRef x1 r)).out with
              | .exc e => ⟨setStack (exec body (pushRef x1 r)).st rest, .exc e,
                  min (min (depth x) (exec body (pushRef x1 r)).low) rest.length⟩
              | .ok =>
                let rk := exec k (setStack (exec body (pushRef x1 r)).st rest)
                ⟨rk.st, rk.out, min (min (min (depth x) (exec body (pushRef x1 r)).low) rest.length) rk.low⟩) := by
          conv_lhs => unfold exec
          simp only [hr, hst]
          rw [if_neg hd0]
          try rfl
        rw [hL, hR, hb2]
        cases ho2 : (exec body (pushRef x1 r)).out with
        | exc e => exact ⟨spb, rfl, rfl, fun h => by cases h⟩
        | ok =>
          simp only
          have hspb : spb = sp2 := hb3 ho2
          subst hspb
          exact ihk env spb (setStack (exec body (pushRef x1 r)).st rest) sp' ho.2 hck (by simpa [setStack] using hrne)

end NiftyVerif.Rng

namespace NiftyVerif.Rng

theorem stack_ne_of_low {p : Prog} {x : St} (h : 1 ≤ (exec p x).low) : x.stack ≠ [] := by
  intro e
  have := (low_le p x).1
  simp only [depth, e, List.length_nil] at this
  omega

/-- **embedding lemma, general form**: ANY body — raw pushes and pops included — that refers only to seed sequences it
    spawned itself and whose canonical run never goes below depth 1 (it never pops the frame it started on) runs inside
    arbitrary surroundings exactly as in the canonical state -/
theorem exec_embed_nodip : ∀ (p : Prog) (env : Env) (sp : Bool) (x : St) (sp' : Bool),
    closedFrom sp p = some sp' → 1 ≤ (exec p x).low →
    ∃ sp'', (exec p (embed env sp x)).st = embed env sp'' (exec p x).st ∧
      (exec p (embed env sp x)).out = (exec p x).out ∧ ((exec p x).out = .ok → sp'' = sp') := by
  intro p
  induction p with
  | done =>
    intro env sp x sp' hc _
    simp only [closedFrom, Option.some.injEq] at hc
    exact ⟨sp, by simp [exec], by simp [exec], fun _ => hc⟩
  | raise t =>
    intro env sp x sp' _ _
    exact ⟨sp, by simp [exec], by simp [exec], fun h => by simp [exec] at h⟩
  | push s k ih =>
    intro env sp x sp' hc hl
    have hspec : specOk sp s ∧ closedFrom sp k = some sp' := by
      cases s with
      | seed m => simp only [closedFrom] at hc; exact ⟨trivial, hc⟩
      | last i =>
        simp only [closedFrom] at hc
        cases sp with
        | false => simp at hc
        | true => simp only [if_true] at hc; exact ⟨rfl, hc⟩
    have hres := resolve_embed env sp x s hspec.1
    cases hr : resolve x s with
    | none =>
      rw [hr] at hres
      simp only [Option.map_none] at hres
      refine ⟨sp, ?_, ?_, ?_⟩
      · conv_lhs => unfold exec
        conv_rhs => unfold exec
        simp only [hres, hr]
      · conv_lhs => unfold exec
        conv_rhs => unfold exec
        simp only [hres, hr]
      · intro h
        have : (exec (.push s k) x).out = .exc .indexError := by
          conv_lhs => unfold exec
          simp only [hr]
        rw [this] at h; cases h
    | some pr =>
      obtain ⟨x1, r⟩ := pr
      rw [hr] at hres
      simp only [Option.map_some] at hres
      have hL : exec (.push s k) (embed env sp x) =
          ⟨(exec k (embed env sp (pushRef x1 r))).st, (exec k (embed env sp (pushRef x1 r))).out,
            min (depth (embed env sp x)) (exec k (embed env sp (pushRef x1 r))).low⟩ := by
        conv_lhs => unfold exec
        simp only [hres, pushRef_embed]
      have hR : exec (.push s k) x =
          ⟨(exec k (pushRef x1 r)).st, (exec k (pushRef x1 r)).out, min (depth x) (exec k (pushRef x1 r)).low⟩ := by
        conv_lhs => unfold exec
        simp only [hr]
      rw [hR] at hl
      simp only at hl
      rw [hL, hR]
      exact ih env sp (pushRef x1 r) sp' hspec.2 (by omega)
  | pop k ih =>
    intro env sp x sp' hc hl
    simp only [closedFrom] at hc
    cases hs : x.stack with
    | nil => exact absurd hs (stack_ne_of_low hl)
    | cons f rest =>
      have he : (embed env sp x).stack = shiftFrame env.pre.length f :: (rest.map (shiftFrame env.pre.length) ++ env.base) := by
        rw [embed_stack, hs]; rfl
      have hL : exec (.pop k) (embed env sp x) =
          ⟨(exec k (embed env sp (setStack x rest))).st, (exec k (embed env sp (setStack x rest))).out,
            min (depth (embed env sp x)) (exec k (embed env sp (setStack x rest))).low⟩ := by
        conv_lhs => unfold exec
        simp only [he, setStack_embed]
      have hR : exec (.pop k) x =
          ⟨(exec k (setStack x rest)).st, (exec k (setStack x rest)).out, min (depth x) (exec k (setStack x rest)).low⟩ := by
        conv_lhs => unfold exec
        simp only [hs]
      rw [hR] at hl
      simp only at hl
      rw [hL, hR]
      exact ih env sp (setStack x rest) sp' hc (by omega)
  | draw req k ih =>
    intro env sp x sp' hc hl
    simp only [closedFrom] at hc
    cases hs : x.stack with
    | nil => exact absurd hs (stack_ne_of_low hl)
    | cons f rest =>
      have he : (embed env sp x).stack = shiftFrame env.pre.length f :: (rest.map (shiftFrame env.pre.length) ++ env.base) := by
        rw [embed_stack, hs]; rfl
      have h1 : exec (.draw req k) (embed env sp x) = exec k (embed env sp (drawSt x f rest req)) := by
        conv_lhs => unfold exec
        simp only [he, drawSt_embed]
      have h2 : exec (.draw req k) x = exec k (drawSt x f rest req) := by
        conv_lhs => unfold exec
        simp only [hs]
      rw [h2] at hl
      rw [h1, h2]
      exact ih env sp (drawSt x f rest req) sp' hc hl
  | spawn n k ih =>
    intro env sp x sp' hc hl
    simp only [closedFrom] at hc
    cases hs : x.stack with
    | nil => exact absurd hs (stack_ne_of_low hl)
    | cons f rest =>
      have he : (embed env sp x).stack = shiftFrame env.pre.length f :: (rest.map (shiftFrame env.pre.length) ++ env.base) := by
        rw [embed_stack, hs]; rfl
      have h1 : exec (.spawn n k) (embed env sp x) = exec k (embed env true (spawnSt x f n)) := by
        conv_lhs => unfold exec
        simp only [he, spawnSt_embed]
      have h2 : exec (.spawn n k) x = exec k (spawnSt x f n) := by
        conv_lhs => unfold exec
        simp only [hs]
      rw [h2] at hl
      rw [h1, h2]
      exact ih env true (spawnSt x f n) sp' hc hl
  | ctx s body k ihb ihk =>
    intro env sp x sp' hc hl
    have hspec : specOk sp s ∧ ∃ sp2, closedFrom sp body = some sp2 ∧ closedFrom sp2 k = some sp' := by
      cases s with
      | seed m =>
        simp only [closedFrom] at hc
        cases hb : closedFrom sp body with
        | none => simp [hb] at hc
        | some sp2 => simp only [hb] at hc; exact ⟨trivial, sp2, rfl, hc⟩
      | last i =>
        simp only [closedFrom] at hc
        cases sp with
        | false => simp at hc
        | true =>
          simp only [if_true] at hc
          cases hb : closedFrom true body with
          | none => simp [hb] at hc
          | some sp2 => simp only [hb] at hc; exact ⟨rfl, sp2, rfl, hc⟩
    obtain ⟨hsp, sp2, hcb, hck⟩ := hspec
    have hres := resolve_embed env sp x s hsp
    cases hr : resolve x s with
    | none =>
      rw [hr] at hres
      simp only [Option.map_none] at hres
      refine ⟨sp, ?_, ?_, ?_⟩
      · conv_lhs => unfold exec
        conv_rhs => unfold exec
        simp only [hres, hr]
      · conv_lhs => unfold exec
        conv_rhs => unfold exec
        simp only [hres, hr]
      · intro h
        have : (exec (.ctx s body k) x).out = .exc .indexError := by
          conv_lhs => unfold exec
          simp only [hr]
        rw [this] at h; cases h
    | some pr =>
      obtain ⟨x1, r⟩ := pr
      rw [hr] at hres
      simp only [Option.map_some] at hres
      cases hst : (exec body (pushRef x1 r)).st.stack with
      | nil =>
        exfalso
        have : (exec (.ctx s body k) x).low = 0 := by
          conv_lhs => unfold exec
          simp only [hr, hst]
        omega
      | cons f rest =>
        -- the canonical ctx, one step unfolded
        have hR : exec (.ctx s body k) x =
            (if rest.length ≠ depth x1 then
               ⟨setStack (exec body (pushRef x1 r)).st rest, .exc .runtimeError,
                 min (min (depth x) (exec body (pushRef x1 r)).low) rest.length⟩
             else match (exec body (pushRef x1 r)).out with
              | .exc e => ⟨setStack (exec body (pushRef x1 r)).st rest, .exc e,
                  min (min (depth x) (exec body (pushRef x1 r)).low) rest.length⟩
              | .ok =>
                let rk := exec k (setStack (exec body (pushRef x1 r)).st rest)
                ⟨rk.st, rk.out, min (min (min (depth x) (exec body (pushRef x1 r)).low) rest.length) rk.low⟩) := by
          conv_lhs => unfold exec
          simp only [hr, hst]
          try rfl
        have hlb : 1 ≤ (exec body (pushRef x1 r)).low := by
          rw [hR] at hl
          by_cases hne : rest.length ≠ depth x1
          · rw [if_pos hne] at hl; simp only at hl; omega
          · rw [if_neg hne] at hl
            cases ho : (exec body (pushRef x1 r)).out with
            | exc e => rw [ho] at hl; simp only at hl; omega
            | ok => rw [ho] at hl; simp only at hl; omega
        obtain ⟨spb, hb1, hb2, hb3⟩ := ihb env sp (pushRef x1 r) sp2 hcb hlb
        have hstE : (exec body (embed env sp (pushRef x1 r))).st.stack =
            shiftFrame env.pre.length f :: (rest.map (shiftFrame env.pre.length) ++ env.base) := by
          rw [hb1, embed_stack, hst]; rfl
        have hdE : ((rest.map (shiftFrame env.pre.length) ++ env.base).length ≠ depth (embed env sp x1)) ↔
            (rest.length ≠ depth x1) := by
          rw [depth_embed]; simp
        have hL : exec (.ctx s body k) (embed env sp x) =
            (if rest.length ≠ depth x1 then
               ⟨embed env spb (setStack (exec body (pushRef x1 r)).st rest), .exc .runtimeError,
                 min (min (depth (embed env sp x)) (exec body (embed env sp (pushRef x1 r))).low)
                    (rest.map (shiftFrame env.pre.length) ++ env.base).length⟩
             else match (exec body (embed env sp (pushRef x1 r))).out with
              | .exc e => ⟨embed env spb (setStack (exec body (pushRef x1 r)).st rest), .exc e,
                  min (min (depth (embed env sp x)) (exec body (embed env sp (pushRef x1 r))).low)
                    (rest.map (shiftFrame env.pre.length) ++ env.base).length⟩
              | .ok =>
                let rk := exec k (embed env spb (setStack (exec body (pushRef x1 r)).st rest))
                ⟨rk.st, rk.out, min (min (min (depth (embed env sp x)) (exec body (embed env sp (pushRef x1 r))).low)
                    (rest.map (shiftFrame env.pre.length) ++ env.base).length) rk.low⟩) := by
          conv_lhs => unfold exec
          simp only [hres, pushRef_embed, hstE]
          by_cases hne : rest.length ≠ depth x1
          · rw [if_pos (hdE.mpr hne), if_pos hne]
            simp only [hb1, setStack_embed]
          · rw [if_neg (fun h => hne (hdE.mp h)), if_neg hne]
            simp only [hb1, setStack_embed]
            try rfl
        rw [hL, hR, hb2]
        by_cases hne : rest.length ≠ depth x1
        · rw [if_pos hne, if_pos hne]
          exact ⟨spb, rfl, rfl, fun h => by cases h⟩
        · rw [if_neg hne, if_neg hne]
          cases ho2 : (exec body (pushRef x1 r)).out with
          | exc e => exact ⟨spb, rfl, rfl, fun h => by cases h⟩
          | ok =>
            simp only
            have hspb : spb = sp2 := hb3 ho2
            subst hspb
            have hlk : 1 ≤ (exec k (setStack (exec body (pushRef x1 r)).st rest)).low := by
              rw [hR, if_neg hne, ho2] at hl
              simp only at hl; omega
            exact ihk env spb (setStack (exec body (pushRef x1 r)).st rest) sp' hck hlk

end NiftyVerif.Rng
