/-
  The subspace over which the CG iterate is optimal (Lemmas/CgClassicOptimal.lean) is the Krylov space
  `K_k = span { (P A)^j P r₀ : j < k }` of the preconditioned operator: textbook statement
  "`x_k` minimises the energy over `x₀ + K_k(P A, P r₀)`".
-/
import NiftyVerif.Lemmas.CgClassicOptimal

set_option linter.unusedSectionVars false
set_option linter.unnecessarySeqFocus false

namespace NiftyVerif.CgClassic
open NiftyVerif.Ctrl Submodule

variable {K V τ : Type} [Field K] [LinearOrder K] [IsStrictOrderedRing K] [AddCommGroup V] [Module K V]

/-- the preconditioned operator `P A` -/
def kryT (S : Sys V K) (v : V) : V := precond S (S.A v)

/-- `K_k(P A, z₀) = span { (P A)^j z₀ : j < k }` -/
def krylov (S : Sys V K) (z0 : V) : ℕ → Submodule K V
  | 0 => ⊥
  | k + 1 => krylov S z0 k ⊔ K ∙ ((kryT S)^[k] z0)

theorem krylov_mono (S : Sys V K) (z0 : V) (k : ℕ) : krylov S z0 k ≤ krylov S z0 (k + 1) := le_sup_left

theorem kryT_add {S : Sys V K} (hS : S.SPDP) (x y : V) : kryT S (x + y) = kryT S x + kryT S y := by
  unfold kryT; rw [hS.lin.A_add, hS.P_add]

theorem kryT_smul {S : Sys V K} (hS : S.SPDP) (a : K) (x : V) : kryT S (a • x) = a • kryT S x := by
  unfold kryT; rw [hS.lin.A_smul, hS.P_smul]

/-- `P A` maps `K_k` into `K_{k+1}` -/
theorem kryT_krylov {S : Sys V K} (hS : S.SPDP) (z0 : V) : ∀ k, ∀ v ∈ krylov S z0 k, kryT S v ∈ krylov S z0 (k + 1)
  | 0 => by
    intro v hv
    rw [(Submodule.mem_bot K).1 hv]
    unfold kryT
    rw [hS.lin.A_zero, hS.P_zero]
    exact Submodule.zero_mem _
  | k + 1 => by
    intro v hv
    obtain ⟨w, hw, c, rfl⟩ := mem_sup_span.1 hv
    rw [kryT_add hS, kryT_smul hS]
    apply Submodule.add_mem
    · exact krylov_mono S z0 (k + 1) (kryT_krylov hS z0 k w hw)
    · apply Submodule.smul_mem
      have : kryT S ((kryT S)^[k] z0) = (kryT S)^[k + 1] z0 := (Function.iterate_succ_apply' _ _ _).symm
      rw [this]
      exact self_mem_sup_span _ _

/-- what is claimed of the result -/
def OptimalOnKrylov (S : Sys V K) (x0 z0 : V) (out : Out V K τ) : Prop :=
  ∃ n, n = out.iters.length ∧ Module.finrank K (krylov S z0 n) = n ∧ out.energy.pos - x0 ∈ krylov S z0 n ∧
    ∀ v ∈ krylov S z0 n, trueValue S out.energy.pos ≤ trueValue S (out.energy.pos + v)

/-- the span of the directions is the Krylov space -/
theorem sup_eq_krylov {S : Sys V K} {z0 d : V} {k : ℕ} (hd : d ∈ krylov S z0 (k + 1))
    (he : (kryT S)^[k] z0 ∈ krylov S z0 k ⊔ K ∙ d) : krylov S z0 k ⊔ K ∙ d = krylov S z0 (k + 1) := by
  apply le_antisymm
  · exact sup_le (krylov_mono S z0 k) ((Submodule.span_singleton_le_iff_mem _ _).2 hd)
  · exact sup_le le_sup_left ((Submodule.span_singleton_le_iff_mem _ _).2 he)

/-- one step, Krylov bookkeeping -/
theorem krylov_step {S : Sys V K} (hS : S.SPDP) {z0 r d r' : V} {k : ℕ} {α β : K}
    (hd : d ∈ krylov S z0 (k + 1)) (hz : precond S r ∈ krylov S z0 (k + 1)) (hr' : r' = r - α • S.A d) :
    precond S r' ∈ krylov S z0 (k + 2) ∧ β • d + precond S r' ∈ krylov S z0 (k + 2) := by
  have h1 : precond S r' ∈ krylov S z0 (k + 2) := by
    rw [hr', hS.P_sub, hS.P_smul]
    exact Submodule.sub_mem _ (krylov_mono S z0 (k + 1) hz) (Submodule.smul_mem _ _ (kryT_krylov hS z0 (k + 1) d hd))
  exact ⟨h1, Submodule.add_mem _ (Submodule.smul_mem _ _ (krylov_mono S z0 (k + 1) hd)) h1⟩

/-- all exits after the position update -/
theorem exit_krylov {S : Sys V K} (hS : S.SPDP) [FiniteDimensional K V] {nreset : Int} {E E' : QE V K}
    {r r' d x0 z0 : V} {pg : K} {ii1 ii' : Int} {k : ℕ} {its : List (Iter K)} (hk : k = its.length)
    (hE : E.Consistent S) (hr : r = E.grad) (hpg : pg = S.ip r d) (hpos : 0 < pg)
    (hI : ExactInv S (krylov S z0 k) r d) (hd : d ∈ krylov S z0 (k + 1))
    (he : (kryT S)^[k] z0 ∈ krylov S z0 k ⊔ K ∙ d)
    (hdim : Module.finrank K (krylov S z0 k) = k) (hx : E.pos - x0 ∈ krylov S z0 k)
    (hadv : advance S nreset E r d (S.A d) (pg / S.ip d (S.A d)) ii1 = (E', r', ii'))
    (out : Out V K τ) (hout : out.energy = E' ∧ ∃ it, out.iters = its ++ [it]) : OptimalOnKrylov S x0 z0 out := by
  obtain ⟨hE', hr', hpos', hgrad'⟩ := advance_eq_spec S hS.lin hE hr hadv
  have hstep := exact_step hS hI hpg hpos (r' := r') (by rw [hr', hgrad'])
  have hW := sup_eq_krylov hd he
  obtain ⟨heq, it, hit⟩ := hout
  refine ⟨k + 1, by rw [hit]; simp [hk], ?_, ?_, ?_⟩
  · rw [← hW, exact_dim_eq hS hI hpg hpos, hdim]
  · rw [heq, hpos', ← hW]
    have : E.pos - (pg / S.ip d (S.A d)) • d - x0 = (E.pos - x0) - (pg / S.ip d (S.A d)) • d := by abel
    rw [this]
    exact Submodule.sub_mem _ (Submodule.mem_sup_left hx) (Submodule.smul_mem _ _ (self_mem_sup_span _ d))
  · rw [heq, ← hW]
    exact min_on_subspace hS.toSPD _ _ (by rw [← hE'.1, ← hr']; exact hstep.r_perp)

theorem loop_krylov (S : Sys V K) (hS : S.SPDP) [FiniteDimensional K V] (c : Ctrl K τ) (nreset : Int) (fuel : Nat)
    (E : QE V K) (r d : V) (pg : K) (ii : Int) (s : St τ) (ch md : List (QE V K)) (its : List (Iter K)) (x0 z0 : V) :
    ∀ (k : ℕ), k = its.length → E.Consistent S → r = E.grad → pg = S.ip r d → 0 < pg →
      ExactInv S (krylov S z0 k) r d → d ∈ krylov S z0 (k + 1) → precond S r ∈ krylov S z0 (k + 1) →
      (kryT S)^[k] z0 ∈ krylov S z0 k ⊔ K ∙ d →
      Module.finrank K (krylov S z0 k) = k → E.pos - x0 ∈ krylov S z0 k →
      OptimalOnKrylov S x0 z0 (loop S c nreset fuel E r d pg ii s ch md its) := by
  fun_induction loop S c nreset fuel E r d pg ii s ch md its
  case case1 =>
    intro k hk hE hr hpg hpos hI hd hz he hdim hx
    exact ⟨k, hk, hdim, hx, min_on_subspace hS.toSPD _ _ (by rw [← hE.1, ← hr]; exact hI.r_perp)⟩
  case case2 fuel E r d pg ii s ch md its h =>
    intro k hk hE hr hpg hpos hI hd hz he hdim hx
    exact absurd h (ne_of_gt (spd_step_facts hS.toSPD hpg hpos).1)
  case case3 fuel E r d pg ii s ch md its _ h =>
    intro k hk hE hr hpg hpos hI hd hz he hdim hx
    exact absurd h (not_lt.2 (le_of_lt (spd_step_facts hS.toSPD hpg hpos).2))
  case case4 fuel E r d pg ii s ch md its hcurv halpha E' r' ii' hadv it h =>
    intro k hk hE hr hpg hpos hI hd hz he hdim hx
    exfalso
    by_cases h0 : r' = 0
    · rw [h0, ip_zero_left hS.bil] at h; exact lt_irrefl _ h
    · exact lt_asymm (hS.P_pos r' h0) h
  case case5 fuel E r d pg ii s ch md its hcurv halpha E' r' ii' hadv it hgam h =>
    intro k hk hE hr hpg hpos hI hd hz he hdim hx
    exact exit_krylov hS hk hE hr hpg hpos hI hd he hdim hx hadv _ ⟨rfl, _, rfl⟩
  case case6 fuel E r d pg ii s ch md its hcurv halpha E' r' ii' hadv it hgam hgz hchk =>
    intro k hk hE hr hpg hpos hI hd hz he hdim hx
    exact exit_krylov hS hk hE hr hpg hpos hI hd he hdim hx hadv _ ⟨rfl, _, rfl⟩
  case case7 fuel E r d pg ii s ch md its hcurv halpha E' r' ii' hadv it hgam hgz s1 status hchk hst =>
    intro k hk hE hr hpg hpos hI hd hz he hdim hx
    exact exit_krylov hS hk hE hr hpg hpos hI hd he hdim hx hadv _ ⟨rfl, _, rfl⟩
  case case8 fuel E r d pg ii s ch md its hcurv halpha E' r' ii' hadv it hg1 hg2 s1 status hchk hst ih =>
    intro k hk hE hr hpg hpos hI hd hz he hdim hx
    obtain ⟨hE', hr', hpos', hgrad'⟩ := advance_eq_spec S hS.lin hE hr hadv
    have hgpos : 0 < S.ip r' (precond S r') := lt_of_le_of_ne (not_lt.1 hg1) (Ne.symm hg2)
    have hbeta : 0 < S.ip r' (precond S r') / pg := div_pos hgpos hpos
    have hstep := exact_step hS hI hpg hpos (r' := r') (by rw [hr', hgrad'])
    obtain ⟨_, hrd⟩ := spd_advance_facts hS.toSPD hE hr hpg hpos hadv
    have hW := sup_eq_krylov hd he
    have hkry := krylov_step hS (β := S.ip r' (precond S r') / pg) hd hz (show r' = r - _ • S.A d by rw [hr', hgrad'])
    have he' : (kryT S)^[k + 1] z0 ∈ krylov S z0 (k + 1) ⊔
        K ∙ ((S.ip r' (precond S r') / pg) • d + precond S r') := by
      rw [Function.iterate_succ_apply', ← hW]
      exact hstep.krylov _ he
    rw [hW] at hstep
    have hdimW : Module.finrank K (krylov S z0 (k + 1)) = k + 1 := by
      rw [← hW, exact_dim_eq hS hI hpg hpos, hdim]
    have hx' : E'.pos - x0 ∈ krylov S z0 (k + 1) := by
      rw [hpos', ← hW]
      have : E.pos - (pg / S.ip d (S.A d)) • d - x0 = (E.pos - x0) - (pg / S.ip d (S.A d)) • d := by abel
      rw [this]
      exact Submodule.sub_mem _ (Submodule.mem_sup_left hx) (Submodule.smul_mem _ _ (self_mem_sup_span _ d))
    rw [if_pos hbeta] at ih ⊢
    refine ih (k + 1) (by simp [hk]) hE' hr' ?_ hgpos hstep hkry.2 hkry.1 he' hdimW hx'
    rw [hS.bil.add_right, hS.bil.smul_right, hrd]; ring

/-- **textbook optimality**: after `k` passes CG returns the minimiser of the energy over `x₀ + K_k(P A, P r₀)`,
    and `dim K_k = k` -/
theorem cg_krylov (S : Sys V K) (hS : S.SPDP) [FiniteDimensional K V] (c : Ctrl K τ) (nreset : Int) (fuel : Nat)
    (E : QE V K) (hE : E.Consistent S) :
    OptimalOnKrylov S E.pos (precond S E.grad) (cg S c nreset fuel E) := by
  have base : ∀ out : Out V K τ, out.energy = E → out.iters = [] →
      OptimalOnKrylov S E.pos (precond S E.grad) out := by
    intro out he hi
    refine ⟨0, by simp [hi], finrank_bot K V, by simp [he, krylov], ?_⟩
    intro v hv
    rw [(Submodule.mem_bot K).1 hv]; simp
  unfold cg
  split
  · exact base _ rfl rfl
  · split
    · exact base _ rfl rfl
    · dsimp only
      split
      · exact base _ rfl rfl
      · rename_i hpg
        have hne : E.grad ≠ 0 := by
          intro h0; apply hpg; rw [h0, ip_zero_left hS.bil]
        exact loop_krylov S hS c nreset fuel E E.grad (precond S E.grad) (S.ip E.grad (precond S E.grad)) 0 _
          [E] [] [] E.pos (precond S E.grad) 0 (by simp) hE rfl rfl (hS.P_pos _ hne) (exactInv_init hS _)
          (self_mem_sup_span _ _) (self_mem_sup_span _ _) (self_mem_sup_span _ _) (finrank_bot K V) (by simp [krylov])

end NiftyVerif.CgClassic
