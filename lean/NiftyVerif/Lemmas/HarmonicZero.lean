/-
  Lemmas/HarmonicZero.lean — zero mode of the forward transform; one-axis matrix form of the Hartley transform.
-/
import NiftyVerif.Lemmas.HarmonicModes

namespace NiftyVerif.Harmonic
open Finset

variable {K : Type} [CommRing K]

theorem sum3_swap (n1 n2 n3 : Nat) (f : Nat → Nat → Nat → K) :
    ∑ j3 ∈ range n3, ∑ j2 ∈ range n2, ∑ j1 ∈ range n1, f j1 j2 j3
      = ∑ j1 ∈ range n1, ∑ j2 ∈ range n2, ∑ j3 ∈ range n3, f j1 j2 j3 := by
  rw [Finset.sum_comm]
  rw [Finset.sum_congr rfl (fun j2 _ => Finset.sum_comm)]
  rw [Finset.sum_comm]

theorem dftMat_zero (w : K) (j : Nat) : dftMat w 0 j = 1 := by
  rw [dftMat_eq, Nat.mul_zero, pow_zero]

theorem posBranch_zero (g : Grid K) (d : K) (x : Tensor K) (p q : Nat) :
    posBranch g d x ⟨p, 0, 0, 0, q⟩ = gridSum g p q (fun i => x i * d) := by
  unfold posBranch F3 tr3 axG gridSum
  simp only [sumTo_eq_sum, L1, L2, L3, Idx.set1, Idx.set2, Idx.set3, dftMat_zero, one_mul]
  rw [sum3_swap g.n1 g.n2 g.n3 (fun j1 j2 j3 => x ⟨p, j1, j2, j3, q⟩)]
  simp only [Finset.sum_mul]

/-- with n2 = n3 = 1 the three-axis transform is the one-axis matrix product -/
theorem tr3_one_axis (n1 : Nat) (A1 A2 A3 : Nat → Nat → K) (h2 : A2 0 0 = 1) (h3 : A3 0 0 = 1) (x : Tensor K)
    (i : Idx) (hi2 : i.j2 = 0) (hi3 : i.j3 = 0) :
    tr3 n1 1 1 A1 A2 A3 x i = ∑ j ∈ range n1, A1 i.j1 j * x (i.set1 j) := by
  obtain ⟨p, j1, j2, j3, q⟩ := i
  simp only at hi2 hi3
  subst hi2 hi3
  unfold tr3 axG
  simp only [L1, L2, L3, Idx.set1, Idx.set2, Idx.set3, Finset.sum_range_one, h2, h3, one_mul]

end NiftyVerif.Harmonic
