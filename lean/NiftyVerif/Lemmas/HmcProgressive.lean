/-
  Progressive (multinomial) sampling inside a NUTS sub-tree (`add_single_qp_to_tree`), C32:
  leaves are offered one by one; the current candidate is kept with probability `expit(W − w)` where `W` is the
  log-weight accumulated so far and `w` the new leaf's.  After any number of leaves, leaf `i` is the candidate with
  probability `e^{w_i} / Σ_j e^{w_j}`.
-/
import Mathlib.Analysis.SpecialFunctions.Log.Basic
import Mathlib.Tactic.FieldSimp
import Mathlib.Tactic.Ring

namespace NiftyVerif.Hmc
open Real

/-- `jnp.logaddexp` -/
noncomputable def lae (a b : ℝ) : ℝ := log (exp a + exp b)

theorem exp_lae (a b : ℝ) : exp (lae a b) = exp a + exp b :=
  exp_log (add_pos (exp_pos a) (exp_pos b))

/-- state of the sub-tree: accumulated log-weight and, per leaf seen so far, the probability of being the candidate -/
structure ProgState where
  W : ℝ
  probs : List ℝ

/-- offer one more leaf with log-weight `w`: `prob_of_keeping_old = expit(W − w)` -/
noncomputable def offer (s : ProgState) (w : ℝ) : ProgState :=
  let keep := 1 / (1 + exp (-(s.W - w)))
  ⟨lae s.W w, s.probs.map (· * keep) ++ [1 - keep]⟩

/-- the first leaf is the candidate with probability one, then the others are offered in order -/
noncomputable def progressive (w0 : ℝ) (ws : List ℝ) : ProgState := ws.foldl offer ⟨w0, [1]⟩

theorem keep_eq (W w : ℝ) : 1 / (1 + exp (-(W - w))) = exp W / (exp W + exp w) := by
  have hW := exp_pos W
  have hw := exp_pos w
  rw [neg_sub, exp_sub]
  field_simp

/-- invariant carried through the fold -/
def Inv (s : ProgState) (leaves : List ℝ) : Prop :=
  exp s.W = (leaves.map exp).sum ∧ s.probs = leaves.map (fun wi => exp wi / exp s.W)

theorem offer_inv (s : ProgState) (leaves : List ℝ) (w : ℝ) (h : Inv s leaves) : Inv (offer s w) (leaves ++ [w]) := by
  obtain ⟨hW, hp⟩ := h
  have hWp := exp_pos s.W
  have hwp := exp_pos w
  constructor
  · simp only [offer, exp_lae, List.map_append, List.sum_append, List.map_cons, List.map_nil, List.sum_cons,
      List.sum_nil, add_zero, hW]
  · simp only [offer, exp_lae, List.map_append, List.map_cons, List.map_nil, hp, List.map_map, keep_eq]
    congr 1
    · apply List.map_congr_left
      intro wi _
      simp only [Function.comp]
      field_simp
    · congr 1
      field_simp
      ring

theorem foldl_inv (s : ProgState) (leaves ws : List ℝ) (h : Inv s leaves) : Inv (ws.foldl offer s) (leaves ++ ws) := by
  induction ws generalizing s leaves with
  | nil => simpa using h
  | cons w ws ih =>
    have := ih (offer s w) (leaves ++ [w]) (offer_inv s leaves w h)
    simpa [List.foldl_cons, List.append_assoc] using this

/-- **progressive_sampling_multinomial**: after offering all leaves, the accumulated weight is `log Σ e^{w}` and leaf `i`
    is the candidate with probability `e^{w_i} / Σ_j e^{w_j}` -/
theorem progressive_multinomial (w0 : ℝ) (ws : List ℝ) :
    exp (progressive w0 ws).W = ((w0 :: ws).map exp).sum
    ∧ (progressive w0 ws).probs = (w0 :: ws).map (fun wi => exp wi / ((w0 :: ws).map exp).sum) := by
  have h0 : Inv ⟨w0, [1]⟩ [w0] := by
    constructor
    · simp
    · simp
  have h := foldl_inv ⟨w0, [1]⟩ [w0] ws h0
  obtain ⟨hW, hp⟩ := h
  refine ⟨by simpa [progressive] using hW, ?_⟩
  have hW' : exp (progressive w0 ws).W = ((w0 :: ws).map exp).sum := by simpa [progressive] using hW
  simp only [progressive] at hp hW' ⊢
  rw [hp]
  simp only [List.singleton_append]
  apply List.map_congr_left
  intro wi _
  rw [hW']

/-- **merge (unbiased)**: if the candidates of two sub-trees are multinomial within their sub-trees (`e^{w_i}/e^{W_a}`,
    `e^{w_j}/e^{W_b}`) then after `merge_trees(bias_transition=False)` — new candidate with probability `expit(W_b − W_a)` —
    every leaf of the union is the candidate with probability `e^{w}/(e^{W_a}+e^{W_b})` -/
theorem merge_unbiased_multinomial (Wa Wb wi wj : ℝ) :
    (exp wi / exp Wa) * (1 - 1 / (1 + exp (-(Wb - Wa)))) = exp wi / exp (lae Wa Wb)
    ∧ (exp wj / exp Wb) * (1 / (1 + exp (-(Wb - Wa)))) = exp wj / exp (lae Wa Wb) := by
  have ha := exp_pos Wa
  have hb := exp_pos Wb
  rw [keep_eq, exp_lae]
  constructor
  · field_simp
    ring
  · field_simp
    ring

end NiftyVerif.Hmc
