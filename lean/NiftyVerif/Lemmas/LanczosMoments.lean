/-
  Why the Lanczos quadrature is exact at full order (C34): with an orthogonal basis `V` (`V Vᵀ = 1 = Vᵀ V`) and
  `T = Vᵀ A V`, all matrix powers agree, `T^k = Vᵀ A^k V`; in particular the quadrature moments `e₁ᵀ T^k e₁` equal the
  probe moments `v₁ᵀ A^k v₁` for every `k`, hence `e₁ᵀ p(T) e₁ = v₁ᵀ p(A) v₁` for every polynomial `p`.
-/
import Mathlib.LinearAlgebra.Matrix.NonsingularInverse
import Mathlib.Algebra.Polynomial.AlgebraMap
import Mathlib.Data.Real.Basic

namespace NiftyVerif.Lanczos
open Matrix

variable {n : Type} [Fintype n] [DecidableEq n]

/-- powers of the projected matrix -/
theorem conj_pow (A V : Matrix n n ℝ) (hV : V * Vᵀ = 1) (k : ℕ) : (Vᵀ * A * V) ^ k = Vᵀ * A ^ k * V := by
  have hV' : Vᵀ * V = 1 := by
    have := mul_eq_one_comm.mp hV
    exact this
  induction k with
  | zero => simp [hV']
  | succ k ih =>
    rw [pow_succ, ih, pow_succ]
    calc Vᵀ * A ^ k * V * (Vᵀ * A * V) = Vᵀ * A ^ k * (V * Vᵀ) * A * V := by simp only [Matrix.mul_assoc]
      _ = Vᵀ * (A ^ k * A) * V := by rw [hV, Matrix.mul_one]; simp only [Matrix.mul_assoc]

/-- **moment matching at full order**: for every `k`, the quadrature moment `(T^k)_{i j}` is `v_iᵀ A^k v_j`, `v_i` the
    `i`-th Lanczos vector (column of `V`) -/
theorem full_order_moments (A V : Matrix n n ℝ) (hV : V * Vᵀ = 1) (k : ℕ) (i j : n) :
    ((Vᵀ * A * V) ^ k) i j = (fun a => V a i) ⬝ᵥ (A ^ k) *ᵥ (fun b => V b j) := by
  rw [conj_pow A V hV k]
  simp only [Matrix.mul_apply, transpose_apply, dotProduct, mulVec, Finset.sum_mul, Finset.mul_sum]
  rw [Finset.sum_comm]
  apply Finset.sum_congr rfl
  intro a _
  apply Finset.sum_congr rfl
  intro b _
  ring

/-- the same for every polynomial: `p(T) = Vᵀ p(A) V` -/
theorem conj_aeval (A V : Matrix n n ℝ) (hV : V * Vᵀ = 1) (p : Polynomial ℝ) :
    Polynomial.aeval (Vᵀ * A * V) p = Vᵀ * Polynomial.aeval A p * V := by
  have hV' : Vᵀ * V = 1 := mul_eq_one_comm.mp hV
  induction p using Polynomial.induction_on with
  | C a =>
    simp only [Polynomial.aeval_C, Algebra.algebraMap_eq_smul_one]
    rw [Matrix.mul_smul, Matrix.smul_mul, Matrix.mul_one, hV']
  | add p q hp hq => simp only [map_add, hp, hq, Matrix.mul_add, Matrix.add_mul]
  | monomial k a _ =>
    simp only [map_mul, Polynomial.aeval_C, map_pow, Polynomial.aeval_X, Algebra.algebraMap_eq_smul_one,
      conj_pow A V hV]
    rw [Matrix.smul_mul, Matrix.one_mul, Matrix.smul_mul, Matrix.one_mul, Matrix.mul_smul, Matrix.smul_mul]

end NiftyVerif.Lanczos
