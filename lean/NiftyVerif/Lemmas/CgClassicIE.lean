/-
  Lemmas about the InversionEnabler model (Model/CgClassic.lean): what `_flip_modes` does to modes and capabilities,
  the table facts InversionEnabler relies on (checked over the whole finite table), and the identification of the
  linear system its CG run solves.
-/
import NiftyVerif.Lemmas.CgClassic

set_option linter.unusedSectionVars false

namespace NiftyVerif.CgClassic
open NiftyVerif.Ctrl

/-- the mode in which the underlying operator is applied when `op._flip_modes(trafo)` is applied in `mode` -/
def flipMode (trafo mode : Nat) : Nat := if trafo = 0 then mode else modeTable trafo ((ilog mode).getD 0)
/-- the capability of `op._flip_modes(trafo)` -/
def flipCap (trafo cap : Nat) : Nat := if trafo = 0 then cap else capTable trafo cap

theorem flip_apply {V : Type} (op : LinOp V) (t : Nat) (v : V) (m : Nat) :
    (op.flip t).apply v m = op.apply v (flipMode t m) := by
  unfold LinOp.flip flipMode; split <;> rfl

theorem flip_capability {V : Type} (op : LinOp V) (t : Nat) : (op.flip t).capability = flipCap t op.capability := by
  unfold LinOp.flip flipCap; split <;> rfl

/-- the mode whose inverse is requested: `_modeTable[INVERSE_BIT][_ilog[mode]]` -/
def ieInvMode (mode : Nat) : Nat := modeTable INVERSE_BIT ((ilog mode).getD 0)

/-- **Table facts behind `InversionEnabler.apply`** (the whole finite table is evaluated, `decide`): for every valid mode
    `2^i`: `_ilog` finds `i`, and `approximation._flip_modes(i)` forwards `TIMES` to the operator in mode `2^i`. -/
theorem ie_table_mode : ∀ i, i < 4 → ilog (2 ^ i) = some i ∧ flipMode i TIMES = 2 ^ i := by
  decide

/-- for every capability bitmask and every valid mode: if the mode is offered by `_addInverse[cap]` but not by the
    operator itself, then the operator supports the inverse mode -/
theorem ie_table_cap : ∀ cap, cap < 16 → ∀ i, i < 4 →
    (2 ^ i) &&& addInverse cap ≠ 0 → cap &&& (2 ^ i) = 0 → cap &&& ieInvMode (2 ^ i) ≠ 0 := by
  decide

/-- ... the adapter `op._flip_modes(_ilog[invmode])` then offers `TIMES` ... -/
theorem ie_table_times : ∀ cap, cap < 16 → ∀ i, i < 4 →
    (2 ^ i) &&& addInverse cap ≠ 0 → cap &&& (2 ^ i) = 0 →
    TIMES &&& flipCap ((ilog (ieInvMode (2 ^ i))).getD 0) cap ≠ 0 := by
  decide

/-- ... and forwards it to the operator in exactly the inverse mode -/
theorem ie_table_fwd : ∀ i, i < 4 → flipMode ((ilog (ieInvMode (2 ^ i))).getD 0) TIMES = ieInvMode (2 ^ i) := by
  decide

theorem ilog_some {m i : Nat} (h : ilog m = some i) : m = 2 ^ i ∧ i < 4 := by
  unfold ilog at h
  split at h <;> simp at h <;> subst h <;> decide

section
variable {K V τ : Type} [Field K] [LinearOrder K] [IsStrictOrderedRing K] [AddCommGroup V] [Module K V]

/-- the linear system `InversionEnabler.apply(x, mode)` hands to CG: the operator in the inverse of the requested mode,
    right-hand side `x`, preconditioner = the approximation in the requested mode -/
def ieSys (op : LinOp V) (approx : Option (LinOp V)) (ip : V → V → K) (ninfsq : V → K) (x : V) (mode : Nat) : Sys V K :=
  { A := fun v => op.apply v (ieInvMode mode), b := some x,
    P := approx.map fun p => fun v => p.apply v mode, ip := ip, ninfsq := ninfsq }

theorem ie_solved (op : LinOp V) (approx : Option (LinOp V)) (c : Ctrl K τ) (ip : V → V → K) (ninfsq : V → K)
    (fuel : Nat) (x : V) (mode : Nat) (y : V) (run : Out V K τ) (hcap : op.capability < 16)
    (h : inversionEnabler op approx c ip ninfsq (0 : V) fuel x mode = .solved y run) :
    validMode mode = true ∧ op.capability &&& mode = 0 ∧ op.capability &&& ieInvMode mode ≠ 0 ∧
    run = cg (ieSys op approx ip ninfsq x mode) c 20 fuel (QE.at (ieSys op approx ip ninfsq x mode) 0) ∧
    y = run.energy.pos := by
  unfold inversionEnabler at h
  split at h
  · cases h
  · rename_i lm hlm
    obtain ⟨hm, hlt⟩ := ilog_some hlm
    subst hm
    have hinv : ieInvMode (2 ^ lm) = modeTable INVERSE_BIT lm := by unfold ieInvMode; rw [hlm]; rfl
    split at h
    · cases h
    · rename_i hadd
      split at h
      · cases h
      · rename_i hnot
        have hnot' : op.capability &&& 2 ^ lm = 0 := not_not.1 hnot
        have hsup := ie_table_cap _ hcap lm hlt hadd hnot'
        have hfwd := ie_table_fwd lm hlt
        have hmode := (ie_table_mode lm hlt).2
        -- the system built by the code is `ieSys`
        have hS : ({ A := fun v => (op.flip ((ilog (modeTable INVERSE_BIT lm)).getD 0)).apply v TIMES, b := some x,
                     P := (approx.map fun p => p.flip lm).map fun p => fun v => p.apply v TIMES,
                     ip := ip, ninfsq := ninfsq } : Sys V K) = ieSys op approx ip ninfsq x (2 ^ lm) := by
          unfold ieSys
          congr 1
          · funext v; rw [flip_apply, ← hinv, hfwd]
          · cases approx with
            | none => rfl
            | some p => simp only [Option.map_some]; congr 1; funext v; rw [flip_apply, hmode]
        simp only [hS] at h
        refine ⟨by unfold validMode; rw [hlm]; rfl, hnot', hsup, ?_⟩
        show run = cg (ieSys op approx ip ninfsq x (2 ^ lm)) c 20 fuel (QE.make (ieSys op approx ip ninfsq x (2 ^ lm)) 0 none)
          ∧ y = run.energy.pos
        generalize cg (ieSys op approx ip ninfsq x (2 ^ lm)) c 20 fuel
          (QE.make (ieSys op approx ip ninfsq x (2 ^ lm)) 0 none) = R at h ⊢
        have key : ∀ r : IEResult V K τ, (r = .solved R.energy.pos R ∨ r = .notImplemented ∨ r = .raised) →
            r = .solved y run → run = R ∧ y = run.energy.pos := by
          intro r hr hrs
          rcases hr with rfl | rfl | rfl
          · simp only [IEResult.solved.injEq] at hrs
            exact ⟨hrs.2.symm, by rw [← hrs.1, hrs.2]⟩
          · cases hrs
          · cases hrs
        refine key _ ?_ h
        repeat' split
        all_goals simp
end

end NiftyVerif.CgClassic
