/-
  Lemmas about the iteration-controller state machines (Model/Controllers.lean): counter/verdict arithmetic,
  invariants of `feed`, and what each controller's criterion says.
-/
import NiftyVerif.Model.Controllers
import Mathlib.Tactic.Linarith
import Mathlib.Algebra.Order.Field.Basic

set_option linter.unusedSectionVars false
set_option linter.unnecessarySeqFocus false

namespace NiftyVerif.Ctrl

/-! ### counter and verdict -/

theorem verdict_converged {limit : Option Int} {level it cc : Int}
    (h : verdict limit level it cc = .converged) : (∃ l, limit = some l ∧ l ≤ it) ∨ level ≤ cc := by
  unfold verdict at h
  cases limit with
  | none => right; by_contra hc; simp [hc] at h
  | some l =>
    by_cases h1 : l ≤ it
    · left; exact ⟨l, rfl, h1⟩
    · right; by_contra hc; simp [h1, hc] at h

theorem verdict_continue {limit : Option Int} {level it cc : Int}
    (h : verdict limit level it cc = .continue_) : cc < level ∧ ∀ l, limit = some l → it < l := by
  unfold verdict at h
  cases limit with
  | none =>
    refine ⟨?_, by intro l hl; cases hl⟩
    by_contra hc; have : level ≤ cc := by omega
    simp [this] at h
  | some l =>
    by_cases h1 : l ≤ it
    · simp [h1] at h
    · by_cases h2 : level ≤ cc
      · simp [h1, h2] at h
      · refine ⟨by omega, ?_⟩
        intro l' hl'; cases hl'; omega

theorem verdict_ne_error (limit : Option Int) (level it cc : Int) : verdict limit level it cc ≠ .error := by
  unfold verdict
  cases limit <;> (repeat' split) <;> simp

theorem bump_true (cc : Int) : bump true cc = cc + 1 := by simp [bump]
theorem bump_false (cc : Int) : bump false cc = max 0 (cc - 1) := by simp [bump]

theorem bump_le (inc : Bool) (cc : Int) (h : 0 ≤ cc) : bump inc cc ≤ cc + (if inc then 1 else 0) := by
  cases inc <;> simp [bump]; omega

theorem bump_nonneg (inc : Bool) (cc : Int) (h : 0 ≤ cc) : 0 ≤ bump inc cc := by
  cases inc <;> simp [bump] <;> omega

variable {K τ : Type}

/-! ### one call -/

theorem check_eq_some {c : Ctrl K τ} {s s' : St τ} {o : Obs K} {st : Status}
    (h : c.check s o = some (s', st)) :
    ∃ inc aux, c.crit s.aux (s.itcount + 1) o = some (inc, aux) ∧
      s' = { itcount := s.itcount + 1, ccount := bump inc s.ccount, aux := aux } ∧
      st = verdict c.limit c.level (s.itcount + 1) (bump inc s.ccount) := by
  unfold Ctrl.check at h
  cases hc : c.crit s.aux (s.itcount + 1) o with
  | none => simp [hc] at h
  | some p =>
    obtain ⟨inc, aux⟩ := p
    simp [hc] at h
    exact ⟨inc, aux, rfl, h.1.symm, h.2.symm⟩

theorem check_ne_error {c : Ctrl K τ} {s s' : St τ} {o : Obs K} {st : Status}
    (h : c.check s o = some (s', st)) : st ≠ .error := by
  obtain ⟨inc, aux, _, _, rfl⟩ := check_eq_some h
  exact verdict_ne_error _ _ _ _

/-- **the counter cannot reach the level without the criterion holding in this very call** -/
theorem check_converged_crit {c : Ctrl K τ} {s s' : St τ} {o : Obs K} (hl : 1 ≤ c.level)
    (hcc : s.ccount < c.level) (h : c.check s o = some (s', .converged)) :
    (∃ l, c.limit = some l ∧ l ≤ s.itcount + 1) ∨ ∃ aux, c.crit s.aux (s.itcount + 1) o = some (true, aux) := by
  obtain ⟨inc, aux, hcrit, _, hv⟩ := check_eq_some h
  rcases verdict_converged hv.symm with hlim | hlev
  · exact Or.inl hlim
  · right
    cases inc with
    | true => exact ⟨aux, hcrit⟩
    | false => rw [bump_false] at hlev; omega

theorem check_continue_ccount {c : Ctrl K τ} {s s' : St τ} {o : Obs K}
    (h : c.check s o = some (s', .continue_)) : s'.ccount < c.level := by
  obtain ⟨inc, aux, _, rfl, hv⟩ := check_eq_some h
  exact (verdict_continue hv.symm).1

theorem check_itcount {c : Ctrl K τ} {s s' : St τ} {o : Obs K} {st : Status}
    (h : c.check s o = some (s', st)) : s'.itcount = s.itcount + 1 := by
  obtain ⟨inc, aux, _, rfl, _⟩ := check_eq_some h; rfl

theorem check_ccount_nonneg {c : Ctrl K τ} {s s' : St τ} {o : Obs K} {st : Status}
    (h : c.check s o = some (s', st)) (h0 : 0 ≤ s.ccount) : 0 ≤ s'.ccount := by
  obtain ⟨inc, aux, _, rfl, _⟩ := check_eq_some h; exact bump_nonneg _ _ h0

/-! ### histories -/

theorem feedFrom_append (c : Ctrl K τ) (s : St τ) (st : Status) (l₁ l₂ : List (Obs K)) :
    c.feedFrom s st (l₁ ++ l₂) =
      (c.feedFrom s st l₁).bind fun p => c.feedFrom p.1 p.2 l₂ := by
  induction l₁ generalizing s st with
  | nil => simp [Ctrl.feedFrom]
  | cons o os ih =>
    simp only [List.cons_append, Ctrl.feedFrom]
    cases c.check s o with
    | none => simp
    | some p => simp [ih]

/-- feeding one more observation = one more `check` on the state reached so far -/
theorem feed_snoc (c : Ctrl K τ) (o0 : Obs K) (os : List (Obs K)) (o : Obs K) :
    c.feed (o0 :: (os ++ [o])) = (c.feed (o0 :: os)).bind fun p => c.check p.1 o := by
  simp only [Ctrl.feed]
  cases c.start o0 with
  | none => simp
  | some p =>
    simp only [feedFrom_append]
    cases c.feedFrom p.1 p.2 os with
    | none => simp
    | some q =>
      simp only [Option.bind_some, Ctrl.feedFrom]
      cases c.check q.1 o <;> simp

theorem feed_single (c : Ctrl K τ) (o : Obs K) : c.feed [o] = c.start o := by
  simp only [Ctrl.feed]
  cases c.start o <;> rfl

/-- invariants of a history: `_itcount` counts the calls, `_ccount ≥ 0` -/
theorem feedFrom_inv (c : Ctrl K τ) (s : St τ) (st : Status) (os : List (Obs K)) (s' : St τ) (st' : Status)
    (h : c.feedFrom s st os = some (s', st')) (h0 : 0 ≤ s.ccount) :
    s'.itcount = s.itcount + os.length ∧ 0 ≤ s'.ccount := by
  induction os generalizing s st with
  | nil => simp [Ctrl.feedFrom] at h; obtain ⟨rfl, _⟩ := h; simp [h0]
  | cons o os ih =>
    simp only [Ctrl.feedFrom] at h
    cases hc : c.check s o with
    | none => simp [hc] at h
    | some p =>
      simp [hc] at h
      have := ih p.1 p.2 h (check_ccount_nonneg hc h0)
      rw [check_itcount hc] at this
      refine ⟨?_, this.2⟩
      rw [this.1]; simp; omega

theorem start_inv (c : Ctrl K τ) (o : Obs K) (s : St τ) (st : Status) (h : c.start o = some (s, st)) :
    s.itcount = 0 ∧ 0 ≤ s.ccount := by
  unfold Ctrl.start at h
  exact ⟨by rw [check_itcount h]; rfl, check_ccount_nonneg h (by simp)⟩

theorem feed_inv (c : Ctrl K τ) (o0 : Obs K) (os : List (Obs K)) (s : St τ) (st : Status)
    (h : c.feed (o0 :: os) = some (s, st)) : s.itcount = os.length ∧ 0 ≤ s.ccount := by
  simp only [Ctrl.feed] at h
  cases hs : c.start o0 with
  | none => simp [hs] at h
  | some p =>
    simp [hs] at h
    have h1 := start_inv c o0 p.1 p.2 hs
    have := feedFrom_inv c p.1 p.2 os s st h h1.2
    rw [h1.1] at this
    exact ⟨by simpa using this.1, this.2⟩

/-- a history whose last verdict is CONTINUE has its counter below the level -/
theorem feed_continue_ccount (c : Ctrl K τ) (l : List (Obs K)) (s : St τ)
    (h : c.feed l = some (s, .continue_)) : s.ccount < c.level := by
  rcases List.eq_nil_or_concat l with rfl | ⟨l', o, rfl⟩
  · simp [Ctrl.feed] at h
  · cases l' with
    | nil =>
      simp only [List.concat_eq_append, List.nil_append, feed_single] at h
      exact check_continue_ccount h
    | cons o0 os =>
      simp only [List.concat_eq_append, List.cons_append] at h
      rw [feed_snoc] at h
      cases hf : c.feed (o0 :: os) with
      | none => simp [hf] at h
      | some p =>
        simp [hf] at h
        exact check_continue_ccount h

/-- the verdict of the last call is the one computed from the final counters -/
theorem feed_verdict (c : Ctrl K τ) (l : List (Obs K)) (s : St τ) (st : Status) (h : c.feed l = some (s, st)) :
    st = verdict c.limit c.level s.itcount s.ccount := by
  have key : ∀ (s0 : St τ) (o : Obs K), c.check s0 o = some (s, st) →
      st = verdict c.limit c.level s.itcount s.ccount := by
    intro s0 o hc
    obtain ⟨inc, aux, _, rfl, rfl⟩ := check_eq_some hc
    rfl
  rcases List.eq_nil_or_concat l with rfl | ⟨l', o, rfl⟩
  · simp [Ctrl.feed] at h
  · cases l' with
    | nil =>
      simp only [List.concat_eq_append, List.nil_append, feed_single] at h
      exact key _ _ h
    | cons o0 os =>
      simp only [List.concat_eq_append, List.cons_append] at h
      rw [feed_snoc] at h
      cases hf : c.feed (o0 :: os) with
      | none => simp [hf] at h
      | some p =>
        simp [hf] at h
        exact key _ _ h

/-! ### counting: the counter never exceeds the number of calls in which the criterion held -/

/-- number of calls, starting from state `s`, in which the criterion said `inclvl = True` -/
def incsFrom (c : Ctrl K τ) : St τ → List (Obs K) → Nat
  | _, [] => 0
  | s, o :: os =>
    match c.crit s.aux (s.itcount + 1) o, c.check s o with
    | some (inc, _), some (s', _) => (if inc then 1 else 0) + incsFrom c s' os
    | _, _ => 0

/-- the same, for a whole history (`start` first) -/
def incs (c : Ctrl K τ) : List (Obs K) → Nat
  | [] => 0
  | o :: os => incsFrom c { itcount := -1, ccount := 0, aux := c.init o } (o :: os)

theorem feedFrom_ccount_le (c : Ctrl K τ) (s : St τ) (st : Status) (os : List (Obs K)) (s' : St τ) (st' : Status)
    (h : c.feedFrom s st os = some (s', st')) (h0 : 0 ≤ s.ccount) :
    s'.ccount ≤ s.ccount + incsFrom c s os := by
  induction os generalizing s st with
  | nil => simp [Ctrl.feedFrom] at h; obtain ⟨rfl, _⟩ := h; simp [incsFrom]
  | cons o os ih =>
    simp only [Ctrl.feedFrom] at h
    cases hc : c.check s o with
    | none => simp [hc] at h
    | some p =>
      simp [hc] at h
      obtain ⟨inc, aux, hcrit, hp, _⟩ := check_eq_some (show c.check s o = some (p.1, p.2) from hc)
      have h1 := ih p.1 p.2 h (check_ccount_nonneg hc h0)
      have h2 : p.1.ccount ≤ s.ccount + (if inc then 1 else 0) := by
        rw [hp]; exact bump_le inc s.ccount h0
      simp only [incsFrom, hcrit, hc]
      push_cast
      split at h2 <;> simp_all <;> omega

theorem feed_ccount_le (c : Ctrl K τ) (l : List (Obs K)) (s : St τ) (st : Status)
    (h : c.feed l = some (s, st)) : s.ccount ≤ incs c l := by
  cases l with
  | nil => simp [Ctrl.feed] at h
  | cons o os =>
    simp only [Ctrl.feed, Ctrl.start] at h
    have : c.feedFrom { itcount := -1, ccount := 0, aux := c.init o } .continue_ (o :: os) = some (s, st) := by
      simp only [Ctrl.feedFrom]; exact h
    have := feedFrom_ccount_le c _ _ _ s st this (by simp)
    simpa [incs] using this

/-! ### the controller's private memory along a history -/

/-- a criterion that never changes its memory keeps what `start` stored -/
theorem feedFrom_aux_const (c : Ctrl K τ) (hc : ∀ a it o b a', c.crit a it o = some (b, a') → a' = a)
    (s : St τ) (st : Status) (os : List (Obs K)) (s' : St τ) (st' : Status)
    (h : c.feedFrom s st os = some (s', st')) : s'.aux = s.aux := by
  induction os generalizing s st with
  | nil => simp [Ctrl.feedFrom] at h; obtain ⟨rfl, _⟩ := h; rfl
  | cons o os ih =>
    simp only [Ctrl.feedFrom] at h
    cases hk : c.check s o with
    | none => simp [hk] at h
    | some p =>
      simp [hk] at h
      obtain ⟨inc, aux, hcrit, hp, _⟩ := check_eq_some (show c.check s o = some (p.1, p.2) from hk)
      rw [ih p.1 p.2 h, hp]; exact hc _ _ _ _ _ hcrit

theorem feed_aux_const (c : Ctrl K τ) (hc : ∀ a it o b a', c.crit a it o = some (b, a') → a' = a)
    (o0 : Obs K) (os : List (Obs K)) (s : St τ) (st : Status)
    (h : c.feed (o0 :: os) = some (s, st)) : s.aux = c.init o0 := by
  simp only [Ctrl.feed] at h
  cases hs : c.start o0 with
  | none => simp [hs] at h
  | some p =>
    simp [hs] at h
    rw [feedFrom_aux_const c hc p.1 p.2 os s st h]
    unfold Ctrl.start at hs
    obtain ⟨inc, aux, hcrit, hp, _⟩ := check_eq_some (show c.check _ o0 = some (p.1, p.2) from hs)
    rw [hp]; exact hc _ _ _ _ _ hcrit

/-- a criterion that always stores `f obs` remembers the last observation -/
theorem feed_aux_last (c : Ctrl K τ) (f : Obs K → τ) (hc : ∀ a it o b a', c.crit a it o = some (b, a') → a' = f o)
    (o0 : Obs K) (os : List (Obs K)) (s : St τ) (st : Status)
    (h : c.feed (o0 :: os) = some (s, st)) : s.aux = f ((o0 :: os).getLast (by simp)) := by
  rcases List.eq_nil_or_concat os with rfl | ⟨os', o, rfl⟩
  · rw [feed_single] at h
    unfold Ctrl.start at h
    obtain ⟨inc, aux, hcrit, hp, _⟩ := check_eq_some h
    rw [hp]; simpa using hc _ _ _ _ _ hcrit
  · simp only [List.concat_eq_append] at h ⊢
    rw [feed_snoc] at h
    cases hf : c.feed (o0 :: os') with
    | none => simp [hf] at h
    | some p =>
      simp [hf] at h
      obtain ⟨inc, aux, hcrit, hp, _⟩ := check_eq_some h
      rw [hp]
      have : (o0 :: (os' ++ [o])).getLast (by simp) = o := by
        rw [List.getLast_cons (by simp)]; simp
      rw [this]; exact hc _ _ _ _ _ hcrit

/-! ### what the criteria say (ordered field) -/
section crit
variable {K : Type} [Field K] [LinearOrder K] [IsStrictOrderedRing K]

theorem gradNorm_crit_true {ta tr : Option K} {level : Int} {limit : Option Int} {ref : K} {it : Int} {o : Obs K}
    {aux : K} (h : (gradNorm ta tr level limit).crit ref it o = some (true, aux)) :
    (∃ t, ta = some t ∧ 0 ≤ t ∧ o.gnsq ≤ t * t) ∨
    (∃ t, tr = some t ∧ (0 ≤ t ∨ ref = 0) ∧ o.gnsq ≤ t * t * ref) := by
  simp only [gradNorm, Option.some.injEq, Prod.mk.injEq, Bool.or_eq_true] at h
  rcases h.1 with h1 | h1
  · left
    cases ta with
    | none => simp at h1
    | some t => simp [normLe] at h1; exact ⟨t, rfl, h1.1, h1.2⟩
  · right
    cases tr with
    | none => simp at h1
    | some t => simp [normLeRel] at h1; exact ⟨t, rfl, h1.1, h1.2⟩

theorem gradNorm_aux_const (ta tr : Option K) (level : Int) (limit : Option Int) :
    ∀ a it o b a', (gradNorm ta tr level limit).crit a it o = some (b, a') → a' = a := by
  intro a it o b a' h
  simp only [gradNorm, Option.some.injEq, Prod.mk.injEq] at h
  exact h.2.symm

theorem gradInf_crit_true {tol : Option K} {level : Int} {limit : Option Int} {it : Int} {o : Obs K}
    (h : (gradInf tol level limit).crit () it o = some (true, ())) :
    ∃ t, tol = some t ∧ o.value ≠ 0 ∧ 0 ≤ t ∧ o.ginfsq ≤ t * t * (o.value * o.value) := by
  simp only [gradInf, Option.some.injEq, Prod.mk.injEq, and_true] at h
  cases tol with
  | none => simp at h
  | some t => simp at h; exact ⟨t, rfl, h.1.1, h.1.2, h.2⟩

theorem absK_eq_abs (x : K) : absK x = |x| := by
  unfold absK
  split
  · rw [abs_of_neg ‹_›]
  · rw [abs_of_nonneg (not_lt.mp ‹_›)]

theorem maxK_eq_max (a b : K) : maxK a b = max a b := by
  unfold maxK
  split
  · rw [max_eq_right (le_of_lt ‹_›)]
  · rw [max_eq_left (not_lt.mp ‹_›)]

theorem deltaE_crit_true {tol : K} {level : Int} {limit : Option Int} {eold : K} {it : Int} {o : Obs K} {aux : K}
    (h : (deltaE tol level limit).crit eold it o = some (true, aux)) :
    0 < it ∧ 0 < max |eold| |o.value| ∧ |eold - o.value| < tol * max |eold| |o.value| := by
  simp only [deltaE, absK_eq_abs, maxK_eq_max] at h
  split at h
  · simp at h
  · rename_i hden
    simp only [Option.some.injEq, Prod.mk.injEq, Bool.and_eq_true, decide_eq_true_eq] at h
    have hpos : 0 < max |eold| |o.value| := lt_of_le_of_ne (le_max_of_le_left (abs_nonneg _)) (Ne.symm hden)
    refine ⟨h.1.1, hpos, ?_⟩
    have := h.1.2
    rwa [div_lt_iff₀ hpos] at this

theorem deltaE_aux (tol : K) (level : Int) (limit : Option Int) :
    ∀ a it o b a', (deltaE tol level limit).crit a it o = some (b, a') → a' = o.value := by
  intro a it o b a' h
  simp only [deltaE] at h
  split at h
  · simp only [Option.some.injEq, Prod.mk.injEq] at h; exact h.2.symm
  · simp only [Option.some.injEq, Prod.mk.injEq] at h; exact h.2.symm

theorem absDeltaE_crit_true {dE : K} {level : Int} {limit : Option Int} {eold : K} {it : Int} {o : Obs K} {aux : K}
    (h : (absDeltaE dE level limit).crit eold it o = some (true, aux)) :
    0 < it ∧ |eold - o.value| < dE := by
  simp only [absDeltaE, absK_eq_abs, Option.some.injEq, Prod.mk.injEq, Bool.and_eq_true, decide_eq_true_eq] at h
  exact h.1

theorem absDeltaE_aux (dE : K) (level : Int) (limit : Option Int) :
    ∀ a it o b a', (absDeltaE dE level limit).crit a it o = some (b, a') → a' = o.value := by
  intro a it o b a' h
  simp only [absDeltaE, Option.some.injEq, Prod.mk.injEq] at h; exact h.2.symm

/-- the memory kept by `StochasticAbsDeltaEnergyController` after one more energy -/
def stochMem (memLen : Int) (mem : List K) (v : K) : List K :=
  if memLen < ((mem ++ [v]).length : Int) then (mem ++ [v]).drop 1 else mem ++ [v]

theorem stochastic_crit_true {dE : K} {level : Int} {limit : Option Int} {memLen : Int} {mem : List K} {it : Int}
    {o : Obs K} {aux : List K}
    (h : (stochastic dE level limit memLen).crit mem it o = some (true, aux)) :
    0 < it ∧ stochMem memLen mem o.value ≠ [] ∧ 0 < dE ∧ varK (stochMem memLen mem o.value) < dE * dE := by
  simp only [stochastic, Option.some.injEq, Prod.mk.injEq, Bool.and_eq_true, decide_eq_true_eq,
    Bool.not_eq_true', List.isEmpty_eq_false_iff] at h
  obtain ⟨⟨h1, ⟨h2, h3⟩, h4⟩, _⟩ := h
  exact ⟨h1, h2, h3, h4⟩

/-- the last `m` elements of a list (`m ≤ 0`: none) -/
def lastN {α : Type} (m : Int) (l : List α) : List α := l.drop (l.length - m.toNat)

theorem stochMem_lastN (m : Int) (vals : List K) (v : K) :
    stochMem m (lastN m vals) v = lastN m (vals ++ [v]) := by
  unfold stochMem lastN
  have h1 : vals.drop (vals.length - m.toNat) ++ [v] = (vals ++ [v]).drop (vals.length - m.toNat) := by
    rw [List.drop_append_of_le_length (by omega)]
  rw [h1]
  simp only [List.length_drop, List.length_append, List.length_singleton, List.drop_drop]
  split
  · congr 1; omega
  · congr 1; omega

theorem stochastic_aux (dE : K) (level : Int) (limit : Option Int) (memLen : Int) :
    ∀ a it o b a', (stochastic dE level limit memLen).crit a it o = some (b, a') → a' = stochMem memLen a o.value := by
  intro a it o b a' h
  simp only [stochastic, Option.some.injEq, Prod.mk.injEq] at h
  exact h.2.symm

/-- the memory of `StochasticAbsDeltaEnergyController` after a history: the last `memory_length` energies -/
theorem stochastic_feed_aux (dE : K) (level : Int) (limit : Option Int) (memLen : Int)
    (o0 : Obs K) (os : List (Obs K)) (s : St (List K)) (st : Status)
    (h : (stochastic dE level limit memLen).feed (o0 :: os) = some (s, st)) :
    s.aux = lastN memLen ((o0 :: os).map (·.value)) := by
  generalize hn : os.length = n
  induction n generalizing os s st with
  | zero =>
    have : os = [] := List.length_eq_zero_iff.1 hn
    subst this
    rw [feed_single] at h
    unfold Ctrl.start at h
    obtain ⟨inc, aux, hcrit, hp, _⟩ := check_eq_some h
    rw [hp]
    have := stochastic_aux dE level limit memLen _ _ _ _ _ hcrit
    simp only [stochastic] at this
    rw [this]
    have := stochMem_lastN memLen ([] : List K) o0.value
    simpa [lastN] using this
  | succ n ih =>
    rcases List.eq_nil_or_concat os with rfl | ⟨os', o, rfl⟩
    · simp at hn
    · simp only [List.concat_eq_append] at h hn ⊢
      have hlen : os'.length = n := by simpa using hn
      rw [feed_snoc] at h
      cases hf : (stochastic dE level limit memLen).feed (o0 :: os') with
      | none => simp [hf] at h
      | some p =>
        simp [hf] at h
        obtain ⟨inc, aux, hcrit, hp, _⟩ := check_eq_some h
        rw [hp]
        have h1 := stochastic_aux dE level limit memLen _ _ _ _ _ hcrit
        have h2 := ih os' p.1 p.2 (by rw [hf]) hlen
        show aux = _
        rw [h1, h2, stochMem_lastN, ← List.cons_append, List.map_append]
        rfl

end crit

end NiftyVerif.Ctrl
