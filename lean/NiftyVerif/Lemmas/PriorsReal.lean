/-
  Real-analysis helpers for C30: the hypotheses on the standard-normal cdf (DESIGN.md §2.4) with their first consequences,
  the textbook Laplace cdf/quantile pair, and the `exp/log/sqrt` algebra behind `lognormal_moments`.
-/
import NiftyVerif.Model.Priors
import NiftyVerif.Lemmas.TranscReal

namespace NiftyVerif.Priors
open Real

/-- What the theorems assume about `Φ = norm.cdf` and `Φinv = norm.ppf` (trusted base; checked numerically against SciPy
    on a grid by the harness): strictly increasing, symmetric, positive, and an inverse pair on `(0,1)`. -/
structure StdNormal (Φ Φinv : ℝ → ℝ) : Prop where
  strictMono : StrictMono Φ
  symm : ∀ x, Φ (-x) = 1 - Φ x
  pos : ∀ x, 0 < Φ x
  right_inv : ∀ p, 0 < p → p < 1 → Φ (Φinv p) = p
  left_inv : ∀ x, Φinv (Φ x) = x

namespace StdNormal
variable {Φ Φinv : ℝ → ℝ} (h : StdNormal Φ Φinv)
include h

theorem lt_one (x : ℝ) : Φ x < 1 := by
  have := h.pos (-x); rw [h.symm] at this; linarith

theorem at_zero : Φ 0 = 1 / 2 := by
  have := h.symm 0; rw [neg_zero] at this; linarith

theorem lt_half_iff (x : ℝ) : Φ x < 1 / 2 ↔ x < 0 := by
  rw [← h.at_zero]; exact h.strictMono.lt_iff_lt

theorem half_lt_iff (x : ℝ) : 1 / 2 < Φ x ↔ 0 < x := by
  rw [← h.at_zero]; exact h.strictMono.lt_iff_lt

theorem inv_neg_iff {p : ℝ} (h0 : 0 < p) (h1 : p < 1) : Φinv p < 0 ↔ p < 1 / 2 := by
  rw [← h.lt_half_iff, h.right_inv p h0 h1]

theorem inv_pos_iff {p : ℝ} (h0 : 0 < p) (h1 : p < 1) : 0 < Φinv p ↔ 1 / 2 < p := by
  rw [← h.half_lt_iff, h.right_inv p h0 h1]

end StdNormal

/-- the logistic cdf and its inverse satisfy all hypotheses: the hypothesis set is consistent (non-vacuity witness) -/
theorem stdNormal_logistic :
    StdNormal (fun x => 1 / (1 + exp (-x))) (fun p => log (p / (1 - p))) where
  strictMono := by
    intro a b hab
    have h1 : exp (-b) < exp (-a) := exp_strictMono (by linarith)
    have ha : 0 < 1 + exp (-a) := by positivity
    have hb : 0 < 1 + exp (-b) := by positivity
    exact one_div_lt_one_div_of_lt hb (by linarith)
  symm := by
    intro x
    have hx : exp (- -x) = 1 / exp (-x) := by rw [neg_neg, exp_neg]; simp
    have hp : 0 < exp (-x) := exp_pos _
    rw [hx]; field_simp; ring
  pos := by intro x; positivity
  right_inv := by
    intro p h0 h1
    have hq : 0 < 1 - p := by linarith
    have : exp (-log (p / (1 - p))) = (1 - p) / p := by
      rw [exp_neg, exp_log (div_pos h0 hq)]; field_simp
    simp only [this]; field_simp; ring
  left_inv := by
    intro x
    have hp : 0 < exp (-x) := exp_pos _
    have : 1 / (1 + exp (-x)) / (1 - 1 / (1 + exp (-x))) = exp x := by
      rw [exp_neg] at *; have hx := exp_pos x; field_simp; ring
    simp only [this, log_exp]

/-! ### Laplace: SciPy's quantile is the inverse of the textbook cdf -/

/-- textbook cdf of the standard Laplace distribution, `F(z) = ½ e^z (z ≤ 0)`, `1 − ½ e^{−z} (z > 0)` -/
noncomputable def laplaceCdf (z : ℝ) : ℝ := if 0 < z then 1 - exp (-z) / 2 else exp z / 2

/-- textbook quantile function of the standard Laplace distribution -/
noncomputable def laplaceQuantile (p : ℝ) : ℝ := if p < 1 / 2 then log (2 * p) else -log (2 * (1 - p))

theorem laplaceCdf_quantile {p : ℝ} (h0 : 0 < p) (h1 : p < 1) : laplaceCdf (laplaceQuantile p) = p := by
  unfold laplaceCdf laplaceQuantile
  by_cases hp : p < 1 / 2
  · have hneg : ¬ 0 < log (2 * p) := not_lt.mpr (log_nonpos (by linarith) (by linarith))
    simp only [hp, if_true, hneg, if_false]
    rw [exp_log (by linarith)]; ring
  · simp only [hp, if_false]
    have hq : 0 < 2 * (1 - p) := by linarith
    by_cases hz : 0 < -log (2 * (1 - p))
    · simp only [hz, if_true, neg_neg]; rw [exp_log hq]; ring
    · simp only [hz, if_false]
      have : 2 * (1 - p) = 1 := by
        have hle : 2 * (1 - p) ≤ 1 := by linarith [not_lt.mp hp]
        have h0' : 0 ≤ log (2 * (1 - p)) := by linarith [not_lt.mp hz]
        have : 1 ≤ 2 * (1 - p) := (log_nonneg_iff hq).mp h0'
        linarith
      rw [this, log_one, neg_zero, exp_zero]; linarith

theorem laplaceQuantile_cdf (z : ℝ) : laplaceQuantile (laplaceCdf z) = z := by
  unfold laplaceCdf laplaceQuantile
  by_cases hz : 0 < z
  · have he : exp (-z) < 1 := by rw [exp_lt_one_iff]; linarith
    have hp : ¬ (1 - exp (-z) / 2 < 1 / 2) := by linarith [exp_pos (-z)]
    simp only [hz, if_true, hp, if_false]
    have : 2 * (1 - (1 - exp (-z) / 2)) = exp (-z) := by ring
    rw [this, log_exp]; ring
  · simp only [hz, if_false]
    have hle : exp z ≤ 1 := by rw [exp_le_one_iff]; exact not_lt.mp hz
    by_cases hp : exp z / 2 < 1 / 2
    · simp only [hp, if_true]
      have : 2 * (exp z / 2) = exp z := by ring
      rw [this, log_exp]
    · simp only [hp, if_false]
      have h1 : exp z = 1 := by linarith [not_lt.mp hp]
      have hz0 : z = 0 := by rwa [exp_eq_one_iff] at h1
      subst hz0; simp; norm_num

theorem laplaceQuantile_strictMonoOn : StrictMonoOn laplaceQuantile (Set.Ioo 0 1) := by
  intro a ha b hb hab
  obtain ⟨ha0, ha1⟩ := ha
  obtain ⟨hb0, hb1⟩ := hb
  unfold laplaceQuantile
  by_cases hpa : a < 1 / 2
  · by_cases hpb : b < 1 / 2
    · simp only [hpa, hpb, if_true]
      exact log_lt_log (by linarith) (by linarith)
    · simp only [hpa, hpb, if_true, if_false]
      have h1 : log (2 * a) < 0 := log_neg (by linarith) (by linarith)
      have h2 : log (2 * (1 - b)) ≤ 0 := log_nonpos (by linarith) (by linarith [not_lt.mp hpb])
      linarith
  · have hpb : ¬ b < 1 / 2 := fun hh => hpa (lt_trans hab hh)
    simp only [hpa, hpb, if_false]
    have : log (2 * (1 - b)) < log (2 * (1 - a)) := log_lt_log (by linarith) (by linarith)
    linarith

/-! ### `lognormal_moments` algebra -/

/-- with `v = log(1 + (s/m)²)`: `σ_ℓ = √v`, `μ_ℓ = log m − v/2` reproduce mean `m` and variance `s²` of `exp(N(μ_ℓ, σ_ℓ²))` -/
theorem lognormal_algebra {m s : ℝ} (hm : 0 < m) (hs : 0 < s) :
    let v := log (1 + s / m * (s / m))
    0 < v ∧ sqrt v * sqrt v = v ∧ exp (log m - v / 2 + v / 2) = m ∧
      (exp v - 1) * exp (2 * (log m - v / 2) + v) = s ^ 2 := by
  intro v
  have hr : 0 < s / m * (s / m) := by positivity
  have hv : 0 < v := log_pos (by linarith)
  refine ⟨hv, mul_self_sqrt hv.le, ?_, ?_⟩
  · have : log m - v / 2 + v / 2 = log m := by ring
    rw [this, exp_log hm]
  · have h1 : exp v = 1 + s / m * (s / m) := exp_log (by linarith)
    have h2 : 2 * (log m - v / 2) + v = log m + log m := by ring
    rw [h1, h2, exp_add, exp_log hm]
    field_simp; ring

end NiftyVerif.Priors
