/-
  Lemmas about Model/CgClassic.lean: QuadraticEnergy bookkeeping and the invariants of the CG loop.
  Everything is stated for an arbitrary ordered field `K`, an arbitrary `K`-module `V`, an arbitrary linear `A`
  and an arbitrary bilinear form `ip` — hence for every dimension and every matrix.
-/
import NiftyVerif.Model.CgClassic
import NiftyVerif.Lemmas.Controllers
import Mathlib.Algebra.Module.Basic
import Mathlib.Tactic.Ring
import Mathlib.Tactic.Linarith
import Mathlib.Tactic.FieldSimp

set_option linter.unusedSectionVars false
set_option linter.unnecessarySeqFocus false

namespace NiftyVerif.CgClassic
open NiftyVerif.Ctrl

variable {K V τ : Type} [Field K] [LinearOrder K] [IsStrictOrderedRing K] [AddCommGroup V] [Module K V]

/-! ### specification vocabulary -/

/-- the gradient of `x ↦ ½⟨x, A x⟩ − ⟨b, x⟩` for self-adjoint `A`, i.e. the residual `A x − b` (`b = None`: `A x`) -/
def trueGrad (S : Sys V K) (x : V) : V :=
  match S.b with
  | none => S.A x
  | some b => S.A x - b

/-- the quadratic energy `½⟨x, A x⟩ − ⟨b, x⟩` -/
def trueValue (S : Sys V K) (x : V) : K :=
  match S.b with
  | none => S.ip x (S.A x) / 2
  | some b => S.ip x (S.A x) / 2 - S.ip b x

/-- an energy object whose stored gradient and value are those of its position -/
def QE.Consistent (S : Sys V K) (E : QE V K) : Prop :=
  E.grad = trueGrad S E.pos ∧ E.value = trueValue S E.pos

/-- `A` is linear -/
structure Sys.Linear (S : Sys V K) : Prop where
  A_sub : ∀ x y, S.A (x - y) = S.A x - S.A y
  A_smul : ∀ (a : K) x, S.A (a • x) = a • S.A x

/-- `ip` is a symmetric bilinear form -/
structure Sys.Bilinear (S : Sys V K) : Prop where
  add_left : ∀ x y z, S.ip (x + y) z = S.ip x z + S.ip y z
  smul_left : ∀ (a : K) x y, S.ip (a • x) y = a * S.ip x y
  symm : ∀ x y, S.ip x y = S.ip y x

namespace Sys.Bilinear
variable {S : Sys V K} (h : S.Bilinear)
include h
theorem add_right (x y z : V) : S.ip x (y + z) = S.ip x y + S.ip x z := by
  rw [h.symm, h.add_left, h.symm y, h.symm z]
theorem smul_right (a : K) (x y : V) : S.ip x (a • y) = a * S.ip x y := by
  rw [h.symm, h.smul_left, h.symm]
theorem sub_left (x y z : V) : S.ip (x - y) z = S.ip x z - S.ip y z := by
  have := h.add_left (x - y) y z
  rw [sub_add_cancel] at this; rw [this]; ring
theorem sub_right (x y z : V) : S.ip x (y - z) = S.ip x y - S.ip x z := by
  rw [h.symm, h.sub_left, h.symm y, h.symm z]
end Sys.Bilinear

/-! ### QuadraticEnergy -/

theorem at_consistent (S : Sys V K) (x : V) : (QE.at S x).Consistent S := by
  unfold QE.at QE.make QE.Consistent trueGrad trueValue
  cases S.b <;> simp

theorem at_pos (S : Sys V K) (x : V) : (QE.at S x).pos = x := rfl
theorem atWithGrad_pos (S : Sys V K) (x g : V) : (QE.atWithGrad S x g).pos = x := rfl
theorem atWithGrad_grad (S : Sys V K) (x g : V) : (QE.atWithGrad S x g).grad = g := rfl

theorem atWithGrad_consistent_iff (S : Sys V K) (x g : V) :
    (QE.atWithGrad S x g).Consistent S ↔ g = trueGrad S x := by
  unfold QE.atWithGrad QE.make QE.Consistent trueGrad trueValue
  cases S.b with
  | none =>
    simp only
    constructor
    · intro h; exact h.1
    · intro h; subst h; exact ⟨rfl, rfl⟩
  | some b =>
    simp only
    constructor
    · intro h; exact h.1
    · intro h; subst h; refine ⟨rfl, ?_⟩; rw [sub_add_cancel]

/-! ### one step -/

/-- `advance` keeps the energy object consistent (needs only linearity of `A`), returns `r = energy.gradient`,
    and moves the position by `−α d` -/
theorem advance_spec (S : Sys V K) (hA : S.Linear) (nreset : Int) (E : QE V K) (r d : V) (alpha : K) (ii1 : Int)
    (hE : E.Consistent S) (hr : r = E.grad) :
    ((advance S nreset E r d (S.A d) alpha ii1).1).Consistent S ∧
    (advance S nreset E r d (S.A d) alpha ii1).2.1 = (advance S nreset E r d (S.A d) alpha ii1).1.grad ∧
    (advance S nreset E r d (S.A d) alpha ii1).1.pos = E.pos - alpha • d ∧
    (advance S nreset E r d (S.A d) alpha ii1).1.grad = r - alpha • S.A d := by
  have key : trueGrad S (E.pos - alpha • d) = r - alpha • S.A d := by
    rw [hr, hE.1]
    unfold trueGrad
    cases S.b with
    | none => simp only; rw [hA.A_sub, hA.A_smul]
    | some b => simp only; rw [hA.A_sub, hA.A_smul]; exact sub_right_comm _ _ _
  unfold advance
  split
  · refine ⟨(atWithGrad_consistent_iff S _ _).2 key.symm, rfl, rfl, rfl⟩
  · refine ⟨at_consistent S _, rfl, rfl, ?_⟩
    rw [(at_consistent S _).1, at_pos, key]

theorem advance_eq_spec (S : Sys V K) (hA : S.Linear) {nreset : Int} {E : QE V K} {r d : V} {alpha : K} {ii1 : Int}
    {E' : QE V K} {r' : V} {ii' : Int} (hE : E.Consistent S) (hr : r = E.grad)
    (h : advance S nreset E r d (S.A d) alpha ii1 = (E', r', ii')) :
    E'.Consistent S ∧ r' = E'.grad ∧ E'.pos = E.pos - alpha • d ∧ E'.grad = r - alpha • S.A d := by
  have := advance_spec S hA nreset E r d alpha ii1 hE hr
  rw [h] at this
  exact this

theorem feed_map_snoc (S : Sys V K) (c : Ctrl K τ) (ch : List (QE V K)) (hch : ch ≠ []) (E' : QE V K) :
    c.feed ((ch ++ [E']).map (obs S)) = (c.feed (ch.map (obs S))).bind fun p => c.check p.1 (obs S E') := by
  cases ch with
  | nil => exact absurd rfl hch
  | cons e0 rest =>
    simp only [List.cons_append, List.map_cons, List.map_append, List.map_nil]
    exact feed_snoc c (obs S e0) (rest.map (obs S)) (obs S E')

theorem forall_mem_snoc {α : Type} {p : α → Prop} {l : List α} {a : α} (hl : ∀ x ∈ l, p x) (ha : p a) :
    ∀ x ∈ l ++ [a], p x := by
  intro x hx
  rcases List.mem_append.1 hx with h | h
  · exact hl x h
  · rw [List.mem_singleton.1 h]; exact ha

/-! ### the loop: invariants that need only linearity of `A` -/

/-- what holds of every result of the loop (no assumption on definiteness, symmetry or the preconditioner) -/
structure BasicPost (S : Sys V K) (c : Ctrl K τ) (ch0 : List (QE V K)) (out : Out V K τ) : Prop where
  /-- the energies shown to the controller before are still the first ones in the record -/
  pre : ∃ t, out.checked = ch0 ++ t
  /-- the returned energy object carries the gradient and value of its position -/
  energy : out.energy.Consistent S
  /-- so does every energy object constructed on the way -/
  made : ∀ E' ∈ out.made, E'.Consistent S
  /-- every step length that was used is non-negative -/
  alpha : ∀ it ∈ out.iters, 0 ≤ it.alpha
  /-- CONVERGED is only returned through `gamma == 0` or through the controller -/
  conv : out.status = .converged → out.reason = .gammaZero ∨ out.reason = .ctrlCheck
  /-- ERROR is only returned through the four give-up exits -/
  err : out.status = .error →
    out.reason = .curvZero ∨ out.reason = .alphaNeg ∨ out.reason = .gammaNeg ∨ out.reason = .raised
  /-- the `gamma == 0` exit: `⟨r, P r⟩ = 0` for the gradient of the returned energy -/
  gz : out.reason = .gammaZero → S.ip out.energy.grad (precond S out.energy.grad) = 0
  /-- the controller exit: its verdict is the one of `check` on the returned energy after a history of CONTINUEs -/
  chk : out.reason = .ctrlCheck → ∃ pre s0 s1, out.checked = pre ++ [out.energy] ∧ pre ≠ [] ∧
    c.feed (pre.map (obs S)) = some (s0, .continue_) ∧
    c.check s0 (obs S out.energy) = some (s1, out.status) ∧ out.ctrl = some s1
  /-- reasons of the prologue do not occur -/
  noPrologue : out.reason ≠ .ctrlStart ∧ out.reason ≠ .gammaZero0

theorem loop_basic (S : Sys V K) (hA : S.Linear) (c : Ctrl K τ) (nreset : Int) (fuel : Nat)
    (E : QE V K) (r d : V) (pg : K) (ii : Int) (s : St τ) (ch md : List (QE V K)) (its : List (Iter K))
    (hE : E.Consistent S) (hr : r = E.grad) (hmd : ∀ E' ∈ md, E'.Consistent S)
    (hch : ch ≠ []) (hfeed : c.feed (ch.map (obs S)) = some (s, .continue_))
    (hits : ∀ it ∈ its, 0 ≤ it.alpha) :
    BasicPost S c ch (loop S c nreset fuel E r d pg ii s ch md its) := by
  fun_induction loop S c nreset fuel E r d pg ii s ch md its
  case case1 => exact ⟨⟨[], by simp⟩, hE, hmd, hits, by simp, by simp, by simp, by simp, by simp⟩
  case case2 => exact ⟨⟨[], by simp⟩, hE, hmd, hits, by simp, by simp, by simp, by simp, by simp⟩
  case case3 => exact ⟨⟨[], by simp⟩, hE, hmd, hits, by simp, by simp, by simp, by simp, by simp⟩
  case case4 fuel E r d pg ii s ch md its hcurv halpha E' r' ii' hadv it hgam =>
    obtain ⟨hE', hr', _, _⟩ := advance_eq_spec S hA hE hr hadv
    exact ⟨⟨[], by simp⟩, hE', forall_mem_snoc hmd hE', forall_mem_snoc hits (not_lt.1 halpha), by simp, by simp,
      by simp, by simp, by simp⟩
  case case5 fuel E r d pg ii s ch md its hcurv halpha E' r' ii' hadv it hgam hgz =>
    obtain ⟨hE', hr', _, _⟩ := advance_eq_spec S hA hE hr hadv
    refine ⟨⟨[], by simp⟩, hE', forall_mem_snoc hmd hE', forall_mem_snoc hits (not_lt.1 halpha), by simp, by simp,
      ?_, by simp, by simp⟩
    intro _; rw [← hr']; exact hgz
  case case6 fuel E r d pg ii s ch md its hcurv halpha E' r' ii' hadv it hgam hgz hchk =>
    obtain ⟨hE', hr', _, _⟩ := advance_eq_spec S hA hE hr hadv
    exact ⟨⟨[E'], rfl⟩, hE', forall_mem_snoc hmd hE', forall_mem_snoc hits (not_lt.1 halpha), by simp, by simp,
      by simp, by simp, by simp⟩
  case case7 fuel E r d pg ii s ch md its hcurv halpha E' r' ii' hadv it hgam hgz s1 status hchk hst =>
    obtain ⟨hE', hr', _, _⟩ := advance_eq_spec S hA hE hr hadv
    refine ⟨⟨[E'], rfl⟩, hE', forall_mem_snoc hmd hE', forall_mem_snoc hits (not_lt.1 halpha), by simp, ?_,
      by simp, ?_, by simp⟩
    · intro he; exact absurd he (check_ne_error hchk)
    · intro _; exact ⟨ch, s, s1, rfl, hch, hfeed, hchk, rfl⟩
  case case8 fuel E r d pg ii s ch md its hcurv halpha E' r' ii' hadv it hgam hgz s1 status hchk hst ih =>
    obtain ⟨hE', hr', _, _⟩ := advance_eq_spec S hA hE hr hadv
    have hst' : status = .continue_ := not_not.1 hst
    have := ih hE' hr' (forall_mem_snoc hmd hE') (by simp)
      (by rw [feed_map_snoc S c ch hch, hfeed, ← hst']; exact hchk) (forall_mem_snoc hits (not_lt.1 halpha))
    obtain ⟨t, ht⟩ := this.pre
    exact { this with pre := ⟨[E'] ++ t, by rw [ht, List.append_assoc]⟩ }

/-- what holds of every result of `ConjugateGradient.__call__` started from a consistent energy object -/
structure CgPost (S : Sys V K) (c : Ctrl K τ) (E : QE V K) (out : Out V K τ) : Prop where
  energy : out.energy.Consistent S
  made : ∀ E' ∈ out.made, E'.Consistent S
  alpha : ∀ it ∈ out.iters, 0 ≤ it.alpha
  /-- the first energy shown to the controller is the start energy -/
  pre : ∃ t, out.checked = E :: t
  conv : out.status = .converged →
    out.reason = .ctrlStart ∨ out.reason = .gammaZero0 ∨ out.reason = .gammaZero ∨ out.reason = .ctrlCheck
  err : out.status = .error →
    out.reason = .curvZero ∨ out.reason = .alphaNeg ∨ out.reason = .gammaNeg ∨ out.reason = .raised
  /-- verdict of `controller.start` -/
  start : out.reason = .ctrlStart → out.energy = E ∧ ∃ s1, c.start (obs S E) = some (s1, out.status) ∧ out.ctrl = some s1
  gz0 : out.reason = .gammaZero0 → out.energy = E
  /-- both `gamma == 0` exits: `⟨r, P r⟩ = 0` at the returned energy -/
  gz : out.reason = .gammaZero0 ∨ out.reason = .gammaZero → S.ip out.energy.grad (precond S out.energy.grad) = 0
  chk : out.reason = .ctrlCheck → ∃ os s0 s1, out.checked = E :: (os ++ [out.energy]) ∧
    c.feed ((E :: os).map (obs S)) = some (s0, .continue_) ∧
    c.check s0 (obs S out.energy) = some (s1, out.status) ∧ out.ctrl = some s1

theorem cg_basic (S : Sys V K) (hA : S.Linear) (c : Ctrl K τ) (nreset : Int) (fuel : Nat) (E : QE V K)
    (hE : E.Consistent S) : CgPost S c E (cg S c nreset fuel E) := by
  unfold cg
  split
  · exact ⟨hE, by simp, by simp, ⟨[], rfl⟩, by simp, by simp, by simp, by simp, by simp, by simp⟩
  · rename_i s status hstart
    split
    · rename_i hst
      refine ⟨hE, by simp, by simp, ⟨[], rfl⟩, by simp, ?_, ?_, by simp, by simp, by simp⟩
      · intro he; exact absurd he (check_ne_error hstart)
      · intro _; exact ⟨rfl, s, hstart, rfl⟩
    · rename_i hst
      have hst' : status = .continue_ := not_not.1 hst
      subst hst'
      dsimp only
      split
      · rename_i hpg
        refine ⟨hE, by simp, by simp, ⟨[], rfl⟩, by simp, by simp, by simp, by simp, ?_, by simp⟩
        intro _; exact hpg
      · have hb := loop_basic S hA c nreset fuel E E.grad (precond S E.grad) (S.ip E.grad (precond S E.grad)) 0 s
          [E] [] [] hE rfl (by simp) (by simp) (by simpa [feed_single] using hstart) (by simp)
        obtain ⟨t, ht⟩ := hb.pre
        refine ⟨hb.energy, hb.made, hb.alpha, ⟨t, by simpa using ht⟩, ?_, hb.err, ?_, ?_, ?_, ?_⟩
        · intro h; rcases hb.conv h with h1 | h1
          · exact Or.inr (Or.inr (Or.inl h1))
          · exact Or.inr (Or.inr (Or.inr h1))
        · intro h; exact absurd h hb.noPrologue.1
        · intro h; exact absurd h hb.noPrologue.2
        · intro h; rcases h with h | h
          · exact absurd h hb.noPrologue.2
          · exact hb.gz h
        · intro h
          obtain ⟨pre, s0, s1, h1, h2, h3, h4, h5⟩ := hb.chk h
          -- `pre` starts with `E`
          rw [ht] at h1
          cases pre with
          | nil => exact absurd rfl h2
          | cons e0 os =>
            have he0 : e0 = E := by
              have := congrArg List.head? h1
              simp at this; exact this.symm
            subst he0
            refine ⟨os, s0, s1, ?_, h3, h4, h5⟩
            rw [ht, h1]; simp

end NiftyVerif.CgClassic
