/-
  Lemmas about Model/CgClassic.lean: QuadraticEnergy bookkeeping and the invariants of the CG loop.
  Everything is stated for an arbitrary ordered field `K`, an arbitrary `K`-module `V`, an arbitrary linear `A`
  and an arbitrary bilinear form `ip` — hence for every dimension and every matrix.
-/
import NiftyVerif.Model.CgClassic
import NiftyVerif.Lemmas.Controllers
import Mathlib.Algebra.Module.Basic
import Mathlib.Tactic.Ring
import Mathlib.Tactic.Linarith
import Mathlib.Tactic.FieldSimp

set_option linter.unusedSectionVars false
set_option linter.unnecessarySeqFocus false

namespace NiftyVerif.CgClassic
open NiftyVerif.Ctrl

variable {K V τ : Type} [Field K] [LinearOrder K] [IsStrictOrderedRing K] [AddCommGroup V] [Module K V]

/-! ### specification vocabulary -/

/-- the gradient of `x ↦ ½⟨x, A x⟩ − ⟨b, x⟩` for self-adjoint `A`, i.e. the residual `A x − b` (`b = None`: `A x`) -/
def trueGrad (S : Sys V K) (x : V) : V :=
  match S.b with
  | none => S.A x
  | some b => S.A x - b

/-- the quadratic energy `½⟨x, A x⟩ − ⟨b, x⟩` -/
def trueValue (S : Sys V K) (x : V) : K :=
  match S.b with
  | none => S.ip x (S.A x) / 2
  | some b => S.ip x (S.A x) / 2 - S.ip b x

/-- an energy object whose stored gradient and value are those of its position -/
def QE.Consistent (S : Sys V K) (E : QE V K) : Prop :=
  E.grad = trueGrad S E.pos ∧ E.value = trueValue S E.pos

/-- `A` is linear -/
structure Sys.Linear (S : Sys V K) : Prop where
  A_sub : ∀ x y, S.A (x - y) = S.A x - S.A y
  A_smul : ∀ (a : K) x, S.A (a • x) = a • S.A x

/-- `ip` is a symmetric bilinear form -/
structure Sys.Bilinear (S : Sys V K) : Prop where
  add_left : ∀ x y z, S.ip (x + y) z = S.ip x z + S.ip y z
  smul_left : ∀ (a : K) x y, S.ip (a • x) y = a * S.ip x y
  symm : ∀ x y, S.ip x y = S.ip y x

namespace Sys.Bilinear
variable {S : Sys V K} (h : S.Bilinear)
include h
theorem add_right (x y z : V) : S.ip x (y + z) = S.ip x y + S.ip x z := by
  rw [h.symm, h.add_left, h.symm y, h.symm z]
theorem smul_right (a : K) (x y : V) : S.ip x (a • y) = a * S.ip x y := by
  rw [h.symm, h.smul_left, h.symm]
theorem sub_left (x y z : V) : S.ip (x - y) z = S.ip x z - S.ip y z := by
  have := h.add_left (x - y) y z
  rw [sub_add_cancel] at this; rw [this]; ring
theorem sub_right (x y z : V) : S.ip x (y - z) = S.ip x y - S.ip x z := by
  rw [h.symm, h.sub_left, h.symm y, h.symm z]
end Sys.Bilinear

/-! ### QuadraticEnergy -/

theorem at_consistent (S : Sys V K) (x : V) : (QE.at S x).Consistent S := by
  unfold QE.at QE.make QE.Consistent trueGrad trueValue
  cases S.b <;> simp

theorem at_pos (S : Sys V K) (x : V) : (QE.at S x).pos = x := rfl
theorem atWithGrad_pos (S : Sys V K) (x g : V) : (QE.atWithGrad S x g).pos = x := rfl
theorem atWithGrad_grad (S : Sys V K) (x g : V) : (QE.atWithGrad S x g).grad = g := rfl

theorem atWithGrad_consistent_iff (S : Sys V K) (x g : V) :
    (QE.atWithGrad S x g).Consistent S ↔ g = trueGrad S x := by
  unfold QE.atWithGrad QE.make QE.Consistent trueGrad trueValue
  cases S.b with
  | none =>
    simp only
    constructor
    · intro h; exact h.1
    · intro h; subst h; exact ⟨rfl, rfl⟩
  | some b =>
    simp only
    constructor
    · intro h; exact h.1
    · intro h; subst h; refine ⟨rfl, ?_⟩; rw [sub_add_cancel]

/-! ### one step -/

/-- `advance` keeps the energy object consistent (needs only linearity of `A`), returns `r = energy.gradient`,
    and moves the position by `−α d` -/
theorem advance_spec (S : Sys V K) (hA : S.Linear) (nreset : Int) (E : QE V K) (r d : V) (alpha : K) (ii1 : Int)
    (hE : E.Consistent S) (hr : r = E.grad) :
    ((advance S nreset E r d (S.A d) alpha ii1).1).Consistent S ∧
    (advance S nreset E r d (S.A d) alpha ii1).2.1 = (advance S nreset E r d (S.A d) alpha ii1).1.grad ∧
    (advance S nreset E r d (S.A d) alpha ii1).1.pos = E.pos - alpha • d ∧
    (advance S nreset E r d (S.A d) alpha ii1).1.grad = r - alpha • S.A d := by
  have key : trueGrad S (E.pos - alpha • d) = r - alpha • S.A d := by
    rw [hr, hE.1]
    unfold trueGrad
    cases S.b with
    | none => simp only; rw [hA.A_sub, hA.A_smul]
    | some b => simp only; rw [hA.A_sub, hA.A_smul]; exact sub_right_comm _ _ _
  unfold advance
  split
  · refine ⟨(atWithGrad_consistent_iff S _ _).2 key.symm, rfl, rfl, rfl⟩
  · refine ⟨at_consistent S _, rfl, rfl, ?_⟩
    rw [(at_consistent S _).1, at_pos, key]

theorem advance_eq_spec (S : Sys V K) (hA : S.Linear) {nreset : Int} {E : QE V K} {r d : V} {alpha : K} {ii1 : Int}
    {E' : QE V K} {r' : V} {ii' : Int} (hE : E.Consistent S) (hr : r = E.grad)
    (h : advance S nreset E r d (S.A d) alpha ii1 = (E', r', ii')) :
    E'.Consistent S ∧ r' = E'.grad ∧ E'.pos = E.pos - alpha • d ∧ E'.grad = r - alpha • S.A d := by
  have := advance_spec S hA nreset E r d alpha ii1 hE hr
  rw [h] at this
  exact this

theorem feed_map_snoc (S : Sys V K) (c : Ctrl K τ) (ch : List (QE V K)) (hch : ch ≠ []) (E' : QE V K) :
    c.feed ((ch ++ [E']).map (obs S)) = (c.feed (ch.map (obs S))).bind fun p => c.check p.1 (obs S E') := by
  cases ch with
  | nil => exact absurd rfl hch
  | cons e0 rest =>
    simp only [List.cons_append, List.map_cons, List.map_append, List.map_nil]
    exact feed_snoc c (obs S e0) (rest.map (obs S)) (obs S E')

theorem forall_mem_snoc {α : Type} {p : α → Prop} {l : List α} {a : α} (hl : ∀ x ∈ l, p x) (ha : p a) :
    ∀ x ∈ l ++ [a], p x := by
  intro x hx
  rcases List.mem_append.1 hx with h | h
  · exact hl x h
  · rw [List.mem_singleton.1 h]; exact ha

/-! ### the loop: invariants that need only linearity of `A` -/

/-- what holds of every result of the loop (no assumption on definiteness, symmetry or the preconditioner) -/
structure BasicPost (S : Sys V K) (c : Ctrl K τ) (ch0 : List (QE V K)) (out : Out V K τ) : Prop where
  /-- the energies shown to the controller before are still the first ones in the record -/
  pre : ∃ t, out.checked = ch0 ++ t
  /-- the returned energy object carries the gradient and value of its position -/
  energy : out.energy.Consistent S
  /-- so does every energy object constructed on the way -/
  made : ∀ E' ∈ out.made, E'.Consistent S
  /-- and every energy object shown to the controller -/
  checkedC : ∀ E' ∈ out.checked, E'.Consistent S
  /-- every step length that was used is non-negative -/
  alpha : ∀ it ∈ out.iters, 0 ≤ it.alpha
  /-- CONVERGED is only returned through `gamma == 0` or through the controller -/
  conv : out.status = .converged → out.reason = .gammaZero ∨ out.reason = .ctrlCheck
  /-- ERROR is only returned through the four give-up exits -/
  err : out.status = .error →
    out.reason = .curvZero ∨ out.reason = .alphaNeg ∨ out.reason = .gammaNeg ∨ out.reason = .raised
  /-- the `gamma == 0` exit: `⟨r, P r⟩ = 0` for the gradient of the returned energy -/
  gz : out.reason = .gammaZero → S.ip out.energy.grad (precond S out.energy.grad) = 0
  /-- the controller exit: its verdict is the one of `check` on the returned energy after a history of CONTINUEs -/
  chk : out.reason = .ctrlCheck → ∃ pre s0 s1, out.checked = pre ++ [out.energy] ∧ pre ≠ [] ∧
    c.feed (pre.map (obs S)) = some (s0, .continue_) ∧
    c.check s0 (obs S out.energy) = some (s1, out.status) ∧ out.ctrl = some s1
  /-- reasons of the prologue do not occur -/
  noPrologue : out.reason ≠ .ctrlStart ∧ out.reason ≠ .gammaZero0

theorem loop_basic (S : Sys V K) (hA : S.Linear) (c : Ctrl K τ) (nreset : Int) (fuel : Nat)
    (E : QE V K) (r d : V) (pg : K) (ii : Int) (s : St τ) (ch md : List (QE V K)) (its : List (Iter K))
    (hE : E.Consistent S) (hr : r = E.grad) (hmd : ∀ E' ∈ md, E'.Consistent S)
    (hch : ch ≠ []) (hchc : ∀ E' ∈ ch, E'.Consistent S) (hfeed : c.feed (ch.map (obs S)) = some (s, .continue_))
    (hits : ∀ it ∈ its, 0 ≤ it.alpha) :
    BasicPost S c ch (loop S c nreset fuel E r d pg ii s ch md its) := by
  fun_induction loop S c nreset fuel E r d pg ii s ch md its
  case case1 => exact ⟨⟨[], by simp⟩, hE, hmd, hchc, hits, by simp, by simp, by simp, by simp, by simp⟩
  case case2 => exact ⟨⟨[], by simp⟩, hE, hmd, hchc, hits, by simp, by simp, by simp, by simp, by simp⟩
  case case3 => exact ⟨⟨[], by simp⟩, hE, hmd, hchc, hits, by simp, by simp, by simp, by simp, by simp⟩
  case case4 fuel E r d pg ii s ch md its hcurv halpha E' r' ii' hadv it hgam =>
    obtain ⟨hE', hr', _, _⟩ := advance_eq_spec S hA hE hr hadv
    exact ⟨⟨[], by simp⟩, hE', forall_mem_snoc hmd hE', hchc, forall_mem_snoc hits (not_lt.1 halpha), by simp, by simp,
      by simp, by simp, by simp⟩
  case case5 fuel E r d pg ii s ch md its hcurv halpha E' r' ii' hadv it hgam hgz =>
    obtain ⟨hE', hr', _, _⟩ := advance_eq_spec S hA hE hr hadv
    refine ⟨⟨[], by simp⟩, hE', forall_mem_snoc hmd hE', hchc, forall_mem_snoc hits (not_lt.1 halpha), by simp, by simp,
      ?_, by simp, by simp⟩
    intro _; rw [← hr']; exact hgz
  case case6 fuel E r d pg ii s ch md its hcurv halpha E' r' ii' hadv it hgam hgz hchk =>
    obtain ⟨hE', hr', _, _⟩ := advance_eq_spec S hA hE hr hadv
    exact ⟨⟨[E'], rfl⟩, hE', forall_mem_snoc hmd hE', forall_mem_snoc hchc hE', forall_mem_snoc hits (not_lt.1 halpha), by simp, by simp,
      by simp, by simp, by simp⟩
  case case7 fuel E r d pg ii s ch md its hcurv halpha E' r' ii' hadv it hgam hgz s1 status hchk hst =>
    obtain ⟨hE', hr', _, _⟩ := advance_eq_spec S hA hE hr hadv
    refine ⟨⟨[E'], rfl⟩, hE', forall_mem_snoc hmd hE', forall_mem_snoc hchc hE', forall_mem_snoc hits (not_lt.1 halpha), by simp, ?_,
      by simp, ?_, by simp⟩
    · intro he; exact absurd he (check_ne_error hchk)
    · intro _; exact ⟨ch, s, s1, rfl, hch, hfeed, hchk, rfl⟩
  case case8 fuel E r d pg ii s ch md its hcurv halpha E' r' ii' hadv it hgam hgz s1 status hchk hst ih =>
    obtain ⟨hE', hr', _, _⟩ := advance_eq_spec S hA hE hr hadv
    have hst' : status = .continue_ := not_not.1 hst
    have := ih hE' hr' (forall_mem_snoc hmd hE') (by simp) (forall_mem_snoc hchc hE')
      (by rw [feed_map_snoc S c ch hch, hfeed, ← hst']; exact hchk) (forall_mem_snoc hits (not_lt.1 halpha))
    obtain ⟨t, ht⟩ := this.pre
    exact { this with pre := ⟨[E'] ++ t, by rw [ht, List.append_assoc]⟩ }

/-- what holds of every result of `ConjugateGradient.__call__` started from a consistent energy object -/
structure CgPost (S : Sys V K) (c : Ctrl K τ) (E : QE V K) (out : Out V K τ) : Prop where
  energy : out.energy.Consistent S
  made : ∀ E' ∈ out.made, E'.Consistent S
  checkedC : ∀ E' ∈ out.checked, E'.Consistent S
  alpha : ∀ it ∈ out.iters, 0 ≤ it.alpha
  /-- the first energy shown to the controller is the start energy -/
  pre : ∃ t, out.checked = E :: t
  conv : out.status = .converged →
    out.reason = .ctrlStart ∨ out.reason = .gammaZero0 ∨ out.reason = .gammaZero ∨ out.reason = .ctrlCheck
  err : out.status = .error →
    out.reason = .curvZero ∨ out.reason = .alphaNeg ∨ out.reason = .gammaNeg ∨ out.reason = .raised
  /-- verdict of `controller.start` -/
  start : out.reason = .ctrlStart → out.energy = E ∧ ∃ s1, c.start (obs S E) = some (s1, out.status) ∧ out.ctrl = some s1
  gz0 : out.reason = .gammaZero0 → out.energy = E
  /-- both `gamma == 0` exits: `⟨r, P r⟩ = 0` at the returned energy -/
  gz : out.reason = .gammaZero0 ∨ out.reason = .gammaZero → S.ip out.energy.grad (precond S out.energy.grad) = 0
  chk : out.reason = .ctrlCheck → ∃ os s0 s1, out.checked = E :: (os ++ [out.energy]) ∧
    c.feed ((E :: os).map (obs S)) = some (s0, .continue_) ∧
    c.check s0 (obs S out.energy) = some (s1, out.status) ∧ out.ctrl = some s1

theorem cg_basic (S : Sys V K) (hA : S.Linear) (c : Ctrl K τ) (nreset : Int) (fuel : Nat) (E : QE V K)
    (hE : E.Consistent S) : CgPost S c E (cg S c nreset fuel E) := by
  unfold cg
  split
  · exact ⟨hE, by simp, by simpa using hE, by simp, ⟨[], rfl⟩, by simp, by simp, by simp, by simp, by simp, by simp⟩
  · rename_i s status hstart
    split
    · rename_i hst
      refine ⟨hE, by simp, by simpa using hE, by simp, ⟨[], rfl⟩, by simp, ?_, ?_, by simp, by simp, by simp⟩
      · intro he; exact absurd he (check_ne_error hstart)
      · intro _; exact ⟨rfl, s, hstart, rfl⟩
    · rename_i hst
      have hst' : status = .continue_ := not_not.1 hst
      subst hst'
      dsimp only
      split
      · rename_i hpg
        refine ⟨hE, by simp, by simpa using hE, by simp, ⟨[], rfl⟩, by simp, by simp, by simp, by simp, ?_, by simp⟩
        intro _; exact hpg
      · have hb := loop_basic S hA c nreset fuel E E.grad (precond S E.grad) (S.ip E.grad (precond S E.grad)) 0 s
          [E] [] [] hE rfl (by simp) (by simp) (by simpa using hE) (by simpa [feed_single] using hstart) (by simp)
        obtain ⟨t, ht⟩ := hb.pre
        refine ⟨hb.energy, hb.made, hb.checkedC, hb.alpha, ⟨t, by simpa using ht⟩, ?_, hb.err, ?_, ?_, ?_, ?_⟩
        · intro h; rcases hb.conv h with h1 | h1
          · exact Or.inr (Or.inr (Or.inl h1))
          · exact Or.inr (Or.inr (Or.inr h1))
        · intro h; exact absurd h hb.noPrologue.1
        · intro h; exact absurd h hb.noPrologue.2
        · intro h; rcases h with h | h
          · exact absurd h hb.noPrologue.2
          · exact hb.gz h
        · intro h
          obtain ⟨pre, s0, s1, h1, h2, h3, h4, h5⟩ := hb.chk h
          -- `pre` starts with `E`
          rw [ht] at h1
          cases pre with
          | nil => exact absurd rfl h2
          | cons e0 os =>
            have he0 : e0 = E := by
              have := congrArg List.head? h1
              simp at this; exact this.symm
            subst he0
            refine ⟨os, s0, s1, ?_, h3, h4, h5⟩
            rw [ht, h1]; simp

/-! ### symmetric positive definite systems: no give-up, positive steps, strictly decreasing energy -/

/-- `A` linear, self-adjoint and positive definite w.r.t. the symmetric bilinear form `ip`; the preconditioner
    (or, without one, `ip` itself) positive definite.  Nothing else is assumed of the preconditioner. -/
structure Sys.SPD (S : Sys V K) : Prop where
  lin : S.Linear
  bil : S.Bilinear
  selfAdj : ∀ x y, S.ip x (S.A y) = S.ip (S.A x) y
  A_pos : ∀ v, v ≠ 0 → 0 < S.ip v (S.A v)
  P_pos : ∀ v, v ≠ 0 → 0 < S.ip v (precond S v)

theorem ip_zero_right {S : Sys V K} (h : S.Bilinear) (x : V) : S.ip x 0 = 0 := by
  have := h.smul_right 0 x x
  simpa using this

theorem ip_zero_left {S : Sys V K} (h : S.Bilinear) (x : V) : S.ip 0 x = 0 := by
  rw [h.symm]; exact ip_zero_right h x

/-- second-order expansion of the quadratic energy along a direction -/
theorem trueValue_step {S : Sys V K} (hS : S.SPD) (x d : V) (a : K) :
    trueValue S (x - a • d) = trueValue S x - a * S.ip (trueGrad S x) d + a * a / 2 * S.ip d (S.A d) := by
  have e1 : S.A (x - a • d) = S.A x - a • S.A d := by rw [hS.lin.A_sub, hS.lin.A_smul]
  have e2 : S.ip x (S.A d) = S.ip d (S.A x) := by rw [hS.selfAdj, hS.bil.symm]
  unfold trueValue trueGrad
  cases S.b with
  | none =>
    simp only
    rw [e1]
    simp only [hS.bil.sub_left, hS.bil.sub_right, hS.bil.smul_left, hS.bil.smul_right]
    rw [e2, hS.bil.symm (S.A x) d]
    ring
  | some b =>
    simp only
    rw [e1]
    simp only [hS.bil.sub_left, hS.bil.sub_right, hS.bil.smul_left, hS.bil.smul_right]
    rw [e2, hS.bil.symm (S.A x) d]
    ring

structure SpdPost (S : Sys V K) (E0 : QE V K) (out : Out V K τ) : Prop where
  /-- none of the three give-up exits of the algorithm is taken -/
  noGiveUp : out.reason ≠ .curvZero ∧ out.reason ≠ .alphaNeg ∧ out.reason ≠ .gammaNeg
  /-- every step has positive curvature and positive length -/
  steps : ∀ it ∈ out.iters, 0 < it.alpha ∧ 0 < it.curv
  /-- the energies of the successive energy objects are strictly decreasing (start energy first) -/
  mono : List.Pairwise (fun a b : QE V K => b.value < a.value) (E0 :: out.made)
  /-- the `gamma == 0` exit is taken only at the exact solution -/
  gz : out.reason = .gammaZero → out.energy.grad = 0

/-- with `⟨r, d⟩ = previous_gamma > 0` the direction is non-zero, the curvature and the step length positive -/
theorem spd_step_facts {S : Sys V K} (hS : S.SPD) {r d : V} {pg : K} (hpg : pg = S.ip r d) (hpos : 0 < pg) :
    0 < S.ip d (S.A d) ∧ 0 < pg / S.ip d (S.A d) := by
  have hd : d ≠ 0 := by
    intro h0; rw [h0, ip_zero_right hS.bil] at hpg; exact absurd hpg (ne_of_gt hpos)
  have hcurv : 0 < S.ip d (S.A d) := hS.A_pos d hd
  exact ⟨hcurv, div_pos hpos hcurv⟩

/-- one step on a positive definite system: the energy decreases strictly and the new residual is orthogonal to
    the old direction -/
theorem spd_advance_facts {S : Sys V K} (hS : S.SPD) {nreset : Int} {E E' : QE V K} {r r' d : V} {pg : K} {ii1 ii' : Int}
    (hE : E.Consistent S) (hr : r = E.grad) (hpg : pg = S.ip r d) (hpos : 0 < pg)
    (hadv : advance S nreset E r d (S.A d) (pg / S.ip d (S.A d)) ii1 = (E', r', ii')) :
    E'.value < E.value ∧ S.ip r' d = 0 := by
  obtain ⟨hcurv, halpha⟩ := spd_step_facts hS hpg hpos
  obtain ⟨hE', hr', hpos', hgrad'⟩ := advance_eq_spec S hS.lin hE hr hadv
  have hac : pg / S.ip d (S.A d) * S.ip d (S.A d) = pg := div_mul_cancel₀ pg (ne_of_gt hcurv)
  constructor
  · rw [hE'.2, hpos', trueValue_step hS, ← hE.1, ← hr, ← hpg, ← hE.2]
    have : pg / S.ip d (S.A d) * (pg / S.ip d (S.A d)) / 2 * S.ip d (S.A d)
        = pg / S.ip d (S.A d) * pg / 2 := by
      have h3 : pg / S.ip d (S.A d) * (pg / S.ip d (S.A d)) / 2 * S.ip d (S.A d)
          = pg / S.ip d (S.A d) * (pg / S.ip d (S.A d) * S.ip d (S.A d)) / 2 := by ring
      rw [h3, hac]
    rw [this]
    have := mul_pos halpha hpos
    linarith
  · rw [hr', hgrad', hS.bil.sub_left, hS.bil.smul_left, ← hpg, hS.bil.symm (S.A d) d, hac]; ring

theorem pairwise_snoc_of_last {E0 E E' : QE V K} {md : List (QE V K)}
    (hpw : List.Pairwise (fun a b : QE V K => b.value < a.value) (E0 :: md))
    (hlast : ∀ E'' ∈ E0 :: md, E.value ≤ E''.value) (hval : E'.value < E.value) :
    List.Pairwise (fun a b : QE V K => b.value < a.value) (E0 :: (md ++ [E'])) := by
  rw [← List.cons_append, List.pairwise_append]
  refine ⟨hpw, List.pairwise_singleton _ _, ?_⟩
  intro a ha b hb
  rw [List.mem_singleton.1 hb]
  exact lt_of_lt_of_le hval (hlast a ha)

theorem loop_spd (S : Sys V K) (hS : S.SPD) (c : Ctrl K τ) (nreset : Int) (fuel : Nat)
    (E : QE V K) (r d : V) (pg : K) (ii : Int) (s : St τ) (ch md : List (QE V K)) (its : List (Iter K))
    (E0 : QE V K) (hE : E.Consistent S) (hr : r = E.grad) (hpg : pg = S.ip r d) (hpos : 0 < pg)
    (hits : ∀ it ∈ its, 0 < it.alpha ∧ 0 < it.curv)
    (hpw : List.Pairwise (fun a b : QE V K => b.value < a.value) (E0 :: md))
    (hlast : ∀ E'' ∈ E0 :: md, E.value ≤ E''.value) :
    SpdPost S E0 (loop S c nreset fuel E r d pg ii s ch md its) := by
  fun_induction loop S c nreset fuel E r d pg ii s ch md its
  case case1 => exact ⟨by simp, hits, hpw, by simp⟩
  case case2 fuel E r d pg ii s ch md its h =>
    exact absurd h (ne_of_gt (spd_step_facts hS hpg hpos).1)
  case case3 fuel E r d pg ii s ch md its _ h =>
    exact absurd h (not_lt.2 (le_of_lt (spd_step_facts hS hpg hpos).2))
  case case4 fuel E r d pg ii s ch md its hcurv halpha E' r' ii' hadv it h =>
    exfalso
    by_cases h0 : r' = 0
    · rw [h0, ip_zero_left hS.bil] at h; exact lt_irrefl _ h
    · exact lt_asymm (hS.P_pos r' h0) h
  case case5 fuel E r d pg ii s ch md its hcurv halpha E' r' ii' hadv it hgam h =>
    obtain ⟨hc, ha⟩ := spd_step_facts hS hpg hpos
    obtain ⟨hval, _⟩ := spd_advance_facts hS hE hr hpg hpos hadv
    obtain ⟨hE', hr', _, _⟩ := advance_eq_spec S hS.lin hE hr hadv
    refine ⟨by simp, forall_mem_snoc hits ⟨ha, hc⟩, pairwise_snoc_of_last hpw hlast hval, ?_⟩
    intro _
    show E'.grad = 0
    rw [← hr']
    by_contra h0
    exact absurd h (ne_of_gt (hS.P_pos r' h0))
  case case6 fuel E r d pg ii s ch md its hcurv halpha E' r' ii' hadv it hgam hgz hchk =>
    obtain ⟨hc, ha⟩ := spd_step_facts hS hpg hpos
    obtain ⟨hval, _⟩ := spd_advance_facts hS hE hr hpg hpos hadv
    exact ⟨by simp, forall_mem_snoc hits ⟨ha, hc⟩, pairwise_snoc_of_last hpw hlast hval, by simp⟩
  case case7 fuel E r d pg ii s ch md its hcurv halpha E' r' ii' hadv it hgam hgz s1 status hchk hst =>
    obtain ⟨hc, ha⟩ := spd_step_facts hS hpg hpos
    obtain ⟨hval, _⟩ := spd_advance_facts hS hE hr hpg hpos hadv
    exact ⟨by simp, forall_mem_snoc hits ⟨ha, hc⟩, pairwise_snoc_of_last hpw hlast hval, by simp⟩
  case case8 fuel E r d pg ii s ch md its hcurv halpha E' r' ii' hadv it hg1 hg2 s1 status hchk hst ih =>
    obtain ⟨hc, ha⟩ := spd_step_facts hS hpg hpos
    obtain ⟨hval, hrd⟩ := spd_advance_facts hS hE hr hpg hpos hadv
    obtain ⟨hE', hr', _, _⟩ := advance_eq_spec S hS.lin hE hr hadv
    have hgpos : 0 < S.ip r' (precond S r') := lt_of_le_of_ne (not_lt.1 hg1) (Ne.symm hg2)
    apply ih hE' hr' _ hgpos (forall_mem_snoc hits ⟨ha, hc⟩) (pairwise_snoc_of_last hpw hlast hval)
    · intro E'' hE''
      rw [← List.cons_append] at hE''
      rcases List.mem_append.1 hE'' with h | h
      · exact le_trans (le_of_lt hval) (hlast E'' h)
      · rw [List.mem_singleton.1 h]
    · -- the new direction keeps `⟨r, d⟩ = gamma`, because `⟨r', d⟩ = 0`
      rw [hS.bil.add_right, hS.bil.smul_right, hrd]; ring

/-- `cg` on a positive definite system -/
theorem cg_spd (S : Sys V K) (hS : S.SPD) (c : Ctrl K τ) (nreset : Int) (fuel : Nat) (E : QE V K)
    (hE : E.Consistent S) : SpdPost S E (cg S c nreset fuel E) := by
  unfold cg
  split
  · exact ⟨by simp, by simp, by simp, by simp⟩
  · split
    · exact ⟨by simp, by simp, by simp, by simp⟩
    · dsimp only
      split
      · exact ⟨by simp, by simp, by simp, by simp⟩
      · rename_i hpg
        have hne : E.grad ≠ 0 := by
          intro h0; apply hpg; rw [h0, ip_zero_left hS.bil]
        exact loop_spd S hS c nreset fuel E E.grad (precond S E.grad) (S.ip E.grad (precond S E.grad)) 0 _ [E] [] []
          E hE rfl rfl (hS.P_pos _ hne) (by simp) (by simp) (by simp)

end NiftyVerif.CgClassic
