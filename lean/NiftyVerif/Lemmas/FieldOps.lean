/-
  Lemmas/FieldOps.lean — helper lemmas for the element-wise operators, all/any/size, MultiField.vdot and
  flexible_addsub (Props/C06.lean, second part).
-/
import NiftyVerif.Lemmas.Field
import Mathlib.Algebra.Order.Field.Basic

namespace NiftyVerif.FieldM

section Entries
variable {K : Type}

theorem length_allIdx : ∀ (ns : List Nat), (allIdx ns).length = prodNat ns := by
  intro ns
  induction ns with
  | nil => simp [allIdx, prodNat]
  | cons n t ih =>
    simp only [allIdx, prodNat, List.length_flatMap, List.length_map, ih]
    induction n with
    | zero => simp
    | succ m ihm => simp [List.range_succ, ihm, Nat.succ_mul]

/-- MultiField.vdot accumulates the leaf dot products: `result = 0.; result += v1.s_vdot(v2)` -/
theorem sVdotLeaves_spec [CommRing K] (conj : K → K) :
    ∀ (la lb : List (String × Fld K)) (acc v : K), sVdotLeaves conj la lb acc = .ok v →
      (∀ p ∈ la.zip lb, p.2.2.dom = p.1.2.dom) ∧
      v = acc + sumOver (la.zip lb) (fun p => sumOver (allIdx p.1.2.sizes) (fun i => conj (p.1.2.val i) * p.2.2.val i)) := by
  intro la
  induction la with
  | nil =>
    intro lb acc v h
    simp only [sVdotLeaves, Except.ok.injEq] at h
    subst h
    simp [sumOver]
  | cons a ta ih =>
    intro lb acc v h
    cases lb with
    | nil =>
      simp only [sVdotLeaves, Except.ok.injEq] at h
      subst h
      simp [sumOver]
    | cons b tb =>
      obtain ⟨ka, fa⟩ := a
      obtain ⟨kb, fb⟩ := b
      simp only [sVdotLeaves, sVdot] at h
      by_cases hd : fb.dom = fa.dom
      · simp only [hd, ne_eq, not_true_eq_false, if_false] at h
        obtain ⟨h1, h2⟩ := ih tb _ v h
        refine ⟨?_, ?_⟩
        · intro p hp
          simp only [List.zip_cons_cons, List.mem_cons] at hp
          rcases hp with rfl | hp
          · exact hd
          · exact h1 p hp
        · rw [h2]
          simp only [List.zip_cons_cons, sumOver]
          ring
      · simp only [ne_eq, hd, not_false_eq_true, if_true] at h
        cases h

theorem leaf_vd_lin_left [CommRing K] (conj : K →+* K) (α : K) (sz : List Nat) (x y z : Idx → K) :
    sumOver (allIdx sz) (fun i => conj (α * x i + y i) * z i)
      = conj α * sumOver (allIdx sz) (fun i => conj (x i) * z i) + sumOver (allIdx sz) (fun i => conj (y i) * z i) := by
  rw [← sumOver_mul_left, ← sumOver_add]
  apply sumOver_congr
  intro i _
  simp only [map_add, map_mul]
  ring

theorem leaf_vd_lin_right [CommRing K] (conj : K →+* K) (α : K) (sz : List Nat) (x y z : Idx → K) :
    sumOver (allIdx sz) (fun i => conj (z i) * (α * x i + y i))
      = α * sumOver (allIdx sz) (fun i => conj (z i) * x i) + sumOver (allIdx sz) (fun i => conj (z i) * y i) := by
  rw [← sumOver_mul_left, ← sumOver_add]
  apply sumOver_congr
  intro i _
  ring

end Entries

/-! ### flexible_addsub: the dictionary loop, key by key -/
section Flex
variable {K : Type}

theorem lookupLeaf_cons (k q : String) (v : Fld K) (t : List (String × Fld K)) :
    lookupLeaf q ((k, v) :: t) = if k = q then some v else lookupLeaf q t := by
  by_cases h : k = q <;> simp [lookupLeaf, List.find?_cons, h]

theorem lookupLeaf_none_of_not_mem (q : String) :
    ∀ (l : List (String × Fld K)), q ∉ l.map (·.1) → lookupLeaf q l = none := by
  intro l
  induction l with
  | nil => intro _; rfl
  | cons kv t ih =>
    intro h
    obtain ⟨k, v⟩ := kv
    simp only [List.map_cons, List.mem_cons, not_or] at h
    rw [lookupLeaf_cons, if_neg (fun e => h.1 e.symm)]
    exact ih h.2

theorem lookupLeaf_insert (k q : String) (v : Fld K) :
    ∀ (l : List (String × Fld K)), lookupLeaf k l = none →
      lookupLeaf q (insertLeaf (k, v) l) = if k = q then some v else lookupLeaf q l := by
  intro l
  induction l with
  | nil => intro _; simp [insertLeaf, lookupLeaf_cons, lookupLeaf]
  | cons h t ih =>
    intro hn
    obtain ⟨hk, hv⟩ := h
    rw [lookupLeaf_cons] at hn
    have hne : hk ≠ k := by
      intro e; simp [e] at hn
    rw [if_neg hne] at hn
    simp only [insertLeaf]
    split
    · rw [lookupLeaf_cons]
    · rw [lookupLeaf_cons, ih hn, lookupLeaf_cons]
      by_cases h1 : hk = q
      · have : k ≠ q := fun e => hne (h1.trans e.symm)
        simp [h1, this]
      · simp [h1]

theorem lookupLeaf_replace (k q : String) (n : Fld K) :
    ∀ (l : List (String × Fld K)),
      lookupLeaf q (l.map fun kv => if kv.1 == k then (k, n) else kv)
        = if k = q then (lookupLeaf k l).map (fun _ => n) else lookupLeaf q l := by
  intro l
  induction l with
  | nil => simp [lookupLeaf]
  | cons h t ih =>
    obtain ⟨hk, hv⟩ := h
    simp only [List.map_cons]
    by_cases h1 : hk = k
    · have hb : (hk == k) = true := by simpa using h1
      simp only [hb, if_true, lookupLeaf_cons, ih]
      by_cases h2 : k = q
      · simp [h1, h2]
      · have h3 : ¬ hk = q := fun e => h2 (h1.symm.trans e)
        simp [h2, h3]
    · have hb : (hk == k) = false := by simpa using h1
      simp only [hb, Bool.false_eq_true, if_false, lookupLeaf_cons, ih]
      by_cases h2 : k = q
      · have h3 : ¬ hk = q := fun e => h1 (e.trans h2.symm)
        simp [h1, h2, h3]
      · simp [h2]

/-- the loop of MultiField.flexible_addsub, key by key -/
theorem mflexLoop_spec (opf : Fld K → Fld K → Except String (Fld K)) (single : Fld K → Fld K) :
    ∀ (b res r : List (String × Fld K)), (b.map (·.1)).Nodup → mflexLoop opf single res b = .ok r →
      ∀ q, match lookupLeaf q res, lookupLeaf q b with
        | some x, some y => ∃ z, opf x y = .ok z ∧ lookupLeaf q r = some z
        | some x, none => lookupLeaf q r = some x
        | none, some y => lookupLeaf q r = some (single y)
        | none, none => lookupLeaf q r = none := by
  intro b
  induction b with
  | nil =>
    intro res r _ h q
    simp only [mflexLoop, Except.ok.injEq] at h
    subst h
    cases hq : lookupLeaf q res <;> simp [lookupLeaf]
  | cons kv t ih =>
    intro res r hnd h q
    obtain ⟨k, v⟩ := kv
    simp only [List.map_cons, List.nodup_cons] at hnd
    obtain ⟨hkt, hndt⟩ := hnd
    have hkt' : lookupLeaf k t = none := lookupLeaf_none_of_not_mem k t hkt
    simp only [mflexLoop] at h
    cases hf : res.find? (fun kv => kv.1 == k) with
    | some found =>
      obtain ⟨k', r0⟩ := found
      simp only [hf] at h
      have hlk : lookupLeaf k res = some r0 := by simp [lookupLeaf, hf]
      cases ho : opf r0 v with
      | error e => simp only [ho] at h; cases h
      | ok n =>
        simp only [ho] at h
        have := ih _ r hndt h q
        rw [lookupLeaf_cons]
        rw [lookupLeaf_replace] at this
        by_cases hq : k = q
        · subst hq
          simp only [if_true, hlk, Option.map_some, hkt'] at this ⊢
          exact ⟨n, ho, this⟩
        · simp only [hq, if_false] at this ⊢
          exact this
    | none =>
      simp only [hf] at h
      have hlk : lookupLeaf k res = none := by simp [lookupLeaf, hf]
      have := ih _ r hndt h q
      rw [lookupLeaf_insert k q (single v) res hlk] at this
      rw [lookupLeaf_cons]
      by_cases hq : k = q
      · subst hq
        simp only [if_true, hlk, hkt'] at this ⊢
        exact this
      · simp only [hq, if_false] at this ⊢
        exact this

end Flex

/-! ### maxima and sums of absolute values (norms) -/
section Norms
variable {K : Type} {α : Type}

theorem le_maxOver [LinearOrder K] [Zero K] (l : List α) (f : α → K) : ∀ a ∈ l, f a ≤ maxOver max l f := by
  induction l with
  | nil => intro a h; cases h
  | cons b t ih =>
    intro a h
    simp only [maxOver]
    rcases List.mem_cons.mp h with rfl | h
    · exact le_max_left _ _
    · exact le_trans (ih a h) (le_max_right _ _)

theorem maxOver_attained [LinearOrder K] [Zero K] (l : List α) (f : α → K) (hf : ∀ a ∈ l, 0 ≤ f a) (hne : l ≠ []) :
    ∃ a ∈ l, maxOver max l f = f a := by
  induction l with
  | nil => exact absurd rfl hne
  | cons b t ih =>
    simp only [maxOver]
    by_cases ht : t = []
    · subst ht
      exact ⟨b, by simp, by simp [maxOver, max_eq_left (hf b (by simp))]⟩
    · obtain ⟨a, ha, he⟩ := ih (fun a h => hf a (by simp [h])) ht
      rcases le_total (f b) (maxOver max t f) with h | h
      · exact ⟨a, by simp [ha], by rw [max_eq_right h, he]⟩
      · exact ⟨b, by simp, by rw [max_eq_left h]⟩

theorem sumOver_nonneg [Field K] [LinearOrder K] [IsStrictOrderedRing K] (l : List α) (f : α → K)
    (hf : ∀ a ∈ l, 0 ≤ f a) : 0 ≤ sumOver l f := by
  induction l with
  | nil => simp [sumOver]
  | cons b t ih =>
    simp only [sumOver]
    exact add_nonneg (hf b (by simp)) (ih (fun a h => hf a (by simp [h])))

theorem sumOver_le_sumOver [Field K] [LinearOrder K] [IsStrictOrderedRing K] (l : List α) (f g : α → K)
    (h : ∀ a ∈ l, f a ≤ g a) : sumOver l f ≤ sumOver l g := by
  induction l with
  | nil => simp [sumOver]
  | cons b t ih =>
    simp only [sumOver]
    exact add_le_add (h b (by simp)) (ih (fun a ha => h a (by simp [ha])))

end Norms

/-! ### products over index fibres (Fubini for `prod`) and full contractions -/
section ProdFubini
variable {K : Type} {α β : Type}

theorem prodOver_append [Monoid K] (l₁ l₂ : List α) (f : α → K) :
    prodOver (l₁ ++ l₂) f = prodOver l₁ f * prodOver l₂ f := by
  induction l₁ with
  | nil => simp [prodOver]
  | cons a t ih => simp only [List.cons_append, prodOver, ih, mul_assoc]

theorem prodOver_flatMap [Monoid K] (l : List β) (g : β → List α) (f : α → K) :
    prodOver (l.flatMap g) f = prodOver l (fun b => prodOver (g b) f) := by
  induction l with
  | nil => rfl
  | cons a t ih => simp only [List.flatMap_cons, prodOver_append, prodOver, ih]

theorem prodOver_one [Monoid K] (l : List α) : prodOver l (fun _ => (1 : K)) = 1 := by
  induction l with
  | nil => rfl
  | cons a t ih => simp only [prodOver, ih, mul_one]

theorem prodOver_comm [CommMonoid K] (l₁ : List α) (l₂ : List β) (f : α → β → K) :
    prodOver l₁ (fun a => prodOver l₂ (fun b => f a b)) = prodOver l₂ (fun b => prodOver l₁ (fun a => f a b)) := by
  induction l₁ with
  | nil => simp [prodOver, prodOver_one]
  | cons a t ih => simp only [prodOver, ih, prodOver_mul]

theorem prodOver_allIdx_cons [CommMonoid K] (n : Nat) (ns : List Nat) (f : Idx → K) :
    prodOver (allIdx (n :: ns)) f = prodOver (List.range n) (fun i => prodOver (allIdx ns) (fun t => f (i :: t))) := by
  simp only [allIdx, prodOver_flatMap, prodOver_map]

theorem contractProd_total [CommMonoid K] :
    ∀ (mask : List Bool) (sizes : List Nat) (x : Idx → K), mask.length = sizes.length →
      prodOver (allIdx (sel false mask sizes)) (fun o => contractProd mask sizes x o) = prodOver (allIdx sizes) x := by
  intro mask
  induction mask with
  | nil =>
    intro sizes x h
    have : sizes = [] := by cases sizes with | nil => rfl | cons a t => simp at h
    subst this
    simp [sel, contractProd, allIdx, prodOver, merge]
  | cons b m ih =>
    intro sizes x h
    cases sizes with
    | nil => simp at h
    | cons n ns =>
      have hlen : m.length = ns.length := by simpa using h
      cases b with
      | true =>
        have e1 : sel false (true :: m) (n :: ns) = sel false m ns := by simp [sel]
        have e2 : sel true (true :: m) (n :: ns) = n :: sel true m ns := by simp [sel]
        have step : ∀ o, contractProd (true :: m) (n :: ns) x o
            = prodOver (List.range n) (fun i => contractProd m ns (fun t => x (i :: t)) o) := by
          intro o
          simp only [contractProd, e2, prodOver_allIdx_cons, merge, List.headD_cons, List.tail_cons]
        rw [e1, prodOver_allIdx_cons]
        simp only [step]
        rw [prodOver_comm]
        apply prodOver_congr
        intro i _
        exact ih ns (fun t => x (i :: t)) hlen
      | false =>
        have e1 : sel false (false :: m) (n :: ns) = n :: sel false m ns := by simp [sel]
        have e2 : sel true (false :: m) (n :: ns) = sel true m ns := by simp [sel]
        have step : ∀ i o, contractProd (false :: m) (n :: ns) x (i :: o) = contractProd m ns (fun t => x (i :: t)) o := by
          intro i o
          simp only [contractProd, e2, merge, List.headD_cons, List.tail_cons]
        rw [e1, prodOver_allIdx_cons, prodOver_allIdx_cons]
        apply prodOver_congr
        intro i _
        simp only [step]
        exact ih ns (fun t => x (i :: t)) hlen

/-- with every sub-domain listed the mask is all-true -/
theorem maskOf_range (n : Nat) : maskOf n (List.range n) = List.replicate n true := by
  simp only [maskOf]
  rw [List.eq_replicate_iff]
  refine ⟨by simp, fun b hb => ?_⟩
  simp only [List.mem_map, List.mem_range] at hb
  obtain ⟨i, hi, rfl⟩ := hb
  simpa using hi

theorem sel_true_replicate : ∀ (xs : List α), sel true (List.replicate xs.length true) xs = xs := by
  intro xs
  induction xs with
  | nil => simp [sel]
  | cons a t ih => simp [List.replicate_succ, sel, ih]

theorem mem_allIdx_length : ∀ (ns : List Nat) (c : Idx), c ∈ allIdx ns → c.length = ns.length := by
  intro ns
  induction ns with
  | nil => intro c h; simp [allIdx] at h; simp [h]
  | cons n t ih =>
    intro c h
    simp only [allIdx, List.mem_flatMap, List.mem_map, List.mem_range] at h
    obtain ⟨i, _, c', hc', rfl⟩ := h
    simp [ih c' hc']

theorem merge_replicate_true : ∀ (k : Nat) (o c : Idx), c.length = k → merge (List.replicate k true) o c = c := by
  intro k
  induction k with
  | zero => intro o c h; simp at h; simp [merge, h]
  | succ k ih =>
    intro o c h
    cases c with
    | nil => simp at h
    | cons a t => simp [List.replicate_succ, merge, ih o t (by simpa using h)]

/-- contracting every sub-domain is the sum over all indices, whatever the (irrelevant) output index -/
theorem contract_all [AddCommMonoid K] (sizes : List Nat) (x : Idx → K) (o : Idx) :
    contract (List.replicate sizes.length true) sizes x o = sumOver (allIdx sizes) x := by
  simp only [contract, sel_true_replicate]
  apply sumOver_congr
  intro c hc
  rw [merge_replicate_true _ o c (mem_allIdx_length sizes c hc)]

end ProdFubini

/-! ### the dtype tag never influences a value -/
section DtIrrelevant
variable {K : Type}

theorem weightLoop_dt [Field K] (subs : List (SubDom K)) (p : Int) :
    ∀ (l : List Nat) (fct : K) (dt : DT) (a : Idx → K) (fct' : K) (dt' : DT) (a' : Idx → K),
      weightLoop subs p l fct dt a = .ok (fct', dt', a') →
      ∀ d, ∃ d'', weightLoop subs p l fct d a = .ok (fct', d'', a') := by
  intro l
  induction l with
  | nil =>
    intro fct dt a fct' dt' a' h d
    simp only [weightLoop, Except.ok.injEq, Prod.mk.injEq] at h
    obtain ⟨rfl, _, rfl⟩ := h
    exact ⟨d, rfl⟩
  | cons ind t ih =>
    intro fct dt a fct' dt' a' h d
    simp only [weightLoop] at h ⊢
    cases hd : (subs.getD ind default).dvol with
    | none => simp only [hd] at h; cases h
    | scalar w => simp only [hd] at h ⊢; exact ih _ _ _ _ _ _ h d
    | vector w => simp only [hd] at h ⊢; exact ih _ _ _ _ _ _ h _

/-- the dtype tag does not influence any value: s_mean of two fields that differ only in the tag -/
theorem sMean_dt [Field K] [DecidableEq K] (f : Fld K) (d : DT) (v : K) (h : sMean f = .ok v) :
    sMean { f with dt := d } = .ok v := by
  unfold sMean at h ⊢
  cases hi : sIntegrate f with
  | error e => simp only [hi] at h; cases h
  | ok s =>
    have hi' : sIntegrate { f with dt := d } = .ok s := by
      unfold sIntegrate at hi ⊢
      cases hsw : scalarWeight f.subs .none with
      | error e => simp only [hsw] at hi; cases hi
      | ok r =>
        cases r with
        | some swgt => simp only [hsw] at hi ⊢; exact hi
        | none =>
          simp only [hsw] at hi ⊢
          unfold weight at hi ⊢
          simp only [parseSpaces] at hi ⊢
          cases hw : weightLoop f.subs 1 (List.range f.subs.length) 1 f.dt f.val with
          | error e => simp only [hw] at hi; cases hi
          | ok r =>
            obtain ⟨fct, dt', a⟩ := r
            obtain ⟨d'', hw'⟩ := weightLoop_dt f.subs 1 _ 1 f.dt f.val fct dt' a hw d
            simp only [hw] at hi
            simp only [hw']
            by_cases h1 : ipow fct 1 = 1
            · simp only [h1, if_true] at hi ⊢
              exact hi
            · simp only [h1, if_false] at hi ⊢
              exact hi
    simp only [hi] at h
    simp only [hi']
    exact h

theorem sel_false_replicate_true : ∀ (k : Nat) (i : Idx), sel false (List.replicate k true) i = [] := by
  intro k
  induction k with
  | zero => intro i; cases i <;> simp [sel]
  | succ k ih =>
    intro i
    cases i with
    | nil => simp [List.replicate_succ, sel]
    | cons a t => simp [List.replicate_succ, sel, ih t]

end DtIrrelevant

end NiftyVerif.FieldM
