/-
  Lemmas/FieldOps.lean — helper lemmas for the element-wise operators, all/any/size, MultiField.vdot and
  flexible_addsub (Props/C06.lean, second part).
-/
import NiftyVerif.Lemmas.Field

namespace NiftyVerif.FieldM

section Entries
variable {K : Type}

theorem length_allIdx : ∀ (ns : List Nat), (allIdx ns).length = prodNat ns := by
  intro ns
  induction ns with
  | nil => simp [allIdx, prodNat]
  | cons n t ih =>
    simp only [allIdx, prodNat, List.length_flatMap, List.length_map, ih]
    induction n with
    | zero => simp
    | succ m ihm => simp [List.range_succ, ihm, Nat.succ_mul]

/-- MultiField.vdot accumulates the leaf dot products: `result = 0.; result += v1.s_vdot(v2)` -/
theorem sVdotLeaves_spec [CommRing K] (conj : K → K) :
    ∀ (la lb : List (String × Fld K)) (acc v : K), sVdotLeaves conj la lb acc = .ok v →
      (∀ p ∈ la.zip lb, p.2.2.dom = p.1.2.dom) ∧
      v = acc + sumOver (la.zip lb) (fun p => sumOver (allIdx p.1.2.sizes) (fun i => conj (p.1.2.val i) * p.2.2.val i)) := by
  intro la
  induction la with
  | nil =>
    intro lb acc v h
    simp only [sVdotLeaves, Except.ok.injEq] at h
    subst h
    simp [sumOver]
  | cons a ta ih =>
    intro lb acc v h
    cases lb with
    | nil =>
      simp only [sVdotLeaves, Except.ok.injEq] at h
      subst h
      simp [sumOver]
    | cons b tb =>
      obtain ⟨ka, fa⟩ := a
      obtain ⟨kb, fb⟩ := b
      simp only [sVdotLeaves, sVdot] at h
      by_cases hd : fb.dom = fa.dom
      · simp only [hd, ne_eq, not_true_eq_false, if_false] at h
        obtain ⟨h1, h2⟩ := ih tb _ v h
        refine ⟨?_, ?_⟩
        · intro p hp
          simp only [List.zip_cons_cons, List.mem_cons] at hp
          rcases hp with rfl | hp
          · exact hd
          · exact h1 p hp
        · rw [h2]
          simp only [List.zip_cons_cons, sumOver]
          ring
      · simp only [ne_eq, hd, not_false_eq_true, if_true] at h
        cases h

end Entries

end NiftyVerif.FieldM
