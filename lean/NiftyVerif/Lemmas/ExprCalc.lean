/-
  Helper lemmas for C03/C04: finite sums of the expression model (`rsum`, `dsum`) under differentiation and algebra.
-/
import NiftyVerif.Model.Expr
import NiftyVerif.Lemmas.TranscReal
import NiftyVerif.Lemmas.SciLit

namespace NiftyVerif.Expr

theorem hasDerivAt_list_sum {ι : Type} (l : List ι) (f : ι → ℝ → ℝ) (f' : ι → ℝ) (x : ℝ)
    (h : ∀ i, HasDerivAt (f i) (f' i) x) :
    HasDerivAt (fun t => (l.map (fun i => f i t)).sum) ((l.map f').sum) x := by
  induction l with
  | nil => simpa using hasDerivAt_const x (0 : ℝ)
  | cons a l ih =>
    simp only [List.map_cons, List.sum_cons]
    exact (h a).add ih

theorem hasDerivAt_list_sum_mem {ι : Type} (l : List ι) (f : ι → ℝ → ℝ) (f' : ι → ℝ) (x : ℝ)
    (h : ∀ i ∈ l, HasDerivAt (f i) (f' i) x) :
    HasDerivAt (fun t => (l.map (fun i => f i t)).sum) ((l.map f').sum) x := by
  induction l with
  | nil => simpa using hasDerivAt_const x (0 : ℝ)
  | cons a l ih =>
    simp only [List.map_cons, List.sum_cons]
    exact (h a List.mem_cons_self).add (ih (fun i hi => h i (List.mem_cons_of_mem _ hi)))

/-- derivative of a finite sum when the summands are only known to be differentiable for the indices summed over -/
theorem hasDerivAt_rsum_lt (n : Nat) (f : Nat → ℝ → ℝ) (f' : Nat → ℝ) (x : ℝ)
    (h : ∀ j, j < n → HasDerivAt (f j) (f' j) x) :
    HasDerivAt (fun t => rsum n (fun j => f j t)) (rsum n f') x :=
  hasDerivAt_list_sum_mem (List.range n) f f' x (fun j hj => h j (List.mem_range.mp hj))

theorem hasDerivAt_rsum (n : Nat) (f : Nat → ℝ → ℝ) (f' : Nat → ℝ) (x : ℝ)
    (h : ∀ j, HasDerivAt (f j) (f' j) x) :
    HasDerivAt (fun t => rsum n (fun j => f j t)) (rsum n f') x :=
  hasDerivAt_list_sum (List.range n) f f' x h

theorem hasDerivAt_dsum (d : Dom) (f : String → Nat → ℝ → ℝ) (f' : String → Nat → ℝ) (x : ℝ)
    (h : ∀ k j, HasDerivAt (f k j) (f' k j) x) :
    HasDerivAt (fun t => dsum d (fun k j => f k j t)) (dsum d f') x :=
  hasDerivAt_list_sum d (fun kn t => rsum kn.2 (fun j => f kn.1 j t)) (fun kn => rsum kn.2 (f' kn.1)) x
    (fun kn => hasDerivAt_rsum kn.2 (f kn.1) (f' kn.1) x (h kn.1))

section algebra
variable {R : Type} [CommRing R]

theorem list_sum_map_add {ι : Type} (l : List ι) (f g : ι → R) :
    (l.map (fun i => f i + g i)).sum = (l.map f).sum + (l.map g).sum := by
  induction l with
  | nil => simp
  | cons a l ih => simp [ih]; ring

theorem list_sum_map_mul_left {ι : Type} (l : List ι) (c : R) (f : ι → R) :
    (l.map (fun i => c * f i)).sum = c * (l.map f).sum := by
  induction l with
  | nil => simp
  | cons a l ih => simp [ih]; ring

end algebra

theorem rsum_add (n : Nat) (f g : Nat → ℝ) : rsum n (fun j => f j + g j) = rsum n f + rsum n g :=
  list_sum_map_add _ f g

theorem rsum_mul_left (n : Nat) (c : ℝ) (f : Nat → ℝ) : rsum n (fun j => c * f j) = c * rsum n f :=
  list_sum_map_mul_left _ c f

theorem rsum_sub (n : Nat) (f g : Nat → ℝ) : rsum n (fun j => f j - g j) = rsum n f - rsum n g := by
  have h := rsum_add n (fun j => f j - g j) g
  have e : (fun j => (f j - g j) + g j) = f := by funext j; ring
  rw [e] at h; linarith

theorem dsum_add (d : Dom) (f g : String → Nat → ℝ) :
    dsum d (fun k j => f k j + g k j) = dsum d f + dsum d g := by
  unfold dsum
  rw [← list_sum_map_add]
  congr 1
  apply List.map_congr_left
  intro kn _
  exact rsum_add kn.2 (f kn.1) (g kn.1)

theorem dsum_mul_left (d : Dom) (c : ℝ) (f : String → Nat → ℝ) :
    dsum d (fun k j => c * f k j) = c * dsum d f := by
  unfold dsum
  rw [← list_sum_map_mul_left]
  congr 1
  apply List.map_congr_left
  intro kn _
  exact rsum_mul_left kn.2 c (f kn.1)

end NiftyVerif.Expr
