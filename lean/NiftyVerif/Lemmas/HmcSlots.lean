/-
  The slot invariant of `iterative_build_tree` (C32): for an odd leaf index `n` with `l` trailing ones, the slots
  `popcount(n-1) - j`, `j < l`, of the store hold exactly the left-most leaves `n + 1 - 2^(j+1)` of the complete
  sub-trees that end at `n`.
-/
import NiftyVerif.Model.Hmc
import Mathlib.Tactic.Ring
import Mathlib.Tactic.Linarith
import Mathlib.Algebra.Order.Ring.Nat
import Mathlib.Algebra.Group.Nat.Even

namespace NiftyVerif.Hmc

theorem popCount_eq (n : Nat) : popCount n = n % 2 + popCount (n / 2) := by
  by_cases h : n = 0
  · subst h; simp [popCount]
  · rw [popCount]; simp [h]

theorem popCount_zero : popCount 0 = 0 := by rw [popCount]; simp

theorem popCount_double (x : Nat) : popCount (2 * x) = popCount x := by
  rw [popCount_eq (2 * x)]; simp

theorem popCount_double_add (x b : Nat) (hb : b < 2) : popCount (2 * x + b) = b + popCount x := by
  rw [popCount_eq (2 * x + b)]
  have h1 : (2 * x + b) % 2 = b := by omega
  have h2 : (2 * x + b) / 2 = x := by omega
  rw [h1, h2]

theorem cto_eq (n : Nat) : countTrailingOnes n = if n % 2 = 1 then countTrailingOnes (n / 2) + 1 else 0 := by
  rw [countTrailingOnes]
  split <;> simp_all

/-- `2^(trailing ones of n)` divides `n + 1` -/
theorem pow_cto_dvd (n : Nat) : 2 ^ countTrailingOnes n ∣ n + 1 := by
  induction n using Nat.strong_induction_on with
  | _ n ih =>
    rw [cto_eq]
    by_cases h : n % 2 = 1
    · simp only [h, if_true]
      have hk := ih (n / 2) (by omega)
      obtain ⟨t, ht⟩ := hk
      refine ⟨t, ?_⟩
      rw [pow_succ]
      have : n + 1 = 2 * (n / 2 + 1) := by omega
      rw [this, ht]; ring
    · simp [h]

/-- no carries: the low `s` bits and the rest are counted separately -/
theorem popCount_add_low (s c r : Nat) (hr : r < 2 ^ s) : popCount (2 ^ s * c + r) = popCount c + popCount r := by
  induction s generalizing r with
  | zero =>
    have : r = 0 := by simpa using hr
    subst this; simp [popCount_zero]
  | succ s ih =>
    have hr2 : r / 2 < 2 ^ s := by
      rw [pow_succ] at hr; omega
    have e : 2 ^ (s + 1) * c + r = 2 * (2 ^ s * c + r / 2) + r % 2 := by
      rw [pow_succ]; have := Nat.div_add_mod r 2; ring_nf; omega
    rw [e, popCount_double_add _ _ (Nat.mod_lt _ (by norm_num)), ih (r / 2) hr2, popCount_eq r]
    ring

theorem popCount_pos (r : Nat) (hr : 0 < r) : 1 ≤ popCount r := by
  induction r using Nat.strong_induction_on with
  | _ r ih =>
    rw [popCount_eq]
    by_cases h : r % 2 = 1
    · omega
    · have : 0 < r / 2 := by omega
      have := ih (r / 2) (by omega) this
      omega

theorem popCount_pow_sub_one (j : Nat) : popCount (2 ^ j - 1) = j := by
  induction j with
  | zero => simp [popCount_zero]
  | succ j ih =>
    have hp : 1 ≤ 2 ^ j := Nat.one_le_two_pow
    have e : 2 ^ (j + 1) - 1 = 2 * (2 ^ j - 1) + 1 := by rw [pow_succ]; omega
    rw [e, popCount_double_add _ 1 (by norm_num), ih]; ring

theorem popCount_pow_sub_two (j : Nat) : popCount (2 ^ (j + 1) - 2) = j := by
  have hp : 1 ≤ 2 ^ j := Nat.one_le_two_pow
  have e : 2 ^ (j + 1) - 2 = 2 * (2 ^ j - 1) := by rw [pow_succ]; omega
  rw [e, popCount_double, popCount_pow_sub_one]

/-- who writes slot `i`: an even leaf `m` with `popcount m = i` (leaf `0` writes slot `0` before the loop) -/
def writes (m i : Nat) : Prop := m % 2 = 0 ∧ popCount m = i

/-- the store holds the *latest* writer -/
theorem storeAt_eq_some (N i m : Nat) (hw : writes m i) (hm : m ≤ N)
    (hlast : ∀ m', m < m' → m' ≤ N → ¬ writes m' i) : storeAt N i = some m := by
  induction N with
  | zero =>
    have : m = 0 := by omega
    subst this
    have : i = 0 := by rw [← hw.2, popCount_zero]
    simp [storeAt, this]
  | succ N ih =>
    by_cases hmN : m = N + 1
    · subst hmN
      simp [storeAt, hw.1, hw.2]
    · have hle : m ≤ N := by omega
      have hnw : ¬ writes (N + 1) i := hlast (N + 1) (by omega) (le_refl _)
      have : ¬ ((N + 1) % 2 = 0 ∧ popCount (N + 1) = i) := hnw
      simp only [storeAt, this, if_false]
      exact ih hle (fun m' h1 h2 => hlast m' h1 (by omega))

/-- **nuts_slot_invariant** -/
theorem slot_invariant (n : Nat) (hn : n % 2 = 1) (j : Nat) (hj : j < countTrailingOnes n) :
    storeAt (n - 1) (popCount (n - 1) - j) = some (n + 1 - 2 ^ (j + 1)) := by
  -- n + 1 = 2^(j+1) * q
  have hdvd : 2 ^ (j + 1) ∣ n + 1 :=
    Nat.dvd_trans (Nat.pow_dvd_pow 2 (by omega)) (pow_cto_dvd n)
  obtain ⟨q, hq⟩ := hdvd
  have hp : 2 ≤ 2 ^ (j + 1) := by
    have : 2 ^ 1 ≤ 2 ^ (j + 1) := Nat.pow_le_pow_right (by norm_num) (by omega)
    simpa using this
  have hq1 : 1 ≤ q := by
    rcases Nat.eq_zero_or_pos q with h | h
    · subst h; simp at hq
    · exact h
  -- the candidate leaf
  have hm : n + 1 - 2 ^ (j + 1) = 2 ^ (j + 1) * (q - 1) + 0 := by
    rw [hq, Nat.mul_sub, Nat.mul_one]; omega
  have hn1 : n - 1 = 2 ^ (j + 1) * (q - 1) + (2 ^ (j + 1) - 2) := by
    have : n + 1 = 2 ^ (j + 1) * (q - 1) + 2 ^ (j + 1) := by
      rw [hq, Nat.mul_sub, Nat.mul_one]
      have : 2 ^ (j + 1) ≤ 2 ^ (j + 1) * q := Nat.le_mul_of_pos_right _ hq1
      omega
    omega
  have pcm : popCount (n + 1 - 2 ^ (j + 1)) = popCount (q - 1) := by
    rw [hm, popCount_add_low _ _ 0 (by positivity), popCount_zero, add_zero]
  have pcn : popCount (n - 1) = popCount (q - 1) + j := by
    rw [hn1, popCount_add_low _ _ _ (by omega), popCount_pow_sub_two]
  apply storeAt_eq_some
  · refine ⟨?_, ?_⟩
    · rw [hm]
      have : 2 ^ (j + 1) * (q - 1) = 2 * (2 ^ j * (q - 1)) := by rw [pow_succ]; ring
      omega
    · rw [pcm, pcn]; omega
  · omega
  · intro m' h1 h2 hw
    -- m' = m + r' with 0 < r' < 2^(j+1)
    obtain ⟨r', hr'⟩ : ∃ r', m' = 2 ^ (j + 1) * (q - 1) + r' := ⟨m' - (n + 1 - 2 ^ (j + 1)), by omega⟩
    have hr'pos : 0 < r' := by omega
    have hr'lt : r' < 2 ^ (j + 1) := by omega
    have := hw.2
    rw [hr', popCount_add_low _ _ _ hr'lt, pcn] at this
    have := popCount_pos r' hr'pos
    omega

/-- the list form used by the driver: the leaves the code compares an odd leaf with are exactly the left ends of the complete
    sub-trees ending there -/
theorem checkedLeaves_eq (n : Nat) (hn : n % 2 = 1) : checkedLeaves n = subtreeLeftLeaves n := by
  unfold checkedLeaves checkedSlots subtreeLeftLeaves
  rw [List.map_map]
  apply List.map_congr_left
  intro j hj
  simp only [Function.comp]
  exact slot_invariant n hn j (List.mem_range.mp hj)

end NiftyVerif.Hmc
