/-
  Lemmas for C35 / LOS: the transcription of `_comp_traverse` (Model/ResponseLos.lean) refines the independent
  segment model (Model/Response.lean).  Part 1: pure facts about `⌊s + t·d⌋` along a line, `np.arange`, one axis.
-/
import NiftyVerif.Model.ResponseLos
import NiftyVerif.Lemmas.Response
import Mathlib.Algebra.Order.Floor.Ring
import Mathlib.Data.Rat.Floor
import Mathlib.Tactic.Ring
import Mathlib.Tactic.Linarith
import Mathlib.Tactic.FieldSimp
import Mathlib.Tactic.Positivity

namespace NiftyVerif.ResponseLos
open NiftyVerif Coo NiftyVerif.Response

/-- the line `s + t·d` meets a grid plane at parameter `t` -/
def Cross (s d t : ℚ) : Prop := ∃ k : ℤ, s + t * d = (k : ℚ)

theorem ratFloor_eq (x : ℚ) : x.floor = ⌊x⌋ := rfl

theorem ratCeil_eq (x : ℚ) : x.ceil = ⌈x⌉ := by
  rw [Rat.ceil_eq_neg_floor_neg]; rfl

/-- no grid plane met on `[m, m']` ⇒ the pixel index of this axis does not change -/
theorem floor_const (s d m m' : ℚ) (hmm : m ≤ m') (h : d ≠ 0 → ∀ t, m ≤ t → t ≤ m' → ¬ Cross s d t) :
    ⌊s + m' * d⌋ = ⌊s + m * d⌋ := by
  by_cases hd : d = 0
  · subst hd; simp
  have h := h hd
  by_contra hne
  rcases lt_or_gt_of_ne hd with hneg | hpos
  · -- d < 0 : f m' ≤ f m
    have hle : s + m' * d ≤ s + m * d := by nlinarith
    have hfl : ⌊s + m' * d⌋ < ⌊s + m * d⌋ := lt_of_le_of_ne (Int.floor_le_floor hle) hne
    -- k = ⌊f m⌋ : f m' < k ≤ f m
    have h1 : ((⌊s + m * d⌋ : ℤ) : ℚ) ≤ s + m * d := Int.floor_le _
    have h2 : s + m' * d < ((⌊s + m * d⌋ : ℤ) : ℚ) := Int.floor_lt.mp hfl
    set k := ⌊s + m * d⌋
    refine h (((k : ℚ) - s) / d) ?_ ?_ ⟨k, by field_simp; ring⟩
    · rw [le_div_iff_of_neg hneg]; linarith
    · rw [div_le_iff_of_neg hneg]; linarith
  · have hle : s + m * d ≤ s + m' * d := by nlinarith
    have hfl : ⌊s + m * d⌋ < ⌊s + m' * d⌋ := lt_of_le_of_ne (Int.floor_le_floor hle) (Ne.symm hne)
    have h1 : ((⌊s + m' * d⌋ : ℤ) : ℚ) ≤ s + m' * d := Int.floor_le _
    have h2 : s + m * d < ((⌊s + m' * d⌋ : ℤ) : ℚ) := Int.floor_lt.mp hfl
    set k := ⌊s + m' * d⌋
    refine h (((k : ℚ) - s) / d) ?_ ?_ ⟨k, by field_simp; ring⟩
    · rw [le_div_iff₀ hpos]; linarith
    · rw [div_le_iff₀ hpos]; linarith

/-- sign of the direction as the index step `±1` -/
def sgn (d : ℚ) : ℤ := if 0 < d then 1 else -1

/-- exactly one grid plane met in `[m, m']`, at `m < t₀ < m'` ⇒ the pixel index of this axis changes by `±1` -/
theorem floor_step (s d m m' t₀ : ℚ) (hd : d ≠ 0) (h0 : m < t₀) (h1 : t₀ < m') (hc : Cross s d t₀)
    (h : ∀ t, m ≤ t → t ≤ m' → t ≠ t₀ → ¬ Cross s d t) :
    ⌊s + m' * d⌋ = ⌊s + m * d⌋ + sgn d := by
  obtain ⟨k, hk⟩ := hc
  rcases lt_or_gt_of_ne hd with hneg | hpos
  · have hs : sgn d = -1 := by unfold sgn; rw [if_neg (not_lt.mpr hneg.le)]
    rw [hs]
    -- f m > k > f m'
    have hm : (k : ℚ) < s + m * d := by rw [← hk]; nlinarith
    have hm' : s + m' * d < (k : ℚ) := by rw [← hk]; nlinarith
    have e1 : ⌊s + m * d⌋ = k := by
      rw [Int.floor_eq_iff]; refine ⟨hm.le, ?_⟩
      by_contra hcon; push Not at hcon
      -- cross at (k+1 - s)/d ∈ [m, t₀)
      refine h ((((k + 1 : ℤ) : ℚ) - s) / d) ?_ ?_ ?_ ⟨k + 1, by field_simp; ring⟩
      · rw [le_div_iff_of_neg hneg]; push_cast; linarith
      · rw [div_le_iff_of_neg hneg]; push_cast; nlinarith
      · intro he; have : s + t₀ * d = ((k + 1 : ℤ) : ℚ) := by rw [← he]; field_simp; ring
        rw [hk] at this; push_cast at this; linarith
    have e2 : ⌊s + m' * d⌋ = k - 1 := by
      rw [Int.floor_eq_iff]; push_cast; refine ⟨?_, by linarith⟩
      by_contra hcon; push Not at hcon
      refine h ((((k - 1 : ℤ) : ℚ) - s) / d) ?_ ?_ ?_ ⟨k - 1, by field_simp; ring⟩
      · rw [le_div_iff_of_neg hneg]; push_cast; nlinarith
      · rw [div_le_iff_of_neg hneg]; push_cast; linarith
      · intro he; have : s + t₀ * d = ((k - 1 : ℤ) : ℚ) := by rw [← he]; field_simp; ring
        rw [hk] at this; push_cast at this; linarith
    rw [e1, e2]; ring
  · have hs : sgn d = 1 := by unfold sgn; rw [if_pos hpos]
    rw [hs]
    have hm : s + m * d < (k : ℚ) := by rw [← hk]; nlinarith
    have hm' : (k : ℚ) < s + m' * d := by rw [← hk]; nlinarith
    have e1 : ⌊s + m * d⌋ = k - 1 := by
      rw [Int.floor_eq_iff]; push_cast; refine ⟨?_, by linarith⟩
      by_contra hcon; push Not at hcon
      refine h ((((k - 1 : ℤ) : ℚ) - s) / d) ?_ ?_ ?_ ⟨k - 1, by field_simp; ring⟩
      · rw [le_div_iff₀ hpos]; push_cast; linarith
      · rw [div_le_iff₀ hpos]; push_cast; nlinarith
      · intro he; have : s + t₀ * d = ((k - 1 : ℤ) : ℚ) := by rw [← he]; field_simp; ring
        rw [hk] at this; push_cast at this; linarith
    have e2 : ⌊s + m' * d⌋ = k := by
      rw [Int.floor_eq_iff]; refine ⟨hm'.le, ?_⟩
      by_contra hcon; push Not at hcon
      refine h ((((k + 1 : ℤ) : ℚ) - s) / d) ?_ ?_ ?_ ⟨k + 1, by field_simp; ring⟩
      · rw [le_div_iff₀ hpos]; push_cast; nlinarith
      · rw [div_le_iff₀ hpos]; push_cast; linarith
      · intro he; have : s + t₀ * d = ((k + 1 : ℤ) : ℚ) := by rw [← he]; field_simp; ring
        rw [hk] at this; push_cast at this; linarith
    rw [e1, e2]; ring

/-! ### `np.arange` and the crossing list of one axis -/

theorem mem_arangeQ (c0 hi h t : ℚ) (hh : 0 < h) :
    t ∈ arangeQ c0 hi h ↔ ∃ i : ℕ, t = c0 + (i : ℚ) * h ∧ c0 + (i : ℚ) * h < hi := by
  unfold arangeQ
  simp only [List.mem_map, List.mem_range]
  constructor
  · rintro ⟨i, hi', rfl⟩
    refine ⟨i, rfl, ?_⟩
    rw [ratCeil_eq] at hi'
    have h1 : (i : ℤ) < ⌈(hi - c0) / h⌉ := by omega
    have h2 := Int.lt_ceil.mp h1
    rw [lt_div_iff₀ hh] at h2; push_cast at h2; linarith
  · rintro ⟨i, rfl, hlt⟩
    refine ⟨i, ?_, rfl⟩
    rw [ratCeil_eq]
    have h1 : (i : ℤ) < ⌈(hi - c0) / h⌉ := Int.lt_ceil.mpr (by rw [lt_div_iff₀ hh]; push_cast; linarith)
    omega

theorem arangeQ_sorted (c0 hi h : ℚ) (hh : 0 < h) : (arangeQ c0 hi h).Pairwise (· < ·) := by
  unfold arangeQ
  rw [List.pairwise_map]
  refine List.Pairwise.imp ?_ List.pairwise_lt_range
  intro a b hab
  have : (a : ℚ) < (b : ℚ) := by exact_mod_cast hab
  nlinarith

theorem absK_inv_pos (d : ℚ) (hd : d ≠ 0) : 0 < absK (1 / d) := by
  rw [absK_eq]; exact abs_pos.mpr (one_div_ne_zero hd)

/-- the crossing parameters the code generates for one moving axis are exactly the parameters in `(lo, hi)` at which the line
    meets a grid plane of that axis (entry point not on a plane) -/
theorem mem_axisEvents_fst (inc : ℕ) (s d lo hi t : ℚ) (hd : d ≠ 0) (hgen : ¬ Cross s d lo) :
    t ∈ (axisEvents inc s d lo hi).map Prod.fst ↔ lo < t ∧ t < hi ∧ Cross s d t := by
  unfold axisEvents
  rw [if_neg hd]
  simp only [List.map_map, Function.comp_def, List.map_id']
  rw [mem_arangeQ _ _ _ _ (absK_inv_pos d hd)]
  unfold cFirst
  simp only [ratCeil_eq]
  set A := s + d * lo with hA
  have hAc : A ≤ (⌈A⌉ : ℚ) := Int.le_ceil A
  have hAne : A ≠ (⌈A⌉ : ℚ) := fun h => hgen ⟨⌈A⌉, by rw [← h, hA]; ring⟩
  have hAlt : A < (⌈A⌉ : ℚ) := lt_of_le_of_ne hAc hAne
  have hAgt : (⌈A⌉ : ℚ) < A + 1 := Int.ceil_lt_add_one A
  rcases lt_or_gt_of_ne hd with hneg | hpos
  · rw [if_neg (not_lt.mpr hneg.le), absK_eq, abs_of_neg (one_div_neg.mpr hneg)]
    constructor
    · rintro ⟨i, rfl, hlt⟩
      have hval : s + (((⌈A⌉ : ℚ) - 1 - s) / d + (i : ℚ) * -(1 / d)) * d = (⌈A⌉ : ℚ) - 1 - i := by field_simp; ring
      refine ⟨?_, hlt, ⟨⌈A⌉ - 1 - i, by rw [hval]; push_cast; ring⟩⟩
      have hi0 : (0 : ℚ) ≤ i := Nat.cast_nonneg i
      have : s + (((⌈A⌉ : ℚ) - 1 - s) / d + (i : ℚ) * -(1 / d)) * d < s + lo * d := by rw [hval]; linarith
      nlinarith
    · rintro ⟨hlo, hhi, k, hk⟩
      have hkA : (k : ℚ) < A := by rw [← hk, hA]; nlinarith
      have hkc : k < ⌈A⌉ := Int.lt_ceil.mpr hkA
      have ht : t = ((k : ℚ) - s) / d := by field_simp; linarith
      refine ⟨(⌈A⌉ - 1 - k).toNat, ?_, ?_⟩
      · have : (((⌈A⌉ - 1 - k).toNat : ℕ) : ℚ) = (⌈A⌉ : ℚ) - 1 - k := by
          have : (((⌈A⌉ - 1 - k).toNat : ℕ) : ℤ) = ⌈A⌉ - 1 - k := Int.toNat_of_nonneg (by omega)
          exact_mod_cast this
        rw [this, ht]; field_simp; ring
      · have : (((⌈A⌉ - 1 - k).toNat : ℕ) : ℚ) = (⌈A⌉ : ℚ) - 1 - k := by
          have : (((⌈A⌉ - 1 - k).toNat : ℕ) : ℤ) = ⌈A⌉ - 1 - k := Int.toNat_of_nonneg (by omega)
          exact_mod_cast this
        rw [this]
        have : ((⌈A⌉ : ℚ) - 1 - s) / d + ((⌈A⌉ : ℚ) - 1 - k) * -(1 / d) = t := by rw [ht]; field_simp; ring
        rw [this]; exact hhi
  · rw [if_pos hpos, absK_eq, abs_of_pos (one_div_pos.mpr hpos)]
    constructor
    · rintro ⟨i, rfl, hlt⟩
      have hval : s + (((⌈A⌉ : ℚ) - s) / d + (i : ℚ) * (1 / d)) * d = (⌈A⌉ : ℚ) + i := by field_simp; ring
      refine ⟨?_, hlt, ⟨⌈A⌉ + i, by rw [hval]; push_cast; ring⟩⟩
      have hi0 : (0 : ℚ) ≤ i := Nat.cast_nonneg i
      have : s + lo * d < s + (((⌈A⌉ : ℚ) - s) / d + (i : ℚ) * (1 / d)) * d := by rw [hval]; linarith
      nlinarith
    · rintro ⟨hlo, hhi, k, hk⟩
      have hkA : A < (k : ℚ) := by rw [← hk, hA]; nlinarith
      have hkc : ⌈A⌉ ≤ k := Int.ceil_le.mpr hkA.le
      have ht : t = ((k : ℚ) - s) / d := by field_simp; linarith
      have hcast : (((k - ⌈A⌉).toNat : ℕ) : ℚ) = (k : ℚ) - ⌈A⌉ := by
        have : (((k - ⌈A⌉).toNat : ℕ) : ℤ) = k - ⌈A⌉ := Int.toNat_of_nonneg (by omega)
        exact_mod_cast this
      have hsum : ((⌈A⌉ : ℚ) - s) / d + ((k : ℚ) - ⌈A⌉) * (1 / d) = t := by rw [ht]; field_simp; ring
      refine ⟨(k - ⌈A⌉).toNat, ?_, ?_⟩
      · rw [hcast, hsum]
      · rw [hcast, hsum]; exact hhi

theorem axisEvents_snd (inc : ℕ) (s d lo hi : ℚ) (e : ℚ × ℤ) (he : e ∈ axisEvents inc s d lo hi) :
    d ≠ 0 ∧ e.2 = sgn d * (inc : ℤ) := by
  unfold axisEvents at he
  by_cases hd : d = 0
  · rw [if_pos hd] at he; simp at he
  · rw [if_neg hd] at he
    simp only [List.mem_map] at he
    obtain ⟨t, _, rfl⟩ := he
    refine ⟨hd, ?_⟩
    unfold sgn
    by_cases hp : 0 < d <;> simp [hp]

theorem axisEvents_sorted (inc : ℕ) (s d lo hi : ℚ) :
    ((axisEvents inc s d lo hi).map Prod.fst).Pairwise (· < ·) := by
  unfold axisEvents
  by_cases hd : d = 0
  · rw [if_pos hd]; simp
  · rw [if_neg hd]
    simp only [List.map_map, Function.comp_def, List.map_id']
    exact arangeQ_sorted _ _ _ (absK_inv_pos d hd)

end NiftyVerif.ResponseLos
