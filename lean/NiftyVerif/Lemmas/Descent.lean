/-
  C16 — invariant of the acceptance loop `Descent.loop` (helper for Props/C16.lean).
-/
import NiftyVerif.Model.Descent
import Mathlib.Order.Basic
import Mathlib.Order.Defs.LinearOrder

namespace NiftyVerif.Descent

variable {K E σ : Type} [LinearOrder K]

/-- loop invariant: `e0 :: acc` is strictly decreasing in value and the current energy is a minimum of it -/
theorem loop_spec (o : Oracles K E σ) (e0 : E) :
    ∀ (fuel : Nat) (st : σ) (e : E) (fprev : Option K) (acc : List E) (r : Result E σ),
      loop o fuel st e fprev acc = some r →
      (e0 :: acc).Pairwise (fun a b => o.value b < o.value a) →
      (∀ a ∈ e0 :: acc, o.value e ≤ o.value a) →
      (e0 :: r.accepted).Pairwise (fun a b => o.value b < o.value a) ∧
      (∀ a ∈ e0 :: r.accepted, o.value r.energy ≤ o.value a) ∧
      r.status ≠ .continue_ := by
  intro fuel
  induction fuel with
  | zero => intro st e fprev acc r h; simp [loop] at h
  | succ n ih =>
    intro st e fprev acc r h hpw hmin
    simp only [loop] at h
    generalize (if (o.search st e fprev).2.2 = true then (o.search st e fprev).1
      else o.reset (o.search st e fprev).1) = st2 at h
    split at h
    · -- gradient norm zero
      cases h; exact ⟨hpw, hmin, by simp⟩
    · split at h
      · -- energy increased: the previous energy is returned
        cases h; exact ⟨hpw, hmin, by simp⟩
      · rename_i hnotlt
        split at h
        · -- energy unchanged: new energy returned, not recorded as a step
          rename_i heq
          cases h
          refine ⟨hpw, ?_, by simp⟩
          intro a ha; simpa [heq] using hmin a ha
        · rename_i hne
          have hlt : o.value (o.search st e fprev).2.1 < o.value e :=
            lt_of_le_of_ne (not_lt.mp hnotlt) hne
          have hpw' : (e0 :: (acc ++ [(o.search st e fprev).2.1])).Pairwise
              (fun a b => o.value b < o.value a) := by
            rw [← List.cons_append, List.pairwise_append]
            refine ⟨hpw, List.pairwise_singleton _ _, ?_⟩
            intro a ha b hb
            rw [List.mem_singleton] at hb; subst hb
            exact lt_of_lt_of_le hlt (hmin a ha)
          have hmin' : ∀ a ∈ e0 :: (acc ++ [(o.search st e fprev).2.1]),
              o.value (o.search st e fprev).2.1 ≤ o.value a := by
            intro a ha
            rw [← List.cons_append, List.mem_append, List.mem_singleton] at ha
            rcases ha with ha | ha
            · exact le_of_lt (lt_of_lt_of_le hlt (hmin a ha))
            · subst ha; exact le_refl _
          split at h
          · exact ih _ _ _ _ r h hpw' hmin'
          · rename_i hst
            cases h
            exact ⟨hpw', hmin', hst⟩

end NiftyVerif.Descent
