/-
  Lemmas/HarmonicAxis.lean — matrices applied along one axis of a tensor: composition, commutation, linearity.
  Generic over a "lens" (get/set of one index component); instantiated for the three axes of `Idx`.
-/
import NiftyVerif.Lemmas.HarmonicSum

namespace NiftyVerif.Harmonic
open Finset

variable {K : Type} [CommRing K]

/-- one index component of `Idx` -/
structure Lens where
  get : Idx → Nat
  set : Idx → Nat → Idx

structure Lens.OK (L : Lens) : Prop where
  get_set : ∀ i j, L.get (L.set i j) = j
  set_set : ∀ i j l, L.set (L.set i j) l = L.set i l
  set_get : ∀ i, L.set i (L.get i) = i

/-- two lenses look at different components -/
structure Lens.Indep (L M : Lens) : Prop where
  get_set : ∀ i j, L.get (M.set i j) = L.get i
  get_set' : ∀ i j, M.get (L.set i j) = M.get i
  comm : ∀ i j l, L.set (M.set i j) l = M.set (L.set i l) j

def L1 : Lens := ⟨Idx.j1, Idx.set1⟩
def L2 : Lens := ⟨Idx.j2, Idx.set2⟩
def L3 : Lens := ⟨Idx.j3, Idx.set3⟩

theorem L1_ok : L1.OK := ⟨fun _ _ => rfl, fun _ _ _ => rfl, fun _ => rfl⟩
theorem L2_ok : L2.OK := ⟨fun _ _ => rfl, fun _ _ _ => rfl, fun _ => rfl⟩
theorem L3_ok : L3.OK := ⟨fun _ _ => rfl, fun _ _ _ => rfl, fun _ => rfl⟩
theorem L12 : L1.Indep L2 := ⟨fun _ _ => rfl, fun _ _ => rfl, fun _ _ _ => rfl⟩
theorem L13 : L1.Indep L3 := ⟨fun _ _ => rfl, fun _ _ => rfl, fun _ _ _ => rfl⟩
theorem L23 : L2.Indep L3 := ⟨fun _ _ => rfl, fun _ _ => rfl, fun _ _ _ => rfl⟩
theorem L21 : L2.Indep L1 := ⟨fun _ _ => rfl, fun _ _ => rfl, fun _ _ _ => rfl⟩
theorem L31 : L3.Indep L1 := ⟨fun _ _ => rfl, fun _ _ => rfl, fun _ _ _ => rfl⟩
theorem L32 : L3.Indep L2 := ⟨fun _ _ => rfl, fun _ _ => rfl, fun _ _ _ => rfl⟩

/-- matrix `A` applied along the component `L` -/
def axG (L : Lens) (n : Nat) (A : Nat → Nat → K) (x : Tensor K) : Tensor K :=
  fun i => ∑ j ∈ range n, A (L.get i) j * x (L.set i j)

theorem ax1_eq (n : Nat) (A : Nat → Nat → K) (x : Tensor K) : ax1 n A x = axG L1 n A x := by
  funext i; simp only [ax1, axG, sumTo_eq_sum, L1]
theorem ax2_eq (n : Nat) (A : Nat → Nat → K) (x : Tensor K) : ax2 n A x = axG L2 n A x := by
  funext i; simp only [ax2, axG, sumTo_eq_sum, L2]
theorem ax3_eq (n : Nat) (A : Nat → Nat → K) (x : Tensor K) : ax3 n A x = axG L3 n A x := by
  funext i; simp only [ax3, axG, sumTo_eq_sum, L3]

/-- A·B = c·(permutation π)  ⇒  axis-application composes accordingly -/
theorem axG_comp (L : Lens) (hL : L.OK) (n : Nat) (A B : Nat → Nat → K) (c : K) (π : Nat → Nat)
    (hπ : ∀ k, k < n → π k < n)
    (hAB : ∀ k l, k < n → l < n → ∑ j ∈ range n, A k j * B j l = if l = π k then c else 0)
    (x : Tensor K) (i : Idx) (hi : L.get i < n) :
    axG L n A (axG L n B x) i = c * x (L.set i (π (L.get i))) := by
  simp only [axG, hL.get_set, hL.set_set]
  simp only [Finset.mul_sum]
  rw [Finset.sum_comm]
  have : ∀ l ∈ range n, ∑ j ∈ range n, A (L.get i) j * (B j l * x (L.set i l))
      = (if l = π (L.get i) then c else 0) * x (L.set i l) := by
    intro l hl
    rw [← hAB (L.get i) l hi (mem_range.mp hl), Finset.sum_mul]
    exact Finset.sum_congr rfl (fun j _ => by ring)
  rw [Finset.sum_congr rfl this]
  simp only [ite_mul, zero_mul]
  rw [Finset.sum_ite_eq' (range n) (π (L.get i))]
  rw [if_pos (mem_range.mpr (hπ _ hi))]

/-- applications along different components commute -/
theorem axG_comm (L M : Lens) (h : L.Indep M) (n m : Nat) (A B : Nat → Nat → K) (x : Tensor K) :
    axG L n A (axG M m B x) = axG M m B (axG L n A x) := by
  funext i
  simp only [axG, h.get_set, h.get_set', Finset.mul_sum]
  rw [Finset.sum_comm]
  refine Finset.sum_congr rfl (fun l _ => Finset.sum_congr rfl (fun j _ => ?_))
  rw [h.comm]; ring

theorem axG_smul (L : Lens) (n : Nat) (A : Nat → Nat → K) (c : K) (x : Tensor K) :
    axG L n A (fun i => c * x i) = fun i => c * axG L n A x i := by
  funext i
  simp only [axG, Finset.mul_sum]
  exact Finset.sum_congr rfl (fun j _ => by ring)

theorem axG_add (L : Lens) (n : Nat) (A : Nat → Nat → K) (x y : Tensor K) :
    axG L n A (fun i => x i + y i) = fun i => axG L n A x i + axG L n A y i := by
  funext i
  simp only [axG, ← Finset.sum_add_distrib]
  exact Finset.sum_congr rfl (fun j _ => by ring)

/-- a ring homomorphism passes through an axis application -/
theorem axG_map (σ : K →+* K) (L : Lens) (n : Nat) (A : Nat → Nat → K) (x : Tensor K) (i : Idx) :
    σ (axG L n A x i) = axG L n (fun k j => σ (A k j)) (fun i => σ (x i)) i := by
  simp only [axG, map_sum, map_mul]

end NiftyVerif.Harmonic
