/-
  Exact termination of CG for systems with a compatible complex structure `J` (`J² = −1`; multiplication by `i` for a
  complex Hermitian system seen as a real one): the span of the directions can be closed under `J`, so the dimension grows
  by **two** per iteration and CG makes at most `dim_K V / 2` passes — the classical bound `n` for complex `n × n` systems.
  Same invariants as in Lemmas/CgClassicExact.lean, with `W` a `J`-invariant subspace, plus `⟨r, J d⟩ = 0`
  (the complex inner product of residual and direction is real).
-/
import NiftyVerif.Lemmas.CgClassicExact

set_option linter.unusedSectionVars false
set_option linter.unnecessarySeqFocus false

namespace NiftyVerif.CgClassic
open NiftyVerif.Ctrl Submodule

variable {K V τ : Type} [Field K] [LinearOrder K] [IsStrictOrderedRing K] [AddCommGroup V] [Module K V]

/-- `Sys.SPDP` plus a complex structure `J` that is an isometry for `ip` and commutes with `A` and the preconditioner
    (i.e. `A`, `P` are complex-linear and `ip` is the real part of a Hermitian form) -/
structure Sys.Hermitian (S : Sys V K) (J : V → V) : Prop extends S.SPDP where
  J_add : ∀ x y, J (x + y) = J x + J y
  J_smul : ∀ (a : K) x, J (a • x) = a • J x
  J_sq : ∀ x, J (J x) = -x
  ip_J : ∀ x y, S.ip (J x) (J y) = S.ip x y
  A_J : ∀ x, S.A (J x) = J (S.A x)
  P_J : ∀ x, precond S (J x) = J (precond S x)

namespace Sys.Hermitian
variable {S : Sys V K} {J : V → V} (h : S.Hermitian J)
include h

theorem J_zero : J 0 = 0 := by
  have := h.J_smul 0 0
  simpa using this

theorem J_neg (x : V) : J (-x) = -J x := by
  have := h.J_smul (-1) x
  simpa using this

theorem J_sub (x y : V) : J (x - y) = J x - J y := by
  rw [sub_eq_add_neg, h.J_add, h.J_neg, ← sub_eq_add_neg]

theorem ip_neg_left (x y : V) : S.ip (-x) y = -S.ip x y := by
  have := h.bil.smul_left (-1) x y
  simpa using this

/-- `⟨J x, y⟩ = −⟨x, J y⟩` -/
theorem ip_J_left (x y : V) : S.ip (J x) y = -S.ip x (J y) := by
  rw [← h.ip_J (J x) y, h.J_sq, h.ip_neg_left]

theorem ip_self_J (x : V) : S.ip x (J x) = 0 := by
  have e := h.ip_J_left x x
  rw [h.bil.symm (J x) x] at e
  linarith

/-- `⟨J d, A d⟩ = 0`: the complex curvature `⟨d, A d⟩` is real -/
theorem ip_J_A (d : V) : S.ip (J d) (S.A d) = 0 := by
  have e : S.ip (J d) (S.A d) = -S.ip (J d) (S.A d) := by
    calc S.ip (J d) (S.A d) = -S.ip d (J (S.A d)) := h.ip_J_left d _
      _ = -S.ip d (S.A (J d)) := by rw [h.A_J]
      _ = -S.ip (S.A d) (J d) := by rw [h.selfAdj d (J d)]
      _ = -S.ip (J d) (S.A d) := by rw [h.bil.symm]
  linarith

/-- `⟨x, J P x⟩ = 0` -/
theorem ip_J_P (x : V) : S.ip x (J (precond S x)) = 0 := by
  have e : S.ip x (J (precond S x)) = -S.ip x (J (precond S x)) := by
    calc S.ip x (J (precond S x)) = S.ip x (precond S (J x)) := by rw [h.P_J]
      _ = S.ip (precond S x) (J x) := h.P_selfAdj x (J x)
      _ = -S.ip (J (precond S x)) x := by rw [h.ip_J_left (precond S x) x]; ring
      _ = -S.ip x (J (precond S x)) := by rw [h.bil.symm]
  linarith

end Sys.Hermitian

/-! ### subspaces of the form `X + K·e + K·J e` -/

theorem mem_sup2 {X : Submodule K V} {d e v : V} :
    v ∈ X ⊔ K ∙ d ⊔ K ∙ e ↔ ∃ w ∈ X, ∃ a b : K, w + a • d + b • e = v := by
  rw [mem_sup_span]
  constructor
  · rintro ⟨u, hu, b, rfl⟩
    obtain ⟨w, hw, a, rfl⟩ := mem_sup_span.1 hu
    exact ⟨w, hw, a, b, rfl⟩
  · rintro ⟨w, hw, a, b, rfl⟩
    exact ⟨w + a • d, mem_sup_span.2 ⟨w, hw, a, rfl⟩, b, rfl⟩

/-- a property that holds on `X`, at `d` and at `e` and is closed under `+` and scalar multiples holds on
    `X + K·d + K·e` -/
theorem forall_mem_sup2 {X : Submodule K V} {d e : V} {p : V → Prop} (hX : ∀ w ∈ X, p w) (hd : p d) (he : p e)
    (hadd : ∀ x y, p x → p y → p (x + y)) (hsmul : ∀ (a : K) x, p x → p (a • x)) :
    ∀ v ∈ X ⊔ K ∙ d ⊔ K ∙ e, p v := by
  intro v hv
  obtain ⟨w, hw, a, b, rfl⟩ := mem_sup2.1 hv
  exact hadd _ _ (hadd _ _ (hX w hw) (hsmul a d hd)) (hsmul b e he)

theorem left_mem_sup2 {X : Submodule K V} {d e w : V} (hw : w ∈ X) : w ∈ X ⊔ K ∙ d ⊔ K ∙ e :=
  Submodule.mem_sup_left (Submodule.mem_sup_left hw)
theorem mid_mem_sup2 (X : Submodule K V) (d e : V) : d ∈ X ⊔ K ∙ d ⊔ K ∙ e :=
  Submodule.mem_sup_left (self_mem_sup_span X d)
theorem right_mem_sup2 (X : Submodule K V) (d e : V) : e ∈ X ⊔ K ∙ d ⊔ K ∙ e :=
  self_mem_sup_span _ e

/-- `X + K·e + K·J e` is `J`-invariant when `X` is -/
theorem sup2_J_inv {S : Sys V K} {J : V → V} (h : S.Hermitian J) {X : Submodule K V} (hX : ∀ v ∈ X, J v ∈ X) (e : V) :
    ∀ v ∈ X ⊔ K ∙ e ⊔ K ∙ (J e), J v ∈ X ⊔ K ∙ e ⊔ K ∙ (J e) := by
  apply forall_mem_sup2 (p := fun v => J v ∈ X ⊔ K ∙ e ⊔ K ∙ (J e))
  · intro w hw; exact left_mem_sup2 (hX w hw)
  · exact right_mem_sup2 _ _ _
  · show J (J e) ∈ _
    rw [h.J_sq]; exact Submodule.neg_mem _ (mid_mem_sup2 _ _ _)
  · intro x y hx hy; show J (x + y) ∈ _; rw [h.J_add]; exact Submodule.add_mem _ hx hy
  · intro a x hx; show J (a • x) ∈ _; rw [h.J_smul]; exact Submodule.smul_mem _ a hx

/-- the invariants; `W` = `J`-invariant span of the earlier directions -/
structure ExactInvJ (S : Sys V K) (J : V → V) (W : Submodule K V) (r d : V) : Prop where
  r_perp : ∀ v ∈ W, S.ip r v = 0
  d_conj : ∀ v ∈ W, S.ip v (S.A d) = 0
  z_mem : precond S r ∈ W ⊔ K ∙ d ⊔ K ∙ (J d)
  krylov : ∀ v ∈ W, precond S (S.A v) ∈ W ⊔ K ∙ d ⊔ K ∙ (J d)
  W_J : ∀ v ∈ W, J v ∈ W
  /-- the complex inner product `⟨r, d⟩` is real -/
  rd_J : S.ip r (J d) = 0

theorem exactInvJ_init {S : Sys V K} {J : V → V} (hS : S.Hermitian J) (r : V) :
    ExactInvJ S J ⊥ r (precond S r) where
  r_perp := by intro v hv; rw [(Submodule.mem_bot K).1 hv]; exact ip_zero_right hS.bil r
  d_conj := by intro v hv; rw [(Submodule.mem_bot K).1 hv]; exact ip_zero_left hS.bil _
  z_mem := mid_mem_sup2 _ _ _
  krylov := by
    intro v hv
    rw [(Submodule.mem_bot K).1 hv, hS.lin.A_zero, hS.toSPDP.P_zero]
    exact Submodule.zero_mem _
  W_J := by intro v hv; rw [(Submodule.mem_bot K).1 hv, hS.J_zero]; exact Submodule.zero_mem _
  rd_J := hS.ip_J_P r

/-- one CG step preserves the invariants, with `W` enlarged by `d` **and** `J d` -/
theorem exact_step_J {S : Sys V K} {J : V → V} (hS : S.Hermitian J) {W : Submodule K V} {r d r' : V} {pg : K}
    (hI : ExactInvJ S J W r d) (hpg : pg = S.ip r d) (hpos : 0 < pg)
    (hr' : r' = r - (pg / S.ip d (S.A d)) • S.A d) :
    ExactInvJ S J (W ⊔ K ∙ d ⊔ K ∙ (J d)) r' ((S.ip r' (precond S r') / pg) • d + precond S r') := by
  obtain ⟨hcurv, halpha⟩ := spd_step_facts hS.toSPD hpg hpos
  have hb := hS.bil
  have hac : pg / S.ip d (S.A d) * S.ip d (S.A d) = pg := div_mul_cancel₀ pg (ne_of_gt hcurv)
  have hane : pg / S.ip d (S.A d) ≠ 0 := ne_of_gt halpha
  have hWJ' := sup2_J_inv hS hI.W_J d
  -- (1) the new residual is orthogonal to `W`, `d`, `J d`
  have h1w : ∀ w ∈ W, S.ip r' w = 0 := by
    intro w hw
    rw [hr', hb.sub_left, hb.smul_left, hI.r_perp w hw, hb.symm (S.A d) w, hI.d_conj w hw]; ring
  have h1d : S.ip r' d = 0 := by
    rw [hr', hb.sub_left, hb.smul_left, ← hpg, hb.symm (S.A d) d, hac]; ring
  have h1J : S.ip r' (J d) = 0 := by
    rw [hr', hb.sub_left, hb.smul_left, hI.rd_J, hb.symm (S.A d) (J d), hS.ip_J_A]; ring
  have h1 : ∀ v ∈ W ⊔ K ∙ d ⊔ K ∙ (J d), S.ip r' v = 0 := by
    apply forall_mem_sup2 (p := fun v => S.ip r' v = 0) h1w h1d h1J
    · intro x y hx hy; show S.ip r' (x + y) = 0; rw [hb.add_right, hx, hy]; ring
    · intro a x hx; show S.ip r' (a • x) = 0; rw [hb.smul_right, hx]; ring
  have hAd : S.A d = (pg / S.ip d (S.A d))⁻¹ • (r - r') := by
    rw [hr', sub_sub_cancel, smul_smul, inv_mul_cancel₀ hane, one_smul]
  have hz : S.ip r' (precond S r) = 0 := h1 _ hI.z_mem
  have hJz : S.ip r' (J (precond S r)) = 0 := h1 _ (hWJ' _ hI.z_mem)
  set γ' := S.ip r' (precond S r') with hγ'
  have hAdz : S.ip (S.A d) (precond S r') = -(γ' * S.ip d (S.A d) / pg) := by
    have e : S.ip ((pg / S.ip d (S.A d))⁻¹ • (r - r')) (precond S r')
        = (pg / S.ip d (S.A d))⁻¹ * (0 - γ') := by
      rw [hb.smul_left, hb.sub_left, hS.P_selfAdj r r', hb.symm (precond S r) r', hz]
    rw [← hAd, inv_div] at e
    rw [e]; ring
  -- `⟨J A d, z'⟩ = 0`
  have hJAdz : S.ip (J (S.A d)) (precond S r') = 0 := by
    have e : S.ip (J ((pg / S.ip d (S.A d))⁻¹ • (r - r'))) (precond S r') = 0 := by
      rw [hS.J_smul, hS.J_sub, hb.smul_left, hb.sub_left]
      have e1 : S.ip (J r) (precond S r') = 0 := by
        rw [hS.P_selfAdj (J r) r', hS.P_J, hb.symm]; exact hJz
      have e2 : S.ip (J r') (precond S r') = 0 := by
        rw [hS.ip_J_left, hS.ip_J_P]; ring
      rw [e1, e2]; ring
    rwa [← hAd] at e
  -- the new big subspace is `J`-invariant and contains `z'`
  have hz' : precond S r' ∈ W ⊔ K ∙ d ⊔ K ∙ (J d) ⊔ K ∙ ((γ' / pg) • d + precond S r')
      ⊔ K ∙ (J ((γ' / pg) • d + precond S r')) := by
    apply Submodule.mem_sup_left
    have hsub := Submodule.sub_mem (W ⊔ K ∙ d ⊔ K ∙ (J d) ⊔ K ∙ ((γ' / pg) • d + precond S r'))
      (self_mem_sup_span (W ⊔ K ∙ d ⊔ K ∙ (J d)) ((γ' / pg) • d + precond S r'))
      (Submodule.mem_sup_left (Submodule.smul_mem _ (γ' / pg) (mid_mem_sup2 W d (J d))))
    simpa using hsub
  have hWJ'' := sup2_J_inv hS hWJ' ((γ' / pg) • d + precond S r')
  have hPAd : precond S (S.A d) ∈ W ⊔ K ∙ d ⊔ K ∙ (J d) ⊔ K ∙ ((γ' / pg) • d + precond S r')
      ⊔ K ∙ (J ((γ' / pg) • d + precond S r')) := by
    rw [hAd, hS.P_smul, hS.toSPDP.P_sub]
    apply Submodule.smul_mem
    apply Submodule.sub_mem
    · exact left_mem_sup2 hI.z_mem
    · exact hz'
  refine ⟨h1, ?_, hz', ?_, hWJ', ?_⟩
  · -- (2) conjugacy of the new direction to `W`, `d`, `J d`
    apply forall_mem_sup2 (p := fun v => S.ip v (S.A ((γ' / pg) • d + precond S r')) = 0)
    · intro w hw
      show S.ip w (S.A ((γ' / pg) • d + precond S r')) = 0
      rw [hS.lin.A_add, hS.lin.A_smul, hb.add_right, hb.smul_right, hI.d_conj w hw, hS.selfAdj w,
        hS.P_selfAdj, hb.symm, h1 _ (hI.krylov w hw)]; ring
    · show S.ip d (S.A ((γ' / pg) • d + precond S r')) = 0
      rw [hS.lin.A_add, hS.lin.A_smul, hb.add_right, hb.smul_right, hS.selfAdj d (precond S r'), hAdz]
      field_simp
      ring
    · show S.ip (J d) (S.A ((γ' / pg) • d + precond S r')) = 0
      rw [hS.lin.A_add, hS.lin.A_smul, hb.add_right, hb.smul_right, hS.ip_J_A, hS.selfAdj (J d) (precond S r'),
        hS.A_J, hJAdz]; ring
    · intro x y hx hy
      show S.ip (x + y) _ = 0
      rw [hb.add_left, hx, hy]; ring
    · intro a x hx
      show S.ip (a • x) _ = 0
      rw [hb.smul_left, hx]; ring
  · -- (4) Krylov property
    apply forall_mem_sup2 (p := fun v => precond S (S.A v) ∈ W ⊔ K ∙ d ⊔ K ∙ (J d)
      ⊔ K ∙ ((γ' / pg) • d + precond S r') ⊔ K ∙ (J ((γ' / pg) • d + precond S r')))
    · intro w hw; exact left_mem_sup2 (hI.krylov w hw)
    · exact hPAd
    · show precond S (S.A (J d)) ∈ _
      rw [hS.A_J, hS.P_J]; exact hWJ'' _ hPAd
    · intro x y hx hy
      show precond S (S.A (x + y)) ∈ _
      rw [hS.lin.A_add, hS.P_add]; exact Submodule.add_mem _ hx hy
    · intro a x hx
      show precond S (S.A (a • x)) ∈ _
      rw [hS.lin.A_smul, hS.P_smul]; exact Submodule.smul_mem _ a hx
  · -- (6) `⟨r', J d'⟩ = 0`
    rw [hS.J_add, hS.J_smul, hb.add_right, hb.smul_right, h1J, hS.ip_J_P]; ring

/-- the dimension grows by two -/
theorem exact_dim_J {S : Sys V K} {J : V → V} (hS : S.Hermitian J) [FiniteDimensional K V] {W : Submodule K V}
    {r d : V} {pg : K} (hI : ExactInvJ S J W r d) (hpg : pg = S.ip r d) (hpos : 0 < pg) :
    Module.finrank K W + 2 ≤ Module.finrank K ↥(W ⊔ K ∙ d ⊔ K ∙ (J d)) ∧
    Module.finrank K ↥(W ⊔ K ∙ d ⊔ K ∙ (J d)) ≤ Module.finrank K V := by
  obtain ⟨hcurv, _⟩ := spd_step_facts hS.toSPD hpg hpos
  have hd : d ∉ W := fun h => absurd (hI.d_conj d h) (ne_of_gt hcurv)
  have hlt1 : W < W ⊔ K ∙ d := by
    refine lt_of_le_of_ne le_sup_left ?_
    intro h; apply hd; rw [h]; exact self_mem_sup_span W d
  have hJd : J d ∉ W ⊔ K ∙ d := by
    intro hmem
    obtain ⟨w, hw, c, hc⟩ := mem_sup_span.1 hmem
    have e : S.ip (w + c • d) (S.A d) = 0 := by rw [hc]; exact hS.ip_J_A d
    rw [hS.bil.add_left, hS.bil.smul_left, hI.d_conj w hw, zero_add] at e
    have hc0 : c = 0 := by
      rcases mul_eq_zero.1 e with h0 | h0
      · exact h0
      · exact absurd h0 (ne_of_gt hcurv)
    rw [hc0, zero_smul, add_zero] at hc
    have : J (J d) ∈ W := hI.W_J _ (by rw [← hc]; exact hw)
    rw [hS.J_sq] at this
    exact hd (by simpa using Submodule.neg_mem _ this)
  have hlt2 : W ⊔ K ∙ d < W ⊔ K ∙ d ⊔ K ∙ (J d) := by
    refine lt_of_le_of_ne le_sup_left ?_
    intro h; apply hJd; rw [h]; exact self_mem_sup_span _ _
  have f1 := Submodule.finrank_lt_finrank_of_lt hlt1
  have f2 := Submodule.finrank_lt_finrank_of_lt hlt2
  exact ⟨by omega, Submodule.finrank_le _⟩

theorem loop_exact_J (S : Sys V K) (J : V → V) (hS : S.Hermitian J) [FiniteDimensional K V] (c : Ctrl K τ)
    (nreset : Int) (fuel : Nat)
    (E : QE V K) (r d : V) (pg : K) (ii : Int) (s : St τ) (ch md : List (QE V K)) (its : List (Iter K)) :
    ∀ (W : Submodule K V), E.Consistent S → r = E.grad → pg = S.ip r d → 0 < pg → ExactInvJ S J W r d →
      2 * its.length ≤ Module.finrank K W → Module.finrank K V ≤ 2 * (fuel + its.length) →
      (loop S c nreset fuel E r d pg ii s ch md its).reason ≠ .fuel ∧
      2 * (loop S c nreset fuel E r d pg ii s ch md its).iters.length ≤ Module.finrank K V := by
  fun_induction loop S c nreset fuel E r d pg ii s ch md its
  case case1 =>
    intro W hE hr hpg hpos hI hk hfuel
    have := exact_dim_J hS hI hpg hpos
    omega
  case case2 fuel E r d pg ii s ch md its h =>
    intro W hE hr hpg hpos hI hk hfuel
    exact absurd h (ne_of_gt (spd_step_facts hS.toSPD hpg hpos).1)
  case case3 fuel E r d pg ii s ch md its _ h =>
    intro W hE hr hpg hpos hI hk hfuel
    exact absurd h (not_lt.2 (le_of_lt (spd_step_facts hS.toSPD hpg hpos).2))
  case case4 fuel E r d pg ii s ch md its hcurv halpha E' r' ii' hadv it h =>
    intro W hE hr hpg hpos hI hk hfuel
    exfalso
    by_cases h0 : r' = 0
    · rw [h0, ip_zero_left hS.bil] at h; exact lt_irrefl _ h
    · exact lt_asymm (hS.P_pos r' h0) h
  case case5 fuel E r d pg ii s ch md its hcurv halpha E' r' ii' hadv it hgam h =>
    intro W hE hr hpg hpos hI hk hfuel
    have := exact_dim_J hS hI hpg hpos
    refine ⟨by simp, ?_⟩
    simp only [List.length_append, List.length_singleton]
    omega
  case case6 fuel E r d pg ii s ch md its hcurv halpha E' r' ii' hadv it hgam hgz hchk =>
    intro W hE hr hpg hpos hI hk hfuel
    have := exact_dim_J hS hI hpg hpos
    refine ⟨by simp, ?_⟩
    simp only [List.length_append, List.length_singleton]
    omega
  case case7 fuel E r d pg ii s ch md its hcurv halpha E' r' ii' hadv it hgam hgz s1 status hchk hst =>
    intro W hE hr hpg hpos hI hk hfuel
    have := exact_dim_J hS hI hpg hpos
    refine ⟨by simp, ?_⟩
    simp only [List.length_append, List.length_singleton]
    omega
  case case8 fuel E r d pg ii s ch md its hcurv halpha E' r' ii' hadv it hg1 hg2 s1 status hchk hst ih =>
    intro W hE hr hpg hpos hI hk hfuel
    obtain ⟨hE', hr', _, hgrad'⟩ := advance_eq_spec S hS.lin hE hr hadv
    have hgpos : 0 < S.ip r' (precond S r') := lt_of_le_of_ne (not_lt.1 hg1) (Ne.symm hg2)
    have hdim := exact_dim_J hS hI hpg hpos
    have hbeta : 0 < S.ip r' (precond S r') / pg := div_pos hgpos hpos
    have hstep := exact_step_J hS hI hpg hpos (r' := r') (by rw [hr', hgrad'])
    obtain ⟨_, hrd⟩ := spd_advance_facts hS.toSPD hE hr hpg hpos hadv
    have hstep' : ExactInvJ S J (W ⊔ K ∙ d ⊔ K ∙ (J d)) r'
        ((if 0 < S.ip r' (precond S r') / pg then S.ip r' (precond S r') / pg else 0) • d + precond S r') := by
      rw [if_pos hbeta]; exact hstep
    apply ih (W ⊔ K ∙ d ⊔ K ∙ (J d)) hE' hr' _ hgpos hstep'
    · simp only [List.length_append, List.length_singleton]; omega
    · simp only [List.length_append, List.length_singleton]; omega
    · rw [hS.bil.add_right, hS.bil.smul_right, hrd]; ring

/-- with a compatible complex structure CG makes at most `dim_K V / 2` passes through its loop -/
theorem cg_exact_J (S : Sys V K) (J : V → V) (hS : S.Hermitian J) [FiniteDimensional K V] (c : Ctrl K τ)
    (nreset : Int) (fuel : Nat) (hfuel : Module.finrank K V ≤ 2 * fuel) (E : QE V K) (hE : E.Consistent S) :
    (cg S c nreset fuel E).reason ≠ .fuel ∧ 2 * (cg S c nreset fuel E).iters.length ≤ Module.finrank K V := by
  unfold cg
  split
  · exact ⟨by simp, by simp⟩
  · split
    · exact ⟨by simp, by simp⟩
    · dsimp only
      split
      · exact ⟨by simp, by simp⟩
      · rename_i hpg
        have hne : E.grad ≠ 0 := by
          intro h0; apply hpg; rw [h0, ip_zero_left hS.bil]
        exact loop_exact_J S J hS c nreset fuel E E.grad (precond S E.grad) (S.ip E.grad (precond S E.grad)) 0 _
          [E] [] [] ⊥ hE rfl rfl (hS.P_pos _ hne) (exactInvJ_init hS _) (by simp) (by simpa using hfuel)

end NiftyVerif.CgClassic
