/-
  Helper lemmas for C12: the core-only sums/matrices of Model/LikelihoodRe.lean are Mathlib's `Finset.sum` /
  `Matrix` operations, dense matrices of diagonal maps, the block row / block column product.
-/
import NiftyVerif.Model.LikelihoodRe
import Mathlib.Data.Matrix.Mul
import Mathlib.Algebra.BigOperators.Fin
import Mathlib.Tactic.Ring
import Mathlib.Tactic.FieldSimp

namespace NiftyVerif.LikelihoodRe
open Matrix

variable {K : Type}

section semiring
variable [CommRing K]

theorem vsum_eq_sum : ∀ (n : Nat) (f : Fin n → K), vsum n f = ∑ i, f i
  | 0, f => by simp [vsum]
  | n + 1, f => by rw [vsum, vsum_eq_sum n, Fin.sum_univ_succ]

theorem mmul_eq {l m n : Nat} (A : Fin l → Fin m → K) (B : Fin m → Fin n → K) :
    Matrix.of (mmul A B) = Matrix.of A * Matrix.of B := by
  ext i k; simp [mmul, vsum_eq_sum, Matrix.mul_apply]

omit [CommRing K] in
theorem mT_eq {m n : Nat} (A : Fin m → Fin n → K) : Matrix.of (mT A) = (Matrix.of A)ᵀ := rfl

theorem madd_eq {m n : Nat} (A B : Fin m → Fin n → K) :
    Matrix.of (madd A B) = Matrix.of A + Matrix.of B := rfl

omit [CommRing K] in
theorem mT_hcat {n m1 m2 : Nat} (A : Fin n → Fin m1 → K) (B : Fin n → Fin m2 → K) :
    mT (hcat A B) = vcat (mT A) (mT B) := by
  funext i j; simp only [mT, hcat, vcat]

/-- `[A | B] · [C ; D] = A·C + B·D` -/
theorem hcat_mul_vcat {n k m1 m2 : Nat} (A : Fin n → Fin m1 → K) (B : Fin n → Fin m2 → K)
    (C : Fin m1 → Fin k → K) (D : Fin m2 → Fin k → K) :
    mmul (hcat A B) (vcat C D) = madd (mmul A C) (mmul B D) := by
  funext i j
  simp only [mmul, madd, vsum_eq_sum, Fin.sum_univ_add]
  congr 1
  · apply Finset.sum_congr rfl; intro x _
    simp [hcat, vcat]
  · apply Finset.sum_congr rfl; intro x _
    simp [hcat, vcat]

/-- dense matrix of a diagonal map -/
theorem toMat_diag {n : Nat} (f : (Fin n → K) → (Fin n → K)) (a : Fin n → K)
    (h : ∀ t i, f t i = a i * t i) : Matrix.of (toMat f) = Matrix.diagonal a := by
  ext i j
  simp only [Matrix.of_apply, toMat, h, unit, Matrix.diagonal_apply]
  by_cases hij : i = j <;> simp [hij]

/-- a diagonal metric with a diagonal left square root whose squares are the metric entries factors -/
theorem diag_factor {n : Nat} (fM fL : (Fin n → K) → (Fin n → K)) (a b : Fin n → K)
    (hM : ∀ t i, fM t i = a i * t i) (hL : ∀ t i, fL t i = b i * t i) (hab : ∀ i, b i * b i = a i) :
    Matrix.of (toMat fM) = Matrix.of (toMat fL) * (Matrix.of (toMat fL))ᵀ := by
  rw [toMat_diag fM a hM, toMat_diag fL b hL, Matrix.diagonal_transpose, Matrix.diagonal_mul_diagonal]
  congr 1; funext i; exact (hab i).symm

end semiring

end NiftyVerif.LikelihoodRe
